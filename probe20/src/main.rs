//! C20 probe: built once per feature subset (default features off); prints a digest of a fixed battery of core
//! computations and of every helper of each enabled trait.  With the alias feature `all` every battery is enabled via
//! `geonum/all` (this crate's own per-feature cfgs are then off, so `all` is expanded by hand below).
//!
//! `probe20 run` instead reads protocol lines (the same ones the correspondence check uses) from stdin and prints each
//! result, with `bad-op` for an operation whose trait is not compiled into this configuration; the C20 check compares
//! those streams across all configurations, so a behavioural difference between feature subsets is reported with the
//! concrete input line that shows it.
mod ops_gen;
mod val;
use geonum::{Angle, GeoCollection, Geonum};
use std::io::{BufRead, Write};

fn run_line(line: &str) -> String {
    let mut it = line.split_whitespace();
    let name = match it.next() { Some(n) => n, None => return "bad-op".into() };
    let sig = match ops_gen::OPS.iter().find(|o| o.0 == name) { Some(o) => o.1, None => return "bad-op".into() };
    let toks: Vec<&str> = it.collect();
    if toks.len() != sig.len() { return "bad-op".into(); }
    let mut args = Vec::new();
    for (k, t) in sig.chars().zip(toks.iter()) {
        match val::parse_arg(k, t) { Some(v) => args.push(v), None => return "bad-op".into() }
    }
    let name = name.to_string();
    match std::panic::catch_unwind(move || ops_gen::run_op(&name, &args)) {
        Ok(Some(s)) => s,
        Ok(None) => "bad-op".into(),
        Err(_) => "panic".into(),
    }
}


struct H(u64);
impl H {
    fn new() -> Self { H(0xcbf29ce484222325) }
    fn u(&mut self, x: u64) { for b in x.to_le_bytes() { self.0 ^= b as u64; self.0 = self.0.wrapping_mul(0x100000001b3); } }
    fn f(&mut self, x: f64) { self.u(if x.is_nan() { 0x7ff8000000000000 } else { x.to_bits() }) }
    fn a(&mut self, a: &Angle) { self.u(a.blade() as u64); self.f(a.rem()); }
    fn g(&mut self, g: &Geonum) { self.f(g.mag); self.a(&g.angle); }
}

fn inputs() -> Vec<Geonum> {
    let mut v = Vec::new();
    for (m, p, d, b) in [(1.0, 0.0, 1.0, 0usize), (2.5, 1.0, 3.0, 0), (0.75, 5.0, 4.0, 7), (3.0, 1.0, 2.0, 1000), (1e-3, 7.0, 6.0, 1_000_000), (12.0, -1.0, 5.0, 2), (1.5, 1.0, 1.0, 3)] {
        v.push(Geonum::new_with_blade(m, b, p, d));
    }
    v
}

fn core_battery() -> u64 {
    let v = inputs();
    let mut h = H::new();
    for a in &v { for b in &v {
        h.g(&(*a * *b)); h.g(&(*a + *b)); h.g(&(*a - *b)); h.g(&(*a / *b)); h.g(&a.dot(b)); h.g(&a.wedge(b)); h.g(&a.geo(b));
        h.g(&a.meet(b)); h.g(&a.project(b)); h.g(&a.reject(b)); h.g(&a.reflect(b)); h.g(&a.distance_to(b)); h.g(&a.copy_blade(b));
        h.u(a.is_orthogonal(b) as u64); h.f(a.mag_diff(b)); h.u((a == b) as u64); h.u(a.cmp(b) as i8 as u64);
        h.a(&(a.angle + b.angle)); h.a(&(a.angle - b.angle)); h.f(a.angle.project(b.angle)); h.u(a.angle.is_opposite(&b.angle) as u64);
    } }
    for a in &v {
        h.g(&a.dual()); h.g(&a.undual()); h.g(&a.negate()); h.g(&a.differentiate()); h.g(&a.integrate()); h.g(&a.inv()); h.g(&a.normalize());
        h.g(&a.pow(2.5)); h.g(&a.scale(-1.5)); h.g(&a.adj()); h.g(&a.opp()); h.g(&Geonum::cos(a.angle)); h.g(&Geonum::sin(a.angle)); h.g(&Geonum::tan(a.angle));
        h.g(&a.base_angle()); h.g(&a.scale_rotate(-2.0, a.angle)); h.f(a.project_to_dimension(5)); h.f(a.angle.grade_angle()); h.a(&(a.angle / 3.0));
        h.g(&a.invert_circle(&Geonum::new(0.1, 1.0, 7.0), 2.0)); h.g(&Geonum::new_from_cartesian(a.mag, -a.mag * 0.3)); h.g(&Geonum::scalar(-a.mag));
    }
    let c = GeoCollection::from(v.clone());
    for g in c.truncate(1.0).iter() { h.g(g); }
    for g in c.select_cone(&v[1], 1.0).iter() { h.g(g); }
    for g in c.scale_all(2.0).iter() { h.g(g); }
    for g in c.rotate_all(v[2].angle).iter() { h.g(g); }
    h.f(c.total_magnitude()); h.g(c.dominant().unwrap());
    let mut s = v.clone(); s.sort(); for g in &s { h.g(g); }
    h.f(geonum::EPSILON);
    h.0
}

#[cfg(any(feature = "optics", feature = "all"))]
fn optics_battery() -> u64 {
    use geonum::Optics;
    let v = inputs(); let mut h = H::new();
    for a in &v { for b in &v[1..4] {
        h.g(&a.refract(Geonum::new(1.5, 0.0, 1.0))); h.g(&a.aberrate(&[*b, v[1]])); h.g(&a.otf(*b, v[2])); h.g(&a.abcd_transform(v[0], *b, v[1], v[2])); h.g(&a.magnify(*b));
    } }
    h.0
}
#[cfg(any(feature = "projection", feature = "all"))]
fn projection_battery() -> u64 {
    use geonum::Projection;
    let v = inputs(); let mut h = H::new();
    for a in &v { for b in &v { h.g(&a.view(&b.angle, |t: &Angle| *t)); h.g(&a.compose(b)); } }
    h.0
}
#[cfg(any(feature = "ml", feature = "all"))]
fn ml_battery() -> u64 {
    use geonum::{Activation, MachineLearning};
    let v = inputs(); let mut h = H::new();
    for a in &v { for b in &v {
        h.g(&a.forward_pass(b, &v[1])); h.g(&a.perceptron_update(0.1, -0.5, b));
        for act in [Activation::ReLU, Activation::Sigmoid, Activation::Tanh, Activation::Identity] { h.g(&a.activate(act)); }
    } }
    h.g(&<Geonum as MachineLearning>::regression_from(0.7, 2.0));
    h.0
}
#[cfg(any(feature = "em", feature = "all"))]
fn em_battery() -> u64 {
    use geonum::Electromagnetics;
    let v = inputs(); let mut h = H::new();
    for a in &v { for b in &v[1..5] {
        h.g(&<Geonum as Electromagnetics>::inverse_field(*a, *b, Geonum::scalar(2.0), a.angle, v[1])); h.g(&<Geonum as Electromagnetics>::electric_potential(*a, *b));
        h.g(&<Geonum as Electromagnetics>::electric_field(*a, *b)); h.g(&a.poynting_vector(b)); h.g(&<Geonum as Electromagnetics>::wire_vector_potential(*b, *a, v[1]));
        h.g(&<Geonum as Electromagnetics>::wire_magnetic_field(*b, *a, v[1])); h.g(&<Geonum as Electromagnetics>::spherical_wave_potential(*b, *a, v[1], v[2]));
    } }
    h.f(geonum::traits::electromagnetics::VACUUM_IMPEDANCE); h.f(geonum::traits::electromagnetics::VACUUM_PERMITTIVITY);
    h.0
}
#[cfg(any(feature = "waves", feature = "all"))]
fn waves_battery() -> u64 {
    use geonum::Waves;
    let v = inputs(); let mut h = H::new();
    for a in &v { for b in &v[1..5] {
        h.g(&a.propagate(*b, v[1], v[2])); h.g(&<Geonum as Waves>::disperse(*a, *b, v[1], v[2])); h.g(&a.frequency(b, v[1])); h.g(&a.wavenumber(b, v[2]));
    } }
    h.0
}
#[cfg(any(feature = "affine", feature = "all"))]
fn affine_battery() -> u64 {
    use geonum::traits::Affine;
    let v = inputs(); let mut h = H::new();
    for a in &v { for b in &v { h.g(&a.translate(b)); h.g(&a.shear(b.angle)); h.f(<Geonum as Affine>::area_quadrilateral(a, b, &v[1], &v[2])); } }
    h.0
}

fn main() {
    if std::env::args().nth(1).as_deref() == Some("run") {
        std::panic::set_hook(Box::new(|_| {}));
        let out = std::io::stdout(); let mut out = std::io::BufWriter::new(out.lock());
        for line in std::io::stdin().lock().lines() { writeln!(out, "{}", run_line(&line.unwrap())).unwrap(); }
        return;
    }
    println!("core {:016x}", core_battery());
    #[cfg(any(feature = "optics", feature = "all"))] println!("optics {:016x}", optics_battery());
    #[cfg(any(feature = "projection", feature = "all"))] println!("projection {:016x}", projection_battery());
    #[cfg(any(feature = "ml", feature = "all"))] println!("ml {:016x}", ml_battery());
    #[cfg(any(feature = "em", feature = "all"))] println!("em {:016x}", em_battery());
    #[cfg(any(feature = "waves", feature = "all"))] println!("waves {:016x}", waves_battery());
    #[cfg(any(feature = "affine", feature = "all"))] println!("affine {:016x}", affine_battery());
}
