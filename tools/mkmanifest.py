#!/usr/bin/env python3
"""writes /verif/MANIFEST.json from tools/props_config.py + tools/manifest_text.py"""
import json, os, sys
ROOT = os.path.dirname(os.path.dirname(os.path.abspath(__file__)))
sys.path.insert(0, os.path.join(ROOT, "tools"))
import props_config as PC
import manifest_text as MT

ALL = ["C%02d" % i for i in range(1, 21)]
checks = []
for pid in ALL:
    if pid not in PC.PROPS or pid not in MT.TEXT:
        continue
    t = MT.TEXT[pid]
    checks.append({
        "property_id": pid,
        "quick_cmd": f"./check {pid} --tier quick",
        "thorough_cmd": f"./check {pid} --tier thorough",
        "evidence_file": f"/verif/evidence/{pid}.json",
        "replay_cmd_template": f"./check {pid} --replay {{path}}",
        "engine": "lean-proof+tie",
        "level_claimed": {"category": "proof", "text": t["level"], "design_ref": t.get("design", "DESIGN.md §8 " + pid)},
        "level_note": t["note"],
        "technique": t.get("technique", "Lean 4 theorems over an arithmetic-generic model + bit-exact model/implementation correspondence"),
    })
na = [{"property_id": p, "reason": MT.NOT_YET.get(p, "not yet claimed: model and tie exist, theorems being written")} for p in ALL if p not in [c["property_id"] for c in checks]]
m = {
    "version": 1,
    "setup_cmd": "./setup.sh",
    "hooks": {
        "guard": "--cfg geonum_verif",
        "enable": "harness/.cargo/config.toml sets build.rustflags = [\"--cfg\", \"geonum_verif\"]; the harness depends on /repo by path",
        "baseline_off_cmd": "cd /repo && cargo test --workspace --no-fail-fast --offline",
        "source_commits": MT.HOOK_COMMITS,
        "add_only": True,
    },
    "engines": [
        {"name": "lean-proof+tie", "path": "/verif/check", "serves_properties": [c["property_id"] for c in checks],
         "kind_free_text": "Lean 4 proofs about a hand-written model generic over the float arithmetic (lean/GeonumModel), tied to "
                           "/repo on every run by a bit-exact line-protocol correspondence between the compiled model (gdriver) "
                           "and a Rust harness calling the real crate; property oracles search for failing inputs"},
    ],
    "checks": checks,
    "notes": MT.NOTES,
    "not_applicable": na,
}
json.dump(m, open(os.path.join(ROOT, "MANIFEST.json"), "w"), indent=1)
print(len(checks), "checks,", len(na), "not claimed")
