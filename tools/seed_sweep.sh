#!/bin/bash
# false-alarm hunt: run every quick check under many seeds on the unchanged tree, in scratch dirs
cd /verif
export VERIF_WORK=/tmp/sweep_work VERIF_EVIDENCE=/tmp/sweep_ev VERIF_REPLAYS=/tmp/sweep_replays
mkdir -p $VERIF_WORK
from=${1:-2}; to=${2:-30}
for seed in $(seq $from $to); do
  for i in $(seq -w 1 19); do
    out=$(VERIF_SEED=$seed ./check C$i 2>&1 | grep -E "^(VIOLATION|OK)" | cut -c1-200)
    case "$out" in OK*) ;; *) echo "seed=$seed $out";; esac
  done
  echo "seed $seed done"
done
echo SWEEP-DONE
