#!/usr/bin/env python3
"""
Single source of truth for the correspondence protocol.

Each entry: (name, arg signature, result kind, Lean expression, Rust expression, cone tags)

  arg kinds   F f64 | N usize | I i64 | A Angle | G Geonum | L Vec<Geonum> | T Activation
  result kind F | N | B | A | G | L | O (Ordering, panic if unordered) | OO (partial_cmp)
              OG (Option<Geonum>; none = panic) | OOG (dominant) | U (unit: nothing but totality)

`gen.py` (this file run as a script) writes
  /verif/lean/GeonumModel/Exec/Dispatch.lean   (model side)
  /verif/harness/src/ops_gen.rs                (implementation side)
Both are committed; `./check` verifies they are up to date with this table.
"""
import sys, os

OPS = []
def op(name, sig, ret, lean, rust, tags=""):
    OPS.append((name, sig, ret, lean, rust, tags))

# ------------------------------------------------------------------ Angle
op("angle.new", "FF", "A", "Angle.new x0 x1", "Angle::new(x0, x1)")
op("angle.new_with_blade", "NFF", "A", "Angle.newWithBlade x0 x1 x2", "Angle::new_with_blade(x0, x1, x2)")
op("angle.new_from_cartesian", "FF", "A", "Angle.newFromCartesian x0 x1", "Angle::new_from_cartesian(x0, x1)")
op("angle.rotate", "AA", "A", "x0.rotate x1", "x0.rotate(x1)")
op("angle.rem", "A", "F", "x0.rem", "x0.rem()")
op("angle.blade", "A", "N", "x0.blade", "x0.blade()")
op("angle.grade", "A", "N", "x0.grade", "x0.grade()")
op("angle.is_scalar", "A", "B", "x0.isScalar", "x0.is_scalar()")
op("angle.is_vector", "A", "B", "x0.isVector", "x0.is_vector()")
op("angle.is_bivector", "A", "B", "x0.isBivector", "x0.is_bivector()")
op("angle.is_trivector", "A", "B", "x0.isTrivector", "x0.is_trivector()")
op("angle.base_angle", "A", "A", "x0.baseAngle", "x0.base_angle()")
op("angle.is_opposite", "AA", "B", "x0.isOpposite x1", "x0.is_opposite(&x1)")
op("angle.dual", "A", "A", "x0.dual", "x0.dual()")
op("angle.undual", "A", "A", "x0.undual", "x0.undual()")
op("angle.conjugate", "A", "A", "x0.conjugate", "x0.conjugate()")
op("angle.negate", "A", "A", "x0.negate", "x0.negate()")
op("angle.grade_angle", "A", "F", "x0.gradeAngle", "x0.grade_angle()")
op("angle.project", "AA", "F", "x0.project x1", "x0.project(x1)")
op("angle.eq", "AA", "B", "x0.beq x1", "x0 == x1")
for nm, lean, sym in (("add", "add", "+"), ("sub", "sub", "-"), ("mul", "mul", "*"), ("div", "div", "/")):
    op(f"angle.{nm}.vv", "AA", "A", f"Angle.{lean}VV x0 x1", f"x0 {sym} x1")
    op(f"angle.{nm}.vr", "AA", "A", f"Angle.{lean}VR x0 x1", f"x0 {sym} &x1")
    op(f"angle.{nm}.rv", "AA", "A", f"Angle.{lean}RV x0 x1", f"&x0 {sym} x1")
    op(f"angle.{nm}.rr", "AA", "A", f"Angle.{lean}RR x0 x1", f"&x0 {sym} &x1")
op("angle.divf.v", "AF", "A", "x0.divF x1", "x0 / x1")
op("angle.divf.r", "AF", "A", "x0.divFR x1", "&x0 / x1")
op("angle.partial_cmp", "AA", "OO", "x0.partialCmp x1", "x0.partial_cmp(&x1)")
op("angle.cmp", "AA", "O", "x0.cmp x1", "x0.cmp(&x1)")

# ------------------------------------------------------------------ Geonum
op("geonum.new", "FFF", "G", "Geonum.new x0 x1 x2", "Geonum::new(x0, x1, x2)")
op("geonum.new_with_angle", "FA", "G", "Geonum.newWithAngle x0 x1", "Geonum::new_with_angle(x0, x1)")
op("geonum.new_from_cartesian", "FF", "G", "Geonum.newFromCartesian x0 x1", "Geonum::new_from_cartesian(x0, x1)")
op("geonum.new_with_blade", "FNFF", "G", "Geonum.newWithBlade x0 x1 x2 x3", "Geonum::new_with_blade(x0, x1, x2, x3)")
op("geonum.create_dimension", "FN", "G", "Geonum.createDimension x0 x1", "Geonum::create_dimension(x0, x1)")
op("geonum.scalar", "F", "G", "Geonum.scalar x0", "Geonum::scalar(x0)")
op("geonum.increment_blade", "G", "G", "x0.incrementBlade", "x0.increment_blade()")
op("geonum.decrement_blade", "G", "G", "x0.decrementBlade", "x0.decrement_blade()")
op("geonum.dual", "G", "G", "x0.dual", "x0.dual()")
op("geonum.undual", "G", "G", "x0.undual", "x0.undual()")
op("geonum.copy_blade", "GG", "G", "x0.copyBlade x1", "x0.copy_blade(&x1)")
op("geonum.differentiate", "G", "G", "x0.differentiate", "x0.differentiate()")
op("geonum.integrate", "G", "G", "x0.integrate", "x0.integrate()")
op("geonum.inv", "G", "OG", "x0.inv", "x0.inv()")
op("geonum.div", "GG", "OG", "x0.div x1", "Geonum::div(&x0, &x1)")
op("geonum.normalize", "G", "OG", "x0.normalize", "x0.normalize()")
op("geonum.dot", "GG", "G", "x0.dot x1", "x0.dot(&x1)")
op("geonum.project_to_dimension", "GN", "F", "x0.projectToDimension x1", "x0.project_to_dimension(x1)")
op("geonum.wedge", "GG", "G", "x0.wedge x1", "x0.wedge(&x1)")
op("geonum.geo", "GG", "G", "x0.geo x1", "x0.geo(&x1)")
op("geonum.rotate", "GA", "G", "x0.rotate x1", "x0.rotate(x1)")
op("geonum.negate", "G", "G", "x0.negate", "x0.negate()")
op("geonum.reflect", "GG", "G", "x0.reflect x1", "x0.reflect(&x1)")
op("geonum.project", "GG", "G", "x0.project x1", "x0.project(&x1)")
op("geonum.reject", "GG", "G", "x0.reject x1", "x0.reject(&x1)")
op("geonum.is_orthogonal", "GG", "B", "x0.isOrthogonal x1", "x0.is_orthogonal(&x1)")
op("geonum.mag_diff", "GG", "F", "x0.magDiff x1", "x0.mag_diff(&x1)")
op("geonum.pow", "GF", "G", "x0.pow x1", "x0.pow(x1)")
op("geonum.meet", "GG", "G", "x0.meet x1", "x0.meet(&x1)")
op("geonum.mag", "G", "F", "x0.mag", "x0.mag()")
op("geonum.angle", "G", "A", "x0.angle", "x0.angle()")
op("geonum.scale", "GF", "G", "x0.scale x1", "x0.scale(x1)")
op("geonum.invert_circle", "GGF", "OG", "x0.invertCircle x1 x2", "x0.invert_circle(&x1, x2)")
op("geonum.base_angle", "G", "G", "x0.baseAngle", "x0.base_angle()")
op("geonum.scale_rotate", "GFA", "G", "x0.scaleRotate x1 x2", "x0.scale_rotate(x1, x2)")
op("geonum.distance_to", "GG", "G", "x0.distanceTo x1", "x0.distance_to(&x1)")
op("geonum.adj", "G", "G", "x0.adj", "x0.adj()")
op("geonum.opp", "G", "G", "x0.opp", "x0.opp()")
op("geonum.cos", "A", "G", "Geonum.cos x0", "Geonum::cos(x0)")
op("geonum.sin", "A", "G", "Geonum.sin x0", "Geonum::sin(x0)")
op("geonum.tan", "A", "OG", "Geonum.tan x0", "Geonum::tan(x0)")
op("geonum.project_to_angle", "GA", "G", "x0.projectToAngle x1", "x0.project_to_angle(x1)")
for nm, sym, ret in (("add", "+", "G"), ("sub", "-", "G"), ("mul", "*", "G"), ("div", "/", "OG")):
    base = {"add": "add", "sub": "sub", "mul": "mul", "div": "divVV"}[nm]
    op(f"geonum.{nm}.vv", "GG", ret, f"Geonum.{base} x0 x1", f"x0 {sym} x1")
    op(f"geonum.{nm}.rr", "GG", ret, f"Geonum.{nm}RR x0 x1", f"&x0 {sym} &x1")
    op(f"geonum.{nm}.rv", "GG", ret, f"Geonum.{nm}RV x0 x1", f"&x0 {sym} x1")
    op(f"geonum.{nm}.vr", "GG", ret, f"Geonum.{nm}VR x0 x1", f"x0 {sym} &x1")
op("geonum.angle_mul.v", "AG", "G", "Geonum.angleMul x0 x1", "x0 * x1")
op("geonum.angle_mul.r", "AG", "G", "Geonum.angleMulR x0 x1", "x0 * &x1")
op("geonum.angle_add.v", "AG", "G", "Geonum.angleAdd x0 x1", "x0 + x1")
op("geonum.angle_add.r", "AG", "G", "Geonum.angleAddR x0 x1", "x0 + &x1")
op("geonum.eq", "GG", "B", "x0.beq x1", "x0 == x1")
op("geonum.partial_cmp", "GG", "OO", "x0.partialCmp x1", "x0.partial_cmp(&x1)")
op("geonum.cmp", "GG", "O", "x0.cmp x1", "x0.cmp(&x1)")
op("geonum.sort", "L", "OL", "sortGeonums x0", "{ let mut v = x0.clone(); v.sort(); v }")

# ------------------------------------------------------------------ GeoCollection
C = "GeoCollection"
op("coll.new", "", "L", f"({C}.new : {C} Float).objects", "GeoCollection::new().objects")
op("coll.default", "", "L", f"({C}.default : {C} Float).objects", "GeoCollection::default().objects")
op("coll.len", "L", "N", f"({C}.fromVec x0).len", "GeoCollection::from(x0).len()")
op("coll.is_empty", "L", "B", f"({C}.fromVec x0).isEmpty", "GeoCollection::from(x0).is_empty()")
op("coll.iter", "L", "L", f"({C}.fromVec x0).iter", "GeoCollection::from(x0).iter().cloned().collect::<Vec<_>>()")
op("coll.from_vec", "L", "L", f"({C}.fromVec x0).objects", "GeoCollection::from(x0).objects")
op("coll.from_iter", "L", "L", f"({C}.fromIter x0).objects", "x0.into_iter().collect::<GeoCollection>().objects")
op("coll.index", "LN", "OG", f"({C}.fromVec x0).index x1", "GeoCollection::from(x0)[x1]")
op("coll.into_iter", "L", "L", f"({C}.fromVec x0).intoIter", "GeoCollection::from(x0).into_iter().collect::<Vec<_>>()")
op("coll.into_iter_ref", "L", "L", f"({C}.fromVec x0).intoIterRef", "(&GeoCollection::from(x0)).into_iter().cloned().collect::<Vec<_>>()")
op("coll.as_ref_vec", "L", "L", f"({C}.fromVec x0).asRefVec", "AsRef::<Vec<Geonum>>::as_ref(&GeoCollection::from(x0)).clone()")
op("coll.as_ref_slice", "L", "L", f"({C}.fromVec x0).asRefSlice", "AsRef::<[Geonum]>::as_ref(&GeoCollection::from(x0)).to_vec()")
op("coll.truncate", "LF", "L", f"(({C}.fromVec x0).truncate x1).objects", "GeoCollection::from(x0).truncate(x1).objects")
op("coll.select_cone", "LGF", "L", f"(({C}.fromVec x0).selectCone x1 x2).objects", "GeoCollection::from(x0).select_cone(&x1, x2).objects")
op("coll.total_magnitude", "L", "F", f"({C}.fromVec x0).totalMagnitude", "GeoCollection::from(x0).total_magnitude()")
op("coll.dominant", "L", "OOG", f"({C}.fromVec x0).dominant", "GeoCollection::from(x0).dominant().copied()")
op("coll.scale_all", "LF", "L", f"(({C}.fromVec x0).scaleAll x1).objects", "GeoCollection::from(x0).scale_all(x1).objects")
op("coll.rotate_all", "LA", "L", f"(({C}.fromVec x0).rotateAll x1).objects", "GeoCollection::from(x0).rotate_all(x1).objects")

# ------------------------------------------------------------------ traits
op("affine.translate", "GG", "G", "Affine.translate x0 x1", "Affine::translate(&x0, &x1)")
op("affine.shear", "GA", "G", "Affine.shear x0 x1", "Affine::shear(&x0, x1)")
op("affine.area_quadrilateral", "GGGG", "F", "Affine.areaQuadrilateral x0 x1 x2 x3", "<Geonum as Affine>::area_quadrilateral(&x0, &x1, &x2, &x3)")
op("projection.view", "GA", "G", "Projection.view x0 x1", "Projection::view(&x0, &x1, |a: &Angle| *a)")
op("projection.compose", "GG", "G", "Projection.compose x0 x1", "Projection::compose(&x0, &x1)")
op("optics.refract", "GG", "G", "Optics.refract x0 x1", "Optics::refract(&x0, x1)")
op("optics.aberrate", "GL", "G", "Optics.aberrate x0 x1", "Optics::aberrate(&x0, &x1)")
op("optics.otf", "GGG", "G", "Optics.otf x0 x1 x2", "Optics::otf(&x0, x1, x2)")
op("optics.abcd_transform", "GGGGG", "G", "Optics.abcdTransform x0 x1 x2 x3 x4", "Optics::abcd_transform(&x0, x1, x2, x3, x4)")
op("optics.magnify", "GG", "G", "Optics.magnify x0 x1", "Optics::magnify(&x0, x1)")
op("em.inverse_field", "GGGAG", "G", "EM.inverseField x0 x1 x2 x3 x4", "<Geonum as Electromagnetics>::inverse_field(x0, x1, x2, x3, x4)")
op("em.electric_potential", "GG", "OG", "EM.electricPotential x0 x1", "<Geonum as Electromagnetics>::electric_potential(x0, x1)")
op("em.electric_field", "GG", "G", "EM.electricField x0 x1", "<Geonum as Electromagnetics>::electric_field(x0, x1)")
op("em.poynting_vector", "GG", "G", "EM.poyntingVector x0 x1", "Electromagnetics::poynting_vector(&x0, &x1)")
op("em.wire_vector_potential", "GGG", "G", "EM.wireVectorPotential x0 x1 x2", "<Geonum as Electromagnetics>::wire_vector_potential(x0, x1, x2)")
op("em.wire_magnetic_field", "GGG", "G", "EM.wireMagneticField x0 x1 x2", "<Geonum as Electromagnetics>::wire_magnetic_field(x0, x1, x2)")
op("em.spherical_wave_potential", "GGGG", "G", "EM.sphericalWavePotential x0 x1 x2 x3", "<Geonum as Electromagnetics>::spherical_wave_potential(x0, x1, x2, x3)")
op("em.const.speed_of_light", "", "F", "(EM.speedOfLight : Float)", "geonum::traits::electromagnetics::SPEED_OF_LIGHT")
op("em.const.vacuum_permeability", "", "F", "(EM.vacuumPermeability : Float)", "geonum::traits::electromagnetics::VACUUM_PERMEABILITY")
op("em.const.vacuum_permittivity", "", "F", "(EM.vacuumPermittivity : Float)", "geonum::traits::electromagnetics::VACUUM_PERMITTIVITY")
op("em.const.vacuum_impedance", "", "F", "(EM.vacuumImpedance : Float)", "geonum::traits::electromagnetics::VACUUM_IMPEDANCE")
op("waves.propagate", "GGGG", "G", "Waves.propagate x0 x1 x2 x3", "Waves::propagate(&x0, x1, x2, x3)")
op("waves.disperse", "GGGG", "G", "Waves.disperse x0 x1 x2 x3", "<Geonum as Waves>::disperse(x0, x1, x2, x3)")
op("waves.frequency", "GGG", "G", "Waves.frequency x0 x1 x2", "Waves::frequency(&x0, &x1, x2)")
op("waves.wavenumber", "GGG", "G", "Waves.wavenumber x0 x1 x2", "Waves::wavenumber(&x0, &x1, x2)")
op("ml.regression_from", "FF", "G", "ML.regressionFrom x0 x1", "<Geonum as MachineLearning>::regression_from(x0, x1)")
op("ml.perceptron_update", "GFFG", "G", "ML.perceptronUpdate x0 x1 x2 x3", "MachineLearning::perceptron_update(&x0, x1, x2, &x3)")
op("ml.forward_pass", "GGG", "G", "ML.forwardPass x0 x1 x2", "MachineLearning::forward_pass(&x0, &x1, &x2)")
op("ml.activate", "GT", "G", "ML.activate x0 x1", "MachineLearning::activate(&x0, x1)")
op("core.epsilon", "", "F", "(e10 : Float)", "geonum::EPSILON")

# ------------------------------------------------------------------ arithmetic / libm probes
# (a disagreement here is "the two processes compute different arithmetic", never a property violation)
for f, lean, rust in (("cos", "FloatLike.cos", "x0.cos()"), ("sin", "FloatLike.sin", "x0.sin()"),
                      ("acos", "FloatLike.acos", "x0.acos()"), ("asin", "FloatLike.asin", "x0.asin()"),
                      ("exp", "FloatLike.exp", "x0.exp()"), ("tanh", "FloatLike.tanh", "x0.tanh()"),
                      ("ln", "FloatLike.ln", "x0.ln()"), ("sqrt", "FloatLike.sqrt", "x0.sqrt()"),
                      ("floor", "FloatLike.floor", "x0.floor()"), ("ceil", "FloatLike.ceil", "x0.ceil()"),
                      ("round", "FloatLike.round", "x0.round()"), ("fract", "FloatLike.fract", "x0.fract()"),
                      ("abs", "FloatLike.fabs", "x0.abs()"), ("neg", "FloatLike.fneg", "-x0")):
    op(f"arith.{f}", "F", "F", f"({lean} x0 : Float)", rust)
for f, lean, rust in (("atan2", "FloatLike.atan2", "x0.atan2(x1)"), ("powf", "FloatLike.powf", "x0.powf(x1)"),
                      ("fmod", "FloatLike.fmod", "x0 % x1"), ("max", "FloatLike.fmax", "x0.max(x1)"),
                      ("add", "FloatLike.fadd", "x0 + x1"), ("sub", "FloatLike.fsub", "x0 - x1"),
                      ("mul", "FloatLike.fmul", "x0 * x1"), ("div", "FloatLike.fdiv", "x0 / x1")):
    op(f"arith.{f}", "FF", "F", f"({lean} x0 x1 : Float)", rust)
op("arith.powi2", "F", "F", "(FloatLike.fmul x0 x0 : Float)", "x0.powi(2)")
op("arith.is_normal", "F", "B", "(FloatLike.isNormal x0 : Bool)", "x0.is_normal()")
op("arith.is_finite", "F", "B", "(FloatLike.isFinite x0 : Bool)", "x0.is_finite()")
op("arith.clamp", "F", "F", "(FloatLike.clamp x0 (FloatLike.fneg FloatLike.one) FloatLike.one : Float)", "x0.clamp(-1.0, 1.0)")
op("arith.as_usize", "F", "N", "(FloatLike.toUsize x0 : Nat)", "x0 as usize")
op("arith.of_usize", "N", "F", "(FloatLike.ofNat x0 : Float)", "x0 as f64")
op("arith.of_i64", "I", "F", "(FloatLike.ofInt x0 : Float)", "x0 as f64")
op("arith.lt", "FF", "B", "(FloatLike.flt x0 x1 : Bool)", "x0 < x1")
op("arith.le", "FF", "B", "(FloatLike.fle x0 x1 : Bool)", "x0 <= x1")
op("arith.eq", "FF", "B", "(FloatLike.feq x0 x1 : Bool)", "x0 == x1")
op("arith.pi", "", "F", "(FloatLike.pi : Float)", "std::f64::consts::PI")
op("arith.e15", "", "F", "(e15 : Float)", "1e-15")
op("arith.sum_empty", "", "F", "(FloatLike.fneg FloatLike.zero : Float)", "Vec::<f64>::new().iter().sum::<f64>()")

# ------------------------------------------------------------------ model-only branch classifiers (distribution evidence)
MODEL_ONLY = set()
def pop(name, sig, lean):
    op(name, sig, "N", lean, None)
    MODEL_ONLY.add(name)
pop("path.angle.new", "FF", "Paths.angleNew x0 x1")
pop("path.angle.add", "AA", "Paths.angleAdd x0 x1")
pop("path.angle.sub", "AA", "Paths.angleSub x0 x1")
pop("path.angle.eq", "AA", "Paths.angleEq x0 x1")
pop("path.geonum.add", "GG", "Paths.geonumAdd x0 x1")
pop("path.geonum.project", "GG", "Paths.project x0 x1")
pop("path.geonum.dot", "GG", "Paths.dot x0 x1")
pop("path.geonum.wedge", "GG", "Paths.wedge x0 x1")
pop("path.geonum.distance", "GG", "Paths.distance x0 x1")

LEAN_TY = {"F": "pF", "N": "pN", "I": "pI", "A": "pA", "G": "pG", "L": "pL", "T": "pT"}
LEAN_OUT = {"F": "outF", "N": "outN", "B": "outB", "A": "outA", "G": "outG", "L": "outL", "O": "outO",
            "OO": "outOO", "OG": "outOG", "OOG": "outOOG", "OL": "outOL"}
RUST_TAKE = {"F": "f", "N": "n", "I": "i", "A": "a", "G": "g", "L": "l", "T": "t"}

def gen_lean():
    out = []
    out.append("/- GENERATED by /verif/tools/ops_table.py — do not edit. Model side of the protocol. -/")
    out.append("import GeonumModel.Exec.Codec")
    out.append("import GeonumModel.Exec.Paths")
    out.append("namespace GeonumModel.Exec")
    out.append("open GeonumModel FloatLike")
    out.append("")
    # split in chunks to keep elaboration fast
    chunk = 24
    names = []
    for ci in range(0, len(OPS), chunk):
        nm = f"table{ci // chunk}"
        names.append(nm)
        out.append(f"def {nm} : List (String × (List String → Option String)) := [")
        rows = []
        for (name, sig, ret, lean, rust, tags) in OPS[ci:ci + chunk]:
            pats = ", ".join(f"s{i}" for i in range(len(sig)))
            binds = "".join(f"let x{i} ← {LEAN_TY[k]} s{i}; " for i, k in enumerate(sig))
            rows.append(f'  ("{name}", fun args => match args with\n'
                        f'    | [{pats}] => do {binds}pure ({LEAN_OUT[ret]} ({lean}))\n'
                        f'    | _ => none)')
        out.append(",\n".join(rows))
        out.append("]")
        out.append("")
    out.append("def table : List (String × (List String → Option String)) :=")
    out.append("  " + " ++ ".join(names))
    out.append("")
    out.append("end GeonumModel.Exec")
    return "\n".join(out) + "\n"

FEATS = ["optics", "projection", "ml", "em", "waves", "affine"]
TRAIT_OF = {"optics": "Optics", "projection": "Projection", "ml": "MachineLearning", "em": "Electromagnetics", "waves": "Waves", "affine": "Affine"}

def gen_rust(featured=False):
    """featured=False: the harness (all features on).  featured=True: the C20 probe — every op of a trait is compiled only
    when that trait's cargo feature (or the alias `all`) is on, so one source serves all 65 feature configurations."""
    def gate(name):
        f = name.split(".")[0]
        return f'#[cfg(any(feature = "{f}", feature = "all"))] ' if featured and f in FEATS else ""
    out = []
    out.append("// GENERATED by /verif/tools/ops_table.py — do not edit. Implementation side of the protocol.")
    out.append("#![allow(unused_variables, unused_imports, clippy::all)]")
    out.append("use crate::val::*;")
    if featured:
        for f in FEATS:
            out.append(f'#[cfg(any(feature = "{f}", feature = "all"))] use geonum::traits::{TRAIT_OF[f]};')
    else:
        out.append("use geonum::traits::{Affine, Electromagnetics, MachineLearning, Optics, Projection, Waves};")
    out.append("use geonum::{Angle, GeoCollection, Geonum};")
    out.append("")
    out.append("/// (name, argument signature, result kind)")
    out.append("pub const OPS: &[(&str, &str, &str)] = &[")
    for (name, sig, ret, lean, rust, tags) in OPS:
        if rust is None:
            continue
        out.append(f'    {gate(name)}("{name}", "{sig}", "{ret}"),')
    out.append("];")
    out.append("")
    out.append("pub fn run_op(name: &str, v: &[Val]) -> Option<String> {")
    out.append("    Some(match name {")
    for (name, sig, ret, lean, rust, tags) in OPS:
        if rust is None:
            continue
        binds = "".join(f"let x{i} = v.get({i})?.{RUST_TAKE[k]}()?; " for i, k in enumerate(sig))
        # aliasing: when an operation borrows its second operand and the two operands are the same value, both borrows point at
        # the SAME object (`&a * &a`, `a.dot(&a)`), so a pointer-identity shortcut in the code is reachable by the correspondence
        expr = rust
        if len(sig) >= 2 and sig[0] == sig[1] and sig[0] in "AG" and "&x1" in rust:
            same = ("x0.blade() == x1.blade() && x0.rem().to_bits() == x1.rem().to_bits()" if sig[0] == "A" else
                    "x0.mag.to_bits() == x1.mag.to_bits() && x0.angle.blade() == x1.angle.blade() && x0.angle.rem().to_bits() == x1.angle.rem().to_bits()")
            binds += f"let x1r = if {same} {{ &x0 }} else {{ &x1 }}; "
            expr = rust.replace("&x1", "x1r")
        out.append(f'        {gate(name)}"{name}" => {{ if v.len() != {len(sig)} {{ return None; }} {binds}out_{ret.lower()}({expr}) }}')
    out.append("        _ => return None,")
    out.append("    })")
    out.append("}")
    return "\n".join(out) + "\n"

def gen_probe_val(root):
    src = open(os.path.join(root, "harness/src/val.rs")).read()
    return "// GENERATED copy of /verif/harness/src/val.rs by /verif/tools/ops_table.py — do not edit.\n" + src

if __name__ == "__main__":
    root = os.path.dirname(os.path.dirname(os.path.abspath(__file__)))
    targets = {os.path.join(root, "lean/GeonumModel/Exec/Dispatch.lean"): gen_lean(),
               os.path.join(root, "harness/src/ops_gen.rs"): gen_rust(),
               os.path.join(root, "probe20/src/ops_gen.rs"): gen_rust(featured=True),
               os.path.join(root, "probe20/src/val.rs"): gen_probe_val(root)}
    if len(sys.argv) > 1 and sys.argv[1] == "--check":
        bad = [p for p, s in targets.items() if not os.path.exists(p) or open(p).read() != s]
        if bad:
            print("out of date:", bad); sys.exit(1)
        sys.exit(0)
    if len(sys.argv) > 1 and sys.argv[1] == "--names":
        for o in OPS: print(o[0], o[1], o[2])
        sys.exit(0)
    for p, s in targets.items():
        os.makedirs(os.path.dirname(p), exist_ok=True)
        open(p, "w").write(s)
    print(len(OPS), "ops")
