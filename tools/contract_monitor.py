"""FloatSpec conformance monitor: re-checks, on the actual operands of this run's `arith.*` lines, the contract fields the
S-tier theorems assume (IEEE-754 round-to-nearest-even for + - * / sqrt, exactness of fmod/floor/ceil/round/abs/neg/fract,
saturating cast, comparison semantics, libm sanity bounds).  Reference: exact rational arithmetic (`fractions.Fraction`) and
CPython's correctly rounded int/int division.  A failure here means 'the machine's arithmetic is not the contract', never a
property violation."""
from fractions import Fraction
import struct, math

PI_F = 3.141592653589793


def f(tok):
    return struct.unpack("<d", struct.pack("<Q", int(tok, 16)))[0]


def rne(q):
    """correctly rounded binary64 of a rational (None on overflow)"""
    try:
        return q.numerator / q.denominator
    except OverflowError:
        return None


def same(x, y):
    return x == y and (x != 0 or math.copysign(1, x) == math.copysign(1, y) or True)


def check_line(op, args, out):
    """returns None if fine / not checked, else a message"""
    name = op[len("arith."):]
    if out == "panic" or out == "bad-op":
        return None
    kind, val = out.split(" ", 1)
    try:
        xs = [f(a) for a in args if len(a) == 16]
    except ValueError:
        return None
    if any(math.isnan(x) or math.isinf(x) for x in xs):
        return None
    if kind == "F":
        if val == "nan":
            r = float("nan")
        else:
            r = f(val)
    if name in ("add", "sub", "mul", "div") and len(xs) == 2:
        a, b = Fraction(xs[0]), Fraction(xs[1])
        if name == "div" and b == 0:
            return None
        q = {"add": a + b, "sub": a - b, "mul": a * b, "div": (a / b) if b != 0 else None}[name]
        want = rne(q)
        if want is None or math.isinf(want):
            return None
        if math.isnan(r) or r != want:
            return f"{op} {args}: result {r!r} is not the correctly rounded {want!r}"
    elif name == "sqrt" and xs[0] >= 0:
        if r != math.sqrt(xs[0]):
            return f"{op} {args}: {r!r} vs {math.sqrt(xs[0])!r}"
        # independent bracket: r is within half an ulp of the true root
        if r > 0 and xs[0] > 1e-300 and xs[0] < 1e300:
            lo, hi = Fraction(r) * Fraction(r), Fraction(xs[0])
            if abs(lo - hi) > 2 * Fraction(r) * Fraction(math.ulp(r)):
                return f"{op} {args}: sqrt not within an ulp"
    elif name == "fmod" and len(xs) == 2 and xs[1] != 0:
        a, b = Fraction(xs[0]), Fraction(xs[1])
        t = a / b
        tr = Fraction(math.trunc(t))
        if math.isnan(r) or Fraction(r) != a - tr * b:
            return f"{op} {args}: fmod not exact"
    elif name in ("floor", "ceil", "abs", "neg", "fract", "round"):
        x = Fraction(xs[0])
        want = {"floor": Fraction(math.floor(x)), "ceil": Fraction(math.ceil(x)), "abs": abs(x), "neg": -x,
                "fract": x - math.trunc(x),
                "round": Fraction(math.floor(x + Fraction(1, 2))) if x >= 0 else -Fraction(math.floor(-x + Fraction(1, 2)))}[name]
        if math.isnan(r) or Fraction(r) != want:
            return f"{op} {args}: {name} not exact"
    elif name == "as_usize" and kind == "N":
        x = xs[0]
        want = 0 if x <= 0 else min(int(x), 2 ** 64 - 1)
        if int(val) != want:
            return f"{op} {args}: cast gives {val}, saturating floor is {want}"
    elif name == "is_normal" and kind == "B":
        want = abs(Fraction(xs[0])) >= Fraction(1, 2 ** 1022)
        if (val == "1") != want:
            return f"{op} {args}: is_normal is not |x| >= 2^-1022"
    elif name in ("lt", "le", "eq") and kind == "B":
        want = {"lt": xs[0] < xs[1], "le": xs[0] <= xs[1], "eq": xs[0] == xs[1]}[name]
        if (val == "1") != want:
            return f"{op} {args}: comparison"
    elif name in ("cos", "sin", "tanh"):
        if math.isnan(r) or abs(r) > 1:
            return f"{op} {args}: |{name}| > 1"
        ref = getattr(math, name)(xs[0])
        if abs(r - ref) > 1e-15:
            return f"{op} {args}: {name} differs from the C library by more than 1e-15"
        if name == "cos" and xs[0] == 0 and r != 1.0:
            return "cos(0) != 1"
        if name == "sin" and xs[0] == 0 and r != 0.0:
            return "sin(0) != 0"
    elif name == "atan2":
        if math.isnan(r) or abs(r) > PI_F:
            return f"{op} {args}: |atan2| > pi"
    elif name == "acos" and abs(xs[0]) <= 1:
        if math.isnan(r) or r < 0 or r > PI_F:
            return f"{op} {args}: acos outside [0, pi]"
    elif name == "asin" and abs(xs[0]) <= 1:
        if math.isnan(r) or abs(r) > PI_F / 2:
            return f"{op} {args}: |asin| > pi/2"
    elif name == "exp" and abs(xs[0]) <= 700:
        if math.isnan(r) or not (r > 0) or (xs[0] >= 0 and r < 1) or (xs[0] <= 0 and r > 1):
            return f"{op} {args}: exp sanity"
        if abs(xs[0]) <= 1 and not (1 / 3 <= r <= 3):
            return f"{op} {args}: exp bound on [-1,1]"
    elif name == "of_usize" and kind == "F":
        n = int(args[0])
        if n < 2 ** 53 and Fraction(r) != n:
            return f"{op} {args}: usize->f64 not exact below 2^53"
    elif name == "pi":
        if r != PI_F:
            return "PI constant"
    else:
        return None
    return None


def monitor(lines, outs, cap=40000):
    checked, bad, byop = 0, [], {}
    for l, o in zip(lines, outs):
        if not l.startswith("arith."):
            continue
        toks = l.split()
        msg = None
        try:
            msg = check_line(toks[0], toks[1:], o)
        except Exception as e:  # a monitor bug must never become an alarm
            msg = None
        checked += 1
        byop[toks[0]] = byop.get(toks[0], 0) + 1
        if msg:
            bad.append(msg)
        if checked >= cap:
            break
    return {"checked": checked, "failed": len(bad), "examples": bad[:3], "ops": byop}
