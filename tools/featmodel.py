#!/usr/bin/env python3
"""
C20 translator: regenerates the feature model lean/GeonumModel/Generated/Features.lean from /repo's current
Cargo.toml, src/lib.rs, src/traits/mod.rs, src/traits/*.rs and the core files, on every run.

Gate language (fails closed on anything else): none | feature = "x" | any(feature…) | all(feature…) | not(feature = "x").
Names (features, modules, exported items) are numbered; the numbering tables are emitted as comments and as
`featureNames` / `itemNames` string lists (not used by the theorems, which work on the numbers).
"""
import re, os, sys, json

REPO = "/repo"
CORE_FILES = ["src/angle.rs", "src/geonum_mod.rs", "src/geocollection.rs"]
EXPECTED_FEATURES = ["optics", "projection", "ml", "em", "waves", "affine"]


class Unsupported(Exception):
    pass


def strip_comments(src):
    src = re.sub(r"/\*.*?\*/", "", src, flags=re.S)
    return "\n".join(l.split("//")[0] for l in src.split("\n"))


def parse_gate(expr, feats):
    """expr: text inside cfg( … ) -> ('feat', i) | ('any', [i…]) | ('all', [i…]) | ('not', i)"""
    expr = expr.strip()
    m = re.fullmatch(r'feature\s*=\s*"([^"]+)"', expr)
    if m:
        return ("feat", feat_id(m.group(1), feats))
    m = re.fullmatch(r'(any|all)\s*\((.*)\)', expr, flags=re.S)
    if m:
        items = [x.strip() for x in m.group(2).split(",") if x.strip()]
        ids = []
        for it in items:
            mm = re.fullmatch(r'feature\s*=\s*"([^"]+)"', it)
            if not mm:
                raise Unsupported("nested cfg expression: " + expr)
            ids.append(feat_id(mm.group(1), feats))
        return (m.group(1), ids)
    m = re.fullmatch(r'not\s*\(\s*feature\s*=\s*"([^"]+)"\s*\)', expr)
    if m:
        return ("not", feat_id(m.group(1), feats))
    raise Unsupported("cfg expression: " + expr)


def feat_id(name, feats):
    if name not in feats:
        raise Unsupported("cfg refers to unknown feature " + name)
    return feats.index(name)


def cfg_attrs(src):
    """yield (cfg expression text, end offset) for every #[cfg(...)] attribute that mentions `feature`"""
    for m in re.finditer(r"#\s*\[\s*cfg\s*\(", src):
        i = m.end()
        depth = 1
        while i < len(src) and depth:
            depth += src[i] == "("
            depth -= src[i] == ")"
            i += 1
        expr = src[m.end():i - 1]
        j = src.index("]", i) + 1
        yield expr, m.start(), j


def items_after(src, pos):
    """the item text following an attribute (up to the next ';' or '{')"""
    rest = src[pos:]
    # skip further attributes
    while True:
        m = re.match(r"\s*#\s*\[[^\]]*\]", rest)
        if not m:
            break
        rest = rest[m.end():]
    if re.match(r"\s*(pub\s+)?use\b", rest):
        m = re.match(r"\s*([^;]*);", rest, flags=re.S)
    else:
        m = re.match(r"\s*([^;{]*)[;{]", rest, flags=re.S)
    return re.sub(r"\s+", " ", m.group(1).strip()) if m else ""


def extract():
    cargo = open(os.path.join(REPO, "Cargo.toml")).read()
    sec = re.search(r"^\[features\]\s*\n(.*?)(?=^\[|\Z)", cargo, flags=re.S | re.M)
    if not sec:
        raise Unsupported("no [features] section")
    table = {}
    for m in re.finditer(r'^\s*([A-Za-z0-9_-]+)\s*=\s*\[(.*?)\]', sec.group(1), flags=re.S | re.M):
        table[m.group(1)] = [x.strip().strip('"') for x in m.group(2).split(",") if x.strip()]
    feats = [f for f in EXPECTED_FEATURES if f in table]
    extra = [f for f in table if f not in EXPECTED_FEATURES and f not in ("default", "all")]
    feats += extra
    if len(feats) > 6:
        raise Unsupported("more than six optional features: " + str(feats))
    for f in feats:
        if table[f]:
            raise Unsupported(f"feature {f} enables {table[f]} (features are expected to be independent flags)")
    default = [feat_id(x, feats) for x in table.get("default", [])]
    allalias = sorted(feat_id(x, feats) for x in table.get("all", []))

    items = []  # item names
    def item_id(n):
        if n not in items:
            items.append(n)
        return items.index(n)
    modnames = []
    def mod_id(n):
        if n not in modnames:
            modnames.append(n)
        return modnames.index(n)

    # ---- traits/mod.rs
    modrs = strip_comments(open(os.path.join(REPO, "src/traits/mod.rs")).read())
    modules = []        # (mod id, gate)
    trait_exports = []  # (item id, mod id, gate)
    seen_spans = []
    for expr, a, b in cfg_attrs(modrs):
        if "feature" not in expr:
            continue
        gate = parse_gate(expr, feats)
        it = items_after(modrs, b)
        seen_spans.append((a, b))
        m = re.fullmatch(r"pub\s+mod\s+(\w+)", it)
        if m:
            modules.append((mod_id(m.group(1)), gate)); continue
        m = re.fullmatch(r"pub\s+use\s+(\w+)::\{?([\w\s,]+)\}?", it)
        if m:
            for n in [x.strip() for x in m.group(2).split(",") if x.strip()]:
                trait_exports.append((item_id(n), mod_id(m.group(1)), gate))
            continue
        raise Unsupported("gated item in traits/mod.rs: " + it)
    # ungated pub mod / pub use in traits/mod.rs
    ungated = re.sub(r"#\s*\[[^\]]*\]\s*(?:pub\s+use[^;]*;|[^;{]*[;{])", "", modrs, flags=re.S)
    for m in re.finditer(r"pub\s+mod\s+(\w+)\s*;", ungated):
        modules.append((mod_id(m.group(1)), ("none",)))
    for m in re.finditer(r"pub\s+use\s+(\w+)::\{?([\w\s,]+)\}?\s*;", ungated):
        for n in [x.strip() for x in m.group(2).split(",") if x.strip()]:
            trait_exports.append((item_id(n), mod_id(m.group(1)), ("none",)))

    # ---- lib.rs
    librs = strip_comments(open(os.path.join(REPO, "src/lib.rs")).read())
    root_exports = []   # (item id, gate) for `pub use traits::X`
    core_gated = 0
    for expr, a, b in cfg_attrs(librs):
        if "feature" not in expr:
            continue
        gate = parse_gate(expr, feats)
        it = items_after(librs, b)
        m = re.fullmatch(r"pub\s+use\s+traits::\{?([\w\s,]+)\}?", it)
        if m:
            for n in [x.strip() for x in m.group(1).split(",") if x.strip()]:
                root_exports.append((item_id(n), gate))
            continue
        m = re.fullmatch(r"pub\s+use\s+traits::(\w+)::\{?([\w\s,]+)\}?", it)
        if m:
            for n in [x.strip() for x in m.group(2).split(",") if x.strip()]:
                root_exports.append((item_id(n), gate))
            continue
        # a feature gate on a core item (mod angle, pub use angle::Angle, …) makes core depend on features
        core_gated += 1
    ung = re.sub(r"#\s*\[[^\]]*\]\s*(?:pub\s+use[^;]*;|[^;{]*[;{])", "", librs, flags=re.S)
    for m in re.finditer(r"pub\s+use\s+traits::\{?([\w\s,]+)\}?\s*;", ung):
        for n in [x.strip() for x in m.group(1).split(",") if x.strip()]:
            root_exports.append((item_id(n), ("none",)))

    # ---- each trait module: inner feature gates, cross references
    inner = []   # (mod id, gate)
    macro = []   # (mod id, feature id) for cfg!(feature = …) expressions inside a trait module
    cross = []   # (mod id, other mod id)
    for (mid, gate) in modules:
        path = os.path.join(REPO, "src/traits", modnames[mid] + ".rs")
        if not os.path.exists(path):
            raise Unsupported("module file missing: " + path)
        src = strip_comments(open(path).read())
        # cut the test module
        cut = re.search(r"#\s*\[\s*cfg\s*\(\s*test\s*\)\s*\]", src)
        if cut:
            src = src[:cut.start()]
        for expr, a, b in cfg_attrs(src):
            if "feature" in expr:
                inner.append((mid, parse_gate(expr, feats)))
        # `cfg!(feature = "x")` used as an expression: behaviour that depends on feature x at run time
        for m in re.finditer(r'cfg!\s*\(([^)]*(?:\([^)]*\))?[^)]*)\)', src):
            for fm in re.finditer(r'feature\s*=\s*"([^"]+)"', m.group(1)):
                macro.append((mid, feat_id(fm.group(1), feats)))
        for m in re.finditer(r"(?:crate::traits|super)::(\w+)", src):
            o = m.group(1)
            if o in modnames and modnames.index(o) != mid:
                cross.append((mid, modnames.index(o)))
        for m in re.finditer(r"crate::\{([^}]*)\}|crate::(\w+)", src):
            names = [x.strip().split("::")[0] for x in (m.group(1) or m.group(2)).split(",")]
            for n in names:
                if n in items and n not in ("Angle", "Geonum", "GeoCollection"):
                    # a trait item referenced through the crate root: depends on its root export gate
                    cross.append((mid, -1 - items.index(n)))

    # ---- core files
    core_cfg = core_gated
    for f in CORE_FILES:
        src = strip_comments(open(os.path.join(REPO, f)).read())
        for expr, a, b in cfg_attrs(src):
            if "feature" in expr:
                core_cfg += 1
        core_cfg += len(re.findall(r'cfg!\s*\(\s*feature', src))

    return dict(features=feats, default=default, all=allalias, items=items, modnames=modnames, modules=modules,
                trait_exports=trait_exports, root_exports=root_exports, inner=inner, cross=cross, core_cfg=core_cfg, macro=macro)


def lean_gate(g):
    if g[0] == "none":
        return "Gate.none"
    if g[0] == "feat":
        return f"Gate.feat {g[1]}"
    if g[0] == "not":
        return f"Gate.notFeat {g[1]}"
    return f"Gate.{'anyOf' if g[0] == 'any' else 'allOf'} {g[1]}"


def eval_gate(g, S):
    if g[0] == "none":
        return True
    if g[0] == "feat":
        return bool(S >> g[1] & 1)
    if g[0] == "not":
        return not (S >> g[1] & 1)
    vals = [bool(S >> i & 1) for i in g[1]]
    return any(vals) if g[0] == "any" else all(vals)


def render(m):
    L = []
    L.append("/- GENERATED on every run by /verif/tools/featmodel.py from /repo's Cargo.toml, src/lib.rs, src/traits/*.rs — do not edit. -/")
    L.append("namespace GeonumModel.Features")
    L.append("")
    L.append("/-- `#[cfg(...)]` gates found in the source (fails closed on anything richer) -/")
    L.append("inductive Gate | none | feat (i : Nat) | notFeat (i : Nat) | anyOf (l : List Nat) | allOf (l : List Nat)")
    L.append("  deriving DecidableEq, Repr")
    L.append("")
    L.append("/-- a configuration is a subset of the six flags, as the bits of `S` -/")
    L.append("def on (S : Nat) (i : Nat) : Bool := S.testBit i")
    L.append("def Gate.eval (S : Nat) : Gate → Bool")
    L.append("  | .none => true | .feat i => on S i | .notFeat i => !(on S i)")
    L.append("  | .anyOf l => l.any (on S) | .allOf l => l.all (on S)")
    L.append("")
    L.append(f"-- features: {list(enumerate(m['features']))}")
    L.append(f"-- trait modules: {list(enumerate(m['modnames']))}")
    L.append(f"-- exported items: {list(enumerate(m['items']))}")
    L.append(f"def featureNames : List String := {json.dumps(m['features'])}")
    L.append(f"def moduleNames : List String := {json.dumps(m['modnames'])}")
    L.append(f"def itemNames : List String := {json.dumps(m['items'])}")
    L.append(f"def nFeatures : Nat := {len(m['features'])}")
    L.append(f"def defaultFeatures : List Nat := {m['default']}")
    L.append(f"def allAlias : List Nat := {m['all']}")
    L.append("/-- `pub mod m;` in traits/mod.rs: (module, gate) -/")
    L.append("def modules : List (Nat × Gate) := [" + ", ".join(f"({a}, {lean_gate(g)})" for a, g in m["modules"]) + "]")
    L.append("/-- `pub use m::X;` in traits/mod.rs: (item, module, gate) -/")
    L.append("def traitExports : List (Nat × Nat × Gate) := [" + ", ".join(f"({a}, {b}, {lean_gate(g)})" for a, b, g in m["trait_exports"]) + "]")
    L.append("/-- `pub use traits::X;` in lib.rs: (item, gate) -/")
    L.append("def rootExports : List (Nat × Gate) := [" + ", ".join(f"({a}, {lean_gate(g)})" for a, g in m["root_exports"]) + "]")
    L.append("/-- feature gates inside a trait module's own file (e.g. on the impl block): (module, gate) -/")
    L.append("def innerGates : List (Nat × Gate) := [" + ", ".join(f"({a}, {lean_gate(g)})" for a, g in m["inner"]) + "]")
    L.append("/-- `cfg!(feature = …)` expressions inside a trait module's file: (module, feature tested) -/")
    L.append("def macroGates : List (Nat × Nat) := [" + ", ".join(f"({a}, {b})" for a, b in m["macro"]) + "]")
    L.append("/-- references from one trait module to another (module, other module) -/")
    L.append("def crossRefs : List (Nat × Nat) := [" + ", ".join(f"({a}, {b})" for a, b in m["cross"] if b >= 0) + "]")
    L.append("/-- references from a trait module to a trait item through the crate root (module, item) -/")
    L.append("def rootRefs : List (Nat × Nat) := [" + ", ".join(f"({a}, {-1 - b})" for a, b in m["cross"] if b < 0) + "]")
    L.append("/-- number of feature gates found in angle.rs / geonum_mod.rs / geocollection.rs and on core items of lib.rs -/")
    L.append(f"def coreFeatureGates : Nat := {m['core_cfg']}")
    L.append("")
    L.append("end GeonumModel.Features")
    return "\n".join(L) + "\n"


def violations(m):
    """the same closure conditions as Props/C20.lean, evaluated in Python to name a concrete failing subset"""
    out = []
    nf = len(m["features"])
    modgate = {a: g for a, g in m["modules"]}
    for S in range(1 << nf):
        sub = [m["features"][i] for i in range(nf) if S >> i & 1]
        for item, g in m["root_exports"]:
            if eval_gate(g, S) and not any(t[0] == item and eval_gate(t[2], S) for t in m["trait_exports"]):
                out.append((sub, f"lib.rs re-exports traits::{m['items'][item]} but traits/mod.rs does not export it in this configuration"))
        for item, mod, g in m["trait_exports"]:
            if eval_gate(g, S) and not (mod in modgate and eval_gate(modgate[mod], S)):
                out.append((sub, f"traits/mod.rs re-exports {m['modnames'][mod]}::{m['items'][item]} but the module is not compiled"))
        for a, b in m["cross"]:
            if a in modgate and eval_gate(modgate[a], S):
                if b >= 0 and not (b in modgate and eval_gate(modgate[b], S)):
                    out.append((sub, f"module {m['modnames'][a]} refers to module {m['modnames'][b]} which is not compiled"))
                if b < 0 and not any(t[0] == -1 - b and eval_gate(t[1], S) for t in m["root_exports"]):
                    out.append((sub, f"module {m['modnames'][a]} refers to crate::{m['items'][-1 - b]} which is not exported"))
        for i in range(nf):
            if S >> i & 1:
                mods = [a for a, g in m["modules"] if g == ("feat", i)]
                if not mods:
                    out.append((sub, f"feature {m['features'][i]} enables no module"))
                for a in mods:
                    for (ma, g) in m["inner"]:
                        if ma == a and not eval_gate(g, S):
                            out.append((sub, f"feature {m['features'][i]}: an inner gate of module {m['modnames'][a]} is off"))
    for a, f in m["macro"]:
        if modgate.get(a) != ("feat", f):
            out.append(([m["features"][f]], f"module {m['modnames'][a]} tests cfg!(feature = {m['features'][f]}) at run time: its helpers depend on another feature"))
    if m["default"]:
        out.append(([], "default features are not empty"))
    if m["all"] != list(range(nf)) or nf != 6:
        out.append((["all"], "the alias `all` is not exactly the six optional features"))
    if m["core_cfg"]:
        out.append(([], f"{m['core_cfg']} feature gate(s) in core files"))
    return out


if __name__ == "__main__":
    root = os.path.dirname(os.path.dirname(os.path.abspath(__file__)))
    try:
        m = extract()
    except Unsupported as e:
        print("UNSUPPORTED:", e)
        sys.exit(3)
    dst = os.path.join(root, "lean/GeonumModel/Generated/Features.lean")
    os.makedirs(os.path.dirname(dst), exist_ok=True)
    txt = render(m)
    if not os.path.exists(dst) or open(dst).read() != txt:
        open(dst, "w").write(txt)
    json.dump(m, open(os.path.join(root, "work/featmodel.json"), "w")) if os.path.isdir(os.path.join(root, "work")) else None
    print(json.dumps({"features": m["features"], "modules": len(m["modules"]), "trait_exports": len(m["trait_exports"]),
                      "root_exports": len(m["root_exports"]), "inner": len(m["inner"]), "violations": violations(m)[:3]}))
