#!/bin/bash
# apply each seeded mutation to /repo, run the check of the property it targets, undo it
cd /verif
for d in seeded/C*; do
  id=$(basename $d)
  [ -n "$1" ] && [ "$1" != "$id" ] && continue
  [ "$id" = "C20" ] && [ ! -x ./check ] && continue
  git -C /repo checkout -q -- . 
  if ! git -C /repo apply $PWD/$d/patch.diff; then echo "$id APPLY-FAILED"; continue; fi
  out=$(./check $id 2>&1 | grep -E "^(VIOLATION|OK|KNOWN|NOTE)" | cut -c1-220)
  git -C /repo checkout -q -- .
  echo "== $id"; echo "$out"
done
git -C /repo status --short | head -3
