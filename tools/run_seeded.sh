#!/bin/bash
# apply each seeded change to /repo, run the check(s) it targets, undo it.
#   seeded/Cxx*      : a property-breaking change -> the check of Cxx must report a VIOLATION
#   seeded/harmless* : a semantics-preserving refactor -> every check must stay silent
#   seeded/outofdomain_Cxx* : a change that differs from the original only OUTSIDE the property's domain -> the check of Cxx
#                      must stay silent (a NOTE about the out-of-domain disagreement is expected)
cd /verif
for d in seeded/*; do
  id=$(basename $d)
  [ -n "$1" ] && [ "$1" != "$id" ] && continue
  [ -f $d/patch.diff ] || continue
  git -C /repo checkout -q -- .
  if ! git -C /repo apply $PWD/$d/patch.diff; then echo "$id APPLY-FAILED"; continue; fi
  echo "== $id"
  case "$id" in
    harmless*) for i in $(seq -w 1 19); do ./check C$i 2>&1 | grep -E "^(VIOLATION|OK)" | cut -c1-120 | grep -v "^OK"; done; echo "(harmless: lines above, if any, are alarms)";;
    outofdomain_*) p=${id#outofdomain_}; ./check ${p:0:3} 2>&1 | grep -E "^(VIOLATION|OK)" | cut -c1-160; echo "(out of domain: an OK line is expected)";;
    *) ./check ${id:0:3} 2>&1 | grep -E "^(VIOLATION|OK|NOTE)" | cut -c1-200;;
  esac
  git -C /repo checkout -q -- .
done
git -C /repo status --short | head -3
