"""per-property configuration of ./check: the cone (ops whose model definitions the property's theorems mention),
sizes, and the trusted base text that goes into every evidence file"""

TRUSTED_BASE = [
    "Lean 4.33.0 kernel (leanchecker re-check in the thorough tier); Mathlib v4.33.0 as installed",
    "axioms: subset of {propext, Classical.choice, Quot.sound}; no native_decide, bv_decide, sorry, admit, added axioms",
    "FloatSpec fields (IEEE-754 binary64 round-to-nearest for + - * / sqrt, exact fmod/floor/ceil/abs/neg, saturating "
    "float->usize cast, listed glibc libm sanity bounds): hypotheses of the S-tier theorems, proved to hold of exact real "
    "arithmetic (Spec/RealWitness.lean) AND of a genuinely rounding arithmetic - round-to-nearest onto the binary64 grid "
    "(53-bit significands, subnormals to 2^-1074, exponent unbounded above), correctly rounded libm "
    "(Spec/Round53.lean, Spec/RoundWitness.lean: monotone rounding, 2^-53 error bound, Sterbenz, exact fmod all proved) - "
    "not proved of the hardware/glibc (monitored on the arith.* probe lines of every run)",
    "hand-written Lean model = code: checked by the bit-exact correspondence on generated inputs (differential testing; "
    "generator quality bounds it)",
    "modelled, not verified: usize as unbounded Nat (overflow outside the 2^40 domain), Rust evaluation order and operator "
    "dispatch transcribed by hand per impl block, std Vec/iterator/sort semantics, cargo/rustc",
    "the Rust harness, the Lean driver's codec and this Python orchestrator",
]

ASSUMPTIONS = [
    "dev-profile build of /repo with --cfg geonum_verif (hook: Angle::verif_from_parts only)",
    "Lean runtime and the Rust binary resolve libm to the same shared object (probed by arith.* lines on every run)",
]

A_ADD = [r"angle\.add\..*", r"angle\.mul\..*", r"angle\.rotate"]
A_SUB = [r"angle\.sub\..*", r"angle\.div\..*", r"angle\.divf\..*"]
A_NEW = [r"angle\.new.*"]
ARITH = [r"arith\..*"]

G_STEP = [r"geonum\.(dual|undual|negate|differentiate|integrate|increment_blade|decrement_blade|copy_blade|base_angle)",
          r"angle\.(dual|undual|negate|conjugate|base_angle|grade|is_scalar|is_vector|is_bivector|is_trivector|grade_angle|is_opposite|blade|rem)"]

G_ALL_CORE = [r"angle\..*", r"geonum\..*", r"coll\..*"]
TRAITS = [r"affine\..*", r"projection\..*", r"optics\..*", r"em\..*", r"waves\..*", r"ml\..*", r"core\.epsilon"]
G_ADD = [r"geonum\.add\..*", r"geonum\.sub\..*", r"geonum\.negate", r"affine\.translate", r"angle\.eq"]

PROPS = {
    "C01": {"cone": G_ALL_CORE + ARITH, "lines": 260000, "hist": 100, "oracle_cases": 40000},
    "C02": {"cone": A_NEW + [r"geonum\.new.*", r"geonum\.create_dimension", r"geonum\.scalar"] + ARITH, "lines": 150000, "oracle_cases": 60000},
    "C03": {"cone": A_ADD + ARITH, "lines": 150000, "oracle_cases": 90000},
    "C04": {"cone": A_SUB + ARITH, "lines": 150000, "oracle_cases": 90000,
            "grid": {"quick": 3, "thorough": 4, "what": "every blade difference in [-2^8,2^8] (quick) / [-2^12,2^12] (thorough) x 13 remainder-gap classes x 2 bases"}},
    "C05": {"cone": [r"geonum\.mul\..*", r"geonum\.div\..*", r"geonum\.(div|inv|normalize|scale|scalar|pow)", r"geonum\.angle_mul\..*", r"geonum\.angle_add\..*"] + A_ADD + ARITH,
            "lines": 150000, "oracle_cases": 60000},
    "C06": {"cone": G_ADD + [r"angle\.new_with_blade", r"angle\.grade_angle"] + A_ADD + ARITH, "lines": 150000, "oracle_cases": 50000},
    "C07": {"cone": G_STEP + A_ADD + A_SUB + [r"geonum\.(mul|div)\.vv", r"geonum\.rotate"] + ARITH, "lines": 150000,
            "hist": 150, "oracle_cases": 60000,
            "grid": {"quick": 3, "thorough": 4, "what": "all operation sequences of that depth over a 14-letter alphabet from 24 start states (remainders k/12 of a quarter turn)"}},
    "C08": {"cone": [r"geonum\.(dot|wedge|meet|project|reject|project_to_dimension|distance_to|is_orthogonal|cos|sin|dual)", r"angle\.project",
                     r"angle\.grade_angle", r"geonum\.add\.vv", r"coll\.select_cone"] + A_SUB + A_ADD + ARITH, "lines": 150000, "oracle_cases": 40000},
    "C09": {"cone": [r"geonum\.(dot|is_orthogonal)", r"angle\.grade_angle"] + A_SUB + ARITH, "lines": 120000, "oracle_cases": 60000},
    "C10": {"cone": [r"geonum\.(wedge|geo|meet|dot|dual)", r"angle\.grade_angle", r"geonum\.add\.vv"] + A_SUB + A_ADD + ARITH, "lines": 120000, "oracle_cases": 60000},
    "C11": {"cone": [r"geonum\.(project|reject|project_to_dimension|project_to_angle)", r"angle\.project", r"angle\.grade_angle", r"geonum\.sub\.vv"] + A_SUB + ARITH,
            "lines": 120000, "oracle_cases": 60000},
    "C12": {"cone": [r"geonum\.(rotate|reflect|scale_rotate|negate)", r"angle\.(rotate|negate|base_angle)"] + A_ADD + A_SUB + ARITH, "lines": 120000, "oracle_cases": 60000},
    "C13": {"cone": [r"geonum\.(distance_to|mag_diff|invert_circle|scalar)", r"geonum\.(add|sub)\.vv", r"angle\.grade_angle"] + A_SUB + ARITH, "lines": 120000, "oracle_cases": 50000},
    "C14": {"cone": [r"geonum\.add\..*", r"angle\.eq", r"angle\.new_with_blade", r"angle\.grade_angle"] + A_ADD + ARITH, "lines": 150000, "oracle_cases": 60000},
    "C15": {"cone": [r"geonum\.(cos|sin|tan|adj|opp|scale|inv)", r"geonum\.div\.vr", r"angle\.grade_angle"] + ARITH, "lines": 120000, "oracle_cases": 60000},
    "C16": {"cone": [r"angle\.(eq|cmp|partial_cmp)", r"geonum\.(eq|cmp|partial_cmp|sort)"] + ARITH, "lines": 100000, "oracle_cases": 30000},
    "C17": {"cone": [r"coll\..*", r"geonum\.(scale|rotate|dot)", r"angle\.project"] + ARITH, "lines": 60000, "oracle_cases": 12000},
    "C18": {"cone": TRAITS + [r"em\.const\..*"] + ARITH, "lines": 120000, "oracle_cases": 30000},
    "C19": {"cone": TRAITS + ARITH, "lines": 120000, "oracle_cases": 30000},
    "C20": {"custom": lambda root, pid, tier, seed: __import__("c20").run(root, pid, tier, seed)},
}
