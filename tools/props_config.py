"""per-property configuration of ./check: the cone (ops whose model definitions the property's theorems mention),
sizes, and the trusted base text that goes into every evidence file"""

TRUSTED_BASE = [
    "Lean 4.33.0 kernel (leanchecker re-check in the thorough tier); Mathlib v4.33.0 as installed",
    "axioms: subset of {propext, Classical.choice, Quot.sound}; no native_decide, bv_decide, sorry, admit, added axioms",
    "FloatSpec fields (IEEE-754 binary64 round-to-nearest for + - * / sqrt, exact fmod/floor/ceil/abs/neg, saturating "
    "float->usize cast, listed glibc libm sanity bounds): hypotheses of the S-tier theorems, proved consistent "
    "(Spec/RealWitness.lean), not proved of the hardware",
    "hand-written Lean model = code: checked by the bit-exact correspondence on generated inputs (differential testing; "
    "generator quality bounds it)",
    "modelled, not verified: usize as unbounded Nat (overflow outside the 2^40 domain), Rust evaluation order and operator "
    "dispatch transcribed by hand per impl block, std Vec/iterator/sort semantics, cargo/rustc",
    "the Rust harness, the Lean driver's codec and this Python orchestrator",
]

ASSUMPTIONS = [
    "dev-profile build of /repo with --cfg geonum_verif (hook: Angle::verif_from_parts only)",
    "Lean runtime and the Rust binary resolve libm to the same shared object (probed by arith.* lines on every run)",
]

A_ADD = [r"angle\.add\..*", r"angle\.mul\..*", r"angle\.rotate"]
A_SUB = [r"angle\.sub\..*", r"angle\.div\..*", r"angle\.divf\..*"]
A_NEW = [r"angle\.new.*"]
ARITH = [r"arith\..*"]

G_STEP = [r"geonum\.(dual|undual|negate|differentiate|integrate|increment_blade|decrement_blade|copy_blade|base_angle)",
          r"angle\.(dual|undual|negate|conjugate|base_angle|grade|is_scalar|is_vector|is_bivector|is_trivector|grade_angle|is_opposite|blade|rem)"]

PROPS = {
    "C03": {"cone": A_ADD + ARITH, "lines": 150000, "oracle_cases": 90000},
    "C04": {"cone": A_SUB + ARITH, "lines": 150000, "oracle_cases": 90000},
    "C07": {"cone": G_STEP + A_ADD + A_SUB + [r"geonum\.(mul|div)\.vv", r"geonum\.rotate"] + ARITH, "lines": 150000,
            "hist": 150, "oracle_cases": 60000},
}
