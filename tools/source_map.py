#!/usr/bin/env python3
"""
Change-directed intensification (DESIGN §4): token-stream hashes of every modelled Rust function, mapped to the protocol ops
that exercise it.  `model_map.json` (committed) holds the hashes the model was written against.  A changed hash NEVER raises an
alarm by itself (a harmless rewrite that stays bit-identical passes); it only multiplies the number of generated cases for the ops
that call the changed function.  An unchanged hash never lowers the base effort.
"""
import re, os, sys, json, hashlib

REPO = "/repo"
FILES = ["src/angle.rs", "src/geonum_mod.rs", "src/geocollection.rs", "src/traits/affine.rs", "src/traits/projection.rs",
         "src/traits/optics.rs", "src/traits/electromagnetics.rs", "src/traits/waves.rs", "src/traits/machine_learning.rs"]

# function (file-qualified, with an impl tag where names repeat) -> regexes of ops whose result depends on it
CALLERS = {
    "angle.rs::new": [r".*"],
    "angle.rs::normalize_boundaries": [r".*"],
    "angle.rs::geometric_add": [r".*"],
    "angle.rs::geometric_sub": [r"angle\.(sub|div)\..*", r"angle\.project", r"geonum\.(dot|wedge|geo|meet|project|reject|reflect|distance_to|is_orthogonal|project_to.*|invert_circle)", r"coll\.select_cone", r"affine\.area.*", r"em\.poynting.*"],
    "angle.rs::new_with_blade": [r"angle\.new_with_blade", r"angle\.(dual|undual)", r"geonum\.(new_with_blade|dual|undual|meet|project.*|add\..*|sub\..*|reject|geo)", r"affine\..*", r"waves\..*"],
    "angle.rs::new_from_cartesian": [r".*new_from_cartesian"],
    "angle.rs::grade_angle": [r"angle\.(grade_angle|project)", r"geonum\..*", r"coll\..*", r"optics\..*", r"em\..*", r"ml\..*", r"waves\..*", r"affine\..*"],
    "angle.rs::is_opposite": [r"angle\.is_opposite"],
    "angle.rs::dual": [r"angle\.(dual|undual)", r"geonum\.(dual|undual|meet)"],
    "angle.rs::negate": [r"angle\.negate", r"geonum\.(negate|inv|div.*|sub\..*|reject|scale_rotate|invert_circle|tan)", r"affine\.area.*", r"waves\..*", r"em\.electric_potential"],
    "angle.rs::conjugate": [r"angle\.conjugate"],
    "angle.rs::base_angle": [r".*base_angle", r"geonum\.reflect"],
    "angle.rs::project": [r"angle\.project", r"geonum\.(project|reject|project_to_dimension)", r"coll\.select_cone"],
    "angle.rs::eq": [r"angle\.eq", r"geonum\.(eq|add\..*|sub\..*|reject|geo|invert_circle)", r"affine\..*", r"waves\..*"],
    "angle.rs::cmp": [r".*cmp", r"geonum\.sort"],
    "angle.rs::div": [r"angle\.div.*"],
}


def strip(src):
    src = re.sub(r"/\*.*?\*/", "", src, flags=re.S)
    src = "\n".join(l.split("//")[0] for l in src.split("\n"))
    return src


def functions(path):
    """yield (name, hash of the normalised token text) for every fn in the non-test part of a file"""
    for name, toks in functions_text(path):
        yield (name, hashlib.sha1(toks.encode()).hexdigest()[:16])


def functions_text(path):
    """yield (name, normalised token text) for every fn in the non-test part of a file"""
    src = strip(open(os.path.join(REPO, path)).read())
    cut = re.search(r"#\s*\[\s*cfg\s*\(\s*test\s*\)\s*\]", src)
    if cut:
        src = src[:cut.start()]
    seen = {}
    for m in re.finditer(r"\bfn\s+(\w+)", src):
        i = src.find("{", m.end())
        semi = src.find(";", m.end())
        if i < 0 or (0 <= semi < i):
            continue  # trait method declaration without body
        depth, j = 1, i + 1
        while j < len(src) and depth:
            depth += src[j] == "{"
            depth -= src[j] == "}"
            j += 1
        body = src[m.start():j]
        toks = " ".join(re.findall(r"[A-Za-z_][A-Za-z_0-9]*|\d[\d_.eE+-]*|\S", body))
        name = m.group(1)
        k = seen.get(name, 0)
        seen[name] = k + 1
        yield (f"{os.path.basename(path)}::{name}" + (f"#{k}" if k else ""), toks)


def current():
    out = {}
    for f in FILES:
        p = os.path.join(REPO, f)
        if os.path.exists(p):
            for name, h in functions(f):
                out[name] = h
    return out


def default_callers(name):
    base = name.split("#")[0]
    if base in CALLERS:
        return CALLERS[base]
    fname, fn = base.split("::")
    stem = {"angle.rs": "angle", "geonum_mod.rs": "geonum", "geocollection.rs": "coll", "affine.rs": "affine", "projection.rs": "projection",
            "optics.rs": "optics", "electromagnetics.rs": "em", "waves.rs": "waves", "machine_learning.rs": "ml"}.get(fname, "")
    pats = [rf"{stem}\.{fn}(\..*)?"]
    if stem == "geonum" and fn in ("add", "sub", "mul", "div"):
        pats += [r"geonum\..*", r"affine\..*", r"waves\..*", r"em\..*", r"coll\..*"]
    if stem == "geonum" and fn in ("dot", "wedge", "scale", "scalar", "signed_at", "inv", "cos", "sin", "project", "rotate", "negate", "dual"):
        pats += [r"geonum\..*", r"coll\..*", r"affine\..*", r"em\..*"]
    return pats


NAMED = {"EPSILON": [1e-10, 2.220446049250313e-16], "PI": [3.141592653589793], "FRAC_PI_2": [1.5707963267948966],
         "FRAC_PI_4": [0.7853981633974483], "TAU": [6.283185307179586], "MIN_POSITIVE": [2.2250738585072014e-308],
         "MAX": [1.7976931348623157e308, 2147483647.0, 4294967295.0], "i32": [2147483647.0, 2147483648.0], "u32": [4294967295.0, 4294967296.0],
         "i16": [32767.0, 32768.0], "u16": [65535.0, 65536.0], "u8": [255.0, 256.0], "f32": [16777216.0, 1.1920929e-07, 3.4028235e38]}


def literal_dict(changed):
    """numeric literals and named float constants (and integer-width names: casts) occurring in the current text of the changed
    functions — the generator's change-directed dictionary.  Empty when nothing changed."""
    if not changed:
        return []
    vals = set()
    texts = {}
    for path in FILES:
        try:
            for name, toks in functions_text(path):
                texts[name] = toks
        except Exception:
            pass
    for n in changed:
        toks = texts.get(n)
        if toks is None:
            continue
        for t in toks.split():
            if re.fullmatch(r"\d[\d_]*(\.[\d_]*)?([eE][+-]?\d+)?", t):
                try:
                    vals.add(float(t.replace("_", "")))
                except ValueError:
                    pass
            elif t in NAMED:
                vals.update(NAMED[t])
    vals.discard(0.0)
    return sorted(vals)[:64]


def changed_ops(all_ops):
    """ops whose underlying functions differ from the committed map (or are new / missing)"""
    root = os.path.dirname(os.path.dirname(os.path.abspath(__file__)))
    base = json.load(open(os.path.join(root, "model_map.json")))["functions"]
    cur = current()
    changed = sorted([n for n in set(base) | set(cur) if base.get(n) != cur.get(n)])
    ops = set()
    for n in changed:
        for pat in default_callers(n):
            for o in all_ops:
                if re.fullmatch(pat, o):
                    ops.add(o)
    return changed, sorted(ops)


if __name__ == "__main__":
    root = os.path.dirname(os.path.dirname(os.path.abspath(__file__)))
    if len(sys.argv) > 1 and sys.argv[1] == "--write":
        json.dump({"_comment": "token-stream hashes of the modelled Rust functions at the commit the model was written against; "
                               "used only to direct extra generation effort, never to raise an alarm", "functions": current()},
                  open(os.path.join(root, "model_map.json"), "w"), indent=1, sort_keys=True)
        print(len(current()), "functions hashed")
    else:
        print(json.dumps(changed_ops([l.split()[0] for l in os.popen(os.path.join(root, "harness/target/debug/gharness") + " list").read().strip().split("\n")])[0]))
