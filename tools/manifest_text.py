HOOK_COMMITS = ["50186a2"]
NOTES = ("Fix commits in /repo (genuine defects, see known_findings.json 'fixed'): f40c5b0, 05011a7, a30fe62. "
         "Proof tiers: G = any arithmetic, S = any arithmetic satisfying the IEEE contract FloatSpec, E = exact reals; see DESIGN.md §6.")
NOT_YET = {}
S_NOTE = ("Theorems are about the Lean model; S-tier ones assume the FloatSpec contract (IEEE-754 binary64 semantics + glibc sanity bounds, "
          "proved consistent by the real-number witness); the model is tied to the code by the bit-exact correspondence on this run's "
          "generated lines only. Axioms: propext, Classical.choice, Quot.sound.")
TEXT = {
 "C04": {"level": "Proved for all canonical angles of any blade count: 8+2 spellings identical and the blade-wrap laws (G); a-a is literally the "
                  "zero angle, the difference is canonical, T(a-b) = T(a)-T(b) within 1e-10+1e-15 with no spurious turns when T(b)<=T(a), and "
                  "otherwise a forward rotation congruent mod whole turns with blade<=4 (=4 only with remainder 0) (S). Not yet proved "
                  "(explored by oracle clauses only): (a+b)-b~a and the Div<f64> total law.",
         "note": S_NOTE},
 "C07": {"level": "Proved: grade = blade mod 4 and predicates, base_angle, magnitudes untouched, is_opposite <-> blade counts differ by exactly two "
                  "(unbounded integers) and the remainder test (G); each step operator's exact blade delta (2,2,2,2,1,1,3,3) with remainder value "
                  "and canonicity preserved; history theorem by induction over any sequence of step operations of any length; 4-cycle "
                  "corollaries (S). Mixed histories with add/sub/mul/div are covered by C03/C04 step theorems plus the oracle's rule check.",
         "note": S_NOTE},
 "C03": {"level": "Proved for all canonical angles of any blade count: 12 spellings identical (G), bit-for-bit commutativity, zero identity, "
                  "blade = sum with at most one carry, invariant preserved, |T(a+b) - (T a + T b)| < 1e-10 + 1e-15 in rounded arithmetic (S); "
                  "associativity of totals proved at 4x the tolerance (partial: property states 2x). Tie: all 12 spellings bit-exact.",
         "note": S_NOTE},
}
