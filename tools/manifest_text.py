HOOK_COMMITS = ["50186a2"]
NOTES = ("Fix commits in /repo (genuine defects, see known_findings.json 'fixed'): f40c5b0, 05011a7, a30fe62. "
         "Proof tiers: G = any arithmetic, S = any arithmetic satisfying the IEEE contract FloatSpec, E = exact reals; see DESIGN.md §6.")
NOT_YET = {}
S_NOTE = ("Theorems are about the Lean model; S-tier ones assume the FloatSpec contract (IEEE-754 binary64 semantics + glibc sanity bounds, "
          "proved consistent by the real-number witness); the model is tied to the code by the bit-exact correspondence on this run's "
          "generated lines only. Axioms: propext, Classical.choice, Quot.sound.")
TEXT = {
 "C03": {"level": "Proved for all canonical angles of any blade count: 12 spellings identical (G), bit-for-bit commutativity, zero identity, "
                  "blade = sum with at most one carry, invariant preserved, |T(a+b) - (T a + T b)| < 1e-10 + 1e-15 in rounded arithmetic (S); "
                  "associativity of totals proved at 4x the tolerance (partial: property states 2x). Tie: all 12 spellings bit-exact.",
         "note": S_NOTE},
}
