HOOK_COMMITS = ['50186a2']
NOTES = ("Fix commits in /repo (genuine defects, see known_findings.json 'fixed'): f40c5b0, 05011a7, a30fe62, 1409e77, 9118133. Proof tiers: G = any arithmetic, "
         "S = any arithmetic satisfying the IEEE contract FloatSpec, B = S with explicit rounding-error bounds, E = exact reals, R = instantiated on the proved "
         "rounding arithmetic R64; see DESIGN.md §0/§6. ")
NOT_YET = {}
S_NOTE = ("Theorems are about the Lean model; S-tier ones assume the FloatSpec contract (IEEE-754 binary64 semantics + glibc sanity bounds, proved to hold of "
          "exact real arithmetic AND of a rounding arithmetic - round-to-nearest on the binary64 grid with correctly rounded libm - in Spec/RealWitness.lean and "
          "Spec/RoundWitness.lean); B = S with explicit rounding-error bounds; the model is tied to the code by the bit-exact correspondence on this run's "
          "generated lines only. Axioms: propext, Classical.choice, Quot.sound. ")
G = 'G = proved for every arithmetic (no assumption on float ops; transfers to the machine by the tie alone)'
TEXT = {
 "C01": {"level": ("Proved (S): Angle::new establishes the reachable-state invariant (finite remainder in [0, pi/2 - 1e-10]) for |p|<=1e200, |d|>=1e-200, |p*pi/d|<=2^42 - "
                  "incl. the negative path and the blade/fmod reconciliation of the repaired code; new_with_blade, new_from_cartesian; every angle operation preserves "
                  "it; history theorem by induction over any operation sequence; usize/i64 headroom: one operation raises the blade count by at most the operand's count "
                  "+ 4, so histories of up to 2^20 operations inside the 2^40 domain stay below 2^62 (the model's Nat and the code's usize cannot differ, no overflow "
                  "panic); sum and product magnitudes finite and non-negative in every branch (never NaN); the angle of a+b is canonical in every branch incl. the atan2 "
                  "re-encoding (blade sums to 2^39), likewise a-b, geo, reject, Angle/f64, pow, scale_rotate, dot, wedge, project, reflect, cos, sin, inv, normalize, a/b (all "
                  "spellings), scale, meet, scalar(f) for any bits of f (more_ops_canonical). The headline "
                  "theorems are also stated on the proved rounding arithmetic R64 with no arithmetic hypothesis left (R). Proved (G): the panics of "
                  "inv/div/normalize/invert_circle occur exactly when the tested magnitude compares equal to 0. Partial: constructor domain is bounded by 1e200 (beyond "
                  "it the extreme-scale generator shapes and the tie are the evidence). "),
         "note": S_NOTE},
 "C02": {"level": ("Proved (S): exact quarter turns new(k,2)=(k blades, rem 0.0) for all k<2^53 and create_dimension; constant table (0, pi/2, pi, 3pi/2, -pi/2, 4pi); "
                  "general path: blade = floor(nt/(pi/2)) and blade*(pi/2)+rem = nt exactly, or snapped to the next blade within 1e-10; new_with_blade adds exactly k "
                  "blades; scalar sign law. Proved (B, rounded arithmetic): the raw total is within 8*2^-53 relative of p*pi_f/d in both orders of operations; for p>=0, "
                  "d>0 and either path blade*(pi_f/2)+rem is p*pi_f/d within 1e-10 + 8*2^-53 relative, hence blade = floor(2p/d) whenever p*pi_f/d is clear of a quarter- "
                  "turn boundary by that margin; any negative p/d on the general path gives X = p*pi_f/d plus a whole number of turns within 1e-10 + (14|X|+46)*2^-53 (a "
                  "forward rotation in the same direction). The Cartesian constructor (repaired, fix 9118133): for every finite non-zero vector with max(|x|,|y|) <= "
                  "1e120 the magnitude is finite and within 11*2^-53 relative (+2^-1075) of sqrt(x^2+y^2), in both branches (B). Proved (E, exact reals): Angle::new(p,d) "
                  "denotes p*pi/d modulo whole turns within 1e-10 for every real p,d and every path (fast, negative, general), a negative argument gives the forward "
                  "rotation; new_from_cartesian has total arg(x+iy) and the Euclidean norm. Proved (B): for -2^41 <= x < 0 the float total of Angle::new(x, PI) lies in "
                  "[0, 2pi_f + 1e-10 + (24|x|+46)*2^-53] - the forward angle within one turn (negative_forward_float), and the same for every divisor on the general "
                  "path (negative_forward_general_float). "),
         "note": S_NOTE},
 "C03": {"level": ("Proved for all canonical angles of any blade count: 12 spellings identical (G), bit-for-bit commutativity, zero identity, blade = sum with at most one "
                  "carry, invariant preserved, |T(a+b) - (T a + T b)| < 1e-10 + 1e-15 in rounded arithmetic (S); associativity of totals within twice the tolerance (at "
                  "most one snap per bracketing) (S). Tie: all 12 spellings bit-exact. "),
         "note": S_NOTE},
 "C04": {"level": ("Proved for all canonical angles of any blade count: 8+2 spellings identical and the blade-wrap laws (G); a-a is literally the zero angle, the "
                  "difference is canonical, T(a-b) = T(a)-T(b) within 1e-10+1e-15 with no spurious turns when T(b)<=T(a), and otherwise a forward rotation congruent mod "
                  "whole turns with blade<=4 (=4 only with remainder 0); (a+b)-b returns a within two tolerances (S). Angle / f64 with a positive divisor, in rounded "
                  "arithmetic through all seven roundings: the result is canonical, both spellings agree and its total is T(a)/k within 1e-10 + 16*2^-53 relative - no "
                  "turn appears or disappears (B); the same in exact arithmetic (E). "),
         "note": S_NOTE},
 "C05": {"level": ("Proved: product = (one float product of magnitudes, angle sum), all division spellings = multiplication by the inverse, panics exactly on zero "
                  "magnitude, Angle*/+Geonum only rotate, scale = mul by scalar, pow magnitude (G); bit-for-bit commutativity, [1,0] identity, inverse = reciprocal "
                  "magnitude + exactly 2 blades with remainder untouched, scale sign law (+2 blades iff factor<0, none for +-0), the float totals of a product add up to "
                  "one snap and one rounding (S). Partial: associativity, powf rounding. "),
         "note": S_NOTE},
 "C06": {"level": ("Proved: sub = add of the half-turned operand, all spellings and translate identical (G); a-a has magnitude exactly 0.0; every branch of + and - "
                  "returns a finite non-negative magnitude for magnitudes in [0,1e100] (never NaN - relies on the radicand clamp fix); zero operand with the same angle "
                  "leaves magnitude and angle unchanged (S). Proved (E, exact reals): the Cartesian point of a+b is the component-wise sum within 1e-10*(1+|a|+|b|) in "
                  "every branch (same angle, opposite incl. cancellation, law of cosines + atan2 + re-encoding), likewise a-b; a+b and b+a denote the same point; running "
                  "sums by induction over any list. Proved (B, rounded arithmetic, general branch): the magnitude is within (|a|+|b|)*(2^-24+2^-50) of the law-of-cosines "
                  "value (the sqrt(eps)-of-scale bound, attained only under near-total cancellation), and the direction - the float total of the result - is the libm "
                  "atan2 of the rounded component sums plus a whole number of turns within 1e-10 + (40*cb+140)*2^-53 (cb = combined blade count). The closure (B): the "
                  "Cartesian components of a+b (true pi) are the component-wise sums of the operands' Cartesian components within (|a|+|b|)*(2e-7 + 1.1*(1e-10 + "
                  "(40*cb+170)*2^-53)) + 1e-28, assembled from the rounded component sums, the magnitude against the true norm, the libm atan2 against the exact argument "
                  "(incl. the negative real axis) and the re-encoding. The special branches in rounded arithmetic (B): identical angles within (|a|+|b|)*(2^-53+1e-15), a "
                  "half turn apart (cancellation, first larger, second larger) within that + 2e-10; hence sum_cartesian_every_branch_float / diff_cartesian_every_branch_float "
                  "with no branch hypothesis, and running_sum_float: by induction over any list every partial sum is canonical and the running sum's Cartesian components "
                  "are within the accumulated per-step bounds. Also stated on the rounding arithmetic R64 (R). Residue: the sqrt(eps)*scale term of the bound is uniform "
                  "rather than only under cancellation. "),
         "note": S_NOTE},
 "C07": {"level": ("Proved: grade = blade mod 4 and predicates, base_angle, magnitudes untouched, is_opposite <-> blade counts differ by exactly two (unbounded integers) "
                  "and the remainder test (G); each step operator's exact blade delta (2,2,2,2,1,1,3,3) with remainder value and canonicity preserved; history theorem by "
                  "induction over any sequence of step operations of any length; 4-cycle corollaries (S). Mixed histories with add/sub/mul/div are covered by C03/C04 "
                  "step theorems plus the oracle's rule check. "),
         "note": S_NOTE},
 "C08": {"level": ("Proved for EVERY arithmetic and every shift n (unbounded): the grade angle of a difference is the same value under 4n/4m blade shifts, hence dot, "
                  "orthogonality, distance, Angle::project, cos/sin, cone membership are identical structures (bit-identical on the machine); wedge, meet, project shift "
                  "their angle by exactly the operands' shifts (G); project_to_dimension(k) = (k+4n) (S); in rounded arithmetic 4n quarter turns on a summand move the "
                  "Cartesian components of a sum by at most twice the C06 accuracy bound - with both sums in the general branch (sum_shift_cartesian_float) and with NO "
                  "branch hypothesis at twice the every-branch bound (sum_shift_every_branch_float: the shift may move a pair between branches) (B; on R64: R). The "
                  "tolerance grows with ulp(blade*pi/2), as the bound states. "),
         "note": S_NOTE},
 "C09": {"level": ("Proved: dot = |value| at the base angle or base+pi exactly when the computed value tests negative, orthogonality test definition (G); the two angles "
                  "are blade 0 / blade 2 with remainder 0; magnitude >= 0 and <= rnd(|a||b|) (Cauchy-Schwarz in rounded arithmetic) (S); the returned signed value is "
                  "|a||b|cos(Tb-Ta) (true pi) within |a||b|(1e-10+1e-14) in rounded arithmetic, a.b and b.a agree within twice that, a.a = |a|^2 and |a.b| <= |a||b| up to the same slack (B); value, symmetry, a.a=|a|^2 in "
                  "exact arithmetic (E). "),
         "note": S_NOTE},
 "C10": {"level": ("Proved: geo = dot + wedge and meet = dual(wedge(dual,dual)) definitionally; wedge magnitude/angle structure incl. the half turn iff sine tests "
                  "negative (G); wedge magnitude in [0, rnd(|a||b|)], angle canonical with blade in [ba+bb+1, ba+bb+4] (S); magnitude |a||b||sin(Tb-Ta)| within an "
                  "explicit rounding bound, and the wedge's float total is Ta+Tb+pi_f/2 (+ a half turn iff the computed sine tests negative) up to one snap and one "
                  "rounding, |a^b| and |b^a| agree within twice the magnitude bound, dot^2 + wedge^2 = (|a||b|)^2 within ~4e-10 relative (B); sine value, parallel => 0, anticommutation (same magnitude, exactly two blades on), Lagrange identity dot^2+wedge^2=(|a||b|)^2 exactly "
                  "(E). "),
         "note": S_NOTE},
 "C11": {"level": ("Proved: projection independent of |b| beyond the 1e-10 test, structure (|a||cos| along b's angle, +pi iff factor negative), tiny-axis branch total, "
                  "reject = a - proj, angle/dimension forms (G); 0 <= |proj| <= |a|, projection angle canonical with b's blade or +2 and b's remainder (S); in rounded "
                  "arithmetic: Angle::project is cos(T onto - T self) within 1e-10+8e-15, the projection length is |a||cos(Tb-Ta)| within |a|(1e-10+1e-14), and "
                  "project_to_dimension(k) is |g|cos(k*pi/2 - T g) within |g|(1e-10+1e-14) for every k < 2^53 with no growth in k (B); the projection's Cartesian point "
                  "is (a.b^)b^, projection + rejection = a as points, rejection orthogonal to b, Pythagoras (E); in rounded arithmetic the Cartesian components of "
                  "projection and rejection add up to those of a in EVERY branch of the underlying subtraction, incl. a parallel to b "
                  "(project_add_reject_every_branch_float); the projection is the vector (a.b^)b^ with a signed length within |a|(1e-10+1e-14) of |a|cos(Tb-Ta) "
                  "(project_cartesian_float) and the rejection's component along b^ is bounded by twice the subtraction bound plus that accuracy "
                  "(reject_orthogonal_float), Pythagoras |a|^2 = |p|^2 + |r|^2 up to the stated bound (project_pythagoras_float) (B). "),
         "note": S_NOTE},
 "C12": {"level": ("Proved: rotation returns the magnitude field itself and the angle sum; reflection never reads the axis length; scale-rotate branch law (G); full turn "
                  "adds exactly 4 blades keeping grade and remainder; rotation carries; reflection result canonical with at least twice the axis's blades (S); in ROUNDED "
                  "arithmetic reflection sends the float total t to 2*alpha - t modulo whole turns within 3 snap tolerances, a number on the axis keeps its direction, "
                  "reflecting twice restores direction (6 tolerances) and the magnitude field (S/B); rotations add totals, same across the negated axis, scale-rotate "
                  "multiplies the Cartesian vector by f*e^{i r} incl. negative factors (E). "),
         "note": S_NOTE},
 "C13": {"level": ("Proved: mag_diff definition; invert_circle panics exactly when the offset magnitude compares equal to zero (G); distance_to is finite, non-negative "
                  "(never NaN - relies on the clamp fix) and sits at blade 0 with remainder 0; inverting the circle's own centre panics (S); distance within a "
                  "sqrt(eps)-of-scale bound of the law-of-cosines value through all roundings, within (|a|+|b|)*1.1e-5 of the TRUE Euclidean distance, symmetric and "
                  "obeying the triangle inequality up to those bounds, |a-b| (general branch) within (|a|+|b|)*1.5e-7 of it (B); distance = Euclidean distance (metric "
                  "axioms), = |a-b|, inversion: same ray, |p'-c||p-c| = r^2, circle fixed, the reference inversion is an involution and the code's inverted offset is "
                  "that reference (E); inversion in ROUNDED arithmetic (invertCircle_float): result = c + io with io on the ray of the computed offset, |io||p-c| = r^2 "
                  "within 3*2^-53 relative, offset and result placed within the every-branch C06 bound (B). Partial (explored): the composed float bound on p''-p; "
                  "offsets below 1e-100. "),
         "note": S_NOTE},
 "C14": {"level": ("Proved: same-angle branch keeps the receiver's angle field; opposite branch: cancellation gives (0.0, new_with_blade(ba+bb)) literally blade ba+bb rem "
                  "0.0, otherwise the larger summand's angle field (G/S); the equality tests are blade-exact so the branches fire only for equal blades / blades exactly "
                  "two apart (S); general regime in exact arithmetic: blade sum <= result blade <= blade sum + 4, = +4 only with remainder 0 (E); general regime in ROUNDED "
                  "arithmetic for blade sums up to 2^39 (general_blade_float; on the rounding arithmetic R64: general_blade_rounded): blade sum <= result blade <= "
                  "blade sum + 4, = +4 only with remainder <= 1e-10 + (48*cb+200)*2^-53 - the snap width for small cb, growing with cb (B/R). 'Only with remainder 0' is "
                  "FALSE of the float code for blade sums above ~1e5 (known finding, witness replayed; the proved bound quantifies it). "),
         "note": S_NOTE},
 "C15": {"level": ("Proved: tan = sin.div(cos), adj/opp = cos/sin scaled (definitional), cos/sin = |libm value| at base or base+pi iff the value tests negative (G); "
                  "lattice placement (cos on blade 0/2, sin on blade 1/3, remainder 0), magnitudes in [0,1] (S); magnitudes within the libm error of |cos T|,|sin T| for "
                  "the true-pi total, and adj/opp magnitudes |g||cos T|, |g||sin T| within |g|(6e-15+2^-53), cos^2+sin^2 = 1 within 3e-14, in rounded arithmetic (B); cos^2+sin^2=1 exactly, |tan T| off the "
                  "poles with odd grade and period pi, adj/opp are the Cartesian components (E). "),
         "note": S_NOTE},
 "C16": {"level": ("Proved: == implies identical blades; Geonum == adds magnitude; partial_cmp = Some(cmp) (G); cmp is the lexicographic order on (blade, remainder "
                  "value): never panics on finite fields, reflexive, antisymmetric, transitive, total; cmp=Equal implies ==; == implies remainders within 1e-15 (S); over "
                  "exact reals sort never panics and returns a sorted permutation (List.mergeSort with the proved lawful order) (E); the same in ROUNDED arithmetic for every "
                  "list of numbers with finite fields (sort_float; every list over R64: sort_rounded) (S/R). '== implies cmp=Equal' is FALSE of "
                  "the code (known finding, witness replayed); proved only for equal remainder values (_partial). "),
         "note": S_NOTE},
 "C17": {"level": ("Proved for every arithmetic (G): truncate/select_cone are exactly List.filter by the coded predicates (sublists, order kept, strictness, zero "
                  "members/axis never selected); scale_all/rotate_all are List.map (length kept); total_magnitude is the left fold from -0.0; dominant is None exactly on "
                  "the empty collection and otherwise a member; conversions/index/iteration are the member sequence itself. Proved in rounded arithmetic (S; on R64: R): a "
                  "member with finite magnitude is kept by truncate exactly when its value is strictly above the threshold; on a non-empty collection with finite "
                  "magnitudes dominant never panics and returns a member of maximal magnitude; total_magnitude of up to 2^20 non-negative magnitudes is within "
                  "2n*2^-53 relative of the exact sum. "),
         "note": S_NOTE},
 "C18": {"level": ("Proved for every arithmetic (G): each helper of the six optional traits equals its documented closed form over core operations (mostly definitional by "
                  "design - the weight is on the bit-exact tie, where every helper is an op). "),
         "note": S_NOTE},
 "C19": {"level": ("Proved: activations return the angle field untouched, refraction/propagation the magnitude field, dispersion magnitude 1.0, ReLU gate law, negative "
                  "charge = half turn (G); sigmoid output strictly between 0 and a non-zero in-domain magnitude, |tanh output| <= magnitude (S); Snell's law whenever "
                  "|sin t_in| <= n (closed end included), 1/m^2, q/r^n, 1/r; wedge = planar cross product; the quadrilateral helper is the two-triangle cross-product "
                  "area of the Cartesian corners, invariant under common translation and rotation, = shoelace (E); the same in ROUNDED arithmetic (area_float, "
                  "area_invariant_float; on R64: area_rounded): for corners up to 1e40 and blade sums up to 1e6 the helper's value is within 6e-6*(1+R)^2 of the "
                  "two-triangle cross-product area, through every branch of the edge subtractions, the wedges, both halvings and the sum (B/R). Partial (explored by "
                  "metamorphic oracle incl. the critical-angle tie): the float tolerances of the optics / field relations. "),
         "note": S_NOTE},
 "C20": {"level": ("The feature model (flags, default set, `all` alias, module gates, re-export gates, inner gates, cross references, feature gates in core files) is "
                  "regenerated from the source on every run and the closure / independence / usability theorems are re-decided by the Lean kernel over all 64 subsets "
                  "(`decide`); the tie is exhaustive: all 64 subsets plus `all` are really built with default features off and run, comparing build success, helper "
                  "availability and bit-identical digests of a fixed battery. "),
         "note": ("rustc's name resolution is abstracted as a dependency-closure relation; the translator is a regular-expression reader that fails closed; digests cover "
                  "a fixed battery of inputs. Axioms: none beyond propext/Classical.choice/Quot.sound (decide, no native_decide). "),
         "technique": ("Lean 4 kernel `decide` over a feature model regenerated from source + exhaustive real builds of all 65 configurations ")},
}
