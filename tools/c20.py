"""C20 check: regenerated feature model + kernel-decided closure theorems + all 65 real builds"""
import os, sys, json, time, re, subprocess, shutil, tempfile, hashlib
from concurrent.futures import ThreadPoolExecutor

FEATS = ["optics", "projection", "ml", "em", "waves", "affine"]
ALLOWED_AXIOMS = {"propext", "Classical.choice", "Quot.sound"}


def sh(cmd, cwd=None, timeout=None, env=None):
    p = subprocess.run(cmd, cwd=cwd, stdout=subprocess.PIPE, stderr=subprocess.STDOUT, text=True, timeout=timeout,
                       env=env or dict(os.environ, CARGO_NET_OFFLINE="true"))
    return p.returncode, p.stdout


def build_one(args):
    """build the probe for one feature configuration, run its fixed battery, and (when an ops file is given) run every
    protocol line through it; returns (idx, feats, rc, battery digests, error tail, per-line outputs or None)"""
    root, tmp, idx, feats = args[:4]
    ops = args[4] if len(args) > 4 else None
    d = os.path.join(tmp, f"c{idx}")
    shutil.copytree(os.path.join(root, "probe20"), d, ignore=shutil.ignore_patterns("target", "Cargo.lock"))
    cmd = ["cargo", "run", "--offline", "-q", "--no-default-features"]
    if feats:
        cmd += ["--features", ",".join(feats)]
    rc, out = sh(cmd, cwd=d, timeout=900)
    outs = None
    if rc == 0 and ops:
        p = subprocess.run(cmd + ["--", "run"], cwd=d, stdin=open(ops), stdout=subprocess.PIPE, stderr=subprocess.DEVNULL, text=True,
                           timeout=900, env=dict(os.environ, CARGO_NET_OFFLINE="true"))
        outs = p.stdout.split("\n")[:-1] if p.returncode == 0 else []
    shutil.rmtree(d, ignore_errors=True)
    lines = dict(l.split() for l in out.strip().split("\n") if re.fullmatch(r"\w+ [0-9a-f]{16}", l.strip())) if rc == 0 else {}
    return idx, feats, rc, lines, (out[-1500:] if rc != 0 else ""), outs


def gen_ops(root, work, seed, count):
    """protocol lines for every operation (core and all six traits), from the correspondence generator"""
    path = os.path.join(work, "c20_ops.txt")
    rc, out = sh(["cargo", "build", "--offline", "-q"], cwd=os.path.join(root, "harness"), timeout=1800)
    if rc != 0:
        return None, out[-800:]
    exe = os.path.join(root, "harness/target/debug/gharness")
    with open(path, "w") as f:
        p = subprocess.run([exe, "gen", "--seed", str(seed), "--count", str(count), "--malformed", "3", "--hist", "20"], stdout=f, stderr=subprocess.PIPE, text=True)
    if p.returncode != 0:
        return None, p.stderr[-800:]
    # the generator marks out-of-domain (malformed-stream) lines with a leading `!`; C20 compares configurations line by line,
    # for which the marker is irrelevant
    txt = open(path).read()
    open(path, "w").write("\n".join(l[1:] if l.startswith("!") else l for l in txt.split("\n")))
    return path, ""


def needs(line):
    f = line.split(".", 1)[0]
    return f if f in FEATS else None


def write_replay(root, kind, payload):
    d = os.environ.get("VERIF_REPLAYS", os.path.join(root, "replays"))
    os.makedirs(d, exist_ok=True)
    h = hashlib.sha1(json.dumps(payload, sort_keys=True).encode()).hexdigest()[:10]
    p = os.path.join(d, f"C20-{kind}-{h}.json")
    json.dump({"property": "C20", "kind": kind, **payload}, open(p, "w"), indent=1)
    return p


def replay(root, path):
    r = json.load(open(path))
    feats = r.get("features", [])
    tmp = tempfile.mkdtemp(prefix="c20r_")
    try:
        opsf = None
        if r.get("line"):
            opsf = os.path.join(tmp, "line.txt"); open(opsf, "w").write(r["line"] + "\n")
        idx, f, rc, lines, err, o1 = build_one((root, tmp, 0, feats, opsf))
        _, _, rca, lall, _, o2 = build_one((root, tmp, 1, r.get("reference", ["all"]), opsf))
    finally:
        shutil.rmtree(tmp, ignore_errors=True)
    print(f"configuration --no-default-features --features {','.join(feats) or '(none)'}: build rc={rc}")
    if rc != 0:
        print(err[-800:])
        print("REPLAY reproduces"); return 1
    bad = [k for k in feats if k in FEATS and k not in lines] + [k for k, v in lines.items() if lall.get(k) not in (None, v)]
    if r.get("line"):
        print("line:", r["line"]); print(" this configuration ->", o1, "\n reference ->", o2)
        if o1 != o2: bad.append("line")
    print("digests:", lines, "| all:", lall)
    print("REPLAY", "reproduces" if bad else "does not reproduce")
    return 1 if bad else 0


def run(root, pid, tier, seed):
    args = sys.argv[1:]
    if "--replay" in args:
        return replay(root, args[args.index("--replay") + 1])
    t0 = time.time()
    sys.path.insert(0, os.path.join(root, "tools"))
    import featmodel as FM
    import props_config as PC
    work = os.environ.get("VERIF_WORK", os.path.join(root, "work"))
    evid = os.environ.get("VERIF_EVIDENCE", os.path.join(root, "evidence"))
    os.makedirs(work, exist_ok=True)
    os.makedirs(evid, exist_ok=True)
    lean = os.path.join(root, "lean")
    violations, notes = [], []
    model, names, axioms_used, proof_ok, pinfo = None, [], [], False, {}
    # ---- 1. regenerate the model from the source
    try:
        model = FM.extract()
        dst = os.path.join(lean, "GeonumModel/Generated/Features.lean")
        os.makedirs(os.path.dirname(dst), exist_ok=True)
        txt = FM.render(model)
        if not os.path.exists(dst) or open(dst).read() != txt:
            open(dst, "w").write(txt)
    except FM.Unsupported as e:
        rp = write_replay(root, "translator", {"features": [], "error": f"feature-model translator cannot express the source: {e}",
                                               "theorems_no_longer_checked": "all of GeonumModel.C20"})
        violations.append((rp, "no-failing-input-found"))
    # ---- 2. kernel-decide the closure theorems for the regenerated model
    if model is not None:
        t = time.time()
        rc, out = sh(["lake", "build", "GeonumModel.Props.C20"], cwd=lean, timeout=3600)
        pinfo["lake_build_s"] = round(time.time() - t, 1)
        src = open(os.path.join(lean, "GeonumModel/Props/C20.lean")).read()
        src_nc = re.sub(r"/-.*?-/", "", src, flags=re.S)
        names = ["GeonumModel.C20." + n for n in re.findall(r"^theorem\s+(\S+)", src_nc, flags=re.M)]
        if rc == 0:
            audit = os.path.join(work, "AuditC20.lean")
            open(audit, "w").write("import GeonumModel.Props.C20\n" + "".join(f"#print axioms {n}\n" for n in names))
            rc2, out2 = sh(["lake", "env", "lean", audit], cwd=lean, timeout=1800)
            ax = {}
            for m in re.finditer(r"'(\S+)' (depends on axioms: \[([^\]]*)\]|does not depend on any axioms)", out2, flags=re.S):
                ax[m.group(1)] = [a.strip() for a in (m.group(3) or "").replace("\n", " ").split(",") if a.strip()]
            axioms_used = sorted({a for v in ax.values() for a in v})
            proof_ok = rc2 == 0 and all(n in ax for n in names) and set(axioms_used) <= ALLOWED_AXIOMS
            if not proof_ok:
                pinfo["audit_tail"] = out2[-800:]
        else:
            failing = re.findall(r"C20\.lean:(\d+):\d+: error", out)
            pinfo["failed_at_lines"] = failing
            pinfo["build_tail"] = out[-1200:]
    # ---- 3. the tie: all 65 real builds
    configs = [[FEATS[i] for i in range(6) if S >> i & 1] for S in range(64)] + [["all"]]
    tmp = tempfile.mkdtemp(prefix="c20_")
    nlines = 400000 if tier == "thorough" else 40000
    opsf, operr = gen_ops(root, work, seed, nlines)
    if opsf is None:
        notes.append("could not generate protocol lines: " + operr)
    t = time.time()
    try:
        with ThreadPoolExecutor(max_workers=16) as ex:
            results = list(ex.map(build_one, [(root, tmp, i, c, opsf) for i, c in enumerate(configs)]))
    finally:
        shutil.rmtree(tmp, ignore_errors=True)
    builds_s = round(time.time() - t, 1)
    allres = results[64][3]
    build_fail, missing, core_diff, helper_diff = [], [], [], []
    core0 = results[0][3].get("core")
    # the same protocol lines under every configuration: identical to the `all` build, or bad-op exactly when the op's trait is off
    line_diff, lines_compared, per_feat = None, 0, {}
    if opsf is not None:
        src_lines = open(opsf).read().split("\n")[:-1]
        ref = results[64][5] or []
        if results[64][2] == 0 and len(ref) == len(src_lines):
            for idx, feats, rc, _, _, outs in results[:64]:
                if rc != 0 or outs is None:
                    continue
                if len(outs) != len(src_lines):
                    line_diff = line_diff or (feats, src_lines[0], "<stream of %d lines>" % len(outs), "<stream of %d lines>" % len(ref), "the probe died part-way through the stream"); continue
                for l, o, r0 in zip(src_lines, outs, ref):
                    nf = needs(l)
                    want = r0 if (nf is None or nf in feats) else "bad-op"
                    lines_compared += 1
                    if nf is None or nf in feats:
                        per_feat[nf or "core"] = per_feat.get(nf or "core", 0) + 1
                    if o != want and line_diff is None:
                        line_diff = (feats, l, o, want, "result differs between feature configurations")
        else:
            notes.append("reference configuration `all` produced no usable stream")
    for idx, feats, rc, lines, err, _outs in results:
        if rc != 0:
            build_fail.append((feats, err)); continue
        if lines.get("core") != core0:
            core_diff.append((feats, lines.get("core"), core0))
        want = FEATS if feats == ["all"] else feats
        for f in want:
            if f not in lines:
                missing.append((feats, f))
            elif allres.get(f) is not None and lines[f] != allres[f]:
                helper_diff.append((feats, f, lines[f], allres[f]))
        extra = [k for k in lines if k != "core" and k not in want]
        if extra:
            helper_diff.append((feats, "unexpected helpers " + ",".join(extra), "", ""))
    if build_fail:
        feats, err = build_fail[0]
        rp = write_replay(root, "build", {"features": feats, "what": "this feature subset does not build on its own",
                                          "compiler_tail": err, "other_failing_subsets": [f for f, _ in build_fail[1:]]})
        violations.append((rp, ""))
    elif missing:
        rp = write_replay(root, "helpers", {"features": missing[0][0], "what": f"helpers of enabled feature {missing[0][1]} not usable"})
        violations.append((rp, ""))
    elif line_diff:
        feats, l, o, want, why = line_diff
        rp = write_replay(root, "line", {"features": feats, "reference": ["all"], "what": why, "line": l, "this_configuration": o, "expected": want})
        violations.append((rp, ""))
    elif core_diff or helper_diff:
        d = (core_diff or helper_diff)[0]
        rp = write_replay(root, "digest", {"features": d[0], "what": "results differ from the reference configuration", "detail": [str(x) for x in d]})
        violations.append((rp, ""))
    # proof broken but every build fine: look for the concrete subset in the model, else no-failing-input-found
    if model is not None and not proof_ok and not violations:
        mv = FM.violations(model)
        if mv:
            sub, why = mv[0]
            rp = write_replay(root, "model", {"features": sub, "what": why, "theorems_no_longer_checked": names})
            violations.append((rp, "no-failing-input-found" if not build_fail else ""))
        else:
            rp = write_replay(root, "proof", {"features": [], "what": "a theorem of Props/C20.lean no longer checks for the regenerated model",
                                              "detail": pinfo, "theorems_no_longer_checked": names})
            violations.append((rp, "no-failing-input-found"))
    wall = round(time.time() - t0, 2)
    nthm = len(names)
    ok_builds = sum(1 for r in results if r[2] == 0)
    ev = {
        "property_id": "C20", "tier": tier, "seed": seed, "level": "proof",
        "coverage": {
            "obligations": max(nthm, 1) + 1,
            "discharged": (nthm + 1) if (proof_ok and not violations) else (nthm if proof_ok else 0),
            "checker_cmd": "python3 tools/featmodel.py (regenerate model) && cd lean && lake build GeonumModel.Props.C20 && lake env lean ../work/AuditC20.lean",
            "trusted_base": PC.TRUSTED_BASE[:2] + [
                "the feature-model translator tools/featmodel.py (regular-expression reader of Cargo.toml, lib.rs, traits/*.rs; fails closed on cfg "
                "expressions beyond feature/any/all/not)",
                "rustc name resolution abstracted as the closure relation of Props/C20.lean; the 65 real builds of probe20 are the ground truth",
                "the probe's fixed battery of core and helper computations, and the generated protocol lines replayed under every configuration"],
            "explanation": "obligations = theorems of Props/C20.lean decided by the kernel over the regenerated tables for all 64 subsets, + 1 for the "
                           "agreement of all 65 real builds (build success, helper availability, bit-identical digests, and the same generated protocol lines "
                           "giving bit-identical results under every configuration that compiles the operation)",
            "theorems": names, "axioms_used": axioms_used, "proof_stage": pinfo,
            "exhaustive": True,
            "evaluations": len(configs), "distinct_nontrivial": ok_builds,
            "rule": "all 64 subsets of the six flags plus the alias `all`, each built with default features off and run; non-trivial = built and ran",
            "programs": len(configs), "builds_ok": ok_builds, "builds_wall_s": builds_s,
            "protocol_lines": {"file_lines": (len(src_lines) if opsf else 0), "comparisons": lines_compared, "per_trait_comparisons": per_feat, "notes": notes},
            "model": {k: model[k] for k in ("features", "default", "all", "core_cfg")} if model else None,
            "samples": [{"features": r[1], "digests": r[3]} for r in (results[0], results[21], results[64])],
        },
        "assumptions": ["dev-profile builds; digests compare bit patterns of a fixed battery, not all inputs (the core model itself is feature-free: theorem defaults_and_core)"],
        "wall_s": wall, "violations": len(violations),
    }
    if ev["coverage"]["discharged"] < 1:
        ev["level"] = "other"   # nothing was discharged on this run: do not present it as proof-level evidence
    json.dump(ev, open(os.path.join(evid, "C20.json"), "w"), indent=1)
    if violations:
        rp, suffix = violations[0]
        print(f"VIOLATION property=C20 replay={rp}" + (" " + suffix if suffix else ""))
        return 1
    print(f"OK property=C20 tier={tier} theorems={nthm} builds={ok_builds}/65 line_comparisons={lines_compared} wall={wall}s")
    return 0
