#!/bin/bash
# run every registered quick (or $1=thorough) check on the current tree
cd /verif
tier=${1:-quick}
fail=0
for i in $(seq -w 1 20); do
  out=$(./check C$i --tier $tier 2>&1 | grep -E "^(VIOLATION|OK)" | cut -c1-160)
  echo "$out"
  case "$out" in OK*) ;; *) fail=1;; esac
done
exit $fail
