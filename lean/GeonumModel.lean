import GeonumModel.Arith
import GeonumModel.Model.Angle
import GeonumModel.Model.Geonum
import GeonumModel.Model.Collection
import GeonumModel.Model.Traits
