/-
  C10 — Wedge is the oriented area; geo = dot + wedge; meet = dual wedge dual.
-/
import GeonumModel.Lemmas.AngleStep
import GeonumModel.Lemmas.Shift
import GeonumModel.Lemmas.Exact
import GeonumModel.Lemmas.FloatTrig
import GeonumModel.Lemmas.GeonumMag
import GeonumModel.Lemmas.FloatMetric
import GeonumModel.Props.C09
import GeonumModel.Spec.RoundWitness

set_option linter.unusedSectionVars false
set_option linter.unusedVariables false

namespace GeonumModel.C10
open GeonumModel FloatLike FloatSpec Angle

section G
variable {F : Type} [FloatLike F]

/-- (G) the geometric product is exactly the sum of dot and wedge; meet is exactly the dual of the wedge of the duals -/
theorem geo_meet_def (a b : Geonum F) :
    a.geo b = (a.dot b).add (a.wedge b) ∧ a.meet b = (a.dual.wedge b.dual).dual := ⟨rfl, rfl⟩

/-- (G) wedge: magnitude `(|a|·|b|)·|sin(grade_angle(tb − ta))|`; angle `ta + tb + π/2`, plus a half turn exactly when
    the computed sine tests negative -/
theorem wedge_structure (a b : Geonum F) :
    let s := FloatLike.sin (b.angle.sub a.angle).gradeAngle
    (a.wedge b).mag = fmul (fmul a.mag b.mag) (fabs s) ∧
    (flt s zero = false → (a.wedge b).angle = (a.angle.geometricAdd b.angle).geometricAdd (Angle.new one two)) ∧
    (flt s zero = true → (a.wedge b).angle =
        ((a.angle.geometricAdd b.angle).geometricAdd (Angle.new one two)).geometricAdd (Angle.new one one)) := by
  intro s
  refine ⟨rfl, ?_, ?_⟩ <;> intro h <;> simp only [Geonum.wedge] <;> simp only [s] at h <;> simp [h, Angle.add, addVV]
end G

section S
variable {F : Type} [FloatSpec F]

/-- (S) wedge magnitude is finite-non-negative: `rnd(rnd(|a||b|)·|sin|) ≥ 0` and bounded by the rounded product of magnitudes -/
theorem wedge_mag_bounds {a b : Geonum F} (ha : Fin a.mag) (hb : Fin b.mag) (h0a : 0 ≤ val a.mag) (h0b : 0 ≤ val b.mag)
    (hg : Fin (b.angle.sub a.angle).gradeAngle) (hr : InRange (F := F) (val a.mag * val b.mag)) :
    0 ≤ val (a.wedge b).mag ∧ val (a.wedge b).mag ≤ rnd (F := F) (val a.mag * val b.mag) := by
  obtain ⟨hfp, hvp⟩ := fmul_spec ha hb hr
  obtain ⟨hfs, hs1, _⟩ := sin_spec hg
  obtain ⟨hfa, hva⟩ := fabs_spec hfs
  have hp0 : 0 ≤ val (fmul a.mag b.mag) := by rw [hvp]; exact rnd_nonneg (mul_nonneg h0a h0b)
  have hprod0 : 0 ≤ val (fmul a.mag b.mag) * val (fabs (FloatLike.sin (b.angle.sub a.angle).gradeAngle)) := by
    rw [hva]; exact mul_nonneg hp0 (abs_nonneg _)
  have hprod1 : val (fmul a.mag b.mag) * val (fabs (FloatLike.sin (b.angle.sub a.angle).gradeAngle)) ≤ val (fmul a.mag b.mag) := by
    rw [hva]
    calc val (fmul a.mag b.mag) * |val (FloatLike.sin (b.angle.sub a.angle).gradeAngle)|
        ≤ val (fmul a.mag b.mag) * 1 := mul_le_mul_of_nonneg_left hs1 hp0
      _ = val (fmul a.mag b.mag) := mul_one _
  obtain ⟨hfv, hvv⟩ := fmul_spec hfp hfa
    (inRange_mono (by rw [abs_of_nonneg hprod0, abs_of_nonneg hp0]; exact hprod1) (inRange_val hfp))
  have hmag : val (a.wedge b).mag = rnd (F := F) (val (fmul a.mag b.mag) * val (fabs (FloatLike.sin (b.angle.sub a.angle).gradeAngle))) := hvv
  rw [hmag]
  refine ⟨rnd_nonneg hprod0, ?_⟩
  have := rnd_mono (F := F) hprod1
  rw [rnd_val hfp] at this
  rw [← hvp]; exact this

/-- (S) the wedge angle is canonical and its blade count is `ba + bb + 1` (+2 for negative orientation) plus at most one carry -/
theorem wedge_angle {a b : Geonum F} (ha : a.angle.Inv) (hb : b.angle.Inv) :
    (a.wedge b).angle.Inv ∧ a.angle.blade + b.angle.blade + 1 ≤ (a.wedge b).angle.blade ∧
      (a.wedge b).angle.blade ≤ a.angle.blade + b.angle.blade + 4 := by
  obtain ⟨hi, hbl, _⟩ := geometricAdd_spec ha hb
  have hq := add_whole (z := Angle.new (one : F) two) hi (by rw [new_one_two]; exact fin_zero) (by rw [new_one_two]; exact val_zero)
  rw [new_one_two] at hq
  have hqi : ((a.angle.geometricAdd b.angle).geometricAdd (⟨zero, 1⟩ : Angle F)).Inv := inv_of_spec hi hq.2
  obtain ⟨hb1, hf1, _, hv1⟩ := new_one_one (F := F)
  simp only at hb1 hv1; rw [val_zero] at hv1
  have ws := (wedge_structure a b)
  simp only at ws
  by_cases h : flt (FloatLike.sin (b.angle.sub a.angle).gradeAngle) (zero : F) = true
  · rw [ws.2.2 h, new_one_two]
    have hp := add_whole hqi hf1 hv1
    rw [hb1] at hp
    refine ⟨inv_of_spec hqi hp.2, ?_, ?_⟩ <;> rw [hp.1, hq.1] <;> rcases hbl with h | h <;> rw [h] <;> simp <;> omega
  · rw [ws.2.1 (by simpa using h), new_one_two]
    refine ⟨hqi, ?_, ?_⟩ <;> rw [hq.1] <;> rcases hbl with h | h <;> rw [h] <;> simp <;> omega

end S

/-! ### B-tier: the magnitude in ROUNDED arithmetic, angles in true radians -/
section B
variable {F : Type} [FloatSpec F]

/-- (B) **the computed wedge magnitude is `|a||b|·|sin(T b − T a)|` to within `|a||b|·(1e-10 + 1e-14)`** (plus `1e-29`), for
    in-domain magnitudes and canonical angles of any blade count -/
theorem wedge_mag_float {a b : Geonum F} (ha : a.angle.Inv) (hb : b.angle.Inv) (hma : a.MagDom) (hmb : b.MagDom) :
    abs (val (fmul (fmul a.mag b.mag) (fabs (FloatLike.sin (b.angle.geometricSub a.angle).gradeAngle)))
        - val a.mag * val b.mag * abs (Real.sin (Angle.Tpi b.angle - Angle.Tpi a.angle)))
      ≤ val a.mag * val b.mag * (val (e10 : F) + 1 / 10 ^ 14) + 1 / 10 ^ 29 := by
  obtain ⟨haf, ha0, ha1⟩ := hma
  obtain ⟨hbf, hb0, hb1⟩ := hmb
  have hd := geometricSub_inv hb ha
  obtain ⟨hfg, _, _, _⟩ := gradeAngle_spec hd
  obtain ⟨hfs, hs1, _⟩ := sin_spec hfg
  obtain ⟨hfa, hva⟩ := fabs_spec hfs
  obtain ⟨_, hsin⟩ := cos_sub_float ha hb
  obtain ⟨hfp, hp0, hp1⟩ := mul_dom haf hbf ha0 hb0 ha1 hb1
  have hpv : val (fmul a.mag b.mag) = rnd (F := F) (val a.mag * val b.mag) := by
    have hr : InRange (F := F) (val a.mag * val b.mag) := inRange_of_le (by
      rw [abs_of_nonneg (mul_nonneg ha0 hb0)]
      have : val a.mag * val b.mag ≤ 10 ^ 100 * 10 ^ 100 := mul_le_mul ha1 hb1 hb0 (by positivity)
      norm_num at this ⊢; linarith)
    exact (fmul_spec haf hbf hr).2
  set m := val a.mag * val b.mag with hm
  have hm0 : 0 ≤ m := mul_nonneg ha0 hb0
  set P := val (fmul a.mag b.mag) with hP
  set sv := val (fabs (FloatLike.sin (b.angle.geometricSub a.angle).gradeAngle)) with hsv
  have hsv0 : 0 ≤ sv := by rw [hva]; exact abs_nonneg _
  have hsv1 : sv ≤ 1 := by rw [hva]; exact hs1
  have hsverr : abs (sv - abs (Real.sin (Angle.Tpi b.angle - Angle.Tpi a.angle))) ≤ val (e10 : F) + 8 / 10 ^ 15 := by
    rw [hva]; exact le_trans (abs_abs_sub_abs_le_abs_sub _ _) hsin
  have hPerr : |P - m| ≤ m / 2 ^ 53 + 1 / 10 ^ 30 := by
    rw [hpv]; have := rnd_close (F := F) m; rwa [abs_of_nonneg hm0] at this
  have hPsv : |P * sv| ≤ P := by
    rw [abs_mul, abs_of_nonneg hp0, abs_of_nonneg hsv0]
    calc P * sv ≤ P * 1 := mul_le_mul_of_nonneg_left hsv1 hp0
      _ = P := mul_one _
  obtain ⟨_, hvv⟩ := fmul_spec hfp hfa (inRange_mono (by rw [abs_of_nonneg hp0]; exact hPsv) (inRange_val hfp))
  have hVerr : |rnd (F := F) (P * sv) - P * sv| ≤ P / 2 ^ 53 + 1 / 10 ^ 30 := by
    have h := rnd_close (F := F) (P * sv)
    have : |P * sv| / 2 ^ 53 ≤ P / 2 ^ 53 := div_le_div_of_nonneg_right hPsv (by positivity)
    linarith
  rw [hvv]
  have e : rnd (F := F) (P * sv) - m * |Real.sin (Angle.Tpi b.angle - Angle.Tpi a.angle)|
      = (rnd (F := F) (P * sv) - P * sv) + (P - m) * sv + m * (sv - |Real.sin (Angle.Tpi b.angle - Angle.Tpi a.angle)|) := by ring
  rw [e]
  have t1 := hVerr
  have t2 : |(P - m) * sv| ≤ m / 2 ^ 53 + 1 / 10 ^ 30 := by
    rw [abs_mul, abs_of_nonneg hsv0]
    calc |P - m| * sv ≤ |P - m| * 1 := mul_le_mul_of_nonneg_left hsv1 (abs_nonneg _)
      _ ≤ m / 2 ^ 53 + 1 / 10 ^ 30 := by rw [mul_one]; exact hPerr
  have t3 : abs (m * (sv - abs (Real.sin (Angle.Tpi b.angle - Angle.Tpi a.angle)))) ≤ m * (val (e10 : F) + 8 / 10 ^ 15) := by
    rw [abs_mul, abs_of_nonneg hm0]; exact mul_le_mul_of_nonneg_left hsverr hm0
  have hPle : P ≤ 2 * m + 1 / 10 ^ 30 := by
    rw [abs_le] at hPerr
    have : m / 2 ^ 53 ≤ m := div_le_self hm0 (by norm_num)
    linarith [hPerr.2]
  have hP53 : P / 2 ^ 53 ≤ 2 * m / 2 ^ 53 + 1 / 10 ^ 30 := by
    have h1 : P / 2 ^ 53 ≤ (2 * m + 1 / 10 ^ 30) / 2 ^ 53 := div_le_div_of_nonneg_right hPle (by positivity)
    have h2 : (1:ℝ) / 10 ^ 30 / 2 ^ 53 ≤ 1 / 10 ^ 30 := div_le_self (by positivity) (by norm_num)
    rw [add_div] at h1; linarith
  have habs := abs_add_three (rnd (F := F) (P * sv) - P * sv) ((P - m) * sv)
    (m * (sv - |Real.sin (Angle.Tpi b.angle - Angle.Tpi a.angle)|))
  have hnum : (3:ℝ) / 2 ^ 53 + 8 / 10 ^ 15 ≤ 1 / 10 ^ 14 := by norm_num
  have h53m : m / 2 ^ 53 = m * (1 / 2 ^ 53) := by ring
  have h53m2 : 2 * m / 2 ^ 53 = m * (2 / 2 ^ 53) := by ring
  rw [h53m2] at hP53; rw [h53m] at t2
  nlinarith [habs, t1, t2, t3, hP53, hm0, mul_le_mul_of_nonneg_left hnum hm0]

/-- (S/B) **the angle of the wedge in rounded arithmetic**: its float total is `T a + T b + π_f/2`, plus a half turn exactly when the
    computed sine tests negative, up to one snap and one rounding (the whole-blade additions are exact) — for every blade history -/
theorem wedge_total_float {a b : Geonum F} (ha : a.angle.Inv) (hb : b.angle.Inv) :
    ∃ δ : ℝ, |δ| < val (e10 : F) + 1 / 10 ^ 15 ∧
      Angle.Tq (a.wedge b).angle = Angle.Tq a.angle + Angle.Tq b.angle + δ + val (qp : F)
        + (if flt (FloatLike.sin (b.angle.sub a.angle).gradeAngle) (zero : F) then 2 * val (qp : F) else 0) :=
  Geonum.wedge_total_float ha hb

/-- pure real arithmetic behind the Lagrange identity with errors -/
theorem lagrange_err_real {D W M c s η : ℝ} (hM : 0 ≤ M) (hη : 0 ≤ η) (hcs : c ^ 2 + s ^ 2 = 1) (hc : |c| ≤ 1) (hs : |s| ≤ 1)
    (hD : |D - M * c| ≤ η) (hW : |W - M * s| ≤ η) : |D ^ 2 + W ^ 2 - M ^ 2| ≤ 2 * η * (2 * M + η) := by
  have e : D ^ 2 + W ^ 2 - M ^ 2 = (D - M * c) * (D + M * c) + (W - M * s) * (W + M * s) := by
    have : M ^ 2 = (M * c) ^ 2 + (M * s) ^ 2 := by rw [mul_pow, mul_pow, ← mul_add, hcs, mul_one]
    rw [this]; ring
  rw [e]
  have hMc : |M * c| ≤ M := by rw [abs_mul, abs_of_nonneg hM]; exact mul_le_of_le_one_right hM hc
  have hMs : |M * s| ≤ M := by rw [abs_mul, abs_of_nonneg hM]; exact mul_le_of_le_one_right hM hs
  have h1 : |D + M * c| ≤ 2 * M + η := by
    have : D + M * c = (D - M * c) + 2 * (M * c) := by ring
    rw [this]; have := abs_add_le (D - M * c) (2 * (M * c)); rw [abs_mul, abs_two] at this; linarith
  have h2 : |W + M * s| ≤ 2 * M + η := by
    have : W + M * s = (W - M * s) + 2 * (M * s) := by ring
    rw [this]; have := abs_add_le (W - M * s) (2 * (M * s)); rw [abs_mul, abs_two] at this; linarith
  have t1 : |(D - M * c) * (D + M * c)| ≤ η * (2 * M + η) := by
    rw [abs_mul]; exact mul_le_mul hD h1 (abs_nonneg _) hη
  have t2 : |(W - M * s) * (W + M * s)| ≤ η * (2 * M + η) := by
    rw [abs_mul]; exact mul_le_mul hW h2 (abs_nonneg _) hη
  have := abs_add_le ((D - M * c) * (D + M * c)) ((W - M * s) * (W + M * s))
  linarith

/-- (B) **anticommutation, magnitude part, in rounded arithmetic**: `a ∧ b` and `b ∧ a` have the same magnitude within twice the
    `wedge_mag_float` bound (`|sin(T b − T a)| = |sin(T a − T b)|`; the two computed sines come from different float arguments) -/
theorem wedge_mag_symm_float {a b : Geonum F} (ha : a.angle.Inv) (hb : b.angle.Inv) (hma : a.MagDom) (hmb : b.MagDom) :
    |val (a.wedge b).mag - val (b.wedge a).mag| ≤ 2 * (val a.mag * val b.mag * (val (e10 : F) + 1 / 10 ^ 14) + 1 / 10 ^ 29) := by
  have h1 := wedge_mag_float ha hb hma hmb
  have h2 := wedge_mag_float hb ha hmb hma
  have e : Real.sin (Angle.Tpi a.angle - Angle.Tpi b.angle) = -Real.sin (Angle.Tpi b.angle - Angle.Tpi a.angle) := by
    rw [← Real.sin_neg]; ring_nf
  rw [e, abs_neg, mul_comm (val b.mag) (val a.mag)] at h2
  have h1' : abs (val (a.wedge b).mag - val a.mag * val b.mag * abs (Real.sin (Angle.Tpi b.angle - Angle.Tpi a.angle)))
      ≤ val a.mag * val b.mag * (val (e10 : F) + 1 / 10 ^ 14) + 1 / 10 ^ 29 := h1
  have h2' : abs (val (b.wedge a).mag - val a.mag * val b.mag * abs (Real.sin (Angle.Tpi b.angle - Angle.Tpi a.angle)))
      ≤ val a.mag * val b.mag * (val (e10 : F) + 1 / 10 ^ 14) + 1 / 10 ^ 29 := h2
  rw [abs_le] at h1' h2' ⊢
  constructor <;> linarith [h1'.1, h1'.2, h2'.1, h2'.2]

/-- (B) **the Lagrange identity in rounded arithmetic**: with `D` the computed dot value and `W` the computed wedge magnitude,
    `D² + W² = (|a||b|)²` to within `2η(2|a||b| + η)`, `η = |a||b|·(1e-10 + 1e-14) + 1e-29` — i.e. about `4e-10` relative -/
theorem lagrange_float {a b : Geonum F} (ha : a.angle.Inv) (hb : b.angle.Inv) (hma : a.MagDom) (hmb : b.MagDom) :
    |(val (fmul (fmul a.mag b.mag) (FloatLike.cos (b.angle.geometricSub a.angle).gradeAngle))) ^ 2
      + (val (fmul (fmul a.mag b.mag) (fabs (FloatLike.sin (b.angle.geometricSub a.angle).gradeAngle)))) ^ 2
      - (val a.mag * val b.mag) ^ 2|
      ≤ 2 * (val a.mag * val b.mag * (val (e10 : F) + 1 / 10 ^ 14) + 1 / 10 ^ 29)
          * (2 * (val a.mag * val b.mag) + (val a.mag * val b.mag * (val (e10 : F) + 1 / 10 ^ 14) + 1 / 10 ^ 29)) := by
  have hD := C09.dot_value_float ha hb hma hmb
  have hW := wedge_mag_float ha hb hma hmb
  have hM : 0 ≤ val a.mag * val b.mag := mul_nonneg hma.2.1 hmb.2.1
  have he := val_e10_pos (F := F)
  exact lagrange_err_real hM (by positivity)
    (by rw [sq_abs]; exact Real.cos_sq_add_sin_sq _) (Real.abs_cos_le_one _) (by rw [abs_abs]; exact Real.abs_sin_le_one _) hD hW

end B

/-! ### E-tier: exact arithmetic -/
section E
open GeonumModel.Exact

/-- (E) wedge magnitude is `|a||b|·|sin(T b − T a + δ)|` with the same snap slack `δ` as the dot product; the dot magnitude is
    `|a||b|·|cos(T b − T a + δ)|`; hence **Lagrange's identity** `dot² + wedge² = (|a||b|)²` holds exactly -/
theorem wedge_dot_real {a b : Geonum ℝ} (ha : a.angle.Inv) (hb : b.angle.Inv) :
    ∃ δ : ℝ, |δ| < 1 / 10 ^ 10 + 1 / 10 ^ 15 ∧
      (a.wedge b).mag = a.mag * b.mag * |Real.sin (T b.angle - T a.angle + δ)| ∧
      (a.dot b).mag = |a.mag * b.mag * Real.cos (T b.angle - T a.angle + δ)| := by
  obtain ⟨δ, hδ, hcos, hsin⟩ := cos_sub_gradeAngle ha hb
  refine ⟨δ, hδ, ?_, ?_⟩
  · rw [← hsin]; rfl
  · rw [← hcos]; rfl

theorem lagrange_real {a b : Geonum ℝ} (ha : a.angle.Inv) (hb : b.angle.Inv) :
    (a.dot b).mag ^ 2 + (a.wedge b).mag ^ 2 = (a.mag * b.mag) ^ 2 := by
  obtain ⟨δ, _, hw, hd⟩ := wedge_dot_real ha hb
  rw [hw, hd, sq_abs, mul_pow, mul_pow _ (|Real.sin _|), sq_abs]
  have := Real.sin_sq_add_cos_sq (T b.angle - T a.angle + δ)
  nlinarith [this]

/-- (E) the wedge vanishes for parallel operands (same total, up to the snap slack it is below `|a||b|·(1e-10+1e-15)`) -/
theorem wedge_parallel_real {a b : Geonum ℝ} (ha : a.angle.Inv) (hb : b.angle.Inv) (h0a : 0 ≤ a.mag) (h0b : 0 ≤ b.mag)
    (hpar : T b.angle = T a.angle) : (a.wedge b).mag ≤ a.mag * b.mag * (1 / 10 ^ 10 + 1 / 10 ^ 15) := by
  obtain ⟨δ, hδ, hw, _⟩ := wedge_dot_real ha hb
  rw [hw, hpar, sub_self, zero_add]
  apply mul_le_mul_of_nonneg_left _ (mul_nonneg h0a h0b)
  have := sin_lipschitz 0 δ
  simp only [zero_add, Real.sin_zero, sub_zero] at this
  linarith

/-- (E) **anticommutation**: swapping the operands keeps the magnitude (to within two snap tolerances) and — when the operands are
    not within tolerance of parallel — turns the result by exactly two blades -/
theorem wedge_anticomm_real {a b : Geonum ℝ} (ha : a.angle.Inv) (hb : b.angle.Inv) (h0a : 0 ≤ a.mag) (h0b : 0 ≤ b.mag)
    (hsep : 1 / 10 ^ 10 + 1 / 10 ^ 15 < |Real.sin (T b.angle - T a.angle)|) :
    |(a.wedge b).mag - (b.wedge a).mag| ≤ 2 * (a.mag * b.mag * (1 / 10 ^ 10 + 1 / 10 ^ 15)) ∧
    ((a.wedge b).angle.blade = (b.wedge a).angle.blade + 2 ∨ (b.wedge a).angle.blade = (a.wedge b).angle.blade + 2) := by
  obtain ⟨δ, hδ, hcosd, hsind⟩ := cos_sub_gradeAngle ha hb
  obtain ⟨δ', hδ', _, hsind'⟩ := cos_sub_gradeAngle hb ha
  set θ := T b.angle - T a.angle with hθ
  have hrev : T a.angle - T b.angle = -θ := by rw [hθ]; ring
  rw [hrev] at hsind'
  have hl1 := sin_lipschitz θ δ
  have hl2 := sin_lipschitz (-θ) δ'
  rw [Real.sin_neg] at hl2
  have hm1 : (a.wedge b).mag = a.mag * b.mag * |Real.sin (θ + δ)| := by rw [← hsind]; rfl
  have hm2 : (b.wedge a).mag = b.mag * a.mag * |Real.sin (-θ + δ')| := by rw [← hsind']; rfl
  constructor
  · rw [hm1, hm2]
    have e : a.mag * b.mag * |Real.sin (θ + δ)| - b.mag * a.mag * |Real.sin (-θ + δ')|
        = a.mag * b.mag * (|Real.sin (θ + δ)| - |Real.sin (-θ + δ')|) := by ring
    rw [e, abs_mul, abs_of_nonneg (mul_nonneg h0a h0b)]
    have hd : |(|Real.sin (θ + δ)| - |Real.sin (-θ + δ')|)| ≤ 2 * (1 / 10 ^ 10 + 1 / 10 ^ 15) := by
      have t1 : |(|Real.sin (θ + δ)| - |Real.sin θ|)| ≤ 1 / 10 ^ 10 + 1 / 10 ^ 15 :=
        le_trans (abs_abs_sub_abs_le_abs_sub _ _) (le_trans hl1 (le_of_lt hδ))
      have t2 : |(|Real.sin (-θ + δ')| - |Real.sin θ|)| ≤ 1 / 10 ^ 10 + 1 / 10 ^ 15 := by
        have : |Real.sin θ| = |-Real.sin θ| := (abs_neg _).symm
        rw [this]
        exact le_trans (abs_abs_sub_abs_le_abs_sub _ _) (le_trans hl2 (le_of_lt hδ'))
      rw [abs_le] at t1 t2 ⊢
      constructor <;> linarith [t1.1, t1.2, t2.1, t2.2]
    calc a.mag * b.mag * |(|Real.sin (θ + δ)| - |Real.sin (-θ + δ')|)|
        ≤ a.mag * b.mag * (2 * (1 / 10 ^ 10 + 1 / 10 ^ 15)) := mul_le_mul_of_nonneg_left hd (mul_nonneg h0a h0b)
      _ = 2 * (a.mag * b.mag * (1 / 10 ^ 10 + 1 / 10 ^ 15)) := by ring
  · -- signs of the two computed sines are strictly opposite
    have ws1 := wedge_structure a b
    have ws2 := wedge_structure b a
    simp only at ws1 ws2
    have hcomm : b.angle.geometricAdd a.angle = a.angle.geometricAdd b.angle := by
      unfold geometricAdd
      simp only [fadd_comm (F := ℝ) (a := b.angle.rem) (b := a.angle.rem) trivial trivial, Nat.add_comm b.angle.blade a.angle.blade]
    obtain ⟨hi, _, _⟩ := geometricAdd_spec ha hb
    have hq := add_whole (z := Angle.new (one : ℝ) two) hi (by rw [new_one_two]; exact fin_zero) (by rw [new_one_two]; exact val_zero)
    have hqi : ((a.angle.geometricAdd b.angle).geometricAdd (Angle.new (one : ℝ) two)).Inv := inv_of_spec hi hq.2
    obtain ⟨hb1, hf1, _, hv1⟩ := new_one_one (F := ℝ)
    simp only at hb1 hv1; rw [val_zero] at hv1
    have hp := add_whole hqi hf1 hv1
    rw [hb1] at hp
    have hs1 : FloatLike.sin (b.angle.sub a.angle).gradeAngle = Real.sin (θ + δ) := hsind
    have hs2 : FloatLike.sin (a.angle.sub b.angle).gradeAngle = Real.sin (-θ + δ') := hsind'
    rw [abs_le] at hl1 hl2
    rw [abs_lt] at hδ hδ'
    rcases le_or_gt 0 (Real.sin θ) with hpos | hneg
    · rw [abs_of_nonneg hpos] at hsep
      have hpos1 : ¬ Real.sin (θ + δ) < 0 := by
        have : |δ| < 1 / 10 ^ 10 + 1 / 10 ^ 15 := by rw [abs_lt]; exact hδ
        linarith [hl1.1]
      have hneg2 : Real.sin (-θ + δ') < 0 := by
        have : |δ'| < 1 / 10 ^ 10 + 1 / 10 ^ 15 := by rw [abs_lt]; exact hδ'
        linarith [hl2.2]
      have f1 : flt (FloatLike.sin (b.angle.sub a.angle).gradeAngle) (zero : ℝ) = false := by
        rw [hs1, r_lt, lit_real.1]; simpa using hpos1
      have f2 : flt (FloatLike.sin (a.angle.sub b.angle).gradeAngle) (zero : ℝ) = true := by
        rw [hs2, r_lt, lit_real.1]; simpa using hneg2
      right
      rw [ws1.2.1 f1, ws2.2.2 f2, hcomm, hp.1]
    · rw [abs_of_neg hneg] at hsep
      have hneg1 : Real.sin (θ + δ) < 0 := by
        have : |δ| < 1 / 10 ^ 10 + 1 / 10 ^ 15 := by rw [abs_lt]; exact hδ
        linarith [hl1.2]
      have hpos2 : ¬ Real.sin (-θ + δ') < 0 := by
        have : |δ'| < 1 / 10 ^ 10 + 1 / 10 ^ 15 := by rw [abs_lt]; exact hδ'
        linarith [hl2.1]
      have f1 : flt (FloatLike.sin (b.angle.sub a.angle).gradeAngle) (zero : ℝ) = true := by
        rw [hs1, r_lt, lit_real.1]; simpa using hneg1
      have f2 : flt (FloatLike.sin (a.angle.sub b.angle).gradeAngle) (zero : ℝ) = false := by
        rw [hs2, r_lt, lit_real.1]; simpa using hpos2
      left
      rw [ws1.2.2 f1, ws2.2.1 f2, hcomm, hp.1]

end E

/-! (all clauses of C10 now have a theorem; the float anticommutation is explored by `oracle.C10.wedge`) -/



example {F : Type} [FloatSpec F] : (⟨zero, 2⟩ : Angle F).Inv := inv_zero 2


/-! ### R — on the arithmetic that really rounds (`R64`: round-to-nearest on the binary64 grid, correctly rounded libm) -/
section R

/-- (R) the Lagrange identity `dot² + wedge² = (|a||b|)²` up to the stated bound, for all pairs of binary64 numbers in the domain -/
theorem lagrange_rounded {a b : Geonum R64} (ha : a.angle.Inv) (hb : b.angle.Inv) (hma : a.MagDom) (hmb : b.MagDom) :
    |((fmul (fmul a.mag b.mag) (FloatLike.cos (b.angle.geometricSub a.angle).gradeAngle)).v) ^ 2
      + ((fmul (fmul a.mag b.mag) (fabs (FloatLike.sin (b.angle.geometricSub a.angle).gradeAngle))).v) ^ 2
      - (a.mag.v * b.mag.v) ^ 2|
      ≤ 2 * (a.mag.v * b.mag.v * ((e10 : R64).v + 1 / 10 ^ 14) + 1 / 10 ^ 29)
          * (2 * (a.mag.v * b.mag.v) + (a.mag.v * b.mag.v * ((e10 : R64).v + 1 / 10 ^ 14) + 1 / 10 ^ 29)) :=
  lagrange_float (F := R64) ha hb hma hmb

end R

end GeonumModel.C10
