/-
  C10 — Wedge is the oriented area; geo = dot + wedge; meet = dual wedge dual.
-/
import GeonumModel.Lemmas.AngleStep
import GeonumModel.Lemmas.Shift
import GeonumModel.Lemmas.Exact

set_option linter.unusedSectionVars false
set_option linter.unusedVariables false

namespace GeonumModel.C10
open GeonumModel FloatLike FloatSpec Angle

section G
variable {F : Type} [FloatLike F]

/-- (G) the geometric product is exactly the sum of dot and wedge; meet is exactly the dual of the wedge of the duals -/
theorem geo_meet_def (a b : Geonum F) :
    a.geo b = (a.dot b).add (a.wedge b) ∧ a.meet b = (a.dual.wedge b.dual).dual := ⟨rfl, rfl⟩

/-- (G) wedge: magnitude `(|a|·|b|)·|sin(grade_angle(tb − ta))|`; angle `ta + tb + π/2`, plus a half turn exactly when
    the computed sine tests negative -/
theorem wedge_structure (a b : Geonum F) :
    let s := FloatLike.sin (b.angle.sub a.angle).gradeAngle
    (a.wedge b).mag = fmul (fmul a.mag b.mag) (fabs s) ∧
    (flt s zero = false → (a.wedge b).angle = (a.angle.geometricAdd b.angle).geometricAdd (Angle.new one two)) ∧
    (flt s zero = true → (a.wedge b).angle =
        ((a.angle.geometricAdd b.angle).geometricAdd (Angle.new one two)).geometricAdd (Angle.new one one)) := by
  intro s
  refine ⟨rfl, ?_, ?_⟩ <;> intro h <;> simp only [Geonum.wedge] <;> simp only [s] at h <;> simp [h, Angle.add, addVV]
end G

section S
variable {F : Type} [FloatSpec F]

/-- (S) wedge magnitude is finite-non-negative: `rnd(rnd(|a||b|)·|sin|) ≥ 0` and bounded by the rounded product of magnitudes -/
theorem wedge_mag_bounds {a b : Geonum F} (ha : Fin a.mag) (hb : Fin b.mag) (h0a : 0 ≤ val a.mag) (h0b : 0 ≤ val b.mag)
    (hg : Fin (b.angle.sub a.angle).gradeAngle) (hr : InRange (F := F) (val a.mag * val b.mag)) :
    0 ≤ val (a.wedge b).mag ∧ val (a.wedge b).mag ≤ rnd (F := F) (val a.mag * val b.mag) := by
  obtain ⟨hfp, hvp⟩ := fmul_spec ha hb hr
  obtain ⟨hfs, hs1, _⟩ := sin_spec hg
  obtain ⟨hfa, hva⟩ := fabs_spec hfs
  have hp0 : 0 ≤ val (fmul a.mag b.mag) := by rw [hvp]; exact rnd_nonneg (mul_nonneg h0a h0b)
  have hprod0 : 0 ≤ val (fmul a.mag b.mag) * val (fabs (FloatLike.sin (b.angle.sub a.angle).gradeAngle)) := by
    rw [hva]; exact mul_nonneg hp0 (abs_nonneg _)
  have hprod1 : val (fmul a.mag b.mag) * val (fabs (FloatLike.sin (b.angle.sub a.angle).gradeAngle)) ≤ val (fmul a.mag b.mag) := by
    rw [hva]
    calc val (fmul a.mag b.mag) * |val (FloatLike.sin (b.angle.sub a.angle).gradeAngle)|
        ≤ val (fmul a.mag b.mag) * 1 := mul_le_mul_of_nonneg_left hs1 hp0
      _ = val (fmul a.mag b.mag) := mul_one _
  obtain ⟨hfv, hvv⟩ := fmul_spec hfp hfa
    (inRange_mono (by rw [abs_of_nonneg hprod0, abs_of_nonneg hp0]; exact hprod1) (inRange_val hfp))
  have hmag : val (a.wedge b).mag = rnd (F := F) (val (fmul a.mag b.mag) * val (fabs (FloatLike.sin (b.angle.sub a.angle).gradeAngle))) := hvv
  rw [hmag]
  refine ⟨rnd_nonneg hprod0, ?_⟩
  have := rnd_mono (F := F) hprod1
  rw [rnd_val hfp] at this
  rw [← hvp]; exact this

/-- (S) the wedge angle is canonical and its blade count is `ba + bb + 1` (+2 for negative orientation) plus at most one carry -/
theorem wedge_angle {a b : Geonum F} (ha : a.angle.Inv) (hb : b.angle.Inv) :
    (a.wedge b).angle.Inv ∧ a.angle.blade + b.angle.blade + 1 ≤ (a.wedge b).angle.blade ∧
      (a.wedge b).angle.blade ≤ a.angle.blade + b.angle.blade + 4 := by
  obtain ⟨hi, hbl, _⟩ := geometricAdd_spec ha hb
  have hq := add_whole (z := Angle.new (one : F) two) hi (by rw [new_one_two]; exact fin_zero) (by rw [new_one_two]; exact val_zero)
  rw [new_one_two] at hq
  have hqi : ((a.angle.geometricAdd b.angle).geometricAdd (⟨zero, 1⟩ : Angle F)).Inv := inv_of_spec hi hq.2
  obtain ⟨hb1, hf1, _, hv1⟩ := new_one_one (F := F)
  simp only at hb1 hv1; rw [val_zero] at hv1
  have ws := (wedge_structure a b)
  simp only at ws
  by_cases h : flt (FloatLike.sin (b.angle.sub a.angle).gradeAngle) (zero : F) = true
  · rw [ws.2.2 h, new_one_two]
    have hp := add_whole hqi hf1 hv1
    rw [hb1] at hp
    refine ⟨inv_of_spec hqi hp.2, ?_, ?_⟩ <;> rw [hp.1, hq.1] <;> rcases hbl with h | h <;> rw [h] <;> simp <;> omega
  · rw [ws.2.1 (by simpa using h), new_one_two]
    refine ⟨hqi, ?_, ?_⟩ <;> rw [hq.1] <;> rcases hbl with h | h <;> rw [h] <;> simp <;> omega

end S

/-! ### E-tier: exact arithmetic -/
section E
open GeonumModel.Exact

/-- (E) wedge magnitude is `|a||b|·|sin(T b − T a + δ)|` with the same snap slack `δ` as the dot product; the dot magnitude is
    `|a||b|·|cos(T b − T a + δ)|`; hence **Lagrange's identity** `dot² + wedge² = (|a||b|)²` holds exactly -/
theorem wedge_dot_real {a b : Geonum ℝ} (ha : a.angle.Inv) (hb : b.angle.Inv) :
    ∃ δ : ℝ, |δ| < 1 / 10 ^ 10 + 1 / 10 ^ 15 ∧
      (a.wedge b).mag = a.mag * b.mag * |Real.sin (T b.angle - T a.angle + δ)| ∧
      (a.dot b).mag = |a.mag * b.mag * Real.cos (T b.angle - T a.angle + δ)| := by
  obtain ⟨δ, hδ, hcos, hsin⟩ := cos_sub_gradeAngle ha hb
  refine ⟨δ, hδ, ?_, ?_⟩
  · rw [← hsin]; rfl
  · rw [← hcos]; rfl

theorem lagrange_real {a b : Geonum ℝ} (ha : a.angle.Inv) (hb : b.angle.Inv) :
    (a.dot b).mag ^ 2 + (a.wedge b).mag ^ 2 = (a.mag * b.mag) ^ 2 := by
  obtain ⟨δ, _, hw, hd⟩ := wedge_dot_real ha hb
  rw [hw, hd, sq_abs, mul_pow, mul_pow _ (|Real.sin _|), sq_abs]
  have := Real.sin_sq_add_cos_sq (T b.angle - T a.angle + δ)
  nlinarith [this]

/-- (E) the wedge vanishes for parallel operands (same total, up to the snap slack it is below `|a||b|·(1e-10+1e-15)`) -/
theorem wedge_parallel_real {a b : Geonum ℝ} (ha : a.angle.Inv) (hb : b.angle.Inv) (h0a : 0 ≤ a.mag) (h0b : 0 ≤ b.mag)
    (hpar : T b.angle = T a.angle) : (a.wedge b).mag ≤ a.mag * b.mag * (1 / 10 ^ 10 + 1 / 10 ^ 15) := by
  obtain ⟨δ, hδ, hw, _⟩ := wedge_dot_real ha hb
  rw [hw, hpar, sub_self, zero_add]
  apply mul_le_mul_of_nonneg_left _ (mul_nonneg h0a h0b)
  have := sin_lipschitz 0 δ
  simp only [zero_add, Real.sin_zero, sub_zero] at this
  linarith

end E

/-! PARTIAL (not yet proved): anticommutation (swap keeps the magnitude up to the slack and moves the blade by exactly two).
    Explored by `oracle.C10.wedge`. -/

example {F : Type} [FloatSpec F] : (⟨zero, 2⟩ : Angle F).Inv := inv_zero 2

end GeonumModel.C10
