/-
  C11 — Projection and rejection decompose a number orthogonally.
-/
import GeonumModel.Lemmas.AngleStep
import GeonumModel.Lemmas.Shift
import GeonumModel.Lemmas.Exact
import GeonumModel.Lemmas.ExactAdd
import GeonumModel.Lemmas.FloatProject
import GeonumModel.Lemmas.FloatMetric
import GeonumModel.Spec.RoundWitness
import GeonumModel.Lemmas.FloatSumSpecial

set_option linter.unusedSectionVars false
set_option linter.unusedVariables false

namespace GeonumModel.C11
open GeonumModel FloatLike FloatSpec Angle

section G
variable {F : Type} [FloatLike F]

/-- (G) the projection never reads the target's length beyond the `< 1e-10` test: two targets with the same angle that both
    pass the test give the identical result -/
theorem project_indep_of_length (a b b' : Geonum F) (hang : b.angle = b'.angle)
    (hb : flt (fabs b.mag) e10 = false) (hb' : flt (fabs b'.mag) e10 = false) :
    a.project b = a.project b' := by
  unfold Geonum.project
  simp only [hb, hb', hang]

/-- (G) structure of the projection (target not tiny): magnitude `|a|·|factor|` with `factor = cos(grade_angle(tb − ta))`,
    placed along the target's own angle, or that plus a half turn exactly when the factor tests negative -/
theorem project_structure (a b : Geonum F) (hb : flt (fabs b.mag) e10 = false) :
    let factor := a.angle.project b.angle
    (a.project b).mag = fmul a.mag (fabs factor) ∧
    (fge factor zero = true → (a.project b).angle = b.angle) ∧
    (fge factor zero = false → (a.project b).angle = b.angle.geometricAdd (Angle.new one one)) ∧
    factor = FloatLike.cos (b.angle.sub a.angle).gradeAngle := by
  intro factor
  refine ⟨?_, ?_, ?_, rfl⟩
  · simp only [Geonum.project, hb, Bool.false_eq_true, if_false, Geonum.newWithAngle]; rfl
  · intro h; simp only [Geonum.project, hb, Bool.false_eq_true, if_false, Geonum.newWithAngle]; simp only [factor] at h; simp [h]
  · intro h; simp only [Geonum.project, hb, Bool.false_eq_true, if_false, Geonum.newWithAngle]; simp only [factor] at h; simp [h, Angle.add, addVV]

/-- (G) tiny-axis band (`|b| < 1e-10`): total, returns magnitude zero at the receiver's blade -/
theorem project_tiny (a b : Geonum F) (hb : flt (fabs b.mag) e10 = true) :
    a.project b = ⟨zero, Angle.newWithBlade a.angle.blade zero one⟩ := by
  simp [Geonum.project, hb]

/-- (G) the rejection is exactly `a − proj`; angle-onto-angle projection is the cosine of the difference's grade angle;
    projection onto an angle lands on the base angles built by `Angle::new(0,1)` / `Angle::new(1,1)` -/
theorem reject_and_angle_forms (a b : Geonum F) (onto : Angle F) :
    a.reject b = a.sub (a.project b) ∧
    a.angle.project onto = FloatLike.cos (onto.sub a.angle).gradeAngle ∧
    ((a.projectToAngle onto).angle = Angle.new zero one ∨ (a.projectToAngle onto).angle = Angle.new one one) ∧
    a.projectToDimension 0 = fmul a.mag (a.angle.project (Angle.newWithBlade 0 zero one)) := by
  refine ⟨rfl, rfl, ?_, rfl⟩
  unfold Geonum.projectToAngle Geonum.newWithAngle
  simp only
  split <;> simp
end G

section S
variable {F : Type} [FloatSpec F]

/-- (S) the projection's magnitude is non-negative and never exceeds `|a|` (monotone rounding, `|cos| ≤ 1`) -/
theorem project_mag_bounds {a b : Geonum F} (ha : Fin a.mag) (h0a : 0 ≤ val a.mag)
    (hb : flt (fabs b.mag) e10 = false) (hg : Fin (b.angle.sub a.angle).gradeAngle) :
    0 ≤ val (a.project b).mag ∧ val (a.project b).mag ≤ val a.mag := by
  obtain ⟨hfc, hc1, _⟩ := cos_spec hg
  obtain ⟨hfa, hva⟩ := fabs_spec hfc
  have hp0 : 0 ≤ val a.mag * val (fabs (FloatLike.cos (b.angle.sub a.angle).gradeAngle)) := by
    rw [hva]; exact mul_nonneg h0a (abs_nonneg _)
  have hp1 : val a.mag * val (fabs (FloatLike.cos (b.angle.sub a.angle).gradeAngle)) ≤ val a.mag := by
    rw [hva]
    calc val a.mag * |val (FloatLike.cos (b.angle.sub a.angle).gradeAngle)| ≤ val a.mag * 1 :=
          mul_le_mul_of_nonneg_left hc1 h0a
      _ = val a.mag := mul_one _
  obtain ⟨hfv, hvv⟩ := fmul_spec ha hfa
    (inRange_mono (by rw [abs_of_nonneg hp0, abs_of_nonneg h0a]; exact hp1) (inRange_val ha))
  have hm : (a.project b).mag = fmul a.mag (fabs (FloatLike.cos (b.angle.sub a.angle).gradeAngle)) :=
    (project_structure a b hb).1
  rw [hm, hvv]
  refine ⟨rnd_nonneg hp0, ?_⟩
  have := rnd_mono (F := F) hp1
  rwa [rnd_val ha] at this

/-- (S) the projection's angle is canonical with the target's blade count or exactly two more -/
theorem project_angle {a b : Geonum F} (hb : flt (fabs b.mag) e10 = false) (hbi : b.angle.Inv) :
    (a.project b).angle.Inv ∧
    ((a.project b).angle.blade = b.angle.blade ∨ (a.project b).angle.blade = b.angle.blade + 2) ∧
    val (a.project b).angle.rem = val b.angle.rem := by
  have ps := project_structure a b hb
  simp only at ps
  by_cases h : fge (a.angle.project b.angle) (zero : F) = true
  · rw [ps.2.1 h]; exact ⟨hbi, Or.inl rfl, rfl⟩
  · rw [ps.2.2.1 (by simpa using h)]
    have n := negate_spec hbi
    unfold Angle.negate at n; simp only [Angle.add, addVV] at n
    exact ⟨inv_of_spec hbi n.2, Or.inr n.1, n.2.2⟩

end S

/-! ### E-tier: exact arithmetic -/
section E
open GeonumModel.Exact

/-- (E) projecting an angle onto an angle gives `cos(T onto − T a + δ)`; the projection's magnitude is `|a|·|cos(T b − T a + δ)|`;
    projection onto an angle is `|a|·cos` with the sign on the 0/π lattice -/
theorem project_values_real {a b : Geonum ℝ} (ha : a.angle.Inv) (hb : b.angle.Inv) (hbm : flt (fabs b.mag) (e10 : ℝ) = false) :
    ∃ δ : ℝ, |δ| < 1 / 10 ^ 10 + 1 / 10 ^ 15 ∧
      a.angle.project b.angle = Real.cos (T b.angle - T a.angle + δ) ∧
      (a.project b).mag = a.mag * |Real.cos (T b.angle - T a.angle + δ)| := by
  obtain ⟨δ, hδ, hcos, _⟩ := cos_sub_gradeAngle ha hb
  refine ⟨δ, hδ, hcos, ?_⟩
  rw [(project_structure a b hbm).1, ← hcos]; rfl

/-- (E) so `|proj| = |a||cos(T b − T a)|` to within `|a|·(1e-10 + 1e-15)` -/
theorem project_mag_close {a b : Geonum ℝ} (ha : a.angle.Inv) (hb : b.angle.Inv) (h0a : 0 ≤ a.mag)
    (hbm : flt (fabs b.mag) (e10 : ℝ) = false) :
    abs ((a.project b).mag - a.mag * abs (Real.cos (T b.angle - T a.angle))) ≤ a.mag * (1 / 10 ^ 10 + 1 / 10 ^ 15) := by
  obtain ⟨δ, hδ, _, hm⟩ := project_values_real ha hb hbm
  rw [hm, ← mul_sub, abs_mul, abs_of_nonneg h0a]
  apply mul_le_mul_of_nonneg_left _ h0a
  have h1 := abs_abs_sub_abs_le_abs_sub (Real.cos (T b.angle - T a.angle + δ)) (Real.cos (T b.angle - T a.angle))
  exact le_trans h1 (le_trans (cos_lipschitz _ _) (le_of_lt hδ))

/-- (E) **the projection is the vector `(a·b̂)b̂`**: its Cartesian point is `|a|·cos(T b − T a + δ)` along `b`'s direction (the
    half turn for a negative cosine is absorbed in the sign), so it is independent of `|b|` and within `|a|·(1e-10+1e-15)` of the
    orthogonal projection of `cart a` onto `b`'s ray -/
theorem project_cart_real {a b : Geonum ℝ} (ha : a.angle.Inv) (hb : b.angle.Inv) (hbm : flt (fabs b.mag) (e10 : ℝ) = false) :
    ∃ δ : ℝ, |δ| < 1 / 10 ^ 10 + 1 / 10 ^ 15 ∧
      cart (a.project b) = polar (a.mag * Real.cos (T b.angle - T a.angle + δ)) (T b.angle) := by
  obtain ⟨δ, hδ, hf, hm⟩ := project_values_real ha hb hbm
  refine ⟨δ, hδ, ?_⟩
  have ps := project_structure a b hbm
  simp only at ps
  set c := Real.cos (T b.angle - T a.angle + δ) with hc
  by_cases hge : fge (a.angle.project b.angle) (zero : ℝ) = true
  · have hc0 : 0 ≤ c := by
      have h' : fle (zero : ℝ) (a.angle.project b.angle) = true := hge
      rw [r_le, lit_real.1, hf] at h'; simpa using h'
    have hang := ps.2.1 hge
    show polar (a.project b).mag (T (a.project b).angle) = _
    rw [hm, hang, abs_of_nonneg hc0]
  · have hge' : fge (a.angle.project b.angle) (zero : ℝ) = false := by simpa using hge
    have hc0 : c < 0 := by
      have h' : fle (zero : ℝ) (a.angle.project b.angle) = false := hge'
      rw [r_le, lit_real.1, hf] at h'; simpa using h'
    have hang := ps.2.2.1 hge'
    show polar (a.project b).mag (T (a.project b).angle) = _
    rw [hm, hang, abs_of_neg hc0]
    have hT : T (b.angle.geometricAdd (Angle.new one one)) = T b.angle + Real.pi := negate_total_real hb
    rw [hT, polar_add_pi, ← polar_neg]; congr 1; ring

/-- (E) projection plus rejection reproduces `a` (as Cartesian points, to within the tolerance of one subtraction) -/
theorem project_add_reject_real {a b : Geonum ℝ} (ha : a.angle.Inv) (hb : b.angle.Inv) (h0a : 0 ≤ a.mag)
    (hbm : flt (fabs b.mag) (e10 : ℝ) = false) (hg : Fin (b.angle.sub a.angle).gradeAngle)
    (hcb : a.angle.blade + (b.angle.blade + 4) ≤ 2 ^ 40) :
    ‖cart (a.project b) + cart (a.reject b) - cart a‖ ≤ 1 / 10 ^ 10 * (1 + a.mag + (a.project b).mag) := by
  obtain ⟨hpinv, hpbl, _⟩ := project_angle (a := a) hbm hb
  have hpm := project_mag_bounds (F := ℝ) (a := a) (b := b) trivial h0a hbm hg
  simp only [val_id] at hpm
  have hn := negate_spec hpinv
  have hninv : (a.project b).negate.angle.Inv := inv_of_spec hpinv hn.2
  have hsub := add_refines ha hninv h0a (show 0 ≤ (a.project b).negate.mag from hpm.1) (by
    show a.angle.blade + (a.project b).angle.negate.blade ≤ 2 ^ 40
    rw [hn.1]; rcases hpbl with h | h <;> rw [h] <;> omega)
  have hcn : cart (a.project b).negate = -cart (a.project b) := by
    show polar (a.project b).mag (T (a.project b).angle.negate) = -polar (a.project b).mag (T (a.project b).angle)
    rw [negate_total_real hpinv, polar_add_pi]
  rw [hcn] at hsub
  have e : cart (a.project b) + cart (a.reject b) - cart a
      = cart (a.add (a.project b).negate) - (cart a + -cart (a.project b)) := by
    show cart (a.project b) + cart (a.sub (a.project b)) - cart a = _
    show cart (a.project b) + cart (a.add (a.project b).negate) - cart a = _
    ring
  rw [e]; exact hsub

/-- (E) **the rejection is orthogonal to `b`**: the exact residual `cart a − cart(proj)` has a component along `b`'s direction of at
    most `|a|·(1e-10+1e-15)`, and `|proj|² + |residual|² = |a|²` to within `2|a|²·(1e-10+1e-15)` (Pythagoras) -/
theorem rejection_orthogonal_real {a b : Geonum ℝ} (ha : a.angle.Inv) (hb : b.angle.Inv) (h0a : 0 ≤ a.mag)
    (hbm : flt (fabs b.mag) (e10 : ℝ) = false) :
    let res := cart a - cart (a.project b)
    |res.re * Real.cos (T b.angle) + res.im * Real.sin (T b.angle)| ≤ a.mag * (1 / 10 ^ 10 + 1 / 10 ^ 15) ∧
    |(a.project b).mag ^ 2 + Complex.normSq res - a.mag ^ 2| ≤ 2 * a.mag ^ 2 * (1 / 10 ^ 10 + 1 / 10 ^ 15) := by
  intro res
  obtain ⟨δ, hδ, hc⟩ := project_cart_real ha hb hbm
  set θ := T b.angle - T a.angle with hθ
  set c' := Real.cos (θ + δ) with hc'
  have hres : res = polar a.mag (T a.angle) - polar (a.mag * c') (T b.angle) := by
    show cart a - cart (a.project b) = _
    rw [hc]; rfl
  have hsb := Real.sin_sq_add_cos_sq (T b.angle)
  have hsa := Real.sin_sq_add_cos_sq (T a.angle)
  have hcosθ : Real.cos θ = Real.cos (T b.angle) * Real.cos (T a.angle) + Real.sin (T b.angle) * Real.sin (T a.angle) := by
    rw [hθ, Real.cos_sub]
  have hlip := cos_lipschitz θ δ
  have hre : res.re = a.mag * Real.cos (T a.angle) - a.mag * c' * Real.cos (T b.angle) := by rw [hres]; simp [polar]
  have him : res.im = a.mag * Real.sin (T a.angle) - a.mag * c' * Real.sin (T b.angle) := by rw [hres]; simp [polar]
  have halong : res.re * Real.cos (T b.angle) + res.im * Real.sin (T b.angle) = a.mag * (Real.cos θ - c') := by
    rw [hre, him]
    calc (a.mag * Real.cos (T a.angle) - a.mag * c' * Real.cos (T b.angle)) * Real.cos (T b.angle)
          + (a.mag * Real.sin (T a.angle) - a.mag * c' * Real.sin (T b.angle)) * Real.sin (T b.angle)
        = a.mag * (Real.cos (T b.angle) * Real.cos (T a.angle) + Real.sin (T b.angle) * Real.sin (T a.angle))
          - a.mag * c' * (Real.sin (T b.angle) ^ 2 + Real.cos (T b.angle) ^ 2) := by ring
      _ = a.mag * (Real.cos θ - c') := by rw [← hcosθ, hsb]; ring
  constructor
  · rw [halong, abs_mul, abs_of_nonneg h0a]
    apply mul_le_mul_of_nonneg_left _ h0a
    rw [abs_sub_comm]; exact le_trans hlip (le_of_lt hδ)
  · -- |proj|² + |res|² − |a|² = 2|a|² c'(c' − cos θ)
    have hpm : (a.project b).mag ^ 2 = a.mag ^ 2 * c' ^ 2 := by
      have h0p : 0 ≤ (a.project b).mag := by
        have := (project_mag_bounds (F := ℝ) (a := a) (b := b) trivial h0a hbm trivial).1
        simpa only [val_id] using this
      have hn : ‖cart (a.project b)‖ = (a.project b).mag := by
        show ‖polar (a.project b).mag _‖ = _
        rw [norm_polar, abs_of_nonneg h0p]
      have hn2 : ‖cart (a.project b)‖ = |a.mag * c'| := by rw [hc, norm_polar]
      rw [← hn, hn2, sq_abs]; ring
    have hns : Complex.normSq res = a.mag ^ 2 + a.mag ^ 2 * c' ^ 2 - 2 * a.mag ^ 2 * c' * Real.cos θ := by
      rw [Complex.normSq_apply, hre, him, hcosθ]
      have e1 : (a.mag * Real.cos (T a.angle) - a.mag * c' * Real.cos (T b.angle)) * (a.mag * Real.cos (T a.angle) - a.mag * c' * Real.cos (T b.angle))
          + (a.mag * Real.sin (T a.angle) - a.mag * c' * Real.sin (T b.angle)) * (a.mag * Real.sin (T a.angle) - a.mag * c' * Real.sin (T b.angle))
          = a.mag ^ 2 * (Real.sin (T a.angle) ^ 2 + Real.cos (T a.angle) ^ 2)
            + a.mag ^ 2 * c' ^ 2 * (Real.sin (T b.angle) ^ 2 + Real.cos (T b.angle) ^ 2)
            - 2 * a.mag ^ 2 * c' * (Real.cos (T b.angle) * Real.cos (T a.angle) + Real.sin (T b.angle) * Real.sin (T a.angle)) := by ring
      rw [e1, hsa, hsb]; ring
    rw [hpm, hns]
    have e : a.mag ^ 2 * c' ^ 2 + (a.mag ^ 2 + a.mag ^ 2 * c' ^ 2 - 2 * a.mag ^ 2 * c' * Real.cos θ) - a.mag ^ 2
        = 2 * a.mag ^ 2 * (c' * (c' - Real.cos θ)) := by ring
    rw [e, abs_mul, abs_of_nonneg (by positivity)]
    apply mul_le_mul_of_nonneg_left _ (by positivity)
    rw [abs_mul]
    have hc1 : |c'| ≤ 1 := Real.abs_cos_le_one _
    calc |c'| * |c' - Real.cos θ| ≤ 1 * (1 / 10 ^ 10 + 1 / 10 ^ 15) :=
          mul_le_mul hc1 (le_trans hlip (le_of_lt hδ)) (abs_nonneg _) (by norm_num)
      _ = 1 / 10 ^ 10 + 1 / 10 ^ 15 := one_mul _

end E

/-! PARTIAL (not yet proved): project_to_dimension k = |a|cos(kπ/2 − t) in exact arithmetic (explored by `oracle.C11.dim`). -/

/-! ### B-tier: projections in rounded arithmetic, angles in true radians -/
section B
variable {F : Type} [FloatSpec F]

/-- (B) **projection onto the `k`-th dimension in rounded arithmetic** is `|g|·cos(k·π/2 − T g)` (true π) to within
    `|g|·(1e-10 + 1e-14) + 1e-30` for every dimension index below `2^53`: the error does not grow with `k`, because the difference
    of the two angles is taken in exact blade arithmetic before any float is formed -/
theorem projectToDimension_float {g : Geonum F} (hg : g.angle.Inv) (hm : Fin g.mag) (hm0 : 0 ≤ val g.mag)
    (k : ℕ) (hk : k < 2 ^ 53) :
    |val (g.projectToDimension k) - val g.mag * Real.cos ((k : ℝ) * (Real.pi / 2) - Angle.Tpi g.angle)|
      ≤ val g.mag * (val (e10 : F) + 1 / 10 ^ 14) + 1 / 10 ^ 30 :=
  Geonum.projectToDimension_float hg hm hm0 k hk

/-- (B) **length of the projection of `a` onto `b` in rounded arithmetic** (`|b| ≥ 1e-10` branch): `|a|·|cos(T b − T a)|` to within
    `|a|·(1e-10 + 1e-14) + 1e-30`, independent of `|b|` -/
theorem project_mag_float {a b : Geonum F} (ha : a.angle.Inv) (hb : b.angle.Inv) (hm : Fin a.mag) (hm0 : 0 ≤ val a.mag)
    (hbm : flt (fabs b.mag) e10 = false) :
    |val (a.project b).mag - val a.mag * abs (Real.cos (Angle.Tpi b.angle - Angle.Tpi a.angle))|
      ≤ val a.mag * (val (e10 : F) + 1 / 10 ^ 14) + 1 / 10 ^ 30 :=
  Geonum.project_mag_float ha hb hm hm0 hbm

/-- (B) `Angle::project` is the cosine of the true difference of totals to within `1e-10 + 8e-15`, and never exceeds one -/
theorem angle_project_float {a onto : Angle F} (ha : a.Inv) (ho : onto.Inv) :
    Fin (a.project onto) ∧ |val (a.project onto)| ≤ 1 ∧
    |val (a.project onto) - Real.cos (Angle.Tpi onto - Angle.Tpi a)| ≤ val (e10 : F) + 8 / 10 ^ 15 :=
  Angle.project_float ha ho

/-- (B) **projection plus rejection reproduces `a` in rounded arithmetic** (general branch of the underlying subtraction): with
    `p = a.project b` and `r = a.reject b = a − p`, the Cartesian components of `p` and `r` add up to those of `a` (angles in true radians)
    within `(|a| + |p|)·(2e-7 + 1.1·(1e-10 + (40·(ba + bp + 2) + 170)·2⁻⁵³)) + 1e-28` — whatever the blade histories -/
theorem project_add_reject_float {a b : Geonum F} (ha : a.angle.Inv) (hpinv : (a.project b).angle.Inv)
    (hma : a.MagDom) (hmp : (a.project b).MagDom)
    (hcb : a.angle.blade + (a.project b).angle.blade + 2 ≤ 2 ^ 39)
    (h1 : Geonum.sameAngle a (a.project b).negate = false) (h2 : Geonum.oppositeAngle a (a.project b).negate = false) :
    |val (a.reject b).mag * Real.cos (Angle.Tpi (a.reject b).angle) + val (a.project b).mag * Real.cos (Angle.Tpi (a.project b).angle)
        - val a.mag * Real.cos (Angle.Tpi a.angle)|
      ≤ (val a.mag + val (a.project b).mag) * (2 / 10 ^ 7 + 11 / 10 * (val (e10 : F)
          + (40 * ((a.angle.blade + (a.project b).angle.blade + 2 : ℕ) : ℝ) + 170) * (1 / 2 ^ 53))) + 1 / 10 ^ 28 ∧
    |val (a.reject b).mag * Real.sin (Angle.Tpi (a.reject b).angle) + val (a.project b).mag * Real.sin (Angle.Tpi (a.project b).angle)
        - val a.mag * Real.sin (Angle.Tpi a.angle)|
      ≤ (val a.mag + val (a.project b).mag) * (2 / 10 ^ 7 + 11 / 10 * (val (e10 : F)
          + (40 * ((a.angle.blade + (a.project b).angle.blade + 2 : ℕ) : ℝ) + 170) * (1 / 2 ^ 53))) + 1 / 10 ^ 28 :=
  Geonum.sub_cartesian_float ha hpinv hma hmp hcb h1 h2

/-- (B) **projection plus rejection reproduces `a` in rounded arithmetic, in EVERY branch** of the underlying subtraction — in particular
    when `a` is parallel or anti-parallel to `b`, where `a − p` runs through the same-angle / opposite branch: the Cartesian components of
    `p = a.project b` and `r = a.reject b` add up to those of `a` within the every-branch bound -/
theorem project_add_reject_every_branch_float {a b : Geonum F} (ha : a.angle.Inv) (hpinv : (a.project b).angle.Inv)
    (hma : a.MagDom) (hmp : (a.project b).MagDom)
    (hcb : a.angle.blade + (a.project b).angle.blade + 2 ≤ 2 ^ 39) :
    |val (a.reject b).mag * Real.cos (Angle.Tpi (a.reject b).angle) + val (a.project b).mag * Real.cos (Angle.Tpi (a.project b).angle)
        - val a.mag * Real.cos (Angle.Tpi a.angle)|
      ≤ (val a.mag + val (a.project b).mag) * (2 / 10 ^ 7 + 11 / 10 * (val (e10 : F)
          + (40 * ((a.angle.blade + (a.project b).angle.blade + 2 : ℕ) : ℝ) + 170) * (1 / 2 ^ 53))) + 1 / 10 ^ 28 + 2 * val (e10 : F) ∧
    |val (a.reject b).mag * Real.sin (Angle.Tpi (a.reject b).angle) + val (a.project b).mag * Real.sin (Angle.Tpi (a.project b).angle)
        - val a.mag * Real.sin (Angle.Tpi a.angle)|
      ≤ (val a.mag + val (a.project b).mag) * (2 / 10 ^ 7 + 11 / 10 * (val (e10 : F)
          + (40 * ((a.angle.blade + (a.project b).angle.blade + 2 : ℕ) : ℝ) + 170) * (1 / 2 ^ 53))) + 1 / 10 ^ 28 + 2 * val (e10 : F) :=
  Geonum.sub_cartesian_every_branch_float ha hpinv hma hmp hcb

/-- (B) **the projection as a Cartesian vector, in rounded arithmetic** (`|b| ≥ 1e-10` branch): it is `M·(cos T b, sin T b)` for a signed
    length `M` within `|a|·(1e-10 + 1e-14) + 1e-30` of `|a|·cos(T b − T a)` — the vector `(a·b̂)b̂`, the sign carried by the half turn -/
theorem project_cartesian_float {a b : Geonum F} (ha : a.angle.Inv) (hb : b.angle.Inv) (hm : Fin a.mag) (hm0 : 0 ≤ val a.mag)
    (hbm : flt (fabs b.mag) e10 = false) :
    ∃ M : ℝ, val (a.project b).mag * Real.cos (Angle.Tpi (a.project b).angle) = M * Real.cos (Angle.Tpi b.angle) ∧
      val (a.project b).mag * Real.sin (Angle.Tpi (a.project b).angle) = M * Real.sin (Angle.Tpi b.angle) ∧
      |M - val a.mag * Real.cos (Angle.Tpi b.angle - Angle.Tpi a.angle)| ≤ val a.mag * (val (e10 : F) + 1 / 10 ^ 14) + 1 / 10 ^ 30 ∧
      Fin (a.project b).mag ∧ (M = val (a.project b).mag ∨ M = -val (a.project b).mag) := by
  have ps := project_structure a b hbm
  simp only at ps
  obtain ⟨hfp, hp1, hclose⟩ := Angle.project_float ha hb
  obtain ⟨hfa, hva⟩ := fabs_spec hfp
  have hc1 : |val (fabs (a.angle.project b.angle))| ≤ 1 := by rw [hva, abs_abs]; exact hp1
  have hnum : (8:ℝ) / 10 ^ 15 + 1 / 2 ^ 53 ≤ 1 / 10 ^ 14 := by norm_num
  have hbnd : val a.mag * (val (e10 : F) + 8 / 10 ^ 15 + 1 / 2 ^ 53) ≤ val a.mag * (val (e10 : F) + 1 / 10 ^ 14) :=
    mul_le_mul_of_nonneg_left (by linarith) hm0
  by_cases h : fge (a.angle.project b.angle) (zero : F) = true
  · have hf0 : 0 ≤ val (a.angle.project b.angle) := by
      have := (fle_spec (fin_zero (F := F)) hfp).mp h; rwa [val_zero] at this
    have hcl : |val (fabs (a.angle.project b.angle)) - Real.cos (Angle.Tpi b.angle - Angle.Tpi a.angle)| ≤ val (e10 : F) + 8 / 10 ^ 15 := by
      rw [hva, abs_of_nonneg hf0]; exact hclose
    obtain ⟨hfm, hmm⟩ := mul_unit_float hm hm0 hfa hc1 hcl
    refine ⟨val (a.project b).mag, by rw [ps.2.1 h], by rw [ps.2.1 h], ?_, by rw [ps.1]; exact hfm, Or.inl rfl⟩
    rw [ps.1]; linarith
  · have h' : fge (a.angle.project b.angle) (zero : F) = false := by simpa using h
    have hf0 : val (a.angle.project b.angle) < 0 := by
      by_contra hc; push Not at hc
      have := (fle_spec (fin_zero (F := F)) hfp).mpr (by rw [val_zero]; exact hc)
      have h'' : fle (zero : F) (a.angle.project b.angle) = false := h'
      rw [this] at h''; cases h''
    have hcl : |val (fabs (a.angle.project b.angle)) - (-Real.cos (Angle.Tpi b.angle - Angle.Tpi a.angle))| ≤ val (e10 : F) + 8 / 10 ^ 15 := by
      rw [hva, abs_of_neg hf0]
      have e : -val (a.angle.project b.angle) - -Real.cos (Angle.Tpi b.angle - Angle.Tpi a.angle)
          = -(val (a.angle.project b.angle) - Real.cos (Angle.Tpi b.angle - Angle.Tpi a.angle)) := by ring
      rw [e, abs_neg]; exact hclose
    obtain ⟨hfm, hmm⟩ := mul_unit_float hm hm0 hfa hc1 hcl
    obtain ⟨hT, _⟩ := Geonum.Tpi_negate hb
    have hang : Angle.Tpi (a.project b).angle = Angle.Tpi b.angle + Real.pi := by rw [ps.2.2.1 h']; exact hT
    refine ⟨-val (a.project b).mag, by rw [hang, Real.cos_add_pi]; ring, by rw [hang, Real.sin_add_pi]; ring, ?_,
      by rw [ps.1]; exact hfm, Or.inr rfl⟩
    rw [ps.1]
    have e : -val (fmul a.mag (fabs (a.angle.project b.angle))) - val a.mag * Real.cos (Angle.Tpi b.angle - Angle.Tpi a.angle)
        = -(val (fmul a.mag (fabs (a.angle.project b.angle))) - val a.mag * -Real.cos (Angle.Tpi b.angle - Angle.Tpi a.angle)) := by ring
    rw [e, abs_neg]; linarith

/-- (B) **the rejection is orthogonal to `b`, in rounded arithmetic**: the component of `r = a.reject b` along `b̂` — `r·b̂` in Cartesian
    components — is at most twice the every-branch subtraction bound plus the projection's own accuracy; whatever branch `a − p` takes
    (`a ∥ b` included) -/
theorem reject_orthogonal_float {a b : Geonum F} (ha : a.angle.Inv) (hb : b.angle.Inv) (hma : a.MagDom)
    (hbm : flt (fabs b.mag) e10 = false) (hcb : a.angle.blade + (a.project b).angle.blade + 2 ≤ 2 ^ 39) :
    |val (a.reject b).mag * Real.cos (Angle.Tpi (a.reject b).angle) * Real.cos (Angle.Tpi b.angle)
        + val (a.reject b).mag * Real.sin (Angle.Tpi (a.reject b).angle) * Real.sin (Angle.Tpi b.angle)|
      ≤ 2 * ((val a.mag + val (a.project b).mag) * (2 / 10 ^ 7 + 11 / 10 * (val (e10 : F)
          + (40 * ((a.angle.blade + (a.project b).angle.blade + 2 : ℕ) : ℝ) + 170) * (1 / 2 ^ 53))) + 1 / 10 ^ 28 + 2 * val (e10 : F))
        + (val a.mag * (val (e10 : F) + 1 / 10 ^ 14) + 1 / 10 ^ 30) := by
  obtain ⟨M, hX, hY, hM, hfp, _⟩ := project_cartesian_float ha hb hma.1 hma.2.1 hbm
  obtain ⟨hpinv, _, _⟩ := project_angle (a := a) hbm hb
  have hg := gradeAngle_fin (geometricSub_inv hb ha)
  obtain ⟨hp0, hp1⟩ := project_mag_bounds hma.1 hma.2.1 hbm hg
  have hmp : (a.project b).MagDom := ⟨hfp, hp0, le_trans hp1 hma.2.2⟩
  obtain ⟨s1, s2⟩ := project_add_reject_every_branch_float (b := b) ha hpinv hma hmp hcb
  set B := (val a.mag + val (a.project b).mag) * (2 / 10 ^ 7 + 11 / 10 * (val (e10 : F)
          + (40 * ((a.angle.blade + (a.project b).angle.blade + 2 : ℕ) : ℝ) + 170) * (1 / 2 ^ 53))) + 1 / 10 ^ 28 + 2 * val (e10 : F) with hB
  rw [hX] at s1; rw [hY] at s2
  set c := Real.cos (Angle.Tpi b.angle) with hc
  set s := Real.sin (Angle.Tpi b.angle) with hs
  set Xr := val (a.reject b).mag * Real.cos (Angle.Tpi (a.reject b).angle) with hXr
  set Yr := val (a.reject b).mag * Real.sin (Angle.Tpi (a.reject b).angle) with hYr
  have hcs : c * c + s * s = 1 := by rw [hc, hs]; have := Real.cos_sq_add_sin_sq (Angle.Tpi b.angle); nlinarith
  have hc1 : |c| ≤ 1 := Real.abs_cos_le_one _
  have hs1 : |s| ≤ 1 := Real.abs_sin_le_one _
  have hdot : val a.mag * Real.cos (Angle.Tpi a.angle) * c + val a.mag * Real.sin (Angle.Tpi a.angle) * s
      = val a.mag * Real.cos (Angle.Tpi b.angle - Angle.Tpi a.angle) := by
    rw [Real.cos_sub, hc, hs]; ring
  -- Xr c + Yr s = (e1 c + e2 s) + (|a| cos Δ − M)
  have e : Xr * c + Yr * s = (Xr + M * c - val a.mag * Real.cos (Angle.Tpi a.angle)) * c
      + (Yr + M * s - val a.mag * Real.sin (Angle.Tpi a.angle)) * s
      + (val a.mag * Real.cos (Angle.Tpi b.angle - Angle.Tpi a.angle) - M) := by
    rw [← hdot]
    have : M * c * c + M * s * s = M := by
      have : M * c * c + M * s * s = M * (c * c + s * s) := by ring
      rw [this, hcs, mul_one]
    linarith
  rw [e]
  have t1 : |(Xr + M * c - val a.mag * Real.cos (Angle.Tpi a.angle)) * c| ≤ B := by
    rw [abs_mul]
    calc _ ≤ |Xr + M * c - val a.mag * Real.cos (Angle.Tpi a.angle)| * 1 := mul_le_mul_of_nonneg_left hc1 (abs_nonneg _)
      _ = _ := mul_one _
      _ ≤ B := s1
  have t2 : |(Yr + M * s - val a.mag * Real.sin (Angle.Tpi a.angle)) * s| ≤ B := by
    rw [abs_mul]
    calc _ ≤ |Yr + M * s - val a.mag * Real.sin (Angle.Tpi a.angle)| * 1 := mul_le_mul_of_nonneg_left hs1 (abs_nonneg _)
      _ = _ := mul_one _
      _ ≤ B := s2
  have t3 : |val a.mag * Real.cos (Angle.Tpi b.angle - Angle.Tpi a.angle) - M| ≤ val a.mag * (val (e10 : F) + 1 / 10 ^ 14) + 1 / 10 ^ 30 := by
    rw [abs_sub_comm]; exact hM
  have := abs_add_three ((Xr + M * c - val a.mag * Real.cos (Angle.Tpi a.angle)) * c)
    ((Yr + M * s - val a.mag * Real.sin (Angle.Tpi a.angle)) * s) (val a.mag * Real.cos (Angle.Tpi b.angle - Angle.Tpi a.angle) - M)
  linarith

/-- Pythagoras from the three Cartesian facts: `P = M·(c, s)`, `P + R = A` up to `B` per component, `R·(c, s)` small -/
theorem pyth_real {A R M c s Xa Ya Xr Yr B D : ℝ} (hcs : c * c + s * s = 1) (hA : Xa * Xa + Ya * Ya = A * A) (hR : Xr * Xr + Yr * Yr = R * R)
    (hA0 : 0 ≤ A) (hB0 : 0 ≤ B) (hxa : |Xa| ≤ A) (hya : |Ya| ≤ A)
    (ex : |Xr + M * c - Xa| ≤ B) (ey : |Yr + M * s - Ya| ≤ B) (hd : |Xr * c + Yr * s| ≤ D) :
    |A * A - R * R - M * M| ≤ 2 * |M| * D + 4 * B * A + 2 * (B * B) := by
  obtain ⟨u, hu⟩ : ∃ u : ℝ, u = Xr + M * c - Xa := ⟨_, rfl⟩
  obtain ⟨v, hv⟩ : ∃ v : ℝ, v = Yr + M * s - Ya := ⟨_, rfl⟩
  obtain ⟨d, hdd⟩ : ∃ d : ℝ, d = Xr * c + Yr * s := ⟨_, rfl⟩
  rw [← hu] at ex; rw [← hv] at ey; rw [← hdd] at hd
  have key : A * A - R * R - M * M = 2 * M * d - 2 * u * Xa - 2 * v * Ya - u * u - v * v := by
    have hXr : Xr = Xa + u - M * c := by rw [hu]; ring
    have hYr : Yr = Ya + v - M * s := by rw [hv]; ring
    have hMM : M * M = M * M * (c * c + s * s) := by rw [hcs, mul_one]
    rw [← hA, ← hR, hdd, hXr, hYr]
    nlinarith [hMM]
  rw [key]
  have t1 : |2 * M * d| ≤ 2 * |M| * D := by
    rw [abs_mul, abs_mul, abs_of_pos (by norm_num : (0:ℝ) < 2)]
    exact mul_le_mul_of_nonneg_left hd (by positivity)
  have t2 : |2 * u * Xa| ≤ 2 * B * A := by
    rw [abs_mul, abs_mul, abs_of_pos (by norm_num : (0:ℝ) < 2)]
    exact mul_le_mul (by linarith) hxa (abs_nonneg _) (by linarith)
  have t3 : |2 * v * Ya| ≤ 2 * B * A := by
    rw [abs_mul, abs_mul, abs_of_pos (by norm_num : (0:ℝ) < 2)]
    exact mul_le_mul (by linarith) hya (abs_nonneg _) (by linarith)
  have t4 : |u * u| ≤ B * B := by rw [abs_mul]; exact mul_le_mul ex ex (abs_nonneg _) hB0
  have t5 : |v * v| ≤ B * B := by rw [abs_mul]; exact mul_le_mul ey ey (abs_nonneg _) hB0
  have a1 := abs_sub (2 * M * d - 2 * u * Xa - 2 * v * Ya - u * u) (v * v)
  have a2 := abs_sub (2 * M * d - 2 * u * Xa - 2 * v * Ya) (u * u)
  have a3 := abs_sub (2 * M * d - 2 * u * Xa) (2 * v * Ya)
  have a4 := abs_sub (2 * M * d) (2 * u * Xa)
  linarith

/-- (B) **Pythagoras for projection and rejection, in rounded arithmetic**: `|a|² = |p|² + |r|²` for `p = a.project b`, `r = a.reject b`, up
    to `2|p|·D + 4·B·|a| + 2·B²` with `B` the every-branch subtraction bound and `D = 2B + |a|(1e-10+1e-14) + 1e-30` the orthogonality bound -/
theorem project_pythagoras_float {a b : Geonum F} (ha : a.angle.Inv) (hb : b.angle.Inv) (hma : a.MagDom)
    (hbm : flt (fabs b.mag) e10 = false) (hcb : a.angle.blade + (a.project b).angle.blade + 2 ≤ 2 ^ 39) :
    |val a.mag * val a.mag - val (a.reject b).mag * val (a.reject b).mag - val (a.project b).mag * val (a.project b).mag|
      ≤ 2 * val (a.project b).mag
          * (2 * ((val a.mag + val (a.project b).mag) * (2 / 10 ^ 7 + 11 / 10 * (val (e10 : F)
              + (40 * ((a.angle.blade + (a.project b).angle.blade + 2 : ℕ) : ℝ) + 170) * (1 / 2 ^ 53))) + 1 / 10 ^ 28 + 2 * val (e10 : F))
            + (val a.mag * (val (e10 : F) + 1 / 10 ^ 14) + 1 / 10 ^ 30))
        + 4 * ((val a.mag + val (a.project b).mag) * (2 / 10 ^ 7 + 11 / 10 * (val (e10 : F)
              + (40 * ((a.angle.blade + (a.project b).angle.blade + 2 : ℕ) : ℝ) + 170) * (1 / 2 ^ 53))) + 1 / 10 ^ 28 + 2 * val (e10 : F)) * val a.mag
        + 2 * (((val a.mag + val (a.project b).mag) * (2 / 10 ^ 7 + 11 / 10 * (val (e10 : F)
              + (40 * ((a.angle.blade + (a.project b).angle.blade + 2 : ℕ) : ℝ) + 170) * (1 / 2 ^ 53))) + 1 / 10 ^ 28 + 2 * val (e10 : F))
          * ((val a.mag + val (a.project b).mag) * (2 / 10 ^ 7 + 11 / 10 * (val (e10 : F)
              + (40 * ((a.angle.blade + (a.project b).angle.blade + 2 : ℕ) : ℝ) + 170) * (1 / 2 ^ 53))) + 1 / 10 ^ 28 + 2 * val (e10 : F))) := by
  obtain ⟨M, hX, hY, hM, hfp, hMs⟩ := project_cartesian_float ha hb hma.1 hma.2.1 hbm
  obtain ⟨hpinv, _, _⟩ := project_angle (a := a) hbm hb
  have hg := gradeAngle_fin (geometricSub_inv hb ha)
  obtain ⟨hp0, hp1⟩ := project_mag_bounds hma.1 hma.2.1 hbm hg
  have hmp : (a.project b).MagDom := ⟨hfp, hp0, le_trans hp1 hma.2.2⟩
  obtain ⟨s1, s2⟩ := project_add_reject_every_branch_float (b := b) ha hpinv hma hmp hcb
  have horth := reject_orthogonal_float ha hb hma hbm hcb
  set B := (val a.mag + val (a.project b).mag) * (2 / 10 ^ 7 + 11 / 10 * (val (e10 : F)
          + (40 * ((a.angle.blade + (a.project b).angle.blade + 2 : ℕ) : ℝ) + 170) * (1 / 2 ^ 53))) + 1 / 10 ^ 28 + 2 * val (e10 : F) with hB
  rw [hX] at s1; rw [hY] at s2
  have he10 := val_e10_pos (F := F)
  have hB0 : 0 ≤ B := by
    rw [hB]
    have h1 : 0 ≤ (val a.mag + val (a.project b).mag) * (2 / 10 ^ 7 + 11 / 10 * (val (e10 : F)
          + (40 * ((a.angle.blade + (a.project b).angle.blade + 2 : ℕ) : ℝ) + 170) * (1 / 2 ^ 53))) :=
      mul_nonneg (add_nonneg hma.2.1 hp0) (by positivity)
    have h28 : (0:ℝ) ≤ 1 / 10 ^ 28 := by positivity
    linarith
  have hMabs : |M| = val (a.project b).mag := by
    rcases hMs with h | h
    · rw [h, abs_of_nonneg hp0]
    · rw [h, abs_neg, abs_of_nonneg hp0]
  have hMM : M * M = val (a.project b).mag * val (a.project b).mag := by
    rcases hMs with h | h <;> rw [h] <;> ring
  have hcs : Real.cos (Angle.Tpi b.angle) * Real.cos (Angle.Tpi b.angle) + Real.sin (Angle.Tpi b.angle) * Real.sin (Angle.Tpi b.angle) = 1 := by
    have := Real.cos_sq_add_sin_sq (Angle.Tpi b.angle); nlinarith
  have sq : ∀ (m t : ℝ), (m * Real.cos t) * (m * Real.cos t) + (m * Real.sin t) * (m * Real.sin t) = m * m := by
    intro m t; have := Real.cos_sq_add_sin_sq t; nlinarith
  have cle : ∀ (m t : ℝ), 0 ≤ m → |m * Real.cos t| ≤ m ∧ |m * Real.sin t| ≤ m := by
    intro m t hm
    rw [abs_mul, abs_mul, abs_of_nonneg hm]
    exact ⟨by calc m * |Real.cos t| ≤ m * 1 := mul_le_mul_of_nonneg_left (Real.abs_cos_le_one t) hm
                 _ = m := mul_one _,
           by calc m * |Real.sin t| ≤ m * 1 := mul_le_mul_of_nonneg_left (Real.abs_sin_le_one t) hm
                 _ = m := mul_one _⟩
  have hd : |val (a.reject b).mag * Real.cos (Angle.Tpi (a.reject b).angle) * Real.cos (Angle.Tpi b.angle)
      + val (a.reject b).mag * Real.sin (Angle.Tpi (a.reject b).angle) * Real.sin (Angle.Tpi b.angle)|
      ≤ 2 * B + (val a.mag * (val (e10 : F) + 1 / 10 ^ 14) + 1 / 10 ^ 30) := horth
  have key := pyth_real hcs (sq (val a.mag) (Angle.Tpi a.angle)) (sq (val (a.reject b).mag) (Angle.Tpi (a.reject b).angle))
    hma.2.1 hB0 (cle _ _ hma.2.1).1 (cle _ _ hma.2.1).2 s1 s2 hd
  rw [hMabs, hMM] at key
  exact key

end B

example {F : Type} [FloatSpec F] : (⟨zero, 1⟩ : Angle F).Inv := inv_zero 1


/-! ### R — on the arithmetic that really rounds (`R64`: round-to-nearest on the binary64 grid, correctly rounded libm) -/
section R

/-- (R) `project_to_dimension(k)` is `|g|cos(kπ/2 − T g)` for every binary64 number and every `k < 2^53` -/
theorem projectToDimension_rounded {g : Geonum R64} (hg : g.angle.Inv) (hm0 : 0 ≤ g.mag.v) (k : ℕ) (hk : k < 2 ^ 53) :
    |(g.projectToDimension k).v - g.mag.v * Real.cos ((k : ℝ) * (Real.pi / 2) - Angle.Tpi g.angle)|
      ≤ g.mag.v * ((e10 : R64).v + 1 / 10 ^ 14) + 1 / 10 ^ 30 :=
  projectToDimension_float (F := R64) hg trivial hm0 k hk

end R

end GeonumModel.C11
