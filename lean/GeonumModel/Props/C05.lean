/-
  C05 — Products: magnitudes multiply, angles add; inverse, division, scaling.
-/
import GeonumModel.Lemmas.AngleStep
import GeonumModel.Spec.RealWitness
import GeonumModel.Lemmas.Exact
import GeonumModel.Lemmas.FloatMetric
import GeonumModel.Spec.RoundWitness

set_option linter.unusedSectionVars false
set_option linter.unusedVariables false

namespace GeonumModel.C05
open GeonumModel FloatLike FloatSpec Angle

section G
variable {F : Type} [FloatLike F]

/-- (G) the product has the (one) float product of the magnitudes and the angle sum; all four ownership forms agree -/
theorem mul_spec (a b : Geonum F) :
    (a.mul b).mag = fmul a.mag b.mag ∧ (a.mul b).angle = a.angle.geometricAdd b.angle ∧
    a.mulRR b = a.mul b ∧ a.mulRV b = a.mul b ∧ a.mulVR b = a.mul b :=
  ⟨rfl, rfl, rfl, rfl, rfl⟩

/-- (G) every spelling of division is multiplication by the inverse, and panics exactly when the inverse does -/
theorem div_is_mul_inv (a b : Geonum F) :
    a.div b = b.inv.map (fun i => a.mul i) ∧ a.divVV b = a.div b ∧ a.divRR b = a.div b ∧
    a.divRV b = a.div b ∧ a.divVR b = a.div b :=
  ⟨rfl, rfl, rfl, rfl, rfl⟩

/-- (G) the inverse panics exactly when the magnitude compares equal to zero; otherwise it is the reciprocal magnitude at
    the negated angle -/
theorem inv_spec (g : Geonum F) :
    (g.inv = none ↔ feq g.mag zero = true) ∧
    (feq g.mag zero = false → g.inv = some ⟨fdiv one g.mag, g.angle.negate⟩) := by
  unfold Geonum.inv
  constructor
  · by_cases h : feq g.mag zero = true <;> simp [h]
  · intro h; simp [h]

/-- (G) normalisation panics exactly on a zero magnitude; otherwise unit magnitude with the angle field untouched -/
theorem normalize_spec (g : Geonum F) :
    (g.normalize = none ↔ feq g.mag zero = true) ∧
    (feq g.mag zero = false → g.normalize = some ⟨one, g.angle⟩) := by
  unfold Geonum.normalize
  constructor
  · by_cases h : feq g.mag zero = true <;> simp [h]
  · intro h; simp [h]

/-- (G) multiplying or adding a bare angle only rotates: the magnitude field is returned untouched, in all four forms -/
theorem angle_ops_only_rotate (x : Angle F) (g : Geonum F) :
    (Geonum.angleMul x g).mag = g.mag ∧ (Geonum.angleMul x g).angle = x.geometricAdd g.angle ∧
    Geonum.angleMulR x g = Geonum.angleMul x g ∧ Geonum.angleAdd x g = Geonum.angleMul x g ∧
    Geonum.angleAddR x g = Geonum.angleMul x g :=
  ⟨rfl, rfl, rfl, rfl, rfl⟩

/-- (G) scaling is the product with the scalar constructor, whose magnitude is `|factor|`; a power raises the magnitude -/
theorem scale_pow_spec (g : Geonum F) (f n : F) :
    g.scale f = g.mul (Geonum.scalar f) ∧ (g.scale f).mag = fmul g.mag (fabs f) ∧
    (g.pow n).mag = FloatLike.powf g.mag n ∧ (g.pow n).angle = g.angle.geometricAdd (Angle.new n one) :=
  ⟨rfl, rfl, rfl, rfl⟩
end G

section S
variable {F : Type} [FloatSpec F]

/-- (S) multiplication is commutative as a structure equality — bit-for-bit on binary64 -/
theorem mul_comm {a b : Geonum F} (hma : Fin a.mag) (hmb : Fin b.mag) (hra : Fin a.angle.rem) (hrb : Fin b.angle.rem) :
    a.mul b = b.mul a := by
  unfold Geonum.mul
  simp only [Angle.add, addVV]
  rw [fmul_comm hma hmb]
  have : a.angle.geometricAdd b.angle = b.angle.geometricAdd a.angle := by
    unfold geometricAdd; simp only [fadd_comm hra hrb, Nat.add_comm a.angle.blade b.angle.blade]
  rw [this]

/-- (S) the product of canonical numbers is canonical, with blade counts adding up to one carry -/
theorem mul_angle {a b : Geonum F} (ha : a.angle.Inv) (hb : b.angle.Inv) :
    (a.mul b).angle.Inv ∧ ((a.mul b).angle.blade = a.angle.blade + b.angle.blade ∨
      (a.mul b).angle.blade = a.angle.blade + b.angle.blade + 1) :=
  ⟨(geometricAdd_spec ha hb).1, (geometricAdd_spec ha hb).2.1⟩

/-- (S) `[1, 0]` is a right identity: same magnitude value, same blade, same remainder value -/
theorem mul_one {g : Geonum F} (hm : Fin g.mag) (ha : g.angle.Inv) :
    val (g.mul (Geonum.new one zero one)).mag = val g.mag ∧
    (g.mul (Geonum.new one zero one)).angle.blade = g.angle.blade ∧
    val (g.mul (Geonum.new one zero one)).angle.rem = val g.angle.rem := by
  obtain ⟨hb, hf, _, hv⟩ := new_zero_one (F := F)
  simp only at hb hv; rw [val_zero] at hv
  have hw := add_whole ha hf hv
  rw [hb, Nat.add_zero] at hw
  refine ⟨?_, hw.1, hw.2.2⟩
  show val (fmul g.mag one) = _
  have := (fmul_spec hm (fin_one (F := F)) (by rw [val_one, _root_.mul_one]; exact inRange_val hm)).2
  rw [this, val_one, _root_.mul_one, rnd_val hm]

/-- (S) the inverse of a non-zero canonical number: reciprocal magnitude (one rounding), exactly two more blades,
    remainder value untouched -/
theorem inv_of_nonzero {g : Geonum F} (hm : Fin g.mag) (h0 : val g.mag ≠ 0) (ha : g.angle.Inv)
    (hr : InRange (F := F) (1 / val g.mag)) :
    ∃ i, g.inv = some i ∧ val i.mag = rnd (F := F) (1 / val g.mag) ∧ i.angle.blade = g.angle.blade + 2 ∧
      val i.angle.rem = val g.angle.rem ∧ i.angle.Inv := by
  have hne : feq g.mag zero = false := by
    rw [Bool.eq_false_iff]; intro h
    rw [feq_spec hm fin_zero, val_zero] at h; exact h0 h
  refine ⟨⟨fdiv one g.mag, g.angle.negate⟩, ((inv_spec g).2 hne), ?_, ?_⟩
  · have := (fdiv_spec (fin_one (F := F)) hm h0 (by rw [val_one]; exact hr)).2
    rw [this, val_one]
  · have n := negate_spec ha
    exact ⟨n.1, n.2.2, inv_of_spec ha n.2⟩

/-- (S) scaling by a real: magnitude `rnd(m·|f|)`, a half turn (exactly two blades) added iff the factor is negative,
    none for a non-negative factor (including `±0`); remainder value untouched -/
theorem scale_spec {g : Geonum F} {f : F} (hm : Fin g.mag) (hf : Fin f) (ha : g.angle.Inv)
    (hr : InRange (F := F) (val g.mag * |val f|)) :
    val (g.scale f).mag = rnd (F := F) (val g.mag * |val f|) ∧
    (0 ≤ val f → (g.scale f).angle.blade = g.angle.blade) ∧
    (val f < 0 → (g.scale f).angle.blade = g.angle.blade + 2) ∧
    val (g.scale f).angle.rem = val g.angle.rem := by
  obtain ⟨hfa, hva⟩ := fabs_spec hf
  have hmag : val (g.scale f).mag = rnd (F := F) (val g.mag * |val f|) := by
    show val (fmul g.mag (fabs f)) = _
    rw [(fmul_spec hm hfa (by rw [hva]; exact hr)).2, hva]
  obtain ⟨hb0, hf0, _, hv0⟩ := new_zero_one (F := F)
  obtain ⟨hb1, hf1, _, hv1⟩ := new_one_one (F := F)
  simp only at hb0 hv0 hb1 hv1; rw [val_zero] at hv0 hv1
  by_cases hge : fge f (zero : F) = true
  · have hge' : 0 ≤ val f := by have := (fle_spec fin_zero hf).mp hge; rwa [val_zero] at this
    have hang : (g.scale f).angle = g.angle.geometricAdd (Angle.new zero one) := by
      show (g.angle.add (if fge f zero = true then _ else _)) = _
      rw [if_pos hge]; rfl
    have hw := add_whole ha hf0 hv0
    rw [hb0, Nat.add_zero] at hw
    rw [hang]
    exact ⟨hmag, fun _ => hw.1, fun h => by linarith, hw.2.2⟩
  · have hlt : val f < 0 := by
      by_contra hc; push Not at hc
      exact hge ((fle_spec fin_zero hf).mpr (by rwa [val_zero]))
    have hang : (g.scale f).angle = g.angle.geometricAdd (Angle.new one one) := by
      show (g.angle.add (if fge f zero = true then _ else _)) = _
      rw [if_neg hge]; rfl
    have hw := add_whole ha hf1 hv1
    rw [hb1] at hw
    rw [hang]
    exact ⟨hmag, fun h => by linarith, fun _ => hw.1, hw.2.2⟩

/-- (S/B) **the angle of a product in rounded arithmetic**: the float totals add, up to one snap and one rounding, and the magnitude is
    the one rounded product — so products are associative and commutative in their totals up to that slack, for every blade history -/
theorem mul_total_float {a b : Geonum F} (ha : a.angle.Inv) (hb : b.angle.Inv) :
    (a.mul b).mag = fmul a.mag b.mag ∧
    ∃ δ : ℝ, |δ| < val (e10 : F) + 1 / 10 ^ 15 ∧ Angle.Tq (a.mul b).angle = Angle.Tq a.angle + Angle.Tq b.angle + δ :=
  Geonum.mul_total_float ha hb

end S

/-! ### E-tier -/
section E
open GeonumModel.Exact

/-- (E) multiplication is associative: magnitudes exactly, totals of the angles to within two tolerances each way -/
theorem mul_assoc_real {a b c : Geonum ℝ} (ha : a.angle.Inv) (hb : b.angle.Inv) (hc : c.angle.Inv) :
    ((a.mul b).mul c).mag = (a.mul (b.mul c)).mag ∧
    |T ((a.mul b).mul c).angle - T (a.mul (b.mul c)).angle| < 4 * (1 / 10 ^ 10 + 1 / 10 ^ 15) := by
  refine ⟨mul_assoc a.mag b.mag c.mag, ?_⟩
  obtain ⟨δ1, h1, e1⟩ := add_total_real ha hb
  obtain ⟨δ2, h2, e2⟩ := add_total_real (geometricAdd_inv ha hb) hc
  obtain ⟨δ3, h3, e3⟩ := add_total_real hb hc
  obtain ⟨δ4, h4, e4⟩ := add_total_real ha (geometricAdd_inv hb hc)
  show |T ((a.angle.geometricAdd b.angle).geometricAdd c.angle) - T (a.angle.geometricAdd (b.angle.geometricAdd c.angle))| < _
  rw [e2, e1, e4, e3]
  rw [abs_lt] at *
  constructor <;> linarith [h1.1, h1.2, h2.1, h2.2, h3.1, h3.2, h4.1, h4.2]

/-- (E) the product multiplies magnitudes and adds totals: `T(ab) = T a + T b + δ` -/
theorem mul_total_real {a b : Geonum ℝ} (ha : a.angle.Inv) (hb : b.angle.Inv) :
    (a.mul b).mag = a.mag * b.mag ∧ ∃ δ : ℝ, |δ| < 1 / 10 ^ 10 + 1 / 10 ^ 15 ∧ T (a.mul b).angle = T a.angle + T b.angle + δ :=
  ⟨rfl, add_total_real ha hb⟩

end E

/-! PARTIAL: the rounding of `powf` (libm) is not bounded. -/

example {F : Type} [FloatSpec F] : (Geonum.new (one : F) zero one).angle.Inv :=
  Angle.Equiv.inv (Angle.Equiv.symm new_zero_one) (inv_zero 0)


/-! ### R — on the arithmetic that really rounds (`R64`: round-to-nearest on the binary64 grid, correctly rounded libm) -/
section R

/-- (R) totals of a product add, for all binary64 numbers with canonical angles -/
theorem mul_total_rounded {a b : Geonum R64} (ha : a.angle.Inv) (hb : b.angle.Inv) :
    (a.mul b).mag = fmul a.mag b.mag ∧
    ∃ δ : ℝ, |δ| < (e10 : R64).v + 1 / 10 ^ 15 ∧ Angle.Tq (a.mul b).angle = Angle.Tq a.angle + Angle.Tq b.angle + δ :=
  mul_total_float (F := R64) ha hb

end R

end GeonumModel.C05
