/-
  C14 — Addition keeps blade history by a fixed, symmetric policy.
-/
import GeonumModel.Lemmas.GeonumAdd
import GeonumModel.Spec.RealWitness
import GeonumModel.Lemmas.ExactAdd

set_option linter.unusedSectionVars false
set_option linter.unusedVariables false

namespace GeonumModel.C14
open GeonumModel FloatLike FloatSpec Angle Geonum

section G
variable {F : Type} [FloatLike F]

/-- (G) identical angles: the sum keeps that angle (the receiver's angle field itself) and adds the magnitudes -/
theorem same_angle_policy (a b : Geonum F) (h : sameAngle a b = true) :
    (a.add b).angle = a.angle ∧ (a.add b).mag = fadd a.mag b.mag := by
  rw [add_same a b h]; exact ⟨rfl, rfl⟩

/-- (G) exactly a half turn apart: cancellation within 1e-10 gives magnitude `0.0` at `new_with_blade(ba+bb, 0, 1)`;
    otherwise the larger summand's angle field is kept with the magnitude difference -/
theorem opposite_policy (a b : Geonum F) (h1 : sameAngle a b = false) (h2 : oppositeAngle a b = true) :
    (flt (fabs (fsub a.mag b.mag)) e10 = true →
        a.add b = ⟨zero, Angle.newWithBlade (a.angle.blade + b.angle.blade) zero one⟩) ∧
    (flt (fabs (fsub a.mag b.mag)) e10 = false → flt zero (fsub a.mag b.mag) = true →
        a.add b = ⟨fsub a.mag b.mag, a.angle⟩) ∧
    (flt (fabs (fsub a.mag b.mag)) e10 = false → flt zero (fsub a.mag b.mag) = false →
        a.add b = ⟨fneg (fsub a.mag b.mag), b.angle⟩) :=
  ⟨add_opposite_cancel a b h1 h2, add_opposite_first a b h1 h2, add_opposite_second a b h1 h2⟩
end G

section S
variable {F : Type} [FloatSpec F]

/-- (S) the cancellation result is literally magnitude `0.0`, remainder `0.0`, blade = the sum of both blade counts -/
theorem cancel_result (a b : Geonum F) (hk : a.angle.blade + b.angle.blade < 2 ^ 53)
    (h1 : sameAngle a b = false) (h2 : oppositeAngle a b = true) (h3 : flt (fabs (fsub a.mag b.mag)) e10 = true) :
    a.add b = ⟨zero, ⟨zero, a.angle.blade + b.angle.blade⟩⟩ := by
  rw [add_opposite_cancel a b h1 h2 h3, newWithBlade_zero _ hk]

/-- (S) the equality test is blade-exact, so the same-angle branch is only taken for equal blade counts, and the opposite
    branch only for blade counts exactly two apart (up to the carry of adding π) — the policy cannot silently merge histories -/
theorem same_angle_blades (a b : Geonum F) (h : sameAngle a b = true) : a.angle.blade = b.angle.blade := by
  unfold sameAngle Angle.beq at h
  by_contra hne
  simp [hne] at h

theorem opposite_blades {a b : Geonum F} (ha : a.angle.Inv) (hb : b.angle.Inv) (h2 : oppositeAngle a b = true) :
    b.angle.blade = a.angle.blade + 2 ∨ a.angle.blade = b.angle.blade + 2 := by
  unfold oppositeAngle at h2
  rw [Bool.or_eq_true] at h2
  have na := negate_spec ha; have nb := negate_spec hb
  unfold Angle.negate at na nb
  rcases h2 with h | h
  · left
    unfold Angle.beq at h
    by_contra hne
    have : (a.angle.add (Angle.new one one)).blade ≠ b.angle.blade := by rw [na.1]; omega
    simp [this] at h
  · right
    unfold Angle.beq at h
    by_contra hne
    have : (b.angle.add (Angle.new one one)).blade ≠ a.angle.blade := by rw [nb.1]; omega
    simp [this] at h

end S

/-! ### E-tier: the general regime in exact arithmetic -/
section E
open GeonumModel.Exact

/-- (E) in every case that is neither "identical angles" nor "a half turn apart", the sum's blade count is at least the sum of
    the operands' blade counts and at most one full turn above it — exactly one full turn only with remainder 0; so blade
    history is never lost.  (Exact arithmetic; the float code violates the upper bound for blade sums above ~1e5 because it
    forms `blade_sum·π/2` in f64 — known finding C14-large-blade-turn.) -/
theorem general_policy_real {a b : Geonum ℝ} (ha : a.angle.Inv) (hb : b.angle.Inv)
    (h1 : sameAngle a b = false) (h2 : oppositeAngle a b = false) (hcb : a.angle.blade + b.angle.blade ≤ 2 ^ 40) :
    a.angle.blade + b.angle.blade ≤ (a.add b).angle.blade ∧ (a.add b).angle.blade ≤ a.angle.blade + b.angle.blade + 4 ∧
    ((a.add b).angle.blade = a.angle.blade + b.angle.blade + 4 → (a.add b).angle.rem = 0) :=
  general_blade_real ha hb h1 h2 hcb

end E

/-! PARTIAL: equality of blades for a+b and b+a in the general branch of the FLOAT code (commutativity of the two float sums and
    evenness of cos) is not proved; explored by `oracle.C14.policy`. -/

example : sameAngle (⟨(1:ℝ), ⟨(0.5:ℝ), 3⟩⟩ : Geonum ℝ) ⟨2, ⟨0.5, 3⟩⟩ = true := by
  unfold sameAngle Angle.beq
  have : flt (fabs (fsub (0.5:ℝ) (0.5:ℝ))) (e15 : ℝ) = true := by
    show decide (|(0.5:ℝ) - 0.5| < (e15 : ℝ)) = true
    simp only [sub_self, abs_zero, decide_eq_true_eq]
    exact val_e15_pos (F := ℝ)
  simp [this]

end GeonumModel.C14
