/-
  C14 — Addition keeps blade history by a fixed, symmetric policy.
-/
import GeonumModel.Lemmas.GeonumAdd
import GeonumModel.Spec.RealWitness
import GeonumModel.Lemmas.ExactAdd
import GeonumModel.Lemmas.GradeAngle
import GeonumModel.Lemmas.FloatSumBlade
import GeonumModel.Spec.RoundWitness

set_option linter.unusedSectionVars false
set_option linter.unusedVariables false

namespace GeonumModel.C14
open GeonumModel FloatLike FloatSpec Angle Geonum

section G
variable {F : Type} [FloatLike F]

/-- (G) identical angles: the sum keeps that angle (the receiver's angle field itself) and adds the magnitudes -/
theorem same_angle_policy (a b : Geonum F) (h : sameAngle a b = true) :
    (a.add b).angle = a.angle ∧ (a.add b).mag = fadd a.mag b.mag := by
  rw [add_same a b h]; exact ⟨rfl, rfl⟩

/-- (G) exactly a half turn apart: cancellation within 1e-10 gives magnitude `0.0` at `new_with_blade(ba+bb, 0, 1)`;
    otherwise the larger summand's angle field is kept with the magnitude difference -/
theorem opposite_policy (a b : Geonum F) (h1 : sameAngle a b = false) (h2 : oppositeAngle a b = true) :
    (flt (fabs (fsub a.mag b.mag)) e10 = true →
        a.add b = ⟨zero, Angle.newWithBlade (a.angle.blade + b.angle.blade) zero one⟩) ∧
    (flt (fabs (fsub a.mag b.mag)) e10 = false → flt zero (fsub a.mag b.mag) = true →
        a.add b = ⟨fsub a.mag b.mag, a.angle⟩) ∧
    (flt (fabs (fsub a.mag b.mag)) e10 = false → flt zero (fsub a.mag b.mag) = false →
        a.add b = ⟨fneg (fsub a.mag b.mag), b.angle⟩) :=
  ⟨add_opposite_cancel a b h1 h2, add_opposite_first a b h1 h2, add_opposite_second a b h1 h2⟩
end G

section S
variable {F : Type} [FloatSpec F]

/-- (S) the cancellation result is literally magnitude `0.0`, remainder `0.0`, blade = the sum of both blade counts -/
theorem cancel_result (a b : Geonum F) (hk : a.angle.blade + b.angle.blade < 2 ^ 53)
    (h1 : sameAngle a b = false) (h2 : oppositeAngle a b = true) (h3 : flt (fabs (fsub a.mag b.mag)) e10 = true) :
    a.add b = ⟨zero, ⟨zero, a.angle.blade + b.angle.blade⟩⟩ := by
  rw [add_opposite_cancel a b h1 h2 h3, newWithBlade_zero _ hk]

/-- (S) the equality test is blade-exact, so the same-angle branch is only taken for equal blade counts, and the opposite
    branch only for blade counts exactly two apart (up to the carry of adding π) — the policy cannot silently merge histories -/
theorem same_angle_blades (a b : Geonum F) (h : sameAngle a b = true) : a.angle.blade = b.angle.blade := by
  unfold sameAngle Angle.beq at h
  by_contra hne
  simp [hne] at h

theorem opposite_blades {a b : Geonum F} (ha : a.angle.Inv) (hb : b.angle.Inv) (h2 : oppositeAngle a b = true) :
    b.angle.blade = a.angle.blade + 2 ∨ a.angle.blade = b.angle.blade + 2 := by
  unfold oppositeAngle at h2
  rw [Bool.or_eq_true] at h2
  have na := negate_spec ha; have nb := negate_spec hb
  unfold Angle.negate at na nb
  rcases h2 with h | h
  · left
    unfold Angle.beq at h
    by_contra hne
    have : (a.angle.add (Angle.new one one)).blade ≠ b.angle.blade := by rw [na.1]; omega
    simp [this] at h
  · right
    unfold Angle.beq at h
    by_contra hne
    have : (b.angle.add (Angle.new one one)).blade ≠ a.angle.blade := by rw [nb.1]; omega
    simp [this] at h

/-- the library's angle equality is symmetric (needs symmetric rounding: `rnd (−x) = −rnd x`) -/
theorem beq_symm {x y : Angle F} (hx : Fin x.rem) (hy : Fin y.rem)
    (hr : InRange (F := F) (val x.rem - val y.rem)) : x.beq y = y.beq x := by
  have hr' : InRange (F := F) (val y.rem - val x.rem) :=
    inRange_mono (by rw [← abs_neg]; ring_nf; exact le_refl _) hr
  obtain ⟨hf1, hv1⟩ := fsub_spec hx hy hr
  obtain ⟨hf2, hv2⟩ := fsub_spec hy hx hr'
  obtain ⟨hfa1, hva1⟩ := fabs_spec hf1
  obtain ⟨hfa2, hva2⟩ := fabs_spec hf2
  have hval : val (fabs (fsub x.rem y.rem)) = val (fabs (fsub y.rem x.rem)) := by
    rw [hva1, hva2, hv1, hv2, show val y.rem - val x.rem = -(val x.rem - val y.rem) by ring, rnd_neg, abs_neg]
  have ht : flt (fabs (fsub x.rem y.rem)) (e15 : F) = flt (fabs (fsub y.rem x.rem)) (e15 : F) := by
    rw [Bool.eq_iff_iff, flt_spec hfa1 fin_e15, flt_spec hfa2 fin_e15, hval]
  have he : feq x.rem y.rem = feq y.rem x.rem := by
    rw [Bool.eq_iff_iff, feq_spec hx hy, feq_spec hy hx]; exact eq_comm
  unfold Angle.beq
  by_cases hb : x.blade = y.blade
  · simp [hb, ht, he]
  · have hb' : y.blade ≠ x.blade := fun h => hb h.symm
    simp [hb, hb']

/-- (S) **the branch taken by `a + b` and by `b + a` is the same**: both special-case tests are symmetric -/
theorem branch_symmetric {a b : Geonum F} (ha : a.angle.Inv) (hb : b.angle.Inv) :
    sameAngle a b = sameAngle b a ∧ oppositeAngle a b = oppositeAngle b a := by
  have hq := val_qp_lt (F := F); have he := val_e10_pos (F := F)
  refine ⟨beq_symm ha.1 hb.1 (inRange_of_abs_le_1000 (by
    rw [abs_le]; constructor <;> linarith [ha.2.1, ha.2.2, hb.2.1, hb.2.2])), ?_⟩
  unfold oppositeAngle; rw [Bool.or_comm]

/-- (S) hence in the same-angle and opposite regimes `a + b` and `b + a` carry the same blade count -/
theorem special_branches_blade_symmetric {a b : Geonum F} (ha : a.angle.Inv) (hb : b.angle.Inv)
    (hma : Fin a.mag) (hmb : Fin b.mag) (hr : InRange (F := F) (val a.mag - val b.mag))
    (hspecial : sameAngle a b = true ∨ oppositeAngle a b = true) :
    (a.add b).angle.blade = (b.add a).angle.blade := by
  obtain ⟨hs, ho⟩ := branch_symmetric ha hb
  by_cases h1 : sameAngle a b = true
  · rw [add_same a b h1, add_same b a (by rw [← hs]; exact h1)]
    exact same_angle_blades a b h1
  · have h1' : sameAngle a b = false := by simpa using h1
    have h2 : oppositeAngle a b = true := by rcases hspecial with h | h; exact absurd h h1; exact h
    have h1b : sameAngle b a = false := by rw [← hs]; exact h1'
    have h2b : oppositeAngle b a = true := by rw [← ho]; exact h2
    -- magnitude difference and its mirror image
    have hr' : InRange (F := F) (val b.mag - val a.mag) :=
      inRange_mono (by rw [← abs_neg]; ring_nf; exact le_refl _) hr
    obtain ⟨hf1, hv1⟩ := fsub_spec hma hmb hr
    obtain ⟨hf2, hv2⟩ := fsub_spec hmb hma hr'
    have hneg : val (fsub b.mag a.mag) = -val (fsub a.mag b.mag) := by
      rw [hv1, hv2, show val b.mag - val a.mag = -(val a.mag - val b.mag) by ring, rnd_neg]
    obtain ⟨hfa1, hva1⟩ := fabs_spec hf1
    obtain ⟨hfa2, hva2⟩ := fabs_spec hf2
    have ht : flt (fabs (fsub a.mag b.mag)) (e10 : F) = flt (fabs (fsub b.mag a.mag)) (e10 : F) := by
      rw [Bool.eq_iff_iff, flt_spec hfa1 fin_e10, flt_spec hfa2 fin_e10, hva1, hva2, hneg, abs_neg]
    by_cases h3 : flt (fabs (fsub a.mag b.mag)) (e10 : F) = true
    · rw [add_opposite_cancel a b h1' h2 h3, add_opposite_cancel b a h1b h2b (by rw [← ht]; exact h3), Nat.add_comm]
    · have h3' : flt (fabs (fsub a.mag b.mag)) (e10 : F) = false := by simpa using h3
      have h3b : flt (fabs (fsub b.mag a.mag)) (e10 : F) = false := by rw [← ht]; exact h3'
      -- not cancelling: the difference is non-zero, so exactly one order sees it positive
      have hnz : val (fsub a.mag b.mag) ≠ 0 := by
        intro hz
        have : flt (fabs (fsub a.mag b.mag)) (e10 : F) = true := by
          rw [flt_spec hfa1 fin_e10, hva1, hz, abs_zero]; exact val_e10_pos
        rw [this] at h3'; cases h3'
      by_cases h4 : flt (zero : F) (fsub a.mag b.mag) = true
      · have hpos : 0 < val (fsub a.mag b.mag) := by
          have := (flt_spec fin_zero hf1).mp h4; rwa [val_zero] at this
        have h4b : flt (zero : F) (fsub b.mag a.mag) = false := by
          rw [Bool.eq_false_iff]; intro hc
          have := (flt_spec fin_zero hf2).mp hc; rw [val_zero, hneg] at this; linarith
        rw [add_opposite_first a b h1' h2 h3' h4, add_opposite_second b a h1b h2b h3b h4b]
      · have h4' : flt (zero : F) (fsub a.mag b.mag) = false := by simpa using h4
        have hnpos : ¬ 0 < val (fsub a.mag b.mag) := by
          intro hc; exact h4 ((flt_spec fin_zero hf1).mpr (by rwa [val_zero]))
        have hlt : val (fsub a.mag b.mag) < 0 := lt_of_le_of_ne (not_lt.mp hnpos) hnz
        have h4b : flt (zero : F) (fsub b.mag a.mag) = true := by
          rw [flt_spec fin_zero hf2, val_zero, hneg]; linarith
        rw [add_opposite_second a b h1' h2 h3' h4', add_opposite_first b a h1b h2b h3b h4b]

/-- (S) in the general branch the two orders produce the *identical* angle structure (bit-identical on binary64): the projections
    sums are the same float sums by commutativity of `+`, and the blade sum commutes -/
theorem general_branch_angle_symmetric {a b : Geonum F} (ha : a.angle.Inv) (hb : b.angle.Inv)
    (hma : Fin a.mag) (hmb : Fin b.mag)
    (h1 : sameAngle a b = false) (h2 : oppositeAngle a b = false) :
    (a.add b).angle = (b.add a).angle := by
  obtain ⟨hs, ho⟩ := branch_symmetric ha hb
  rw [add_general a b h1 h2, add_general b a (by rw [← hs]; exact h1) (by rw [← ho]; exact h2)]
  have hga := gradeAngle_fin ha; have hgb := gradeAngle_fin hb
  obtain ⟨hfsa, _, _⟩ := sin_spec hga
  obtain ⟨hfsb, _, _⟩ := sin_spec hgb
  obtain ⟨hfca, _, _⟩ := cos_spec hga
  obtain ⟨hfcb, _, _⟩ := cos_spec hgb
  have prodfin : ∀ {m c : F}, Fin m → Fin c → |val c| ≤ 1 → Fin (fmul m c) := by
    intro m c hm hc hc1
    exact (fmul_spec hm hc (inRange_mono (by
      rw [abs_mul]
      calc |val m| * |val c| ≤ |val m| * 1 := mul_le_mul_of_nonneg_left hc1 (abs_nonneg _)
        _ = |val m| := mul_one _) (inRange_val hm))).1
  have ho1 : oppSum a b = oppSum b a := by
    unfold oppSum
    exact fadd_comm (prodfin hma hfsa (sin_spec hga).2.1) (prodfin hmb hfsb (sin_spec hgb).2.1)
  have ha1 : adjSum a b = adjSum b a := by
    unfold adjSum
    exact fadd_comm (prodfin hma hfca (cos_spec hga).2.1) (prodfin hmb hfcb (cos_spec hgb).2.1)
  show Angle.newWithBlade _ _ _ = Angle.newWithBlade _ _ _
  rw [ho1, ha1, Nat.add_comm a.angle.blade b.angle.blade]

end S

/-! ### E-tier: the general regime in exact arithmetic -/
section E
open GeonumModel.Exact

/-- (E) in every case that is neither "identical angles" nor "a half turn apart", the sum's blade count is at least the sum of
    the operands' blade counts and at most one full turn above it — exactly one full turn only with remainder 0; so blade
    history is never lost.  (Exact arithmetic; the float code violates the upper bound for blade sums above ~1e5 because it
    forms `blade_sum·π/2` in f64 — known finding C14-large-blade-turn.) -/
theorem general_policy_real {a b : Geonum ℝ} (ha : a.angle.Inv) (hb : b.angle.Inv)
    (h1 : sameAngle a b = false) (h2 : oppositeAngle a b = false) (hcb : a.angle.blade + b.angle.blade ≤ 2 ^ 40) :
    a.angle.blade + b.angle.blade ≤ (a.add b).angle.blade ∧ (a.add b).angle.blade ≤ a.angle.blade + b.angle.blade + 4 ∧
    ((a.add b).angle.blade = a.angle.blade + b.angle.blade + 4 → (a.add b).angle.rem = 0) :=
  general_blade_real ha hb h1 h2 hcb

end E

section B
variable {F : Type} [FloatSpec F]

/-- (B) **the general regime in rounded arithmetic**: for canonical operands with magnitudes in the C01 domain and combined blade
    count `cb ≤ 2^39`, in every case that is neither "identical angles" nor "a half turn apart", `cb ≤ blade(a+b) ≤ cb + 4` —
    history is never lost and at most one full turn is gained — and the full turn is reached only with a remainder of at most
    `1e-10 + (48·cb + 200)·2⁻⁵³`.  For small `cb` that is the snap width (the property's "only with remainder 0" up to the
    library's own tolerance); the bound grows with `cb`, which is exactly known finding `C14-large-blade-turn` (for blade sums
    around 1e5 and above the f64 product `cb·π/2` carries an error that can exceed the snap, and the code then lands a full turn up
    with a visible remainder).  True of both witnesses of the contract, in particular of the rounding arithmetic `R64`. -/
theorem general_blade_float {a b : Geonum F} (ha : a.angle.Inv) (hb : b.angle.Inv) (hma : a.MagDom) (hmb : b.MagDom)
    (hcb : a.angle.blade + b.angle.blade ≤ 2 ^ 39) (h1 : sameAngle a b = false) (h2 : oppositeAngle a b = false) :
    a.angle.blade + b.angle.blade ≤ (a.add b).angle.blade ∧
    (a.add b).angle.blade ≤ a.angle.blade + b.angle.blade + 4 ∧
    ((a.add b).angle.blade = a.angle.blade + b.angle.blade + 4 →
      val (a.add b).angle.rem ≤ val (e10 : F) + (48 * ((a.angle.blade + b.angle.blade : ℕ) : ℝ) + 200) * (1 / 2 ^ 53) + 1 / 10 ^ 298) :=
  add_general_blade_float ha hb hma hmb hcb h1 h2

end B

/-! (the symmetry clause — blade history identical for a+b and b+a — is now proved in every branch: `special_branches_blade_symmetric`,
    `general_branch_angle_symmetric`) -/

example : sameAngle (⟨(1:ℝ), ⟨(0.5:ℝ), 3⟩⟩ : Geonum ℝ) ⟨2, ⟨0.5, 3⟩⟩ = true := by
  unfold sameAngle Angle.beq
  have : flt (fabs (fsub (0.5:ℝ) (0.5:ℝ))) (e15 : ℝ) = true := by
    show decide (|(0.5:ℝ) - 0.5| < (e15 : ℝ)) = true
    simp only [sub_self, abs_zero, decide_eq_true_eq]
    exact val_e15_pos (F := ℝ)
  simp [this]


/-! ### R — on the arithmetic that really rounds (`R64`: round-to-nearest on the binary64 grid, correctly rounded libm); no hypothesis
    about the arithmetic is left -/
section R

/-- (R) the general regime of the blade-history policy for all pairs of binary64 numbers in the domain -/
theorem general_blade_rounded {a b : Geonum R64} (ha : a.angle.Inv) (hb : b.angle.Inv) (hma : a.MagDom) (hmb : b.MagDom)
    (hcb : a.angle.blade + b.angle.blade ≤ 2 ^ 39) (h1 : sameAngle a b = false) (h2 : oppositeAngle a b = false) :
    a.angle.blade + b.angle.blade ≤ (a.add b).angle.blade ∧
    (a.add b).angle.blade ≤ a.angle.blade + b.angle.blade + 4 ∧
    ((a.add b).angle.blade = a.angle.blade + b.angle.blade + 4 →
      (a.add b).angle.rem.v ≤ (e10 : R64).v + (48 * ((a.angle.blade + b.angle.blade : ℕ) : ℝ) + 200) * (1 / 2 ^ 53) + 1 / 10 ^ 298) :=
  general_blade_float (F := R64) ha hb hma hmb hcb h1 h2

end R

end GeonumModel.C14
