/-
  C20 — Optional features are independent and do not alter core behaviour.

  The feature model `GeonumModel.Generated.Features` is REGENERATED from /repo's Cargo.toml, src/lib.rs and src/traits/*.rs on
  every run by tools/featmodel.py; the theorems below are then re-decided by the kernel (`decide`, not `native_decide`)
  for the code as it is now, over all 64 subsets of the six flags.  rustc's name resolution is abstracted as the closure
  relation stated here; the 65 real builds are the ground truth for it and are run by the same check.
-/
import GeonumModel.Generated.Features

namespace GeonumModel.C20
open GeonumModel.Features

/-- every `pub use traits::X` of lib.rs that is compiled in a configuration names an item that traits/mod.rs exports in that
    same configuration -/
theorem root_exports_closed :
    ∀ S : Fin 64, ∀ e ∈ rootExports, e.2.eval S.val = true →
      ∃ t ∈ traitExports, t.1 = e.1 ∧ t.2.2.eval S.val = true := by decide

/-- every `pub use m::X` of traits/mod.rs that is compiled names a module that is compiled -/
theorem trait_exports_closed :
    ∀ S : Fin 64, ∀ t ∈ traitExports, t.2.2.eval S.val = true →
      ∃ m ∈ modules, m.1 = t.2.1 ∧ m.2.eval S.val = true := by decide

/-- references between trait modules, and from a trait module to trait items through the crate root, stay inside what is compiled -/
theorem cross_refs_closed :
    (∀ S : Fin 64, ∀ r ∈ crossRefs, (∃ m ∈ modules, m.1 = r.1 ∧ m.2.eval S.val = true) →
        ∃ m ∈ modules, m.1 = r.2 ∧ m.2.eval S.val = true) ∧
    (∀ S : Fin 64, ∀ r ∈ rootRefs, (∃ m ∈ modules, m.1 = r.1 ∧ m.2.eval S.val = true) →
        ∃ e ∈ rootExports, e.1 = r.2 ∧ e.2.eval S.val = true) := by decide

/-- enabling a feature makes its helpers usable: a module gated by exactly that feature exists, is compiled, is exported, and every
    feature gate inside that module's file is on -/
theorem helpers_usable :
    ∀ S : Fin 64, ∀ i : Fin 6, on S.val i.val = true →
      ∃ m ∈ modules, m.2 = Gate.feat i.val ∧
        (∃ t ∈ traitExports, t.2.1 = m.1 ∧ t.2.2.eval S.val = true) ∧
        (∀ g ∈ innerGates, g.1 = m.1 → g.2.eval S.val = true) := by decide

/-- a trait module is compiled exactly when its own flag is on — whichever other flags are on (independence) -/
theorem modules_independent :
    ∀ m ∈ modules, ∃ i : Fin 6, ∀ S : Fin 64, m.2.eval S.val = on S.val i.val := by decide

/-- no helper's behaviour depends on another feature at run time: every `cfg!(feature = …)` expression inside a trait module's file
    tests that module's own feature -/
theorem no_cross_feature_behaviour :
    ∀ g ∈ macroGates, ∃ m ∈ modules, m.1 = g.1 ∧ m.2 = Gate.feat g.2 := by decide

/-- the default configuration enables none of the six; `all` is exactly the six; there are six flags; and no feature gate
    appears in angle.rs / geonum_mod.rs / geocollection.rs or on a core item of lib.rs — so the core model takes no
    configuration parameter -/
theorem defaults_and_core :
    defaultFeatures = [] ∧ allAlias = [0, 1, 2, 3, 4, 5] ∧ nFeatures = 6 ∧ coreFeatureGates = 0 := by decide

/-! non-vacuity: the tables are not empty -/
example : modules.length = 6 ∧ rootExports ≠ [] ∧ traitExports ≠ [] := by decide

end GeonumModel.C20
