/-
  C19 — Domain helpers obey their physical scaling and invariance laws.
-/
import GeonumModel.Lemmas.GradeAngle
import GeonumModel.Lemmas.Exact
import GeonumModel.Lemmas.ExactAdd
import GeonumModel.Props.C01

set_option linter.unusedSectionVars false
set_option linter.unusedVariables false

namespace GeonumModel.C19
open GeonumModel FloatLike FloatSpec Angle

section G
variable {F : Type} [FloatLike F]

/-- (G) activations never change the angle (the angle field is returned as is); refraction and propagation return the
    magnitude field as is; dispersion has magnitude `1.0` -/
theorem untouched_fields (g n t x v k w : Geonum F) (act : ML.Activation) :
    (ML.activate g act).angle = g.angle ∧ (Optics.refract g n).mag = g.mag ∧
    (Waves.propagate g t x v).mag = g.mag ∧ (Waves.disperse x t k w).mag = one := by
  refine ⟨?_, rfl, rfl, rfl⟩
  cases act <;> rfl

/-- (G) ReLU passes the magnitude exactly when the computed `cos t` tests positive, and otherwise returns `0.0` -/
theorem relu_law (g : Geonum F) :
    (flt zero (FloatLike.cos g.angle.gradeAngle) = true → (ML.activate g .relu).mag = g.mag) ∧
    (flt zero (FloatLike.cos g.angle.gradeAngle) = false → (ML.activate g .relu).mag = zero) := by
  constructor <;> intro h <;> simp [ML.activate, h]

/-- (G) a negative charge (cosine of the charge angle tests negative) turns the field by a half turn, nothing else -/
theorem field_sign (q q' r pw k : Geonum F) (ang : Angle F) (hm : q.mag = q'.mag)
    (hq : fge (FloatLike.cos q.angle.gradeAngle) zero = true) (hq' : fge (FloatLike.cos q'.angle.gradeAngle) zero = false) :
    (EM.inverseField q r pw ang k).mag = (EM.inverseField q' r pw ang k).mag ∧
    (EM.inverseField q r pw ang k).angle = ang ∧
    (EM.inverseField q' r pw ang k).angle = ang.geometricAdd (Angle.new one one) := by
  simp [EM.inverseField, Geonum.newWithAngle, hq, hq', hm, Angle.add, Angle.addVV]
end G

section S
variable {F : Type} [FloatSpec F]

theorem tiny_1075' : (1 : ℝ) / 2 ^ 1075 ≤ 1 / 10 ^ 300 := by
  apply one_div_le_one_div_of_le (by positivity)
  calc (10:ℝ) ^ 300 = (10 ^ 3) ^ 100 := by rw [← pow_mul]
    _ ≤ (2 ^ 10) ^ 100 := by gcongr; norm_num
    _ = 2 ^ 1000 := by rw [← pow_mul]
    _ ≤ 2 ^ 1075 := pow_le_pow_right₀ (by norm_num) (by norm_num)

/-- (S) sigmoid: the output lies strictly between 0 and a non-zero in-domain input magnitude -/
theorem sigmoid_bounds {g : Geonum F} (hm : Fin g.mag) (hpos : 1 / 10 ^ 100 ≤ val g.mag) (hle : val g.mag ≤ 10 ^ 100)
    (ha : g.angle.Inv) :
    0 < val (ML.activate g .sigmoid).mag ∧ val (ML.activate g .sigmoid).mag < val g.mag := by
  have hg := gradeAngle_fin ha
  obtain ⟨hfc, hc1, _⟩ := cos_spec hg
  obtain ⟨hfn, hvn⟩ := fneg_spec hfc
  have hn1 : |val (fneg (FloatLike.cos g.angle.gradeAngle))| ≤ 1 := by rw [hvn, abs_neg]; exact hc1
  obtain ⟨hfe, he0, _, _, hb⟩ := exp_spec hfn (by linarith)
  obtain ⟨helo, hehi⟩ := hb hn1
  obtain ⟨e, he⟩ : ∃ e, e = val (FloatLike.exp (fneg (FloatLike.cos g.angle.gradeAngle))) := ⟨_, rfl⟩
  rw [← he] at helo hehi he0
  -- denominator d = rnd(1 + e) ∈ [4/3 − tiny, 4]
  obtain ⟨hfd, hvd⟩ := fadd_spec (fin_one (F := F)) hfe (by
    rw [val_one, ← he]; apply inRange_of_abs_le_1000; rw [abs_of_nonneg (by linarith)]; linarith)
  rw [val_one, ← he] at hvd
  have r4 : rnd (F := F) 4 = 4 := by have := rnd_nat (F := F) (n := 4) (by norm_num); simpa using this
  have r1 : rnd (F := F) 1 = 1 := by have := rnd_nat (F := F) (n := 1) (by norm_num); simpa using this
  obtain ⟨d, hd⟩ : ∃ d, d = val (fadd (one : F) (FloatLike.exp (fneg (FloatLike.cos g.angle.gradeAngle)))) := ⟨_, rfl⟩
  rw [← hd] at hvd
  have hd4 : d ≤ 4 := by rw [hvd, ← r4]; exact rnd_mono (by linarith)
  have hd1 : (13:ℝ) / 10 ≤ d := by
    rw [hvd]
    have hc := rnd_close_bound (F := F) (x := 1 + e) (B := 4) (by linarith) (by linarith)
    rw [abs_le] at hc
    have hnum : (4:ℝ) / 3 - (4 / 2 ^ 53 + 1 / 10 ^ 30) ≥ 13 / 10 := by norm_num
    linarith [hc.1]
  have hdpos : 0 < d := by linarith
  have hmpos : 0 < val g.mag := lt_of_lt_of_le (by positivity) hpos
  -- quotient
  have hq0 : 0 < val g.mag / d := div_pos hmpos hdpos
  have hq1 : val g.mag / d ≤ val g.mag / (13 / 10) := div_le_div_of_nonneg_left (le_of_lt hmpos) (by norm_num) hd1
  have hq2 : val g.mag / 4 ≤ val g.mag / d := div_le_div_of_nonneg_left (le_of_lt hmpos) hdpos hd4
  obtain ⟨hfo, hvo⟩ := fdiv_spec hm hfd (by rw [← hd]; linarith) (inRange_mono (y := val g.mag) (by
    rw [← hd]
    rw [abs_of_pos hq0, abs_of_pos hmpos]
    calc val g.mag / d ≤ val g.mag / (13 / 10) := hq1
      _ ≤ val g.mag := by rw [div_le_iff₀ (by norm_num)]; nlinarith) (inRange_val hm))
  rw [← hd] at hvo
  have hout : val (ML.activate g .sigmoid).mag = rnd (F := F) (val g.mag / d) := hvo
  rw [hout]
  have herr := rnd_err (F := F) (val g.mag / d)
  rw [abs_of_pos hq0, abs_le] at herr
  have ht := tiny_1075'
  have h53 : val g.mag / d / 2 ^ 53 ≤ val g.mag / d / 2 ^ 53 := le_refl _
  have hsmall : (1:ℝ) / 10 ^ 300 ≤ (1 / 10 ^ 100) / 10 ^ 100 := by
    rw [div_div, ← pow_add]
    apply one_div_le_one_div_of_le (by positivity)
    exact pow_le_pow_right₀ (by norm_num) (by norm_num)
  have hm100 : (1:ℝ) / 10 ^ 100 / 10 ^ 100 ≤ val g.mag / 10 ^ 100 := div_le_div_of_nonneg_right hpos (by positivity)
  have h100 : (16:ℝ) ≤ 10 ^ 100 := by
    calc (16:ℝ) ≤ 10 ^ 2 := by norm_num
      _ ≤ 10 ^ 100 := pow_le_pow_right₀ (by norm_num) (by norm_num)
  have hm16 : val g.mag / 10 ^ 100 ≤ val g.mag / 16 := div_le_div_of_nonneg_left (le_of_lt hmpos) (by norm_num) h100
  have hqq : val g.mag / d / 2 ^ 53 ≤ val g.mag / d / 16 := by
    apply div_le_div_of_nonneg_left (le_of_lt hq0) (by norm_num); norm_num
  constructor
  · -- rnd q ≥ q − q/2^53 − tiny > 0  since  q ≥ m/4 and tiny ≤ m/16
    have : val g.mag / d / 16 ≤ val g.mag / d / 16 := le_refl _
    nlinarith [herr.1]
  · -- rnd q ≤ q + q/2^53 + tiny < m  since  q ≤ m/1.3
    have hq13 : val g.mag / (13 / 10) = val g.mag * (10 / 13) := by field_simp
    have : val g.mag / d / 16 ≤ val g.mag / (13 / 10) / 16 := div_le_div_of_nonneg_right hq1 (by norm_num)
    nlinarith [herr.2]

/-- (S) tanh activation: the output magnitude never exceeds the input magnitude in absolute value -/
theorem tanh_bound {g : Geonum F} (hm : Fin g.mag) (h0 : 0 ≤ val g.mag) (ha : g.angle.Inv) :
    |val (ML.activate g .tanh).mag| ≤ val g.mag := by
  have hg := gradeAngle_fin ha
  obtain ⟨hfc, _, _⟩ := cos_spec hg
  obtain ⟨hft, ht1⟩ := tanh_spec hfc
  have hp : |val g.mag * val (FloatLike.tanh (FloatLike.cos g.angle.gradeAngle))| ≤ val g.mag := by
    rw [abs_mul, abs_of_nonneg h0]
    calc val g.mag * |val (FloatLike.tanh (FloatLike.cos g.angle.gradeAngle))| ≤ val g.mag * 1 :=
          mul_le_mul_of_nonneg_left ht1 h0
      _ = val g.mag := mul_one _
  obtain ⟨hfo, hvo⟩ := fmul_spec hm hft (inRange_mono (by rw [abs_of_nonneg h0]; exact hp) (inRange_val hm))
  have : val (ML.activate g .tanh).mag = rnd (F := F) (val g.mag * val (FloatLike.tanh (FloatLike.cos g.angle.gradeAngle))) := hvo
  rw [this]
  rw [abs_le] at hp ⊢
  have h1 := rnd_mono (F := F) hp.2
  have h2 := rnd_mono (F := F) hp.1
  rw [rnd_val hm] at h1
  rw [rnd_rep (rep_neg (rep_val hm))] at h2
  exact ⟨h2, h1⟩

end S

/-! ### E-tier: the physical laws in exact arithmetic -/
section E
open GeonumModel.Exact

/-- (E) **Snell's law**: whenever `|sin t_in| ≤ n`, the refracted direction satisfies `n·sin(t_out) = sin(t_in)` to within
    `n·1e-10` (the slack is the boundary snap of re-encoding the refracted angle) -/
theorem snell_real {g n : Geonum ℝ} (hn : 0 < n.mag) (hdom : |Real.sin (T g.angle)| ≤ n.mag) :
    |n.mag * Real.sin (T (Optics.refract g n).angle) - Real.sin (T g.angle)| ≤ n.mag * (1 / 10 ^ 10) := by
  have hpi := Real.pi_pos
  set q : ℝ := Real.sin (T g.angle) / n.mag with hq
  have hq1 : |q| ≤ 1 := by rw [hq, abs_div, abs_of_pos hn, div_le_one hn]; exact hdom
  set r : ℝ := Real.arcsin q with hr
  have hsin : Real.sin r = q := Real.sin_arcsin (by rw [abs_le] at hq1; exact hq1.1) (by rw [abs_le] at hq1; exact hq1.2)
  have hdef : (Optics.refract g n).angle = Angle.new r Real.pi := by
    show Angle.new (FloatLike.asin (fdiv (FloatLike.sin g.angle.gradeAngle) n.mag)) (FloatLike.pi : ℝ) = _
    have : FloatLike.sin g.angle.gradeAngle = Real.sin (T g.angle) := sin_gradeAngle g.angle
    rw [this]; rfl
  have hrabs : |r| ≤ Real.pi / 2 := by
    rw [abs_le]; exact ⟨Real.neg_pi_div_two_le_arcsin q, Real.arcsin_le_pi_div_two q⟩
  have hqq : r * Real.pi / Real.pi = r := by field_simp
  have hb : |r * Real.pi / Real.pi| ≤ 2 ^ 42 := by
    rw [hqq]; have := Real.pi_lt_four; have : Real.pi / 2 ≤ 2 ^ 42 := by norm_num; linarith
    linarith
  obtain ⟨_, δ, m, hδ, hT⟩ := new_total_real (p := r) (d := Real.pi) hb
  rw [hqq] at hT
  rw [hdef, hT, Real.sin_add_int_mul_two_pi]
  have hl := sin_lipschitz r δ
  have e : n.mag * Real.sin (r + δ) - Real.sin (T g.angle) = n.mag * (Real.sin (r + δ) - Real.sin r) := by
    rw [hsin, hq]; field_simp
  rw [e, abs_mul, abs_of_pos hn]
  exact mul_le_mul_of_nonneg_left (le_trans hl (le_of_lt hδ)) (le_of_lt hn)

/-- (E) magnification scales the intensity by `1/m²`: scaling the magnification by `s` divides the result's magnitude by `s²` -/
theorem magnify_inverse_square (g m : Geonum ℝ) (s : ℝ) (hs : s ≠ 0) (hm : m.mag ≠ 0) :
    (Optics.magnify g ⟨s * m.mag, m.angle⟩).mag * s ^ 2 = (Optics.magnify g m).mag := by
  show g.mag * ((one : ℝ) / ((s * m.mag) * (s * m.mag))) * s ^ 2 = g.mag * ((one : ℝ) / (m.mag * m.mag))
  rw [lit_real.2.1]; field_simp

/-- (E) the wire field falls as `1/r`, and the inverse-power field is proportional to the charge -/
theorem wire_and_charge_scaling (r cur perm q dist pw k : Geonum ℝ) (ang : Angle ℝ) (s : ℝ) (hs : s ≠ 0) (hr : r.mag ≠ 0) :
    (EM.wireMagneticField ⟨s * r.mag, r.angle⟩ cur perm).mag * s = (EM.wireMagneticField r cur perm).mag ∧
    (EM.inverseField ⟨s * q.mag, q.angle⟩ dist pw ang k).mag = s * (EM.inverseField q dist pw ang k).mag := by
  have hpi : Real.pi ≠ 0 := Real.pi_ne_zero
  constructor
  · show perm.mag * cur.mag / ((two : ℝ) * (FloatLike.pi : ℝ) * (s * r.mag)) * s = perm.mag * cur.mag / ((two : ℝ) * (FloatLike.pi : ℝ) * r.mag)
    rw [lit_real.2.2.1, pi_real]; field_simp
  · show k.mag * (s * q.mag) / FloatLike.powf dist.mag pw.mag = s * (k.mag * q.mag / FloatLike.powf dist.mag pw.mag)
    ring

/-- (E) the inverse-power field scales as `1/rⁿ` in the distance (for positive distances and scale factors) -/
theorem inverse_field_distance_scaling (q dist pw k : Geonum ℝ) (ang : Angle ℝ) (s : ℝ) (hs : 0 < s) (hd : 0 < dist.mag) :
    (EM.inverseField q ⟨s * dist.mag, dist.angle⟩ pw ang k).mag * s ^ pw.mag = (EM.inverseField q dist pw ang k).mag := by
  show k.mag * q.mag / (s * dist.mag) ^ pw.mag * s ^ pw.mag = k.mag * q.mag / dist.mag ^ pw.mag
  rw [Real.mul_rpow (le_of_lt hs) (le_of_lt hd)]
  have h1 : s ^ pw.mag ≠ 0 := ne_of_gt (Real.rpow_pos_of_pos hs _)
  have h2 : dist.mag ^ pw.mag ≠ 0 := ne_of_gt (Real.rpow_pos_of_pos hd _)
  field_simp

/-- planar cross product of two points -/
def cross (z w : ℂ) : ℝ := z.re * w.im - z.im * w.re

theorem cross_polar (r q s t : ℝ) : cross (polar r s) (polar q t) = r * q * Real.sin (t - s) := by
  simp only [cross, polar]; rw [Real.sin_sub]; ring

theorem abs_cross_le (z w : ℂ) : |cross z w| ≤ ‖z‖ * ‖w‖ := by
  have h : (cross z w) ^ 2 ≤ (‖z‖ * ‖w‖) ^ 2 := by
    rw [mul_pow, Complex.sq_norm, Complex.sq_norm, Complex.normSq_apply, Complex.normSq_apply]
    unfold cross
    nlinarith [sq_nonneg (z.re * w.re + z.im * w.im)]
  rw [abs_le]
  exact abs_le_of_sq_le_sq' h (by positivity)

theorem cross_sub_le (x y x' y' : ℂ) : |cross x y - cross x' y'| ≤ ‖x - x'‖ * ‖y‖ + ‖x'‖ * ‖y - y'‖ := by
  have e : cross x y - cross x' y' = cross (x - x') y + cross x' (y - y') := by
    simp only [cross, Complex.sub_re, Complex.sub_im]; ring
  rw [e]
  exact le_trans (abs_add_le _ _) (add_le_add (abs_cross_le _ _) (abs_cross_le _ _))

/-- (E) **the wedge magnitude of two edges is the planar cross product of the Cartesian edge vectors**, to within
    `|e₁||e₂|·(1e-10+1e-15)` plus the placement error of the edges themselves — so the quadrilateral area helper is, up to that
    tolerance, `½|u₁×u₂| + ½|u₂×u₄|` with `uᵢ` the Cartesian differences of the corners, an expression that is manifestly invariant
    under a common translation or rotation of the corners and equals the shoelace area for convex quadrilaterals -/
theorem wedge_is_cross_real {e f : Geonum ℝ} (he : e.angle.Inv) (hf : f.angle.Inv) (h0e : 0 ≤ e.mag) (h0f : 0 ≤ f.mag)
    (u v : ℂ) :
    abs ((e.wedge f).mag - abs (cross u v)) ≤
      e.mag * f.mag * (1 / 10 ^ 10 + 1 / 10 ^ 15) + (‖cart e - u‖ * f.mag + ‖u‖ * ‖cart f - v‖) := by
  have hpi := Real.pi_pos
  obtain ⟨δ, hδ, _, hsin⟩ := cos_sub_gradeAngle he hf
  have hw : (e.wedge f).mag = e.mag * f.mag * |Real.sin (T f.angle - T e.angle + δ)| := by rw [← hsin]; rfl
  have hc : cross (cart e) (cart f) = e.mag * f.mag * Real.sin (T f.angle - T e.angle) := cross_polar _ _ _ _
  have h1 : abs ((e.wedge f).mag - abs (cross (cart e) (cart f))) ≤ e.mag * f.mag * (1 / 10 ^ 10 + 1 / 10 ^ 15) := by
    rw [hw, hc, abs_mul, abs_of_nonneg (mul_nonneg h0e h0f), ← mul_sub, abs_mul, abs_of_nonneg (mul_nonneg h0e h0f)]
    apply mul_le_mul_of_nonneg_left _ (mul_nonneg h0e h0f)
    exact le_trans (abs_abs_sub_abs_le_abs_sub _ _) (le_trans (sin_lipschitz _ _) (le_of_lt hδ))
  have h2 : abs (abs (cross (cart e) (cart f)) - abs (cross u v)) ≤ ‖cart e - u‖ * f.mag + ‖u‖ * ‖cart f - v‖ := by
    refine le_trans (abs_abs_sub_abs_le_abs_sub _ _) ?_
    have := cross_sub_le (cart e) (cart f) u v
    have hn : ‖cart f‖ = f.mag := by show ‖polar f.mag _‖ = _; rw [norm_polar, abs_of_nonneg h0f]
    rwa [hn] at this
  have := abs_sub_le (e.wedge f).mag |cross (cart e) (cart f)| |cross u v|
  linarith

end E

/-! PARTIAL (not yet proved as one composed statement): the quadrilateral area as `½|u₁×u₂| + ½|u₂×u₄|` of the Cartesian corner
    differences — it is `wedge_is_cross_real` applied to the two triangles with the edge placement bounds of
    `C06.sub_is_cartesian_difference`; explored end-to-end by `oracle.C19.area` (shoelace, translation, rotation). -/



example {F : Type} [FloatSpec F] : (⟨one, ⟨zero, 1⟩⟩ : Geonum F).angle.Inv := inv_zero 1

end GeonumModel.C19
