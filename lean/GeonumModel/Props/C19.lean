/-
  C19 — Domain helpers obey their physical scaling and invariance laws.
-/
import GeonumModel.Lemmas.GradeAngle
import GeonumModel.Lemmas.Exact
import GeonumModel.Lemmas.ExactAdd
import GeonumModel.Props.C01
import GeonumModel.Props.C06
import GeonumModel.Spec.RoundWitness

set_option linter.unusedSectionVars false
set_option linter.unusedVariables false

namespace GeonumModel.C19
open GeonumModel FloatLike FloatSpec Angle

section G
variable {F : Type} [FloatLike F]

/-- (G) activations never change the angle (the angle field is returned as is); refraction and propagation return the
    magnitude field as is; dispersion has magnitude `1.0` -/
theorem untouched_fields (g n t x v k w : Geonum F) (act : ML.Activation) :
    (ML.activate g act).angle = g.angle ∧ (Optics.refract g n).mag = g.mag ∧
    (Waves.propagate g t x v).mag = g.mag ∧ (Waves.disperse x t k w).mag = one := by
  refine ⟨?_, rfl, rfl, rfl⟩
  cases act <;> rfl

/-- (G) ReLU passes the magnitude exactly when the computed `cos t` tests positive, and otherwise returns `0.0` -/
theorem relu_law (g : Geonum F) :
    (flt zero (FloatLike.cos g.angle.gradeAngle) = true → (ML.activate g .relu).mag = g.mag) ∧
    (flt zero (FloatLike.cos g.angle.gradeAngle) = false → (ML.activate g .relu).mag = zero) := by
  constructor <;> intro h <;> simp [ML.activate, h]

/-- (G) a negative charge (cosine of the charge angle tests negative) turns the field by a half turn, nothing else -/
theorem field_sign (q q' r pw k : Geonum F) (ang : Angle F) (hm : q.mag = q'.mag)
    (hq : fge (FloatLike.cos q.angle.gradeAngle) zero = true) (hq' : fge (FloatLike.cos q'.angle.gradeAngle) zero = false) :
    (EM.inverseField q r pw ang k).mag = (EM.inverseField q' r pw ang k).mag ∧
    (EM.inverseField q r pw ang k).angle = ang ∧
    (EM.inverseField q' r pw ang k).angle = ang.geometricAdd (Angle.new one one) := by
  simp [EM.inverseField, Geonum.newWithAngle, hq, hq', hm, Angle.add, Angle.addVV]
end G

section S
variable {F : Type} [FloatSpec F]

theorem tiny_1075' : (1 : ℝ) / 2 ^ 1075 ≤ 1 / 10 ^ 300 := by
  apply one_div_le_one_div_of_le (by positivity)
  calc (10:ℝ) ^ 300 = (10 ^ 3) ^ 100 := by rw [← pow_mul]
    _ ≤ (2 ^ 10) ^ 100 := by gcongr; norm_num
    _ = 2 ^ 1000 := by rw [← pow_mul]
    _ ≤ 2 ^ 1075 := pow_le_pow_right₀ (by norm_num) (by norm_num)

/-- (S) sigmoid: the output lies strictly between 0 and a non-zero in-domain input magnitude -/
theorem sigmoid_bounds {g : Geonum F} (hm : Fin g.mag) (hpos : 1 / 10 ^ 100 ≤ val g.mag) (hle : val g.mag ≤ 10 ^ 100)
    (ha : g.angle.Inv) :
    0 < val (ML.activate g .sigmoid).mag ∧ val (ML.activate g .sigmoid).mag < val g.mag := by
  have hg := gradeAngle_fin ha
  obtain ⟨hfc, hc1, _⟩ := cos_spec hg
  obtain ⟨hfn, hvn⟩ := fneg_spec hfc
  have hn1 : |val (fneg (FloatLike.cos g.angle.gradeAngle))| ≤ 1 := by rw [hvn, abs_neg]; exact hc1
  obtain ⟨hfe, he0, _, _, hb⟩ := exp_spec hfn (by linarith)
  obtain ⟨helo, hehi⟩ := hb hn1
  obtain ⟨e, he⟩ : ∃ e, e = val (FloatLike.exp (fneg (FloatLike.cos g.angle.gradeAngle))) := ⟨_, rfl⟩
  rw [← he] at helo hehi he0
  -- denominator d = rnd(1 + e) ∈ [4/3 − tiny, 4]
  obtain ⟨hfd, hvd⟩ := fadd_spec (fin_one (F := F)) hfe (by
    rw [val_one, ← he]; apply inRange_of_abs_le_1000; rw [abs_of_nonneg (by linarith)]; linarith)
  rw [val_one, ← he] at hvd
  have r4 : rnd (F := F) 4 = 4 := by have := rnd_nat (F := F) (n := 4) (by norm_num); simpa using this
  have r1 : rnd (F := F) 1 = 1 := by have := rnd_nat (F := F) (n := 1) (by norm_num); simpa using this
  obtain ⟨d, hd⟩ : ∃ d, d = val (fadd (one : F) (FloatLike.exp (fneg (FloatLike.cos g.angle.gradeAngle)))) := ⟨_, rfl⟩
  rw [← hd] at hvd
  have hd4 : d ≤ 4 := by rw [hvd, ← r4]; exact rnd_mono (by linarith)
  have hd1 : (13:ℝ) / 10 ≤ d := by
    rw [hvd]
    have hc := rnd_close_bound (F := F) (x := 1 + e) (B := 4) (by linarith) (by linarith)
    rw [abs_le] at hc
    have hnum : (4:ℝ) / 3 - (4 / 2 ^ 53 + 1 / 10 ^ 30) ≥ 13 / 10 := by norm_num
    linarith [hc.1]
  have hdpos : 0 < d := by linarith
  have hmpos : 0 < val g.mag := lt_of_lt_of_le (by positivity) hpos
  -- quotient
  have hq0 : 0 < val g.mag / d := div_pos hmpos hdpos
  have hq1 : val g.mag / d ≤ val g.mag / (13 / 10) := div_le_div_of_nonneg_left (le_of_lt hmpos) (by norm_num) hd1
  have hq2 : val g.mag / 4 ≤ val g.mag / d := div_le_div_of_nonneg_left (le_of_lt hmpos) hdpos hd4
  obtain ⟨hfo, hvo⟩ := fdiv_spec hm hfd (by rw [← hd]; linarith) (inRange_mono (y := val g.mag) (by
    rw [← hd]
    rw [abs_of_pos hq0, abs_of_pos hmpos]
    calc val g.mag / d ≤ val g.mag / (13 / 10) := hq1
      _ ≤ val g.mag := by rw [div_le_iff₀ (by norm_num)]; nlinarith) (inRange_val hm))
  rw [← hd] at hvo
  have hout : val (ML.activate g .sigmoid).mag = rnd (F := F) (val g.mag / d) := hvo
  rw [hout]
  have herr := rnd_err (F := F) (val g.mag / d)
  rw [abs_of_pos hq0, abs_le] at herr
  have ht := tiny_1075'
  have h53 : val g.mag / d / 2 ^ 53 ≤ val g.mag / d / 2 ^ 53 := le_refl _
  have hsmall : (1:ℝ) / 10 ^ 300 ≤ (1 / 10 ^ 100) / 10 ^ 100 := by
    rw [div_div, ← pow_add]
    apply one_div_le_one_div_of_le (by positivity)
    exact pow_le_pow_right₀ (by norm_num) (by norm_num)
  have hm100 : (1:ℝ) / 10 ^ 100 / 10 ^ 100 ≤ val g.mag / 10 ^ 100 := div_le_div_of_nonneg_right hpos (by positivity)
  have h100 : (16:ℝ) ≤ 10 ^ 100 := by
    calc (16:ℝ) ≤ 10 ^ 2 := by norm_num
      _ ≤ 10 ^ 100 := pow_le_pow_right₀ (by norm_num) (by norm_num)
  have hm16 : val g.mag / 10 ^ 100 ≤ val g.mag / 16 := div_le_div_of_nonneg_left (le_of_lt hmpos) (by norm_num) h100
  have hqq : val g.mag / d / 2 ^ 53 ≤ val g.mag / d / 16 := by
    apply div_le_div_of_nonneg_left (le_of_lt hq0) (by norm_num); norm_num
  constructor
  · -- rnd q ≥ q − q/2^53 − tiny > 0  since  q ≥ m/4 and tiny ≤ m/16
    have : val g.mag / d / 16 ≤ val g.mag / d / 16 := le_refl _
    nlinarith [herr.1]
  · -- rnd q ≤ q + q/2^53 + tiny < m  since  q ≤ m/1.3
    have hq13 : val g.mag / (13 / 10) = val g.mag * (10 / 13) := by field_simp
    have : val g.mag / d / 16 ≤ val g.mag / (13 / 10) / 16 := div_le_div_of_nonneg_right hq1 (by norm_num)
    nlinarith [herr.2]

/-- (S) tanh activation: the output magnitude never exceeds the input magnitude in absolute value -/
theorem tanh_bound {g : Geonum F} (hm : Fin g.mag) (h0 : 0 ≤ val g.mag) (ha : g.angle.Inv) :
    |val (ML.activate g .tanh).mag| ≤ val g.mag := by
  have hg := gradeAngle_fin ha
  obtain ⟨hfc, _, _⟩ := cos_spec hg
  obtain ⟨hft, ht1⟩ := tanh_spec hfc
  have hp : |val g.mag * val (FloatLike.tanh (FloatLike.cos g.angle.gradeAngle))| ≤ val g.mag := by
    rw [abs_mul, abs_of_nonneg h0]
    calc val g.mag * |val (FloatLike.tanh (FloatLike.cos g.angle.gradeAngle))| ≤ val g.mag * 1 :=
          mul_le_mul_of_nonneg_left ht1 h0
      _ = val g.mag := mul_one _
  obtain ⟨hfo, hvo⟩ := fmul_spec hm hft (inRange_mono (by rw [abs_of_nonneg h0]; exact hp) (inRange_val hm))
  have : val (ML.activate g .tanh).mag = rnd (F := F) (val g.mag * val (FloatLike.tanh (FloatLike.cos g.angle.gradeAngle))) := hvo
  rw [this]
  rw [abs_le] at hp ⊢
  have h1 := rnd_mono (F := F) hp.2
  have h2 := rnd_mono (F := F) hp.1
  rw [rnd_val hm] at h1
  rw [rnd_rep (rep_neg (rep_val hm))] at h2
  exact ⟨h2, h1⟩

end S

/-! ### E-tier: the physical laws in exact arithmetic -/
section E
open GeonumModel.Exact

/-- (E) **Snell's law**: whenever `|sin t_in| ≤ n`, the refracted direction satisfies `n·sin(t_out) = sin(t_in)` to within
    `n·1e-10` (the slack is the boundary snap of re-encoding the refracted angle) -/
theorem snell_real {g n : Geonum ℝ} (hn : 0 < n.mag) (hdom : |Real.sin (T g.angle)| ≤ n.mag) :
    |n.mag * Real.sin (T (Optics.refract g n).angle) - Real.sin (T g.angle)| ≤ n.mag * (1 / 10 ^ 10) := by
  have hpi := Real.pi_pos
  set q : ℝ := Real.sin (T g.angle) / n.mag with hq
  have hq1 : |q| ≤ 1 := by rw [hq, abs_div, abs_of_pos hn, div_le_one hn]; exact hdom
  set r : ℝ := Real.arcsin q with hr
  have hsin : Real.sin r = q := Real.sin_arcsin (by rw [abs_le] at hq1; exact hq1.1) (by rw [abs_le] at hq1; exact hq1.2)
  have hdef : (Optics.refract g n).angle = Angle.new r Real.pi := by
    show Angle.new (FloatLike.asin (fdiv (FloatLike.sin g.angle.gradeAngle) n.mag)) (FloatLike.pi : ℝ) = _
    have : FloatLike.sin g.angle.gradeAngle = Real.sin (T g.angle) := sin_gradeAngle g.angle
    rw [this]; rfl
  have hrabs : |r| ≤ Real.pi / 2 := by
    rw [abs_le]; exact ⟨Real.neg_pi_div_two_le_arcsin q, Real.arcsin_le_pi_div_two q⟩
  have hqq : r * Real.pi / Real.pi = r := by field_simp
  have hb : |r * Real.pi / Real.pi| ≤ 2 ^ 42 := by
    rw [hqq]; have := Real.pi_lt_four; have : Real.pi / 2 ≤ 2 ^ 42 := by norm_num; linarith
    linarith
  obtain ⟨_, δ, m, hδ, hT⟩ := new_total_real (p := r) (d := Real.pi) hb
  rw [hqq] at hT
  rw [hdef, hT, Real.sin_add_int_mul_two_pi]
  have hl := sin_lipschitz r δ
  have e : n.mag * Real.sin (r + δ) - Real.sin (T g.angle) = n.mag * (Real.sin (r + δ) - Real.sin r) := by
    rw [hsin, hq]; field_simp
  rw [e, abs_mul, abs_of_pos hn]
  exact mul_le_mul_of_nonneg_left (le_trans hl (le_of_lt hδ)) (le_of_lt hn)

/-- (E) magnification scales the intensity by `1/m²`: scaling the magnification by `s` divides the result's magnitude by `s²` -/
theorem magnify_inverse_square (g m : Geonum ℝ) (s : ℝ) (hs : s ≠ 0) (hm : m.mag ≠ 0) :
    (Optics.magnify g ⟨s * m.mag, m.angle⟩).mag * s ^ 2 = (Optics.magnify g m).mag := by
  show g.mag * ((one : ℝ) / ((s * m.mag) * (s * m.mag))) * s ^ 2 = g.mag * ((one : ℝ) / (m.mag * m.mag))
  rw [lit_real.2.1]; field_simp

/-- (E) the wire field falls as `1/r`, and the inverse-power field is proportional to the charge -/
theorem wire_and_charge_scaling (r cur perm q dist pw k : Geonum ℝ) (ang : Angle ℝ) (s : ℝ) (hs : s ≠ 0) (hr : r.mag ≠ 0) :
    (EM.wireMagneticField ⟨s * r.mag, r.angle⟩ cur perm).mag * s = (EM.wireMagneticField r cur perm).mag ∧
    (EM.inverseField ⟨s * q.mag, q.angle⟩ dist pw ang k).mag = s * (EM.inverseField q dist pw ang k).mag := by
  have hpi : Real.pi ≠ 0 := Real.pi_ne_zero
  constructor
  · show perm.mag * cur.mag / ((two : ℝ) * (FloatLike.pi : ℝ) * (s * r.mag)) * s = perm.mag * cur.mag / ((two : ℝ) * (FloatLike.pi : ℝ) * r.mag)
    rw [lit_real.2.2.1, pi_real]; field_simp
  · show k.mag * (s * q.mag) / FloatLike.powf dist.mag pw.mag = s * (k.mag * q.mag / FloatLike.powf dist.mag pw.mag)
    ring

/-- (E) the inverse-power field scales as `1/rⁿ` in the distance (for positive distances and scale factors) -/
theorem inverse_field_distance_scaling (q dist pw k : Geonum ℝ) (ang : Angle ℝ) (s : ℝ) (hs : 0 < s) (hd : 0 < dist.mag) :
    (EM.inverseField q ⟨s * dist.mag, dist.angle⟩ pw ang k).mag * s ^ pw.mag = (EM.inverseField q dist pw ang k).mag := by
  show k.mag * q.mag / (s * dist.mag) ^ pw.mag * s ^ pw.mag = k.mag * q.mag / dist.mag ^ pw.mag
  rw [Real.mul_rpow (le_of_lt hs) (le_of_lt hd)]
  have h1 : s ^ pw.mag ≠ 0 := ne_of_gt (Real.rpow_pos_of_pos hs _)
  have h2 : dist.mag ^ pw.mag ≠ 0 := ne_of_gt (Real.rpow_pos_of_pos hd _)
  field_simp

/-- planar cross product of two points -/
def cross (z w : ℂ) : ℝ := z.re * w.im - z.im * w.re

theorem cross_polar (r q s t : ℝ) : cross (polar r s) (polar q t) = r * q * Real.sin (t - s) := by
  simp only [cross, polar]; rw [Real.sin_sub]; ring

theorem abs_cross_le (z w : ℂ) : |cross z w| ≤ ‖z‖ * ‖w‖ := by
  have h : (cross z w) ^ 2 ≤ (‖z‖ * ‖w‖) ^ 2 := by
    rw [mul_pow, Complex.sq_norm, Complex.sq_norm, Complex.normSq_apply, Complex.normSq_apply]
    unfold cross
    nlinarith [sq_nonneg (z.re * w.re + z.im * w.im)]
  rw [abs_le]
  exact abs_le_of_sq_le_sq' h (by positivity)

theorem cross_sub_le (x y x' y' : ℂ) : |cross x y - cross x' y'| ≤ ‖x - x'‖ * ‖y‖ + ‖x'‖ * ‖y - y'‖ := by
  have e : cross x y - cross x' y' = cross (x - x') y + cross x' (y - y') := by
    simp only [cross, Complex.sub_re, Complex.sub_im]; ring
  rw [e]
  exact le_trans (abs_add_le _ _) (add_le_add (abs_cross_le _ _) (abs_cross_le _ _))

/-- (E) **the wedge magnitude of two edges is the planar cross product of the Cartesian edge vectors**, to within
    `|e₁||e₂|·(1e-10+1e-15)` plus the placement error of the edges themselves — so the quadrilateral area helper is, up to that
    tolerance, `½|u₁×u₂| + ½|u₂×u₄|` with `uᵢ` the Cartesian differences of the corners, an expression that is manifestly invariant
    under a common translation or rotation of the corners and equals the shoelace area for convex quadrilaterals -/
theorem wedge_is_cross_real {e f : Geonum ℝ} (he : e.angle.Inv) (hf : f.angle.Inv) (h0e : 0 ≤ e.mag) (h0f : 0 ≤ f.mag)
    (u v : ℂ) :
    abs ((e.wedge f).mag - abs (cross u v)) ≤
      e.mag * f.mag * (1 / 10 ^ 10 + 1 / 10 ^ 15) + (‖cart e - u‖ * f.mag + ‖u‖ * ‖cart f - v‖) := by
  have hpi := Real.pi_pos
  obtain ⟨δ, hδ, _, hsin⟩ := cos_sub_gradeAngle he hf
  have hw : (e.wedge f).mag = e.mag * f.mag * |Real.sin (T f.angle - T e.angle + δ)| := by rw [← hsin]; rfl
  have hc : cross (cart e) (cart f) = e.mag * f.mag * Real.sin (T f.angle - T e.angle) := cross_polar _ _ _ _
  have h1 : abs ((e.wedge f).mag - abs (cross (cart e) (cart f))) ≤ e.mag * f.mag * (1 / 10 ^ 10 + 1 / 10 ^ 15) := by
    rw [hw, hc, abs_mul, abs_of_nonneg (mul_nonneg h0e h0f), ← mul_sub, abs_mul, abs_of_nonneg (mul_nonneg h0e h0f)]
    apply mul_le_mul_of_nonneg_left _ (mul_nonneg h0e h0f)
    exact le_trans (abs_abs_sub_abs_le_abs_sub _ _) (le_trans (sin_lipschitz _ _) (le_of_lt hδ))
  have h2 : abs (abs (cross (cart e) (cart f)) - abs (cross u v)) ≤ ‖cart e - u‖ * f.mag + ‖u‖ * ‖cart f - v‖ := by
    refine le_trans (abs_abs_sub_abs_le_abs_sub _ _) ?_
    have := cross_sub_le (cart e) (cart f) u v
    have hn : ‖cart f‖ = f.mag := by show ‖polar f.mag _‖ = _; rw [norm_polar, abs_of_nonneg h0f]
    rwa [hn] at this
  have := abs_sub_le (e.wedge f).mag |cross (cart e) (cart f)| |cross u v|
  linarith

/-- an edge `p + q.negate` (the code's "vector from q to p") is a canonical number of non-negative length placed at the Cartesian
    difference of the corners, to within the addition tolerance -/
theorem edge_spec {p q : Geonum ℝ} (hp : p.angle.Inv) (hq : q.angle.Inv) (h0p : 0 ≤ p.mag) (h0q : 0 ≤ q.mag)
    (hp1 : p.mag ≤ 10 ^ 100) (hq1 : q.mag ≤ 10 ^ 100) (hcb : p.angle.blade + (q.angle.blade + 2) ≤ 2 ^ 39) :
    (p.add q.negate).angle.Inv ∧ 0 ≤ (p.add q.negate).mag ∧
    ‖cart (p.add q.negate) - (cart p - cart q)‖ ≤ 1 / 10 ^ 10 * (1 + p.mag + q.mag) := by
  have hn := negate_spec hq
  have hninv : q.negate.angle.Inv := inv_of_spec hq hn.2
  have hmp : p.MagDom := ⟨trivial, h0p, hp1⟩
  have hmq : q.negate.MagDom := ⟨trivial, h0q, hq1⟩
  have hcb' : p.angle.blade + q.negate.angle.blade ≤ 2 ^ 39 := by
    show p.angle.blade + q.angle.negate.blade ≤ 2 ^ 39
    rw [hn.1]; exact hcb
  refine ⟨C01.add_angle_inv hp hninv hmp hmq hcb', (C01.add_mag_ok' hmp hmq hp hninv).2, ?_⟩
  exact C06.sub_is_cartesian_difference hp hq h0p h0q (le_trans hcb (by norm_num))

/-- the reference area: half the absolute planar cross products of the two triangles `P1 P2 P3` and `P1 P3 P4` -/
noncomputable def areaRef (P1 P2 P3 P4 : ℂ) : ℝ := (|cross (P2 - P1) (P3 - P1)| + |cross (P3 - P1) (P4 - P1)|) / 2

/-- (E) **the quadrilateral area helper is the two-triangle cross-product area of the Cartesian corners**, to within
    `2e-9·(1+R)²` for corners of length at most `R` — the composed statement: both edges of each triangle through `+`/`negate`
    (every branch of addition), the wedge of the edges, the halving and the final sum -/
theorem area_is_cross_area_real {p1 p2 p3 p4 : Geonum ℝ} {R : ℝ} (hR : R ≤ 10 ^ 100)
    (h1 : p1.angle.Inv) (h2 : p2.angle.Inv) (h3 : p3.angle.Inv) (h4 : p4.angle.Inv)
    (m1 : 0 ≤ p1.mag ∧ p1.mag ≤ R) (m2 : 0 ≤ p2.mag ∧ p2.mag ≤ R) (m3 : 0 ≤ p3.mag ∧ p3.mag ≤ R) (m4 : 0 ≤ p4.mag ∧ p4.mag ≤ R)
    (b2 : p2.angle.blade + (p1.angle.blade + 2) ≤ 2 ^ 39) (b3 : p3.angle.blade + (p1.angle.blade + 2) ≤ 2 ^ 39)
    (b4 : p4.angle.blade + (p1.angle.blade + 2) ≤ 2 ^ 39) :
    |Affine.areaQuadrilateral p1 p2 p3 p4 - areaRef (cart p1) (cart p2) (cart p3) (cart p4)| ≤ 2 / 10 ^ 9 * (1 + R) ^ 2 := by
  have hR0 : 0 ≤ R := le_trans m1.1 m1.2
  obtain ⟨X, hX⟩ : ∃ X, X = 1 + R := ⟨_, rfl⟩
  have hX1 : 1 ≤ X := by rw [hX]; linarith
  -- one edge: canonical, short, well placed
  have edge : ∀ {p : Geonum ℝ}, p.angle.Inv → 0 ≤ p.mag ∧ p.mag ≤ R → p.angle.blade + (p1.angle.blade + 2) ≤ 2 ^ 39 →
      (p.add p1.negate).angle.Inv ∧ 0 ≤ (p.add p1.negate).mag ∧ (p.add p1.negate).mag ≤ 3 * X ∧
      ‖cart (p.add p1.negate) - (cart p - cart p1)‖ ≤ 2 / 10 ^ 10 * X ∧ ‖cart p - cart p1‖ ≤ 2 * X := by
    intro p hp mp bp
    obtain ⟨hi, h0, hpl⟩ := edge_spec hp h1 mp.1 m1.1 (le_trans mp.2 hR) (le_trans m1.2 hR) bp
    have hnp : ‖cart p‖ = p.mag := by show ‖polar p.mag _‖ = _; rw [norm_polar, abs_of_nonneg mp.1]
    have hn1 : ‖cart p1‖ = p1.mag := by show ‖polar p1.mag _‖ = _; rw [norm_polar, abs_of_nonneg m1.1]
    have hu : ‖cart p - cart p1‖ ≤ 2 * X := by
      have := norm_sub_le (cart p) (cart p1)
      rw [hnp, hn1] at this; rw [hX]; linarith [mp.2, m1.2]
    have hpl' : ‖cart (p.add p1.negate) - (cart p - cart p1)‖ ≤ 2 / 10 ^ 10 * X := by
      refine le_trans hpl ?_
      rw [hX]; nlinarith [mp.2, m1.2]
    have hne : ‖cart (p.add p1.negate)‖ = (p.add p1.negate).mag := by
      show ‖polar (p.add p1.negate).mag _‖ = _; rw [norm_polar, abs_of_nonneg h0]
    have hm : (p.add p1.negate).mag ≤ 3 * X := by
      have := norm_le_insert' (cart (p.add p1.negate)) (cart p - cart p1)
      rw [hne] at this
      nlinarith
    exact ⟨hi, h0, hm, hpl', hu⟩
  obtain ⟨i2, z2, l2, d2, u2⟩ := edge h2 m2 b2
  obtain ⟨i3, z3, l3, d3, u3⟩ := edge h3 m3 b3
  obtain ⟨i4, z4, l4, d4, u4⟩ := edge h4 m4 b4
  -- one triangle
  have tri : ∀ {e f : Geonum ℝ} {u v : ℂ}, e.angle.Inv → f.angle.Inv → 0 ≤ e.mag → 0 ≤ f.mag → e.mag ≤ 3 * X → f.mag ≤ 3 * X →
      ‖cart e - u‖ ≤ 2 / 10 ^ 10 * X → ‖cart f - v‖ ≤ 2 / 10 ^ 10 * X → ‖u‖ ≤ 2 * X →
      abs ((e.wedge f).mag - abs (cross u v)) ≤ 2 / 10 ^ 9 * (X * X) := by
    intro e f u v he hf h0e h0f le lf de df hu
    have h := wedge_is_cross_real he hf h0e h0f u v
    have hX0 : 0 ≤ X := by linarith
    have a1 : e.mag * f.mag ≤ 9 * (X * X) := by
      calc e.mag * f.mag ≤ (3 * X) * (3 * X) := mul_le_mul le lf h0f (by linarith)
        _ = 9 * (X * X) := by ring
    have a2 : ‖cart e - u‖ * f.mag ≤ 6 / 10 ^ 10 * (X * X) := by
      calc ‖cart e - u‖ * f.mag ≤ (2 / 10 ^ 10 * X) * (3 * X) := mul_le_mul de lf h0f (by positivity)
        _ = 6 / 10 ^ 10 * (X * X) := by ring
    have a3 : ‖u‖ * ‖cart f - v‖ ≤ 4 / 10 ^ 10 * (X * X) := by
      calc ‖u‖ * ‖cart f - v‖ ≤ (2 * X) * (2 / 10 ^ 10 * X) := mul_le_mul hu df (norm_nonneg _) (by linarith)
        _ = 4 / 10 ^ 10 * (X * X) := by ring
    have a1' : e.mag * f.mag * (1 / 10 ^ 10 + 1 / 10 ^ 15) ≤ 9 * (X * X) * (1 / 10 ^ 10 + 1 / 10 ^ 15) :=
      mul_le_mul_of_nonneg_right a1 (by positivity)
    have hXX : 0 ≤ X * X := mul_nonneg hX0 hX0
    nlinarith
  have t1 := tri i2 i3 z2 z3 l2 l3 d2 d3 u2
  have t2 := tri i3 i4 z3 z4 l3 l4 d3 d4 u3
  have harea : Affine.areaQuadrilateral p1 p2 p3 p4 =
      ((p2.add p1.negate).wedge (p3.add p1.negate)).mag / 2 + ((p3.add p1.negate).wedge (p4.add p1.negate)).mag / 2 := by
    show fadd (fdiv _ two) (fdiv _ two) = _
    rw [r_add, r_div, r_div, lit_real.2.2.1]
  rw [harea, areaRef, ← hX]
  rw [abs_le] at t1 t2 ⊢
  have hsq : X ^ 2 = X * X := by ring
  rw [hsq]
  constructor <;> linarith [t1.1, t1.2, t2.1, t2.2]

/-- the reference area is invariant under a common translation of the corners -/
theorem areaRef_translate (z P1 P2 P3 P4 : ℂ) : areaRef (z + P1) (z + P2) (z + P3) (z + P4) = areaRef P1 P2 P3 P4 := by
  unfold areaRef
  rw [add_sub_add_left_eq_sub, add_sub_add_left_eq_sub, add_sub_add_left_eq_sub]

/-- … and under a common rotation (multiplication by a unit complex number) -/
theorem areaRef_rotate (w P1 P2 P3 P4 : ℂ) (hw : Complex.normSq w = 1) :
    areaRef (w * P1) (w * P2) (w * P3) (w * P4) = areaRef P1 P2 P3 P4 := by
  have hc : ∀ a b : ℂ, cross (w * a) (w * b) = Complex.normSq w * cross a b := by
    intro a b; simp only [cross, Complex.mul_re, Complex.mul_im, Complex.normSq_apply]; ring
  unfold areaRef
  rw [← mul_sub, ← mul_sub, ← mul_sub, hc, hc, hw, one_mul, one_mul]

/-- … and is the shoelace area `½|Σ (xᵢyᵢ₊₁ − xᵢ₊₁yᵢ)|` whenever the two triangles have the same orientation (in particular for
    every convex quadrilateral with its corners listed in order) -/
theorem areaRef_shoelace (P1 P2 P3 P4 : ℂ) (hconv : 0 ≤ cross (P2 - P1) (P3 - P1) * cross (P3 - P1) (P4 - P1)) :
    areaRef P1 P2 P3 P4 =
      |(P1.re * P2.im - P2.re * P1.im) + (P2.re * P3.im - P3.re * P2.im) + (P3.re * P4.im - P4.re * P3.im)
        + (P4.re * P1.im - P1.re * P4.im)| / 2 := by
  have hsum : (P1.re * P2.im - P2.re * P1.im) + (P2.re * P3.im - P3.re * P2.im) + (P3.re * P4.im - P4.re * P3.im)
        + (P4.re * P1.im - P1.re * P4.im) = cross (P2 - P1) (P3 - P1) + cross (P3 - P1) (P4 - P1) := by
    simp only [cross, Complex.sub_re, Complex.sub_im]; ring
  unfold areaRef
  rw [hsum, (abs_add_eq_add_abs_iff _ _).mpr]
  rcases le_or_gt 0 (cross (P2 - P1) (P3 - P1)) with h | h
  · rcases eq_or_lt_of_le h with h0 | hpos
    · rcases le_total 0 (cross (P3 - P1) (P4 - P1)) with g | g
      · exact Or.inl ⟨h, g⟩
      · exact Or.inr ⟨by rw [← h0], g⟩
    · exact Or.inl ⟨h, by by_contra hneg; have hneg' := not_le.mp hneg; nlinarith⟩
  · exact Or.inr ⟨le_of_lt h, by by_contra hneg; have hneg' := not_le.mp hneg; nlinarith⟩

/-- (E) **area invariance**: two quadrilaterals whose Cartesian corners differ by a common translation `z` and rotation `w`
    (`|w| = 1`) have the same helper area to within twice the helper's tolerance -/
theorem area_invariant_real {p1 p2 p3 p4 q1 q2 q3 q4 : Geonum ℝ} {R : ℝ} (hR : R ≤ 10 ^ 100) (z w : ℂ) (hw : Complex.normSq w = 1)
    (c1 : cart q1 = z + w * cart p1) (c2 : cart q2 = z + w * cart p2) (c3 : cart q3 = z + w * cart p3) (c4 : cart q4 = z + w * cart p4)
    (hp : |Affine.areaQuadrilateral p1 p2 p3 p4 - areaRef (cart p1) (cart p2) (cart p3) (cart p4)| ≤ 2 / 10 ^ 9 * (1 + R) ^ 2)
    (hq : |Affine.areaQuadrilateral q1 q2 q3 q4 - areaRef (cart q1) (cart q2) (cart q3) (cart q4)| ≤ 2 / 10 ^ 9 * (1 + R) ^ 2) :
    |Affine.areaQuadrilateral q1 q2 q3 q4 - Affine.areaQuadrilateral p1 p2 p3 p4| ≤ 4 / 10 ^ 9 * (1 + R) ^ 2 := by
  rw [c1, c2, c3, c4, areaRef_translate, areaRef_rotate _ _ _ _ _ hw] at hq
  rw [abs_le] at hp hq ⊢
  constructor <;> linarith [hp.1, hp.2, hq.1, hq.2]

/-- non-vacuity of `area_is_cross_area_real`: the four unit corners on the axes (a square of area 2) meet every hypothesis -/
example : |Affine.areaQuadrilateral (⟨1, ⟨zero, 0⟩⟩ : Geonum ℝ) ⟨1, ⟨zero, 1⟩⟩ ⟨1, ⟨zero, 2⟩⟩ ⟨1, ⟨zero, 3⟩⟩
      - areaRef (cart ⟨1, ⟨zero, 0⟩⟩) (cart ⟨1, ⟨zero, 1⟩⟩) (cart ⟨1, ⟨zero, 2⟩⟩) (cart ⟨1, ⟨zero, 3⟩⟩)| ≤ 2 / 10 ^ 9 * (1 + 1) ^ 2 :=
  area_is_cross_area_real (R := 1) (by norm_num) (inv_zero 0) (inv_zero 1) (inv_zero 2) (inv_zero 3)
    ⟨by norm_num, le_refl _⟩ ⟨by norm_num, le_refl _⟩ ⟨by norm_num, le_refl _⟩ ⟨by norm_num, le_refl _⟩
    (by norm_num) (by norm_num) (by norm_num)

end E


example {F : Type} [FloatSpec F] : (⟨one, ⟨zero, 1⟩⟩ : Geonum F).angle.Inv := inv_zero 1


/-! ### B-tier: the quadrilateral area helper in ROUNDED arithmetic -/
section B
variable {F : Type} [FloatSpec F]

/-- perturbation of a planar cross product -/
theorem cross_pert (a b c d a' b' c' d' : ℝ) :
    |(a * d - b * c) - (a' * d' - b' * c')| ≤ |a - a'| * |d| + |a'| * |d - d'| + (|b - b'| * |c| + |b'| * |c - c'|) := by
  have e : (a * d - b * c) - (a' * d' - b' * c') = ((a - a') * d + a' * (d - d')) - ((b - b') * c + b' * (c - c')) := by ring
  rw [e]
  calc |((a - a') * d + a' * (d - d')) - ((b - b') * c + b' * (c - c'))|
      ≤ |(a - a') * d + a' * (d - d')| + |(b - b') * c + b' * (c - c')| := abs_sub _ _
    _ ≤ (|(a - a') * d| + |a' * (d - d')|) + (|(b - b') * c| + |b' * (c - c')|) := add_le_add (abs_add_le _ _) (abs_add_le _ _)
    _ = _ := by rw [abs_mul, abs_mul, abs_mul, abs_mul]

/-- a length is at most the sum of the absolute values of its two Cartesian components, and each component is at most the length -/
theorem mag_le_components {m t : ℝ} (hm : 0 ≤ m) :
    m ≤ |m * Real.cos t| + |m * Real.sin t| ∧ |m * Real.cos t| ≤ m ∧ |m * Real.sin t| ≤ m := by
  have hc := Real.abs_cos_le_one t
  have hs := Real.abs_sin_le_one t
  have h1 : Real.cos t ^ 2 ≤ |Real.cos t| := by
    rw [← sq_abs]; nlinarith [abs_nonneg (Real.cos t)]
  have h2 : Real.sin t ^ 2 ≤ |Real.sin t| := by
    rw [← sq_abs]; nlinarith [abs_nonneg (Real.sin t)]
  have h3 := Real.cos_sq_add_sin_sq t
  have h4 : 1 ≤ |Real.cos t| + |Real.sin t| := by linarith
  rw [abs_mul, abs_mul, abs_of_nonneg hm]
  refine ⟨by nlinarith, ?_, ?_⟩
  · calc m * |Real.cos t| ≤ m * 1 := mul_le_mul_of_nonneg_left hc hm
      _ = m := mul_one _
  · calc m * |Real.sin t| ≤ m * 1 := mul_le_mul_of_nonneg_left hs hm
      _ = m := mul_one _

/-- the Cartesian components of a number (angles in true radians) -/
noncomputable def cx (g : Geonum F) : ℝ := val g.mag * Real.cos (Angle.Tpi g.angle)
noncomputable def cy (g : Geonum F) : ℝ := val g.mag * Real.sin (Angle.Tpi g.angle)

/-- **the wedge magnitude of two numbers is the planar cross product of their Cartesian components, in rounded arithmetic** -/
theorem wedge_is_cross_float {e f : Geonum F} (he : e.angle.Inv) (hf : f.angle.Inv) (hme : e.MagDom) (hmf : f.MagDom) :
    abs (val (e.wedge f).mag - abs (cx e * cy f - cy e * cx f)) ≤ val e.mag * val f.mag * (val (e10 : F) + 1 / 10 ^ 14) + 1 / 10 ^ 29 := by
  have h := C10.wedge_mag_float he hf hme hmf
  have hid : cx e * cy f - cy e * cx f = val e.mag * val f.mag * Real.sin (Angle.Tpi f.angle - Angle.Tpi e.angle) := by
    unfold cx cy; rw [Real.sin_sub]; ring
  rw [hid, abs_mul, abs_of_nonneg (mul_nonneg hme.2.1 hmf.2.1)]
  exact h

/-- the reference area of the four Cartesian corners: half the absolute cross products of the triangles `P1 P2 P3` and `P1 P3 P4` -/
noncomputable def areaRefF (p1 p2 p3 p4 : Geonum F) : ℝ :=
  (|(cx p2 - cx p1) * (cy p3 - cy p1) - (cy p2 - cy p1) * (cx p3 - cx p1)|
    + |(cx p3 - cx p1) * (cy p4 - cy p1) - (cy p3 - cy p1) * (cx p4 - cx p1)|) / 2

/-- the placement tolerance of one edge `p − q` for corner lengths up to `R` and blade sums up to `K` (the every-branch C06 bound) -/
noncomputable def edgeTol (F : Type) [FloatSpec F] (R : ℝ) (K : ℕ) : ℝ :=
  2 * R * (2 / 10 ^ 7 + 11 / 10 * (val (e10 : F) + (40 * (K : ℝ) + 170) * (1 / 2 ^ 53))) + 1 / 10 ^ 28 + 2 * val (e10 : F)

theorem edgeTol_le {R : ℝ} {K : ℕ} (hR0 : 0 ≤ R) (hK : K ≤ 2 ^ 39) : 0 ≤ edgeTol F R K ∧ edgeTol F R K ≤ R + 1 := by
  have he := val_e10_pos (F := F); have hes := val_e10_small (F := F)
  have hKr : (K : ℝ) ≤ 2 ^ 39 := by exact_mod_cast hK
  have hK0 : (0:ℝ) ≤ (K : ℝ) := Nat.cast_nonneg _
  have hρ : 2 / 10 ^ 7 + 11 / 10 * (val (e10 : F) + (40 * (K : ℝ) + 170) * (1 / 2 ^ 53)) ≤ 1 / 2 := by
    have h1 : (40 * (K : ℝ) + 170) * (1 / 2 ^ 53) ≤ (40 * 2 ^ 39 + 170) * (1 / 2 ^ 53) :=
      mul_le_mul_of_nonneg_right (by linarith) (by positivity)
    have h2 : ((40:ℝ) * 2 ^ 39 + 170) * (1 / 2 ^ 53) ≤ 1 / 100 := by norm_num
    have h3 : (1:ℝ) / 10 ^ 9 ≤ 1 / 100 := by norm_num
    have h4 : (2:ℝ) / 10 ^ 7 ≤ 1 / 100 := by norm_num
    linarith
  have hρ0 : 0 ≤ 2 / 10 ^ 7 + 11 / 10 * (val (e10 : F) + (40 * (K : ℝ) + 170) * (1 / 2 ^ 53)) := by positivity
  unfold edgeTol
  have h28 : (0:ℝ) ≤ 1 / 10 ^ 28 := by positivity
  have h28' : (1:ℝ) / 10 ^ 28 ≤ 1 / 2 := by norm_num
  have h9 : (1:ℝ) / 10 ^ 9 ≤ 1 / 8 := by norm_num
  constructor
  · have := mul_nonneg (mul_nonneg (by norm_num : (0:ℝ) ≤ 2) hR0) hρ0
    linarith
  · have := mul_le_mul_of_nonneg_left hρ (mul_nonneg (by norm_num : (0:ℝ) ≤ 2) hR0)
    linarith

/-- **one edge in rounded arithmetic**: `p − q` is canonical, in the magnitude domain, placed at the Cartesian difference of the corners
    within `edgeTol`, and of length at most `4R + 2·edgeTol` -/
theorem edge_float {p q : Geonum F} {R : ℝ} {K : ℕ} (hp : p.angle.Inv) (hq : q.angle.Inv) (hmp : p.MagDom) (hmq : q.MagDom)
    (hpR : val p.mag ≤ R) (hqR : val q.mag ≤ R) (hR : R ≤ 10 ^ 98) (hcb : p.angle.blade + q.angle.blade + 2 ≤ K) (hK : K ≤ 2 ^ 39) :
    (p.sub q).angle.Inv ∧ (p.sub q).MagDom ∧ |cx (p.sub q) - (cx p - cx q)| ≤ edgeTol F R K ∧
    |cy (p.sub q) - (cy p - cy q)| ≤ edgeTol F R K ∧ val (p.sub q).mag ≤ 4 * R + 2 * edgeTol F R K := by
  have hR0 : 0 ≤ R := le_trans hmp.2.1 hpR
  obtain ⟨hδ0, hδ1⟩ := edgeTol_le (F := F) hR0 hK
  have hn := negate_spec hq
  have hninv : q.negate.angle.Inv := inv_of_spec hq hn.2
  have hmqn : q.negate.MagDom := hmq
  have hcb' : p.angle.blade + q.negate.angle.blade ≤ 2 ^ 39 := by
    show p.angle.blade + q.angle.negate.blade ≤ 2 ^ 39
    rw [hn.1]; omega
  have hinv : (p.sub q).angle.Inv := C01.add_angle_inv hp hninv hmp hmqn hcb'
  obtain ⟨hfin, h0⟩ := C01.add_mag_ok' hmp hmqn hp hninv
  obtain ⟨s1, s2⟩ := Geonum.sub_cartesian_every_branch_float hp hq hmp hmq (by omega)
  -- the per-pair bound is below the uniform one
  have hbound : (val p.mag + val q.mag) * (2 / 10 ^ 7 + 11 / 10 * (val (e10 : F)
        + (40 * ((p.angle.blade + q.angle.blade + 2 : ℕ) : ℝ) + 170) * (1 / 2 ^ 53))) + 1 / 10 ^ 28 + 2 * val (e10 : F)
      ≤ edgeTol F R K := by
    unfold edgeTol
    have he := val_e10_pos (F := F)
    have hle : ((p.angle.blade + q.angle.blade + 2 : ℕ) : ℝ) ≤ (K : ℝ) := by exact_mod_cast hcb
    have h1 : (40 * ((p.angle.blade + q.angle.blade + 2 : ℕ) : ℝ) + 170) * (1 / 2 ^ 53) ≤ (40 * (K : ℝ) + 170) * (1 / 2 ^ 53) :=
      mul_le_mul_of_nonneg_right (by linarith) (by positivity)
    have hc0 : (0:ℝ) ≤ ((p.angle.blade + q.angle.blade + 2 : ℕ) : ℝ) := Nat.cast_nonneg _
    have hρ0 : 0 ≤ 2 / 10 ^ 7 + 11 / 10 * (val (e10 : F)
        + (40 * ((p.angle.blade + q.angle.blade + 2 : ℕ) : ℝ) + 170) * (1 / 2 ^ 53)) := by positivity
    have hK0 : (0:ℝ) ≤ (K : ℝ) := Nat.cast_nonneg _
    have hρK0 : 0 ≤ 2 / 10 ^ 7 + 11 / 10 * (val (e10 : F) + (40 * (K : ℝ) + 170) * (1 / 2 ^ 53)) := by positivity
    have hsum : val p.mag + val q.mag ≤ 2 * R := by linarith
    have := mul_le_mul hsum (show 2 / 10 ^ 7 + 11 / 10 * (val (e10 : F)
        + (40 * ((p.angle.blade + q.angle.blade + 2 : ℕ) : ℝ) + 170) * (1 / 2 ^ 53)) ≤
        2 / 10 ^ 7 + 11 / 10 * (val (e10 : F) + (40 * (K : ℝ) + 170) * (1 / 2 ^ 53)) by linarith) hρ0 (by linarith)
    linarith
  have c1 : |cx (p.sub q) - (cx p - cx q)| ≤ edgeTol F R K := by
    have e : cx (p.sub q) - (cx p - cx q) = cx (p.sub q) + cx q - cx p := by ring
    rw [e]; exact le_trans s1 hbound
  have c2 : |cy (p.sub q) - (cy p - cy q)| ≤ edgeTol F R K := by
    have e : cy (p.sub q) - (cy p - cy q) = cy (p.sub q) + cy q - cy p := by ring
    rw [e]; exact le_trans s2 hbound
  -- the edge length from its components
  obtain ⟨hm, _, _⟩ := mag_le_components (m := val (p.sub q).mag) (t := Angle.Tpi (p.sub q).angle) h0
  obtain ⟨_, hpx, hpy⟩ := mag_le_components (m := val p.mag) (t := Angle.Tpi p.angle) hmp.2.1
  obtain ⟨_, hqx, hqy⟩ := mag_le_components (m := val q.mag) (t := Angle.Tpi q.angle) hmq.2.1
  have hx : |cx (p.sub q)| ≤ 2 * R + edgeTol F R K := by
    have := abs_sub_abs_le_abs_sub (cx (p.sub q)) (cx p - cx q)
    have h2 : |cx p - cx q| ≤ |cx p| + |cx q| := abs_sub _ _
    unfold cx at *; linarith
  have hy : |cy (p.sub q)| ≤ 2 * R + edgeTol F R K := by
    have := abs_sub_abs_le_abs_sub (cy (p.sub q)) (cy p - cy q)
    have h2 : |cy p - cy q| ≤ |cy p| + |cy q| := abs_sub _ _
    unfold cy at *; linarith
  have hlen : val (p.sub q).mag ≤ 4 * R + 2 * edgeTol F R K := by
    unfold cx at hx; unfold cy at hy; linarith
  refine ⟨hinv, ⟨hfin, h0, ?_⟩, c1, c2, hlen⟩
  have : (6:ℝ) * 10 ^ 98 + 2 ≤ 10 ^ 100 := by norm_num
  linarith

theorem wedge_mag_fin {e f : Geonum F} (he : e.angle.Inv) (hf : f.angle.Inv) (hme : e.MagDom) (hmf : f.MagDom) :
    Fin (e.wedge f).mag := by
  have hg := gradeAngle_fin (geometricSub_inv hf he)
  have hr : InRange (F := F) (val e.mag * val f.mag) := inRange_of_le (by
    rw [abs_of_nonneg (mul_nonneg hme.2.1 hmf.2.1)]
    have : val e.mag * val f.mag ≤ 10 ^ 100 * 10 ^ 100 := mul_le_mul hme.2.2 hmf.2.2 hmf.2.1 (by positivity)
    norm_num at this ⊢; linarith)
  obtain ⟨hfp, hvp⟩ := fmul_spec hme.1 hmf.1 hr
  obtain ⟨hfs, hs1, _⟩ := sin_spec hg
  obtain ⟨hfa, hva⟩ := fabs_spec hfs
  have hle : |val (fmul e.mag f.mag) * val (fabs (FloatLike.sin (f.angle.geometricSub e.angle).gradeAngle))| ≤ |val (fmul e.mag f.mag)| := by
    rw [abs_mul, hva, abs_abs]
    calc |val (fmul e.mag f.mag)| * |val (FloatLike.sin (f.angle.geometricSub e.angle).gradeAngle)|
        ≤ |val (fmul e.mag f.mag)| * 1 := mul_le_mul_of_nonneg_left hs1 (abs_nonneg _)
      _ = _ := mul_one _
  exact (fmul_spec hfp hfa (inRange_mono hle (inRange_val hfp))).1

/-- halving two wedge magnitudes and adding them, with every rounding accounted for -/
theorem area_assemble {w1 w2 t1 t2 A c1 c2 E Wb ε τ : ℝ} (hε0 : 0 ≤ ε) (hε1 : ε ≤ 1) (hτ0 : 0 ≤ τ) (hWb : 0 ≤ Wb)
    (h1 : |w1 - c1| ≤ E) (h2 : |w2 - c2| ≤ E) (hw1 : |w1| ≤ Wb) (hw2 : |w2| ≤ Wb)
    (ht1 : |t1 - w1 / 2| ≤ |w1 / 2| * ε + τ) (ht2 : |t2 - w2 / 2| ≤ |w2 / 2| * ε + τ)
    (hA : |A - (t1 + t2)| ≤ |t1 + t2| * ε + τ) :
    |A - (c1 + c2) / 2| ≤ E + 3 * Wb * ε + 5 * τ := by
  have e1 : |w1 / 2| = |w1| / 2 := by rw [abs_div, abs_of_pos (by norm_num : (0:ℝ) < 2)]
  have e2 : |w2 / 2| = |w2| / 2 := by rw [abs_div, abs_of_pos (by norm_num : (0:ℝ) < 2)]
  rw [e1] at ht1; rw [e2] at ht2
  have hWε : 0 ≤ Wb * ε := mul_nonneg hWb hε0
  have p1 : |w1| / 2 * ε ≤ Wb / 2 * ε := mul_le_mul_of_nonneg_right (by linarith) hε0
  have p2 : |w2| / 2 * ε ≤ Wb / 2 * ε := mul_le_mul_of_nonneg_right (by linarith) hε0
  have hWε1 : Wb * ε ≤ Wb := by
    calc Wb * ε ≤ Wb * 1 := mul_le_mul_of_nonneg_left hε1 hWb
      _ = Wb := mul_one _
  have hτε : τ * ε ≤ τ := by
    calc τ * ε ≤ τ * 1 := mul_le_mul_of_nonneg_left hε1 hτ0
      _ = τ := mul_one _
  rw [abs_le] at h1 h2 hw1 hw2 ht1 ht2
  have hs : |t1 + t2| ≤ 2 * Wb + 2 * τ := by
    rw [abs_le]; constructor <;> linarith [ht1.1, ht1.2, ht2.1, ht2.2, hw1.1, hw1.2, hw2.1, hw2.2]
  have hsε : |t1 + t2| * ε ≤ (2 * Wb + 2 * τ) * ε := mul_le_mul_of_nonneg_right hs hε0
  have e3 : (2 * Wb + 2 * τ) * ε = 2 * (Wb * ε) + 2 * (τ * ε) := by ring
  rw [e3] at hsε
  have e4 : Wb / 2 * ε = Wb * ε / 2 := by ring
  rw [e4] at p1 p2
  rw [abs_le] at hA ⊢
  constructor <;> linarith [hA.1, hA.2, ht1.1, ht1.2, ht2.1, ht2.2, h1.1, h1.2, h2.1, h2.2]

/-- the accuracy of the area helper for corner lengths up to `R` and blade sums up to `K` -/
noncomputable def areaTolF (F : Type) [FloatSpec F] (R : ℝ) (K : ℕ) : ℝ :=
  (4 * R + 2 * edgeTol F R K) * (4 * R + 2 * edgeTol F R K) * (val (e10 : F) + 1 / 10 ^ 14) + 1 / 10 ^ 29
    + 2 * edgeTol F R K * (4 * R + 2 * edgeTol F R K) + 4 * R * edgeTol F R K
    + 3 * (2 * ((4 * R + 2 * edgeTol F R K) * (4 * R + 2 * edgeTol F R K)) + 1) * (1 / 2 ^ 53) + 5 * (1 / 2 ^ 1075)

/-- one triangle: the wedge of two edges against the cross product of the true corner differences -/
theorem triangle_float {e f : Geonum F} {R M δ : ℝ} {xe ye xf yf : ℝ} (he : e.angle.Inv) (hf : f.angle.Inv)
    (hme : e.MagDom) (hmf : f.MagDom) (hR0 : 0 ≤ R) (hδ0 : 0 ≤ δ) (hM0 : 0 ≤ M) (hle : val e.mag ≤ M) (hlf : val f.mag ≤ M)
    (dex : |cx e - xe| ≤ δ) (dey : |cy e - ye| ≤ δ) (dfx : |cx f - xf| ≤ δ) (dfy : |cy f - yf| ≤ δ)
    (hxe : |xe| ≤ 2 * R) (hye : |ye| ≤ 2 * R) :
    abs (val (e.wedge f).mag - abs (xe * yf - ye * xf))
      ≤ M * M * (val (e10 : F) + 1 / 10 ^ 14) + 1 / 10 ^ 29 + 2 * δ * M + 4 * R * δ ∧
    |val (e.wedge f).mag| ≤ 2 * (M * M) + 1 := by
  have hw := wedge_is_cross_float he hf hme hmf
  have he10 := val_e10_pos (F := F); have he10s := val_e10_small (F := F)
  have hmm : val e.mag * val f.mag ≤ M * M := mul_le_mul hle hlf hmf.2.1 hM0
  have hmm0 : 0 ≤ val e.mag * val f.mag := mul_nonneg hme.2.1 hmf.2.1
  have hw' : val e.mag * val f.mag * (val (e10 : F) + 1 / 10 ^ 14) ≤ M * M * (val (e10 : F) + 1 / 10 ^ 14) :=
    mul_le_mul_of_nonneg_right hmm (by positivity)
  obtain ⟨_, hfx, hfy⟩ := mag_le_components (m := val f.mag) (t := Angle.Tpi f.angle) hmf.2.1
  have hcyf : |cy f| ≤ M := le_trans hfy hlf
  have hcxf : |cx f| ≤ M := le_trans hfx hlf
  have hp := cross_pert (cx e) (cy e) (cx f) (cy f) xe ye xf yf
  have q1 : |cx e - xe| * |cy f| ≤ δ * M := mul_le_mul dex hcyf (abs_nonneg _) hδ0
  have q2 : |xe| * |cy f - yf| ≤ 2 * R * δ := mul_le_mul hxe dfy (abs_nonneg _) (by linarith)
  have q3 : |cy e - ye| * |cx f| ≤ δ * M := mul_le_mul dey hcxf (abs_nonneg _) hδ0
  have q4 : |ye| * |cx f - xf| ≤ 2 * R * δ := mul_le_mul hye dfx (abs_nonneg _) (by linarith)
  have hcc := abs_abs_sub_abs_le_abs_sub (cx e * cy f - cy e * cx f) (xe * yf - ye * xf)
  have hcr : |cx e * cy f - cy e * cx f| ≤ M * M := by
    have hid : cx e * cy f - cy e * cx f = val e.mag * val f.mag * Real.sin (Angle.Tpi f.angle - Angle.Tpi e.angle) := by
      unfold cx cy; rw [Real.sin_sub]; ring
    rw [hid, abs_mul, abs_of_nonneg hmm0]
    calc val e.mag * val f.mag * |Real.sin (Angle.Tpi f.angle - Angle.Tpi e.angle)| ≤ val e.mag * val f.mag * 1 :=
          mul_le_mul_of_nonneg_left (Real.abs_sin_le_one _) hmm0
      _ = val e.mag * val f.mag := mul_one _
      _ ≤ M * M := hmm
  have hMM : 0 ≤ M * M := mul_nonneg hM0 hM0
  constructor
  · have := abs_sub_le (val (e.wedge f).mag) (abs (cx e * cy f - cy e * cx f)) (abs (xe * yf - ye * xf))
    linarith
  · have h3 : |val (e.wedge f).mag| ≤ |cx e * cy f - cy e * cx f| + abs (val (e.wedge f).mag - abs (cx e * cy f - cy e * cx f)) := by
      have := abs_sub_abs_le_abs_sub (val (e.wedge f).mag) (abs (cx e * cy f - cy e * cx f))
      rw [abs_abs] at this; linarith
    have h4 : M * M * (val (e10 : F) + 1 / 10 ^ 14) ≤ M * M * 1 :=
      mul_le_mul_of_nonneg_left (by have : (1:ℝ) / 10 ^ 9 + 1 / 10 ^ 14 ≤ 1 := by norm_num
                                    linarith) hMM
    have h29 : (1:ℝ) / 10 ^ 29 ≤ 1 := by norm_num
    linarith

/-- (B) **the quadrilateral area helper in ROUNDED arithmetic is the two-triangle cross-product area of the Cartesian corners**, to within
    `areaTolF R K` for corners of length at most `R ≤ 1e40` and blade sums at most `K ≤ 2^39` — the composed statement: each edge through
    `negate` and `+` (every branch), the wedge of the edges (libm sine of the rounded angle difference), both halvings and the final sum, all
    roundings accounted for.  `areaTolF R K ≈ R²·(5e-6 + 6.5e-2·K/2^39)` (`areaTolF_small`: at most `6e-6·(1+R)²` for `K ≤ 1e6`): dominated by the
    `√ε`-of-scale placement error of an edge under cancellation, and for huge blade counts by the f64 product `cb·π/2` -/
theorem area_float {p1 p2 p3 p4 : Geonum F} {R : ℝ} {K : ℕ}
    (h1 : p1.angle.Inv) (h2 : p2.angle.Inv) (h3 : p3.angle.Inv) (h4 : p4.angle.Inv)
    (m1 : p1.MagDom) (m2 : p2.MagDom) (m3 : p3.MagDom) (m4 : p4.MagDom)
    (r1 : val p1.mag ≤ R) (r2 : val p2.mag ≤ R) (r3 : val p3.mag ≤ R) (r4 : val p4.mag ≤ R) (hR : R ≤ 10 ^ 40)
    (b2 : p2.angle.blade + p1.angle.blade + 2 ≤ K) (b3 : p3.angle.blade + p1.angle.blade + 2 ≤ K)
    (b4 : p4.angle.blade + p1.angle.blade + 2 ≤ K) (hK : K ≤ 2 ^ 39) :
    |val (Affine.areaQuadrilateral p1 p2 p3 p4) - areaRefF p1 p2 p3 p4| ≤ areaTolF F R K := by
  have hR0 : 0 ≤ R := le_trans m1.2.1 r1
  have hR98 : R ≤ 10 ^ 98 := le_trans hR (pow_le_pow_right₀ (by norm_num) (by norm_num))
  obtain ⟨hδ0, hδ1⟩ := edgeTol_le (F := F) hR0 hK
  obtain ⟨i2, d2, x2, y2, l2⟩ := edge_float h2 h1 m2 m1 r2 r1 hR98 b2 hK
  obtain ⟨i3, d3, x3, y3, l3⟩ := edge_float h3 h1 m3 m1 r3 r1 hR98 b3 hK
  obtain ⟨i4, d4, x4, y4, l4⟩ := edge_float h4 h1 m4 m1 r4 r1 hR98 b4 hK
  set δ := edgeTol F R K with hδ
  obtain ⟨M, hM⟩ : ∃ M : ℝ, M = 4 * R + 2 * δ := ⟨_, rfl⟩
  have hM0 : 0 ≤ M := by rw [hM]; linarith
  have hM41 : M ≤ 10 ^ 41 := by
    rw [hM]
    have : (6:ℝ) * 10 ^ 40 + 2 ≤ 10 ^ 41 := by norm_num
    linarith
  rw [← hM] at l2 l3 l4
  -- true corner differences are at most 2R in each component
  have comp : ∀ {p : Geonum F}, p.MagDom → val p.mag ≤ R → |cx p - cx p1| ≤ 2 * R ∧ |cy p - cy p1| ≤ 2 * R := by
    intro p mp rp
    obtain ⟨_, hpx, hpy⟩ := mag_le_components (m := val p.mag) (t := Angle.Tpi p.angle) mp.2.1
    obtain ⟨_, hqx, hqy⟩ := mag_le_components (m := val p1.mag) (t := Angle.Tpi p1.angle) m1.2.1
    have a1 : |cx p - cx p1| ≤ |cx p| + |cx p1| := abs_sub _ _
    have a2 : |cy p - cy p1| ≤ |cy p| + |cy p1| := abs_sub _ _
    unfold cx at *; unfold cy at *
    exact ⟨by linarith, by linarith⟩
  obtain ⟨cx2, cy2⟩ := comp m2 r2
  obtain ⟨cx3, cy3⟩ := comp m3 r3
  obtain ⟨t1e, t1w⟩ := triangle_float i2 i3 d2 d3 hR0 hδ0 hM0 l2 l3 x2 y2 x3 y3 cx2 cy2
  obtain ⟨t2e, t2w⟩ := triangle_float i3 i4 d3 d4 hR0 hδ0 hM0 l3 l4 x3 y3 x4 y4 cx3 cy3
  -- the two halvings and the sum
  have hfw1 := wedge_mag_fin i2 i3 d2 d3
  have hfw2 := wedge_mag_fin i3 i4 d3 d4
  have hMM : M * M ≤ 10 ^ 82 := by
    calc M * M ≤ 10 ^ 41 * 10 ^ 41 := mul_le_mul hM41 hM41 hM0 (by positivity)
      _ = 10 ^ 82 := by rw [← pow_add]
  have hMM0 : 0 ≤ M * M := mul_nonneg hM0 hM0
  have hWb : 2 * (M * M) + 1 ≤ 10 ^ 83 := by
    have : (2:ℝ) * 10 ^ 82 + 1 ≤ 10 ^ 83 := by norm_num
    linarith
  have h2ne : val (two : F) ≠ 0 := by rw [val_two]; norm_num
  have big : (10:ℝ) ^ 84 ≤ 10 ^ 250 := pow_le_pow_right₀ (by norm_num) (by norm_num)
  have halfr : ∀ {w : F}, Fin w → |val w| ≤ 2 * (M * M) + 1 →
      Fin (fdiv w two) ∧ |val (fdiv w two) - val w / 2| ≤ |val w / 2| * (1 / 2 ^ 53) + 1 / 2 ^ 1075 := by
    intro w hw hb
    have hin : InRange (F := F) (val w / val (two : F)) := inRange_of_le (by
      rw [val_two, abs_div, abs_of_pos (by norm_num : (0:ℝ) < 2)]
      have h83 : (10:ℝ) ^ 83 ≤ 10 ^ 84 := pow_le_pow_right₀ (by norm_num) (by norm_num)
      linarith)
    obtain ⟨hf, hv⟩ := fdiv_spec hw (fin_two (F := F)) h2ne hin
    rw [val_two] at hv
    refine ⟨hf, ?_⟩
    rw [hv]; have := rnd_err (F := F) (val w / 2); rwa [div_eq_mul_one_div (|val w / 2|)] at this
  obtain ⟨hft1, ht1⟩ := halfr hfw1 t1w
  obtain ⟨hft2, ht2⟩ := halfr hfw2 t2w
  have hsumb : |val (fdiv ((p2.sub p1).wedge (p3.sub p1)).mag two) + val (fdiv ((p3.sub p1).wedge (p4.sub p1)).mag two)| ≤ 10 ^ 84 := by
    have e1 : ∀ w : ℝ, |w / 2| = |w| / 2 := fun w => by rw [abs_div, abs_of_pos (by norm_num : (0:ℝ) < 2)]
    rw [e1] at ht1 ht2
    have hε : (1:ℝ) / 2 ^ 53 ≤ 1 := by norm_num
    have hτ : (1:ℝ) / 2 ^ 1075 ≤ 1 := by
      rw [div_le_one (by positivity)]; exact one_le_pow₀ (by norm_num)
    have q1 : |val ((p2.sub p1).wedge (p3.sub p1)).mag| / 2 * (1 / 2 ^ 53) ≤ |val ((p2.sub p1).wedge (p3.sub p1)).mag| / 2 * 1 :=
      mul_le_mul_of_nonneg_left hε (by positivity)
    have q2 : |val ((p3.sub p1).wedge (p4.sub p1)).mag| / 2 * (1 / 2 ^ 53) ≤ |val ((p3.sub p1).wedge (p4.sub p1)).mag| / 2 * 1 :=
      mul_le_mul_of_nonneg_left hε (by positivity)
    have a1 := t1w; have a2 := t2w
    rw [abs_le] at ht1 ht2 t1w t2w ⊢
    have h84 : (4:ℝ) * 10 ^ 83 + 2 ≤ 10 ^ 84 := by norm_num
    constructor <;> linarith [ht1.1, ht1.2, ht2.1, ht2.2, t1w.1, t1w.2, t2w.1, t2w.2]
  obtain ⟨hfa, hva⟩ := fadd_spec hft1 hft2 (inRange_of_le (le_trans hsumb big))
  have hA : |val (Affine.areaQuadrilateral p1 p2 p3 p4)
      - (val (fdiv ((p2.sub p1).wedge (p3.sub p1)).mag two) + val (fdiv ((p3.sub p1).wedge (p4.sub p1)).mag two))|
      ≤ |val (fdiv ((p2.sub p1).wedge (p3.sub p1)).mag two) + val (fdiv ((p3.sub p1).wedge (p4.sub p1)).mag two)| * (1 / 2 ^ 53)
        + 1 / 2 ^ 1075 := by
    show |val (fadd (fdiv ((p2.sub p1).wedge (p3.sub p1)).mag two) (fdiv ((p3.sub p1).wedge (p4.sub p1)).mag two)) - _| ≤ _
    rw [hva]
    have := rnd_err (F := F) (val (fdiv ((p2.sub p1).wedge (p3.sub p1)).mag two) + val (fdiv ((p3.sub p1).wedge (p4.sub p1)).mag two))
    rwa [div_eq_mul_one_div] at this
  have key := area_assemble (ε := 1 / 2 ^ 53) (τ := 1 / 2 ^ 1075) (Wb := 2 * (M * M) + 1) (by positivity) (by norm_num) (by positivity)
    (by linarith) t1e t2e t1w t2w ht1 ht2 hA
  unfold areaRefF areaTolF
  rw [← hδ, ← hM]
  exact key

/-- the tolerance in numbers: for blade sums up to `1e6` it is at most `6e-6·(1+R)²` -/
theorem areaTolF_small {R : ℝ} {K : ℕ} (hR0 : 0 ≤ R) (hK : K ≤ 10 ^ 6) : areaTolF F R K ≤ 6 / 10 ^ 6 * ((1 + R) * (1 + R)) := by
  have he := val_e10_pos (F := F)
  have hes : val (e10 : F) ≤ 11 / 10 ^ 11 := (val_e10_bounds (F := F)).2
  have hKr : (K : ℝ) ≤ 10 ^ 6 := by exact_mod_cast hK
  have hK0 : (0:ℝ) ≤ (K : ℝ) := Nat.cast_nonneg _
  obtain ⟨X, hX⟩ : ∃ X : ℝ, X = 1 + R := ⟨_, rfl⟩
  have hX1 : 1 ≤ X := by rw [hX]; linarith
  have hRX : R ≤ X := by rw [hX]; linarith
  have hXX : 1 ≤ X * X := by nlinarith
  -- ρ ≤ 2.1e-7
  have hρ : 2 / 10 ^ 7 + 11 / 10 * (val (e10 : F) + (40 * (K : ℝ) + 170) * (1 / 2 ^ 53)) ≤ 21 / 10 ^ 8 := by
    have h1 : (40 * (K : ℝ) + 170) * (1 / 2 ^ 53) ≤ (40 * 10 ^ 6 + 170) * (1 / 2 ^ 53) :=
      mul_le_mul_of_nonneg_right (by linarith) (by positivity)
    have h2 : ((40:ℝ) * 10 ^ 6 + 170) * (1 / 2 ^ 53) ≤ 5 / 10 ^ 9 := by norm_num
    have h3 : (2:ℝ) / 10 ^ 7 + 11 / 10 * (11 / 10 ^ 11 + 5 / 10 ^ 9) ≤ 21 / 10 ^ 8 := by norm_num
    linarith
  have hρ0 : 0 ≤ 2 / 10 ^ 7 + 11 / 10 * (val (e10 : F) + (40 * (K : ℝ) + 170) * (1 / 2 ^ 53)) := by positivity
  -- δ ≤ 4.3e-7·X
  obtain ⟨δ, hδ⟩ : ∃ δ : ℝ, δ = edgeTol F R K := ⟨_, rfl⟩
  have hδ0 : 0 ≤ δ := by
    rw [hδ]; unfold edgeTol
    have := mul_nonneg (mul_nonneg (by norm_num : (0:ℝ) ≤ 2) hR0) hρ0
    have h28 : (0:ℝ) ≤ 1 / 10 ^ 28 := by positivity
    linarith
  have hδX : δ ≤ 43 / 10 ^ 8 * X := by
    rw [hδ]; unfold edgeTol
    have h1 := mul_le_mul_of_nonneg_left hρ (mul_nonneg (by norm_num : (0:ℝ) ≤ 2) hR0)
    have h28 : (1:ℝ) / 10 ^ 28 + 2 * (11 / 10 ^ 11) ≤ 1 / 10 ^ 8 := by norm_num
    have e : 2 * R * (21 / 10 ^ 8) = 42 / 10 ^ 8 * R := by ring
    rw [e] at h1
    have hRX' : 42 / 10 ^ 8 * R ≤ 42 / 10 ^ 8 * X := mul_le_mul_of_nonneg_left hRX (by norm_num)
    have hX' : (1:ℝ) / 10 ^ 8 ≤ 1 / 10 ^ 8 * X := by
      calc (1:ℝ) / 10 ^ 8 = 1 / 10 ^ 8 * 1 := (mul_one _).symm
        _ ≤ 1 / 10 ^ 8 * X := mul_le_mul_of_nonneg_left hX1 (by norm_num)
    linarith
  -- M ≤ 4.1·X
  obtain ⟨M, hM⟩ : ∃ M : ℝ, M = 4 * R + 2 * δ := ⟨_, rfl⟩
  have hM0 : 0 ≤ M := by rw [hM]; linarith
  have hX0 : 0 ≤ X := by linarith
  have hMX : M ≤ 41 / 10 * X := by
    rw [hM]
    have : 2 * δ ≤ 1 / 10 * X := by linarith [mul_le_mul_of_nonneg_right (show (86:ℝ) / 10 ^ 8 ≤ 1 / 10 by norm_num) hX0]
    linarith
  have hMM : M * M ≤ 1681 / 100 * (X * X) := by
    calc M * M ≤ (41 / 10 * X) * (41 / 10 * X) := mul_le_mul hMX hMX hM0 (by positivity)
      _ = 1681 / 100 * (X * X) := by ring
  have hMM0 : 0 ≤ M * M := mul_nonneg hM0 hM0
  have hδM : δ * M ≤ 43 / 10 ^ 8 * X * (41 / 10 * X) := mul_le_mul hδX hMX hM0 (by positivity)
  have hRδ : R * δ ≤ X * (43 / 10 ^ 8 * X) := mul_le_mul hRX hδX hδ0 hX0
  have t1 : M * M * (val (e10 : F) + 1 / 10 ^ 14) ≤ 1681 / 100 * (X * X) * (12 / 10 ^ 11) := by
    apply mul_le_mul hMM _ (by positivity) (by positivity)
    have : (11:ℝ) / 10 ^ 11 + 1 / 10 ^ 14 ≤ 12 / 10 ^ 11 := by norm_num
    linarith
  have t5 : 3 * (2 * (M * M) + 1) * (1 / 2 ^ 53) ≤ 3 * (2 * (1681 / 100 * (X * X)) + X * X) * (1 / 2 ^ 53) := by
    apply mul_le_mul_of_nonneg_right _ (by positivity)
    linarith
  have t6 : (5:ℝ) * (1 / 2 ^ 1075) ≤ 1 / 10 ^ 20 := by
    have : (1:ℝ) / 2 ^ 1075 ≤ 1 / 2 ^ 80 := one_div_le_one_div_of_le (by positivity) (pow_le_pow_right₀ (by norm_num) (by norm_num))
    have h2 : (5:ℝ) * (1 / 2 ^ 80) ≤ 1 / 10 ^ 20 := by norm_num
    linarith
  unfold areaTolF
  rw [← hδ, ← hM, ← hX]
  have e2 : 2 * δ * M = 2 * (δ * M) := by ring
  have e3 : 4 * R * δ = 4 * (R * δ) := by ring
  rw [e2, e3]
  have hε : (1:ℝ) / 2 ^ 53 ≤ 2 / 10 ^ 16 := by norm_num
  have t5' : 3 * (2 * (1681 / 100 * (X * X)) + X * X) * (1 / 2 ^ 53) ≤ 3 * (2 * (1681 / 100 * (X * X)) + X * X) * (2 / 10 ^ 16) :=
    mul_le_mul_of_nonneg_left hε (by positivity)
  have h29 : (1:ℝ) / 10 ^ 29 ≤ 1 / 10 ^ 20 := by norm_num
  nlinarith [hXX]

/-- the Cartesian point of a number as a complex number -/
noncomputable def cpt (g : Geonum F) : ℂ := ⟨cx g, cy g⟩

theorem areaRefF_eq (p1 p2 p3 p4 : Geonum F) : areaRefF p1 p2 p3 p4 = areaRef (cpt p1) (cpt p2) (cpt p3) (cpt p4) := by
  unfold areaRefF areaRef cross cpt
  simp only [Complex.sub_re, Complex.sub_im]

/-- (B) **area invariance in rounded arithmetic**: two quadrilaterals whose Cartesian corners differ by a common translation `z` and rotation
    `w` (`|w| = 1`) have the same helper area to within twice the helper's tolerance; with `areaRef_shoelace` the common value is the
    shoelace area whenever the two triangles have the same orientation -/
theorem area_invariant_float {p1 p2 p3 p4 q1 q2 q3 q4 : Geonum F} {R : ℝ} {K : ℕ} (z w : ℂ) (hw : Complex.normSq w = 1)
    (c1 : cpt q1 = z + w * cpt p1) (c2 : cpt q2 = z + w * cpt p2) (c3 : cpt q3 = z + w * cpt p3) (c4 : cpt q4 = z + w * cpt p4)
    (hp : |val (Affine.areaQuadrilateral p1 p2 p3 p4) - areaRefF p1 p2 p3 p4| ≤ areaTolF F R K)
    (hq : |val (Affine.areaQuadrilateral q1 q2 q3 q4) - areaRefF q1 q2 q3 q4| ≤ areaTolF F R K) :
    |val (Affine.areaQuadrilateral q1 q2 q3 q4) - val (Affine.areaQuadrilateral p1 p2 p3 p4)| ≤ 2 * areaTolF F R K := by
  rw [areaRefF_eq] at hp hq
  rw [c1, c2, c3, c4, areaRef_translate, areaRef_rotate _ _ _ _ _ hw] at hq
  rw [abs_le] at hp hq ⊢
  constructor <;> linarith [hp.1, hp.2, hq.1, hq.2]

/-- non-vacuity of `area_float`: the four unit corners on the axes (a square of area 2), in any conforming arithmetic -/
example : |val (Affine.areaQuadrilateral (⟨one, ⟨zero, 0⟩⟩ : Geonum F) ⟨one, ⟨zero, 1⟩⟩ ⟨one, ⟨zero, 2⟩⟩ ⟨one, ⟨zero, 3⟩⟩)
      - areaRefF (⟨one, ⟨zero, 0⟩⟩ : Geonum F) ⟨one, ⟨zero, 1⟩⟩ ⟨one, ⟨zero, 2⟩⟩ ⟨one, ⟨zero, 3⟩⟩| ≤ areaTolF F 1 5 := by
  have hm : ∀ k : ℕ, (⟨one, ⟨zero, k⟩⟩ : Geonum F).MagDom := fun k =>
    ⟨fin_one, by show 0 ≤ val (one : F); rw [val_one]; norm_num, by
      show val (one : F) ≤ 10 ^ 100; rw [val_one]; exact one_le_pow₀ (by norm_num)⟩
  have hr : ∀ k : ℕ, val (⟨one, ⟨zero, k⟩⟩ : Geonum F).mag ≤ 1 := fun k => by show val (one : F) ≤ 1; rw [val_one]
  exact area_float (inv_zero 0) (inv_zero 1) (inv_zero 2) (inv_zero 3) (hm 0) (hm 1) (hm 2) (hm 3) (hr 0) (hr 1) (hr 2) (hr 3)
    (by norm_num) (by norm_num) (by norm_num) (by norm_num) (by norm_num)

end B

/-! ### R — on the arithmetic that really rounds (`R64`) -/
section R

/-- (R) sigmoid strictly inside `(0, |g|)` and tanh bounded by `|g|`, for every binary64 number in the domain -/
theorem activations_rounded {g : Geonum R64} (hpos : 1 / 10 ^ 100 ≤ g.mag.v) (hle : g.mag.v ≤ 10 ^ 100) (ha : g.angle.Inv) :
    (0 < (ML.activate g .sigmoid).mag.v ∧ (ML.activate g .sigmoid).mag.v < g.mag.v) ∧
    |(ML.activate g .tanh).mag.v| ≤ g.mag.v :=
  ⟨sigmoid_bounds (F := R64) trivial hpos hle ha,
   tanh_bound (F := R64) trivial (le_trans (by positivity) hpos) ha⟩

/-- (R) the quadrilateral area helper against the two-triangle cross-product area, for all binary64 corners up to `1e40` with blade sums up to
    `1e6`: within `6e-6·(1+R)²` -/
theorem area_rounded {p1 p2 p3 p4 : Geonum R64} {R : ℝ} {K : ℕ}
    (h1 : p1.angle.Inv) (h2 : p2.angle.Inv) (h3 : p3.angle.Inv) (h4 : p4.angle.Inv)
    (m1 : p1.MagDom) (m2 : p2.MagDom) (m3 : p3.MagDom) (m4 : p4.MagDom)
    (r1 : p1.mag.v ≤ R) (r2 : p2.mag.v ≤ R) (r3 : p3.mag.v ≤ R) (r4 : p4.mag.v ≤ R) (hR : R ≤ 10 ^ 40)
    (b2 : p2.angle.blade + p1.angle.blade + 2 ≤ K) (b3 : p3.angle.blade + p1.angle.blade + 2 ≤ K)
    (b4 : p4.angle.blade + p1.angle.blade + 2 ≤ K) (hK : K ≤ 10 ^ 6) :
    |(Affine.areaQuadrilateral p1 p2 p3 p4).v - areaRefF p1 p2 p3 p4| ≤ 6 / 10 ^ 6 * ((1 + R) * (1 + R)) :=
  le_trans (area_float (F := R64) h1 h2 h3 h4 m1 m2 m3 m4 r1 r2 r3 r4 hR b2 b3 b4 (le_trans hK (by norm_num)))
    (areaTolF_small (F := R64) (le_trans m1.2.1 r1) hK)

end R

end GeonumModel.C19
