/-
  C19 — Domain helpers obey their physical scaling and invariance laws.
-/
import GeonumModel.Lemmas.GradeAngle

set_option linter.unusedSectionVars false
set_option linter.unusedVariables false

namespace GeonumModel.C19
open GeonumModel FloatLike FloatSpec Angle

section G
variable {F : Type} [FloatLike F]

/-- (G) activations never change the angle (the angle field is returned as is); refraction and propagation return the
    magnitude field as is; dispersion has magnitude `1.0` -/
theorem untouched_fields (g n t x v k w : Geonum F) (act : ML.Activation) :
    (ML.activate g act).angle = g.angle ∧ (Optics.refract g n).mag = g.mag ∧
    (Waves.propagate g t x v).mag = g.mag ∧ (Waves.disperse x t k w).mag = one := by
  refine ⟨?_, rfl, rfl, rfl⟩
  cases act <;> rfl

/-- (G) ReLU passes the magnitude exactly when the computed `cos t` tests positive, and otherwise returns `0.0` -/
theorem relu_law (g : Geonum F) :
    (flt zero (FloatLike.cos g.angle.gradeAngle) = true → (ML.activate g .relu).mag = g.mag) ∧
    (flt zero (FloatLike.cos g.angle.gradeAngle) = false → (ML.activate g .relu).mag = zero) := by
  constructor <;> intro h <;> simp [ML.activate, h]

/-- (G) a negative charge (cosine of the charge angle tests negative) turns the field by a half turn, nothing else -/
theorem field_sign (q q' r pw k : Geonum F) (ang : Angle F) (hm : q.mag = q'.mag)
    (hq : fge (FloatLike.cos q.angle.gradeAngle) zero = true) (hq' : fge (FloatLike.cos q'.angle.gradeAngle) zero = false) :
    (EM.inverseField q r pw ang k).mag = (EM.inverseField q' r pw ang k).mag ∧
    (EM.inverseField q r pw ang k).angle = ang ∧
    (EM.inverseField q' r pw ang k).angle = ang.geometricAdd (Angle.new one one) := by
  simp [EM.inverseField, Geonum.newWithAngle, hq, hq', hm, Angle.add, Angle.addVV]
end G

section S
variable {F : Type} [FloatSpec F]

theorem tiny_1075' : (1 : ℝ) / 2 ^ 1075 ≤ 1 / 10 ^ 300 := by
  apply one_div_le_one_div_of_le (by positivity)
  calc (10:ℝ) ^ 300 = (10 ^ 3) ^ 100 := by rw [← pow_mul]
    _ ≤ (2 ^ 10) ^ 100 := by gcongr; norm_num
    _ = 2 ^ 1000 := by rw [← pow_mul]
    _ ≤ 2 ^ 1075 := pow_le_pow_right₀ (by norm_num) (by norm_num)

/-- (S) sigmoid: the output lies strictly between 0 and a non-zero in-domain input magnitude -/
theorem sigmoid_bounds {g : Geonum F} (hm : Fin g.mag) (hpos : 1 / 10 ^ 100 ≤ val g.mag) (hle : val g.mag ≤ 10 ^ 100)
    (ha : g.angle.Inv) :
    0 < val (ML.activate g .sigmoid).mag ∧ val (ML.activate g .sigmoid).mag < val g.mag := by
  have hg := gradeAngle_fin ha
  obtain ⟨hfc, hc1, _⟩ := cos_spec hg
  obtain ⟨hfn, hvn⟩ := fneg_spec hfc
  have hn1 : |val (fneg (FloatLike.cos g.angle.gradeAngle))| ≤ 1 := by rw [hvn, abs_neg]; exact hc1
  obtain ⟨hfe, he0, _, _, hb⟩ := exp_spec hfn (by linarith)
  obtain ⟨helo, hehi⟩ := hb hn1
  obtain ⟨e, he⟩ : ∃ e, e = val (FloatLike.exp (fneg (FloatLike.cos g.angle.gradeAngle))) := ⟨_, rfl⟩
  rw [← he] at helo hehi he0
  -- denominator d = rnd(1 + e) ∈ [4/3 − tiny, 4]
  obtain ⟨hfd, hvd⟩ := fadd_spec (fin_one (F := F)) hfe (by
    rw [val_one, ← he]; apply inRange_of_abs_le_1000; rw [abs_of_nonneg (by linarith)]; linarith)
  rw [val_one, ← he] at hvd
  have r4 : rnd (F := F) 4 = 4 := by have := rnd_nat (F := F) (n := 4) (by norm_num); simpa using this
  have r1 : rnd (F := F) 1 = 1 := by have := rnd_nat (F := F) (n := 1) (by norm_num); simpa using this
  obtain ⟨d, hd⟩ : ∃ d, d = val (fadd (one : F) (FloatLike.exp (fneg (FloatLike.cos g.angle.gradeAngle)))) := ⟨_, rfl⟩
  rw [← hd] at hvd
  have hd4 : d ≤ 4 := by rw [hvd, ← r4]; exact rnd_mono (by linarith)
  have hd1 : (13:ℝ) / 10 ≤ d := by
    rw [hvd]
    have hc := rnd_close_bound (F := F) (x := 1 + e) (B := 4) (by linarith) (by linarith)
    rw [abs_le] at hc
    have hnum : (4:ℝ) / 3 - (4 / 2 ^ 53 + 1 / 10 ^ 30) ≥ 13 / 10 := by norm_num
    linarith [hc.1]
  have hdpos : 0 < d := by linarith
  have hmpos : 0 < val g.mag := lt_of_lt_of_le (by positivity) hpos
  -- quotient
  have hq0 : 0 < val g.mag / d := div_pos hmpos hdpos
  have hq1 : val g.mag / d ≤ val g.mag / (13 / 10) := div_le_div_of_nonneg_left (le_of_lt hmpos) (by norm_num) hd1
  have hq2 : val g.mag / 4 ≤ val g.mag / d := div_le_div_of_nonneg_left (le_of_lt hmpos) hdpos hd4
  obtain ⟨hfo, hvo⟩ := fdiv_spec hm hfd (by rw [← hd]; linarith) (inRange_mono (y := val g.mag) (by
    rw [← hd]
    rw [abs_of_pos hq0, abs_of_pos hmpos]
    calc val g.mag / d ≤ val g.mag / (13 / 10) := hq1
      _ ≤ val g.mag := by rw [div_le_iff₀ (by norm_num)]; nlinarith) (inRange_val hm))
  rw [← hd] at hvo
  have hout : val (ML.activate g .sigmoid).mag = rnd (F := F) (val g.mag / d) := hvo
  rw [hout]
  have herr := rnd_err (F := F) (val g.mag / d)
  rw [abs_of_pos hq0, abs_le] at herr
  have ht := tiny_1075'
  have h53 : val g.mag / d / 2 ^ 53 ≤ val g.mag / d / 2 ^ 53 := le_refl _
  have hsmall : (1:ℝ) / 10 ^ 300 ≤ (1 / 10 ^ 100) / 10 ^ 100 := by
    rw [div_div, ← pow_add]
    apply one_div_le_one_div_of_le (by positivity)
    exact pow_le_pow_right₀ (by norm_num) (by norm_num)
  have hm100 : (1:ℝ) / 10 ^ 100 / 10 ^ 100 ≤ val g.mag / 10 ^ 100 := div_le_div_of_nonneg_right hpos (by positivity)
  have h100 : (16:ℝ) ≤ 10 ^ 100 := by
    calc (16:ℝ) ≤ 10 ^ 2 := by norm_num
      _ ≤ 10 ^ 100 := pow_le_pow_right₀ (by norm_num) (by norm_num)
  have hm16 : val g.mag / 10 ^ 100 ≤ val g.mag / 16 := div_le_div_of_nonneg_left (le_of_lt hmpos) (by norm_num) h100
  have hqq : val g.mag / d / 2 ^ 53 ≤ val g.mag / d / 16 := by
    apply div_le_div_of_nonneg_left (le_of_lt hq0) (by norm_num); norm_num
  constructor
  · -- rnd q ≥ q − q/2^53 − tiny > 0  since  q ≥ m/4 and tiny ≤ m/16
    have : val g.mag / d / 16 ≤ val g.mag / d / 16 := le_refl _
    nlinarith [herr.1]
  · -- rnd q ≤ q + q/2^53 + tiny < m  since  q ≤ m/1.3
    have hq13 : val g.mag / (13 / 10) = val g.mag * (10 / 13) := by field_simp
    have : val g.mag / d / 16 ≤ val g.mag / (13 / 10) / 16 := div_le_div_of_nonneg_right hq1 (by norm_num)
    nlinarith [herr.2]

/-- (S) tanh activation: the output magnitude never exceeds the input magnitude in absolute value -/
theorem tanh_bound {g : Geonum F} (hm : Fin g.mag) (h0 : 0 ≤ val g.mag) (ha : g.angle.Inv) :
    |val (ML.activate g .tanh).mag| ≤ val g.mag := by
  have hg := gradeAngle_fin ha
  obtain ⟨hfc, _, _⟩ := cos_spec hg
  obtain ⟨hft, ht1⟩ := tanh_spec hfc
  have hp : |val g.mag * val (FloatLike.tanh (FloatLike.cos g.angle.gradeAngle))| ≤ val g.mag := by
    rw [abs_mul, abs_of_nonneg h0]
    calc val g.mag * |val (FloatLike.tanh (FloatLike.cos g.angle.gradeAngle))| ≤ val g.mag * 1 :=
          mul_le_mul_of_nonneg_left ht1 h0
      _ = val g.mag := mul_one _
  obtain ⟨hfo, hvo⟩ := fmul_spec hm hft (inRange_mono (by rw [abs_of_nonneg h0]; exact hp) (inRange_val hm))
  have : val (ML.activate g .tanh).mag = rnd (F := F) (val g.mag * val (FloatLike.tanh (FloatLike.cos g.angle.gradeAngle))) := hvo
  rw [this]
  rw [abs_le] at hp ⊢
  have h1 := rnd_mono (F := F) hp.2
  have h2 := rnd_mono (F := F) hp.1
  rw [rnd_val hm] at h1
  rw [rnd_rep (rep_neg (rep_val hm))] at h2
  exact ⟨h2, h1⟩

end S

/-! PARTIAL (E-tier, not yet proved): Snell `n·sin(t_out) = sin(t_in)`, magnification ∝ 1/m², inverse field ∝ q/rⁿ, wire ∝ 1/r,
    area invariance under common translation/rotation and the shoelace formula.  Explored by `oracle.C19.laws`, `oracle.C19.area`. -/

example {F : Type} [FloatSpec F] : (⟨one, ⟨zero, 1⟩⟩ : Geonum F).angle.Inv := inv_zero 1

end GeonumModel.C19
