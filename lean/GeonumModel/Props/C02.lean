/-
  C02 — Constructors denote exactly the angle and vector they are given.
-/
import GeonumModel.Lemmas.AngleNewTotal
import GeonumModel.Spec.RealWitness
import GeonumModel.Lemmas.Exact
import GeonumModel.Lemmas.ExactAdd

set_option linter.unusedSectionVars false
set_option linter.unusedVariables false

namespace GeonumModel.C02
open GeonumModel FloatLike FloatSpec Angle Geonum

section S
variable {F : Type} [FloatSpec F]

/-- (S) exact quarter turns: `Angle::new(k as f64, 2.0)` is literally `k` blades and remainder `0.0`, for every `k < 2^53`;
    the dimension constructor is the same thing with the magnitude attached -/
theorem new_quarter_turns (k : ℕ) (hk : k < 2 ^ 53) (m : F) :
    Angle.new (FloatLike.ofNat k : F) two = ⟨zero, k⟩ ∧ Geonum.createDimension m k = ⟨m, ⟨zero, k⟩⟩ := by
  refine ⟨new_nat k hk, ?_⟩
  unfold Geonum.createDimension; rw [new_nat k hk]

/-- (S) the constant table every other operation builds on: `0`, `π/2`, `π`, `3π/2`, `−π/2` (as the forward `3π/2`), `4π` -/
theorem constant_table :
    Angle.new (zero : F) one ≈ₐ ⟨zero, 0⟩ ∧ Angle.new (one : F) one ≈ₐ ⟨zero, 2⟩ ∧ Angle.new (four : F) one ≈ₐ ⟨zero, 8⟩ ∧
    Angle.new (one : F) two = ⟨zero, 1⟩ ∧ Angle.new (three : F) two = ⟨zero, 3⟩ ∧ Angle.new (fneg one : F) two = ⟨zero, 3⟩ ∧
    Angle.newWithBlade 2 (zero : F) one = ⟨zero, 2⟩ :=
  ⟨new_zero_one, new_one_one, new_four_one, new_one_two, new_three_two, new_negone_two, newWithBlade_zero 2 (by norm_num)⟩

/-- (S) **general path, non-negative total**: writing `nt` for the float total `(p·π)/d` the constructor itself computes,
    the result holds exactly `⌊nt/(π/2)⌋` quarter turns with `blade·(π/2) + rem = nt` as an identity (the `fmod` is exact),
    unless the remainder was within `1e-10` of a quarter turn, in which case it is the next blade with remainder 0 and the
    total moves by less than `1e-10`.  Relies on fix f40c5b0 (blade derived from the remainder). -/
theorem new_decomposition {p d : F} (hp : Fin p) (hd : Fin d) (hpb : |val p| ≤ 10 ^ 200)
    (hdl : 1 / 10 ^ 200 ≤ |val d|) (hq : |val p * piV F / val d| ≤ 2 ^ 42)
    (hfast : (feq d two && feq (FloatLike.fract p) zero) = false) :
    let nt := val (newTotal p d)
    let r := Angle.new p d
    (r.blade = ⌊nt / val (qp : F)⌋₊ ∧ (r.blade : ℝ) * val (qp : F) + val r.rem = nt) ∨
    (r.blade = ⌊nt / val (qp : F)⌋₊ + 1 ∧ val r.rem = 0 ∧ |(r.blade : ℝ) * val (qp : F) - nt| < val (e10 : F)) := by
  intro nt r
  obtain ⟨hf, h0, h1⟩ := newTotal_spec hp hd hpb hdl hq
  have hcore := (newCore_spec (newTotal p d) hf h0 h1).2
  have hr : r = normalizeBoundaries ⟨fmod (newTotal p d) qp,
      toUsize (FloatLike.round (fdiv (fsub (newTotal p d) (fmod (newTotal p d) qp)) qp))⟩ := by
    show Angle.new p d = _
    unfold Angle.new newGeneral
    simp [hfast]
  rw [hr]; exact hcore

/-- (S) an explicit blade offset adds exactly that many quarter turns and leaves the remainder's value untouched -/
theorem newWithBlade_adds {p d : F} (k : ℕ) (hk : k < 2 ^ 53) (hi : (Angle.new p d).Inv) :
    (Angle.newWithBlade k p d).blade = (Angle.new p d).blade + k ∧
    val (Angle.newWithBlade k p d).rem = val (Angle.new p d).rem := by
  unfold Angle.newWithBlade
  simp only [Angle.add, addVV]
  rw [new_nat k hk]
  have := add_whole (z := (⟨zero, k⟩ : Angle F)) hi fin_zero val_zero
  exact ⟨this.1, this.2.2⟩

/-- (S) scalar constructor: magnitude `|v|`; a non-negative value (including `±0`) sits on blade 0, a negative one on
    blade 2 (a half turn), remainder of value 0 in both cases -/
theorem scalar_spec {v : F} (hv : Fin v) :
    val (Geonum.scalar v).mag = |val v| ∧ val (Geonum.scalar v).angle.rem = 0 ∧
    (0 ≤ val v → (Geonum.scalar v).angle.blade = 0) ∧ (val v < 0 → (Geonum.scalar v).angle.blade = 2) := by
  obtain ⟨hb0, _, _, hv0⟩ := new_zero_one (F := F)
  obtain ⟨hb1, _, _, hv1⟩ := new_one_one (F := F)
  simp only at hb0 hv0 hb1 hv1; rw [val_zero] at hv0 hv1
  refine ⟨(fabs_spec hv).2, ?_, ?_, ?_⟩
  · unfold Geonum.scalar; simp only; split <;> assumption
  · intro h
    have : fge v (zero : F) = true := (fle_spec fin_zero hv).mpr (by rwa [val_zero])
    unfold Geonum.scalar; simp only [this, if_true]; exact hb0
  · intro h
    have : fge v (zero : F) = false := by
      rw [Bool.eq_false_iff]; intro c
      have := (fle_spec fin_zero hv).mp c; rw [val_zero] at this; linarith
    unfold Geonum.scalar; simp only [this, Bool.false_eq_true, if_false]; exact hb1

/-- (B) **accuracy of the constructor's raw total**: whichever order of operations the normal-range test selects, the float
    total is within a relative `8·2⁻⁵³` (four ulps) of the real `p·π/d` (π being the float constant's value), plus an absolute
    `2⁻¹⁰⁷⁰` that only matters for totals that are themselves subnormal.  Without the guard of fix 1409e77 the absolute term would be
    `2⁻¹⁰⁷⁵/|d|`, unbounded as `d → 0` — the digits a subnormal product loses. -/
theorem raw_total_accuracy {p d : F} (hp : Fin p) (hd : Fin d) (hpb : |val p| ≤ 10 ^ 200)
    (hdl : 1 / 10 ^ 200 ≤ |val d|) (hq : |val p * piV F / val d| ≤ 2 ^ 42) :
    |val (newRawTotal p d) - val p * piV F / val d| ≤ |val p * piV F / val d| * (8 / 2 ^ 53) + 1 / 2 ^ 1070 := by
  have hpi3 := piV_gt3 (F := F); have hpi4 := piV_lt4 (F := F)
  have hdpos : 0 < |val d| := lt_of_lt_of_le (by positivity) hdl
  have hd0 : val d ≠ 0 := abs_pos.mp hdpos
  obtain ⟨hf1, hv1, hx1d⟩ := scaled_spec hp hd hpb hdl hq
  have he1 := rnd_err (F := F) (val p * piV F)
  rw [← hv1] at he1
  -- the tiny constants and their relations; their values are then forgotten
  have htN : (1:ℝ) / 2 ^ 1075 * 2 ^ 53 = 1 / 2 ^ 1022 := by
    rw [show (1075:ℕ) = 1022 + 53 by norm_num, pow_add]; field_simp
  have ht32 : (1:ℝ) / 2 ^ 1075 * 32 = 1 / 2 ^ 1070 := by
    rw [show (1075:ℕ) = 1070 + 5 by norm_num, pow_add]; field_simp; norm_num
  have ht0 : (0:ℝ) < 1 / 2 ^ 1075 := by positivity
  have h53 : (0:ℝ) < 2 ^ 53 := by positivity
  obtain ⟨x1, hx1⟩ : ∃ x, x = val (fmul p (FloatLike.pi : F)) := ⟨_, rfl⟩
  obtain ⟨A, hA⟩ : ∃ A, A = |val p * piV F| := ⟨_, rfl⟩
  obtain ⟨D, hD⟩ : ∃ D, D = |val d| := ⟨_, rfl⟩
  have hA0 : 0 ≤ A := by rw [hA]; exact abs_nonneg _
  have hQ : |val p * piV F / val d| = A / D := by rw [abs_div, hA, hD]
  have hQ0 : 0 ≤ A / D := by rw [← hQ]; exact abs_nonneg _
  rw [← hx1, ← hA] at he1
  rw [← hx1] at hx1d
  unfold newRawTotal
  simp only
  by_cases hnorm : FloatLike.isNormal (fmul p (FloatLike.pi : F)) = true
  · rw [if_pos hnorm]
    have hN := (isNormal_spec hf1).mp hnorm
    rw [← hx1] at hN
    obtain ⟨hf2, hv2⟩ := fdiv_spec hf1 hd hd0 (by
      rw [← hx1]; apply inRange_of_abs_le_2p60
      have : (2:ℝ) ^ 42 + 2 ≤ 2 ^ 60 := by norm_num
      linarith)
    rw [← hx1] at hv2
    have he2 := rnd_err (F := F) (x1 / val d)
    rw [← hv2] at he2
    rw [hQ]
    generalize (1:ℝ) / 2 ^ 1022 = N at htN hN
    generalize (1:ℝ) / 2 ^ 1070 = T at ht32 ⊢
    generalize (1:ℝ) / 2 ^ 1075 = t at htN ht32 ht0 he1 he2
    -- the smallest normal number bounds the product from below, so the absolute rounding term is a relative one
    have hx1A : |x1| ≤ 2 * A + t := by
      have h := abs_sub_abs_le_abs_sub x1 (val p * piV F)
      rw [← hA] at h
      have : A / 2 ^ 53 ≤ A := div_le_self hA0 (by norm_num)
      linarith
    have htA : t ≤ 4 * A / 2 ^ 53 := by
      rw [le_div_iff₀ h53]
      have : (2:ℝ) ^ 53 = 9007199254740992 := by norm_num
      rw [this] at htN ⊢
      linarith
    have hs0 : |x1 - val p * piV F| ≤ 5 * A / 2 ^ 53 := by
      have : A / 2 ^ 53 + 4 * A / 2 ^ 53 = 5 * A / 2 ^ 53 := by ring
      linarith
    have hs1 : |x1 / val d - val p * piV F / val d| ≤ 5 * (A / D) / 2 ^ 53 := by
      have e : x1 / val d - val p * piV F / val d = (x1 - val p * piV F) / val d := by ring
      rw [e, abs_div, ← hD]
      calc |x1 - val p * piV F| / D ≤ (5 * A / 2 ^ 53) / D := div_le_div_of_nonneg_right hs0 (by rw [hD]; exact le_of_lt hdpos)
        _ = 5 * (A / D) / 2 ^ 53 := by ring
    have hx1q : |x1 / val d| ≤ 2 * (A / D) := by
      have h := abs_sub_abs_le_abs_sub (x1 / val d) (val p * piV F / val d)
      rw [hQ] at h
      have : 5 * (A / D) / 2 ^ 53 ≤ A / D := by
        rw [div_le_iff₀ h53]; nlinarith [show (5:ℝ) ≤ 2 ^ 53 by norm_num]
      linarith
    have hx1q' : |x1 / val d| / 2 ^ 53 ≤ 2 * (A / D) / 2 ^ 53 := div_le_div_of_nonneg_right hx1q (le_of_lt h53)
    have hfin := abs_sub_le (val (fdiv (fmul p (FloatLike.pi : F)) d)) (x1 / val d) (val p * piV F / val d)
    have hT : t ≤ T := by rw [← ht32]; linarith
    have e8 : A / D * (8 / 2 ^ 53) = 8 * (A / D) / 2 ^ 53 := by ring
    have e7 : 2 * (A / D) / 2 ^ 53 + 5 * (A / D) / 2 ^ 53 ≤ 8 * (A / D) / 2 ^ 53 := by
      have : 2 * (A / D) / 2 ^ 53 + 5 * (A / D) / 2 ^ 53 = 7 * (A / D) / 2 ^ 53 := by ring
      rw [this]; apply div_le_div_of_nonneg_right _ (le_of_lt h53); linarith
    rw [e8]
    linarith
  · rw [if_neg hnorm]
    -- tiny product: divide first, scale last; two roundings, each with an absolute term of at most `t`
    have hpabs : |val p| ≤ 1 / 10 ^ 300 := by
      have hnn : ¬ ((1:ℝ) / 2 ^ 1022 ≤ |x1|) := fun h => hnorm ((isNormal_spec hf1).mpr (by rw [← hx1]; exact h))
      push Not at hnn
      have h1022 : 4 * ((1:ℝ) / 2 ^ 1022) ≤ 1 / 10 ^ 300 := by
        have e : 4 * ((1:ℝ) / 2 ^ 1022) = 1 / 2 ^ 1020 := by
          rw [show (1022:ℕ) = 2 + 1020 by norm_num, pow_add]; field_simp; norm_num
        rw [e]
        apply one_div_le_one_div_of_le (by positivity)
        calc (10:ℝ) ^ 300 = (10 ^ 3) ^ 100 := by rw [← pow_mul]
          _ ≤ (2 ^ 10) ^ 100 := by gcongr; norm_num
          _ = 2 ^ 1000 := by rw [← pow_mul]
          _ ≤ 2 ^ 1020 := pow_le_pow_right₀ (by norm_num) (by norm_num)
      have htiny : (1:ℝ) / 2 ^ 1075 ≤ 1 / 2 ^ 1022 :=
        one_div_le_one_div_of_le (by positivity) (pow_le_pow_right₀ (by norm_num) (by norm_num))
      generalize (1:ℝ) / 2 ^ 1022 = u at hnn htiny h1022
      generalize (1:ℝ) / 2 ^ 1075 = t at he1 htiny
      have hpp : A ≤ 4 * u := by
        have h1 := abs_sub_abs_le_abs_sub (val p * piV F) x1
        rw [abs_sub_comm, ← hA] at h1
        have h2 : A / 2 ^ 53 ≤ A / 2 := by
          apply div_le_div_of_nonneg_left hA0 (by norm_num) (by norm_num)
        linarith
      rw [hA, abs_mul, abs_of_pos (by linarith : (0:ℝ) < piV F)] at hpp
      nlinarith [abs_nonneg (val p)]
    have hpd : |val p / val d| ≤ 1 := by
      rw [abs_div, div_le_one hdpos]
      have : (1:ℝ) / 10 ^ 300 ≤ 1 / 10 ^ 200 :=
        one_div_le_one_div_of_le (by positivity) (pow_le_pow_right₀ (by norm_num) (by norm_num))
      generalize (1:ℝ) / 10 ^ 300 = a at this hpabs
      generalize (1:ℝ) / 10 ^ 200 = b at this hdl
      linarith
    obtain ⟨hf3, hv3⟩ := fdiv_spec hp hd hd0 (by apply inRange_of_abs_le_1000; linarith)
    have he3 := rnd_err (F := F) (val p / val d)
    rw [← hv3] at he3
    obtain ⟨y, hy⟩ : ∃ y, y = val (fdiv p d) := ⟨_, rfl⟩
    rw [← hy] at he3 hv3
    have hy3 : |y| ≤ 3 := by
      have h := abs_sub_abs_le_abs_sub y (val p / val d)
      have h53' : |val p / val d| / 2 ^ 53 ≤ 1 := by
        rw [div_le_one (by positivity)]; linarith [show (1:ℝ) ≤ 2 ^ 53 by norm_num]
      have : (1:ℝ) / 2 ^ 1075 ≤ 1 := by rw [div_le_one (by positivity)]; exact one_le_pow₀ (by norm_num)
      linarith
    obtain ⟨hf4, hv4⟩ := fmul_spec hf3 (fin_pi (F := F)) (by
      rw [val_pi, ← hy]; apply inRange_of_abs_le_1000
      rw [abs_mul, abs_of_pos (by linarith : (0:ℝ) < piV F)]
      nlinarith [abs_nonneg y])
    rw [val_pi, ← hy] at hv4
    have he4 := rnd_err (F := F) (y * piV F)
    rw [← hv4] at he4
    -- q = (p/d)·π
    have hqe : val p * piV F / val d = val p / val d * piV F := by ring
    have hQe : A / D = |val p / val d| * piV F := by
      rw [← hQ, hqe, abs_mul, abs_of_pos (by linarith : (0:ℝ) < piV F)]
    rw [hQ, hqe]
    generalize (1:ℝ) / 2 ^ 1070 = T at ht32 ⊢
    generalize (1:ℝ) / 2 ^ 1075 = t at ht32 ht0 he3 he4 htN
    obtain ⟨r, hr⟩ : ∃ r, r = |val p / val d| := ⟨_, rfl⟩
    rw [← hr] at he3 hQe
    have hr0 : 0 ≤ r := by rw [hr]; exact abs_nonneg _
    -- |yπ − (p/d)π| ≤ π(r/2^53 + t)
    have h1 : |y * piV F - val p / val d * piV F| ≤ piV F * (r / 2 ^ 53 + t) := by
      rw [← sub_mul, abs_mul, abs_of_pos (by linarith : (0:ℝ) < piV F), mul_comm]
      exact mul_le_mul_of_nonneg_left he3 (by linarith)
    -- |yπ| ≤ π(r + r/2^53 + t)
    have h2 : |y * piV F| ≤ piV F * (r + r / 2 ^ 53 + t) := by
      rw [abs_mul, abs_of_pos (by linarith : (0:ℝ) < piV F), mul_comm]
      apply mul_le_mul_of_nonneg_left _ (by linarith)
      have h := abs_sub_abs_le_abs_sub y (val p / val d)
      rw [← hr] at h; linarith
    have h2' : |y * piV F| / 2 ^ 53 ≤ piV F * (r + r / 2 ^ 53 + t) / 2 ^ 53 := div_le_div_of_nonneg_right h2 (le_of_lt h53)
    have hfin := abs_sub_le (val (fmul (fdiv p d) (FloatLike.pi : F))) (y * piV F) (val p / val d * piV F)
    have hrr : r / 2 ^ 53 ≤ r := div_le_self hr0 (by norm_num)
    have e8 : A / D * (8 / 2 ^ 53) = 8 * (piV F * r) / 2 ^ 53 := by rw [hQe]; ring
    rw [e8]
    -- collect: π(r + r/2^53 + t)/2^53 + t + π(r/2^53 + t) ≤ 8πr/2^53 + 32t
    have hπr : 0 ≤ piV F * r := mul_nonneg (by linarith) hr0
    have c1 : piV F * (r + r / 2 ^ 53 + t) / 2 ^ 53 ≤ 2 * (piV F * r) / 2 ^ 53 + 4 * t := by
      have e : piV F * (r + r / 2 ^ 53 + t) / 2 ^ 53 = (piV F * r) / 2 ^ 53 + (piV F * r) / 2 ^ 53 / 2 ^ 53 + piV F * t / 2 ^ 53 := by ring
      rw [e]
      have a1 : (piV F * r) / 2 ^ 53 / 2 ^ 53 ≤ (piV F * r) / 2 ^ 53 := div_le_self (div_nonneg hπr (le_of_lt h53)) (by norm_num)
      have a2 : piV F * t / 2 ^ 53 ≤ 4 * t := by
        rw [div_le_iff₀ h53]; nlinarith [show (1:ℝ) ≤ 2 ^ 53 by norm_num]
      have a3 : 2 * (piV F * r) / 2 ^ 53 = (piV F * r) / 2 ^ 53 + (piV F * r) / 2 ^ 53 := by ring
      linarith
    have c2 : piV F * (r / 2 ^ 53 + t) ≤ (piV F * r) / 2 ^ 53 + 4 * t := by
      have e : piV F * (r / 2 ^ 53 + t) = (piV F * r) / 2 ^ 53 + piV F * t := by ring
      have : piV F * t ≤ 4 * t := mul_le_mul_of_nonneg_right (le_of_lt hpi4) (le_of_lt ht0)
      rw [e]; linarith
    have c3 : 2 * (piV F * r) / 2 ^ 53 + (piV F * r) / 2 ^ 53 ≤ 8 * (piV F * r) / 2 ^ 53 := by
      have : 2 * (piV F * r) / 2 ^ 53 + (piV F * r) / 2 ^ 53 = 3 * (piV F * r) / 2 ^ 53 := by ring
      rw [this]
      have h38 : 3 * (piV F * r) ≤ 8 * (piV F * r) := by linarith
      exact div_le_div_of_nonneg_right h38 (le_of_lt h53)
    have hT : 9 * t ≤ T := by rw [← ht32]; linarith
    linarith

end S

section G
variable {F : Type} [FloatLike F]
/-- (G) the Geonum constructors attach the magnitude to the corresponding Angle constructor unchanged -/
theorem geonum_ctors (m p d x y : F) (k : ℕ) (a : Angle F) :
    Geonum.new m p d = ⟨m, Angle.new p d⟩ ∧ Geonum.newWithAngle m a = ⟨m, a⟩ ∧
    Geonum.newWithBlade m k p d = ⟨m, Angle.newWithBlade k p d⟩ ∧
    (Geonum.newFromCartesian x y).angle = Angle.newFromCartesian x y ∧
    (Geonum.newFromCartesian x y).mag = sqrt (fadd (fmul x x) (fmul y y)) := ⟨rfl, rfl, rfl, rfl, rfl⟩
end G

/-! ### E-tier: exact arithmetic — what the constructors denote -/
section E
open GeonumModel.Exact

/-- (E) **`Angle::new(p, d)` denotes `p·π/d`**: for every real `p`, `d` (any sign, fast path or general path) with
    `|p·π/d| ≤ 2^42`, the result is canonical and its total is `p·π/d` up to whole turns and a snap slack below `1e-10` -/
theorem new_denotes_real {p d : ℝ} (hb : |p * Real.pi / d| ≤ 2 ^ 42) :
    (Angle.new p d).Inv ∧
    ∃ (δ : ℝ) (m : ℤ), |δ| < 1 / 10 ^ 10 ∧ T (Angle.new p d) = p * Real.pi / d + δ + (m : ℝ) * (2 * Real.pi) :=
  new_total_real hb

/-- (E) an explicit blade offset adds exactly that many quarter turns to the total -/
theorem newWithBlade_total_real {p d : ℝ} (k : ℕ) (hk : k < 2 ^ 53) (hb : |p * Real.pi / d| ≤ 2 ^ 42) :
    T (Angle.newWithBlade k p d) = T (Angle.new p d) + (k : ℝ) * (Real.pi / 2) := by
  unfold Angle.newWithBlade
  simp only [Angle.add, addVV]
  rw [new_nat k hk, add_whole_total_real (new_total_real hb).1 (show (⟨zero, k⟩ : Angle ℝ).rem = 0 from lit_real.1)]
  unfold T; simp only; rw [lit_real.1]; ring

/-- (E) **the Cartesian constructor reproduces the direction of `(x, y)`**: its total is `arg(x + iy)` up to whole turns and the
    snap slack, and its magnitude is the Euclidean norm -/
theorem newFromCartesian_real (x y : ℝ) :
    (Geonum.newFromCartesian x y).mag = Real.sqrt (x * x + y * y) ∧
    ∃ (δ : ℝ) (m : ℤ), |δ| < 1 / 10 ^ 10 ∧
      T (Geonum.newFromCartesian x y).angle = Complex.arg ⟨x, y⟩ + δ + (m : ℝ) * (2 * Real.pi) := by
  refine ⟨rfl, ?_⟩
  have hpi := Real.pi_pos
  have harg : |Complex.arg ⟨x, y⟩| ≤ Real.pi := Complex.abs_arg_le_pi _
  have hq : Complex.arg ⟨x, y⟩ / Real.pi * Real.pi / 1 = Complex.arg ⟨x, y⟩ := by field_simp
  have hb : |Complex.arg ⟨x, y⟩ / Real.pi * Real.pi / 1| ≤ 2 ^ 42 := by
    rw [hq]
    have : Real.pi ≤ 2 ^ 42 := by have := Real.pi_lt_four; norm_num; linarith
    linarith
  obtain ⟨_, δ, m, hδ, hT⟩ := new_total_real (p := Complex.arg ⟨x, y⟩ / Real.pi) (d := 1) hb
  refine ⟨δ, m, hδ, ?_⟩
  have hdef : (Geonum.newFromCartesian x y).angle = Angle.new (Complex.arg ⟨x, y⟩ / Real.pi) 1 := by
    show Angle.newFromCartesian x y = _
    unfold Angle.newFromCartesian
    rw [lit_real.2.1]; rfl
  rw [hdef, hT, hq]

/-- (E) **a negative argument becomes a forward rotation of fewer than two turns** — at most one turn (blade ≤ 4, exactly 4 only
    with remainder 0) unless it is an exact (integer) quarter-turn count, which lands on blade 3…6 -/
theorem negative_forward_real {p d : ℝ} (hneg : p * Real.pi / d < 0) (hb : |p * Real.pi / d| ≤ 2 ^ 42) :
    (Angle.new p d).blade < 8 ∧
    ((feq d (two : ℝ) && feq (FloatLike.fract p) (zero : ℝ)) = false →
      (Angle.new p d).blade ≤ 4 ∧ ((Angle.new p d).blade = 4 → (Angle.new p d).rem = 0)) := by
  have hpi := Real.pi_pos
  by_cases hfast : (feq d (two : ℝ) && feq (FloatLike.fract p) (zero : ℝ)) = true
  · refine ⟨?_, fun h => by rw [hfast] at h; cases h⟩
    rw [Bool.and_eq_true] at hfast
    have hd2 : d = 2 := by
      have := hfast.1; rw [lit_real.2.2.1, r_eq] at this; simpa using this
    obtain ⟨k, hk⟩ : ∃ k : ℤ, p = k := by
      have := (fract_spec (F := ℝ) (a := p) trivial).2
      simp only [val_id] at this
      apply this.mp
      have h2 := hfast.2; rw [lit_real.1, r_eq] at h2; simpa using h2
    have hp0 : p < 0 := by
      rw [hd2] at hneg
      by_contra hc; push Not at hc
      have : 0 ≤ p * Real.pi / 2 := by positivity
      linarith
    have hk0 : k < 0 := by have : (k : ℝ) < 0 := by rw [← hk]; exact hp0
                           exact_mod_cast this
    have hkb : |k| < 2 ^ 50 := by
      rw [hd2, hk, abs_of_neg (by rw [← hk, ← hd2]; exact hneg)] at hb
      have h3 := Real.pi_gt_three
      have : -(k : ℝ) ≤ 2 ^ 42 := by nlinarith
      rw [abs_of_neg hk0]
      have : ((-k : ℤ) : ℝ) < 2 ^ 50 := by push_cast; have : (2:ℝ) ^ 42 < 2 ^ 50 := by norm_num
                                           linarith
      exact_mod_cast this
    obtain ⟨n, hn, _, _, hn6, _⟩ := new_negInt_two (F := ℝ) k hk0 hkb
    have hof : (FloatLike.ofInt k : ℝ) = p := by rw [hk]; rfl
    have htwo : (two : ℝ) = d := by rw [hd2]; exact lit_real.2.2.1
    rw [hof, htwo] at hn
    rw [hn]; simp only; omega
  · have hfast' : (feq d (two : ℝ) && feq (FloatLike.fract p) (zero : ℝ)) = false := by simpa using hfast
    obtain ⟨n, hnt, hnt0, _, hlt, _⟩ := newTotal_real p d
    have h4 := new_blade_le_four_real hfast' (hlt hneg) hnt0
    exact ⟨by omega, fun _ => h4⟩

end E

/-! PARTIAL (not yet proved): `⌊2p/d⌋` form of the blade for `p/d ≥ 0` in exact arithmetic as a separate corollary, "fewer than
    two turns" for negative arguments, and the ulp bound relating `(p·π)/d` in floats to the real `pπ/d`.  Explored by
    `oracle.C02.new` (exact rational `⌊2p/d⌋` from the argument bit patterns) and `oracle.C02.other`. -/

example {F : Type} [FloatSpec F] : (Angle.new (zero : F) one).Inv :=
  Angle.Equiv.inv (Angle.Equiv.symm new_zero_one) (inv_zero 0)

end GeonumModel.C02
