/-
  C02 — Constructors denote exactly the angle and vector they are given.
-/
import GeonumModel.Lemmas.AngleNewTotal
import GeonumModel.Lemmas.RawTotal
import GeonumModel.Lemmas.FloatNewNeg
import GeonumModel.Lemmas.FloatCartesian
import GeonumModel.Spec.RealWitness
import GeonumModel.Lemmas.Exact
import GeonumModel.Lemmas.ExactAdd
import GeonumModel.Spec.RoundWitness

set_option linter.unusedSectionVars false
set_option linter.unusedVariables false

namespace GeonumModel.C02
open GeonumModel FloatLike FloatSpec Angle Geonum

section S
variable {F : Type} [FloatSpec F]

/-- (S) exact quarter turns: `Angle::new(k as f64, 2.0)` is literally `k` blades and remainder `0.0`, for every `k < 2^53`;
    the dimension constructor is the same thing with the magnitude attached -/
theorem new_quarter_turns (k : ℕ) (hk : k < 2 ^ 53) (m : F) :
    Angle.new (FloatLike.ofNat k : F) two = ⟨zero, k⟩ ∧ Geonum.createDimension m k = ⟨m, ⟨zero, k⟩⟩ := by
  refine ⟨new_nat k hk, ?_⟩
  unfold Geonum.createDimension; rw [new_nat k hk]

/-- (S) the constant table every other operation builds on: `0`, `π/2`, `π`, `3π/2`, `−π/2` (as the forward `3π/2`), `4π` -/
theorem constant_table :
    Angle.new (zero : F) one ≈ₐ ⟨zero, 0⟩ ∧ Angle.new (one : F) one ≈ₐ ⟨zero, 2⟩ ∧ Angle.new (four : F) one ≈ₐ ⟨zero, 8⟩ ∧
    Angle.new (one : F) two = ⟨zero, 1⟩ ∧ Angle.new (three : F) two = ⟨zero, 3⟩ ∧ Angle.new (fneg one : F) two = ⟨zero, 3⟩ ∧
    Angle.newWithBlade 2 (zero : F) one = ⟨zero, 2⟩ :=
  ⟨new_zero_one, new_one_one, new_four_one, new_one_two, new_three_two, new_negone_two, newWithBlade_zero 2 (by norm_num)⟩

/-- (S) **general path, non-negative total**: writing `nt` for the float total `(p·π)/d` the constructor itself computes,
    the result holds exactly `⌊nt/(π/2)⌋` quarter turns with `blade·(π/2) + rem = nt` as an identity (the `fmod` is exact),
    unless the remainder was within `1e-10` of a quarter turn, in which case it is the next blade with remainder 0 and the
    total moves by less than `1e-10`.  Relies on fix f40c5b0 (blade derived from the remainder). -/
theorem new_decomposition {p d : F} (hp : Fin p) (hd : Fin d) (hpb : |val p| ≤ 10 ^ 200)
    (hdl : 1 / 10 ^ 200 ≤ |val d|) (hq : |val p * piV F / val d| ≤ 2 ^ 42)
    (hfast : (feq d two && feq (FloatLike.fract p) zero) = false) :
    let nt := val (newTotal p d)
    let r := Angle.new p d
    (r.blade = ⌊nt / val (qp : F)⌋₊ ∧ (r.blade : ℝ) * val (qp : F) + val r.rem = nt) ∨
    (r.blade = ⌊nt / val (qp : F)⌋₊ + 1 ∧ val r.rem = 0 ∧ |(r.blade : ℝ) * val (qp : F) - nt| < val (e10 : F)) := by
  intro nt r
  obtain ⟨hf, h0, h1⟩ := newTotal_spec hp hd hpb hdl hq
  have hcore := (newCore_spec (newTotal p d) hf h0 h1).2
  have hr : r = normalizeBoundaries ⟨fmod (newTotal p d) qp,
      toUsize (FloatLike.round (fdiv (fsub (newTotal p d) (fmod (newTotal p d) qp)) qp))⟩ := by
    show Angle.new p d = _
    unfold Angle.new newGeneral
    simp [hfast]
  rw [hr]; exact hcore

/-- (S) an explicit blade offset adds exactly that many quarter turns and leaves the remainder's value untouched -/
theorem newWithBlade_adds {p d : F} (k : ℕ) (hk : k < 2 ^ 53) (hi : (Angle.new p d).Inv) :
    (Angle.newWithBlade k p d).blade = (Angle.new p d).blade + k ∧
    val (Angle.newWithBlade k p d).rem = val (Angle.new p d).rem := by
  unfold Angle.newWithBlade
  simp only [Angle.add, addVV]
  rw [new_nat k hk]
  have := add_whole (z := (⟨zero, k⟩ : Angle F)) hi fin_zero val_zero
  exact ⟨this.1, this.2.2⟩

/-- (S) scalar constructor: magnitude `|v|`; a non-negative value (including `±0`) sits on blade 0, a negative one on
    blade 2 (a half turn), remainder of value 0 in both cases -/
theorem scalar_spec {v : F} (hv : Fin v) :
    val (Geonum.scalar v).mag = |val v| ∧ val (Geonum.scalar v).angle.rem = 0 ∧
    (0 ≤ val v → (Geonum.scalar v).angle.blade = 0) ∧ (val v < 0 → (Geonum.scalar v).angle.blade = 2) := by
  obtain ⟨hb0, _, _, hv0⟩ := new_zero_one (F := F)
  obtain ⟨hb1, _, _, hv1⟩ := new_one_one (F := F)
  simp only at hb0 hv0 hb1 hv1; rw [val_zero] at hv0 hv1
  refine ⟨(fabs_spec hv).2, ?_, ?_, ?_⟩
  · unfold Geonum.scalar; simp only; split <;> assumption
  · intro h
    have : fge v (zero : F) = true := (fle_spec fin_zero hv).mpr (by rwa [val_zero])
    unfold Geonum.scalar; simp only [this, if_true]; exact hb0
  · intro h
    have : fge v (zero : F) = false := by
      rw [Bool.eq_false_iff]; intro c
      have := (fle_spec fin_zero hv).mp c; rw [val_zero] at this; linarith
    unfold Geonum.scalar; simp only [this, Bool.false_eq_true, if_false]; exact hb1

/-- (B) **accuracy of the constructor's raw total**: whichever order of operations the normal-range test selects, the float
    total is within a relative `8·2⁻⁵³` (four ulps) of the real `p·π/d` (π being the float constant's value), plus an absolute
    `2⁻¹⁰⁷⁰` that only matters for totals that are themselves subnormal.  Without the guard of fix 1409e77 the absolute term would be
    `2⁻¹⁰⁷⁵/|d|`, unbounded as `d → 0` — the digits a subnormal product loses. -/
theorem raw_total_accuracy {p d : F} (hp : Fin p) (hd : Fin d) (hpb : |val p| ≤ 10 ^ 200)
    (hdl : 1 / 10 ^ 200 ≤ |val d|) (hq : |val p * piV F / val d| ≤ 2 ^ 42) :
    |val (newRawTotal p d) - val p * piV F / val d| ≤ |val p * piV F / val d| * (8 / 2 ^ 53) + 1 / 2 ^ 1070 :=
  Angle.rawTotal_accuracy hp hd hpb hdl hq

/-- (B) **main clause in rounded arithmetic, `p ≥ 0`, `d > 0`, either path**: the result is canonical and its float total
    `Tq = blade·(π_f/2) + rem` is `p·π_f/d` to within the `1e-10` snap plus `8·2⁻⁵³` relative (`+ 2⁻¹⁰⁷⁰`).  (`π_f` is the binary64
    constant; it differs from π by less than `2e-16`, i.e. by less than one more ulp of the total.) -/
theorem new_total_float {p d : F} (hp : Fin p) (hd : Fin d) (hpb : |val p| ≤ 10 ^ 200)
    (hdl : 1 / 10 ^ 200 ≤ |val d|) (hq : |val p * piV F / val d| ≤ 2 ^ 42) (hp0 : 0 ≤ val p) (hd0 : 0 < val d) :
    (Angle.new p d).Inv ∧
    |Angle.Tq (Angle.new p d) - val p * piV F / val d| < val (e10 : F) + val p * piV F / val d * (8 / 2 ^ 53) + 1 / 2 ^ 1070 :=
  Angle.new_total_float hp hd hpb hdl hq hp0 hd0

/-- (B) **the blade count is `⌊2p/d⌋` in rounded arithmetic** whenever `p·π_f/d` is clear of the two ends of its quarter turn by
    the margin `1e-10 + (p·π_f/d)·8·2⁻⁵³ + 2⁻¹⁰⁷⁰`: "exactly floor(2p/d) quarter turns, to within the boundary tolerance plus a few
    ulps of the total".  Inside the margin the neighbouring count with the matching remainder is returned (`new_total_float`). -/
theorem new_blade_float {p d : F} (hp : Fin p) (hd : Fin d) (hpb : |val p| ≤ 10 ^ 200)
    (hdl : 1 / 10 ^ 200 ≤ |val d|) (hq : |val p * piV F / val d| ≤ 2 ^ 42) (hp0 : 0 ≤ val p) (hd0 : 0 < val d) (n : ℕ)
    (hlo : (n : ℝ) * val (qp : F) + (val (e10 : F) + val p * piV F / val d * (8 / 2 ^ 53) + 1 / 2 ^ 1070) ≤ val p * piV F / val d)
    (hhi : val p * piV F / val d + (val (e10 : F) + val p * piV F / val d * (8 / 2 ^ 53) + 1 / 2 ^ 1070) ≤ ((n : ℝ) + 1) * val (qp : F)) :
    (Angle.new p d).blade = n :=
  Angle.new_blade_float hp hd hpb hdl hq hp0 hd0 n hlo hhi

/-- (B) **the repaired Cartesian constructor keeps the length of every finite vector** (fix 9118133): whenever the rescaled branch is taken
    — the sum of squares is not a normal number, i.e. components below ~1.5e-154 or above ~1.3e154 — the magnitude
    `s·√((x/s)² + (y/s)²)`, `s = max(|x|,|y|)`, is finite and equals the true length `√(x² + y²)` to within `11·2⁻⁵³` relative plus the
    subnormal absolute error `2⁻¹⁰⁷⁵`, for `0 < s ≤ 1e120` (the contract's `InRange` is asserted up to `1e250`); before the fix the same inputs
    gave `0` resp. `inf`.  In the other branch the magnitude is the unchanged `√(x·x + y·y)` (`geonum_ctors`). -/
theorem newFromCartesian_rescaled_float {x y : F} (hx : Fin x) (hy : Fin y) (hs0 : 0 < max |val x| |val y|)
    (hs1 : max |val x| |val y| ≤ 10 ^ 120)
    (hbr : (FloatLike.isNormal (fadd (fmul x x) (fmul y y)) || feq (fmax (fabs x) (fabs y)) zero
          || !(FloatLike.isFinite (fmax (fabs x) (fabs y)))) = false) :
    Fin (Geonum.newFromCartesian x y).mag ∧
    |val (Geonum.newFromCartesian x y).mag - Real.sqrt (val x * val x + val y * val y)|
      ≤ Real.sqrt (val x * val x + val y * val y) * (11 * (1 / 2 ^ 53)) + 1 / 2 ^ 1075 := by
  have hm : (Geonum.newFromCartesian x y).mag =
      (if FloatLike.isNormal (fadd (fmul x x) (fmul y y)) || feq (fmax (fabs x) (fabs y)) zero
          || !(FloatLike.isFinite (fmax (fabs x) (fabs y))) then sqrt (fadd (fmul x x) (fmul y y))
       else fmul (fmax (fabs x) (fabs y)) (sqrt (fadd
          (fmul (fdiv x (fmax (fabs x) (fabs y))) (fdiv x (fmax (fabs x) (fabs y))))
          (fmul (fdiv y (fmax (fabs x) (fabs y))) (fdiv y (fmax (fabs x) (fabs y))))))) := rfl
  rw [hm, hbr]
  simp only [Bool.false_eq_true, if_false]
  exact Geonum.rescaled_mag_float hx hy hs0 hs1

/-- (B) **the magnitude of `Geonum::new_from_cartesian` in rounded arithmetic, every finite non-zero vector** (`max(|x|,|y|) ≤ 1e120`,
    both branches of the repaired code): finite, and the true length `√(x² + y²)` to within `11·2⁻⁵³` relative plus `2⁻¹⁰⁷⁵` -/
theorem newFromCartesian_mag_float {x y : F} (hx : Fin x) (hy : Fin y) (hs0 : 0 < max |val x| |val y|)
    (hs1 : max |val x| |val y| ≤ 10 ^ 120) :
    Fin (Geonum.newFromCartesian x y).mag ∧
    |val (Geonum.newFromCartesian x y).mag - Real.sqrt (val x * val x + val y * val y)|
      ≤ Real.sqrt (val x * val x + val y * val y) * (11 * (1 / 2 ^ 53)) + 1 / 2 ^ 1075 := by
  by_cases hn : FloatLike.isNormal (fadd (fmul x x) (fmul y y)) = true
  · have hm : (Geonum.newFromCartesian x y).mag = sqrt (fadd (fmul x x) (fmul y y)) := by
      show (if FloatLike.isNormal (fadd (fmul x x) (fmul y y)) || feq (fmax (fabs x) (fabs y)) zero
          || !(FloatLike.isFinite (fmax (fabs x) (fabs y))) then sqrt (fadd (fmul x x) (fmul y y)) else _) = _
      simp [hn]
    rw [hm]
    obtain ⟨hf, h⟩ := Geonum.direct_mag_float hx hy (le_trans (le_max_left _ _) hs1) (le_trans (le_max_right _ _) hs1) hn
    refine ⟨hf, le_trans h ?_⟩
    have : 0 ≤ Real.sqrt (val x * val x + val y * val y) := Real.sqrt_nonneg _
    nlinarith
  · obtain ⟨hfax, hvax⟩ := fabs_spec hx
    obtain ⟨hfay, hvay⟩ := fabs_spec hy
    obtain ⟨hfs, hvs⟩ := fmax_spec hfax hfay
    rw [hvax, hvay] at hvs
    have hz : feq (fmax (fabs x) (fabs y)) (zero : F) = false := by
      rw [Bool.eq_false_iff]; intro h
      have := (feq_spec hfs fin_zero).mp h
      rw [hvs, val_zero] at this; linarith
    have hfin := isFinite_spec hfs
    exact newFromCartesian_rescaled_float hx hy hs0 hs1 (by simp [hn, hz, hfin])

/-- (B) **a negative `p/d` in rounded arithmetic** (general path — any divisor, any sign combination with `p/d < 0`): the result is canonical
    and its float total is `X = p·π_f/d` plus a whole number `n` of turns, to within the `1e-10` snap plus `(14·|X| + 46)·2⁻⁵³`: the same
    direction as `X` modulo `2π_f`, realised as a forward rotation (the total of a canonical angle is non-negative) — through the raw total in
    either order of operations, `ceil(|X|/2π_f)`, the rounded shift `4n·(π_f/2)`, the rounded sum, the clamp at zero, the exact `fmod` and the
    snap.  The exact fast path (`d = 2`, integral `p < 0`) lands on blade `p + 4⌈(3−p)/4⌉ ∈ {3,…,6}` with remainder `0.0` (S-lemma
    `Angle.new_negInt_two`).  "At most one turn unless `2p/d` is an integer" is proved in exact arithmetic (`negative_forward_real`). -/
theorem new_negative_float {p d : F} (hp : Fin p) (hd : Fin d) (hpb : |val p| ≤ 10 ^ 200)
    (hdl : 1 / 10 ^ 200 ≤ |val d|) (hq : |val p * piV F / val d| ≤ 2 ^ 42) (hneg : val p * piV F / val d < 0)
    (hfast : (feq d two && feq (FloatLike.fract p) zero) = false) :
    (Angle.new p d).Inv ∧
    ∃ n : ℕ, |Angle.Tq (Angle.new p d) - (val p * piV F / val d + (n : ℝ) * (4 * val (qp : F)))|
      < val (e10 : F) + (14 * |val p * piV F / val d| + 46) * (1 / 2 ^ 53) + 1 / 10 ^ 300 := by
  obtain ⟨h, n, hn, _⟩ := Angle.new_total_neg_float hp hd hpb hdl hq hneg hfast
  exact ⟨h, n, hn⟩

/-- (B) **at most one full turn is added: a negative `p/d` gives the forward angle within one turn, in rounded arithmetic, for every
    divisor** (general path): with `X = p·π_f/d < 0` the float total of `Angle::new(p, d)` lies in
    `[0, 2π_f + 1e-10 + (24·|X| + 46)·2⁻⁵³]` -/
theorem negative_forward_general_float {p d : F} (hp : Fin p) (hd : Fin d) (hpb : |val p| ≤ 10 ^ 200)
    (hdl : 1 / 10 ^ 200 ≤ |val d|) (hq : |val p * piV F / val d| ≤ 2 ^ 42) (hneg : val p * piV F / val d < 0)
    (hfast : (feq d two && feq (FloatLike.fract p) zero) = false) :
    0 ≤ Angle.Tq (Angle.new p d) ∧
    Angle.Tq (Angle.new p d)
      < 4 * val (qp : F) + val (e10 : F) + (24 * |val p * piV F / val d| + 46) * (1 / 2 ^ 53) + 2 * (1 / 10 ^ 300) := by
  obtain ⟨h, n, hn, hup⟩ := Angle.new_total_neg_float hp hd hpb hdl hq hneg hfast
  constructor
  · unfold Angle.Tq
    have hq0 : 0 ≤ val (qp : F) := by rw [val_qp]; linarith [piV_gt3 (F := F)]
    have : 0 ≤ ((Angle.new p d).blade : ℝ) * val (qp : F) := mul_nonneg (Nat.cast_nonneg _) hq0
    linarith [h.2.1]
  · rw [abs_lt] at hn
    have e : (24 * |val p * piV F / val d| + 46) * (1 / 2 ^ 53)
        = (14 * |val p * piV F / val d| + 46) * (1 / 2 ^ 53) + |val p * piV F / val d| * (10 * (1 / 2 ^ 53)) := by ring
    rw [e]
    linarith [hn.2]

/-- (B) **negative radians in rounded arithmetic** (`Angle::new(x, PI)`, `-2^41 ≤ x < 0`, the form every internal re-encoding
    uses): the result is canonical and its float total is `x` plus a whole number `n` of turns, to within the snap plus
    `(14·|x| + 46)·2⁻⁵³` — the same direction modulo `2π_f`, as a forward rotation.  The divisor-`PI` instance of
    `new_negative_float`, kept because every internal re-encoding has this form. -/
theorem new_radians_negative_float {x : F} (hx : Fin x) (hx0 : val x < 0) (hb : -(2 ^ 41) ≤ val x) :
    (Angle.new x (FloatLike.pi : F)).Inv ∧
    ∃ n : ℕ, |Angle.Tq (Angle.new x (FloatLike.pi : F)) - (val x + (n : ℝ) * (4 * val (qp : F)))|
      < val (e10 : F) + (14 * |val x| + 46) * (1 / 2 ^ 53) + 1 / 10 ^ 300 := by
  obtain ⟨h, n, hn, _⟩ := Angle.new_radians_total_neg hx hx0 hb
  exact ⟨h, n, hn⟩

/-- (B) **a negative argument gives the forward angle within one turn, in rounded arithmetic**: for `-2^41 ≤ x < 0` the float total of
    `Angle::new(x, PI)` lies in `[0, 2π_f + 1e-10 + (24·|x| + 46)·2⁻⁵³]` — the "at most one full turn is added beyond what is needed"
    clause for floats (the E-tier form is `negative_forward_real`) -/
theorem negative_forward_float {x : F} (hx : Fin x) (hx0 : val x < 0) (hb : -(2 ^ 41) ≤ val x) :
    0 ≤ Angle.Tq (Angle.new x (FloatLike.pi : F)) ∧
    Angle.Tq (Angle.new x (FloatLike.pi : F))
      < 4 * val (qp : F) + val (e10 : F) + (24 * |val x| + 46) * (1 / 2 ^ 53) + 2 * (1 / 10 ^ 300) := by
  obtain ⟨h, n, hn, hup⟩ := Angle.new_radians_total_neg hx hx0 hb
  constructor
  · unfold Angle.Tq
    have hq : 0 ≤ val (qp : F) := by rw [val_qp]; linarith [piV_gt3 (F := F)]
    have : 0 ≤ ((Angle.new x (FloatLike.pi : F)).blade : ℝ) * val (qp : F) := mul_nonneg (Nat.cast_nonneg _) hq
    linarith [h.2.1]
  · rw [abs_lt] at hn
    have e : (24 * |val x| + 46) * (1 / 2 ^ 53) = (14 * |val x| + 46) * (1 / 2 ^ 53) + |val x| * (10 * (1 / 2 ^ 53)) := by ring
    rw [e]
    linarith [hn.2]

end S

section G
variable {F : Type} [FloatLike F]
/-- (G) the Geonum constructors attach the magnitude to the corresponding Angle constructor unchanged -/
theorem geonum_ctors (m p d x y : F) (k : ℕ) (a : Angle F) :
    Geonum.new m p d = ⟨m, Angle.new p d⟩ ∧ Geonum.newWithAngle m a = ⟨m, a⟩ ∧
    Geonum.newWithBlade m k p d = ⟨m, Angle.newWithBlade k p d⟩ ∧
    (Geonum.newFromCartesian x y).angle = Angle.newFromCartesian x y ∧
    (Geonum.newFromCartesian x y).mag =
      (if FloatLike.isNormal (fadd (fmul x x) (fmul y y)) || feq (fmax (fabs x) (fabs y)) zero
          || !(FloatLike.isFinite (fmax (fabs x) (fabs y))) then sqrt (fadd (fmul x x) (fmul y y))
       else fmul (fmax (fabs x) (fabs y)) (sqrt (fadd
          (fmul (fdiv x (fmax (fabs x) (fabs y))) (fdiv x (fmax (fabs x) (fabs y))))
          (fmul (fdiv y (fmax (fabs x) (fabs y))) (fdiv y (fmax (fabs x) (fabs y))))))) := ⟨rfl, rfl, rfl, rfl, rfl⟩
end G

/-! ### E-tier: exact arithmetic — what the constructors denote -/
section E
open GeonumModel.Exact

/-- (E) **`Angle::new(p, d)` denotes `p·π/d`**: for every real `p`, `d` (any sign, fast path or general path) with
    `|p·π/d| ≤ 2^42`, the result is canonical and its total is `p·π/d` up to whole turns and a snap slack below `1e-10` -/
theorem new_denotes_real {p d : ℝ} (hb : |p * Real.pi / d| ≤ 2 ^ 42) :
    (Angle.new p d).Inv ∧
    ∃ (δ : ℝ) (m : ℤ), |δ| < 1 / 10 ^ 10 ∧ T (Angle.new p d) = p * Real.pi / d + δ + (m : ℝ) * (2 * Real.pi) :=
  new_total_real hb

/-- (E) an explicit blade offset adds exactly that many quarter turns to the total -/
theorem newWithBlade_total_real {p d : ℝ} (k : ℕ) (hk : k < 2 ^ 53) (hb : |p * Real.pi / d| ≤ 2 ^ 42) :
    T (Angle.newWithBlade k p d) = T (Angle.new p d) + (k : ℝ) * (Real.pi / 2) := by
  unfold Angle.newWithBlade
  simp only [Angle.add, addVV]
  rw [new_nat k hk, add_whole_total_real (new_total_real hb).1 (show (⟨zero, k⟩ : Angle ℝ).rem = 0 from lit_real.1)]
  unfold T; simp only; rw [lit_real.1]; ring

/-- (E) **the Cartesian constructor reproduces the direction of `(x, y)`**: its total is `arg(x + iy)` up to whole turns and the
    snap slack, and its magnitude is the Euclidean norm -/
theorem newFromCartesian_real (x y : ℝ) :
    (Geonum.newFromCartesian x y).mag = Real.sqrt (x * x + y * y) ∧
    ∃ (δ : ℝ) (m : ℤ), |δ| < 1 / 10 ^ 10 ∧
      T (Geonum.newFromCartesian x y).angle = Complex.arg ⟨x, y⟩ + δ + (m : ℝ) * (2 * Real.pi) := by
  refine ⟨?_, ?_⟩
  · -- the magnitude: `√(x² + y²)` directly, or rescaled by the larger component when the sum is below the normal range (fix 9b1d)
    show (if FloatLike.isNormal (fadd (fmul x x) (fmul y y)) || feq (fmax (fabs x) (fabs y)) (zero : ℝ)
          || !(FloatLike.isFinite (fmax (fabs x) (fabs y))) then sqrt (fadd (fmul x x) (fmul y y))
       else fmul (fmax (fabs x) (fabs y)) (sqrt (fadd
          (fmul (fdiv x (fmax (fabs x) (fabs y))) (fdiv x (fmax (fabs x) (fabs y))))
          (fmul (fdiv y (fmax (fabs x) (fabs y))) (fdiv y (fmax (fabs x) (fabs y))))))) = _
    split
    · rfl
    · rename_i hc
      simp only [Bool.or_eq_true, not_or] at hc
      have hs0 : ¬ (feq (fmax (fabs x) (fabs y)) (zero : ℝ) = true) := hc.1.2
      rw [lit_real.1, r_eq, r_max, r_abs, r_abs] at hs0
      simp only [decide_eq_true_eq] at hs0
      have hspos : 0 < max |x| |y| := lt_of_le_of_ne (le_max_of_le_left (abs_nonneg x)) (Ne.symm hs0)
      show max |x| |y| * Real.sqrt (x / max |x| |y| * (x / max |x| |y|) + y / max |x| |y| * (y / max |x| |y|)) = Real.sqrt (x * x + y * y)
      have e : x * x + y * y = (max |x| |y|) ^ 2 * (x / max |x| |y| * (x / max |x| |y|) + y / max |x| |y| * (y / max |x| |y|)) := by
        field_simp
      rw [e, Real.sqrt_mul (sq_nonneg _), Real.sqrt_sq (le_of_lt hspos)]
  have hpi := Real.pi_pos
  have harg : |Complex.arg ⟨x, y⟩| ≤ Real.pi := Complex.abs_arg_le_pi _
  have hq : Complex.arg ⟨x, y⟩ / Real.pi * Real.pi / 1 = Complex.arg ⟨x, y⟩ := by field_simp
  have hb : |Complex.arg ⟨x, y⟩ / Real.pi * Real.pi / 1| ≤ 2 ^ 42 := by
    rw [hq]
    have : Real.pi ≤ 2 ^ 42 := by have := Real.pi_lt_four; norm_num; linarith
    linarith
  obtain ⟨_, δ, m, hδ, hT⟩ := new_total_real (p := Complex.arg ⟨x, y⟩ / Real.pi) (d := 1) hb
  refine ⟨δ, m, hδ, ?_⟩
  have hdef : (Geonum.newFromCartesian x y).angle = Angle.new (Complex.arg ⟨x, y⟩ / Real.pi) 1 := by
    show Angle.newFromCartesian x y = _
    unfold Angle.newFromCartesian
    rw [lit_real.2.1]; rfl
  rw [hdef, hT, hq]

/-- (E) **a negative argument becomes a forward rotation of fewer than two turns** — at most one turn (blade ≤ 4, exactly 4 only
    with remainder 0) unless it is an exact (integer) quarter-turn count, which lands on blade 3…6 -/
theorem negative_forward_real {p d : ℝ} (hneg : p * Real.pi / d < 0) (hb : |p * Real.pi / d| ≤ 2 ^ 42) :
    (Angle.new p d).blade < 8 ∧
    ((feq d (two : ℝ) && feq (FloatLike.fract p) (zero : ℝ)) = false →
      (Angle.new p d).blade ≤ 4 ∧ ((Angle.new p d).blade = 4 → (Angle.new p d).rem = 0)) := by
  have hpi := Real.pi_pos
  by_cases hfast : (feq d (two : ℝ) && feq (FloatLike.fract p) (zero : ℝ)) = true
  · refine ⟨?_, fun h => by rw [hfast] at h; cases h⟩
    rw [Bool.and_eq_true] at hfast
    have hd2 : d = 2 := by
      have := hfast.1; rw [lit_real.2.2.1, r_eq] at this; simpa using this
    obtain ⟨k, hk⟩ : ∃ k : ℤ, p = k := by
      have := (fract_spec (F := ℝ) (a := p) trivial).2
      simp only [val_id] at this
      apply this.mp
      have h2 := hfast.2; rw [lit_real.1, r_eq] at h2; simpa using h2
    have hp0 : p < 0 := by
      rw [hd2] at hneg
      by_contra hc; push Not at hc
      have : 0 ≤ p * Real.pi / 2 := by positivity
      linarith
    have hk0 : k < 0 := by have : (k : ℝ) < 0 := by rw [← hk]; exact hp0
                           exact_mod_cast this
    have hkb : |k| < 2 ^ 50 := by
      rw [hd2, hk, abs_of_neg (by rw [← hk, ← hd2]; exact hneg)] at hb
      have h3 := Real.pi_gt_three
      have : -(k : ℝ) ≤ 2 ^ 42 := by nlinarith
      rw [abs_of_neg hk0]
      have : ((-k : ℤ) : ℝ) < 2 ^ 50 := by push_cast; have : (2:ℝ) ^ 42 < 2 ^ 50 := by norm_num
                                           linarith
      exact_mod_cast this
    obtain ⟨n, hn, _, _, hn6, _⟩ := new_negInt_two (F := ℝ) k hk0 hkb
    have hof : (FloatLike.ofInt k : ℝ) = p := by rw [hk]; rfl
    have htwo : (two : ℝ) = d := by rw [hd2]; exact lit_real.2.2.1
    rw [hof, htwo] at hn
    rw [hn]; simp only; omega
  · have hfast' : (feq d (two : ℝ) && feq (FloatLike.fract p) (zero : ℝ)) = false := by simpa using hfast
    obtain ⟨n, hnt, hnt0, _, hlt, _⟩ := newTotal_real p d
    have h4 := new_blade_le_four_real hfast' (hlt hneg) hnt0
    exact ⟨by omega, fun _ => h4⟩

end E

/-! PARTIAL (not yet proved): `⌊2p/d⌋` form of the blade for `p/d ≥ 0` in exact arithmetic as a separate corollary, "fewer than
    two turns" for negative arguments, and the ulp bound relating `(p·π)/d` in floats to the real `pπ/d`.  Explored by
    `oracle.C02.new` (exact rational `⌊2p/d⌋` from the argument bit patterns) and `oracle.C02.other`. -/

example {F : Type} [FloatSpec F] : (Angle.new (zero : F) one).Inv :=
  Angle.Equiv.inv (Angle.Equiv.symm new_zero_one) (inv_zero 0)


/-! ### R — on the arithmetic that really rounds (`R64`) -/
section R

/-- (R) the Cartesian constructor keeps the length of every binary64 vector up to `1e120` -/
theorem newFromCartesian_mag_rounded {x y : R64} (hs0 : 0 < max |x.v| |y.v|) (hs1 : max |x.v| |y.v| ≤ 10 ^ 120) :
    |(Geonum.newFromCartesian x y).mag.v - Real.sqrt (x.v * x.v + y.v * y.v)|
      ≤ Real.sqrt (x.v * x.v + y.v * y.v) * (11 * (1 / 2 ^ 53)) + 1 / 2 ^ 1075 :=
  (newFromCartesian_mag_float (F := R64) trivial trivial hs0 hs1).2

end R

end GeonumModel.C02
