/-
  C09 — Dot product is the signed scalar |a||b|cos(delta), sign carried by the angle.
-/
import GeonumModel.Lemmas.AngleStep
import GeonumModel.Spec.RealWitness
import GeonumModel.Lemmas.Exact
import GeonumModel.Lemmas.FloatTrig
import GeonumModel.Lemmas.GeonumMag
import GeonumModel.Lemmas.FloatMetric
import GeonumModel.Spec.RoundWitness

set_option linter.unusedSectionVars false
set_option linter.unusedVariables false

namespace GeonumModel.C09
open GeonumModel FloatLike FloatSpec Angle

section G
variable {F : Type} [FloatLike F]

/-- (G) the dot product is `|value|` placed at the base angle `Angle::new(0,1)`, or at that plus `Angle::new(1,1)` exactly when
    the computed value tests negative; the value is `(|a|·|b|)·cos(grade_angle(tb − ta))` in that association -/
theorem dot_structure (a b : Geonum F) :
    let value := fmul (fmul a.mag b.mag) (FloatLike.cos (b.angle.sub a.angle).gradeAngle)
    (a.dot b).mag = fabs value ∧
    (flt value zero = false → (a.dot b).angle = Angle.new zero one) ∧
    (flt value zero = true → (a.dot b).angle = (Angle.new zero one).geometricAdd (Angle.new one one)) := by
  intro value
  refine ⟨rfl, ?_, ?_⟩ <;> intro h <;> simp only [Geonum.dot, Geonum.signedAt, Geonum.newWithAngle] <;>
    simp only [value] at h <;> simp [h, Angle.add, addVV]

/-- (G) the orthogonality test is exactly "dot magnitude below 1e-10" -/
theorem isOrthogonal_iff (a b : Geonum F) : a.isOrthogonal b = flt (fabs (a.dot b).mag) e10 := rfl
end G

section S
variable {F : Type} [FloatSpec F]

/-- (S) the two possible angles are exactly 0 and π on the quarter-turn lattice: blade 0 or blade 2, remainder of value 0 -/
theorem dot_lattice (a b : Geonum F) :
    ((a.dot b).angle.blade = 0 ∨ (a.dot b).angle.blade = 2) ∧ val (a.dot b).angle.rem = 0 ∧ (a.dot b).angle.Inv := by
  obtain ⟨hb0, hf0, _, hv0⟩ := new_zero_one (F := F)
  obtain ⟨hb1, hf1, _, hv1⟩ := new_one_one (F := F)
  simp only at hb0 hv0 hb1 hv1; rw [val_zero] at hv0 hv1
  have hinv0 : (Angle.new (zero : F) one).Inv := Angle.Equiv.inv (Angle.Equiv.symm new_zero_one) (inv_zero 0)
  have ds := dot_structure a b
  simp only at ds
  by_cases h : flt (fmul (fmul a.mag b.mag) (FloatLike.cos (b.angle.sub a.angle).gradeAngle)) (zero : F) = true
  · rw [ds.2.2 h]
    have hw := add_whole hinv0 hf1 hv1
    rw [hb0, hb1] at hw
    exact ⟨Or.inr (by omega), by rw [hw.2.2, hv0], inv_of_spec hinv0 hw.2⟩
  · rw [ds.2.1 (by simpa using h)]
    exact ⟨Or.inl hb0, hv0, hinv0⟩

/-- (S) non-negative magnitude; bounded by the rounded product of the magnitudes (Cauchy–Schwarz in rounded arithmetic,
    from `|cos| ≤ 1` and monotone rounding) -/
theorem dot_bounds {a b : Geonum F} (ha : Fin a.mag) (hb : Fin b.mag) (h0a : 0 ≤ val a.mag) (h0b : 0 ≤ val b.mag)
    (hg : Fin (b.angle.sub a.angle).gradeAngle)
    (hr : InRange (F := F) (val a.mag * val b.mag)) :
    0 ≤ val (a.dot b).mag ∧ val (a.dot b).mag ≤ rnd (F := F) (val a.mag * val b.mag) := by
  obtain ⟨hfp, hvp⟩ := fmul_spec ha hb hr
  obtain ⟨hfc, hc1, _⟩ := cos_spec hg
  have hp0 : 0 ≤ val (fmul a.mag b.mag) := by rw [hvp]; exact rnd_nonneg (mul_nonneg h0a h0b)
  have hprod : |val (fmul a.mag b.mag) * val (FloatLike.cos (b.angle.sub a.angle).gradeAngle)| ≤ val (fmul a.mag b.mag) := by
    rw [abs_mul, abs_of_nonneg hp0]
    calc val (fmul a.mag b.mag) * |val (FloatLike.cos (b.angle.sub a.angle).gradeAngle)|
        ≤ val (fmul a.mag b.mag) * 1 := mul_le_mul_of_nonneg_left hc1 hp0
      _ = val (fmul a.mag b.mag) := mul_one _
  obtain ⟨hfv, hvv⟩ := fmul_spec hfp hfc (inRange_mono (by rw [abs_of_nonneg hp0]; exact hprod) (inRange_val hfp))
  obtain ⟨hfa, hva⟩ := fabs_spec hfv
  have hmag : val (a.dot b).mag = |rnd (F := F) (val (fmul a.mag b.mag) * val (FloatLike.cos (b.angle.sub a.angle).gradeAngle))| := by
    show val (fabs _) = _
    rw [hva, hvv]
  rw [hmag]
  refine ⟨abs_nonneg _, ?_⟩
  rw [abs_le] at hprod
  have h1 := rnd_mono (F := F) hprod.2
  have h2 := rnd_mono (F := F) hprod.1
  rw [rnd_val hfp] at h1
  rw [rnd_rep (rep_neg (rep_val hfp))] at h2
  rw [abs_le, ← hvp]
  exact ⟨h2, h1⟩

end S

/-! ### B-tier: the value in ROUNDED arithmetic (binary64 under the FloatSpec contract), angles in true radians -/
section B
variable {F : Type} [FloatSpec F]

/-- (B) **the computed dot value is `|a||b|·cos(T b − T a)` to within `|a||b|·(1e-10 + 1e-14)`** (plus `1e-29` absolute for the
    subnormal range), where `T x = blade·π/2 + rem` with the true π: the `1e-10` is the library's boundary snap, the `1e-14`
    covers the roundings of the subtraction, of `grade_angle`, of the two products, and the libm error of `cos`.
    The returned Geonum carries `|value|` with the sign on the 0/π lattice (`dot_structure`, `dot_lattice`). -/
theorem dot_value_float {a b : Geonum F} (ha : a.angle.Inv) (hb : b.angle.Inv) (hma : a.MagDom) (hmb : b.MagDom) :
    |val (fmul (fmul a.mag b.mag) (FloatLike.cos (b.angle.geometricSub a.angle).gradeAngle))
        - val a.mag * val b.mag * Real.cos (Angle.Tpi b.angle - Angle.Tpi a.angle)|
      ≤ val a.mag * val b.mag * (val (e10 : F) + 1 / 10 ^ 14) + 1 / 10 ^ 29 :=
  Geonum.dot_value_float ha hb hma hmb

/-- (B) **`a·a = |a|²` in rounded arithmetic**: the signed value of a number dotted with itself is within `|a|²·(1e-10 + 1e-14) + 1e-29`
    of the squared magnitude -/
theorem dot_self_float {a : Geonum F} (ha : a.angle.Inv) (hma : a.MagDom) :
    |val (fmul (fmul a.mag a.mag) (FloatLike.cos (a.angle.geometricSub a.angle).gradeAngle)) - val a.mag * val a.mag|
      ≤ val a.mag * val a.mag * (val (e10 : F) + 1 / 10 ^ 14) + 1 / 10 ^ 29 := by
  have h := dot_value_float ha ha hma hma
  rw [sub_self, Real.cos_zero, mul_one] at h
  exact h

/-- (B) **Cauchy–Schwarz for the signed value, with the rounding slack**: `|a·b| ≤ |a||b|·(1 + 1e-10 + 1e-14) + 1e-29` -/
theorem dot_cauchy_schwarz_float {a b : Geonum F} (ha : a.angle.Inv) (hb : b.angle.Inv) (hma : a.MagDom) (hmb : b.MagDom) :
    |val (fmul (fmul a.mag b.mag) (FloatLike.cos (b.angle.geometricSub a.angle).gradeAngle))|
      ≤ val a.mag * val b.mag * (1 + (val (e10 : F) + 1 / 10 ^ 14)) + 1 / 10 ^ 29 := by
  have h := dot_value_float ha hb hma hmb
  have hm : 0 ≤ val a.mag * val b.mag := mul_nonneg hma.2.1 hmb.2.1
  have hc : |val a.mag * val b.mag * Real.cos (Angle.Tpi b.angle - Angle.Tpi a.angle)| ≤ val a.mag * val b.mag := by
    rw [abs_mul, abs_of_nonneg hm]
    calc val a.mag * val b.mag * |Real.cos (Angle.Tpi b.angle - Angle.Tpi a.angle)| ≤ val a.mag * val b.mag * 1 :=
          mul_le_mul_of_nonneg_left (Real.abs_cos_le_one _) hm
      _ = _ := mul_one _
  have := abs_sub_abs_le_abs_sub (val (fmul (fmul a.mag b.mag) (FloatLike.cos (b.angle.geometricSub a.angle).gradeAngle)))
    (val a.mag * val b.mag * Real.cos (Angle.Tpi b.angle - Angle.Tpi a.angle))
  have e : val a.mag * val b.mag * (1 + (val (e10 : F) + 1 / 10 ^ 14)) = val a.mag * val b.mag + val a.mag * val b.mag * (val (e10 : F) + 1 / 10 ^ 14) := by ring
  rw [e]; linarith

/-- (B) **the dot value is symmetric in rounded arithmetic**: `a·b` and `b·a` (computed from the two opposite angle differences)
    agree to within twice the accuracy bound -/
theorem dot_symm_float {a b : Geonum F} (ha : a.angle.Inv) (hb : b.angle.Inv) (hma : a.MagDom) (hmb : b.MagDom) :
    |val (fmul (fmul a.mag b.mag) (FloatLike.cos (b.angle.geometricSub a.angle).gradeAngle))
      - val (fmul (fmul b.mag a.mag) (FloatLike.cos (a.angle.geometricSub b.angle).gradeAngle))|
      ≤ 2 * (val a.mag * val b.mag * (val (e10 : F) + 1 / 10 ^ 14) + 1 / 10 ^ 29) :=
  Geonum.dot_symm_float ha hb hma hmb

end B

/-! ### E-tier: exact arithmetic (`F = ℝ`) — what the dot product *means* -/
section E
open GeonumModel.Exact

/-- the signed scalar a lattice-encoded result stands for: `−mag` on blade 2, `mag` otherwise -/
noncomputable def signed (g : Geonum ℝ) : ℝ := if g.angle.blade = 2 then -g.mag else g.mag

/-- (E) the dot product is the signed scalar `|a||b|·cos(T b − T a + δ)`, where the slack `δ` (below `1e-10 + 1e-15`) is non-zero
    only if the angle subtraction snapped; the sign is carried by the angle: blade 2 exactly when the value is negative -/
theorem dot_value_real {a b : Geonum ℝ} (ha : a.angle.Inv) (hb : b.angle.Inv) :
    ∃ δ : ℝ, |δ| < 1 / 10 ^ 10 + 1 / 10 ^ 15 ∧ signed (a.dot b) = a.mag * b.mag * Real.cos (T b.angle - T a.angle + δ) := by
  obtain ⟨δ, hδ, hcos, _⟩ := cos_sub_gradeAngle ha hb
  refine ⟨δ, hδ, ?_⟩
  rw [← hcos]
  obtain ⟨hbl, _, _⟩ := dot_lattice a b
  have ds := dot_structure a b
  simp only at ds
  obtain ⟨hb0, _, _, _⟩ := new_zero_one (F := ℝ)
  obtain ⟨hb1, hf1, _, hv1⟩ := new_one_one (F := ℝ)
  simp only at hb0 hb1 hv1
  have hinv0 : (Angle.new (zero : ℝ) one).Inv := Angle.Equiv.inv (Angle.Equiv.symm new_zero_one) (inv_zero 0)
  set v : ℝ := a.mag * b.mag * Real.cos (b.angle.geometricSub a.angle).gradeAngle with hv
  have hval : fmul (fmul a.mag b.mag) (FloatLike.cos (b.angle.sub a.angle).gradeAngle) = v := rfl
  unfold signed
  by_cases hneg : v < 0
  · have hflt : flt (fmul (fmul a.mag b.mag) (FloatLike.cos (b.angle.sub a.angle).gradeAngle)) (zero : ℝ) = true := by
      rw [hval]; show decide (v < (zero : ℝ)) = true
      have : (zero : ℝ) = 0 := val_zero (F := ℝ)
      rw [this]; simpa using hneg
    have hang := ds.2.2 hflt
    have hw := add_whole hinv0 hf1 (by rw [val_zero (F := ℝ)] at hv1; exact hv1)
    have hb2 : (a.dot b).angle.blade = 2 := by rw [hang, hw.1, hb0, hb1]
    have hmag : (a.dot b).mag = |v| := by rw [ds.1, hval]; rfl
    rw [if_pos hb2, hmag, abs_of_neg hneg]; ring
  · have hflt : flt (fmul (fmul a.mag b.mag) (FloatLike.cos (b.angle.sub a.angle).gradeAngle)) (zero : ℝ) = false := by
      rw [hval]; show decide (v < (zero : ℝ)) = false
      have : (zero : ℝ) = 0 := val_zero (F := ℝ)
      rw [this]; simpa using hneg
    have hang := ds.2.1 hflt
    have hb2 : (a.dot b).angle.blade ≠ 2 := by rw [hang, hb0]; norm_num
    have hmag : (a.dot b).mag = |v| := by rw [ds.1, hval]; rfl
    rw [if_neg hb2, hmag, abs_of_nonneg (not_lt.mp hneg)]

/-- (E) hence the value is `|a||b|·cos(T b − T a)` to within `|a||b|·(1e-10 + 1e-15)`, and it is symmetric to within twice that -/
theorem dot_value_close {a b : Geonum ℝ} (ha : a.angle.Inv) (hb : b.angle.Inv) (h0a : 0 ≤ a.mag) (h0b : 0 ≤ b.mag) :
    |signed (a.dot b) - a.mag * b.mag * Real.cos (T b.angle - T a.angle)| ≤ a.mag * b.mag * (1 / 10 ^ 10 + 1 / 10 ^ 15) := by
  obtain ⟨δ, hδ, hs⟩ := dot_value_real ha hb
  rw [hs, ← mul_sub, abs_mul, abs_of_nonneg (mul_nonneg h0a h0b)]
  apply mul_le_mul_of_nonneg_left _ (mul_nonneg h0a h0b)
  exact le_trans (cos_lipschitz _ _) (le_of_lt hδ)

theorem dot_symmetric_real {a b : Geonum ℝ} (ha : a.angle.Inv) (hb : b.angle.Inv) (h0a : 0 ≤ a.mag) (h0b : 0 ≤ b.mag) :
    |signed (a.dot b) - signed (b.dot a)| ≤ 2 * (a.mag * b.mag * (1 / 10 ^ 10 + 1 / 10 ^ 15)) := by
  have h1 := dot_value_close ha hb h0a h0b
  have h2 := dot_value_close hb ha h0b h0a
  have hc : Real.cos (T a.angle - T b.angle) = Real.cos (T b.angle - T a.angle) := by
    rw [← Real.cos_neg]; ring_nf
  rw [hc, mul_comm b.mag a.mag] at h2
  rw [abs_le] at *
  constructor <;> linarith [h1.1, h1.2, h2.1, h2.2]

end E

/-! PARTIAL (not yet stated): a·a = |a|² in exact arithmetic (the float statement is checked by `oracle.C09.dot`). -/

example {F : Type} [FloatSpec F] : (0 : ℝ) ≤ val (one : F) := by rw [val_one]; norm_num


/-! ### R — on the arithmetic that really rounds (`R64`: round-to-nearest on the binary64 grid, correctly rounded libm) -/
section R

/-- (R) the dot product is symmetric up to the stated bound, for all pairs of binary64 numbers in the domain -/
theorem dot_symm_rounded {a b : Geonum R64} (ha : a.angle.Inv) (hb : b.angle.Inv) (hma : a.MagDom) (hmb : b.MagDom) :
    |(fmul (fmul a.mag b.mag) (FloatLike.cos (b.angle.geometricSub a.angle).gradeAngle)).v
      - (fmul (fmul b.mag a.mag) (FloatLike.cos (a.angle.geometricSub b.angle).gradeAngle)).v|
      ≤ 2 * (a.mag.v * b.mag.v * ((e10 : R64).v + 1 / 10 ^ 14) + 1 / 10 ^ 29) :=
  dot_symm_float (F := R64) ha hb hma hmb

end R

end GeonumModel.C09
