/-
  C16 — Equality is blade-exact and ordering is a lawful total order.
-/
import GeonumModel.Lemmas.AngleStep
import GeonumModel.Spec.RealWitness
import GeonumModel.Spec.RoundWitness

set_option linter.unusedSectionVars false
set_option linter.unusedVariables false

namespace GeonumModel.C16
open GeonumModel FloatLike FloatSpec Angle

section G
variable {F : Type} [FloatLike F]

/-- (G) angles compare equal only if their blade counts are identical — a full turn apart is a different value -/
theorem beq_blade (a b : Angle F) (h : a.beq b = true) : a.blade = b.blade := by
  unfold Angle.beq at h
  by_contra hne
  simp [hne] at h

/-- (G) geometric numbers additionally need magnitudes that compare equal -/
theorem geonum_beq (a b : Geonum F) : a.beq b = (feq a.mag b.mag && a.angle.beq b.angle) := rfl

/-- (G) partial comparison always agrees with comparison -/
theorem partialCmp_eq (a b : Angle F) (x y : Geonum F) :
    a.partialCmp b = (a.cmp b).map some ∧ x.partialCmp y = (x.cmp y).map some := ⟨rfl, rfl⟩
end G

section S
variable {F : Type} [FloatSpec F]

/-- the float comparison on finite values is the order of the reals -/
theorem fcmp_spec {x y : F} (hx : Fin x) (hy : Fin y) :
    (Angle.fcmp x y = some .lt ↔ val x < val y) ∧ (Angle.fcmp x y = some .eq ↔ val x = val y) ∧
    (Angle.fcmp x y = some .gt ↔ val y < val x) ∧ Angle.fcmp x y ≠ none := by
  unfold Angle.fcmp
  rcases lt_trichotomy (val x) (val y) with h | h | h
  · have : flt x y = true := (flt_spec hx hy).mpr h
    simp [this, h]
    exact ⟨ne_of_lt h, le_of_lt h⟩
  · have h1 : flt x y = false := by rw [Bool.eq_false_iff]; intro c; rw [flt_spec hx hy] at c; linarith
    have h2 : feq x y = true := (feq_spec hx hy).mpr h
    simp [h1, h2, h]
  · have h1 : flt x y = false := by rw [Bool.eq_false_iff]; intro c; rw [flt_spec hx hy] at c; linarith
    have h2 : feq x y = false := by rw [Bool.eq_false_iff]; intro c; rw [feq_spec hx hy] at c; linarith
    have h3 : flt y x = true := (flt_spec hy hx).mpr h
    simp [h1, h2, h3, h]
    exact ⟨le_of_lt h, ne_of_gt h⟩

/-- the key of the order: `(blade, value of remainder)` lexicographically -/
theorem cmp_spec {a b : Angle F} (ha : Fin a.rem) (hb : Fin b.rem) :
    (a.cmp b = some .lt ↔ a.blade < b.blade ∨ (a.blade = b.blade ∧ val a.rem < val b.rem)) ∧
    (a.cmp b = some .eq ↔ a.blade = b.blade ∧ val a.rem = val b.rem) ∧
    (a.cmp b = some .gt ↔ b.blade < a.blade ∨ (a.blade = b.blade ∧ val b.rem < val a.rem)) ∧
    a.cmp b ≠ none := by
  obtain ⟨f1, f2, f3, f4⟩ := fcmp_spec ha hb
  unfold Angle.cmp
  rcases Nat.lt_trichotomy a.blade b.blade with h | h | h
  · have : compare a.blade b.blade = .lt := Nat.compare_eq_lt.mpr h
    simp [this]; omega
  · have : compare a.blade b.blade = .eq := Nat.compare_eq_eq.mpr h
    simp only [this]
    refine ⟨by rw [f1]; constructor <;> [exact fun x => Or.inr ⟨h, x⟩; (rintro (x | ⟨_, x⟩) <;> [omega; exact x])],
            by rw [f2]; exact ⟨fun x => ⟨h, x⟩, fun x => x.2⟩,
            by rw [f3]; constructor <;> [exact fun x => Or.inr ⟨h, x⟩; (rintro (x | ⟨_, x⟩) <;> [omega; exact x])], f4⟩
  · have : compare a.blade b.blade = .gt := Nat.compare_eq_gt.mpr h
    simp [this]; omega

/-- (S) comparison never panics on finite remainders, is reflexive, antisymmetric and transitive: a lawful total order -/
theorem cmp_total {a b : Angle F} (ha : Fin a.rem) (hb : Fin b.rem) :
    a.cmp b = some .lt ∨ a.cmp b = some .eq ∨ a.cmp b = some .gt := by
  obtain ⟨h1, h2, h3, _⟩ := cmp_spec ha hb
  rcases Nat.lt_trichotomy a.blade b.blade with h | h | h
  · exact Or.inl (h1.mpr (Or.inl h))
  · rcases lt_trichotomy (val a.rem) (val b.rem) with r | r | r
    · exact Or.inl (h1.mpr (Or.inr ⟨h, r⟩))
    · exact Or.inr (Or.inl (h2.mpr ⟨h, r⟩))
    · exact Or.inr (Or.inr (h3.mpr (Or.inr ⟨h, r⟩)))
  · exact Or.inr (Or.inr (h3.mpr (Or.inl h)))

theorem cmp_refl {a : Angle F} (ha : Fin a.rem) : a.cmp a = some .eq :=
  (cmp_spec ha ha).2.1.mpr ⟨rfl, rfl⟩

theorem cmp_antisymm {a b : Angle F} (ha : Fin a.rem) (hb : Fin b.rem) :
    (a.cmp b = some .lt ↔ b.cmp a = some .gt) ∧ (a.cmp b = some .eq ↔ b.cmp a = some .eq) := by
  obtain ⟨h1, h2, _, _⟩ := cmp_spec ha hb
  obtain ⟨_, g2, g3, _⟩ := cmp_spec hb ha
  constructor
  · rw [h1, g3]; constructor <;> rintro (x | ⟨e, x⟩) <;> [exact Or.inl x; exact Or.inr ⟨e.symm, x⟩; exact Or.inl x; exact Or.inr ⟨e.symm, x⟩]
  · rw [h2, g2]; constructor <;> rintro ⟨e, x⟩ <;> exact ⟨e.symm, x.symm⟩

theorem cmp_trans {a b c : Angle F} (ha : Fin a.rem) (hb : Fin b.rem) (hc : Fin c.rem)
    (hab : a.cmp b = some .lt) (hbc : b.cmp c = some .lt) : a.cmp c = some .lt := by
  rw [(cmp_spec ha hb).1] at hab
  rw [(cmp_spec hb hc).1] at hbc
  rw [(cmp_spec ha hc).1]
  rcases hab with x | ⟨e, x⟩ <;> rcases hbc with y | ⟨f, y⟩
  · left; omega
  · left; omega
  · left; omega
  · right; exact ⟨e.trans f, lt_trans x y⟩

/-- (S) comparison agrees with equality in one direction unconditionally: `cmp = Equal` implies `==` -/
theorem beq_of_cmp_eq {a b : Angle F} (ha : Fin a.rem) (hb : Fin b.rem) (h : a.cmp b = some .eq) : a.beq b = true := by
  obtain ⟨hbl, hr⟩ := (cmp_spec ha hb).2.1.mp h
  obtain ⟨hf, hv⟩ := fsub_spec ha hb (by rw [hr, sub_self]; exact inRange_small (by rw [abs_zero]; positivity))
  obtain ⟨hfa, hva⟩ := fabs_spec hf
  have ht : flt (fabs (fsub a.rem b.rem)) (e15 : F) = true := by
    rw [flt_spec hfa fin_e15, hva, hv, hr, sub_self, rnd_zero, abs_zero]; exact val_e15_pos
  unfold Angle.beq; simp [hbl, ht]

/-- (S) `==` needs identical blades and remainders that agree within `1e-15` (or are the same value) -/
theorem beq_rems {a b : Angle F} (ha : a.Inv) (hb : b.Inv) (h : a.beq b = true) :
    a.blade = b.blade ∧ |val a.rem - val b.rem| < val (e15 : F) := by
  refine ⟨beq_blade a b h, ?_⟩
  have hbl := beq_blade a b h
  unfold Angle.beq at h
  simp only [hbl, bne_self_eq_false, Bool.false_eq_true, if_false] at h
  have hq := val_qp_lt (F := F); have he := val_e10_pos (F := F)
  have hr : InRange (F := F) (val a.rem - val b.rem) := inRange_of_abs_le_1000 (by
    rw [abs_le]; constructor <;> linarith [ha.2.1, ha.2.2, hb.2.1, hb.2.2])
  by_cases ht : flt (fabs (fsub a.rem b.rem)) (e15 : F) = true
  · obtain ⟨hf, hv⟩ := fsub_spec ha.1 hb.1 hr
    obtain ⟨hfa, hva⟩ := fabs_spec hf
    rw [flt_spec hfa fin_e15, hva, hv] at ht
    by_contra hc; push Not at hc
    have := abs_rnd_ge (F := F) (rep_val fin_e15) hc
    linarith
  · simp only [ht, Bool.false_eq_true, if_false] at h
    have := (feq_spec ha.1 hb.1).mp h
    rw [this, sub_self, abs_zero]; exact val_e15_pos

/-- (S) PARTIAL: `== → cmp = Equal` holds when the remainders have the same value.  The full statement (for every pair that
    compares `==`) is FALSE of the code: remainders less than 1e-15 apart but distinct are `==` yet `cmp` orders them
    (known finding C16-eq-vs-cmp; witness replayed on every run). -/
theorem cmp_eq_of_beq_partial {a b : Angle F} (ha : Fin a.rem) (hb : Fin b.rem)
    (h : a.beq b = true) (hsame : val a.rem = val b.rem) : a.cmp b = some .eq :=
  (cmp_spec ha hb).2.1.mpr ⟨beq_blade a b h, hsame⟩

/-- (S) Geonum comparison: angle first, then magnitude; total on finite fields (never panics) -/
theorem geonum_cmp_total {a b : Geonum F} (ha : Fin a.angle.rem) (hb : Fin b.angle.rem)
    (hma : Fin a.mag) (hmb : Fin b.mag) :
    a.cmp b = some .lt ∨ a.cmp b = some .eq ∨ a.cmp b = some .gt := by
  unfold Geonum.cmp
  rcases cmp_total ha hb with h | h | h
  · rw [h]; exact Or.inl rfl
  · rw [h]
    obtain ⟨f1, f2, f3, f4⟩ := fcmp_spec hma hmb
    rcases lt_trichotomy (val a.mag) (val b.mag) with r | r | r
    · rw [f1.mpr r]; exact Or.inl rfl
    · rw [f2.mpr r]; exact Or.inr (Or.inl rfl)
    · rw [f3.mpr r]; exact Or.inr (Or.inr rfl)
  · rw [h]; exact Or.inr (Or.inr rfl)

/-- all three float fields finite (every value the library produces inside the C01 domain) -/
def FinG (a : Geonum F) : Prop := Fin a.angle.rem ∧ Fin a.mag

/-- (S) on finite fields the sort relation is the lexicographic order on `(blade, value of remainder, value of magnitude)` -/
theorem le_iff_float {a b : Geonum F} (ha : FinG a) (hb : FinG b) :
    a.le b = true ↔ a.angle.blade < b.angle.blade ∨ (a.angle.blade = b.angle.blade ∧
      (val a.angle.rem < val b.angle.rem ∨ (val a.angle.rem = val b.angle.rem ∧ val a.mag ≤ val b.mag))) := by
  have s1 := cmp_spec (a := a.angle) (b := b.angle) ha.1 hb.1
  obtain ⟨f1, f2, f3, f4⟩ := fcmp_spec (x := a.mag) (y := b.mag) ha.2 hb.2
  unfold Geonum.le Geonum.cmp
  rcases cmp_total (a := a.angle) (b := b.angle) ha.1 hb.1 with h | h | h
  · rw [h]; simp only [bne_iff_ne, ne_eq, Option.some.injEq, reduceCtorEq, not_false_eq_true, true_iff]
    rcases s1.1.mp h with x | ⟨e, x⟩
    · exact Or.inl x
    · exact Or.inr ⟨e, Or.inl x⟩
  · rw [h]
    obtain ⟨eb, er⟩ := s1.2.1.mp h
    rcases lt_trichotomy (val a.mag) (val b.mag) with r | r | r
    · rw [f1.mpr r]; simp only [Option.getD_some, bne_iff_ne, ne_eq, Option.some.injEq, reduceCtorEq, not_false_eq_true, true_iff]
      exact Or.inr ⟨eb, Or.inr ⟨er, le_of_lt r⟩⟩
    · rw [f2.mpr r]; simp only [Option.getD_some, bne_iff_ne, ne_eq, Option.some.injEq, reduceCtorEq, not_false_eq_true, true_iff]
      exact Or.inr ⟨eb, Or.inr ⟨er, le_of_eq r⟩⟩
    · rw [f3.mpr r]; simp only [Option.getD_some, bne_self_eq_false, Bool.false_eq_true, false_iff]
      rintro (x | ⟨_, x | ⟨_, x⟩⟩)
      · omega
      · linarith
      · linarith
  · rw [h]; simp only [bne_self_eq_false, Bool.false_eq_true, false_iff]
    rcases s1.2.2.1.mp h with x | ⟨e, x⟩
    · rintro (y | ⟨e2, _⟩) <;> omega
    · rintro (y | ⟨_, y | ⟨y, _⟩⟩)
      · omega
      · linarith
      · linarith

theorem le_trans_float {a b c : Geonum F} (ha : FinG a) (hb : FinG b) (hc : FinG c)
    (hab : a.le b = true) (hbc : b.le c = true) : a.le c = true := by
  rw [le_iff_float ha hb] at hab; rw [le_iff_float hb hc] at hbc; rw [le_iff_float ha hc]
  rcases hab with x | ⟨e, x⟩ <;> rcases hbc with y | ⟨f, y⟩
  · left; omega
  · left; omega
  · left; omega
  · right; refine ⟨e.trans f, ?_⟩
    rcases x with x | ⟨ex, mx⟩ <;> rcases y with y | ⟨ey, my⟩
    · left; linarith
    · left; linarith
    · left; linarith
    · right; exact ⟨ex.trans ey, le_trans mx my⟩

theorem le_total_float {a b : Geonum F} (ha : FinG a) (hb : FinG b) : (a.le b || b.le a) = true := by
  rw [Bool.or_eq_true, le_iff_float ha hb, le_iff_float hb ha]
  rcases Nat.lt_trichotomy a.angle.blade b.angle.blade with h | h | h
  · exact Or.inl (Or.inl h)
  · rcases lt_trichotomy (val a.angle.rem) (val b.angle.rem) with r | r | r
    · exact Or.inl (Or.inr ⟨h, Or.inl r⟩)
    · rcases le_total (val a.mag) (val b.mag) with m | m
      · exact Or.inl (Or.inr ⟨h, Or.inr ⟨r, m⟩⟩)
      · exact Or.inr (Or.inr ⟨h.symm, Or.inr ⟨r.symm, m⟩⟩)
    · exact Or.inr (Or.inr ⟨h.symm, Or.inl r⟩)
  · exact Or.inr (Or.inl h)

open Classical in
/-- the sort relation extended to a total preorder on *all* values (non-finite ones last, all tied) — only a device for applying the
    library's merge-sort theorem, which wants a globally lawful relation; on finite values it *is* `Geonum.le` -/
noncomputable def leExt (a b : Geonum F) : Bool :=
  if FinG a then (if FinG b then a.le b else true) else (if FinG b then false else true)

theorem leExt_eq {a b : Geonum F} (ha : FinG a) (hb : FinG b) : leExt a b = a.le b := by
  unfold leExt; rw [if_pos ha, if_pos hb]

theorem leExt_trans (a b c : Geonum F) (hab : leExt a b = true) (hbc : leExt b c = true) : leExt a c = true := by
  unfold leExt at *
  by_cases ha : FinG a <;> by_cases hb : FinG b <;> by_cases hc : FinG c <;>
    simp only [ha, hb, hc, if_true, if_false] at hab hbc ⊢ <;> try trivial
  exact le_trans_float ha hb hc hab hbc

theorem leExt_total (a b : Geonum F) : (leExt a b || leExt b a) = true := by
  unfold leExt
  by_cases ha : FinG a <;> by_cases hb : FinG b <;> simp only [ha, hb, if_true, if_false] <;> try simp
  have := le_total_float ha hb
  simpa using this

/-- (S) **sorting in rounded arithmetic**: for every list of numbers with finite fields, `sort` never panics and returns a permutation
    of its input in non-decreasing order (`Vec::sort` modelled by the stable `List.mergeSort` on the model `cmp`; `cmp_refl`,
    `le_trans_float`, `le_total_float` are exactly the contract std's sort requires of `Ord`, now for floats) -/
theorem sort_float (l : List (Geonum F)) (hl : ∀ a ∈ l, FinG a) :
    ∃ s, Geonum.sort l = some s ∧ s.Perm l ∧ s.Pairwise (fun a b => a.cmp b ≠ some .gt) := by
  refine ⟨l.mergeSort Geonum.le, ?_, List.mergeSort_perm l _, ?_⟩
  · unfold Geonum.sort
    have : l.all (fun a => (a.angle.cmp a.angle).isSome) = true := by
      rw [List.all_eq_true]; intro a ha
      rw [cmp_refl (a := a.angle) (hl a ha).1]; rfl
    rw [if_pos this]
  · -- on the members of `l` the relation coincides with the globally lawful extension
    have hcongr : l.mergeSort Geonum.le = l.mergeSort leExt := by
      have := List.map_mergeSort (r := Geonum.le) (s := leExt (F := F)) (f := id) (l := l)
        (fun a ha b hb => (leExt_eq (hl a ha) (hl b hb)).symm)
      simpa using this
    have hp := List.pairwise_mergeSort (le := leExt (F := F)) leExt_trans leExt_total l
    rw [← hcongr] at hp
    have hmem : ∀ a ∈ l.mergeSort Geonum.le, FinG a := fun a ha => hl a ((List.mergeSort_perm l _).mem_iff.mp ha)
    have hp' := List.Pairwise.and_mem.mp hp
    refine hp'.imp ?_
    rintro a b ⟨ha, hb, h⟩
    rw [leExt_eq (hmem a ha) (hmem b hb)] at h
    unfold Geonum.le at h
    simpa using h

end S

/-! ### E-tier: over exact reals every value is finite, so the sort theorem can be stated for all lists -/
section E

theorem le_total_real (a b : Geonum ℝ) : (a.le b || b.le a) = true := by
  have hab := geonum_cmp_total (a := a) (b := b) trivial trivial trivial trivial
  have hba := geonum_cmp_total (a := b) (b := a) trivial trivial trivial trivial
  unfold Geonum.le
  by_contra hc
  simp only [Bool.or_eq_true, bne_iff_ne, ne_eq, not_or, Decidable.not_not] at hc
  obtain ⟨h1, h2⟩ := hc
  -- a > b and b > a is impossible
  unfold Geonum.cmp at h1 h2
  have s1 := cmp_spec (a := a.angle) (b := b.angle) trivial trivial
  have s2 := cmp_spec (a := b.angle) (b := a.angle) trivial trivial
  rcases cmp_total (a := a.angle) (b := b.angle) trivial trivial with h | h | h
  · rw [h] at h1; simp at h1
  · rw [h] at h1
    have e := s1.2.1.mp h
    have h' : b.angle.cmp a.angle = some .eq := s2.2.1.mpr ⟨e.1.symm, e.2.symm⟩
    rw [h'] at h2
    obtain ⟨f1, f2, f3, f4⟩ := fcmp_spec (F := ℝ) (x := a.mag) (y := b.mag) trivial trivial
    obtain ⟨g1, g2, g3, g4⟩ := fcmp_spec (F := ℝ) (x := b.mag) (y := a.mag) trivial trivial
    rcases lt_trichotomy (val a.mag) (val b.mag) with r | r | r
    · rw [f1.mpr r] at h1; simp at h1
    · rw [f2.mpr r] at h1; simp at h1
    · rw [g1.mpr r] at h2; simp at h2
  · have : b.angle.cmp a.angle = some .lt := by
      rw [s2.1]; rcases s1.2.2.1.mp h with x | ⟨e, x⟩
      · exact Or.inl x
      · exact Or.inr ⟨e.symm, x⟩
    rw [this] at h2; simp at h2

/-- the sort relation over exact reals is the lexicographic order on `(blade, remainder, magnitude)` -/
theorem le_iff_real (a b : Geonum ℝ) :
    a.le b = true ↔ a.angle.blade < b.angle.blade ∨ (a.angle.blade = b.angle.blade ∧
      (a.angle.rem < b.angle.rem ∨ (a.angle.rem = b.angle.rem ∧ a.mag ≤ b.mag))) := by
  have s1 := cmp_spec (a := a.angle) (b := b.angle) trivial trivial
  simp only [show ∀ x : ℝ, val (F := ℝ) x = x from fun _ => rfl] at s1
  obtain ⟨f1, f2, f3, f4⟩ := fcmp_spec (F := ℝ) (x := a.mag) (y := b.mag) trivial trivial
  simp only [show ∀ x : ℝ, val (F := ℝ) x = x from fun _ => rfl] at f1 f2 f3
  unfold Geonum.le Geonum.cmp
  rcases cmp_total (a := a.angle) (b := b.angle) trivial trivial with h | h | h
  · rw [h]; simp only [bne_iff_ne, ne_eq, Option.some.injEq, reduceCtorEq, not_false_eq_true, true_iff]
    rcases s1.1.mp h with x | ⟨e, x⟩
    · exact Or.inl x
    · exact Or.inr ⟨e, Or.inl x⟩
  · rw [h]
    obtain ⟨eb, er⟩ := s1.2.1.mp h
    rcases lt_trichotomy a.mag b.mag with r | r | r
    · rw [f1.mpr r]; simp only [Option.getD_some, bne_iff_ne, ne_eq, Option.some.injEq, reduceCtorEq, not_false_eq_true, true_iff]
      exact Or.inr ⟨eb, Or.inr ⟨er, le_of_lt r⟩⟩
    · rw [f2.mpr r]; simp only [Option.getD_some, bne_iff_ne, ne_eq, Option.some.injEq, reduceCtorEq, not_false_eq_true, true_iff]
      exact Or.inr ⟨eb, Or.inr ⟨er, le_of_eq r⟩⟩
    · rw [f3.mpr r]; simp only [Option.getD_some, bne_self_eq_false, Bool.false_eq_true, false_iff]
      rintro (x | ⟨_, x | ⟨_, x⟩⟩)
      · omega
      · linarith
      · linarith
  · rw [h]; simp only [bne_self_eq_false, Bool.false_eq_true, false_iff]
    rcases s1.2.2.1.mp h with x | ⟨e, x⟩
    · rintro (y | ⟨e2, _⟩) <;> omega
    · rintro (y | ⟨_, y | ⟨y, _⟩⟩)
      · omega
      · linarith
      · linarith

theorem le_trans_real (a b c : Geonum ℝ) (hab : a.le b = true) (hbc : b.le c = true) : a.le c = true := by
  rw [le_iff_real] at *
  rcases hab with x | ⟨e, x⟩ <;> rcases hbc with y | ⟨f, y⟩
  · left; omega
  · left; omega
  · left; omega
  · right; refine ⟨e.trans f, ?_⟩
    rcases x with x | ⟨ex, mx⟩ <;> rcases y with y | ⟨ey, my⟩
    · left; linarith
    · left; linarith
    · left; linarith
    · right; exact ⟨ex.trans ey, le_trans mx my⟩

/-- (E) **sorting**: over exact reals `sort` never panics and returns a permutation of its input in non-decreasing order
    (`Vec::sort` is modelled by the stable `List.mergeSort` on the model `cmp`; the order laws above are exactly the contract std's
    sort requires of `Ord`) -/
theorem sort_real (l : List (Geonum ℝ)) :
    ∃ s, Geonum.sort l = some s ∧ s.Perm l ∧ s.Pairwise (fun a b => a.cmp b ≠ some .gt) := by
  refine ⟨l.mergeSort Geonum.le, ?_, List.mergeSort_perm l _, ?_⟩
  · unfold Geonum.sort
    have : l.all (fun a => (a.angle.cmp a.angle).isSome) = true := by
      rw [List.all_eq_true]; intro a _
      rw [cmp_refl (a := a.angle) trivial]; rfl
    rw [if_pos this]
  · have hp := List.pairwise_mergeSort (le := Geonum.le)
      (fun a b c hab hbc => le_trans_real a b c hab hbc) (fun a b => le_total_real a b) l
    refine hp.imp ?_
    intro a b h
    unfold Geonum.le at h
    simpa using h

end E

example {F : Type} [FloatSpec F] : Fin (⟨zero, 3⟩ : Angle F).rem := fin_zero


/-! ### R — on the arithmetic that really rounds (`R64`) -/
section R

/-- (R) every list of binary64 geometric numbers sorts: no panic, a permutation, non-decreasing under `cmp` -/
theorem sort_rounded (l : List (Geonum R64)) :
    ∃ s, Geonum.sort l = some s ∧ s.Perm l ∧ s.Pairwise (fun a b => a.cmp b ≠ some .gt) :=
  sort_float (F := R64) l (fun _ _ => ⟨trivial, trivial⟩)

end R

end GeonumModel.C16
