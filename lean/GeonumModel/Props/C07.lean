/-
  C07 — Blade-step operators are exact and histories accumulate exactly.
  G = any arithmetic; S = any arithmetic satisfying `FloatSpec`.
  "remainder untouched" is stated on the remainder's real value (`val`): on binary64 that is bit-identity
  except that a `-0.0` remainder would come back as `+0.0`.
-/
import GeonumModel.Lemmas.AngleStep
import GeonumModel.Lemmas.GradeAngle
import GeonumModel.Spec.RealWitness
import GeonumModel.Spec.RoundWitness

set_option linter.unusedSectionVars false
set_option linter.unusedVariables false

namespace GeonumModel.C07
open GeonumModel FloatLike FloatSpec Angle

section G
variable {F : Type} [FloatLike F]

/-- (G) grade is always blade mod 4, and the four grade predicates are exactly its four values -/
theorem grade_eq (a : Angle F) : a.grade = a.blade % 4 ∧ a.grade < 4 ∧
    (a.isScalar = true ↔ a.blade % 4 = 0) ∧ (a.isVector = true ↔ a.blade % 4 = 1) ∧
    (a.isBivector = true ↔ a.blade % 4 = 2) ∧ (a.isTrivector = true ↔ a.blade % 4 = 3) := by
  refine ⟨rfl, Nat.mod_lt _ (by norm_num), ?_, ?_, ?_, ?_⟩ <;> simp [isScalar, isVector, isBivector, isTrivector, grade]

/-- (G) reset-to-base keeps only blade mod 4 and returns the remainder field itself -/
theorem baseAngle_spec (a : Angle F) :
    a.baseAngle.blade = a.blade % 4 ∧ a.baseAngle.rem = a.rem ∧ a.baseAngle.grade = a.grade := by
  refine ⟨rfl, rfl, ?_⟩
  simp [baseAngle, grade]

/-- (G) the magnitude field is returned unchanged by every blade-step operator of `Geonum` -/
theorem mag_untouched (g o : Geonum F) :
    g.dual.mag = g.mag ∧ g.undual.mag = g.mag ∧ g.negate.mag = g.mag ∧ g.differentiate.mag = g.mag ∧
    g.integrate.mag = g.mag ∧ g.incrementBlade.mag = g.mag ∧ g.decrementBlade.mag = g.mag ∧
    g.baseAngle.mag = g.mag ∧ (g.copyBlade o).mag = g.mag :=
  ⟨rfl, rfl, rfl, rfl, rfl, rfl, rfl, rfl, rfl⟩

/-- (G) the opposite test is: blade counts differ by exactly two (as unbounded integers — no narrowing) and the
    remainder threshold test succeeds -/
theorem isOpposite_iff (a b : Angle F) :
    a.isOpposite b = true ↔
      (a.blade = b.blade + 2 ∨ b.blade = a.blade + 2) ∧ flt (fabs (fsub a.rem b.rem)) e15 = true := by
  unfold isOpposite absDiff
  simp only [Bool.and_eq_true, beq_iff_eq]
  constructor
  · rintro ⟨h, ht⟩; refine ⟨?_, ht⟩; split at h <;> omega
  · rintro ⟨h, ht⟩; refine ⟨?_, ht⟩; split <;> omega
end G

section S
variable {F : Type} [FloatSpec F]

/-- (S) two canonical angles whose blade counts differ by two and whose remainders have the same value test as opposite;
    and angles that test as opposite have remainders within `1e-15` -/
theorem isOpposite_of_equal_rem {a b : Angle F} (ha : a.Inv) (hb : b.Inv)
    (hbl : a.blade = b.blade + 2 ∨ b.blade = a.blade + 2) (hr : val a.rem = val b.rem) :
    a.isOpposite b = true := by
  rw [isOpposite_iff]; refine ⟨hbl, ?_⟩
  obtain ⟨hf, hv⟩ := fsub_spec ha.1 hb.1 (by rw [hr, sub_self]; exact inRange_small (by rw [abs_zero]; positivity))
  obtain ⟨hfa, hva⟩ := fabs_spec hf
  rw [flt_spec hfa fin_e15, hva, hv, hr, sub_self, rnd_zero, abs_zero]
  exact val_e15_pos

theorem isOpposite_rems {a b : Angle F} (ha : a.Inv) (hb : b.Inv) (h : a.isOpposite b = true) :
    |val a.rem - val b.rem| < val (e15 : F) ∧ (a.blade = b.blade + 2 ∨ b.blade = a.blade + 2) := by
  rw [isOpposite_iff] at h
  refine ⟨?_, h.1⟩
  have hq := val_qp_lt (F := F); have he := val_e10_pos (F := F)
  have : |val a.rem - val b.rem| ≤ 1000 := by
    rw [abs_le]; constructor <;> linarith [ha.2.1, ha.2.2, hb.2.1, hb.2.2]
  obtain ⟨hf, hv⟩ := fsub_spec ha.1 hb.1 (inRange_of_abs_le_1000 this)
  obtain ⟨hfa, hva⟩ := fabs_spec hf
  have h2 := h.2
  rw [flt_spec hfa fin_e15, hva, hv] at h2
  by_contra hc; push Not at hc
  have := abs_rnd_ge (F := F) (rep_val fin_e15) hc
  linarith

/-- (S) dual, undual, negation and conjugation add exactly two quarter turns; the remainder keeps its value and the
    result is canonical -/
theorem two_blade_ops {a : Angle F} (ha : a.Inv) :
    (a.dual.blade = a.blade + 2 ∧ val a.dual.rem = val a.rem ∧ a.dual.Inv) ∧
    (a.undual.blade = a.blade + 2 ∧ val a.undual.rem = val a.rem ∧ a.undual.Inv) ∧
    (a.negate.blade = a.blade + 2 ∧ val a.negate.rem = val a.rem ∧ a.negate.Inv) ∧
    (a.conjugate.blade = a.blade + 2 ∧ val a.conjugate.rem = val a.rem ∧ a.conjugate.Inv) := by
  have d := dual_spec ha; have n := negate_spec ha
  exact ⟨⟨d.1, d.2.2, inv_of_spec ha d.2⟩, ⟨d.1, d.2.2, inv_of_spec ha d.2⟩,
         ⟨n.1, n.2.2, inv_of_spec ha n.2⟩, ⟨n.1, n.2.2, inv_of_spec ha n.2⟩⟩

/-- (S) differentiation and blade increment add one quarter turn, integration and blade decrement add three -/
theorem one_three_blade_ops {g : Geonum F} (ha : g.angle.Inv) :
    (g.differentiate.angle.blade = g.angle.blade + 1 ∧ val g.differentiate.angle.rem = val g.angle.rem) ∧
    (g.incrementBlade.angle.blade = g.angle.blade + 1 ∧ val g.incrementBlade.angle.rem = val g.angle.rem) ∧
    (g.integrate.angle.blade = g.angle.blade + 3 ∧ val g.integrate.angle.rem = val g.angle.rem) ∧
    (g.decrementBlade.angle.blade = g.angle.blade + 3 ∧ val g.decrementBlade.angle.rem = val g.angle.rem) := by
  have h1 := add_whole (z := Angle.new (one : F) two) ha
    (by rw [new_one_two]; exact fin_zero) (by rw [new_one_two]; exact val_zero)
  have h3 := add_whole (z := Angle.new (three : F) two) ha
    (by rw [new_three_two]; exact fin_zero) (by rw [new_three_two]; exact val_zero)
  have hm := add_whole (z := Angle.new (fneg one : F) two) ha
    (by rw [new_negone_two]; exact fin_zero) (by rw [new_negone_two]; exact val_zero)
  rw [new_one_two] at h1; rw [new_three_two] at h3; rw [new_negone_two] at hm
  simp only [Geonum.differentiate, Geonum.incrementBlade, Geonum.integrate, Geonum.decrementBlade, Angle.add, addVV,
    new_one_two, new_three_two, new_negone_two]
  exact ⟨⟨h1.1, h1.2.2⟩, ⟨h1.1, h1.2.2⟩, ⟨h3.1, h3.2.2⟩, ⟨hm.1, hm.2.2⟩⟩

/-- (S) the grade angle is `(blade mod 4)·π/2 + remainder` (to within 4e-15 of rounding) and lies in `[0, 2π)` -/
theorem gradeAngle_range {a : Angle F} (ha : a.Inv) :
    Fin a.gradeAngle ∧ |val a.gradeAngle - ((a.blade % 4 : ℕ) * val (qp : F) + val a.rem)| ≤ 4 / 10 ^ 15 ∧
    0 ≤ val a.gradeAngle ∧ val a.gradeAngle < 4 * val (qp : F) := gradeAngle_spec ha

/-- (S) **blade copy** reaches the other's grade — and its exact blade count when that is not smaller — leaving remainder value
    and magnitude untouched, and never decreasing the blade count (forward only) -/
theorem copyBlade_spec {g o : Geonum F} (hg : g.angle.Inv) (hgb : g.angle.blade < 2 ^ 49) (hob : o.angle.blade < 2 ^ 49) :
    (g.copyBlade o).mag = g.mag ∧ val (g.copyBlade o).angle.rem = val g.angle.rem ∧
    (g.copyBlade o).angle.grade = o.angle.grade ∧
    (g.angle.blade ≤ o.angle.blade → (g.copyBlade o).angle.blade = o.angle.blade) ∧
    g.angle.blade ≤ (g.copyBlade o).angle.blade := by
  refine ⟨rfl, ?_⟩
  set d : ℤ := (o.angle.blade : ℤ) - (g.angle.blade : ℤ) with hd
  have hdb : |d| < 2 ^ 50 := by rw [abs_lt]; constructor <;> omega
  have hang : (g.copyBlade o).angle = g.angle.geometricAdd (Angle.new (FloatLike.ofInt d : F) two) := rfl
  by_cases h0 : 0 ≤ d
  · have hn := new_nonnegInt_two (F := F) d h0 hdb
    have hw := add_whole (z := Angle.new (FloatLike.ofInt d : F) two) hg (by rw [hn]; exact fin_zero) (by rw [hn]; exact val_zero)
    rw [hn] at hw
    have hbl : (g.copyBlade o).angle.blade = o.angle.blade := by
      rw [hang, hn, hw.1]
      have : (d.toNat : ℤ) = d := Int.toNat_of_nonneg h0
      simp only; omega
    refine ⟨by rw [hang, hn]; exact hw.2.2, by unfold grade; rw [hbl], fun _ => hbl, by rw [hbl]; omega⟩
  · have hneg : d < 0 := by omega
    obtain ⟨k, hn, hk, hk3, hk6, hkm⟩ := new_negInt_two (F := F) d hneg hdb
    have hw := add_whole (z := Angle.new (FloatLike.ofInt d : F) two) hg (by rw [hn]; exact fin_zero) (by rw [hn]; exact val_zero)
    rw [hn] at hw
    have hbl : (g.copyBlade o).angle.blade = g.angle.blade + k := by rw [hang, hn, hw.1]
    refine ⟨by rw [hang, hn]; exact hw.2.2, ?_, fun hle => by omega, by rw [hbl]; omega⟩
    unfold grade; rw [hbl]
    have : ((g.angle.blade + k : ℕ) : ℤ) % 4 = (o.angle.blade : ℤ) % 4 := by push_cast; omega
    omega

/-! ### histories over the fixed-step alphabet -/

/-- the blade-step alphabet of `Geonum` -/
inductive Op | dual | undual | negate | differentiate | integrate | increment | decrement
  deriving DecidableEq, Repr

/-- the per-operation rule of the property -/
def Op.delta : Op → ℕ
  | .dual => 2 | .undual => 2 | .negate => 2 | .differentiate => 1 | .integrate => 3 | .increment => 1 | .decrement => 3

def step (g : Geonum F) : Op → Geonum F
  | .dual => g.dual | .undual => g.undual | .negate => g.negate | .differentiate => g.differentiate
  | .integrate => g.integrate | .increment => g.incrementBlade | .decrement => g.decrementBlade

theorem step_spec {g : Geonum F} (ha : g.angle.Inv) (o : Op) :
    (step g o).angle.blade = g.angle.blade + o.delta ∧ (step g o).angle.Inv ∧
    val (step g o).angle.rem = val g.angle.rem ∧ (step g o).mag = g.mag := by
  have t := two_blade_ops ha
  have u := one_three_blade_ops ha
  have h1 : Fin (g.angle.geometricAdd (Angle.new (one : F) two)).rem := by
    rw [new_one_two]; exact (add_whole ha fin_zero val_zero).2.1
  have h3 : Fin (g.angle.geometricAdd (Angle.new (three : F) two)).rem := by
    rw [new_three_two]; exact (add_whole ha fin_zero val_zero).2.1
  have hm : Fin (g.angle.geometricAdd (Angle.new (fneg one : F) two)).rem := by
    rw [new_negone_two]; exact (add_whole ha fin_zero val_zero).2.1
  cases o
  · exact ⟨t.1.1, t.1.2.2, t.1.2.1, rfl⟩
  · exact ⟨t.2.1.1, t.2.1.2.2, t.2.1.2.1, rfl⟩
  · exact ⟨t.2.2.1.1, t.2.2.1.2.2, t.2.2.1.2.1, rfl⟩
  · exact ⟨u.1.1, inv_of_spec ha ⟨h1, u.1.2⟩, u.1.2, rfl⟩
  · exact ⟨u.2.2.1.1, inv_of_spec ha ⟨h3, u.2.2.1.2⟩, u.2.2.1.2, rfl⟩
  · exact ⟨u.2.1.1, inv_of_spec ha ⟨h1, u.2.1.2⟩, u.2.1.2, rfl⟩
  · exact ⟨u.2.2.2.1, inv_of_spec ha ⟨hm, u.2.2.2.2⟩, u.2.2.2.2, rfl⟩

/-- (S) **history theorem**: over any sequence of blade-step operations, of any length, the accumulated blade count is
    the start count plus the sum of the per-operation rules; the remainder keeps its value, the magnitude its bits,
    and every intermediate angle is canonical -/
theorem run_blade (ops : List Op) (g : Geonum F) (ha : g.angle.Inv) :
    (ops.foldl step g).angle.blade = g.angle.blade + (ops.map Op.delta).sum ∧
    (ops.foldl step g).angle.Inv ∧ val (ops.foldl step g).angle.rem = val g.angle.rem ∧
    (ops.foldl step g).mag = g.mag := by
  induction ops generalizing g with
  | nil => simp [ha]
  | cons o os ih =>
    obtain ⟨hb, hi, hr, hm⟩ := step_spec ha o
    obtain ⟨ihb, ihi, ihr, ihm⟩ := ih (step g o) hi
    simp only [List.foldl_cons, List.map_cons, List.sum_cons]
    refine ⟨by rw [ihb, hb]; omega, ihi, by rw [ihr, hr], by rw [ihm, hm]⟩

/-- the mixed alphabet of the property: the seven blade steps, and addition / subtraction of an arbitrary angle
    (`*` and `rotate` are spellings of addition, `/` of subtraction: `C03.spellings`, `C04.spellings`) -/
inductive MOp (F : Type) | step (o : Op) | add (c : Angle F) | sub (c : Angle F)

def mstep (g : Geonum F) : MOp F → Geonum F
  | .step o => step g o
  | .add c => ⟨g.mag, g.angle.geometricAdd c⟩
  | .sub c => ⟨g.mag, g.angle.geometricSub c⟩

/-- operands of the mixed history are canonical angles -/
def MOp.Ok : MOp F → Prop
  | .step _ => True | .add c => c.Inv | .sub c => c.Inv

/-- the per-operation rule: which blade contributions the property allows one operation to make.  A step adds its
    fixed count; an addition adds the operand's count plus at most one carry from the remainders; a subtraction
    removes the operand's count, with at most one borrow and at most one carry of the final normalisation -/
def MOp.Allowed : MOp F → ℤ → Prop
  | .step o, k => k = o.delta
  | .add c, k => k = c.blade ∨ k = c.blade + 1
  | .sub c, k => k = -(c.blade : ℤ) - 1 ∨ k = -(c.blade : ℤ) ∨ k = -(c.blade : ℤ) + 1

def MOp.isSub : MOp F → Bool | .sub _ => true | _ => false

/-- one mixed step obeys its rule: the new count is the old one plus an allowed contribution — exactly when the
    operation is not a subtraction, and otherwise congruent to it modulo a full turn and never below it (a subtraction
    that would go negative is answered forward-only, by whole turns) -/
theorem mstep_spec {g : Geonum F} (ha : g.angle.Inv) (o : MOp F) (ho : o.Ok) :
    (mstep g o).angle.Inv ∧ (mstep g o).mag = g.mag ∧
    ∃ k : ℤ, o.Allowed k ∧ ((mstep g o).angle.blade : ℤ) % 4 = ((g.angle.blade : ℤ) + k) % 4 ∧
      (g.angle.blade : ℤ) + k ≤ ((mstep g o).angle.blade : ℤ) ∧
      (o.isSub = false → ((mstep g o).angle.blade : ℤ) = (g.angle.blade : ℤ) + k) := by
  cases o with
  | step o =>
    obtain ⟨hb, hi, _, hm⟩ := step_spec ha o
    have hb' : ((mstep g (.step o)).angle.blade : ℤ) = (g.angle.blade : ℤ) + (o.delta : ℤ) := by
      show (((step g o).angle.blade : ℕ) : ℤ) = _
      rw [hb]; push_cast; rfl
    exact ⟨hi, hm, (o.delta : ℤ), rfl, by rw [hb'], by rw [hb'], fun _ => hb'⟩
  | add c =>
    obtain ⟨hi, hb, _⟩ := geometricAdd_spec ha ho
    refine ⟨hi, rfl, ?_⟩
    rcases hb with hb | hb
    · exact ⟨c.blade, Or.inl rfl, by simp only [mstep, hb]; push_cast; rfl, by simp only [mstep, hb]; push_cast; exact le_refl _,
        fun _ => by simp only [mstep, hb]; push_cast; rfl⟩
    · exact ⟨c.blade + 1, Or.inr rfl, by simp only [mstep, hb]; push_cast; rfl, by simp only [mstep, hb]; push_cast; exact le_refl _,
        fun _ => by simp only [mstep, hb]; push_cast; rfl⟩
  | sub c =>
    obtain ⟨hi, s, cy, hs, hc, hb, _⟩ := geometricSub_spec ha ho
    refine ⟨hi, rfl, -(c.blade : ℤ) + s + cy, ?_, ?_, ?_, fun h => by simp [MOp.isSub] at h⟩
    · rcases hs with rfl | rfl <;> rcases hc with rfl | rfl <;> simp only [MOp.Allowed] <;> omega
    · have hm := wrap4_mod ((g.angle.blade : ℤ) - (c.blade : ℤ) + s)
      simp only [mstep, hb]; push_cast; omega
    · have hg := wrap4_ge ((g.angle.blade : ℤ) - (c.blade : ℤ) + s)
      simp only [mstep, hb]; push_cast; omega

/-- (S) **mixed-history theorem**: over any sequence, of any length, of blade steps mixed with additions and
    subtractions (hence products and quotients) of canonical angles, every intermediate angle is canonical, the
    magnitude keeps its bits, and there is one allowed contribution per operation such that the accumulated blade
    count is congruent modulo a full turn to the start count plus their sum and never below it — and *equal* to it
    when the sequence contains no subtraction.  So the count is the one predicted by summing the per-operation
    rules; the only freedom is the carry/borrow bit each addition/subtraction is allowed -/
theorem run_mixed (ops : List (MOp F)) (g : Geonum F) (ha : g.angle.Inv) (hops : ∀ o ∈ ops, o.Ok) :
    (ops.foldl mstep g).angle.Inv ∧ (ops.foldl mstep g).mag = g.mag ∧
    ∃ ks : List ℤ, List.Forall₂ MOp.Allowed ops ks ∧
      ((ops.foldl mstep g).angle.blade : ℤ) % 4 = ((g.angle.blade : ℤ) + ks.sum) % 4 ∧
      (g.angle.blade : ℤ) + ks.sum ≤ ((ops.foldl mstep g).angle.blade : ℤ) ∧
      ((∀ o ∈ ops, o.isSub = false) → ((ops.foldl mstep g).angle.blade : ℤ) = (g.angle.blade : ℤ) + ks.sum) := by
  induction ops generalizing g with
  | nil => exact ⟨ha, rfl, [], List.Forall₂.nil, by simp, by simp, fun _ => by simp⟩
  | cons o os ih =>
    obtain ⟨hi, hm, k, hk, hmod, hge, heq⟩ := mstep_spec ha o (hops o (List.mem_cons_self))
    obtain ⟨ihi, ihm, ks, hks, ihmod, ihge, iheq⟩ := ih (mstep g o) hi (fun o' ho' => hops o' (List.mem_cons_of_mem _ ho'))
    refine ⟨ihi, by simp only [List.foldl_cons]; rw [ihm, hm], k :: ks, List.Forall₂.cons hk hks, ?_, ?_, fun hns => ?_⟩
    · simp only [List.foldl_cons, List.sum_cons]; omega
    · simp only [List.foldl_cons, List.sum_cons]; omega
    · simp only [List.foldl_cons, List.sum_cons]
      have h1 := heq (hns o (List.mem_cons_self))
      have h2 := iheq (fun o' ho' => hns o' (List.mem_cons_of_mem _ ho'))
      omega

/-- (S) four derivatives, two duals, or derivative-then-integral return to the same grade and remainder with exactly
    four more blades -/
theorem four_cycle {g : Geonum F} (ha : g.angle.Inv) :
    let d4 := g.differentiate.differentiate.differentiate.differentiate
    let dd := g.dual.dual
    let di := g.differentiate.integrate
    d4.angle.blade = g.angle.blade + 4 ∧ dd.angle.blade = g.angle.blade + 4 ∧ di.angle.blade = g.angle.blade + 4 ∧
    d4.angle.grade = g.angle.grade ∧ dd.angle.grade = g.angle.grade ∧ di.angle.grade = g.angle.grade ∧
    val d4.angle.rem = val g.angle.rem ∧ val dd.angle.rem = val g.angle.rem ∧ val di.angle.rem = val g.angle.rem := by
  have h4 := run_blade [.differentiate, .differentiate, .differentiate, .differentiate] g ha
  have h2 := run_blade [.dual, .dual] g ha
  have h13 := run_blade [.differentiate, .integrate] g ha
  simp only [List.foldl_cons, List.foldl_nil, step, List.map_cons, List.map_nil, List.sum_cons, List.sum_nil,
    Op.delta] at h4 h2 h13
  refine ⟨h4.1, h2.1, h13.1, ?_, ?_, ?_, h4.2.2.1, h2.2.2.1, h13.2.2.1⟩ <;>
    simp only [grade] <;> [rw [h4.1]; rw [h2.1]; rw [h13.1]] <;> omega

end S

/-! non-vacuity -/
example {F : Type} [FloatSpec F] : (⟨one, ⟨zero, 9⟩⟩ : Geonum F).angle.Inv := inv_zero 9
example {F : Type} [FloatSpec F] : ∀ o ∈ ([.step .dual, .add ⟨zero, 5⟩, .sub ⟨zero, 11⟩] : List (MOp F)), o.Ok := by
  intro o ho; simp at ho; rcases ho with rfl | rfl | rfl
  · trivial
  · exact inv_zero 5
  · exact inv_zero 11


/-! ### R — on the arithmetic that really rounds (`R64`: round-to-nearest on the binary64 grid, correctly rounded libm) -/
section R

/-- (R) the mixed-history theorem for histories of binary64 numbers: no hypothesis about the arithmetic is left -/
theorem run_mixed_rounded (ops : List (MOp R64)) (g : Geonum R64) (ha : g.angle.Inv) (hops : ∀ o ∈ ops, o.Ok) :
    (ops.foldl mstep g).angle.Inv ∧ (ops.foldl mstep g).mag = g.mag ∧
    ∃ ks : List ℤ, List.Forall₂ MOp.Allowed ops ks ∧
      ((ops.foldl mstep g).angle.blade : ℤ) % 4 = ((g.angle.blade : ℤ) + ks.sum) % 4 ∧
      (g.angle.blade : ℤ) + ks.sum ≤ ((ops.foldl mstep g).angle.blade : ℤ) ∧
      ((∀ o ∈ ops, o.isSub = false) → ((ops.foldl mstep g).angle.blade : ℤ) = (g.angle.blade : ℤ) + ks.sum) :=
  run_mixed (F := R64) ops g ha hops

end R

end GeonumModel.C07
