/-
  C04 — Angle subtraction and scalar division undo addition, forward-only.
  G = any arithmetic; S = any arithmetic satisfying `FloatSpec`.  `T a = blade·(π/2) + rem`.
-/
import GeonumModel.Lemmas.AngleStep
import GeonumModel.Spec.RealWitness
import GeonumModel.Lemmas.Exact
import GeonumModel.Lemmas.FloatDivF
import GeonumModel.Spec.RoundWitness

set_option linter.unusedSectionVars false
set_option linter.unusedVariables false

namespace GeonumModel.C04
open GeonumModel FloatLike FloatSpec Angle

noncomputable def T {F : Type} [FloatSpec F] (a : Angle F) : ℝ := (a.blade : ℝ) * val (qp : F) + val a.rem

section G
variable {F : Type} [FloatLike F]

/-- (G) all 8 spellings of angle-by-angle subtraction/division are the same function, and so are both of `Angle / f64` -/
theorem spellings (a b : Angle F) (k : F) :
    subVR a b = subVV a b ∧ subRV a b = subVV a b ∧ subRR a b = subVV a b ∧
    divVV a b = subVV a b ∧ divVR a b = subVV a b ∧ divRV a b = subVV a b ∧ divRR a b = subVV a b ∧
    subVV a b = a.geometricSub b ∧ a.divFR k = a.divF k :=
  ⟨rfl, rfl, rfl, rfl, rfl, rfl, rfl, rfl, rfl⟩

/-- (G) the blade wrap: a non-negative difference is kept exactly (no spurious turns); a negative one becomes the
    congruent count in `0..3` (fewer than one full turn of blades), never a negative angle -/
theorem wrap4_laws (d : ℤ) :
    (0 ≤ d → (wrap4 d : ℤ) = d) ∧ (d < 0 → wrap4 d < 4) ∧ ((wrap4 d : ℤ) % 4 = d % 4) ∧ d ≤ (wrap4 d : ℤ) :=
  ⟨wrap4_nonneg d, wrap4_neg_lt d, wrap4_mod d, wrap4_ge d⟩
end G

section S
variable {F : Type} [FloatSpec F]

/-- (S) the difference of two canonical angles is canonical (never a negative remainder) -/
theorem sub_inv {a b : Angle F} (ha : a.Inv) (hb : b.Inv) : (a.geometricSub b).Inv := geometricSub_inv ha hb

/-- (S) `a − a` is literally the zero angle `Angle { rem: 0.0, blade: 0 }` -/
theorem sub_self {a : Angle F} (ha : a.Inv) : a.geometricSub a = ⟨zero, 0⟩ := by
  obtain ⟨hf, hv⟩ := fsub_spec ha.1 ha.1 (by rw [_root_.sub_self]; exact inRange_small (by rw [abs_zero]; positivity))
  obtain ⟨hfa, hva⟩ := fabs_spec hf
  have ht : flt (fabs (fsub a.rem a.rem)) (e15 : F) = true := by
    rw [flt_spec hfa fin_e15, hva, hv, _root_.sub_self, rnd_zero, abs_zero]; exact val_e15_pos
  unfold geometricSub
  simp [ht, wrap4]

/-- (S/B) subtracting a smaller-or-equal total returns the difference of totals to within the boundary tolerance plus the
    rounding of two additions (`< 1e-15`), with no spurious turns — for every blade count -/
theorem sub_total {a b : Angle F} (ha : a.Inv) (hb : b.Inv)
    (hle : b.blade < a.blade ∨ (b.blade = a.blade ∧ val b.rem ≤ val a.rem)) :
    |T (a.geometricSub b) - (T a - T b)| < val (e10 : F) + 1 / 10 ^ 15 := by
  obtain ⟨_, s, c, hs, hc, hbl, htot, _, hneg⟩ := geometricSub_spec ha hb
  have hnn : 0 ≤ (a.blade : ℤ) - (b.blade : ℤ) + s := by
    rcases hle with h | ⟨h, hr⟩
    · rcases hs with rfl | rfl <;> omega
    · rcases hs with rfl | rfl
      · omega
      · exfalso; have := hneg rfl; linarith
  have hw := wrap4_nonneg _ hnn
  have hblz : ((a.geometricSub b).blade : ℤ) = (a.blade : ℤ) - (b.blade : ℤ) + s + c := by
    rw [hbl]; push_cast; rw [hw]
  have hblr : ((a.geometricSub b).blade : ℝ) = (a.blade : ℝ) - (b.blade : ℝ) + (s : ℝ) + (c : ℝ) := by
    exact_mod_cast hblz
  have e : T (a.geometricSub b) - (T a - T b) =
      val (a.geometricSub b).rem + ((c : ℝ) + (s : ℝ)) * val (qp : F) - (val a.rem - val b.rem) := by
    unfold T; rw [hblr]; ring
  rw [e]; exact htot

/-- (S/B) subtracting a larger total returns the equivalent forward rotation: congruent to the difference of totals modulo
    whole turns (to within the tolerance), at most one full turn (blade ≤ 4, and exactly 4 only with remainder 0) -/
theorem sub_forward {a b : Angle F} (ha : a.Inv) (hb : b.Inv)
    (hgt : a.blade < b.blade ∨ (a.blade = b.blade ∧ val a.rem < val b.rem)) :
    (∃ m : ℤ, 0 ≤ m ∧ |T (a.geometricSub b) - (T a - T b) - (m : ℝ) * (4 * val (qp : F))| < val (e10 : F) + 1 / 10 ^ 15) ∧
    (a.geometricSub b).blade ≤ 4 ∧ ((a.geometricSub b).blade = 4 → val (a.geometricSub b).rem = 0) := by
  obtain ⟨_, s, c, hs, hc, hbl, htot, hc1, hneg⟩ := geometricSub_spec ha hb
  set D : ℤ := (a.blade : ℤ) - (b.blade : ℤ) + s with hD
  have hmod := wrap4_mod D
  have hge := wrap4_ge D
  -- number of whole turns added by the wrap
  obtain ⟨m, hm⟩ : ∃ m : ℤ, (wrap4 D : ℤ) = D + 4 * m := ⟨((wrap4 D : ℤ) - D) / 4, by omega⟩
  have hm0 : 0 ≤ m := by omega
  have hblr : ((a.geometricSub b).blade : ℝ) = (a.blade : ℝ) - (b.blade : ℝ) + (s : ℝ) + 4 * (m : ℝ) + (c : ℝ) := by
    have : ((a.geometricSub b).blade : ℤ) = (a.blade : ℤ) - (b.blade : ℤ) + s + 4 * m + c := by
      rw [hbl]; push_cast; rw [hm]
    exact_mod_cast this
  refine ⟨⟨m, hm0, ?_⟩, ?_, ?_⟩
  · have e : T (a.geometricSub b) - (T a - T b) - (m : ℝ) * (4 * val (qp : F)) =
        val (a.geometricSub b).rem + ((c : ℝ) + (s : ℝ)) * val (qp : F) - (val a.rem - val b.rem) := by
      unfold T; rw [hblr]; ring
    rw [e]; exact htot
  · rw [hbl]
    by_cases hDn : D < 0
    · have := wrap4_neg_lt D hDn; rcases hc with rfl | rfl <;> omega
    · have hD0 : D = 0 := by
        rcases hgt with h | ⟨h, _⟩ <;> rcases hs with rfl | rfl <;> omega
      rw [hD0]; simp [wrap4]; rcases hc with rfl | rfl <;> omega
  · intro h4
    apply hc1
    rw [hbl] at h4
    by_cases hDn : D < 0
    · have := wrap4_neg_lt D hDn; rcases hc with rfl | rfl <;> omega
    · have hD0 : D = 0 := by
        rcases hgt with h | ⟨h, _⟩ <;> rcases hs with rfl | rfl <;> omega
      rw [hD0] at h4; simp [wrap4] at h4; rcases hc with rfl | rfl <;> omega

/-- (S/B) **`(a+b) − b` returns `a`**: the total is within two tolerances of `T a`, with no spurious turns -/
theorem add_sub_cancel {a b : Angle F} (ha : a.Inv) (hb : b.Inv) :
    |T ((a.geometricAdd b).geometricSub b) - T a| < 2 * (val (e10 : F) + 1 / 10 ^ 15) := by
  obtain ⟨hx, hbl, htot⟩ := geometricAdd_spec ha hb
  have hle : b.blade < (a.geometricAdd b).blade ∨ (b.blade = (a.geometricAdd b).blade ∧ val b.rem ≤ val (a.geometricAdd b).rem) := by
    by_cases hlt : b.blade < (a.geometricAdd b).blade
    · exact Or.inl hlt
    · right
      have hnc : (a.geometricAdd b).blade = a.blade + b.blade := by rcases hbl with h | h <;> omega
      exact ⟨by omega, (geometricAdd_nocarry_rem ha hb hnc).1⟩
  have h2 := sub_total hx hb hle
  have e : T (a.geometricAdd b) - (T a + T b) =
      (val (a.geometricAdd b).rem + (((a.geometricAdd b).blade : ℝ) - ((a.blade + b.blade : ℕ) : ℝ)) * val (qp : F))
        - (val a.rem + val b.rem) := by unfold T; push_cast; ring
  rw [← e] at htot
  rw [abs_lt] at htot h2 ⊢
  constructor <;> linarith [htot.1, htot.2, h2.1, h2.2]

end S

/-! ### E-tier: dividing an angle by a positive number -/
section E
open GeonumModel.Exact

/-- (E) **`a / k` divides the total by `k`** (no whole turns added, slack below `1e-10`), for every `k > 0` with `T a / k ≤ 2^42`;
    in particular `a / 1` returns `a`'s total -/
theorem divF_total_real {a : Angle ℝ} {k : ℝ} (ha : a.Inv) (hk : 0 < k) (hb : Exact.T a / k ≤ 2 ^ 42) :
    ∃ δ : ℝ, |δ| < 1 / 10 ^ 10 ∧ Exact.T (a.divF k) = Exact.T a / k + δ ∧ a.divFR k = a.divF k := by
  have hpi := Real.pi_pos
  have hT0 : 0 ≤ Exact.T a := by
    unfold Exact.T
    have : 0 ≤ a.rem := ha.2.1
    positivity
  have hdef : a.divF k = Angle.new (Exact.T a / k) Real.pi := by
    unfold Angle.divF
    simp only [r_add, r_mul, r_div, pi_real, lit_real.2.2.1]
    rfl
  have hq : Exact.T a / k * Real.pi / Real.pi = Exact.T a / k := by field_simp
  have h0 : 0 ≤ Exact.T a / k * Real.pi / Real.pi := by rw [hq]; positivity
  have hb' : |Exact.T a / k * Real.pi / Real.pi| ≤ 2 ^ 42 := by rw [hq, abs_of_nonneg (by positivity)]; exact hb
  have hfast : (feq (Real.pi : ℝ) (two : ℝ) && feq (FloatLike.fract (Exact.T a / k)) (zero : ℝ)) = false := by
    have : feq (Real.pi : ℝ) (two : ℝ) = false := by
      rw [lit_real.2.2.1, r_eq]
      have := Real.pi_gt_three
      simp; linarith
    simp [this]
  obtain ⟨δ, hδ, hT⟩ := new_total_nonneg_real hb' h0 hfast
  rw [hq] at hT
  exact ⟨δ, hδ, by rw [hdef]; exact hT, rfl⟩

end E

/-! ### B-tier: `Angle / f64` in rounded arithmetic -/
section B
variable {F : Type} [FloatSpec F]

/-- (B) **dividing an angle by a positive number divides its total, in rounded arithmetic**: for every canonical angle with up to
    `2^42` blades and every finite divisor `k ≥ 1e-100` with quotient total at most `2^40` radians, the result is canonical, both
    spellings agree, and the float total `Tq = blade·(π_f/2) + rem` of `a / k` is `Tq a / k` to within the `1e-10` snap plus
    `16·2⁻⁵³` relative — through all seven roundings (`blade·qp`, `+ rem`, `/ k`, `· π`, `/ π`, exact `fmod`, snap); no whole turn
    appears or disappears -/
theorem divF_float {a : Angle F} {k : F} (ha : a.Inv) (hbl : a.blade ≤ 2 ^ 42) (hk : Fin k)
    (hk0 : 1 / 10 ^ 100 ≤ val k) (hs : Angle.Tq a / val k ≤ 2 ^ 40) :
    (a.divF k).Inv ∧ a.divFR k = a.divF k ∧
    |Angle.Tq (a.divF k) - Angle.Tq a / val k| < val (e10 : F) + (Angle.Tq a / val k) * (16 * (1 / 2 ^ 53)) + 1 / 10 ^ 150 :=
  Angle.divF_float ha hbl hk hk0 hs

/-- the two spellings of the total used in this file and in the lemma layer are the same function -/
theorem T_eq_Tq (a : Angle F) : T a = Angle.Tq a := rfl

end B

/-- non-vacuity of `divF_float`: `[blade 3, rem 0] / 2.0` in any conforming arithmetic -/
example {F : Type} [FloatSpec F] :
    (Angle.divF (⟨zero, 3⟩ : Angle F) two).Inv := by
  have h2 : val (two : F) = 2 := val_two
  have hq := val_qp_lt (F := F); have hq' := val_qp_gt (F := F)
  refine (divF_float (inv_zero 3) (by norm_num) fin_two (by
    rw [h2]
    calc (1:ℝ) / 10 ^ 100 ≤ 1 := by rw [div_le_one (by positivity)]; exact one_le_pow₀ (by norm_num)
      _ ≤ 2 := by norm_num) ?_).1
  unfold Angle.Tq; simp only; rw [val_zero, h2]; push_cast
  have : (3:ℝ) * val (qp : F) + 0 ≤ 6 := by linarith
  have : ((3:ℝ) * val (qp : F) + 0) / 2 ≤ 3 := by linarith
  have : (3:ℝ) ≤ 2 ^ 40 := by norm_num
  linarith

example {F : Type} [FloatSpec F] : (⟨zero, 3⟩ : Angle F).Inv ∧ (⟨zero, 5⟩ : Angle F).Inv := ⟨inv_zero 3, inv_zero 5⟩


/-! ### R — on the arithmetic that really rounds (`R64`) -/
section R

/-- (R) division of an angle by a scalar for all binary64 operands in the domain -/
theorem divF_rounded {a : Angle R64} {k : R64} (ha : a.Inv) (hbl : a.blade ≤ 2 ^ 42)
    (hk0 : 1 / 10 ^ 100 ≤ k.v) (hs : Angle.Tq a / k.v ≤ 2 ^ 40) :
    (a.divF k).Inv ∧ a.divFR k = a.divF k ∧
    |Angle.Tq (a.divF k) - Angle.Tq a / k.v| < (e10 : R64).v + (Angle.Tq a / k.v) * (16 * (1 / 2 ^ 53)) + 1 / 10 ^ 150 :=
  divF_float (F := R64) ha hbl trivial hk0 hs

end R

end GeonumModel.C04
