/-
  C12 — Rotation, reflection and signed scaling are isometries with the stated direction.
-/
import GeonumModel.Lemmas.AngleStep
import GeonumModel.Lemmas.Shift
import GeonumModel.Lemmas.Exact
import GeonumModel.Lemmas.ExactAdd
import GeonumModel.Lemmas.FloatReflect
import GeonumModel.Lemmas.FloatMetric
import GeonumModel.Spec.RoundWitness

set_option linter.unusedSectionVars false
set_option linter.unusedVariables false

namespace GeonumModel.C12
open GeonumModel FloatLike FloatSpec Angle

section G
variable {F : Type} [FloatLike F]

/-- (G) rotation returns the magnitude field itself (bit-exact) and the angle sum -/
theorem rotate_spec (g : Geonum F) (r : Angle F) :
    (g.rotate r).mag = g.mag ∧ (g.rotate r).angle = g.angle.geometricAdd r := ⟨rfl, rfl⟩

/-- (G) reflection keeps the magnitude field and never reads the axis's length: axes with the same angle reflect identically -/
theorem reflect_spec (g axis axis' : Geonum F) (h : axis.angle = axis'.angle) :
    (g.reflect axis).mag = g.mag ∧ g.reflect axis = g.reflect axis' ∧
    (g.reflect axis).angle =
      (axis.angle.geometricAdd axis.angle).geometricAdd ((Angle.new four one).geometricSub g.angle.baseAngle) := by
  refine ⟨rfl, ?_, rfl⟩
  unfold Geonum.reflect; rw [h]

/-- (G) scale-rotate: a factor that tests negative is encoded as `|f|` and a half turn (`negate`) before the rotation; any other
    factor multiplies the magnitude as is -/
theorem scaleRotate_spec (g : Geonum F) (f : F) (r : Angle F) :
    (flt f zero = true → g.scaleRotate f r = ⟨fmul g.mag (fabs f), g.angle.negate.geometricAdd r⟩) ∧
    (flt f zero = false → g.scaleRotate f r = ⟨fmul g.mag f, g.angle.geometricAdd r⟩) := by
  constructor <;> intro h <;> simp [Geonum.scaleRotate, h, Geonum.newWithAngle, Angle.add, addVV]
end G

section S
variable {F : Type} [FloatSpec F]

/-- (S) a full turn (`Angle::new(4.0, 2.0)`) adds exactly four blades and preserves grade and remainder value -/
theorem rotate_full_turn {g : Geonum F} (ha : g.angle.Inv) :
    (g.rotate (Angle.new four two)).angle.blade = g.angle.blade + 4 ∧
    (g.rotate (Angle.new four two)).angle.grade = g.angle.grade ∧
    val (g.rotate (Angle.new four two)).angle.rem = val g.angle.rem := by
  have h4 : Angle.new (four : F) two = ⟨zero, 4⟩ := by
    have := new_nat (F := F) 4 (by norm_num); simpa [four] using this
  have hw := add_whole (z := (⟨zero, 4⟩ : Angle F)) ha fin_zero val_zero
  simp only [Geonum.rotate, Angle.rotate, Angle.add, addVV, h4]
  refine ⟨hw.1, ?_, hw.2.2⟩
  simp only [grade, hw.1]; omega

/-- (S) rotations keep the angle canonical; blade counts add with at most one carry (so they compose additively, C03) -/
theorem rotate_angle {g : Geonum F} {r : Angle F} (ha : g.angle.Inv) (hr : r.Inv) :
    (g.rotate r).angle.Inv ∧ ((g.rotate r).angle.blade = g.angle.blade + r.blade ∨
      (g.rotate r).angle.blade = g.angle.blade + r.blade + 1) :=
  ⟨(geometricAdd_spec ha hr).1, (geometricAdd_spec ha hr).2.1⟩

/-- (S) the reflected number never carries fewer blades than twice the axis's, and its angle is canonical -/
theorem reflect_blades {g axis : Geonum F} (hg : g.angle.Inv) (hax : axis.angle.Inv) :
    (g.reflect axis).angle.Inv ∧ 2 * axis.angle.blade ≤ (g.reflect axis).angle.blade := by
  obtain ⟨hb8, hf8, _, hv8⟩ := new_four_one (F := F)
  simp only at hb8 hv8; rw [val_zero] at hv8
  have h4inv : (Angle.new (four : F) one).Inv := Angle.Equiv.inv (Angle.Equiv.symm new_four_one) (inv_zero 8)
  have hcomp := geometricSub_inv h4inv (baseAngle_inv hg)
  obtain ⟨haa, hbl, _⟩ := geometricAdd_spec hax hax
  obtain ⟨hres, hbl2, _⟩ := geometricAdd_spec haa hcomp
  refine ⟨hres, ?_⟩
  show 2 * axis.angle.blade ≤ ((axis.angle.geometricAdd axis.angle).geometricAdd
    ((Angle.new four one).geometricSub g.angle.baseAngle)).blade
  rcases hbl with h | h <;> rcases hbl2 with h2 | h2 <;> rw [h2, h] <;> omega

end S

/-! ### E-tier: exact arithmetic — directions -/
section E
open GeonumModel.Exact

/-- (E) rotation adds the totals (slack below `1e-10 + 1e-15` only when the sum snapped to a quarter turn): rotations
    compose additively -/
theorem rotate_total_real {g : Geonum ℝ} {r : Angle ℝ} (hg : g.angle.Inv) (hr : r.Inv) :
    ∃ δ : ℝ, |δ| < 1 / 10 ^ 10 + 1 / 10 ^ 15 ∧ T (g.rotate r).angle = T g.angle + T r + δ :=
  add_total_real hg hr

/-- (E) **reflection sends direction `t` to `2α − t` modulo whole turns**, to within three snap tolerances -/
theorem reflect_direction_real {g axis : Geonum ℝ} (hg : g.angle.Inv) (hax : axis.angle.Inv) :
    ∃ (δ : ℝ) (m : ℤ), |δ| < 3 * (1 / 10 ^ 10 + 1 / 10 ^ 15) ∧
      T (g.reflect axis).angle = 2 * T axis.angle - T g.angle + δ + (m : ℝ) * (2 * Real.pi) := by
  -- the complement 4π − base(t)
  obtain ⟨hb8, _, _, hv8⟩ := new_four_one (F := ℝ)
  simp only at hb8 hv8
  have h4inv : (Angle.new (four : ℝ) one).Inv := Angle.Equiv.inv (Angle.Equiv.symm new_four_one) (inv_zero 8)
  have hv8' : (Angle.new (four : ℝ) one).rem = 0 := by
    have : val (F := ℝ) (zero : ℝ) = 0 := val_zero
    rw [this] at hv8; exact hv8
  have hT4 : T (Angle.new (four : ℝ) one) = 4 * Real.pi := by unfold T; rw [hb8, hv8']; push_cast; ring
  have hbase : T g.angle.baseAngle = T g.angle - ((g.angle.blade / 4 : ℕ) : ℝ) * (2 * Real.pi) := by
    unfold T baseAngle grade
    have h : g.angle.blade = 4 * (g.angle.blade / 4) + g.angle.blade % 4 := (Nat.div_add_mod g.angle.blade 4).symm
    have hr : (g.angle.blade : ℝ) = 4 * ((g.angle.blade / 4 : ℕ) : ℝ) + ((g.angle.blade % 4 : ℕ) : ℝ) := by exact_mod_cast h
    simp only; rw [hr]; push_cast; ring
  obtain ⟨δ2, m2, hδ2, hc⟩ := sub_total_real (a := g.angle.baseAngle) (b := Angle.new (four : ℝ) one) (baseAngle_inv hg) h4inv
  have hcinv := geometricSub_inv h4inv (baseAngle_inv hg)
  obtain ⟨δ1, hδ1, haa⟩ := add_total_real hax hax
  have haainv := geometricAdd_inv hax hax
  obtain ⟨δ3, hδ3, hres⟩ := add_total_real haainv hcinv
  refine ⟨δ1 + δ2 + δ3, m2 + 2 + (g.angle.blade / 4 : ℕ), ?_, ?_⟩
  · have := abs_add_three δ1 δ2 δ3
    linarith
  · show T ((axis.angle.geometricAdd axis.angle).geometricAdd ((Angle.new four one).geometricSub g.angle.baseAngle)) = _
    rw [hres, haa, hc, hT4, hbase]
    simp only [Int.cast_add, Int.cast_natCast, Int.cast_ofNat]
    ring

/-- (E) a number lying on the axis keeps its direction; reflecting across the negated axis gives the same direction -/
theorem reflect_on_axis_real {g axis : Geonum ℝ} (hg : g.angle.Inv) (hax : axis.angle.Inv) (hon : T g.angle = T axis.angle) :
    ∃ (δ : ℝ) (m : ℤ), |δ| < 3 * (1 / 10 ^ 10 + 1 / 10 ^ 15) ∧
      T (g.reflect axis).angle = T g.angle + δ + (m : ℝ) * (2 * Real.pi) := by
  obtain ⟨δ, m, hδ, h⟩ := reflect_direction_real hg hax
  exact ⟨δ, m, hδ, by rw [h, hon]; ring⟩

theorem reflect_negated_axis_real {g axis : Geonum ℝ} (hg : g.angle.Inv) (hax : axis.angle.Inv) :
    ∃ (δ : ℝ) (m : ℤ), |δ| < 3 * (1 / 10 ^ 10 + 1 / 10 ^ 15) ∧
      T (g.reflect axis.negate).angle = 2 * T axis.angle - T g.angle + δ + (m : ℝ) * (2 * Real.pi) := by
  have hn := negate_spec hax
  have hninv : axis.negate.angle.Inv := inv_of_spec hax hn.2
  obtain ⟨δ, m, hδ, h⟩ := reflect_direction_real hg hninv
  have hT : T axis.negate.angle = T axis.angle + Real.pi := negate_total_real hax
  exact ⟨δ, m + 1, hδ, by rw [h, hT]; push_cast; ring⟩

/-- (E) **reflecting twice restores the direction** (modulo whole turns, within six snap tolerances), and the magnitude field -/
theorem reflect_involution_real {g axis : Geonum ℝ} (hg : g.angle.Inv) (hax : axis.angle.Inv) :
    ((g.reflect axis).reflect axis).mag = g.mag ∧
    ∃ (δ : ℝ) (m : ℤ), |δ| < 6 * (1 / 10 ^ 10 + 1 / 10 ^ 15) ∧
      T ((g.reflect axis).reflect axis).angle = T g.angle + δ + (m : ℝ) * (2 * Real.pi) := by
  refine ⟨rfl, ?_⟩
  obtain ⟨δ1, m1, hδ1, h1⟩ := reflect_direction_real hg hax
  have hrinv : (g.reflect axis).angle.Inv := (reflect_blades hg hax).1
  obtain ⟨δ2, m2, hδ2, h2⟩ := reflect_direction_real hrinv hax
  refine ⟨δ2 - δ1, m2 - m1, ?_, ?_⟩
  · have := abs_sub δ2 δ1
    linarith
  · rw [h2, h1]; push_cast; ring

theorem polar_mul (a b s t : ℝ) : polar a s * polar b t = polar (a * b) (s + t) := by
  apply Complex.ext <;> simp [polar, Complex.mul_re, Complex.mul_im, Real.cos_add, Real.sin_add] <;> ring

theorem ofReal_mul_polar (f m θ : ℝ) : (f : ℂ) * polar m θ = polar (f * m) θ := by
  apply Complex.ext <;> simp [polar, Complex.mul_re, Complex.mul_im] <;> ring

/-- (E) **scale-rotate multiplies the Cartesian vector by the signed factor and rotates it**: the Cartesian point of
    `g.scale_rotate(f, r)` is `f · e^{i·T r} · cart g` to within `|f|·|g|·(1e-10 + 1e-15)` — for every finite factor, the negative
    ones being encoded as `|f|` and a half turn -/
theorem scaleRotate_cartesian_real {g : Geonum ℝ} {r : Angle ℝ} (f : ℝ) (hg : g.angle.Inv) (hr : r.Inv) (h0 : 0 ≤ g.mag) :
    ‖cart (g.scaleRotate f r) - (f : ℂ) * (polar 1 (T r) * cart g)‖ ≤ |f| * g.mag * (1 / 10 ^ 10 + 1 / 10 ^ 15) := by
  have htarget : (f : ℂ) * (polar 1 (T r) * cart g) = polar (g.mag * f) (T g.angle + T r) := by
    show (f : ℂ) * (polar 1 (T r) * polar g.mag (T g.angle)) = _
    rw [polar_mul, ofReal_mul_polar]
    congr 1 <;> ring
  rw [htarget]
  have key : ∀ δ : ℝ, |δ| < 1 / 10 ^ 10 + 1 / 10 ^ 15 →
      ‖polar (g.mag * f) (T g.angle + T r + δ) - polar (g.mag * f) (T g.angle + T r)‖
        ≤ |f| * g.mag * (1 / 10 ^ 10 + 1 / 10 ^ 15) := by
    intro δ hδ
    refine le_trans (norm_polar_sub_le _ _ _) ?_
    have e : T g.angle + T r + δ - (T g.angle + T r) = δ := by ring
    rw [e, abs_mul, abs_of_nonneg h0, mul_comm g.mag |f|]
    exact mul_le_mul_of_nonneg_left (le_of_lt hδ) (mul_nonneg (abs_nonneg _) h0)
  by_cases hf : f < 0
  · have hlt : flt f (zero : ℝ) = true := by rw [r_lt, lit_real.1]; simpa using hf
    rw [(scaleRotate_spec g f r).1 hlt]
    have hninv : g.angle.negate.Inv := inv_of_spec hg (negate_spec hg).2
    obtain ⟨δ, hδ, hT⟩ := add_total_real hninv hr
    show ‖polar (fmul g.mag (fabs f)) (T (g.angle.negate.geometricAdd r)) - _‖ ≤ _
    rw [hT, negate_total_real hg, r_mul, r_abs, abs_of_neg hf]
    have e : T g.angle + Real.pi + T r + δ = (T g.angle + T r + δ) + Real.pi := by ring
    rw [e, polar_add_pi, ← polar_neg]
    have e2 : -(g.mag * -f) = g.mag * f := by ring
    rw [e2]
    have hk := key δ hδ
    rwa [abs_of_neg hf] at hk
  · have hlt : flt f (zero : ℝ) = false := by rw [r_lt, lit_real.1]; simpa using hf
    rw [(scaleRotate_spec g f r).2 hlt]
    obtain ⟨δ, hδ, hT⟩ := add_total_real hg hr
    show ‖polar (fmul g.mag f) (T (g.angle.geometricAdd r)) - _‖ ≤ _
    rw [hT, r_mul]
    exact key δ hδ

end E

/-! PARTIAL (not yet proved): the Cartesian meaning of scale-rotate (explored by `oracle.C12.scale_rotate`). -/

/-! ### S/B-tier: the reflection law in ROUNDED arithmetic (float totals `Tq`, whole turns `4·(π_f/2)`) -/
section B
variable {F : Type} [FloatSpec F]

/-- (S/B) **reflection sends direction `t` to `2α − t` modulo whole turns in rounded arithmetic**, to within three snap
    tolerances, and returns the magnitude field itself — for every blade history of the number and of the axis -/
theorem reflect_direction_float {g axis : Geonum F} (hg : g.angle.Inv) (hax : axis.angle.Inv) :
    (g.reflect axis).mag = g.mag ∧
    ∃ (δ : ℝ) (m : ℤ), |δ| < 3 * (val (e10 : F) + 1 / 10 ^ 15) ∧
      Angle.Tq (g.reflect axis).angle = 2 * Angle.Tq axis.angle - Angle.Tq g.angle + δ + (m : ℝ) * (4 * val (qp : F)) :=
  Geonum.reflect_direction_float hg hax

/-- (S/B) a number lying on the axis keeps its direction -/
theorem reflect_on_axis_float {g axis : Geonum F} (hg : g.angle.Inv) (hax : axis.angle.Inv)
    (hon : Angle.Tq g.angle = Angle.Tq axis.angle) :
    ∃ (δ : ℝ) (m : ℤ), |δ| < 3 * (val (e10 : F) + 1 / 10 ^ 15) ∧
      Angle.Tq (g.reflect axis).angle = Angle.Tq g.angle + δ + (m : ℝ) * (4 * val (qp : F)) :=
  Geonum.reflect_on_axis_float hg hax hon

/-- (S/B) reflecting twice across the same axis restores the direction (six snap tolerances) and the magnitude field -/
theorem reflect_twice_float {g axis : Geonum F} (hg : g.angle.Inv) (hax : axis.angle.Inv) :
    ((g.reflect axis).reflect axis).mag = g.mag ∧
    ∃ (δ : ℝ) (m : ℤ), |δ| < 6 * (val (e10 : F) + 1 / 10 ^ 15) ∧
      Angle.Tq ((g.reflect axis).reflect axis).angle = Angle.Tq g.angle + δ + (m : ℝ) * (4 * val (qp : F)) :=
  Geonum.reflect_twice_float hg hax

/-- (S/B) **rotation in rounded arithmetic**: the magnitude field is returned untouched and the float totals add up to one snap and one
    rounding, for every blade history — composing `n` rotations therefore accumulates at most `n·(1e-10 + 1e-15)` -/
theorem rotate_total_float {g : Geonum F} {r : Angle F} (hg : g.angle.Inv) (hr : r.Inv) :
    (g.rotate r).mag = g.mag ∧ (g.rotate r).angle.Inv ∧
    ∃ δ : ℝ, |δ| < val (e10 : F) + 1 / 10 ^ 15 ∧ Angle.Tq (g.rotate r).angle = Angle.Tq g.angle + Angle.Tq r + δ :=
  ⟨rfl, geometricAdd_inv hg hr, Angle.add_total_q hg hr⟩

/-- (S/B) **a history of rotations in rounded arithmetic**: by induction over any list of canonical rotation angles, the magnitude field is
    untouched, every intermediate angle is canonical, and the float total is the start total plus the sum of the rotation totals up to
    `n·(1e-10 + 1e-15)` -/
theorem rotate_history_float (rs : List (Angle F)) (g : Geonum F) (hg : g.angle.Inv) (hrs : ∀ r ∈ rs, r.Inv) :
    (rs.foldl Geonum.rotate g).mag = g.mag ∧ (rs.foldl Geonum.rotate g).angle.Inv ∧
    ∃ δ : ℝ, |δ| ≤ (rs.length : ℝ) * (val (e10 : F) + 1 / 10 ^ 15) ∧
      Angle.Tq (rs.foldl Geonum.rotate g).angle = Angle.Tq g.angle + (rs.map Angle.Tq).sum + δ := by
  induction rs generalizing g with
  | nil => exact ⟨rfl, hg, 0, by simp, by simp⟩
  | cons r rs ih =>
    obtain ⟨hm, hi, δ1, hδ1, ht⟩ := rotate_total_float (g := g) hg (hrs r List.mem_cons_self)
    obtain ⟨ihm, ihi, δ2, hδ2, iht⟩ := ih (g.rotate r) hi (fun x hx => hrs x (List.mem_cons_of_mem _ hx))
    refine ⟨by simp only [List.foldl_cons]; rw [ihm, hm], ihi, δ1 + δ2, ?_, ?_⟩
    · have := abs_add_le δ1 δ2
      simp only [List.length_cons]; push_cast
      have e : ((rs.length : ℝ) + 1) * (val (e10 : F) + 1 / 10 ^ 15)
          = (rs.length : ℝ) * (val (e10 : F) + 1 / 10 ^ 15) + (val (e10 : F) + 1 / 10 ^ 15) := by ring
      rw [e]; linarith
    · simp only [List.foldl_cons, List.map_cons, List.sum_cons]
      rw [iht, ht]; ring

/-- (S/B) **`scale_rotate` in rounded arithmetic**: the magnitude is the one rounded product of `|g|` with `|f|` (negative factor) resp. `f`,
    and the angle's float total is `T g + T r`, plus exactly a half turn when the factor tests negative — i.e. the Cartesian vector is multiplied
    by the signed factor and rotated — up to one snap and one rounding, for every blade history -/
theorem scaleRotate_float {g : Geonum F} {f : F} {r : Angle F} (hg : g.angle.Inv) (hr : r.Inv) (hm : Fin g.mag) (hf : Fin f) :
    (flt f zero = true →
      (g.scaleRotate f r).mag = fmul g.mag (fabs f) ∧
      ∃ δ : ℝ, |δ| < val (e10 : F) + 1 / 10 ^ 15 ∧
        Angle.Tq (g.scaleRotate f r).angle = Angle.Tq g.angle + 2 * val (qp : F) + Angle.Tq r + δ) ∧
    (flt f zero = false →
      (g.scaleRotate f r).mag = fmul g.mag f ∧
      ∃ δ : ℝ, |δ| < val (e10 : F) + 1 / 10 ^ 15 ∧ Angle.Tq (g.scaleRotate f r).angle = Angle.Tq g.angle + Angle.Tq r + δ) :=
  Geonum.scaleRotate_float hg hr hm hf

end B

example {F : Type} [FloatSpec F] : (⟨zero, 6⟩ : Angle F).Inv := inv_zero 6


/-! ### R — on the arithmetic that really rounds (`R64`: round-to-nearest on the binary64 grid, correctly rounded libm) -/
section R

/-- (R) reflecting twice restores the direction, for all binary64 numbers and axes with canonical angles -/
theorem reflect_twice_rounded {g axis : Geonum R64} (hg : g.angle.Inv) (hax : axis.angle.Inv) :
    ((g.reflect axis).reflect axis).mag = g.mag ∧
    ∃ (δ : ℝ) (m : ℤ), |δ| < 6 * ((e10 : R64).v + 1 / 10 ^ 15) ∧
      Angle.Tq ((g.reflect axis).reflect axis).angle = Angle.Tq g.angle + δ + (m : ℝ) * (4 * (qp : R64).v) :=
  reflect_twice_float (F := R64) hg hax

end R

end GeonumModel.C12
