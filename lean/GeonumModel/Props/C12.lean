/-
  C12 — Rotation, reflection and signed scaling are isometries with the stated direction.
-/
import GeonumModel.Lemmas.AngleStep
import GeonumModel.Lemmas.Shift

set_option linter.unusedSectionVars false
set_option linter.unusedVariables false

namespace GeonumModel.C12
open GeonumModel FloatLike FloatSpec Angle

section G
variable {F : Type} [FloatLike F]

/-- (G) rotation returns the magnitude field itself (bit-exact) and the angle sum -/
theorem rotate_spec (g : Geonum F) (r : Angle F) :
    (g.rotate r).mag = g.mag ∧ (g.rotate r).angle = g.angle.geometricAdd r := ⟨rfl, rfl⟩

/-- (G) reflection keeps the magnitude field and never reads the axis's length: axes with the same angle reflect identically -/
theorem reflect_spec (g axis axis' : Geonum F) (h : axis.angle = axis'.angle) :
    (g.reflect axis).mag = g.mag ∧ g.reflect axis = g.reflect axis' ∧
    (g.reflect axis).angle =
      (axis.angle.geometricAdd axis.angle).geometricAdd ((Angle.new four one).geometricSub g.angle.baseAngle) := by
  refine ⟨rfl, ?_, rfl⟩
  unfold Geonum.reflect; rw [h]

/-- (G) scale-rotate: a factor that tests negative is encoded as `|f|` and a half turn (`negate`) before the rotation; any other
    factor multiplies the magnitude as is -/
theorem scaleRotate_spec (g : Geonum F) (f : F) (r : Angle F) :
    (flt f zero = true → g.scaleRotate f r = ⟨fmul g.mag (fabs f), g.angle.negate.geometricAdd r⟩) ∧
    (flt f zero = false → g.scaleRotate f r = ⟨fmul g.mag f, g.angle.geometricAdd r⟩) := by
  constructor <;> intro h <;> simp [Geonum.scaleRotate, h, Geonum.newWithAngle, Angle.add, addVV]
end G

section S
variable {F : Type} [FloatSpec F]

/-- (S) a full turn (`Angle::new(4.0, 2.0)`) adds exactly four blades and preserves grade and remainder value -/
theorem rotate_full_turn {g : Geonum F} (ha : g.angle.Inv) :
    (g.rotate (Angle.new four two)).angle.blade = g.angle.blade + 4 ∧
    (g.rotate (Angle.new four two)).angle.grade = g.angle.grade ∧
    val (g.rotate (Angle.new four two)).angle.rem = val g.angle.rem := by
  have h4 : Angle.new (four : F) two = ⟨zero, 4⟩ := by
    have := new_nat (F := F) 4 (by norm_num); simpa [four] using this
  have hw := add_whole (z := (⟨zero, 4⟩ : Angle F)) ha fin_zero val_zero
  simp only [Geonum.rotate, Angle.rotate, Angle.add, addVV, h4]
  refine ⟨hw.1, ?_, hw.2.2⟩
  simp only [grade, hw.1]; omega

/-- (S) rotations keep the angle canonical; blade counts add with at most one carry (so they compose additively, C03) -/
theorem rotate_angle {g : Geonum F} {r : Angle F} (ha : g.angle.Inv) (hr : r.Inv) :
    (g.rotate r).angle.Inv ∧ ((g.rotate r).angle.blade = g.angle.blade + r.blade ∨
      (g.rotate r).angle.blade = g.angle.blade + r.blade + 1) :=
  ⟨(geometricAdd_spec ha hr).1, (geometricAdd_spec ha hr).2.1⟩

/-- (S) the reflected number never carries fewer blades than twice the axis's, and its angle is canonical -/
theorem reflect_blades {g axis : Geonum F} (hg : g.angle.Inv) (hax : axis.angle.Inv) :
    (g.reflect axis).angle.Inv ∧ 2 * axis.angle.blade ≤ (g.reflect axis).angle.blade := by
  obtain ⟨hb8, hf8, _, hv8⟩ := new_four_one (F := F)
  simp only at hb8 hv8; rw [val_zero] at hv8
  have h4inv : (Angle.new (four : F) one).Inv := Angle.Equiv.inv (Angle.Equiv.symm new_four_one) (inv_zero 8)
  have hcomp := geometricSub_inv h4inv (baseAngle_inv hg)
  obtain ⟨haa, hbl, _⟩ := geometricAdd_spec hax hax
  obtain ⟨hres, hbl2, _⟩ := geometricAdd_spec haa hcomp
  refine ⟨hres, ?_⟩
  show 2 * axis.angle.blade ≤ ((axis.angle.geometricAdd axis.angle).geometricAdd
    ((Angle.new four one).geometricSub g.angle.baseAngle)).blade
  rcases hbl with h | h <;> rcases hbl2 with h2 | h2 <;> rw [h2, h] <;> omega

end S

/-! PARTIAL (E-tier, not yet proved): direction of the reflection = 2α − t (mod 2π), involution, fixed points on the axis,
    additive composition of rotation directions, Cartesian meaning of scale-rotate.  Explored by `oracle.C12.*`. -/

example {F : Type} [FloatSpec F] : (⟨zero, 6⟩ : Angle F).Inv := inv_zero 6

end GeonumModel.C12
