/-
  C17 — GeoCollection operations are exact filters and element-wise maps.  All G-tier: true for every arithmetic, so the
  tie transfers them to the machine with no assumption on the float operations.
-/
import GeonumModel.Lemmas.Structural

set_option linter.unusedSectionVars false
set_option linter.unusedVariables false

namespace GeonumModel.C17
open GeonumModel FloatLike GeoCollection

variable {F : Type} [FloatLike F]

/-- (G) truncation keeps exactly the members whose magnitude tests strictly above the threshold, order preserved -/
theorem truncate_spec (c : GeoCollection F) (t : F) :
    (c.truncate t).objects = c.objects.filter (fun g => flt t g.mag) ∧
    (c.truncate t).objects.Sublist c.objects ∧
    (∀ g, g ∈ (c.truncate t).objects ↔ g ∈ c.objects ∧ flt t g.mag = true) :=
  ⟨rfl, List.filter_sublist, fun g => by simp [truncate, fromVec, List.mem_filter]⟩

/-- (G) cone selection keeps exactly the members satisfying the coded predicate, order preserved; a member or an axis whose
    magnitude product compares equal to zero is never selected -/
theorem selectCone_spec (c : GeoCollection F) (dir : Geonum F) (h : F) :
    (c.selectCone dir h).objects = c.objects.filter (inCone dir h) ∧
    (c.selectCone dir h).objects.Sublist c.objects ∧
    (∀ g, feq (fmul g.mag dir.mag) zero = true → inCone dir h g = false) := by
  refine ⟨rfl, List.filter_sublist, ?_⟩
  intro g hz; unfold inCone; simp [hz]

/-- (G) the cone predicate is: unsigned angle `acos(clamp(signed cosine))` at most the half-angle -/
theorem inCone_nonzero (dir g : Geonum F) (h : F) (hz : feq (fmul g.mag dir.mag) zero = false) :
    inCone dir h g =
      fle (FloatLike.acos (FloatLike.clamp
        (fmul (fdiv (g.dot dir).mag (fmul g.mag dir.mag)) ((g.dot dir).angle.project (Angle.new zero one)))
        (fneg one) one)) h := by
  unfold inCone; simp [hz]

/-- (G) scale-all and rotate-all apply the scalar operation to every member, preserving length and order -/
theorem maps_spec (c : GeoCollection F) (f : F) (r : Angle F) :
    (c.scaleAll f).objects = c.objects.map (fun g => g.scale f) ∧ (c.scaleAll f).len = c.len ∧
    (c.rotateAll r).objects = c.objects.map (fun g => g.rotate r) ∧ (c.rotateAll r).len = c.len := by
  refine ⟨rfl, ?_, rfl, ?_⟩ <;> simp [scaleAll, rotateAll, fromVec, len]

/-- (G) total magnitude is the left fold of `+` over the member magnitudes from `-0.0` (what `Iterator::sum` does) -/
theorem totalMagnitude_spec (c : GeoCollection F) :
    c.totalMagnitude = (c.objects.map (·.mag)).foldl fadd (fneg zero) := rfl

theorem foldl_maxStep_none (l : List (Geonum F)) : l.foldl maxStep none = none := by
  induction l with
  | nil => rfl
  | cons x xs ih => simpa [List.foldl, maxStep] using ih

theorem foldl_maxStep_mem (l : List (Geonum F)) (a r : Geonum F) (h : l.foldl maxStep (some a) = some r) :
    r = a ∨ r ∈ l := by
  induction l generalizing a with
  | nil => simp at h; exact Or.inl h.symm
  | cons x xs ih =>
    simp only [List.foldl_cons] at h
    cases hm : maxStep (some a) x with
    | none => rw [hm, foldl_maxStep_none] at h; cases h
    | some y =>
      rw [hm] at h
      have hy : y = a ∨ y = x := by
        unfold maxStep at hm
        simp only at hm
        split at hm
        · cases hm
        · cases hm; exact Or.inl rfl
        · cases hm; exact Or.inr rfl
      rcases ih y h with e | m
      · rcases hy with e2 | e2
        · exact Or.inl (e.trans e2)
        · exact Or.inr (by rw [e, e2]; exact List.mem_cons_self)
      · exact Or.inr (List.mem_cons_of_mem _ m)

/-- (G) dominant is `None` exactly on the empty collection, and otherwise (when no comparison panics) a member -/
theorem dominant_spec (c : GeoCollection F) :
    (c.dominant = some none ↔ c.objects = []) ∧
    (∀ g, c.dominant = some (some g) → g ∈ c.objects) := by
  unfold dominant
  constructor
  · cases hc : c.objects with
    | nil => simp
    | cons x xs =>
      simp only [reduceCtorEq, iff_false]
      intro h
      cases hf : xs.foldl maxStep (some x) <;> simp [hf] at h
  · intro g h
    cases hc : c.objects with
    | nil => rw [hc] at h; simp at h
    | cons x xs =>
      rw [hc] at h
      simp only at h
      cases hf : xs.foldl maxStep (some x) with
      | none => rw [hf] at h; simp at h
      | some r =>
        rw [hf] at h; simp at h
        subst h
        rcases foldl_maxStep_mem xs x r hf with e | m
        · rw [e]; exact List.mem_cons_self
        · exact List.mem_cons_of_mem _ m

/-- (G) conversion, indexing and iteration are the member sequence itself -/
theorem conversions (v : List (Geonum F)) (i : Nat) :
    (fromVec v).objects = v ∧ (fromIter v).objects = v ∧ (fromVec v).iter = v ∧ (fromVec v).intoIter = v ∧
    (fromVec v).intoIterRef = v ∧ (fromVec v).asRefVec = v ∧ (fromVec v).asRefSlice = v ∧
    (fromVec v).index i = v[i]? ∧ (fromVec v).len = v.length ∧ (new : GeoCollection F).objects = [] ∧
    (GeoCollection.default : GeoCollection F).objects = [] :=
  ⟨rfl, rfl, rfl, rfl, rfl, rfl, rfl, rfl, rfl, rfl, rfl⟩

example : (GeoCollection.fromVec ([] : List (Geonum Nat))).objects = [] := rfl

end GeonumModel.C17
