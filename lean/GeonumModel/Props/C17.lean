/-
  C17 — GeoCollection operations are exact filters and element-wise maps.  Mostly G-tier: true for every arithmetic, so the
  tie transfers them to the machine with no assumption on the float operations; the clauses that speak about magnitudes as numbers
  (strictly above the threshold, maximal magnitude, the sum) are S-tier / R-tier at the end.
-/
import GeonumModel.Lemmas.Structural
import GeonumModel.Props.C16

set_option linter.unusedSectionVars false
set_option linter.unusedVariables false

namespace GeonumModel.C17
open GeonumModel FloatLike GeoCollection

variable {F : Type} [FloatLike F]

/-- (G) truncation keeps exactly the members whose magnitude tests strictly above the threshold, order preserved -/
theorem truncate_spec (c : GeoCollection F) (t : F) :
    (c.truncate t).objects = c.objects.filter (fun g => flt t g.mag) ∧
    (c.truncate t).objects.Sublist c.objects ∧
    (∀ g, g ∈ (c.truncate t).objects ↔ g ∈ c.objects ∧ flt t g.mag = true) :=
  ⟨rfl, List.filter_sublist, fun g => by simp [truncate, fromVec, List.mem_filter]⟩

/-- (G) cone selection keeps exactly the members satisfying the coded predicate, order preserved; a member or an axis whose
    magnitude product compares equal to zero is never selected -/
theorem selectCone_spec (c : GeoCollection F) (dir : Geonum F) (h : F) :
    (c.selectCone dir h).objects = c.objects.filter (inCone dir h) ∧
    (c.selectCone dir h).objects.Sublist c.objects ∧
    (∀ g, feq (fmul g.mag dir.mag) zero = true → inCone dir h g = false) := by
  refine ⟨rfl, List.filter_sublist, ?_⟩
  intro g hz; unfold inCone; simp [hz]

/-- (G) the cone predicate is: unsigned angle `acos(clamp(signed cosine))` at most the half-angle -/
theorem inCone_nonzero (dir g : Geonum F) (h : F) (hz : feq (fmul g.mag dir.mag) zero = false) :
    inCone dir h g =
      fle (FloatLike.acos (FloatLike.clamp
        (fmul (fdiv (g.dot dir).mag (fmul g.mag dir.mag)) ((g.dot dir).angle.project (Angle.new zero one)))
        (fneg one) one)) h := by
  unfold inCone; simp [hz]

/-- (G) scale-all and rotate-all apply the scalar operation to every member, preserving length and order -/
theorem maps_spec (c : GeoCollection F) (f : F) (r : Angle F) :
    (c.scaleAll f).objects = c.objects.map (fun g => g.scale f) ∧ (c.scaleAll f).len = c.len ∧
    (c.rotateAll r).objects = c.objects.map (fun g => g.rotate r) ∧ (c.rotateAll r).len = c.len := by
  refine ⟨rfl, ?_, rfl, ?_⟩ <;> simp [scaleAll, rotateAll, fromVec, len]

/-- (G) total magnitude is the left fold of `+` over the member magnitudes from `-0.0` (what `Iterator::sum` does) -/
theorem totalMagnitude_spec (c : GeoCollection F) :
    c.totalMagnitude = (c.objects.map (·.mag)).foldl fadd (fneg zero) := rfl

theorem foldl_maxStep_none (l : List (Geonum F)) : l.foldl maxStep none = none := by
  induction l with
  | nil => rfl
  | cons x xs ih => simpa [List.foldl, maxStep] using ih

theorem foldl_maxStep_mem (l : List (Geonum F)) (a r : Geonum F) (h : l.foldl maxStep (some a) = some r) :
    r = a ∨ r ∈ l := by
  induction l generalizing a with
  | nil => simp at h; exact Or.inl h.symm
  | cons x xs ih =>
    simp only [List.foldl_cons] at h
    cases hm : maxStep (some a) x with
    | none => rw [hm, foldl_maxStep_none] at h; cases h
    | some y =>
      rw [hm] at h
      have hy : y = a ∨ y = x := by
        unfold maxStep at hm
        simp only at hm
        split at hm
        · cases hm
        · cases hm; exact Or.inl rfl
        · cases hm; exact Or.inr rfl
      rcases ih y h with e | m
      · rcases hy with e2 | e2
        · exact Or.inl (e.trans e2)
        · exact Or.inr (by rw [e, e2]; exact List.mem_cons_self)
      · exact Or.inr (List.mem_cons_of_mem _ m)

/-- (G) dominant is `None` exactly on the empty collection, and otherwise (when no comparison panics) a member -/
theorem dominant_spec (c : GeoCollection F) :
    (c.dominant = some none ↔ c.objects = []) ∧
    (∀ g, c.dominant = some (some g) → g ∈ c.objects) := by
  unfold dominant
  constructor
  · cases hc : c.objects with
    | nil => simp
    | cons x xs =>
      simp only [reduceCtorEq, iff_false]
      intro h
      cases hf : xs.foldl maxStep (some x) <;> simp [hf] at h
  · intro g h
    cases hc : c.objects with
    | nil => rw [hc] at h; simp at h
    | cons x xs =>
      rw [hc] at h
      simp only at h
      cases hf : xs.foldl maxStep (some x) with
      | none => rw [hf] at h; simp at h
      | some r =>
        rw [hf] at h; simp at h
        subst h
        rcases foldl_maxStep_mem xs x r hf with e | m
        · rw [e]; exact List.mem_cons_self
        · exact List.mem_cons_of_mem _ m

/-- (G) conversion, indexing and iteration are the member sequence itself -/
theorem conversions (v : List (Geonum F)) (i : Nat) :
    (fromVec v).objects = v ∧ (fromIter v).objects = v ∧ (fromVec v).iter = v ∧ (fromVec v).intoIter = v ∧
    (fromVec v).intoIterRef = v ∧ (fromVec v).asRefVec = v ∧ (fromVec v).asRefSlice = v ∧
    (fromVec v).index i = v[i]? ∧ (fromVec v).len = v.length ∧ (new : GeoCollection F).objects = [] ∧
    (GeoCollection.default : GeoCollection F).objects = [] :=
  ⟨rfl, rfl, rfl, rfl, rfl, rfl, rfl, rfl, rfl, rfl, rfl⟩

example : (GeoCollection.fromVec ([] : List (Geonum Nat))).objects = [] := rfl


/-! ### S-tier: the clauses about magnitudes as numbers -/
section S
open FloatSpec
variable {F : Type} [FloatSpec F]

/-- (S) truncation in terms of values: a member with a finite magnitude is kept exactly when its magnitude is strictly above the
    (finite) threshold -/
theorem truncate_float (c : GeoCollection F) (t : F) (ht : Fin t) (g : Geonum F) (hg : Fin g.mag) :
    g ∈ (c.truncate t).objects ↔ g ∈ c.objects ∧ val t < val g.mag := by
  rw [(truncate_spec c t).2.2 g, flt_spec ht hg]

theorem foldl_maxStep_max (l : List (Geonum F)) (a : Geonum F) (ha : Fin a.mag) (hl : ∀ g ∈ l, Fin g.mag) :
    ∃ r, l.foldl maxStep (some a) = some r ∧ Fin r.mag ∧ val a.mag ≤ val r.mag ∧ ∀ g ∈ l, val g.mag ≤ val r.mag := by
  induction l generalizing a with
  | nil => exact ⟨a, rfl, ha, le_refl _, fun g hg => by cases hg⟩
  | cons x xs ih =>
    have hx : Fin x.mag := hl x List.mem_cons_self
    obtain ⟨f1, f2, f3, f4⟩ := C16.fcmp_spec ha hx
    simp only [List.foldl_cons]
    rcases lt_trichotomy (val a.mag) (val x.mag) with h | h | h
    · have hs : maxStep (some a) x = some x := by unfold maxStep; simp only; rw [f1.mpr h]
      rw [hs]
      obtain ⟨r, hr, hfr, hxr, hall⟩ := ih x hx (fun g hg => hl g (List.mem_cons_of_mem _ hg))
      refine ⟨r, hr, hfr, by linarith, fun g hg => ?_⟩
      rcases List.mem_cons.mp hg with e | m
      · rw [e]; exact hxr
      · exact hall g m
    · have hs : maxStep (some a) x = some x := by unfold maxStep; simp only; rw [f2.mpr h]
      rw [hs]
      obtain ⟨r, hr, hfr, hxr, hall⟩ := ih x hx (fun g hg => hl g (List.mem_cons_of_mem _ hg))
      refine ⟨r, hr, hfr, by linarith, fun g hg => ?_⟩
      rcases List.mem_cons.mp hg with e | m
      · rw [e]; exact hxr
      · exact hall g m
    · have hs : maxStep (some a) x = some a := by unfold maxStep; simp only; rw [f3.mpr h]
      rw [hs]
      obtain ⟨r, hr, hfr, har, hall⟩ := ih a ha (fun g hg => hl g (List.mem_cons_of_mem _ hg))
      refine ⟨r, hr, hfr, har, fun g hg => ?_⟩
      rcases List.mem_cons.mp hg with e | m
      · rw [e]; linarith
      · exact hall g m

/-- (S) **dominant returns a member of maximal magnitude**: on a non-empty collection whose magnitudes are finite `dominant` does not
    panic and returns a member whose magnitude is at least every member's magnitude -/
theorem dominant_max_float (c : GeoCollection F) (hne : c.objects ≠ []) (hfin : ∀ g ∈ c.objects, Fin g.mag) :
    ∃ r, c.dominant = some (some r) ∧ r ∈ c.objects ∧ ∀ g ∈ c.objects, val g.mag ≤ val r.mag := by
  cases hc : c.objects with
  | nil => exact absurd hc hne
  | cons x xs =>
    rw [hc] at hfin
    obtain ⟨r, hr, _, hxr, hall⟩ := foldl_maxStep_max xs x (hfin x List.mem_cons_self)
      (fun g hg => hfin g (List.mem_cons_of_mem _ hg))
    have hd : c.dominant = some (some r) := by unfold dominant; rw [hc]; simp only; rw [hr]; rfl
    refine ⟨r, hd, ?_, fun g hg => ?_⟩
    · have := (dominant_spec c).2 r hd; rw [hc] at this; exact this
    · rcases List.mem_cons.mp hg with e | m
      · rw [e]; exact hxr
      · exact hall g m

/-- one step of a running float sum of non-negative terms: relative error grows by `2ε`, absolute by `2τ` -/
theorem sum_step_real {S s x R K c ε τ : ℝ} (hs : 0 ≤ s) (hx : 0 ≤ x) (hK0 : 0 ≤ K) (hK1 : K ≤ 1) (hc0 : 0 ≤ c)
    (hε : 0 ≤ ε) (hcε : c * ε ≤ τ) (hS : |S - s| ≤ K * s + c) (hR : |R - (S + x)| ≤ |S + x| * ε + τ) :
    |R - (s + x)| ≤ (K + 2 * ε) * (s + x) + (c + 2 * τ) := by
  rw [abs_le] at hS hR
  have hKs : K * s ≤ s := by nlinarith
  have hKs0 : 0 ≤ K * s := mul_nonneg hK0 hs
  have hKx : 0 ≤ K * x := mul_nonneg hK0 hx
  have hA : |S + x| ≤ (s + x) + K * s + c := by
    rw [abs_le]; constructor <;> linarith [hS.1, hS.2]
  have hAε : |S + x| * ε ≤ ((s + x) + K * s + c) * ε := mul_le_mul_of_nonneg_right hA hε
  have hsε : 0 ≤ s * ε := mul_nonneg hs hε
  have hxε : 0 ≤ x * ε := mul_nonneg hx hε
  have hKsε : K * s * ε ≤ s * ε := mul_le_mul_of_nonneg_right hKs hε
  have e : ((s + x) + K * s + c) * ε = s * ε + x * ε + K * s * ε + c * ε := by ring
  rw [e] at hAε
  have e2 : (K + 2 * ε) * (s + x) = K * s + K * x + 2 * (s * ε) + 2 * (x * ε) := by ring
  rw [abs_le, e2]
  constructor <;> linarith [hR.1, hR.2, hS.1, hS.2]

theorem foldl_sum_float (ε τ : ℝ) (hε0 : 0 ≤ ε) (hτ0 : 0 ≤ τ) (h20 : 2 * 2 ^ 20 * ε ≤ 1) (hτ1 : 2 * 2 ^ 20 * τ ≤ 1)
    (hrnd : ∀ z : ℝ, |rnd (F := F) z - z| ≤ |z| * ε + τ)
    (l : List F) (acc : F) (k : ℕ) (s : ℝ) (hacc : Fin acc) (hs : 0 ≤ s)
    (herr : |val acc - s| ≤ 2 * (k : ℝ) * ε * s + 2 * (k : ℝ) * τ)
    (hl : ∀ x ∈ l, Fin x ∧ 0 ≤ val x) (hk : k + l.length ≤ 2 ^ 20) (hsum : s + (l.map val).sum ≤ 10 ^ 200) :
    Fin (l.foldl fadd acc) ∧
    |val (l.foldl fadd acc) - (s + (l.map val).sum)|
      ≤ 2 * ((k + l.length : ℕ) : ℝ) * ε * (s + (l.map val).sum) + 2 * ((k + l.length : ℕ) : ℝ) * τ := by
  induction l generalizing acc k s with
  | nil =>
    simp only [List.foldl_nil, List.map_nil, List.sum_nil, List.length_nil, Nat.add_zero, add_zero]
    exact ⟨hacc, herr⟩
  | cons x xs ih =>
    obtain ⟨hfx, hx0⟩ := hl x List.mem_cons_self
    have hrest : 0 ≤ (xs.map val).sum := List.sum_nonneg (fun y hy => by
      obtain ⟨z, hz, rfl⟩ := List.mem_map.mp hy
      exact (hl z (List.mem_cons_of_mem _ hz)).2)
    simp only [List.map_cons, List.sum_cons, List.length_cons] at hsum hk ⊢
    have hkr : (k : ℝ) ≤ 2 ^ 20 := by
      have : k ≤ 2 ^ 20 := by omega
      exact_mod_cast this
    have hk0 : (0:ℝ) ≤ (k : ℝ) := Nat.cast_nonneg _
    have hkε : (k : ℝ) * ε ≤ 2 ^ 20 * ε := mul_le_mul_of_nonneg_right hkr hε0
    have hkτ : (k : ℝ) * τ ≤ 2 ^ 20 * τ := mul_le_mul_of_nonneg_right hkr hτ0
    have hK1 : 2 * (k : ℝ) * ε ≤ 1 := by linarith
    have hK0 : 0 ≤ 2 * (k : ℝ) * ε := mul_nonneg (mul_nonneg (by norm_num) hk0) hε0
    have hc0 : 0 ≤ 2 * (k : ℝ) * τ := mul_nonneg (mul_nonneg (by norm_num) hk0) hτ0
    have hcε : 2 * (k : ℝ) * τ * ε ≤ τ := by
      have e : 2 * (k : ℝ) * τ * ε = (2 * (k : ℝ) * ε) * τ := by ring
      rw [e]
      calc (2 * (k : ℝ) * ε) * τ ≤ 1 * τ := mul_le_mul_of_nonneg_right hK1 hτ0
        _ = τ := one_mul _
    -- the partial sum stays in range
    have hSabs : |val acc + val x| ≤ 10 ^ 250 := by
      rw [abs_le] at herr
      have hks : 2 * (k : ℝ) * ε * s ≤ s := by
        calc 2 * (k : ℝ) * ε * s ≤ 1 * s := mul_le_mul_of_nonneg_right hK1 hs
          _ = s := one_mul _
      have hks0 : 0 ≤ 2 * (k : ℝ) * ε * s := mul_nonneg hK0 hs
      have hkt : 2 * (k : ℝ) * τ ≤ 1 := by linarith
      have h250 : (2:ℝ) * 10 ^ 200 + 1 ≤ 10 ^ 250 := by
        have : (10:ℝ) ^ 250 = 10 ^ 200 * 10 ^ 50 := by rw [← pow_add]
        rw [this]
        have h1 : (1:ℝ) ≤ 10 ^ 200 := one_le_pow₀ (by norm_num)
        have h2 : (3:ℝ) ≤ 10 ^ 50 := by norm_num
        nlinarith
      rw [abs_le]; constructor <;> linarith [herr.1, herr.2]
    obtain ⟨hf, hv⟩ := fadd_spec hacc hfx (inRange_of_le hSabs)
    have hR : |val (fadd acc x) - (val acc + val x)| ≤ |val acc + val x| * ε + τ := by
      rw [hv]; exact hrnd _
    have hstep := sum_step_real hs hx0 hK0 hK1 hc0 hε0 hcε herr hR
    have hnew := ih (fadd acc x) (k + 1) (s + val x) hf (by linarith) (by
      push_cast
      have e1 : 2 * ((k : ℝ) + 1) * ε * (s + val x) = (2 * (k : ℝ) * ε + 2 * ε) * (s + val x) := by ring
      have e2 : 2 * ((k : ℝ) + 1) * τ = 2 * (k : ℝ) * τ + 2 * τ := by ring
      rw [e1, e2]; exact hstep)
      (fun y hy => hl y (List.mem_cons_of_mem _ hy)) (by omega) (by linarith)
    simp only [List.foldl_cons]
    have e3 : k + 1 + xs.length = k + (xs.length + 1) := by omega
    have e4 : s + val x + (xs.map val).sum = s + (val x + (xs.map val).sum) := by ring
    rw [e3, e4] at hnew
    exact hnew

/-- (S) **total magnitude is the sum of the member magnitudes, in rounded arithmetic**: for up to `2^20` members with finite non-negative
    magnitudes summing to at most `1e200`, the returned value is finite and within `2n·2⁻⁵³` relative (plus `2n·2⁻¹⁰⁷⁵`) of the exact sum -/
theorem totalMagnitude_float (c : GeoCollection F) (hl : ∀ g ∈ c.objects, Fin g.mag ∧ 0 ≤ val g.mag)
    (hn : c.objects.length ≤ 2 ^ 20) (hsum : (c.objects.map (fun g => val g.mag)).sum ≤ 10 ^ 200) :
    Fin c.totalMagnitude ∧
    |val c.totalMagnitude - (c.objects.map (fun g => val g.mag)).sum|
      ≤ 2 * (c.objects.length : ℝ) * (1 / 2 ^ 53) * (c.objects.map (fun g => val g.mag)).sum
        + 2 * (c.objects.length : ℝ) * (1 / 2 ^ 1075) := by
  rw [totalMagnitude_spec]
  obtain ⟨hfz, hvz⟩ := fneg_spec (fin_zero (F := F))
  rw [val_zero, neg_zero] at hvz
  have hmap : ((c.objects.map (·.mag)).map val) = c.objects.map (fun g => val g.mag) := by
    rw [List.map_map]; rfl
  have h20 : 2 * 2 ^ 20 * ((1:ℝ) / 2 ^ 53) ≤ 1 := by norm_num
  have h53_1075 : (1:ℝ) / 2 ^ 1075 ≤ 1 / 2 ^ 53 :=
    one_div_le_one_div_of_le (by positivity) (pow_le_pow_right₀ (by norm_num) (by norm_num))
  have hτ1 : 2 * 2 ^ 20 * ((1:ℝ) / 2 ^ 1075) ≤ 1 := by
    have : 2 * 2 ^ 20 * ((1:ℝ) / 2 ^ 1075) ≤ 2 * 2 ^ 20 * (1 / 2 ^ 53) := mul_le_mul_of_nonneg_left h53_1075 (by norm_num)
    linarith
  have h := foldl_sum_float (F := F) (1 / 2 ^ 53) (1 / 2 ^ 1075) (by positivity) (by positivity) h20 hτ1
    (fun z => by have := rnd_err (F := F) z; rwa [div_eq_mul_one_div] at this)
    (c.objects.map (·.mag)) (fneg zero) 0 0 hfz (le_refl _) (by rw [hvz]; simp)
    (fun x hx => by obtain ⟨g, hg, rfl⟩ := List.mem_map.mp hx; exact hl g hg)
    (by simpa using hn) (by rw [hmap, zero_add]; exact hsum)
  rw [hmap] at h
  simpa using h

end S

/-! ### R — on the arithmetic that really rounds (`R64`): every collection of binary64 numbers -/
section R

theorem dominant_max_rounded (c : GeoCollection R64) (hne : c.objects ≠ []) :
    ∃ r, c.dominant = some (some r) ∧ r ∈ c.objects ∧ ∀ g ∈ c.objects, g.mag.v ≤ r.mag.v :=
  dominant_max_float (F := R64) c hne (fun _ _ => trivial)

theorem totalMagnitude_rounded (c : GeoCollection R64) (hl : ∀ g ∈ c.objects, 0 ≤ g.mag.v)
    (hn : c.objects.length ≤ 2 ^ 20) (hsum : (c.objects.map (fun g => g.mag.v)).sum ≤ 10 ^ 200) :
    |c.totalMagnitude.v - (c.objects.map (fun g => g.mag.v)).sum|
      ≤ 2 * (c.objects.length : ℝ) * (1 / 2 ^ 53) * (c.objects.map (fun g => g.mag.v)).sum
        + 2 * (c.objects.length : ℝ) * (1 / 2 ^ 1075) :=
  (totalMagnitude_float (F := R64) c (fun g hg => ⟨trivial, hl g hg⟩) hn hsum).2

end R

end GeonumModel.C17
