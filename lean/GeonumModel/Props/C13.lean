/-
  C13 — Distance is a metric consistent with subtraction; inversion is an involution.
-/
import GeonumModel.Lemmas.GeonumMag
import GeonumModel.Lemmas.GradeAngle
import GeonumModel.Lemmas.Exact
import GeonumModel.Lemmas.ExactAdd
import GeonumModel.Lemmas.SumMagFloat
import GeonumModel.Lemmas.FloatMetric
import GeonumModel.Spec.RoundWitness
import GeonumModel.Lemmas.AddAngleInv
import GeonumModel.Lemmas.FloatSumSpecial

set_option linter.unusedSectionVars false
set_option linter.unusedVariables false

namespace GeonumModel.C13
open GeonumModel FloatLike FloatSpec Angle Geonum

section G
variable {F : Type} [FloatLike F]

/-- (G) `mag_diff` is `| |a| − |b| |` (one subtraction, one absolute value) -/
theorem magDiff_def (a b : Geonum F) : a.magDiff b = fabs (fsub a.mag b.mag) := rfl

/-- (G) circle inversion panics exactly when the offset `p − c` has a magnitude that compares equal to zero; otherwise it is
    `c + [r²/|p−c|, angle(p−c)]` -/
theorem invertCircle_spec (p c : Geonum F) (r : F) :
    (p.invertCircle c r = none ↔ feq (p.sub c).mag zero = true) ∧
    (feq (p.sub c).mag zero = false →
      p.invertCircle c r = some (c.add ⟨fdiv (fmul r r) (p.sub c).mag, (p.sub c).angle⟩)) := by
  unfold Geonum.invertCircle
  constructor
  · by_cases h : feq (p.sub c).mag zero = true <;> simp [h]
  · intro h; simp [h, Geonum.newWithAngle]

/-- (G) the distance is `scalar(√max(d², 0))` with `d² = (a² + b²) − ((2a)b)·cos(grade_angle(tb − ta))` -/
theorem distanceTo_def (a b : Geonum F) :
    a.distanceTo b = Geonum.scalar (sqrt (fmax
      (fsub (fadd (fmul a.mag a.mag) (fmul b.mag b.mag))
            (fmul (fmul (fmul two a.mag) b.mag) (FloatLike.cos (b.angle.sub a.angle).gradeAngle))) zero)) := rfl
end G

section S
variable {F : Type} [FloatSpec F]

/-- (S) **never NaN, never negative, at angle exactly 0**: whenever the squared distance is a finite number (always, for
    in-domain magnitudes), the clamp makes the square root's argument non-negative, so the distance is finite, non-negative,
    and `scalar` places it on blade 0 with a remainder of value 0.  Relies on fix 05011a7. -/
theorem distanceTo_ok (a b : Geonum F)
    (hd2 : Fin (fsub (fadd (fmul a.mag a.mag) (fmul b.mag b.mag))
            (fmul (fmul (fmul two a.mag) b.mag) (FloatLike.cos (b.angle.sub a.angle).gradeAngle)))) :
    Fin (a.distanceTo b).mag ∧ 0 ≤ val (a.distanceTo b).mag ∧
    (a.distanceTo b).angle.blade = 0 ∧ val (a.distanceTo b).angle.rem = 0 := by
  obtain ⟨hfm, hvm⟩ := fmax_spec hd2 (fin_zero (F := F))
  have hm0 : 0 ≤ val (fmax (fsub (fadd (fmul a.mag a.mag) (fmul b.mag b.mag))
      (fmul (fmul (fmul two a.mag) b.mag) (FloatLike.cos (b.angle.sub a.angle).gradeAngle))) (zero : F)) := by
    rw [hvm, val_zero]; exact le_max_right _ _
  obtain ⟨hfs, hvs⟩ := sqrt_spec hfm hm0
  have hs0 : 0 ≤ val (sqrt (fmax (fsub (fadd (fmul a.mag a.mag) (fmul b.mag b.mag))
      (fmul (fmul (fmul two a.mag) b.mag) (FloatLike.cos (b.angle.sub a.angle).gradeAngle))) (zero : F))) := by
    rw [hvs]; exact rnd_nonneg (Real.sqrt_nonneg _)
  obtain ⟨hfa, hva⟩ := fabs_spec hfs
  have hge : fge (sqrt (fmax (fsub (fadd (fmul a.mag a.mag) (fmul b.mag b.mag))
      (fmul (fmul (fmul two a.mag) b.mag) (FloatLike.cos (b.angle.sub a.angle).gradeAngle))) (zero : F))) (zero : F) = true := by
    rw [fle_spec fin_zero hfs, val_zero]; exact hs0
  obtain ⟨hb0, _, _, hv0⟩ := new_zero_one (F := F)
  simp only at hb0 hv0; rw [val_zero] at hv0
  rw [distanceTo_def]
  unfold Geonum.scalar
  simp only [hge, if_true]
  exact ⟨hfa, by rw [hva]; exact abs_nonneg _, hb0, hv0⟩

/-- (S) the offset of a point from itself has magnitude exactly `0.0`, so inverting the circle's own centre panics -/
theorem invertCircle_centre_panics {c : Geonum F} (hm : Fin c.mag) (ha : c.angle.Inv) (r : F) :
    c.invertCircle c r = none := by
  rw [(invertCircle_spec c c r).1]
  have n := negate_spec ha
  have h1 : sameAngle c c.negate = false := by
    unfold sameAngle Angle.beq
    have : c.angle.blade ≠ c.negate.angle.blade := by
      show c.angle.blade ≠ c.angle.negate.blade; rw [n.1]; omega
    simp [this]
  have hbs : (c.angle.add (Angle.new one one)).beq c.negate.angle = true := by
    have hf := n.2.1
    obtain ⟨hf', hv'⟩ := fsub_spec hf hf (by rw [sub_self]; exact inRange_small (by rw [abs_zero]; positivity))
    obtain ⟨hfa, hva⟩ := fabs_spec hf'
    have ht : flt (fabs (fsub c.angle.negate.rem c.angle.negate.rem)) (e15 : F) = true := by
      rw [flt_spec hfa fin_e15, hva, hv', sub_self, rnd_zero, abs_zero]; exact val_e15_pos
    show (c.angle.negate).beq (c.angle.negate) = true
    unfold Angle.beq; simp [ht]
  have h2 : oppositeAngle c c.negate = true := by unfold oppositeAngle; simp [hbs]
  obtain ⟨hf, hv⟩ := fsub_spec hm hm (by rw [sub_self]; exact inRange_small (by rw [abs_zero]; positivity))
  obtain ⟨hfa, hva⟩ := fabs_spec hf
  have h3 : flt (fabs (fsub c.mag c.negate.mag)) (e10 : F) = true := by
    show flt (fabs (fsub c.mag c.mag)) (e10 : F) = true
    rw [flt_spec hfa fin_e10, hva, hv, sub_self, rnd_zero, abs_zero]; exact val_e10_pos
  show feq (c.add c.negate).mag zero = true
  rw [add_opposite_cancel c c.negate h1 h2 h3]
  exact (feq_spec fin_zero fin_zero).mpr rfl

end S

/-! ### E-tier: exact arithmetic — the distance refines the Euclidean metric on the Cartesian points -/
section E
open GeonumModel.Exact

/-- the Cartesian point of a geometric number, as a complex number -/
noncomputable def cartC (g : Geonum ℝ) : ℂ := ⟨g.mag * Real.cos (T g.angle), g.mag * Real.sin (T g.angle)⟩

/-- law of cosines for the Cartesian points -/
theorem euclid_sq (a b : Geonum ℝ) :
    ‖cartC a - cartC b‖ ^ 2 = a.mag ^ 2 + b.mag ^ 2 - 2 * a.mag * b.mag * Real.cos (T b.angle - T a.angle) := by
  rw [Complex.sq_norm, Complex.normSq_apply]
  simp only [cartC, Complex.sub_re, Complex.sub_im]
  rw [Real.cos_sub]
  have h1 := Real.sin_sq_add_cos_sq (T a.angle)
  have h2 := Real.sin_sq_add_cos_sq (T b.angle)
  nlinarith [h1, h2]

/-- (E) the squared distance is `|a|² + |b|² − 2|a||b|cos(T b − T a + δ)` with the snap slack `δ`; the clamp at zero is inactive -/
theorem distance_sq_real {a b : Geonum ℝ} (ha : a.angle.Inv) (hb : b.angle.Inv) :
    ∃ δ : ℝ, |δ| < 1 / 10 ^ 10 + 1 / 10 ^ 15 ∧
      (a.distanceTo b).mag ^ 2 = a.mag ^ 2 + b.mag ^ 2 - 2 * a.mag * b.mag * Real.cos (T b.angle - T a.angle + δ) := by
  obtain ⟨δ, hδ, hcos, _⟩ := cos_sub_gradeAngle ha hb
  refine ⟨δ, hδ, ?_⟩
  rw [← hcos]
  set c := Real.cos (b.angle.geometricSub a.angle).gradeAngle with hc
  have hc1 : |c| ≤ 1 := Real.abs_cos_le_one _
  set d2 : ℝ := a.mag * a.mag + b.mag * b.mag - 2 * a.mag * b.mag * c with hd2
  have hd2nn : 0 ≤ d2 := by
    rw [abs_le] at hc1
    have h1 : 0 ≤ (a.mag - b.mag) ^ 2 := sq_nonneg _
    have h2 : 0 ≤ (a.mag + b.mag) ^ 2 := sq_nonneg _
    rcases le_total 0 (a.mag * b.mag) with hp | hp
    · nlinarith [mul_le_mul_of_nonneg_left hc1.2 hp]
    · nlinarith [mul_le_mul_of_nonpos_left hc1.1 hp]
  have hmag : (a.distanceTo b).mag = |Real.sqrt (max d2 0)| := by
    show |Real.sqrt (max (a.mag * a.mag + b.mag * b.mag - ((2 : ℕ) : ℝ) * a.mag * b.mag * c) ((0 : ℕ) : ℝ))| = _
    rw [hd2]; push_cast; rfl
  rw [hmag, sq_abs, max_eq_left hd2nn, Real.sq_sqrt hd2nn, hd2]; ring

/-- (E) so the squared distance is the squared Euclidean distance of the Cartesian points to within `2|a||b|·(1e-10+1e-15)`;
    the reference `‖cartC a − cartC b‖` is a genuine metric (symmetric, zero on identical points, triangle inequality) -/
theorem distance_refines_euclid {a b : Geonum ℝ} (ha : a.angle.Inv) (hb : b.angle.Inv) (h0a : 0 ≤ a.mag) (h0b : 0 ≤ b.mag) :
    |(a.distanceTo b).mag ^ 2 - ‖cartC a - cartC b‖ ^ 2| ≤ 2 * a.mag * b.mag * (1 / 10 ^ 10 + 1 / 10 ^ 15) := by
  obtain ⟨δ, hδ, hd⟩ := distance_sq_real ha hb
  rw [hd, euclid_sq]
  have : a.mag ^ 2 + b.mag ^ 2 - 2 * a.mag * b.mag * Real.cos (T b.angle - T a.angle + δ)
      - (a.mag ^ 2 + b.mag ^ 2 - 2 * a.mag * b.mag * Real.cos (T b.angle - T a.angle))
      = -(2 * a.mag * b.mag) * (Real.cos (T b.angle - T a.angle + δ) - Real.cos (T b.angle - T a.angle)) := by ring
  rw [this, abs_mul, abs_neg, abs_of_nonneg (by positivity)]
  apply mul_le_mul_of_nonneg_left _ (by positivity)
  exact le_trans (cos_lipschitz _ _) (le_of_lt hδ)

theorem reference_metric (a b c : Geonum ℝ) :
    ‖cartC a - cartC b‖ = ‖cartC b - cartC a‖ ∧ ‖cartC a - cartC a‖ = 0 ∧
    ‖cartC a - cartC c‖ ≤ ‖cartC a - cartC b‖ + ‖cartC b - cartC c‖ :=
  ⟨norm_sub_rev _ _, by simp, norm_sub_le_norm_sub_add_norm_sub _ _ _⟩

theorem cartC_eq_cart (g : Geonum ℝ) : cartC g = cart g := rfl

/-- (E) the magnitude of `a − b` is the Euclidean distance of the Cartesian points to within `1e-10·(1+|a|+|b|)` — so the distance
    agrees with subtraction -/
theorem sub_mag_is_distance {a b : Geonum ℝ} (ha : a.angle.Inv) (hb : b.angle.Inv) (h0a : 0 ≤ a.mag) (h0b : 0 ≤ b.mag)
    (hm : 0 ≤ (a.sub b).mag) (hcb : a.angle.blade + (b.angle.blade + 2) ≤ 2 ^ 40) :
    |(a.sub b).mag - ‖cartC a - cartC b‖| ≤ 1 / 10 ^ 10 * (1 + a.mag + b.mag) := by
  have hn := negate_spec hb
  have hninv : b.negate.angle.Inv := inv_of_spec hb hn.2
  have h := add_refines ha hninv h0a (show 0 ≤ b.negate.mag from h0b) (by
    show a.angle.blade + b.angle.negate.blade ≤ 2 ^ 40
    rw [hn.1]; exact hcb)
  have hcn : cart b.negate = -cart b := by
    show polar b.mag (T b.angle.negate) = -polar b.mag (T b.angle)
    rw [negate_total_real hb, polar_add_pi]
  rw [hcn] at h
  have hnorm : ‖cart (a.sub b)‖ = (a.sub b).mag := by
    show ‖polar (a.sub b).mag _‖ = _
    rw [norm_polar, abs_of_nonneg hm]
  have e : cartC a - cartC b = cart a + -cart b := by rw [cartC_eq_cart, cartC_eq_cart]; ring
  rw [e, ← hnorm]
  exact le_trans (abs_norm_sub_norm_le _ _) h

/-- (E) **circle inversion, exact structure**: away from the centre the result is `c + io` where the inverted offset `io` lies on
    the same ray as the offset `p − c` (same angle field) and `|io|·|p − c| = r²` exactly -/
theorem invertCircle_structure_real (p c : Geonum ℝ) (r : ℝ) (hoff : (p.sub c).mag ≠ 0) :
    ∃ io : Geonum ℝ, p.invertCircle c r = some (c.add io) ∧ io.angle = (p.sub c).angle ∧ io.mag * (p.sub c).mag = r ^ 2 := by
  have hne : feq (p.sub c).mag (zero : ℝ) = false := by
    rw [r_eq, lit_real.1]; simpa using hoff
  refine ⟨⟨r * r / (p.sub c).mag, (p.sub c).angle⟩, (invertCircle_spec p c r).2 hne, rfl, ?_⟩
  show r * r / (p.sub c).mag * (p.sub c).mag = r ^ 2
  field_simp

/-- (E) as Cartesian points: `p' ≈ c + io` and `p − c ≈ offset`, each within the addition tolerance; so `p'` is on the ray from `c`
    through `p` at distance `r²/|p − c|` (up to those tolerances) -/
theorem invertCircle_cartesian_real {p c : Geonum ℝ} {r : ℝ} (hp : p.angle.Inv) (hc : c.angle.Inv) (h0p : 0 ≤ p.mag) (h0c : 0 ≤ c.mag)
    (hoffpos : 0 < (p.sub c).mag) (hoffinv : (p.sub c).angle.Inv)
    (hcb : p.angle.blade + (c.angle.blade + 2) ≤ 2 ^ 40) (hcb2 : c.angle.blade + (p.sub c).angle.blade ≤ 2 ^ 40) :
    ∃ p' io : Geonum ℝ, p.invertCircle c r = some p' ∧ io.angle = (p.sub c).angle ∧ io.mag * (p.sub c).mag = r ^ 2 ∧
      ‖cart p' - (cart c + cart io)‖ ≤ 1 / 10 ^ 10 * (1 + c.mag + io.mag) ∧
      ‖cart (p.sub c) - (cart p - cart c)‖ ≤ 1 / 10 ^ 10 * (1 + p.mag + c.mag) := by
  obtain ⟨io, hinv, hang, hmag⟩ := invertCircle_structure_real p c r (ne_of_gt hoffpos)
  have hio0 : 0 ≤ io.mag := by
    have : io.mag = r ^ 2 / (p.sub c).mag := by field_simp; linarith
    rw [this]; positivity
  have hioinv : io.angle.Inv := by rw [hang]; exact hoffinv
  refine ⟨c.add io, io, hinv, hang, hmag, add_refines hc hioinv h0c hio0 (by rw [hang]; exact hcb2), ?_⟩
  -- the offset itself
  have hn := negate_spec hc
  have hninv : c.negate.angle.Inv := inv_of_spec hc hn.2
  have h := add_refines hp hninv h0p (show 0 ≤ c.negate.mag from h0c) (by
    show p.angle.blade + c.angle.negate.blade ≤ 2 ^ 40
    rw [hn.1]; exact hcb)
  have hcn : cart c.negate = -cart c := by
    show polar c.mag (T c.angle.negate) = -polar c.mag (T c.angle)
    rw [negate_total_real hc, polar_add_pi]
  rw [hcn] at h
  have e : cart p - cart c = cart p + -cart c := by ring
  rw [e]; exact h

/-- (E) points on the circle are fixed: if `|p − c| = r` the inverted offset IS the offset, so `p' = c + (p − c)` -/
theorem invertCircle_fixes_circle_real (p c : Geonum ℝ) (r : ℝ) (hr : (p.sub c).mag = r) (hr0 : r ≠ 0) :
    p.invertCircle c r = some (c.add (p.sub c)) := by
  have hne : feq (p.sub c).mag (zero : ℝ) = false := by
    rw [r_eq, lit_real.1, hr]; simpa using hr0
  rw [(invertCircle_spec p c r).2 hne]
  have : (⟨fdiv (fmul r r) (p.sub c).mag, (p.sub c).angle⟩ : Geonum ℝ) = p.sub c := by
    have hm : fdiv (fmul r r) (p.sub c).mag = (p.sub c).mag := by
      rw [r_div, r_mul, hr]; field_simp
    rw [hm]
  rw [this]

/-- the reference inversion of the plane in the circle of centre `C` and radius `r` -/
noncomputable def invRef (C : ℂ) (r : ℝ) (P : ℂ) : ℂ := C + ((r ^ 2 / Complex.normSq (P - C) : ℝ) : ℂ) * (P - C)

/-- the reference inversion keeps the point on its ray from the centre with `|P' − C|·|P − C| = r²`, fixes the points of the
    circle, and **is its own inverse** (for `P ≠ C`, `r ≠ 0`) -/
theorem invRef_laws (C P : ℂ) (r : ℝ) (hP : P ≠ C) (hr : r ≠ 0) :
    ‖invRef C r P - C‖ * ‖P - C‖ = r ^ 2 ∧ (‖P - C‖ = |r| → invRef C r P = P) ∧ invRef C r (invRef C r P) = P := by
  have hd : P - C ≠ 0 := sub_ne_zero.mpr hP
  have hn : Complex.normSq (P - C) ≠ 0 := fun h => hd (Complex.normSq_eq_zero.mp h)
  have hnpos : 0 < Complex.normSq (P - C) := Complex.normSq_pos.mpr hd
  have hoff : invRef C r P - C = ((r ^ 2 / Complex.normSq (P - C) : ℝ) : ℂ) * (P - C) := by unfold invRef; ring
  have hr2 : 0 < r ^ 2 := by positivity
  refine ⟨?_, ?_, ?_⟩
  · rw [hoff, norm_mul, Complex.norm_real, Real.norm_of_nonneg (le_of_lt (div_pos hr2 hnpos)), mul_assoc,
      ← sq, Complex.sq_norm]
    field_simp
  · intro hcirc
    have : Complex.normSq (P - C) = r ^ 2 := by rw [← Complex.sq_norm, hcirc, sq_abs]
    unfold invRef
    rw [this, div_self (ne_of_gt hr2)]
    simp
  · have hq : Complex.normSq (invRef C r P - C) = (r ^ 2) ^ 2 / Complex.normSq (P - C) := by
      rw [hoff, Complex.normSq_mul, Complex.normSq_ofReal]
      field_simp
    show C + ((r ^ 2 / Complex.normSq (invRef C r P - C) : ℝ) : ℂ) * (invRef C r P - C) = P
    rw [hq, hoff, ← mul_assoc, ← Complex.ofReal_mul]
    have : r ^ 2 / ((r ^ 2) ^ 2 / Complex.normSq (P - C)) * (r ^ 2 / Complex.normSq (P - C)) = 1 := by
      field_simp
    rw [this]; simp

/-- (E) the inverted offset the code adds to the centre is exactly the reference inversion's offset of the code's own offset vector:
    `cart c + cart io = invRef (cart c) r (cart c + cart (p − c))` -/
theorem invertCircle_offset_is_ref (p c io : Geonum ℝ) (r : ℝ) (hoffpos : 0 < (p.sub c).mag)
    (hang : io.angle = (p.sub c).angle) (hmag : io.mag * (p.sub c).mag = r ^ 2) :
    cart c + cart io = invRef (cart c) r (cart c + cart (p.sub c)) := by
  unfold invRef
  rw [add_sub_cancel_left]
  have hns : Complex.normSq (cart (p.sub c)) = (p.sub c).mag ^ 2 := by
    rw [← Complex.sq_norm]; show ‖polar (p.sub c).mag _‖ ^ 2 = _
    rw [norm_polar, sq_abs]
  have hio : io.mag = r ^ 2 / (p.sub c).mag := by field_simp; linarith
  congr 1
  show polar io.mag (T io.angle) = _ * polar (p.sub c).mag (T (p.sub c).angle)
  rw [hang, hns, hio]
  have hmulp : ∀ k m θ : ℝ, ((k : ℝ) : ℂ) * polar m θ = polar (k * m) θ := by
    intro k m θ; apply Complex.ext <;> simp [polar, Complex.mul_re, Complex.mul_im] <;> ring
  rw [hmulp]
  congr 1
  have := ne_of_gt hoffpos
  field_simp

end E

section B
variable {F : Type} [FloatSpec F]

/-- (B) **the distance in rounded arithmetic**: for in-domain magnitudes and a finite angle difference, `distance_to` is within
    `(|a|+|b|)·(2⁻²⁴ + 2⁻⁵⁰) + 1e-90` of the exact law-of-cosines distance `√(|a|² + |b|² − 2|a||b|c)` for the cosine value `c` the code
    obtained — the `√ε`-of-the-scale bound that is attained only for nearly coincident points (where the radicand cancels; before fix
    05011a7 a radicand rounded below zero made this NaN).  Covers the seven roundings of the radicand, the clamp and the root. -/
theorem distance_float {a b : Geonum F} (ha : a.MagDom) (hb : b.MagDom) (hx : Fin (b.angle.sub a.angle).gradeAngle) :
    |val (a.distanceTo b).mag - Real.sqrt (val a.mag * val a.mag + val b.mag * val b.mag
        - 2 * val a.mag * val b.mag * val (FloatLike.cos (b.angle.sub a.angle).gradeAngle))|
      ≤ (val a.mag + val b.mag) * (1 / 2 ^ 24 + 1 / 2 ^ 50) + 1 / 10 ^ 90 :=
  Geonum.distance_float ha hb hx

/-- (B) **`distance_to` against the TRUE Euclidean distance** of the two Cartesian points (angles in true radians, any blade
    histories): within `(|a|+|b|)·1.1e-5 + 1e-90`; the constant is `√(2·1e-10)`, the library's boundary snap of the angle difference
    under the square root of the law of cosines -/
theorem distance_true {a b : Geonum F} (ha : a.angle.Inv) (hb : b.angle.Inv) (hma : a.MagDom) (hmb : b.MagDom) :
    |val (a.distanceTo b).mag - Geonum.euclid (val a.mag) (val b.mag) (Angle.Tpi a.angle) (Angle.Tpi b.angle)|
      ≤ (val a.mag + val b.mag) * (11 / 10 ^ 6) + 1 / 10 ^ 90 :=
  Geonum.distance_true ha hb hma hmb

/-- (B) `distance_to` is symmetric in rounded arithmetic, up to twice that bound -/
theorem distance_symm_float {a b : Geonum F} (ha : a.angle.Inv) (hb : b.angle.Inv) (hma : a.MagDom) (hmb : b.MagDom) :
    |val (a.distanceTo b).mag - val (b.distanceTo a).mag| ≤ 2 * ((val a.mag + val b.mag) * (11 / 10 ^ 6) + 1 / 10 ^ 90) :=
  Geonum.distance_symm_float ha hb hma hmb

/-- (B) the triangle inequality for `distance_to` in rounded arithmetic, up to the three accuracy bounds -/
theorem distance_triangle_float {a b c : Geonum F} (ha : a.angle.Inv) (hb : b.angle.Inv) (hc : c.angle.Inv)
    (hma : a.MagDom) (hmb : b.MagDom) (hmc : c.MagDom) :
    val (a.distanceTo c).mag ≤ val (a.distanceTo b).mag + val (b.distanceTo c).mag
      + ((val a.mag + val c.mag) + (val a.mag + val b.mag) + (val b.mag + val c.mag)) * (11 / 10 ^ 6) + 3 / 10 ^ 90 :=
  Geonum.distance_triangle_float ha hb hc hma hmb hmc

/-- (B) `|a − b|` (general branch of the underlying sum) is the true Euclidean distance within `(|a|+|b|)·1.5e-7`: with
    `distance_true`, "the distance equals `|a − b|`" up to the two bounds -/
theorem sub_mag_true {a b : Geonum F} (ha : a.angle.Inv) (hb : b.angle.Inv) (hma : a.MagDom) (hmb : b.MagDom)
    (h1 : sameAngle a b.negate = false) (h2 : oppositeAngle a b.negate = false) :
    |val (a.sub b).mag - Geonum.euclid (val a.mag) (val b.mag) (Angle.Tpi a.angle) (Angle.Tpi b.angle)|
      ≤ (val a.mag + val b.mag) * (15 / 10 ^ 8) + 1 / 10 ^ 90 :=
  Geonum.sub_mag_true ha hb hma hmb h1 h2

/-- product of the two distances of an inversion, with both roundings -/
theorem invert_prod_real {r2 S I m ε τ : ℝ} (hr2 : 0 ≤ r2) (hm : 0 < m) (hε0 : 0 ≤ ε) (hε1 : ε ≤ 1) (hτ0 : 0 ≤ τ)
    (hS : |S - r2| ≤ r2 * ε + τ) (hI : |I - S / m| ≤ |S / m| * ε + τ) :
    |I * m - r2| ≤ r2 * (3 * ε) + (2 + m) * τ := by
  have e : I * m - r2 = (I - S / m) * m + (S - r2) := by field_simp; ring
  have hSabs : |S| ≤ r2 + r2 * ε + τ := by
    have := abs_sub_abs_le_abs_sub S r2
    rw [abs_of_nonneg hr2] at this; linarith
  have h1 : |(I - S / m) * m| ≤ |S| * ε + τ * m := by
    rw [abs_mul, abs_of_pos hm]
    have : |I - S / m| * m ≤ (|S / m| * ε + τ) * m := mul_le_mul_of_nonneg_right hI (le_of_lt hm)
    have e2 : (|S / m| * ε + τ) * m = |S| * ε + τ * m := by
      rw [abs_div, abs_of_pos hm]; field_simp
    rw [e2] at this; exact this
  have h2 : |S| * ε ≤ (r2 + r2 * ε + τ) * ε := mul_le_mul_of_nonneg_right hSabs hε0
  have hεε : r2 * ε * ε ≤ r2 * ε := by
    calc r2 * ε * ε ≤ r2 * ε * 1 := mul_le_mul_of_nonneg_left hε1 (mul_nonneg hr2 hε0)
      _ = r2 * ε := mul_one _
  have hτε : τ * ε ≤ τ := by
    calc τ * ε ≤ τ * 1 := mul_le_mul_of_nonneg_left hε1 hτ0
      _ = τ := mul_one _
  have e3 : (r2 + r2 * ε + τ) * ε = r2 * ε + r2 * ε * ε + τ * ε := by ring
  rw [e3] at h2
  rw [e]
  calc |(I - S / m) * m + (S - r2)| ≤ |(I - S / m) * m| + |S - r2| := abs_add_le _ _
    _ ≤ (|S| * ε + τ * m) + (r2 * ε + τ) := add_le_add h1 hS
    _ ≤ r2 * (3 * ε) + (2 + m) * τ := by nlinarith

/-- (B) **circle inversion in rounded arithmetic**: for canonical `p`, `c` in the magnitude domain with an offset of magnitude at least
    `1e-100` (the property's domain; the zero offset panics, `invertCircle_spec`), a radius up to `1e70` and an inverted offset that stays
    in the magnitude domain, the inversion returns `p' = c + io` where `io` lies on the ray of the computed offset `o = p − c` (its angle
    field is the offset's), the product of the two distances is the squared radius — `|io|·|o| = r²` within `3·2⁻⁵³` relative — the offset is
    placed at the Cartesian difference of `p` and `c`, and `p'` at the Cartesian sum of `c` and `io`, both within the every-branch bound -/
theorem invertCircle_float {p c : Geonum F} {r : F} (hp : p.angle.Inv) (hc : c.angle.Inv) (hmp : p.MagDom) (hmc : c.MagDom)
    (hr : Fin r) (hrb : |val r| ≤ 10 ^ 70) (hcb : p.angle.blade + c.angle.blade + 2 ≤ 2 ^ 39)
    (hm : 1 / 10 ^ 100 ≤ val (p.sub c).mag)
    (hio : (⟨fdiv (fmul r r) (p.sub c).mag, (p.sub c).angle⟩ : Geonum F).MagDom)
    (hcb2 : c.angle.blade + (p.sub c).angle.blade ≤ 2 ^ 39) :
    ∃ p' io : Geonum F, p.invertCircle c r = some p' ∧ p' = c.add io ∧ io.angle = (p.sub c).angle ∧
      |val io.mag * val (p.sub c).mag - val r * val r| ≤ val r * val r * (3 * (1 / 2 ^ 53)) + (2 + val (p.sub c).mag) * (1 / 2 ^ 1075) ∧
      |val (p.sub c).mag * Real.cos (Angle.Tpi (p.sub c).angle) + val c.mag * Real.cos (Angle.Tpi c.angle)
          - val p.mag * Real.cos (Angle.Tpi p.angle)|
        ≤ (val p.mag + val c.mag) * (2 / 10 ^ 7 + 11 / 10 * (val (e10 : F)
            + (40 * ((p.angle.blade + c.angle.blade + 2 : ℕ) : ℝ) + 170) * (1 / 2 ^ 53))) + 1 / 10 ^ 28 + 2 * val (e10 : F) ∧
      |val p'.mag * Real.cos (Angle.Tpi p'.angle)
          - (val c.mag * Real.cos (Angle.Tpi c.angle) + val io.mag * Real.cos (Angle.Tpi io.angle))|
        ≤ (val c.mag + val io.mag) * (2 / 10 ^ 7 + 11 / 10 * (val (e10 : F)
            + (40 * ((c.angle.blade + io.angle.blade : ℕ) : ℝ) + 170) * (1 / 2 ^ 53))) + 1 / 10 ^ 28 + 2 * val (e10 : F) ∧
      |val p'.mag * Real.sin (Angle.Tpi p'.angle)
          - (val c.mag * Real.sin (Angle.Tpi c.angle) + val io.mag * Real.sin (Angle.Tpi io.angle))|
        ≤ (val c.mag + val io.mag) * (2 / 10 ^ 7 + 11 / 10 * (val (e10 : F)
            + (40 * ((c.angle.blade + io.angle.blade : ℕ) : ℝ) + 170) * (1 / 2 ^ 53))) + 1 / 10 ^ 28 + 2 * val (e10 : F) := by
  -- the offset: canonical, finite, positive
  have hn := negate_spec hc
  have hninv : c.negate.angle.Inv := inv_of_spec hc hn.2
  have hcb' : p.angle.blade + c.negate.angle.blade ≤ 2 ^ 39 := by
    show p.angle.blade + c.angle.negate.blade ≤ 2 ^ 39
    rw [hn.1]; omega
  have hoinv : (p.sub c).angle.Inv := Geonum.add_angle_inv hp hninv hmp (show c.negate.MagDom from hmc) hcb'
  obtain ⟨hfo, ho0⟩ : Fin (p.sub c).mag ∧ 0 ≤ val (p.sub c).mag := Geonum.add_mag_ok' hmp (show c.negate.MagDom from hmc) hp hninv
  have hmpos : 0 < val (p.sub c).mag := lt_of_lt_of_le (by positivity) hm
  have hoff : feq (p.sub c).mag zero = false := by
    rw [Bool.eq_false_iff]; intro h
    have := (feq_spec hfo (fin_zero (F := F))).mp h
    rw [val_zero] at this; linarith
  refine ⟨c.add ⟨fdiv (fmul r r) (p.sub c).mag, (p.sub c).angle⟩, ⟨fdiv (fmul r r) (p.sub c).mag, (p.sub c).angle⟩,
    (invertCircle_spec p c r).2 hoff, rfl, rfl, ?_, ?_, ?_⟩
  · -- the product of the distances
    have hr2 : 0 ≤ val r * val r := mul_self_nonneg _
    have hr2b : |val r * val r| ≤ 10 ^ 140 := by
      rw [abs_mul]
      calc |val r| * |val r| ≤ 10 ^ 70 * 10 ^ 70 := mul_le_mul hrb hrb (abs_nonneg _) (by positivity)
        _ = 10 ^ 140 := by rw [← pow_add]
    obtain ⟨hfS, hvS⟩ := fmul_spec hr hr (inRange_of_le (le_trans hr2b (pow_le_pow_right₀ (by norm_num) (by norm_num))))
    have hS : |val (fmul r r) - val r * val r| ≤ val r * val r * (1 / 2 ^ 53) + 1 / 2 ^ 1075 := by
      rw [hvS]; have := rnd_err (F := F) (val r * val r)
      rwa [abs_of_nonneg hr2, div_eq_mul_one_div] at this
    have hSb : |val (fmul r r)| ≤ 2 * 10 ^ 140 + 1 := by
      have := abs_sub_abs_le_abs_sub (val (fmul r r)) (val r * val r)
      have h53 : val r * val r * (1 / 2 ^ 53) ≤ val r * val r * 1 := mul_le_mul_of_nonneg_left (by norm_num) hr2
      have hτ : (1:ℝ) / 2 ^ 1075 ≤ 1 := by rw [div_le_one (by positivity)]; exact one_le_pow₀ (by norm_num)
      rw [abs_of_nonneg hr2] at hr2b this
      linarith
    have hin : InRange (F := F) (val (fmul r r) / val (p.sub c).mag) := inRange_of_le (by
      rw [abs_div, abs_of_pos hmpos, div_le_iff₀ hmpos]
      have h1 : (2:ℝ) * 10 ^ 140 + 1 ≤ 10 ^ 250 * (1 / 10 ^ 100) := by
        have e : (10:ℝ) ^ 250 * (1 / 10 ^ 100) = 10 ^ 150 := by
          rw [show (250:ℕ) = 150 + 100 by norm_num, pow_add]; field_simp
        rw [e]; norm_num
      have h2 : (10:ℝ) ^ 250 * (1 / 10 ^ 100) ≤ 10 ^ 250 * val (p.sub c).mag := mul_le_mul_of_nonneg_left hm (by positivity)
      linarith)
    obtain ⟨_, hvI⟩ := fdiv_spec hfS hfo (ne_of_gt hmpos) hin
    have hI : |val (fdiv (fmul r r) (p.sub c).mag) - val (fmul r r) / val (p.sub c).mag|
        ≤ |val (fmul r r) / val (p.sub c).mag| * (1 / 2 ^ 53) + 1 / 2 ^ 1075 := by
      rw [hvI]; have := rnd_err (F := F) (val (fmul r r) / val (p.sub c).mag)
      rwa [div_eq_mul_one_div (|val (fmul r r) / val (p.sub c).mag|)] at this
    exact invert_prod_real hr2 hmpos (by positivity) (by norm_num) (by positivity) hS hI
  · exact (Geonum.sub_cartesian_every_branch_float hp hc hmp hmc hcb).1
  · exact Geonum.sum_cartesian_every_branch_float (b := ⟨fdiv (fmul r r) (p.sub c).mag, (p.sub c).angle⟩) hc hoinv hmc hio hcb2

end B

/-! The involution is proved for the reference map (`invRef_laws`), and the code is tied to the reference map by
    `invertCircle_cartesian_real` + `invertCircle_offset_is_ref` (the result is within the addition tolerance of `invRef` applied to a
    point within the addition tolerance of `p`).  Composing two such steps into a single bound `‖p'' − p‖ ≤ …` needs the Lipschitz
    constant `r²/|p−c|²` of `invRef` and is not proved as one statement; it is explored by `oracle.C13.invert` with exactly that
    conditioning factor. -/

/-- non-vacuity / usable form: for canonical angles the cosine argument is finite, so `distance_float` applies to every pair of
    in-domain numbers -/
example {F : Type} [FloatSpec F] {a b : Geonum F} (ha : a.MagDom) (hb : b.MagDom) (hai : a.angle.Inv) (hbi : b.angle.Inv) :
    |val (a.distanceTo b).mag - Real.sqrt (val a.mag * val a.mag + val b.mag * val b.mag
        - 2 * val a.mag * val b.mag * val (FloatLike.cos (b.angle.sub a.angle).gradeAngle))|
      ≤ (val a.mag + val b.mag) * (1 / 2 ^ 24 + 1 / 2 ^ 50) + 1 / 10 ^ 90 :=
  distance_float ha hb (gradeAngle_fin (geometricSub_spec hbi hai).1)

example {F : Type} [FloatSpec F] : (⟨zero, 0⟩ : Angle F).Inv := inv_zero 0


/-! ### R — on the arithmetic that really rounds (`R64`) -/
section R

/-- (R) `distance_to` against the true Euclidean distance for all pairs of binary64 numbers in the domain -/
theorem distance_true_rounded {a b : Geonum R64} (ha : a.angle.Inv) (hb : b.angle.Inv) (hma : a.MagDom) (hmb : b.MagDom) :
    |(a.distanceTo b).mag.v - Geonum.euclid a.mag.v b.mag.v (Angle.Tpi a.angle) (Angle.Tpi b.angle)|
      ≤ (a.mag.v + b.mag.v) * (11 / 10 ^ 6) + 1 / 10 ^ 90 :=
  distance_true (F := R64) ha hb hma hmb

end R

end GeonumModel.C13
