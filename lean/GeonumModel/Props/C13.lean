/-
  C13 — Distance is a metric consistent with subtraction; inversion is an involution.
-/
import GeonumModel.Lemmas.GeonumMag
import GeonumModel.Lemmas.GradeAngle

set_option linter.unusedSectionVars false
set_option linter.unusedVariables false

namespace GeonumModel.C13
open GeonumModel FloatLike FloatSpec Angle Geonum

section G
variable {F : Type} [FloatLike F]

/-- (G) `mag_diff` is `| |a| − |b| |` (one subtraction, one absolute value) -/
theorem magDiff_def (a b : Geonum F) : a.magDiff b = fabs (fsub a.mag b.mag) := rfl

/-- (G) circle inversion panics exactly when the offset `p − c` has a magnitude that compares equal to zero; otherwise it is
    `c + [r²/|p−c|, angle(p−c)]` -/
theorem invertCircle_spec (p c : Geonum F) (r : F) :
    (p.invertCircle c r = none ↔ feq (p.sub c).mag zero = true) ∧
    (feq (p.sub c).mag zero = false →
      p.invertCircle c r = some (c.add ⟨fdiv (fmul r r) (p.sub c).mag, (p.sub c).angle⟩)) := by
  unfold Geonum.invertCircle
  constructor
  · by_cases h : feq (p.sub c).mag zero = true <;> simp [h]
  · intro h; simp [h, Geonum.newWithAngle]

/-- (G) the distance is `scalar(√max(d², 0))` with `d² = (a² + b²) − ((2a)b)·cos(grade_angle(tb − ta))` -/
theorem distanceTo_def (a b : Geonum F) :
    a.distanceTo b = Geonum.scalar (sqrt (fmax
      (fsub (fadd (fmul a.mag a.mag) (fmul b.mag b.mag))
            (fmul (fmul (fmul two a.mag) b.mag) (FloatLike.cos (b.angle.sub a.angle).gradeAngle))) zero)) := rfl
end G

section S
variable {F : Type} [FloatSpec F]

/-- (S) **never NaN, never negative, at angle exactly 0**: whenever the squared distance is a finite number (always, for
    in-domain magnitudes), the clamp makes the square root's argument non-negative, so the distance is finite, non-negative,
    and `scalar` places it on blade 0 with a remainder of value 0.  Relies on fix 05011a7. -/
theorem distanceTo_ok (a b : Geonum F)
    (hd2 : Fin (fsub (fadd (fmul a.mag a.mag) (fmul b.mag b.mag))
            (fmul (fmul (fmul two a.mag) b.mag) (FloatLike.cos (b.angle.sub a.angle).gradeAngle)))) :
    Fin (a.distanceTo b).mag ∧ 0 ≤ val (a.distanceTo b).mag ∧
    (a.distanceTo b).angle.blade = 0 ∧ val (a.distanceTo b).angle.rem = 0 := by
  obtain ⟨hfm, hvm⟩ := fmax_spec hd2 (fin_zero (F := F))
  have hm0 : 0 ≤ val (fmax (fsub (fadd (fmul a.mag a.mag) (fmul b.mag b.mag))
      (fmul (fmul (fmul two a.mag) b.mag) (FloatLike.cos (b.angle.sub a.angle).gradeAngle))) (zero : F)) := by
    rw [hvm, val_zero]; exact le_max_right _ _
  obtain ⟨hfs, hvs⟩ := sqrt_spec hfm hm0
  have hs0 : 0 ≤ val (sqrt (fmax (fsub (fadd (fmul a.mag a.mag) (fmul b.mag b.mag))
      (fmul (fmul (fmul two a.mag) b.mag) (FloatLike.cos (b.angle.sub a.angle).gradeAngle))) (zero : F))) := by
    rw [hvs]; exact rnd_nonneg (Real.sqrt_nonneg _)
  obtain ⟨hfa, hva⟩ := fabs_spec hfs
  have hge : fge (sqrt (fmax (fsub (fadd (fmul a.mag a.mag) (fmul b.mag b.mag))
      (fmul (fmul (fmul two a.mag) b.mag) (FloatLike.cos (b.angle.sub a.angle).gradeAngle))) (zero : F))) (zero : F) = true := by
    rw [fle_spec fin_zero hfs, val_zero]; exact hs0
  obtain ⟨hb0, _, _, hv0⟩ := new_zero_one (F := F)
  simp only at hb0 hv0; rw [val_zero] at hv0
  rw [distanceTo_def]
  unfold Geonum.scalar
  simp only [hge, if_true]
  exact ⟨hfa, by rw [hva]; exact abs_nonneg _, hb0, hv0⟩

/-- (S) the offset of a point from itself has magnitude exactly `0.0`, so inverting the circle's own centre panics -/
theorem invertCircle_centre_panics {c : Geonum F} (hm : Fin c.mag) (ha : c.angle.Inv) (r : F) :
    c.invertCircle c r = none := by
  rw [(invertCircle_spec c c r).1]
  have n := negate_spec ha
  have h1 : sameAngle c c.negate = false := by
    unfold sameAngle Angle.beq
    have : c.angle.blade ≠ c.negate.angle.blade := by
      show c.angle.blade ≠ c.angle.negate.blade; rw [n.1]; omega
    simp [this]
  have hbs : (c.angle.add (Angle.new one one)).beq c.negate.angle = true := by
    have hf := n.2.1
    obtain ⟨hf', hv'⟩ := fsub_spec hf hf (by rw [sub_self]; exact inRange_small (by rw [abs_zero]; positivity))
    obtain ⟨hfa, hva⟩ := fabs_spec hf'
    have ht : flt (fabs (fsub c.angle.negate.rem c.angle.negate.rem)) (e15 : F) = true := by
      rw [flt_spec hfa fin_e15, hva, hv', sub_self, rnd_zero, abs_zero]; exact val_e15_pos
    show (c.angle.negate).beq (c.angle.negate) = true
    unfold Angle.beq; simp [ht]
  have h2 : oppositeAngle c c.negate = true := by unfold oppositeAngle; simp [hbs]
  obtain ⟨hf, hv⟩ := fsub_spec hm hm (by rw [sub_self]; exact inRange_small (by rw [abs_zero]; positivity))
  obtain ⟨hfa, hva⟩ := fabs_spec hf
  have h3 : flt (fabs (fsub c.mag c.negate.mag)) (e10 : F) = true := by
    show flt (fabs (fsub c.mag c.mag)) (e10 : F) = true
    rw [flt_spec hfa fin_e10, hva, hv, sub_self, rnd_zero, abs_zero]; exact val_e10_pos
  show feq (c.add c.negate).mag zero = true
  rw [add_opposite_cancel c c.negate h1 h2 h3]
  exact (feq_spec fin_zero fin_zero).mpr rfl

end S

/-! PARTIAL (E-tier, not yet proved): distance = ‖cart a − cart b‖ (hence symmetry, identity of indiscernibles, triangle
    inequality, = |a − b|), and the inversion laws (same ray, |p'−c||p−c| = r², involution).  Explored by `oracle.C13.*`. -/

example {F : Type} [FloatSpec F] : (⟨zero, 0⟩ : Angle F).Inv := inv_zero 0

end GeonumModel.C13
