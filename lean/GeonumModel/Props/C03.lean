/-
  C03 — Angle addition conserves the quarter-turn count (angles add).

  Tiers: G = any arithmetic; S = any arithmetic satisfying `FloatSpec` (IEEE contract); E = exact reals.
  `T a = blade·(π/2) + rem` is the total, with the machine's own π/2 (`val qp`).
-/
import GeonumModel.Lemmas.AngleStep
import GeonumModel.Spec.RealWitness
import GeonumModel.Spec.RoundWitness

set_option linter.unusedSectionVars false
set_option linter.unusedVariables false

namespace GeonumModel.C03
open GeonumModel FloatLike FloatSpec Angle

/-- total angle in radians, with the format's own quarter turn -/
noncomputable def T {F : Type} [FloatSpec F] (a : Angle F) : ℝ := (a.blade : ℝ) * val (qp : F) + val a.rem

section G
variable {F : Type} [FloatLike F]

/-- (G) all 12 operator spellings (+, *, rotate × ownership forms) are the same function -/
theorem spellings (a b : Angle F) :
    addVR a b = addVV a b ∧ addRV a b = addVV a b ∧ addRR a b = addVV a b ∧
    mulVV a b = addVV a b ∧ mulVR a b = addVV a b ∧ mulRV a b = addVV a b ∧ mulRR a b = addVV a b ∧
    a.rotate b = addVV a b ∧ addVV a b = a.geometricAdd b :=
  ⟨rfl, rfl, rfl, rfl, rfl, rfl, rfl, rfl, rfl⟩

/-- (G) commutativity of the sum is inherited bit-for-bit from commutativity of the one float addition it performs -/
theorem add_comm_of_fadd_comm (a b : Angle F) (h : fadd a.rem b.rem = fadd b.rem a.rem) :
    a.geometricAdd b = b.geometricAdd a := by
  unfold geometricAdd
  simp only [h, Nat.add_comm a.blade b.blade]
end G

section S
variable {F : Type} [FloatSpec F]

/-- (S) addition is commutative as a structure equality — bit-for-bit on binary64 -/
theorem add_comm {a b : Angle F} (ha : Fin a.rem) (hb : Fin b.rem) :
    a.geometricAdd b = b.geometricAdd a :=
  add_comm_of_fadd_comm a b (fadd_comm ha hb)

/-- (S) the sum of two canonical angles is canonical -/
theorem add_inv {a b : Angle F} (ha : a.Inv) (hb : b.Inv) : (a.geometricAdd b).Inv :=
  geometricAdd_inv ha hb

/-- (S) blade counts add exactly, with at most one carry -/
theorem add_blade {a b : Angle F} (ha : a.Inv) (hb : b.Inv) :
    (a.geometricAdd b).blade = a.blade + b.blade ∨ (a.geometricAdd b).blade = a.blade + b.blade + 1 :=
  (geometricAdd_spec ha hb).2.1

/-- (S/B) the total of the sum is the sum of the totals to within the 1e-10 boundary tolerance plus the rounding
    of one addition (`< 1e-15`) — for every blade count, no bound -/
theorem add_total {a b : Angle F} (ha : a.Inv) (hb : b.Inv) :
    |T (a.geometricAdd b) - (T a + T b)| < val (e10 : F) + 1 / 10 ^ 15 := by
  have h := (geometricAdd_spec ha hb).2.2
  have e : T (a.geometricAdd b) - (T a + T b) =
      (val (a.geometricAdd b).rem + (((a.geometricAdd b).blade : ℝ) - ((a.blade + b.blade : ℕ) : ℝ)) * val (qp : F))
        - (val a.rem + val b.rem) := by
    unfold T; push_cast; ring
  rw [e]; exact h

/-- (S) the zero angle is an exact right identity: same blade, same remainder value -/
theorem add_zero_right {a : Angle F} (ha : a.Inv) (z : Angle F) (hz : z = ⟨zero, 0⟩) :
    (a.geometricAdd z).blade = a.blade ∧ val (a.geometricAdd z).rem = val a.rem := by
  subst hz
  obtain ⟨har, ha0, ha1⟩ := ha
  have he := val_e10_pos (F := F)
  have hsum : val (fadd a.rem (zero : F)) = val a.rem := by
    have := (fadd_spec har (fin_zero (F := F)) (by rw [val_zero, add_zero]; exact inRange_val har)).2
    rw [this, val_zero, add_zero, rnd_val har]
  have hfs : Fin (fadd a.rem (zero : F)) :=
    (fadd_spec har (fin_zero (F := F)) (by rw [val_zero, add_zero]; exact inRange_val har)).1
  unfold geometricAdd
  simp only [Nat.add_zero]
  by_cases hz : feq (fadd a.rem zero) (zero : F) = true
  · rw [if_pos hz]
    have := (feq_spec hfs fin_zero).mp hz
    rw [val_zero, hsum] at this
    exact ⟨rfl, by rw [val_zero, this]⟩
  · rw [if_neg hz]
    have hq := val_qp_gt (F := F)
    have h15 : ¬ flt (fabs (fsub (fadd a.rem zero) qp)) (e15 : F) = true := by
      intro h
      have := near_of_test hfs fin_qp fin_e15
        (inRange_sub_qp hfs (by rw [hsum]; exact ha0) (by rw [hsum]; linarith [val_qp_lt (F := F)])) h
      rw [hsum, abs_lt] at this
      have := val_e15_lt_e10 (F := F)
      linarith
    rw [if_neg h15]
    obtain ⟨_, hcase⟩ := normalizeBoundaries_spec (fadd a.rem zero) a.blade hfs (by rw [hsum]; exact ha0)
      (by rw [hsum]; linarith)
    rcases hcase with ⟨h, _⟩ | ⟨h, hnear⟩ | ⟨_, _, hbig⟩
    · rw [h]; exact ⟨rfl, hsum⟩
    · exfalso; rw [hsum, abs_lt] at hnear; linarith
    · exfalso; rw [hsum] at hbig; linarith

/-- (S/B) a bracketing of three summands is off from the sum of the three totals by at most ONE snap (`1e-10`) plus two roundings:
    if the first sum snapped, its remainder is 0 and the second addition is exact -/
theorem add3_total_left {a b c : Angle F} (ha : a.Inv) (hb : b.Inv) (hc : c.Inv) :
    |T ((a.geometricAdd b).geometricAdd c) - (T a + T b + T c)| < val (e10 : F) + 2 / 10 ^ 15 := by
  have h1 := add_total ha hb
  have hx := add_inv ha hb
  have e1 : T (a.geometricAdd b) - (T a + T b) =
      (val (a.geometricAdd b).rem + (((a.geometricAdd b).blade : ℝ) - ((a.blade + b.blade : ℕ) : ℝ)) * val (qp : F))
        - (val a.rem + val b.rem) := by unfold T; push_cast; ring
  rcases geometricAdd_snap_or_exact ha hb with hz | hex
  · -- snapped: the next addition adds a whole number of quarter turns from the left, exactly
    have hw := whole_add hc hx.1 hz
    have hT : T ((a.geometricAdd b).geometricAdd c) = T (a.geometricAdd b) + T c := by
      unfold T; rw [hw.1, hw.2.2, hz]; push_cast; ring
    rw [hT]
    rw [abs_lt] at h1 ⊢
    have : (0:ℝ) < 1 / 10 ^ 15 := by positivity
    constructor <;> linarith [h1.1, h1.2]
  · rw [← e1] at hex
    have h2 := add_total hx hc
    rw [abs_lt] at hex h2 ⊢
    constructor <;> linarith [hex.1, hex.2, h2.1, h2.2]

theorem add3_total_right {a b c : Angle F} (ha : a.Inv) (hb : b.Inv) (hc : c.Inv) :
    |T (a.geometricAdd (b.geometricAdd c)) - (T a + T b + T c)| < val (e10 : F) + 2 / 10 ^ 15 := by
  have h1 := add_total hb hc
  have hy := add_inv hb hc
  have e1 : T (b.geometricAdd c) - (T b + T c) =
      (val (b.geometricAdd c).rem + (((b.geometricAdd c).blade : ℝ) - ((b.blade + c.blade : ℕ) : ℝ)) * val (qp : F))
        - (val b.rem + val c.rem) := by unfold T; push_cast; ring
  rcases geometricAdd_snap_or_exact hb hc with hz | hex
  · have hw := add_whole ha hy.1 hz
    have hT : T (a.geometricAdd (b.geometricAdd c)) = T a + T (b.geometricAdd c) := by
      unfold T; rw [hw.1, hw.2.2, hz]; push_cast; ring
    rw [hT]
    rw [abs_lt] at h1 ⊢
    have : (0:ℝ) < 1 / 10 ^ 15 := by positivity
    constructor <;> linarith [h1.1, h1.2]
  · rw [← e1] at hex
    have h2 := add_total ha hy
    rw [abs_lt] at hex h2 ⊢
    constructor <;> linarith [hex.1, hex.2, h2.1, h2.2]

/-- (S/B) **associativity up to twice the tolerance**: the two bracketings differ in total by less than `2·(1e-10 + 2e-15)` -/
theorem add_assoc_total {a b c : Angle F} (ha : a.Inv) (hb : b.Inv) (hc : c.Inv) :
    |T ((a.geometricAdd b).geometricAdd c) - T (a.geometricAdd (b.geometricAdd c))|
      < 2 * (val (e10 : F) + 2 / 10 ^ 15) := by
  have h1 := add3_total_left ha hb hc
  have h2 := add3_total_right ha hb hc
  rw [abs_lt] at *
  constructor <;> linarith [h1.1, h1.2, h2.1, h2.2]

end S

/-! ### E-tier: exact arithmetic (`F = ℝ`): the same statements with the rounding slack gone -/
section E
/-- (E) in exact arithmetic the total of the sum is within the boundary tolerance of the sum of totals -/
theorem add_total_exact {a b : Angle ℝ} (ha : a.Inv) (hb : b.Inv) :
    |T (a.geometricAdd b) - (T a + T b)| < (1 : ℝ) / 10 ^ 10 + 1 / 10 ^ 15 := by
  have h := add_total ha hb
  have : val (e10 : ℝ) = 1 / 10 ^ 10 := by
    rw [e10_spec.2]; rfl
  rwa [this] at h
end E

/-! ### non-vacuity: concrete values meeting the hypotheses -/
example {F : Type} [FloatSpec F] : (⟨zero, 5⟩ : Angle F).Inv := inv_zero 5
example : (⟨(1:ℝ), 7⟩ : Angle ℝ).Inv := by
  refine ⟨trivial, by norm_num [val], ?_⟩
  have h1 := val_e10_small (F := ℝ); have h2 := val_qp_gt (F := ℝ)
  have : (1:ℝ) / 10 ^ 9 ≤ 1 / 2 := by norm_num
  show (1:ℝ) + _ ≤ _
  linarith


/-! ### R — on the arithmetic that really rounds (`R64`: round-to-nearest on the binary64 grid, correctly rounded libm) -/
section R

/-- (R) angle addition on binary64 remainders: bitwise commutative, and associative up to twice the tolerance -/
theorem add_comm_assoc_rounded {a b c : Angle R64} (ha : a.Inv) (hb : b.Inv) (hc : c.Inv) :
    a.geometricAdd b = b.geometricAdd a ∧
    |T ((a.geometricAdd b).geometricAdd c) - T (a.geometricAdd (b.geometricAdd c))| < 2 * ((e10 : R64).v + 2 / 10 ^ 15) :=
  ⟨add_comm (F := R64) trivial trivial, add_assoc_total (F := R64) ha hb hc⟩

end R

end GeonumModel.C03
