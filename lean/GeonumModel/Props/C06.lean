/-
  C06 — Sum and difference equal the Cartesian vector sum and difference.
-/
import GeonumModel.Lemmas.GeonumMag
import GeonumModel.Lemmas.GradeAngle
import GeonumModel.Spec.RealWitness
import GeonumModel.Lemmas.ExactAdd
import GeonumModel.Lemmas.SumMagFloat
import GeonumModel.Lemmas.FloatSumDir

set_option linter.unusedSectionVars false
set_option linter.unusedVariables false

namespace GeonumModel.C06
open GeonumModel FloatLike FloatSpec Angle Geonum

section G
variable {F : Type} [FloatLike F]

/-- (G) subtraction is adding the half-turned operand; every by-value / by-reference form and the affine `translate`
    helper are the same function -/
theorem sub_and_spellings (a b : Geonum F) :
    a.sub b = a.add b.negate ∧ a.addRR b = a.add b ∧ a.addRV b = a.add b ∧ a.addVR b = a.add b ∧
    a.subRR b = a.sub b ∧ a.subRV b = a.sub b ∧ a.subVR b = a.sub b ∧ Affine.translate a b = a.add b :=
  ⟨rfl, rfl, rfl, rfl, rfl, rfl, rfl, rfl⟩
end G

section S
variable {F : Type} [FloatSpec F]

theorem beq_self {x : Angle F} (h : Fin x.rem) : x.beq x = true := by
  obtain ⟨hf, hv⟩ := fsub_spec h h (by rw [sub_self]; exact inRange_small (by rw [abs_zero]; positivity))
  obtain ⟨hfa, hva⟩ := fabs_spec hf
  have ht : flt (fabs (fsub x.rem x.rem)) (e15 : F) = true := by
    rw [flt_spec hfa fin_e15, hva, hv, sub_self, rnd_zero, abs_zero]; exact val_e15_pos
  unfold Angle.beq; simp [ht]

/-- (S) `a − a` has magnitude exactly `0.0` (the opposite-angle branch with cancelling magnitudes) -/
theorem sub_self_mag {a : Geonum F} (hm : Fin a.mag) (ha : a.angle.Inv) : (a.sub a).mag = zero := by
  have n := negate_spec ha
  have h1 : sameAngle a a.negate = false := by
    unfold sameAngle Angle.beq
    have : a.angle.blade ≠ a.negate.angle.blade := by
      show a.angle.blade ≠ a.angle.negate.blade; rw [n.1]; omega
    simp [this]
  have h2 : oppositeAngle a a.negate = true := by
    unfold oppositeAngle
    have : (a.angle.add (Angle.new one one)).beq a.negate.angle = true := beq_self n.2.1
    simp [this]
  obtain ⟨hf, hv⟩ := fsub_spec hm hm (by rw [sub_self]; exact inRange_small (by rw [abs_zero]; positivity))
  obtain ⟨hfa, hva⟩ := fabs_spec hf
  have h3 : flt (fabs (fsub a.mag a.negate.mag)) (e10 : F) = true := by
    show flt (fabs (fsub a.mag a.mag)) (e10 : F) = true
    rw [flt_spec hfa fin_e10, hva, hv, sub_self, rnd_zero, abs_zero]; exact val_e10_pos
  show (a.add a.negate).mag = zero
  rw [add_opposite_cancel a a.negate h1 h2 h3]

/-- (S) **never NaN, never negative**: for operands of the property domain (magnitudes finite in `[0, 1e100]`, canonical
    angles) every branch of `+` returns a finite non-negative magnitude.  The general branch relies on the clamp of the
    radicand at zero (fix 05011a7); without it the statement is false. -/
theorem add_mag_finite_nonneg {a b : Geonum F} (ha : a.MagDom) (hb : b.MagDom) (hai : a.angle.Inv) (hbi : b.angle.Inv) :
    Fin (a.add b).mag ∧ 0 ≤ val (a.add b).mag :=
  add_mag_ok ha hb (gradeAngle_sub_fin hai hbi)

/-- (S) the same for subtraction -/
theorem sub_mag_finite_nonneg {a b : Geonum F} (ha : a.MagDom) (hb : b.MagDom) (hai : a.angle.Inv) (hbi : b.angle.Inv) :
    Fin (a.sub b).mag ∧ 0 ≤ val (a.sub b).mag := by
  have n := negate_spec hbi
  exact add_mag_ok ha (b := b.negate) hb (gradeAngle_sub_fin hai (inv_of_spec hbi n.2))

/-- (S) a zero-magnitude operand with the same angle leaves the other's magnitude value and angle unchanged -/
theorem add_zero_same_angle {a : Geonum F} (hm : Fin a.mag) (ha : a.angle.Inv) :
    (a.add ⟨zero, a.angle⟩).angle = a.angle ∧ val (a.add ⟨zero, a.angle⟩).mag = val a.mag := by
  have h : sameAngle a ⟨zero, a.angle⟩ = true := beq_self ha.1
  rw [add_same a _ h]
  refine ⟨rfl, ?_⟩
  show val (fadd a.mag zero) = _
  rw [(fadd_spec hm (fin_zero (F := F)) (by rw [val_zero, add_zero]; exact inRange_val hm)).2, val_zero, add_zero, rnd_val hm]

end S

/-! ### E-tier: exact arithmetic — the sum IS the Cartesian sum -/
section E
open GeonumModel.Exact

/-- (E) **main refinement**: for canonical operands with non-negative magnitudes and a blade sum up to `2^40`, whichever of the
    code paths applies (identical angles, a half turn apart with or without cancellation, or the general law-of-cosines /
    `atan2` path with its re-encoding on top of the blade sum), the Cartesian point of `a + b` is the component-wise sum of the
    operands' points to within `1e-10·(1 + |a| + |b|)` -/
theorem add_is_cartesian_sum {a b : Geonum ℝ} (ha : a.angle.Inv) (hb : b.angle.Inv) (h0a : 0 ≤ a.mag) (h0b : 0 ≤ b.mag)
    (hcb : a.angle.blade + b.angle.blade ≤ 2 ^ 40) :
    ‖cart (a.add b) - (cart a + cart b)‖ ≤ 1 / 10 ^ 10 * (1 + a.mag + b.mag) :=
  add_refines ha hb h0a h0b hcb

/-- (E) negation is the point reflection -/
theorem cart_negate {b : Geonum ℝ} (hb : b.angle.Inv) : cart b.negate = -cart b := by
  show polar b.mag (T b.angle.negate) = -polar b.mag (T b.angle)
  rw [negate_total_real hb, polar_add_pi]

/-- (E) the difference is the Cartesian difference, same tolerance -/
theorem sub_is_cartesian_difference {a b : Geonum ℝ} (ha : a.angle.Inv) (hb : b.angle.Inv) (h0a : 0 ≤ a.mag) (h0b : 0 ≤ b.mag)
    (hcb : a.angle.blade + (b.angle.blade + 2) ≤ 2 ^ 40) :
    ‖cart (a.sub b) - (cart a - cart b)‖ ≤ 1 / 10 ^ 10 * (1 + a.mag + b.mag) := by
  have hn := negate_spec hb
  have hninv : b.negate.angle.Inv := inv_of_spec hb hn.2
  have h := add_refines ha hninv h0a (show 0 ≤ b.negate.mag from h0b) (by
    show a.angle.blade + b.angle.negate.blade ≤ 2 ^ 40
    rw [hn.1]; exact hcb)
  rw [cart_negate hb] at h
  have e : cart a - cart b = cart a + -cart b := by ring
  rw [e]; exact h

/-- (E) `a + b` and `b + a` denote the same point to within twice the tolerance -/
theorem add_comm_cartesian {a b : Geonum ℝ} (ha : a.angle.Inv) (hb : b.angle.Inv) (h0a : 0 ≤ a.mag) (h0b : 0 ≤ b.mag)
    (hcb : a.angle.blade + b.angle.blade ≤ 2 ^ 40) :
    ‖cart (a.add b) - cart (b.add a)‖ ≤ 2 * (1 / 10 ^ 10 * (1 + a.mag + b.mag)) := by
  have h1 := add_refines ha hb h0a h0b hcb
  have h2 := add_refines hb ha h0b h0a (by rw [Nat.add_comm]; exact hcb)
  have e : cart (a.add b) - cart (b.add a) = (cart (a.add b) - (cart a + cart b)) - (cart (b.add a) - (cart b + cart a)) := by ring
  rw [e]
  calc ‖(cart (a.add b) - (cart a + cart b)) - (cart (b.add a) - (cart b + cart a))‖
      ≤ ‖cart (a.add b) - (cart a + cart b)‖ + ‖cart (b.add a) - (cart b + cart a)‖ := norm_sub_le _ _
    _ ≤ 2 * (1 / 10 ^ 10 * (1 + a.mag + b.mag)) := by
        have : 1 + b.mag + a.mag = 1 + a.mag + b.mag := by ring
        rw [this] at h2; linarith

/-- (E) a zero-magnitude operand leaves the other's vector unchanged (within the tolerance), whatever its angle -/
theorem add_zero_operand {a z : Geonum ℝ} (ha : a.angle.Inv) (hz : z.angle.Inv) (h0a : 0 ≤ a.mag) (hzm : z.mag = 0)
    (hcb : a.angle.blade + z.angle.blade ≤ 2 ^ 40) :
    ‖cart (a.add z) - cart a‖ ≤ 1 / 10 ^ 10 * (1 + a.mag) := by
  have h := add_refines ha hz h0a (by rw [hzm]) hcb
  have hcz : cart z = 0 := by show polar z.mag _ = 0; rw [hzm, polar_zero]
  rw [hcz, add_zero, hzm, add_zero] at h
  exact h

/-- a running sum stays inside the domain: at every step the accumulator and the next term are canonical with non-negative
    magnitudes and a blade sum of at most `2^40` ("for as long as they stay inside these bounds") -/
def RunOK : Geonum ℝ → List (Geonum ℝ) → Prop
  | _, [] => True
  | acc, x :: xs => acc.angle.Inv ∧ x.angle.Inv ∧ 0 ≤ acc.mag ∧ 0 ≤ x.mag ∧ acc.angle.blade + x.angle.blade ≤ 2 ^ 40 ∧
      RunOK (acc.add x) xs

/-- the accumulated tolerance of a running sum: one addition tolerance per step, each scaled by the magnitudes at that step -/
noncomputable def runTol : Geonum ℝ → List (Geonum ℝ) → ℝ
  | _, [] => 0
  | acc, x :: xs => 1 / 10 ^ 10 * (1 + acc.mag + x.mag) + runTol (acc.add x) xs

/-- (E) **running sums**: folding `+` over any sequence reproduces the component-wise sum of all the Cartesian points to within the
    accumulated tolerance — by induction over the sequence, any length -/
theorem running_sum_cartesian (l : List (Geonum ℝ)) (acc : Geonum ℝ) (h : RunOK acc l) :
    ‖cart (l.foldl Geonum.add acc) - (cart acc + (l.map cart).sum)‖ ≤ runTol acc l := by
  induction l generalizing acc with
  | nil => simp [runTol]
  | cons x xs ih =>
    obtain ⟨ha, hx, h0a, h0x, hcb, hrest⟩ := h
    have h1 := add_refines ha hx h0a h0x hcb
    have h2 := ih (acc.add x) hrest
    simp only [List.foldl_cons, List.map_cons, List.sum_cons, runTol]
    have e : cart (xs.foldl Geonum.add (acc.add x)) - (cart acc + (cart x + (xs.map cart).sum))
        = (cart (xs.foldl Geonum.add (acc.add x)) - (cart (acc.add x) + (xs.map cart).sum))
          + (cart (acc.add x) - (cart acc + cart x)) := by ring
    rw [e]
    calc ‖(cart (xs.foldl Geonum.add (acc.add x)) - (cart (acc.add x) + (xs.map cart).sum))
          + (cart (acc.add x) - (cart acc + cart x))‖
        ≤ ‖cart (xs.foldl Geonum.add (acc.add x)) - (cart (acc.add x) + (xs.map cart).sum)‖
          + ‖cart (acc.add x) - (cart acc + cart x)‖ := norm_add_le _ _
      _ ≤ runTol (acc.add x) xs + 1 / 10 ^ 10 * (1 + acc.mag + x.mag) := add_le_add h2 h1
      _ = 1 / 10 ^ 10 * (1 + acc.mag + x.mag) + runTol (acc.add x) xs := by ring

end E

section B
variable {F : Type} [FloatSpec F]

/-- (B) **the magnitude of a general-branch sum in rounded arithmetic**: it is within `(|a|+|b|)·(2⁻²⁴ + 2⁻⁵⁰) + 1e-90` of the exact
    law-of-cosines magnitude `√(|a|² + |b|² + 2|a||b|c)` for the cosine value `c` the code obtained — i.e. a bound of the order of
    `√ε` times the operand scale, which is attained only under near-total cancellation (the radicand's absolute error is `≈ 10ε(|a|+|b|)²`
    and the square root turns an absolute error `η` near zero into `√η`).  Covers all seven roundings of the radicand, the clamp at
    zero of fix 05011a7 and the rounding of the square root. -/
theorem sum_mag_float {a b : Geonum F} (ha : a.MagDom) (hb : b.MagDom)
    (hg : Fin (fsub b.angle.gradeAngle a.angle.gradeAngle))
    (h1 : sameAngle a b = false) (h2 : oppositeAngle a b = false) :
    |val (a.add b).mag - Real.sqrt (val a.mag * val a.mag + val b.mag * val b.mag
        + 2 * val a.mag * val b.mag * val (FloatLike.cos (fsub b.angle.gradeAngle a.angle.gradeAngle)))|
      ≤ (val a.mag + val b.mag) * (1 / 2 ^ 24 + 1 / 2 ^ 50) + 1 / 10 ^ 90 := by
  obtain ⟨hfr, hc, haa, hbb, hs, hta, htab, hpr, hR⟩ := radicand_vals ha hb hg
  obtain ⟨haf, hA0, hA1⟩ := ha
  obtain ⟨hbf, hB0, hB1⟩ := hb
  -- the magnitude is the rounded square root of the clamped radicand
  rw [add_general_mag a b h1 h2]
  obtain ⟨hfm, hvm⟩ := fmax_spec hfr (fin_zero (F := F))
  rw [val_zero] at hvm
  have hm0 : 0 ≤ val (fmax (radicand a b) zero) := by rw [hvm]; exact le_max_right _ _
  obtain ⟨hfs, hvs⟩ := sqrt_spec hfm hm0
  rw [hvm] at hvs
  -- one rounding error per operation
  have e1 := rnd_err (F := F) (val a.mag * val a.mag); rw [← haa] at e1
  have e2 := rnd_err (F := F) (val b.mag * val b.mag); rw [← hbb] at e2
  have e3 := rnd_err (F := F) (val (fmul a.mag a.mag) + val (fmul b.mag b.mag)); rw [← hs] at e3
  have e4 := rnd_err (F := F) (2 * val a.mag); rw [← hta] at e4
  have e5 := rnd_err (F := F) (val (fmul two a.mag) * val b.mag); rw [← htab] at e5
  have e6 := rnd_err (F := F) (val (fmul (fmul two a.mag) b.mag) * val (FloatLike.cos (fsub b.angle.gradeAngle a.angle.gradeAngle)))
  rw [← hpr] at e6
  have e7 := rnd_err (F := F) (val (fadd (fmul a.mag a.mag) (fmul b.mag b.mag)) +
    val (fmul (fmul (fmul two a.mag) b.mag) (FloatLike.cos (fsub b.angle.gradeAngle a.angle.gradeAngle))))
  rw [← hR] at e7
  have e8 := rnd_err (F := F) (Real.sqrt (max (val (radicand a b)) 0)); rw [← hvs] at e8
  rw [abs_of_nonneg (Real.sqrt_nonneg _)] at e8
  -- name the reals
  generalize val (fmul a.mag a.mag) = aa at *
  generalize val (fmul b.mag b.mag) = bb at *
  generalize val (fadd (fmul a.mag a.mag) (fmul b.mag b.mag)) = s at *
  generalize val (fmul two a.mag) = ta at *
  generalize val (fmul (fmul two a.mag) b.mag) = tab at *
  generalize val (fmul (fmul (fmul two a.mag) b.mag) (FloatLike.cos (fsub b.angle.gradeAngle a.angle.gradeAngle))) = pr at *
  generalize val (radicand a b) = R at *
  generalize val (FloatLike.cos (fsub b.angle.gradeAngle a.angle.gradeAngle)) = c at *
  generalize val (sqrt (fmax (radicand a b) zero)) = m at *
  generalize val a.mag = A at *
  generalize val b.mag = B at *
  clear haa hbb hs hta htab hpr hR hvs hvm hm0 hfs hfm hfr hg h1 h2 haf hbf
  -- the constants
  have ht300 : (1 : ℝ) / 2 ^ 1075 ≤ 1 / 10 ^ 300 := by
    apply one_div_le_one_div_of_le (by positivity)
    calc (10:ℝ) ^ 300 = (10 ^ 3) ^ 100 := by rw [← pow_mul]
      _ ≤ (2 ^ 10) ^ 100 := by gcongr; norm_num
      _ = 2 ^ 1000 := by rw [← pow_mul]
      _ ≤ 2 ^ 1075 := pow_le_pow_right₀ (by norm_num) (by norm_num)
  have ht0 : (0:ℝ) ≤ 1 / 2 ^ 1075 := by positivity
  have hAA : |A * A| = A * A := abs_of_nonneg (mul_nonneg hA0 hA0)
  have hBB : |B * B| = B * B := abs_of_nonneg (mul_nonneg hB0 hB0)
  have h2A : |2 * A| = 2 * A := abs_of_nonneg (by linarith)
  rw [hAA] at e1; rw [hBB] at e2; rw [h2A] at e4
  have htB1 : (1:ℝ) / 10 ^ 300 * B ≤ 1 / 10 ^ 200 := by
    calc (1:ℝ) / 10 ^ 300 * B ≤ (1 / 10 ^ 300) * 10 ^ 100 := mul_le_mul_of_nonneg_left hB1 (by positivity)
      _ = 1 / 10 ^ 200 := by rw [show (300:ℕ) = 200 + 100 by norm_num, pow_add]; field_simp
  have htt : (1:ℝ) / 10 ^ 300 ≤ 1 / 10 ^ 200 :=
    one_div_le_one_div_of_le (by positivity) (pow_le_pow_right₀ (by norm_num) (by norm_num))
  have h200 : (30:ℝ) * (1 / 10 ^ 200) ≤ 1 / 10 ^ 190 := by
    rw [show (200:ℕ) = 190 + 10 by norm_num, pow_add]
    have : (0:ℝ) < 10 ^ 190 := by positivity
    rw [mul_one_div, div_le_div_iff₀ (by positivity) this]
    nlinarith [show (30:ℝ) ≤ 10 ^ 10 by norm_num]
  have hsq190 : Real.sqrt (1 / 10 ^ 190) = 1 / 10 ^ 95 := by
    have : (1:ℝ) / 10 ^ 190 = (1 / 10 ^ 95) ^ 2 := by rw [div_pow, one_pow, ← pow_mul]
    rw [this, Real.sqrt_sq (by positivity)]
  have h95 : (3:ℝ) * (1 / 10 ^ 95) ≤ 1 / 10 ^ 90 := by
    rw [show (95:ℕ) = 90 + 5 by norm_num, pow_add]
    have : (0:ℝ) < 10 ^ 90 := by positivity
    rw [mul_one_div, div_le_div_iff₀ (by positivity) this]
    nlinarith [show (3:ℝ) ≤ 10 ^ 5 by norm_num]
  have h300_95 : (1:ℝ) / 10 ^ 300 ≤ 1 / 10 ^ 95 :=
    one_div_le_one_div_of_le (by positivity) (pow_le_pow_right₀ (by norm_num) (by norm_num))
  have hB95 : (0:ℝ) ≤ 1 / 10 ^ 95 := by positivity
  generalize (1:ℝ) / 2 ^ 1075 = t at *
  have htB : t * B ≤ 1 / 10 ^ 200 := le_trans (mul_le_mul_of_nonneg_right ht300 hB0) htB1
  have htw : t ≤ 1 / 10 ^ 200 := le_trans ht300 htt
  have ht95 : t ≤ 1 / 10 ^ 95 := le_trans ht300 h300_95
  clear hA1 hB1 htB1 htt ht300 h300_95
  generalize (1:ℝ) / 10 ^ 300 = w300 at *
  generalize (1:ℝ) / 10 ^ 200 = w at *
  generalize (1:ℝ) / 10 ^ 190 = W at *
  generalize (1:ℝ) / 10 ^ 95 = u at *
  generalize (1:ℝ) / 10 ^ 90 = U at *
  -- ε
  obtain ⟨e, he⟩ : ∃ e : ℝ, e = 1 / 2 ^ 53 := ⟨_, rfl⟩
  have he0 : 0 ≤ e := by rw [he]; positivity
  have he1 : e ≤ 1 / 4 := by rw [he]; norm_num
  have hdiv : ∀ x : ℝ, x / 2 ^ 53 = x * e := by intro x; rw [he]; ring
  simp only [hdiv] at e1 e2 e3 e4 e5 e6 e7 e8
  have ds := radicand_step1 he0 he1 ht0 e1 e2 e3
  have dp := radicand_step2 hA0 hB0 hc he0 he1 ht0 e4 e5 e6
  have dR := radicand_step3 hA0 hB0 hc he0 he1 ht0 ds dp e7
  -- exact radicand: between (A−B)² and (A+B)²
  have hP : 0 ≤ A + B := by linarith
  have hAB : 0 ≤ A * B := mul_nonneg hA0 hB0
  have h2abc : |2 * A * B * c| ≤ 2 * (A * B) := by
    rw [abs_mul, abs_of_nonneg (by linarith : (0:ℝ) ≤ 2 * A * B)]
    calc 2 * A * B * |c| ≤ 2 * A * B * 1 := mul_le_mul_of_nonneg_left hc (by linarith)
      _ = 2 * (A * B) := by ring
  rw [abs_le] at h2abc
  have hE0 : 0 ≤ A * A + B * B + 2 * A * B * c := by nlinarith [sq_nonneg (A - B), h2abc.1]
  have hEP : A * A + B * B + 2 * A * B * c ≤ (A + B) ^ 2 := by nlinarith [h2abc.2]
  have hτ0 : 0 ≤ 10 * (t * B) + 20 * t := by have := mul_nonneg ht0 hB0; linarith
  have hRE : |R - (A * A + B * B + 2 * A * B * c)| ≤ (A + B) ^ 2 / 2 ^ 48 + (10 * (t * B) + 20 * t) := by
    have : 10 * ((A + B) ^ 2 * e) ≤ (A + B) ^ 2 / 2 ^ 48 := by
      rw [he]
      have h0 : 0 ≤ (A + B) ^ 2 := by positivity
      have : 10 * ((A + B) ^ 2 * (1 / 2 ^ 53)) = (A + B) ^ 2 * (10 / 2 ^ 53) := by ring
      rw [this, div_eq_mul_one_div ((A + B) ^ 2) (2 ^ 48)]
      exact mul_le_mul_of_nonneg_left (by norm_num) h0
    linarith
  have hfinal := mag_from_radicand hP hE0 hEP he0 hτ0 hRE e8
  -- collect the constants
  have hτW : 10 * (t * B) + 20 * t ≤ W := by linarith
  have hsτ : Real.sqrt (10 * (t * B) + 20 * t) ≤ u := by rw [← hsq190]; exact Real.sqrt_le_sqrt hτW
  have hsτ0 := Real.sqrt_nonneg (10 * (t * B) + 20 * t)
  have hPe : (A + B + (A + B) / 2 ^ 24 + Real.sqrt (10 * (t * B) + 20 * t)) * e ≤ (A + B) * (1 / 2 ^ 50) + u := by
    have h1 : (A + B + (A + B) / 2 ^ 24 + Real.sqrt (10 * (t * B) + 20 * t)) * e
        = (A + B) * ((1 + 1 / 2 ^ 24) * e) + Real.sqrt (10 * (t * B) + 20 * t) * e := by ring
    have h2 : (1 + 1 / 2 ^ 24) * e ≤ 1 / 2 ^ 50 := by rw [he]; norm_num
    have h3 : Real.sqrt (10 * (t * B) + 20 * t) * e ≤ u := le_trans (mul_le_of_le_one_right hsτ0 (by linarith)) hsτ
    have h4 := mul_le_mul_of_nonneg_left h2 hP
    linarith
  have e24 : (A + B) * (1 / 2 ^ 24 + 1 / 2 ^ 50) = (A + B) / 2 ^ 24 + (A + B) * (1 / 2 ^ 50) := by ring
  rw [e24]
  linarith
/-- (B) **direction of the sum in rounded arithmetic, general branch**: for canonical operands with in-domain magnitudes and combined
    blade count `cb ≤ 2^39`, the float total of `a + b` is the libm `atan2` of the rounded component sums
    `(Σ |g|·sin, Σ |g|·cos)` plus a whole number of turns, to within `1e-10 + (40·cb + 140)·2⁻⁵³` — through the rounded blade
    shift `(cb·π)/2`, the subtraction, the constructor's `·π/π` in either order, its negative path (`ceil`, `+ 4n·qp`, clamp), the exact
    `fmod`, the snap and the final whole-blade addition.  Together with `sum_mag_float` (magnitude) this is the Cartesian-sum clause
    in rounded arithmetic up to the accuracy of the two component sums themselves. -/
theorem sum_direction_float {a b : Geonum F} (ha : a.angle.Inv) (hb : b.angle.Inv) (hma : a.MagDom) (hmb : b.MagDom)
    (hcb : a.angle.blade + b.angle.blade ≤ 2 ^ 39) (h1 : sameAngle a b = false) (h2 : oppositeAngle a b = false) :
    ∃ n : ℕ, |Angle.Tq (a.add b).angle - (val (FloatLike.atan2 (oppSum a b) (adjSum a b)) + (n : ℝ) * (4 * val (qp : F)))|
      < val (e10 : F) + (40 * ((a.angle.blade + b.angle.blade : ℕ) : ℝ) + 140) * (1 / 2 ^ 53) + 1 / 10 ^ 298 :=
  Geonum.add_general_direction_float ha hb hma hmb hcb h1 h2

end B

/-! PARTIAL (B-tier): the magnitude half of the float statement is `sum_mag_float` above (the `sqrt(eps)·scale` bound).  The direction
    half (`atan2` of the rounded component sums, re-encoded through `Angle::new`) is not proved in rounded arithmetic; it is explored
    by `oracle.C06.sum` / `oracle.C06.running` against a Cartesian reference with exactly that tolerance. -/

example {F : Type} [FloatSpec F] : (⟨one, ⟨zero, 3⟩⟩ : Geonum F).MagDom :=
  ⟨fin_one, by rw [val_one]; norm_num, by rw [val_one]; exact one_le_pow₀ (by norm_num)⟩

/-- non-vacuity of `sum_mag_float`: two unit numbers a quarter turn apart take the general branch -/
example {F : Type} [FloatSpec F] : sameAngle (⟨one, ⟨zero, 0⟩⟩ : Geonum F) ⟨one, ⟨zero, 1⟩⟩ = false ∧
    oppositeAngle (⟨one, ⟨zero, 0⟩⟩ : Geonum F) ⟨one, ⟨zero, 1⟩⟩ = false := by
  have h1 := (add_whole (a := (⟨zero, 0⟩ : Angle F)) (inv_zero 0) (new_one_one (F := F)).2.1
    (by rw [(new_one_one (F := F)).2.2.2, val_zero])).1
  have h2 := (add_whole (a := (⟨zero, 1⟩ : Angle F)) (inv_zero 1) (new_one_one (F := F)).2.1
    (by rw [(new_one_one (F := F)).2.2.2, val_zero])).1
  rw [(new_one_one (F := F)).1] at h1 h2
  constructor
  · simp [sameAngle, Angle.beq]
  · simp [oppositeAngle, Angle.beq, Angle.add, Angle.addVV, h1, h2]

end GeonumModel.C06
