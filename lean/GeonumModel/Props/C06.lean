/-
  C06 — Sum and difference equal the Cartesian vector sum and difference.
-/
import GeonumModel.Lemmas.GeonumMag
import GeonumModel.Lemmas.GradeAngle
import GeonumModel.Spec.RealWitness
import GeonumModel.Lemmas.ExactAdd

set_option linter.unusedSectionVars false
set_option linter.unusedVariables false

namespace GeonumModel.C06
open GeonumModel FloatLike FloatSpec Angle Geonum

section G
variable {F : Type} [FloatLike F]

/-- (G) subtraction is adding the half-turned operand; every by-value / by-reference form and the affine `translate`
    helper are the same function -/
theorem sub_and_spellings (a b : Geonum F) :
    a.sub b = a.add b.negate ∧ a.addRR b = a.add b ∧ a.addRV b = a.add b ∧ a.addVR b = a.add b ∧
    a.subRR b = a.sub b ∧ a.subRV b = a.sub b ∧ a.subVR b = a.sub b ∧ Affine.translate a b = a.add b :=
  ⟨rfl, rfl, rfl, rfl, rfl, rfl, rfl, rfl⟩
end G

section S
variable {F : Type} [FloatSpec F]

theorem beq_self {x : Angle F} (h : Fin x.rem) : x.beq x = true := by
  obtain ⟨hf, hv⟩ := fsub_spec h h (by rw [sub_self]; exact inRange_small (by rw [abs_zero]; positivity))
  obtain ⟨hfa, hva⟩ := fabs_spec hf
  have ht : flt (fabs (fsub x.rem x.rem)) (e15 : F) = true := by
    rw [flt_spec hfa fin_e15, hva, hv, sub_self, rnd_zero, abs_zero]; exact val_e15_pos
  unfold Angle.beq; simp [ht]

/-- (S) `a − a` has magnitude exactly `0.0` (the opposite-angle branch with cancelling magnitudes) -/
theorem sub_self_mag {a : Geonum F} (hm : Fin a.mag) (ha : a.angle.Inv) : (a.sub a).mag = zero := by
  have n := negate_spec ha
  have h1 : sameAngle a a.negate = false := by
    unfold sameAngle Angle.beq
    have : a.angle.blade ≠ a.negate.angle.blade := by
      show a.angle.blade ≠ a.angle.negate.blade; rw [n.1]; omega
    simp [this]
  have h2 : oppositeAngle a a.negate = true := by
    unfold oppositeAngle
    have : (a.angle.add (Angle.new one one)).beq a.negate.angle = true := beq_self n.2.1
    simp [this]
  obtain ⟨hf, hv⟩ := fsub_spec hm hm (by rw [sub_self]; exact inRange_small (by rw [abs_zero]; positivity))
  obtain ⟨hfa, hva⟩ := fabs_spec hf
  have h3 : flt (fabs (fsub a.mag a.negate.mag)) (e10 : F) = true := by
    show flt (fabs (fsub a.mag a.mag)) (e10 : F) = true
    rw [flt_spec hfa fin_e10, hva, hv, sub_self, rnd_zero, abs_zero]; exact val_e10_pos
  show (a.add a.negate).mag = zero
  rw [add_opposite_cancel a a.negate h1 h2 h3]

/-- (S) **never NaN, never negative**: for operands of the property domain (magnitudes finite in `[0, 1e100]`, canonical
    angles) every branch of `+` returns a finite non-negative magnitude.  The general branch relies on the clamp of the
    radicand at zero (fix 05011a7); without it the statement is false. -/
theorem add_mag_finite_nonneg {a b : Geonum F} (ha : a.MagDom) (hb : b.MagDom) (hai : a.angle.Inv) (hbi : b.angle.Inv) :
    Fin (a.add b).mag ∧ 0 ≤ val (a.add b).mag :=
  add_mag_ok ha hb (gradeAngle_sub_fin hai hbi)

/-- (S) the same for subtraction -/
theorem sub_mag_finite_nonneg {a b : Geonum F} (ha : a.MagDom) (hb : b.MagDom) (hai : a.angle.Inv) (hbi : b.angle.Inv) :
    Fin (a.sub b).mag ∧ 0 ≤ val (a.sub b).mag := by
  have n := negate_spec hbi
  exact add_mag_ok ha (b := b.negate) hb (gradeAngle_sub_fin hai (inv_of_spec hbi n.2))

/-- (S) a zero-magnitude operand with the same angle leaves the other's magnitude value and angle unchanged -/
theorem add_zero_same_angle {a : Geonum F} (hm : Fin a.mag) (ha : a.angle.Inv) :
    (a.add ⟨zero, a.angle⟩).angle = a.angle ∧ val (a.add ⟨zero, a.angle⟩).mag = val a.mag := by
  have h : sameAngle a ⟨zero, a.angle⟩ = true := beq_self ha.1
  rw [add_same a _ h]
  refine ⟨rfl, ?_⟩
  show val (fadd a.mag zero) = _
  rw [(fadd_spec hm (fin_zero (F := F)) (by rw [val_zero, add_zero]; exact inRange_val hm)).2, val_zero, add_zero, rnd_val hm]

end S

/-! ### E-tier: exact arithmetic — the sum IS the Cartesian sum -/
section E
open GeonumModel.Exact

/-- (E) **main refinement**: for canonical operands with non-negative magnitudes and a blade sum up to `2^40`, whichever of the
    code paths applies (identical angles, a half turn apart with or without cancellation, or the general law-of-cosines /
    `atan2` path with its re-encoding on top of the blade sum), the Cartesian point of `a + b` is the component-wise sum of the
    operands' points to within `1e-10·(1 + |a| + |b|)` -/
theorem add_is_cartesian_sum {a b : Geonum ℝ} (ha : a.angle.Inv) (hb : b.angle.Inv) (h0a : 0 ≤ a.mag) (h0b : 0 ≤ b.mag)
    (hcb : a.angle.blade + b.angle.blade ≤ 2 ^ 40) :
    ‖cart (a.add b) - (cart a + cart b)‖ ≤ 1 / 10 ^ 10 * (1 + a.mag + b.mag) :=
  add_refines ha hb h0a h0b hcb

/-- (E) negation is the point reflection -/
theorem cart_negate {b : Geonum ℝ} (hb : b.angle.Inv) : cart b.negate = -cart b := by
  show polar b.mag (T b.angle.negate) = -polar b.mag (T b.angle)
  rw [negate_total_real hb, polar_add_pi]

/-- (E) the difference is the Cartesian difference, same tolerance -/
theorem sub_is_cartesian_difference {a b : Geonum ℝ} (ha : a.angle.Inv) (hb : b.angle.Inv) (h0a : 0 ≤ a.mag) (h0b : 0 ≤ b.mag)
    (hcb : a.angle.blade + (b.angle.blade + 2) ≤ 2 ^ 40) :
    ‖cart (a.sub b) - (cart a - cart b)‖ ≤ 1 / 10 ^ 10 * (1 + a.mag + b.mag) := by
  have hn := negate_spec hb
  have hninv : b.negate.angle.Inv := inv_of_spec hb hn.2
  have h := add_refines ha hninv h0a (show 0 ≤ b.negate.mag from h0b) (by
    show a.angle.blade + b.angle.negate.blade ≤ 2 ^ 40
    rw [hn.1]; exact hcb)
  rw [cart_negate hb] at h
  have e : cart a - cart b = cart a + -cart b := by ring
  rw [e]; exact h

/-- (E) `a + b` and `b + a` denote the same point to within twice the tolerance -/
theorem add_comm_cartesian {a b : Geonum ℝ} (ha : a.angle.Inv) (hb : b.angle.Inv) (h0a : 0 ≤ a.mag) (h0b : 0 ≤ b.mag)
    (hcb : a.angle.blade + b.angle.blade ≤ 2 ^ 40) :
    ‖cart (a.add b) - cart (b.add a)‖ ≤ 2 * (1 / 10 ^ 10 * (1 + a.mag + b.mag)) := by
  have h1 := add_refines ha hb h0a h0b hcb
  have h2 := add_refines hb ha h0b h0a (by rw [Nat.add_comm]; exact hcb)
  have e : cart (a.add b) - cart (b.add a) = (cart (a.add b) - (cart a + cart b)) - (cart (b.add a) - (cart b + cart a)) := by ring
  rw [e]
  calc ‖(cart (a.add b) - (cart a + cart b)) - (cart (b.add a) - (cart b + cart a))‖
      ≤ ‖cart (a.add b) - (cart a + cart b)‖ + ‖cart (b.add a) - (cart b + cart a)‖ := norm_sub_le _ _
    _ ≤ 2 * (1 / 10 ^ 10 * (1 + a.mag + b.mag)) := by
        have : 1 + b.mag + a.mag = 1 + a.mag + b.mag := by ring
        rw [this] at h2; linarith

/-- (E) a zero-magnitude operand leaves the other's vector unchanged (within the tolerance), whatever its angle -/
theorem add_zero_operand {a z : Geonum ℝ} (ha : a.angle.Inv) (hz : z.angle.Inv) (h0a : 0 ≤ a.mag) (hzm : z.mag = 0)
    (hcb : a.angle.blade + z.angle.blade ≤ 2 ^ 40) :
    ‖cart (a.add z) - cart a‖ ≤ 1 / 10 ^ 10 * (1 + a.mag) := by
  have h := add_refines ha hz h0a (by rw [hzm]) hcb
  have hcz : cart z = 0 := by show polar z.mag _ = 0; rw [hzm, polar_zero]
  rw [hcz, add_zero, hzm, add_zero] at h
  exact h

/-- a running sum stays inside the domain: at every step the accumulator and the next term are canonical with non-negative
    magnitudes and a blade sum of at most `2^40` ("for as long as they stay inside these bounds") -/
def RunOK : Geonum ℝ → List (Geonum ℝ) → Prop
  | _, [] => True
  | acc, x :: xs => acc.angle.Inv ∧ x.angle.Inv ∧ 0 ≤ acc.mag ∧ 0 ≤ x.mag ∧ acc.angle.blade + x.angle.blade ≤ 2 ^ 40 ∧
      RunOK (acc.add x) xs

/-- the accumulated tolerance of a running sum: one addition tolerance per step, each scaled by the magnitudes at that step -/
noncomputable def runTol : Geonum ℝ → List (Geonum ℝ) → ℝ
  | _, [] => 0
  | acc, x :: xs => 1 / 10 ^ 10 * (1 + acc.mag + x.mag) + runTol (acc.add x) xs

/-- (E) **running sums**: folding `+` over any sequence reproduces the component-wise sum of all the Cartesian points to within the
    accumulated tolerance — by induction over the sequence, any length -/
theorem running_sum_cartesian (l : List (Geonum ℝ)) (acc : Geonum ℝ) (h : RunOK acc l) :
    ‖cart (l.foldl Geonum.add acc) - (cart acc + (l.map cart).sum)‖ ≤ runTol acc l := by
  induction l generalizing acc with
  | nil => simp [runTol]
  | cons x xs ih =>
    obtain ⟨ha, hx, h0a, h0x, hcb, hrest⟩ := h
    have h1 := add_refines ha hx h0a h0x hcb
    have h2 := ih (acc.add x) hrest
    simp only [List.foldl_cons, List.map_cons, List.sum_cons, runTol]
    have e : cart (xs.foldl Geonum.add (acc.add x)) - (cart acc + (cart x + (xs.map cart).sum))
        = (cart (xs.foldl Geonum.add (acc.add x)) - (cart (acc.add x) + (xs.map cart).sum))
          + (cart (acc.add x) - (cart acc + cart x)) := by ring
    rw [e]
    calc ‖(cart (xs.foldl Geonum.add (acc.add x)) - (cart (acc.add x) + (xs.map cart).sum))
          + (cart (acc.add x) - (cart acc + cart x))‖
        ≤ ‖cart (xs.foldl Geonum.add (acc.add x)) - (cart (acc.add x) + (xs.map cart).sum)‖
          + ‖cart (acc.add x) - (cart acc + cart x)‖ := norm_add_le _ _
      _ ≤ runTol (acc.add x) xs + 1 / 10 ^ 10 * (1 + acc.mag + x.mag) := add_le_add h2 h1
      _ = 1 / 10 ^ 10 * (1 + acc.mag + x.mag) + runTol (acc.add x) xs := by ring

end E

/-! PARTIAL (B-tier, stated in DESIGN §6): the float statement — the same refinement for binary64 with a rounding bound that
    loosens to about `sqrt(eps)·scale` only under near-total cancellation — is not proved (no binary64 error-analysis library);
    it is explored by `oracle.C06.sum` / `oracle.C06.running` against a Cartesian reference with exactly that tolerance. -/

example {F : Type} [FloatSpec F] : (⟨one, ⟨zero, 3⟩⟩ : Geonum F).MagDom :=
  ⟨fin_one, by rw [val_one]; norm_num, by rw [val_one]; exact one_le_pow₀ (by norm_num)⟩

end GeonumModel.C06
