/-
  C06 — Sum and difference equal the Cartesian vector sum and difference.
-/
import GeonumModel.Lemmas.GeonumMag
import GeonumModel.Lemmas.GradeAngle
import GeonumModel.Spec.RealWitness
import GeonumModel.Lemmas.ExactAdd
import GeonumModel.Lemmas.SumMagFloat
import GeonumModel.Lemmas.FloatSumDir
import GeonumModel.Lemmas.FloatSumCart
import GeonumModel.Lemmas.FloatMetric
import GeonumModel.Lemmas.FloatSumSpecial
import GeonumModel.Props.C01
import GeonumModel.Spec.RoundWitness

set_option linter.unusedSectionVars false
set_option linter.unusedVariables false

namespace GeonumModel.C06
open GeonumModel FloatLike FloatSpec Angle Geonum

section G
variable {F : Type} [FloatLike F]

/-- (G) subtraction is adding the half-turned operand; every by-value / by-reference form and the affine `translate`
    helper are the same function -/
theorem sub_and_spellings (a b : Geonum F) :
    a.sub b = a.add b.negate ∧ a.addRR b = a.add b ∧ a.addRV b = a.add b ∧ a.addVR b = a.add b ∧
    a.subRR b = a.sub b ∧ a.subRV b = a.sub b ∧ a.subVR b = a.sub b ∧ Affine.translate a b = a.add b :=
  ⟨rfl, rfl, rfl, rfl, rfl, rfl, rfl, rfl⟩
end G

section S
variable {F : Type} [FloatSpec F]

theorem beq_self {x : Angle F} (h : Fin x.rem) : x.beq x = true := by
  obtain ⟨hf, hv⟩ := fsub_spec h h (by rw [sub_self]; exact inRange_small (by rw [abs_zero]; positivity))
  obtain ⟨hfa, hva⟩ := fabs_spec hf
  have ht : flt (fabs (fsub x.rem x.rem)) (e15 : F) = true := by
    rw [flt_spec hfa fin_e15, hva, hv, sub_self, rnd_zero, abs_zero]; exact val_e15_pos
  unfold Angle.beq; simp [ht]

/-- (S) `a − a` has magnitude exactly `0.0` (the opposite-angle branch with cancelling magnitudes) -/
theorem sub_self_mag {a : Geonum F} (hm : Fin a.mag) (ha : a.angle.Inv) : (a.sub a).mag = zero := by
  have n := negate_spec ha
  have h1 : sameAngle a a.negate = false := by
    unfold sameAngle Angle.beq
    have : a.angle.blade ≠ a.negate.angle.blade := by
      show a.angle.blade ≠ a.angle.negate.blade; rw [n.1]; omega
    simp [this]
  have h2 : oppositeAngle a a.negate = true := by
    unfold oppositeAngle
    have : (a.angle.add (Angle.new one one)).beq a.negate.angle = true := beq_self n.2.1
    simp [this]
  obtain ⟨hf, hv⟩ := fsub_spec hm hm (by rw [sub_self]; exact inRange_small (by rw [abs_zero]; positivity))
  obtain ⟨hfa, hva⟩ := fabs_spec hf
  have h3 : flt (fabs (fsub a.mag a.negate.mag)) (e10 : F) = true := by
    show flt (fabs (fsub a.mag a.mag)) (e10 : F) = true
    rw [flt_spec hfa fin_e10, hva, hv, sub_self, rnd_zero, abs_zero]; exact val_e10_pos
  show (a.add a.negate).mag = zero
  rw [add_opposite_cancel a a.negate h1 h2 h3]

/-- (S) **never NaN, never negative**: for operands of the property domain (magnitudes finite in `[0, 1e100]`, canonical
    angles) every branch of `+` returns a finite non-negative magnitude.  The general branch relies on the clamp of the
    radicand at zero (fix 05011a7); without it the statement is false. -/
theorem add_mag_finite_nonneg {a b : Geonum F} (ha : a.MagDom) (hb : b.MagDom) (hai : a.angle.Inv) (hbi : b.angle.Inv) :
    Fin (a.add b).mag ∧ 0 ≤ val (a.add b).mag :=
  add_mag_ok ha hb (gradeAngle_sub_fin hai hbi)

/-- (S) the same for subtraction -/
theorem sub_mag_finite_nonneg {a b : Geonum F} (ha : a.MagDom) (hb : b.MagDom) (hai : a.angle.Inv) (hbi : b.angle.Inv) :
    Fin (a.sub b).mag ∧ 0 ≤ val (a.sub b).mag := by
  have n := negate_spec hbi
  exact add_mag_ok ha (b := b.negate) hb (gradeAngle_sub_fin hai (inv_of_spec hbi n.2))

/-- (S) a zero-magnitude operand with the same angle leaves the other's magnitude value and angle unchanged -/
theorem add_zero_same_angle {a : Geonum F} (hm : Fin a.mag) (ha : a.angle.Inv) :
    (a.add ⟨zero, a.angle⟩).angle = a.angle ∧ val (a.add ⟨zero, a.angle⟩).mag = val a.mag := by
  have h : sameAngle a ⟨zero, a.angle⟩ = true := beq_self ha.1
  rw [add_same a _ h]
  refine ⟨rfl, ?_⟩
  show val (fadd a.mag zero) = _
  rw [(fadd_spec hm (fin_zero (F := F)) (by rw [val_zero, add_zero]; exact inRange_val hm)).2, val_zero, add_zero, rnd_val hm]

end S

/-! ### E-tier: exact arithmetic — the sum IS the Cartesian sum -/
section E
open GeonumModel.Exact

/-- (E) **main refinement**: for canonical operands with non-negative magnitudes and a blade sum up to `2^40`, whichever of the
    code paths applies (identical angles, a half turn apart with or without cancellation, or the general law-of-cosines /
    `atan2` path with its re-encoding on top of the blade sum), the Cartesian point of `a + b` is the component-wise sum of the
    operands' points to within `1e-10·(1 + |a| + |b|)` -/
theorem add_is_cartesian_sum {a b : Geonum ℝ} (ha : a.angle.Inv) (hb : b.angle.Inv) (h0a : 0 ≤ a.mag) (h0b : 0 ≤ b.mag)
    (hcb : a.angle.blade + b.angle.blade ≤ 2 ^ 40) :
    ‖cart (a.add b) - (cart a + cart b)‖ ≤ 1 / 10 ^ 10 * (1 + a.mag + b.mag) :=
  add_refines ha hb h0a h0b hcb

/-- (E) negation is the point reflection -/
theorem cart_negate {b : Geonum ℝ} (hb : b.angle.Inv) : cart b.negate = -cart b := by
  show polar b.mag (T b.angle.negate) = -polar b.mag (T b.angle)
  rw [negate_total_real hb, polar_add_pi]

/-- (E) the difference is the Cartesian difference, same tolerance -/
theorem sub_is_cartesian_difference {a b : Geonum ℝ} (ha : a.angle.Inv) (hb : b.angle.Inv) (h0a : 0 ≤ a.mag) (h0b : 0 ≤ b.mag)
    (hcb : a.angle.blade + (b.angle.blade + 2) ≤ 2 ^ 40) :
    ‖cart (a.sub b) - (cart a - cart b)‖ ≤ 1 / 10 ^ 10 * (1 + a.mag + b.mag) := by
  have hn := negate_spec hb
  have hninv : b.negate.angle.Inv := inv_of_spec hb hn.2
  have h := add_refines ha hninv h0a (show 0 ≤ b.negate.mag from h0b) (by
    show a.angle.blade + b.angle.negate.blade ≤ 2 ^ 40
    rw [hn.1]; exact hcb)
  rw [cart_negate hb] at h
  have e : cart a - cart b = cart a + -cart b := by ring
  rw [e]; exact h

/-- (E) `a + b` and `b + a` denote the same point to within twice the tolerance -/
theorem add_comm_cartesian {a b : Geonum ℝ} (ha : a.angle.Inv) (hb : b.angle.Inv) (h0a : 0 ≤ a.mag) (h0b : 0 ≤ b.mag)
    (hcb : a.angle.blade + b.angle.blade ≤ 2 ^ 40) :
    ‖cart (a.add b) - cart (b.add a)‖ ≤ 2 * (1 / 10 ^ 10 * (1 + a.mag + b.mag)) := by
  have h1 := add_refines ha hb h0a h0b hcb
  have h2 := add_refines hb ha h0b h0a (by rw [Nat.add_comm]; exact hcb)
  have e : cart (a.add b) - cart (b.add a) = (cart (a.add b) - (cart a + cart b)) - (cart (b.add a) - (cart b + cart a)) := by ring
  rw [e]
  calc ‖(cart (a.add b) - (cart a + cart b)) - (cart (b.add a) - (cart b + cart a))‖
      ≤ ‖cart (a.add b) - (cart a + cart b)‖ + ‖cart (b.add a) - (cart b + cart a)‖ := norm_sub_le _ _
    _ ≤ 2 * (1 / 10 ^ 10 * (1 + a.mag + b.mag)) := by
        have : 1 + b.mag + a.mag = 1 + a.mag + b.mag := by ring
        rw [this] at h2; linarith

/-- (E) a zero-magnitude operand leaves the other's vector unchanged (within the tolerance), whatever its angle -/
theorem add_zero_operand {a z : Geonum ℝ} (ha : a.angle.Inv) (hz : z.angle.Inv) (h0a : 0 ≤ a.mag) (hzm : z.mag = 0)
    (hcb : a.angle.blade + z.angle.blade ≤ 2 ^ 40) :
    ‖cart (a.add z) - cart a‖ ≤ 1 / 10 ^ 10 * (1 + a.mag) := by
  have h := add_refines ha hz h0a (by rw [hzm]) hcb
  have hcz : cart z = 0 := by show polar z.mag _ = 0; rw [hzm, polar_zero]
  rw [hcz, add_zero, hzm, add_zero] at h
  exact h

/-- a running sum stays inside the domain: at every step the accumulator and the next term are canonical with non-negative
    magnitudes and a blade sum of at most `2^40` ("for as long as they stay inside these bounds") -/
def RunOK : Geonum ℝ → List (Geonum ℝ) → Prop
  | _, [] => True
  | acc, x :: xs => acc.angle.Inv ∧ x.angle.Inv ∧ 0 ≤ acc.mag ∧ 0 ≤ x.mag ∧ acc.angle.blade + x.angle.blade ≤ 2 ^ 40 ∧
      RunOK (acc.add x) xs

/-- the accumulated tolerance of a running sum: one addition tolerance per step, each scaled by the magnitudes at that step -/
noncomputable def runTol : Geonum ℝ → List (Geonum ℝ) → ℝ
  | _, [] => 0
  | acc, x :: xs => 1 / 10 ^ 10 * (1 + acc.mag + x.mag) + runTol (acc.add x) xs

/-- (E) **running sums**: folding `+` over any sequence reproduces the component-wise sum of all the Cartesian points to within the
    accumulated tolerance — by induction over the sequence, any length -/
theorem running_sum_cartesian (l : List (Geonum ℝ)) (acc : Geonum ℝ) (h : RunOK acc l) :
    ‖cart (l.foldl Geonum.add acc) - (cart acc + (l.map cart).sum)‖ ≤ runTol acc l := by
  induction l generalizing acc with
  | nil => simp [runTol]
  | cons x xs ih =>
    obtain ⟨ha, hx, h0a, h0x, hcb, hrest⟩ := h
    have h1 := add_refines ha hx h0a h0x hcb
    have h2 := ih (acc.add x) hrest
    simp only [List.foldl_cons, List.map_cons, List.sum_cons, runTol]
    have e : cart (xs.foldl Geonum.add (acc.add x)) - (cart acc + (cart x + (xs.map cart).sum))
        = (cart (xs.foldl Geonum.add (acc.add x)) - (cart (acc.add x) + (xs.map cart).sum))
          + (cart (acc.add x) - (cart acc + cart x)) := by ring
    rw [e]
    calc ‖(cart (xs.foldl Geonum.add (acc.add x)) - (cart (acc.add x) + (xs.map cart).sum))
          + (cart (acc.add x) - (cart acc + cart x))‖
        ≤ ‖cart (xs.foldl Geonum.add (acc.add x)) - (cart (acc.add x) + (xs.map cart).sum)‖
          + ‖cart (acc.add x) - (cart acc + cart x)‖ := norm_add_le _ _
      _ ≤ runTol (acc.add x) xs + 1 / 10 ^ 10 * (1 + acc.mag + x.mag) := add_le_add h2 h1
      _ = 1 / 10 ^ 10 * (1 + acc.mag + x.mag) + runTol (acc.add x) xs := by ring

end E

section B
variable {F : Type} [FloatSpec F]

/-- (B) **the magnitude of a general-branch sum in rounded arithmetic**: it is within `(|a|+|b|)·(2⁻²⁴ + 2⁻⁵⁰) + 1e-90` of the exact
    law-of-cosines magnitude `√(|a|² + |b|² + 2|a||b|c)` for the cosine value `c` the code obtained — i.e. a bound of the order of
    `√ε` times the operand scale, which is attained only under near-total cancellation (the radicand's absolute error is `≈ 10ε(|a|+|b|)²`
    and the square root turns an absolute error `η` near zero into `√η`).  Covers all seven roundings of the radicand, the clamp at
    zero of fix 05011a7 and the rounding of the square root. -/
theorem sum_mag_float {a b : Geonum F} (ha : a.MagDom) (hb : b.MagDom)
    (hg : Fin (fsub b.angle.gradeAngle a.angle.gradeAngle))
    (h1 : sameAngle a b = false) (h2 : oppositeAngle a b = false) :
    |val (a.add b).mag - Real.sqrt (val a.mag * val a.mag + val b.mag * val b.mag
        + 2 * val a.mag * val b.mag * val (FloatLike.cos (fsub b.angle.gradeAngle a.angle.gradeAngle)))|
      ≤ (val a.mag + val b.mag) * (1 / 2 ^ 24 + 1 / 2 ^ 50) + 1 / 10 ^ 90 :=
  Geonum.sum_mag_float ha hb hg h1 h2

/-- (B) **direction of the sum in rounded arithmetic, general branch**: for canonical operands with in-domain magnitudes and combined
    blade count `cb ≤ 2^39`, the float total of `a + b` is the libm `atan2` of the rounded component sums
    `(Σ |g|·sin, Σ |g|·cos)` plus a whole number of turns, to within `1e-10 + (40·cb + 140)·2⁻⁵³` — through the rounded blade
    shift `(cb·π)/2`, the subtraction, the constructor's `·π/π` in either order, its negative path (`ceil`, `+ 4n·qp`, clamp), the exact
    `fmod`, the snap and the final whole-blade addition.  Together with `sum_mag_float` (magnitude) this is the Cartesian-sum clause
    in rounded arithmetic up to the accuracy of the two component sums themselves. -/
theorem sum_direction_float {a b : Geonum F} (ha : a.angle.Inv) (hb : b.angle.Inv) (hma : a.MagDom) (hmb : b.MagDom)
    (hcb : a.angle.blade + b.angle.blade ≤ 2 ^ 39) (h1 : sameAngle a b = false) (h2 : oppositeAngle a b = false) :
    ∃ n : ℕ, |Angle.Tq (a.add b).angle - (val (FloatLike.atan2 (oppSum a b) (adjSum a b)) + (n : ℝ) * (4 * val (qp : F)))|
      < val (e10 : F) + (40 * ((a.angle.blade + b.angle.blade : ℕ) : ℝ) + 140) * (1 / 2 ^ 53) + 1 / 10 ^ 298 :=
  Geonum.add_general_direction_float ha hb hma hmb hcb h1 h2

/-- (B) **the Cartesian-sum clause in rounded arithmetic, general branch**: the Cartesian components of `a + b` (angles in true
    radians) are the component-wise sums of the operands' Cartesian components to within
    `(|a|+|b|)·(2e-7 + 1.1·(1e-10 + (40·cb + 170)·2⁻⁵³)) + 1e-28` — the `√ε`-of-scale magnitude term (attained only under
    near-total cancellation) plus the direction error (boundary snap + blade re-encoding) times the length.  Assembled from the rounded
    component sums, the law-of-cosines magnitude, the libm `atan2` (incl. the negative real axis, where the sign of a zero decides `±π`)
    and the constructor's re-encoding (both signs of the adjusted angle). -/
theorem sum_cartesian_float {a b : Geonum F} (ha : a.angle.Inv) (hb : b.angle.Inv) (hma : a.MagDom) (hmb : b.MagDom)
    (hcb : a.angle.blade + b.angle.blade ≤ 2 ^ 39) (h1 : sameAngle a b = false) (h2 : oppositeAngle a b = false) :
    |val (a.add b).mag * Real.cos (Angle.Tpi (a.add b).angle)
        - (val a.mag * Real.cos (Angle.Tpi a.angle) + val b.mag * Real.cos (Angle.Tpi b.angle))|
      ≤ (val a.mag + val b.mag) * (2 / 10 ^ 7 + 11 / 10 * (val (e10 : F)
          + (40 * ((a.angle.blade + b.angle.blade : ℕ) : ℝ) + 170) * (1 / 2 ^ 53))) + 1 / 10 ^ 28 ∧
    |val (a.add b).mag * Real.sin (Angle.Tpi (a.add b).angle)
        - (val a.mag * Real.sin (Angle.Tpi a.angle) + val b.mag * Real.sin (Angle.Tpi b.angle))|
      ≤ (val a.mag + val b.mag) * (2 / 10 ^ 7 + 11 / 10 * (val (e10 : F)
          + (40 * ((a.angle.blade + b.angle.blade : ℕ) : ℝ) + 170) * (1 / 2 ^ 53))) + 1 / 10 ^ 28 :=
  Geonum.sum_cartesian_float ha hb hma hmb hcb h1 h2

/-- (B) **identical angles, rounded arithmetic**: the Cartesian components of `a + b` are the component-wise sums within
    `(|a|+|b|)·(2⁻⁵³ + 1e-15) + 2⁻¹⁰⁷⁵` — one rounding of `|a| + |b|`, and the equality test's own tolerance on the remainders -/
theorem sum_cartesian_same_float {a b : Geonum F} (ha : a.angle.Inv) (hb : b.angle.Inv) (hma : a.MagDom) (hmb : b.MagDom)
    (h : sameAngle a b = true) :
    |val (a.add b).mag * Real.cos (Angle.Tpi (a.add b).angle)
        - (val a.mag * Real.cos (Angle.Tpi a.angle) + val b.mag * Real.cos (Angle.Tpi b.angle))|
      ≤ (val a.mag + val b.mag) * (1 / 2 ^ 53 + val (e15 : F)) + 1 / 2 ^ 1075 ∧
    |val (a.add b).mag * Real.sin (Angle.Tpi (a.add b).angle)
        - (val a.mag * Real.sin (Angle.Tpi a.angle) + val b.mag * Real.sin (Angle.Tpi b.angle))|
      ≤ (val a.mag + val b.mag) * (1 / 2 ^ 53 + val (e15 : F)) + 1 / 2 ^ 1075 :=
  Geonum.sum_cartesian_same_float ha hb hma hmb h

/-- (B) **a half turn apart, rounded arithmetic**: in all three sub-cases (cancellation below `1e-10`, first operand larger, second
    operand larger) the Cartesian components of `a + b` are the component-wise sums within `(|a|+|b|)·(2⁻⁵³ + 1e-15) + 2·1e-10`
    (a difference below the cancellation threshold is replaced by zero: that is the absolute term) -/
theorem sum_cartesian_opposite_float {a b : Geonum F} (ha : a.angle.Inv) (hb : b.angle.Inv) (hma : a.MagDom) (hmb : b.MagDom)
    (h1 : sameAngle a b = false) (h2 : oppositeAngle a b = true) :
    |val (a.add b).mag * Real.cos (Angle.Tpi (a.add b).angle)
        - (val a.mag * Real.cos (Angle.Tpi a.angle) + val b.mag * Real.cos (Angle.Tpi b.angle))|
      ≤ (val a.mag + val b.mag) * (1 / 2 ^ 53 + val (e15 : F)) + 2 * val (e10 : F) ∧
    |val (a.add b).mag * Real.sin (Angle.Tpi (a.add b).angle)
        - (val a.mag * Real.sin (Angle.Tpi a.angle) + val b.mag * Real.sin (Angle.Tpi b.angle))|
      ≤ (val a.mag + val b.mag) * (1 / 2 ^ 53 + val (e15 : F)) + 2 * val (e10 : F) :=
  Geonum.sum_cartesian_opposite_float ha hb hma hmb h1 h2

/-- (B) **addition is the Cartesian sum in rounded arithmetic, in EVERY branch**: for all canonical operands with magnitudes in the C01
    domain and combined blade count `cb ≤ 2^39`, whichever of the three branches `+` takes, both Cartesian components of the result are
    the component-wise sums within the general-branch bound plus the cancellation threshold `2·1e-10` -/
theorem sum_cartesian_every_branch_float {a b : Geonum F} (ha : a.angle.Inv) (hb : b.angle.Inv) (hma : a.MagDom) (hmb : b.MagDom)
    (hcb : a.angle.blade + b.angle.blade ≤ 2 ^ 39) :
    |val (a.add b).mag * Real.cos (Angle.Tpi (a.add b).angle)
        - (val a.mag * Real.cos (Angle.Tpi a.angle) + val b.mag * Real.cos (Angle.Tpi b.angle))|
      ≤ (val a.mag + val b.mag) * (2 / 10 ^ 7 + 11 / 10 * (val (e10 : F)
          + (40 * ((a.angle.blade + b.angle.blade : ℕ) : ℝ) + 170) * (1 / 2 ^ 53))) + 1 / 10 ^ 28 + 2 * val (e10 : F) ∧
    |val (a.add b).mag * Real.sin (Angle.Tpi (a.add b).angle)
        - (val a.mag * Real.sin (Angle.Tpi a.angle) + val b.mag * Real.sin (Angle.Tpi b.angle))|
      ≤ (val a.mag + val b.mag) * (2 / 10 ^ 7 + 11 / 10 * (val (e10 : F)
          + (40 * ((a.angle.blade + b.angle.blade : ℕ) : ℝ) + 170) * (1 / 2 ^ 53))) + 1 / 10 ^ 28 + 2 * val (e10 : F) :=
  Geonum.sum_cartesian_every_branch_float ha hb hma hmb hcb

/-- (B) **`a + b` and `b + a` are the same point in rounded arithmetic, in every branch**: their Cartesian components differ by at most
    twice the every-branch bound (in the general branch the two results are even bit-identical: `C14.general_branch_angle_symmetric`) -/
theorem sum_comm_cartesian_float {a b : Geonum F} (ha : a.angle.Inv) (hb : b.angle.Inv) (hma : a.MagDom) (hmb : b.MagDom)
    (hcb : a.angle.blade + b.angle.blade ≤ 2 ^ 39) :
    |val (a.add b).mag * Real.cos (Angle.Tpi (a.add b).angle) - val (b.add a).mag * Real.cos (Angle.Tpi (b.add a).angle)|
      ≤ 2 * ((val a.mag + val b.mag) * (2 / 10 ^ 7 + 11 / 10 * (val (e10 : F)
          + (40 * ((a.angle.blade + b.angle.blade : ℕ) : ℝ) + 170) * (1 / 2 ^ 53))) + 1 / 10 ^ 28 + 2 * val (e10 : F)) ∧
    |val (a.add b).mag * Real.sin (Angle.Tpi (a.add b).angle) - val (b.add a).mag * Real.sin (Angle.Tpi (b.add a).angle)|
      ≤ 2 * ((val a.mag + val b.mag) * (2 / 10 ^ 7 + 11 / 10 * (val (e10 : F)
          + (40 * ((a.angle.blade + b.angle.blade : ℕ) : ℝ) + 170) * (1 / 2 ^ 53))) + 1 / 10 ^ 28 + 2 * val (e10 : F)) := by
  obtain ⟨p1, p2⟩ := sum_cartesian_every_branch_float ha hb hma hmb hcb
  obtain ⟨q1, q2⟩ := sum_cartesian_every_branch_float hb ha hmb hma (by omega)
  have e1 : b.angle.blade + a.angle.blade = a.angle.blade + b.angle.blade := by omega
  rw [e1, add_comm (val b.mag) (val a.mag)] at q1 q2
  rw [abs_le] at p1 p2 q1 q2 ⊢
  rw [abs_le]
  constructor <;> constructor <;> linarith [p1.1, p1.2, p2.1, p2.2, q1.1, q1.2, q2.1, q2.2]

/-- (B) **a zero-magnitude operand leaves the other's vector in place, in rounded arithmetic**, whatever its angle and whichever branch
    `+` takes: the components of `a + z` are those of `a` within the every-branch bound -/
theorem sum_zero_operand_float {a z : Geonum F} (ha : a.angle.Inv) (hz : z.angle.Inv) (hma : a.MagDom) (hmz : z.MagDom)
    (hz0 : val z.mag = 0) (hcb : a.angle.blade + z.angle.blade ≤ 2 ^ 39) :
    |val (a.add z).mag * Real.cos (Angle.Tpi (a.add z).angle) - val a.mag * Real.cos (Angle.Tpi a.angle)|
      ≤ val a.mag * (2 / 10 ^ 7 + 11 / 10 * (val (e10 : F)
          + (40 * ((a.angle.blade + z.angle.blade : ℕ) : ℝ) + 170) * (1 / 2 ^ 53))) + 1 / 10 ^ 28 + 2 * val (e10 : F) ∧
    |val (a.add z).mag * Real.sin (Angle.Tpi (a.add z).angle) - val a.mag * Real.sin (Angle.Tpi a.angle)|
      ≤ val a.mag * (2 / 10 ^ 7 + 11 / 10 * (val (e10 : F)
          + (40 * ((a.angle.blade + z.angle.blade : ℕ) : ℝ) + 170) * (1 / 2 ^ 53))) + 1 / 10 ^ 28 + 2 * val (e10 : F) := by
  obtain ⟨p1, p2⟩ := sum_cartesian_every_branch_float ha hz hma hmz hcb
  rw [hz0, zero_mul, add_zero, add_zero] at p1 p2
  exact ⟨p1, p2⟩

/-- (B) **subtraction is the Cartesian difference in rounded arithmetic, in EVERY branch** of `a + (−b)` -/
theorem diff_cartesian_every_branch_float {a b : Geonum F} (ha : a.angle.Inv) (hb : b.angle.Inv) (hma : a.MagDom) (hmb : b.MagDom)
    (hcb : a.angle.blade + b.angle.blade + 2 ≤ 2 ^ 39) :
    |val (a.sub b).mag * Real.cos (Angle.Tpi (a.sub b).angle) + val b.mag * Real.cos (Angle.Tpi b.angle) - val a.mag * Real.cos (Angle.Tpi a.angle)|
      ≤ (val a.mag + val b.mag) * (2 / 10 ^ 7 + 11 / 10 * (val (e10 : F)
          + (40 * ((a.angle.blade + b.angle.blade + 2 : ℕ) : ℝ) + 170) * (1 / 2 ^ 53))) + 1 / 10 ^ 28 + 2 * val (e10 : F) ∧
    |val (a.sub b).mag * Real.sin (Angle.Tpi (a.sub b).angle) + val b.mag * Real.sin (Angle.Tpi b.angle) - val a.mag * Real.sin (Angle.Tpi a.angle)|
      ≤ (val a.mag + val b.mag) * (2 / 10 ^ 7 + 11 / 10 * (val (e10 : F)
          + (40 * ((a.angle.blade + b.angle.blade + 2 : ℕ) : ℝ) + 170) * (1 / 2 ^ 53))) + 1 / 10 ^ 28 + 2 * val (e10 : F) :=
  Geonum.sub_cartesian_every_branch_float ha hb hma hmb hcb

/-- the hypotheses of a running float sum: every operand canonical and in the magnitude domain, every partial sum in the magnitude
    domain, combined blade counts at most `2^39` ("for as long as they stay inside these bounds") -/
def RunOKF : Geonum F → List (Geonum F) → Prop
  | _, [] => True
  | acc, x :: xs => acc.MagDom ∧ x.angle.Inv ∧ x.MagDom ∧ acc.angle.blade + x.angle.blade ≤ 2 ^ 39 ∧ RunOKF (acc.add x) xs

/-- the every-branch bound of one addition -/
noncomputable def stepTolF (a b : Geonum F) : ℝ :=
  (val a.mag + val b.mag) * (2 / 10 ^ 7 + 11 / 10 * (val (e10 : F)
    + (40 * ((a.angle.blade + b.angle.blade : ℕ) : ℝ) + 170) * (1 / 2 ^ 53))) + 1 / 10 ^ 28 + 2 * val (e10 : F)

/-- the accumulated tolerance of a running float sum: one `stepTolF` per step, at the magnitudes and blade counts of that step -/
noncomputable def runTolF : Geonum F → List (Geonum F) → ℝ
  | _, [] => 0
  | acc, x :: xs => stepTolF acc x + runTolF (acc.add x) xs

/-- (B) **running sums in rounded arithmetic**: folding `+` over any sequence, of any length, reproduces the component-wise sum of all the
    Cartesian components to within the accumulated per-step bounds — by induction over the sequence, every partial sum canonical on the way
    (whichever branch each step takes) -/
theorem running_sum_float (l : List (Geonum F)) (acc : Geonum F) (hacc : acc.angle.Inv) (h : RunOKF acc l) :
    (l.foldl Geonum.add acc).angle.Inv ∧
    |val (l.foldl Geonum.add acc).mag * Real.cos (Angle.Tpi (l.foldl Geonum.add acc).angle)
        - (val acc.mag * Real.cos (Angle.Tpi acc.angle) + (l.map (fun g => val g.mag * Real.cos (Angle.Tpi g.angle))).sum)|
      ≤ runTolF acc l ∧
    |val (l.foldl Geonum.add acc).mag * Real.sin (Angle.Tpi (l.foldl Geonum.add acc).angle)
        - (val acc.mag * Real.sin (Angle.Tpi acc.angle) + (l.map (fun g => val g.mag * Real.sin (Angle.Tpi g.angle))).sum)|
      ≤ runTolF acc l := by
  induction l generalizing acc with
  | nil => simp [runTolF, hacc]
  | cons x xs ih =>
    obtain ⟨hma, hx, hmx, hcb, hrest⟩ := h
    have hinv := C01.add_angle_inv hacc hx hma hmx hcb
    obtain ⟨s1, s2⟩ := sum_cartesian_every_branch_float hacc hx hma hmx hcb
    obtain ⟨i1, i2, i3⟩ := ih (acc.add x) hinv hrest
    simp only [List.foldl_cons, List.map_cons, List.sum_cons, runTolF]
    refine ⟨i1, ?_, ?_⟩
    · rw [abs_le] at s1 i2 ⊢
      unfold stepTolF
      constructor <;> linarith [s1.1, s1.2, i2.1, i2.2]
    · rw [abs_le] at s2 i3 ⊢
      unfold stepTolF
      constructor <;> linarith [s2.1, s2.2, i3.1, i3.2]

/-- (B) **subtraction is the Cartesian difference in rounded arithmetic** (general branch of `a + (−b)`): the Cartesian components of
    `a − b` plus those of `b` are those of `a`, within the `sum_cartesian_float` bound at blade count `ba + bb + 2` (the half turn of
    `negate` is exact) -/
theorem diff_cartesian_float {a b : Geonum F} (ha : a.angle.Inv) (hb : b.angle.Inv) (hma : a.MagDom) (hmb : b.MagDom)
    (hcb : a.angle.blade + b.angle.blade + 2 ≤ 2 ^ 39)
    (h1 : sameAngle a b.negate = false) (h2 : oppositeAngle a b.negate = false) :
    |val (a.sub b).mag * Real.cos (Angle.Tpi (a.sub b).angle) + val b.mag * Real.cos (Angle.Tpi b.angle) - val a.mag * Real.cos (Angle.Tpi a.angle)|
      ≤ (val a.mag + val b.mag) * (2 / 10 ^ 7 + 11 / 10 * (val (e10 : F)
          + (40 * ((a.angle.blade + b.angle.blade + 2 : ℕ) : ℝ) + 170) * (1 / 2 ^ 53))) + 1 / 10 ^ 28 ∧
    |val (a.sub b).mag * Real.sin (Angle.Tpi (a.sub b).angle) + val b.mag * Real.sin (Angle.Tpi b.angle) - val a.mag * Real.sin (Angle.Tpi a.angle)|
      ≤ (val a.mag + val b.mag) * (2 / 10 ^ 7 + 11 / 10 * (val (e10 : F)
          + (40 * ((a.angle.blade + b.angle.blade + 2 : ℕ) : ℝ) + 170) * (1 / 2 ^ 53))) + 1 / 10 ^ 28 :=
  Geonum.sub_cartesian_float ha hb hma hmb hcb h1 h2

end B

/-! PARTIAL (B-tier): the magnitude half of the float statement is `sum_mag_float` above (the `sqrt(eps)·scale` bound).  The direction
    half (`atan2` of the rounded component sums, re-encoded through `Angle::new`) is not proved in rounded arithmetic; it is explored
    by `oracle.C06.sum` / `oracle.C06.running` against a Cartesian reference with exactly that tolerance. -/

example {F : Type} [FloatSpec F] : (⟨one, ⟨zero, 3⟩⟩ : Geonum F).MagDom :=
  ⟨fin_one, by rw [val_one]; norm_num, by rw [val_one]; exact one_le_pow₀ (by norm_num)⟩

/-- non-vacuity of `sum_mag_float`: two unit numbers a quarter turn apart take the general branch -/
example {F : Type} [FloatSpec F] : sameAngle (⟨one, ⟨zero, 0⟩⟩ : Geonum F) ⟨one, ⟨zero, 1⟩⟩ = false ∧
    oppositeAngle (⟨one, ⟨zero, 0⟩⟩ : Geonum F) ⟨one, ⟨zero, 1⟩⟩ = false := by
  have h1 := (add_whole (a := (⟨zero, 0⟩ : Angle F)) (inv_zero 0) (new_one_one (F := F)).2.1
    (by rw [(new_one_one (F := F)).2.2.2, val_zero])).1
  have h2 := (add_whole (a := (⟨zero, 1⟩ : Angle F)) (inv_zero 1) (new_one_one (F := F)).2.1
    (by rw [(new_one_one (F := F)).2.2.2, val_zero])).1
  rw [(new_one_one (F := F)).1] at h1 h2
  constructor
  · simp [sameAngle, Angle.beq]
  · simp [oppositeAngle, Angle.beq, Angle.add, Angle.addVV, h1, h2]


/-! ### R — on the arithmetic that really rounds (`R64`) -/
section R

/-- (R) addition is the Cartesian sum (general branch) for all pairs of binary64 numbers in the domain -/
theorem sum_cartesian_rounded {a b : Geonum R64} (ha : a.angle.Inv) (hb : b.angle.Inv) (hma : a.MagDom) (hmb : b.MagDom)
    (hcb : a.angle.blade + b.angle.blade ≤ 2 ^ 39) (h1 : sameAngle a b = false) (h2 : oppositeAngle a b = false) :
    |(a.add b).mag.v * Real.cos (Angle.Tpi (a.add b).angle)
        - (a.mag.v * Real.cos (Angle.Tpi a.angle) + b.mag.v * Real.cos (Angle.Tpi b.angle))|
      ≤ (a.mag.v + b.mag.v) * (2 / 10 ^ 7 + 11 / 10 * ((e10 : R64).v
          + (40 * ((a.angle.blade + b.angle.blade : ℕ) : ℝ) + 170) * (1 / 2 ^ 53))) + 1 / 10 ^ 28 ∧
    |(a.add b).mag.v * Real.sin (Angle.Tpi (a.add b).angle)
        - (a.mag.v * Real.sin (Angle.Tpi a.angle) + b.mag.v * Real.sin (Angle.Tpi b.angle))|
      ≤ (a.mag.v + b.mag.v) * (2 / 10 ^ 7 + 11 / 10 * ((e10 : R64).v
          + (40 * ((a.angle.blade + b.angle.blade : ℕ) : ℝ) + 170) * (1 / 2 ^ 53))) + 1 / 10 ^ 28 :=
  sum_cartesian_float (F := R64) ha hb hma hmb hcb h1 h2

/-- (R) addition is the Cartesian sum in EVERY branch, for all pairs of binary64 numbers in the domain -/
theorem sum_cartesian_every_branch_rounded {a b : Geonum R64} (ha : a.angle.Inv) (hb : b.angle.Inv) (hma : a.MagDom) (hmb : b.MagDom)
    (hcb : a.angle.blade + b.angle.blade ≤ 2 ^ 39) :
    |(a.add b).mag.v * Real.cos (Angle.Tpi (a.add b).angle)
        - (a.mag.v * Real.cos (Angle.Tpi a.angle) + b.mag.v * Real.cos (Angle.Tpi b.angle))|
      ≤ (a.mag.v + b.mag.v) * (2 / 10 ^ 7 + 11 / 10 * ((e10 : R64).v
          + (40 * ((a.angle.blade + b.angle.blade : ℕ) : ℝ) + 170) * (1 / 2 ^ 53))) + 1 / 10 ^ 28 + 2 * (e10 : R64).v ∧
    |(a.add b).mag.v * Real.sin (Angle.Tpi (a.add b).angle)
        - (a.mag.v * Real.sin (Angle.Tpi a.angle) + b.mag.v * Real.sin (Angle.Tpi b.angle))|
      ≤ (a.mag.v + b.mag.v) * (2 / 10 ^ 7 + 11 / 10 * ((e10 : R64).v
          + (40 * ((a.angle.blade + b.angle.blade : ℕ) : ℝ) + 170) * (1 / 2 ^ 53))) + 1 / 10 ^ 28 + 2 * (e10 : R64).v :=
  sum_cartesian_every_branch_float (F := R64) ha hb hma hmb hcb

end R

end GeonumModel.C06
