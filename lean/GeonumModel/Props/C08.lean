/-
  C08 — Dimension-freedom: measurements depend on blade counts only modulo 4.

  Almost everything here is G-tier: it holds for EVERY arithmetic, so on the machine the shifted and unshifted
  measurements are the same bits, for every shift `n` whatsoever (no bound).
-/
import GeonumModel.Lemmas.Shift
import GeonumModel.Lemmas.AngleStep
import GeonumModel.Lemmas.ExactAdd
import GeonumModel.Lemmas.FloatMetric
import GeonumModel.Spec.RoundWitness
import GeonumModel.Props.C06

set_option linter.unusedSectionVars false
set_option linter.unusedVariables false

namespace GeonumModel.C08
open GeonumModel FloatLike Angle

section G
variable {F : Type} [FloatLike F]

/-- (G) the angle difference: remainder and grade are untouched by adding `4n`, `4m` quarter turns to the operands -/
theorem sub_shift (a b : Angle F) (n m : Nat) :
    ((a.shift4 n).geometricSub (b.shift4 m)).rem = (a.geometricSub b).rem ∧
    ((a.shift4 n).geometricSub (b.shift4 m)).grade = (a.geometricSub b).grade ∧
    ((a.shift4 n).sub (b.shift4 m)).gradeAngle = (a.sub b).gradeAngle :=
  ⟨(geometricSub_shift4 a b n m).1, (geometricSub_shift4 a b n m).2, sub_gradeAngle_shift4 a b n m⟩

/-- (G) dot product: identical structure (magnitude bits, sign-carrying angle) under any whole-turn shifts -/
theorem dot_shift (a b : Geonum F) (n m : Nat) : (a.shift4 n).dot (b.shift4 m) = a.dot b := by
  unfold Geonum.dot Geonum.shift4
  simp only [sub_gradeAngle_shift4]

/-- (G) orthogonality test unchanged -/
theorem isOrthogonal_shift (a b : Geonum F) (n m : Nat) :
    (a.shift4 n).isOrthogonal (b.shift4 m) = a.isOrthogonal b := by
  unfold Geonum.isOrthogonal; rw [dot_shift]

/-- (G) distance unchanged (same structure) -/
theorem distanceTo_shift (a b : Geonum F) (n m : Nat) : (a.shift4 n).distanceTo (b.shift4 m) = a.distanceTo b := by
  unfold Geonum.distanceTo Geonum.shift4
  simp only [sub_gradeAngle_shift4]

/-- (G) angle-onto-angle projection unchanged -/
theorem angle_project_shift (a onto : Angle F) (n m : Nat) : (a.shift4 n).project (onto.shift4 m) = a.project onto :=
  project_shift4 a onto n m

/-- (G) the trigonometric gateways see only the grade angle -/
theorem cos_sin_shift (a : Angle F) (n : Nat) :
    Geonum.cos (a.shift4 n) = Geonum.cos a ∧ Geonum.sin (a.shift4 n) = Geonum.sin a := by
  unfold Geonum.cos Geonum.sin; simp only [gradeAngle_shift4, and_self]

/-- (G) wedge: same magnitude; the result angle shifts by exactly the operands' shifts, grade and remainder preserved -/
theorem wedge_shift (a b : Geonum F) (n m : Nat) :
    (a.shift4 n).wedge (b.shift4 m) = (a.wedge b).shift4 (n + m) := by
  unfold Geonum.wedge Geonum.shift4
  simp only [sub_gradeAngle_shift4, Angle.add, addVV]
  have h1 : (a.angle.shift4 n).geometricAdd (b.angle.shift4 m) = (a.angle.geometricAdd b.angle).shift (4 * n + 4 * m) :=
    geometricAdd_shift a.angle b.angle (4 * n) (4 * m)
  have h2 : ∀ (x y : Angle F) (k : Nat), (x.shift k).geometricAdd y = (x.geometricAdd y).shift k := by
    intro x y k
    have := geometricAdd_shift x y k 0
    rwa [shift_zero, Nat.add_zero] at this
  rw [h1, h2]
  split
  · rw [h2]; simp [shift, shift4]; omega
  · simp [shift, shift4]; omega

/-- (G) projection onto a number: same magnitude, result angle shifts with the target only -/
theorem project_shift (a b : Geonum F) (n m : Nat) (hb : flt (fabs b.mag) e10 = false) :
    (a.shift4 n).project (b.shift4 m) = (a.project b).shift4 m := by
  have h2 : ∀ (x y : Angle F) (k : Nat), (x.shift k).geometricAdd y = (x.geometricAdd y).shift k := by
    intro x y k
    have := geometricAdd_shift x y k 0
    rwa [shift_zero, Nat.add_zero] at this
  unfold Geonum.project Geonum.shift4
  simp only [hb, Bool.false_eq_true, if_false, project_shift4, Geonum.newWithAngle]
  split
  · rfl
  · simp only [Angle.add, addVV, shift4_eq_shift, h2]

/-- (G) cone membership unchanged, hence cone selection selects the same positions -/
theorem inCone_shift (dir g : Geonum F) (h : F) (n m : Nat) :
    GeoCollection.inCone (dir.shift4 m) h (g.shift4 n) = GeoCollection.inCone dir h g := by
  unfold GeoCollection.inCone
  have : (g.shift4 n).dot (dir.shift4 m) = g.dot dir := dot_shift g dir n m
  simp only [this]
  rfl

/-- (G) the sum: both special-case tests are blade-exact, so a common shift of BOTH operands by the same amount keeps the
    branch; (the general statement for independent shifts is explored by the oracle, see DESIGN) -/
theorem dual_shift (g : Geonum F) (n : Nat) : (g.shift4 n).dual = g.dual.shift4 n := by
  unfold Geonum.dual Geonum.shift4 Geonum.newWithAngle Angle.dual
  simp only [Angle.add, addVV]
  have := geometricAdd_shift g.angle (newWithBlade 2 (zero : F) one) (4 * n) 0
  rw [shift_zero, Nat.add_zero] at this
  simp only [shift4_eq_shift, this]

/-- (G) meet: same magnitude, angle shifted by the operands' shifts -/
theorem meet_shift (a b : Geonum F) (n m : Nat) :
    (a.shift4 n).meet (b.shift4 m) = (a.meet b).shift4 (n + m) := by
  unfold Geonum.meet
  rw [dual_shift, dual_shift, wedge_shift, dual_shift]

end G

section S
variable {F : Type} [FloatSpec F]
open FloatSpec

/-- (S) projection onto the k-th dimension equals projection onto the (k+4n)-th — same value of `F` -/
theorem projectToDimension_shift (g : Geonum F) (k n : Nat) (hk : k + 4 * n < 2 ^ 53) :
    g.projectToDimension (k + 4 * n) = g.projectToDimension k := by
  unfold Geonum.projectToDimension
  rw [newWithBlade_zero (k + 4 * n) hk, newWithBlade_zero k (by omega)]
  have : (⟨zero, k + 4 * n⟩ : Angle F) = (⟨zero, k⟩ : Angle F).shift4 n := rfl
  rw [this]
  have h := project_shift4 g.angle (⟨zero, k⟩ : Angle F) 0 n
  have e : g.angle.shift4 0 = g.angle := by simp [shift4]
  rw [e] at h; rw [h]

end S

/-! ### E-tier: the Cartesian value of sums under whole-turn shifts -/
section E
open GeonumModel.Exact FloatSpec

theorem cart_shift4 (g : Geonum ℝ) (n : ℕ) : cart (g.shift4 n) = cart g := by
  show polar g.mag (T (g.angle.shift4 n)) = polar g.mag (T g.angle)
  have : T (g.angle.shift4 n) = T g.angle + ((n : ℤ) : ℝ) * (2 * Real.pi) := by
    unfold T Angle.shift4; push_cast; ring
  rw [this, polar_add_turns]

/-- (E) adding whole turns to either or both summands changes the Cartesian value of the sum by at most twice the addition
    tolerance (in exact arithmetic; the float code re-encodes through `blade_sum·π/2`, whose ulp grows with the shift — that
    tolerance is what `oracle.C08.shift` uses) -/
theorem sum_shift_cartesian {a b : Geonum ℝ} (n m : ℕ) (ha : a.angle.Inv) (hb : b.angle.Inv) (h0a : 0 ≤ a.mag) (h0b : 0 ≤ b.mag)
    (hcb : (a.angle.blade + 4 * n) + (b.angle.blade + 4 * m) ≤ 2 ^ 40) :
    ‖cart ((a.shift4 n).add (b.shift4 m)) - cart (a.add b)‖ ≤ 2 * (1 / 10 ^ 10 * (1 + a.mag + b.mag)) := by
  have ha' : (a.shift4 n).angle.Inv := ha
  have hb' : (b.shift4 m).angle.Inv := hb
  have h1 := add_refines ha' hb' (show 0 ≤ (a.shift4 n).mag from h0a) (show 0 ≤ (b.shift4 m).mag from h0b) hcb
  have h2 := add_refines ha hb h0a h0b (by omega)
  rw [cart_shift4, cart_shift4] at h1
  have hm1 : (a.shift4 n).mag = a.mag := rfl
  have hm2 : (b.shift4 m).mag = b.mag := rfl
  rw [hm1, hm2] at h1
  have e : cart ((a.shift4 n).add (b.shift4 m)) - cart (a.add b)
      = (cart ((a.shift4 n).add (b.shift4 m)) - (cart a + cart b)) - (cart (a.add b) - (cart a + cart b)) := by ring
  rw [e]
  calc ‖(cart ((a.shift4 n).add (b.shift4 m)) - (cart a + cart b)) - (cart (a.add b) - (cart a + cart b))‖
      ≤ ‖cart ((a.shift4 n).add (b.shift4 m)) - (cart a + cart b)‖ + ‖cart (a.add b) - (cart a + cart b)‖ := norm_sub_le _ _
    _ ≤ 2 * (1 / 10 ^ 10 * (1 + a.mag + b.mag)) := by linarith

end E

example : (⟨(1 : Nat), (⟨(0 : Nat), 3⟩ : Angle Nat)⟩ : Geonum Nat).mag = 1 := rfl

/-! ### B-tier: sums under whole turns, in rounded arithmetic -/
section B
variable {F : Type} [FloatSpec F]

/-- (B) **the Cartesian value of a sum is unchanged by whole turns on an operand, in rounded arithmetic** (general branch on both sides):
    adding `4n` quarter turns to the first summand moves the Cartesian components of `a + b` by at most twice the accuracy bound of
    `C06.sum_cartesian_float` at the larger blade count — while the result angles carry different blade histories -/
theorem sum_shift_cartesian_float {a b : Geonum F} (n : ℕ) (ha : a.angle.Inv) (hb : b.angle.Inv) (hma : a.MagDom) (hmb : b.MagDom)
    (hcb : a.angle.blade + 4 * n + b.angle.blade ≤ 2 ^ 39)
    (h1 : Geonum.sameAngle a b = false) (h2 : Geonum.oppositeAngle a b = false)
    (h1' : Geonum.sameAngle (a.shift4 n) b = false) (h2' : Geonum.oppositeAngle (a.shift4 n) b = false) :
    |val ((a.shift4 n).add b).mag * Real.cos (Angle.Tpi ((a.shift4 n).add b).angle) - val (a.add b).mag * Real.cos (Angle.Tpi (a.add b).angle)|
      ≤ 2 * ((val a.mag + val b.mag) * (2 / 10 ^ 7 + 11 / 10 * (val (e10 : F)
          + (40 * ((a.angle.blade + 4 * n + b.angle.blade : ℕ) : ℝ) + 170) * (1 / 2 ^ 53))) + 1 / 10 ^ 28) ∧
    |val ((a.shift4 n).add b).mag * Real.sin (Angle.Tpi ((a.shift4 n).add b).angle) - val (a.add b).mag * Real.sin (Angle.Tpi (a.add b).angle)|
      ≤ 2 * ((val a.mag + val b.mag) * (2 / 10 ^ 7 + 11 / 10 * (val (e10 : F)
          + (40 * ((a.angle.blade + 4 * n + b.angle.blade : ℕ) : ℝ) + 170) * (1 / 2 ^ 53))) + 1 / 10 ^ 28) :=
  Geonum.sum_shift_cartesian_float n ha hb hma hmb hcb h1 h2 h1' h2'

/-- (B) **dimension freedom of sums in rounded arithmetic, every branch**: whatever branches `+` takes before and after `4n` quarter turns
    are added to the first summand (the shift can move a pair out of the same-angle or opposite branch into the general one), the
    Cartesian components of the two sums differ by at most the two every-branch accuracy bounds -/
theorem sum_shift_every_branch_float {a b : Geonum F} (n : ℕ) (ha : a.angle.Inv) (hb : b.angle.Inv) (hma : a.MagDom) (hmb : b.MagDom)
    (hcb : a.angle.blade + 4 * n + b.angle.blade ≤ 2 ^ 39) :
    |val ((a.shift4 n).add b).mag * Real.cos (Angle.Tpi ((a.shift4 n).add b).angle) - val (a.add b).mag * Real.cos (Angle.Tpi (a.add b).angle)|
      ≤ 2 * ((val a.mag + val b.mag) * (2 / 10 ^ 7 + 11 / 10 * (val (e10 : F)
          + (40 * ((a.angle.blade + 4 * n + b.angle.blade : ℕ) : ℝ) + 170) * (1 / 2 ^ 53))) + 1 / 10 ^ 28 + 2 * val (e10 : F)) ∧
    |val ((a.shift4 n).add b).mag * Real.sin (Angle.Tpi ((a.shift4 n).add b).angle) - val (a.add b).mag * Real.sin (Angle.Tpi (a.add b).angle)|
      ≤ 2 * ((val a.mag + val b.mag) * (2 / 10 ^ 7 + 11 / 10 * (val (e10 : F)
          + (40 * ((a.angle.blade + 4 * n + b.angle.blade : ℕ) : ℝ) + 170) * (1 / 2 ^ 53))) + 1 / 10 ^ 28 + 2 * val (e10 : F)) := by
  obtain ⟨hc, hs, hm, _⟩ := Geonum.cart_shift4 a n
  have hcb0 : a.angle.blade + b.angle.blade ≤ 2 ^ 39 := by omega
  have hbl : (a.shift4 n).angle.blade + b.angle.blade = a.angle.blade + 4 * n + b.angle.blade := rfl
  obtain ⟨p1, p2⟩ := C06.sum_cartesian_every_branch_float ha hb hma hmb hcb0
  obtain ⟨q1, q2⟩ := C06.sum_cartesian_every_branch_float (a := a.shift4 n) (show (a.shift4 n).angle.Inv from ha) hb
    (show (a.shift4 n).MagDom from hma) hmb (by rw [hbl]; exact hcb)
  rw [hc, hm, hbl] at q1
  rw [hs, hm, hbl] at q2
  have he := val_e10_pos (F := F)
  have hmono : (val a.mag + val b.mag) * (2 / 10 ^ 7 + 11 / 10 * (val (e10 : F)
        + (40 * ((a.angle.blade + b.angle.blade : ℕ) : ℝ) + 170) * (1 / 2 ^ 53)))
      ≤ (val a.mag + val b.mag) * (2 / 10 ^ 7 + 11 / 10 * (val (e10 : F)
        + (40 * ((a.angle.blade + 4 * n + b.angle.blade : ℕ) : ℝ) + 170) * (1 / 2 ^ 53))) := by
    have hle : ((a.angle.blade + b.angle.blade : ℕ) : ℝ) ≤ ((a.angle.blade + 4 * n + b.angle.blade : ℕ) : ℝ) := by
      exact_mod_cast (by omega : a.angle.blade + b.angle.blade ≤ a.angle.blade + 4 * n + b.angle.blade)
    have hAB : 0 ≤ val a.mag + val b.mag := add_nonneg hma.2.1 hmb.2.1
    have : (40 * ((a.angle.blade + b.angle.blade : ℕ) : ℝ) + 170) * (1 / 2 ^ 53)
        ≤ (40 * ((a.angle.blade + 4 * n + b.angle.blade : ℕ) : ℝ) + 170) * (1 / 2 ^ 53) :=
      mul_le_mul_of_nonneg_right (by linarith) (by positivity)
    exact mul_le_mul_of_nonneg_left (by linarith) hAB
  rw [abs_le] at p1 p2 q1 q2 ⊢
  rw [abs_le]
  constructor <;> constructor <;> linarith [p1.1, p1.2, p2.1, p2.2, q1.1, q1.2, q2.1, q2.2]

end B


/-! ### R — on the arithmetic that really rounds (`R64`: round-to-nearest on the binary64 grid, correctly rounded libm) -/
section R

/-- (R) whole turns on a summand leave the sum's Cartesian components in place, for all pairs of binary64 numbers in the domain -/
theorem sum_shift_cartesian_rounded {a b : Geonum R64} (n : ℕ) (ha : a.angle.Inv) (hb : b.angle.Inv) (hma : a.MagDom) (hmb : b.MagDom)
    (hcb : a.angle.blade + 4 * n + b.angle.blade ≤ 2 ^ 39)
    (h1 : Geonum.sameAngle a b = false) (h2 : Geonum.oppositeAngle a b = false)
    (h1' : Geonum.sameAngle (a.shift4 n) b = false) (h2' : Geonum.oppositeAngle (a.shift4 n) b = false) :
    |((a.shift4 n).add b).mag.v * Real.cos (Angle.Tpi ((a.shift4 n).add b).angle) - (a.add b).mag.v * Real.cos (Angle.Tpi (a.add b).angle)|
      ≤ 2 * ((a.mag.v + b.mag.v) * (2 / 10 ^ 7 + 11 / 10 * ((e10 : R64).v
          + (40 * ((a.angle.blade + 4 * n + b.angle.blade : ℕ) : ℝ) + 170) * (1 / 2 ^ 53))) + 1 / 10 ^ 28) ∧
    |((a.shift4 n).add b).mag.v * Real.sin (Angle.Tpi ((a.shift4 n).add b).angle) - (a.add b).mag.v * Real.sin (Angle.Tpi (a.add b).angle)|
      ≤ 2 * ((a.mag.v + b.mag.v) * (2 / 10 ^ 7 + 11 / 10 * ((e10 : R64).v
          + (40 * ((a.angle.blade + 4 * n + b.angle.blade : ℕ) : ℝ) + 170) * (1 / 2 ^ 53))) + 1 / 10 ^ 28) :=
  sum_shift_cartesian_float (F := R64) n ha hb hma hmb hcb h1 h2 h1' h2'

end R

end GeonumModel.C08
