/-
  C15 — Geonum cos/sin/tan/adj/opp carry signed trig values on the quarter-turn lattice.
-/
import GeonumModel.Lemmas.GradeAngle
import GeonumModel.Lemmas.Exact
import GeonumModel.Props.C05
import GeonumModel.Lemmas.FloatTrig
import GeonumModel.Lemmas.FloatProject
import GeonumModel.Spec.RoundWitness

set_option linter.unusedSectionVars false
set_option linter.unusedVariables false

namespace GeonumModel.C15
open GeonumModel FloatLike FloatSpec Angle Geonum

section G
variable {F : Type} [FloatLike F]

/-- (G) `tan` is exactly the quotient of that sine by that cosine; `adj` / `opp` are cosine / sine scaled by the magnitude -/
theorem tan_adj_opp_def (a : Angle F) (g : Geonum F) :
    Geonum.tan a = (Geonum.sin a).divVR (Geonum.cos a) ∧
    g.adj = (Geonum.cos g.angle).scale g.mag ∧ g.opp = (Geonum.sin g.angle).scale g.mag := ⟨rfl, rfl, rfl⟩

/-- (G) cosine and sine return `|libm value|`, at the base angle or the base angle plus a half turn exactly when the value tests
    negative -/
theorem cos_sin_structure (a : Angle F) :
    (Geonum.cos a).mag = fabs (FloatLike.cos a.gradeAngle) ∧ (Geonum.sin a).mag = fabs (FloatLike.sin a.gradeAngle) ∧
    (flt (FloatLike.cos a.gradeAngle) zero = false → (Geonum.cos a).angle = Angle.new zero one) ∧
    (flt (FloatLike.cos a.gradeAngle) zero = true → (Geonum.cos a).angle = (Angle.new zero one).geometricAdd (Angle.new one one)) ∧
    (flt (FloatLike.sin a.gradeAngle) zero = false → (Geonum.sin a).angle = Angle.new one two) ∧
    (flt (FloatLike.sin a.gradeAngle) zero = true → (Geonum.sin a).angle = (Angle.new one two).geometricAdd (Angle.new one one)) := by
  refine ⟨rfl, rfl, ?_, ?_, ?_, ?_⟩ <;> intro h <;>
    simp [Geonum.cos, Geonum.sin, Geonum.signedAt, Geonum.newWithAngle, h, Angle.add, addVV]
end G

section S
variable {F : Type} [FloatSpec F]

/-- (S) lattice placement: cosine at blade 0 or 2, sine at blade 1 or 3, remainder of value 0; magnitudes in `[0, 1]` -/
theorem cos_sin_lattice {a : Angle F} (ha : a.Inv) :
    ((Geonum.cos a).angle.blade = 0 ∨ (Geonum.cos a).angle.blade = 2) ∧ val (Geonum.cos a).angle.rem = 0 ∧
    ((Geonum.sin a).angle.blade = 1 ∨ (Geonum.sin a).angle.blade = 3) ∧ val (Geonum.sin a).angle.rem = 0 ∧
    0 ≤ val (Geonum.cos a).mag ∧ val (Geonum.cos a).mag ≤ 1 ∧ 0 ≤ val (Geonum.sin a).mag ∧ val (Geonum.sin a).mag ≤ 1 := by
  have hg := gradeAngle_fin ha
  obtain ⟨hfc, hc1, _⟩ := cos_spec hg
  obtain ⟨hfs, hs1, _⟩ := sin_spec hg
  obtain ⟨_, hvca⟩ := fabs_spec hfc
  obtain ⟨_, hvsa⟩ := fabs_spec hfs
  obtain ⟨hb0, hf0, _, hv0⟩ := new_zero_one (F := F)
  obtain ⟨hb1, hf1, _, hv1⟩ := new_one_one (F := F)
  simp only at hb0 hv0 hb1 hv1; rw [val_zero] at hv0 hv1
  have hinv0 : (Angle.new (zero : F) one).Inv := Angle.Equiv.inv (Angle.Equiv.symm new_zero_one) (inv_zero 0)
  have st := cos_sin_structure a
  have hcosang : ((Geonum.cos a).angle.blade = 0 ∨ (Geonum.cos a).angle.blade = 2) ∧ val (Geonum.cos a).angle.rem = 0 := by
    by_cases h : flt (FloatLike.cos a.gradeAngle) (zero : F) = true
    · rw [st.2.2.2.1 h]
      have hw := add_whole hinv0 hf1 hv1
      rw [hb0, hb1] at hw
      exact ⟨Or.inr (by omega), by rw [hw.2.2, hv0]⟩
    · rw [st.2.2.1 (by simpa using h)]; exact ⟨Or.inl hb0, hv0⟩
  have hsinang : ((Geonum.sin a).angle.blade = 1 ∨ (Geonum.sin a).angle.blade = 3) ∧ val (Geonum.sin a).angle.rem = 0 := by
    by_cases h : flt (FloatLike.sin a.gradeAngle) (zero : F) = true
    · rw [st.2.2.2.2.2 h, new_one_two]
      have hw := add_whole (inv_zero (F := F) 1) hf1 hv1
      rw [hb1] at hw
      exact ⟨Or.inr hw.1, by rw [hw.2.2, val_zero]⟩
    · rw [st.2.2.2.2.1 (by simpa using h), new_one_two]; exact ⟨Or.inl rfl, val_zero⟩
  refine ⟨hcosang.1, hcosang.2, hsinang.1, hsinang.2, ?_, ?_, ?_, ?_⟩
  · rw [st.1, hvca]; exact abs_nonneg _
  · rw [st.1, hvca]; exact hc1
  · rw [st.2.1, hvsa]; exact abs_nonneg _
  · rw [st.2.1, hvsa]; exact hs1

end S

/-! ### B-tier: the gateway magnitudes in ROUNDED arithmetic, angle in true radians -/
section B
variable {F : Type} [FloatSpec F]

/-- (B) the cosine / sine gateways return `|cos T|` / `|sin T|` of the true total angle to within `6e-15`
    (rounding of `grade_angle`, the `π_f ≠ π` offset of up to three quarter turns, and the libm error) -/
theorem cos_sin_mag_float {a : Angle F} (ha : a.Inv) :
    abs (val (Geonum.cos a).mag - abs (Real.cos (Angle.Tpi a))) ≤ 6 / 10 ^ 15 ∧
    abs (val (Geonum.sin a).mag - abs (Real.sin (Angle.Tpi a))) ≤ 6 / 10 ^ 15 := by
  have hg := gradeAngle_fin ha
  obtain ⟨hfc, _, hcerr⟩ := cos_spec hg
  obtain ⟨hfs, _, hserr⟩ := sin_spec hg
  obtain ⟨_, hvc⟩ := fabs_spec hfc
  obtain ⟨_, hvs⟩ := fabs_spec hfs
  obtain ⟨hc2, hs2⟩ := trig_gradeAngle_true ha
  have het := errTrig_le (F := F)
  have st := cos_sin_structure a
  have hnum : (1:ℝ) / 10 ^ 15 + 5 / 10 ^ 15 ≤ 6 / 10 ^ 15 := by norm_num
  constructor
  · rw [st.1, hvc]
    refine le_trans (abs_abs_sub_abs_le_abs_sub _ _) ?_
    have := abs_sub_le (val (FloatLike.cos a.gradeAngle)) (Real.cos (val a.gradeAngle)) (Real.cos (Angle.Tpi a))
    linarith
  · rw [st.2.1, hvs]
    refine le_trans (abs_abs_sub_abs_le_abs_sub _ _) ?_
    have := abs_sub_le (val (FloatLike.sin a.gradeAngle)) (Real.sin (val a.gradeAngle)) (Real.sin (Angle.Tpi a))
    linarith

/-- (B) **`cos² + sin² = 1` for the two gateways in rounded arithmetic**, within `3e-14` -/
theorem cos_sin_pythagoras_float {a : Angle F} (ha : a.Inv) :
    |val (Geonum.cos a).mag * val (Geonum.cos a).mag + val (Geonum.sin a).mag * val (Geonum.sin a).mag - 1| ≤ 3 / 10 ^ 14 := by
  obtain ⟨hc, hs⟩ := cos_sin_mag_float ha
  obtain ⟨C, hC⟩ : ∃ C : ℝ, C = abs (Real.cos (Angle.Tpi a)) := ⟨_, rfl⟩
  obtain ⟨S, hS⟩ : ∃ S : ℝ, S = abs (Real.sin (Angle.Tpi a)) := ⟨_, rfl⟩
  rw [← hC] at hc; rw [← hS] at hs
  have hC0 : 0 ≤ C := by rw [hC]; exact abs_nonneg _
  have hS0 : 0 ≤ S := by rw [hS]; exact abs_nonneg _
  have hC1 : C ≤ 1 := by rw [hC]; exact Real.abs_cos_le_one _
  have hS1 : S ≤ 1 := by rw [hS]; exact Real.abs_sin_le_one _
  have hCS : C * C + S * S = 1 := by
    rw [hC, hS, abs_mul_abs_self, abs_mul_abs_self]
    have := Real.cos_sq_add_sin_sq (Angle.Tpi a); nlinarith
  obtain ⟨x, hx⟩ : ∃ x : ℝ, x = val (Geonum.cos a).mag := ⟨_, rfl⟩
  obtain ⟨y, hy⟩ : ∃ y : ℝ, y = val (Geonum.sin a).mag := ⟨_, rfl⟩
  rw [← hx] at hc ⊢; rw [← hy] at hs ⊢
  rw [abs_le] at hc hs
  have e : x * x + y * y - 1 = (x - C) * (x + C) + (y - S) * (y + S) := by rw [← hCS]; ring
  rw [e, abs_le]
  have hxC : 0 ≤ x + C + 1 := by linarith [hc.1]
  have hyS : 0 ≤ y + S + 1 := by linarith [hs.1]
  have b1 : x + C ≤ 2 + 6 / 10 ^ 15 := by linarith [hc.2]
  have b2 : y + S ≤ 2 + 6 / 10 ^ 15 := by linarith [hs.2]
  have b3 : -(6 / 10 ^ 15) ≤ x + C := by linarith [hc.1]
  have b4 : -(6 / 10 ^ 15) ≤ y + S := by linarith [hs.1]
  constructor <;> nlinarith [hc.1, hc.2, hs.1, hs.2]

/-- (B) **`adj` and `opp` in rounded arithmetic**: their magnitudes are `|g|·|cos T|` and `|g|·|sin T|` (true total `T`) to within
    `|g|·(6e-15 + 2⁻⁵³) + 1e-30` — the unsigned Cartesian components; the sign sits in the angle exactly as for `cos` / `sin`
    (`cos_sin_structure`, `cos_sin_lattice`), because scaling by a non-negative magnitude adds no blade (`C05.scale` sign law) -/
theorem adj_opp_mag_float {g : Geonum F} (hg : g.angle.Inv) (hm : g.MagDom) :
    abs (val g.adj.mag - val g.mag * abs (Real.cos (Angle.Tpi g.angle))) ≤ val g.mag * (6 / 10 ^ 15 + 1 / 2 ^ 53) + 1 / 10 ^ 30 ∧
    abs (val g.opp.mag - val g.mag * abs (Real.sin (Angle.Tpi g.angle))) ≤ val g.mag * (6 / 10 ^ 15 + 1 / 2 ^ 53) + 1 / 10 ^ 30 := by
  obtain ⟨hmf, hm0, _⟩ := hm
  obtain ⟨hc, hs⟩ := cos_sin_mag_float hg
  have hga := gradeAngle_fin hg
  obtain ⟨hfc, hc1, _⟩ := cos_spec hga
  obtain ⟨hfs, hs1, _⟩ := sin_spec hga
  obtain ⟨hfca, hvca⟩ := fabs_spec hfc
  obtain ⟨hfsa, hvsa⟩ := fabs_spec hfs
  obtain ⟨hfma, hvma⟩ := fabs_spec hmf
  rw [abs_of_nonneg hm0] at hvma
  have st := cos_sin_structure g.angle
  have hadj : g.adj.mag = fmul (fabs (FloatLike.cos g.angle.gradeAngle)) (fabs g.mag) := by
    show ((Geonum.cos g.angle).scale g.mag).mag = _
    unfold Geonum.scale Geonum.mul Geonum.scalar; simp only; rw [st.1]
  have hopp : g.opp.mag = fmul (fabs (FloatLike.sin g.angle.gradeAngle)) (fabs g.mag) := by
    show ((Geonum.sin g.angle).scale g.mag).mag = _
    unfold Geonum.scale Geonum.mul Geonum.scalar; simp only; rw [st.2.1]
  rw [st.1] at hc; rw [st.2.1] at hs
  have c1 : |val (fabs (FloatLike.cos g.angle.gradeAngle))| ≤ 1 := by rw [hvca, abs_abs]; exact hc1
  have s1 : |val (fabs (FloatLike.sin g.angle.gradeAngle))| ≤ 1 := by rw [hvsa, abs_abs]; exact hs1
  obtain ⟨_, h1⟩ := mul_unit_float hfma (by rw [hvma]; exact hm0) hfca c1 hc
  obtain ⟨_, h2⟩ := mul_unit_float hfma (by rw [hvma]; exact hm0) hfsa s1 hs
  rw [hvma] at h1 h2
  rw [hadj, hopp, fmul_comm hfca hfma, fmul_comm hfsa hfma]
  exact ⟨h1, h2⟩

end B

/-! ### E-tier: exact arithmetic -/
section E
open GeonumModel.Exact

/-- (E) the magnitudes are `|cos T|` and `|sin T|` of the total angle, so `cos² + sin² = 1` exactly -/
theorem cos_sin_values_real (a : Angle ℝ) :
    (Geonum.cos a).mag = |Real.cos (T a)| ∧ (Geonum.sin a).mag = |Real.sin (T a)| ∧
    (Geonum.cos a).mag ^ 2 + (Geonum.sin a).mag ^ 2 = 1 := by
  have hc : (Geonum.cos a).mag = |Real.cos (T a)| := by rw [← cos_gradeAngle]; rfl
  have hs : (Geonum.sin a).mag = |Real.sin (T a)| := by rw [← sin_gradeAngle]; rfl
  refine ⟨hc, hs, ?_⟩
  rw [hc, hs, sq_abs, sq_abs]
  have := Real.sin_sq_add_cos_sq (T a)
  linarith

/-- (E) `tan` is total wherever the cosine is non-zero, has magnitude `|tan T|`, odd grade, and remainder 0 -/
theorem tan_real {a : Angle ℝ} (ha : a.Inv) (hc : Real.cos (T a) ≠ 0) :
    ∃ t, Geonum.tan a = some t ∧ t.mag = |Real.tan (T a)| ∧ t.angle.blade % 2 = 1 ∧ t.angle.rem = 0 := by
  obtain ⟨hcm, hsm, _⟩ := cos_sin_values_real a
  obtain ⟨hcb, hcr, hsb, hsr, _⟩ := cos_sin_lattice (F := ℝ) ha
  simp only [val_id] at hcr hsr
  have hcinv : (Geonum.cos a).angle.Inv := by
    refine ⟨trivial, by rw [val_id, hcr], ?_⟩
    rw [val_id, hcr, zero_add]
    have h1 := val_e10_small (F := ℝ); have h2 := val_qp_gt (F := ℝ)
    have : (1:ℝ) / 10 ^ 9 ≤ 1 := by rw [div_le_one (by positivity)]; norm_num
    linarith
  have hsinv : (Geonum.sin a).angle.Inv := by
    refine ⟨trivial, by rw [val_id, hsr], ?_⟩
    rw [val_id, hsr, zero_add]
    have h1 := val_e10_small (F := ℝ); have h2 := val_qp_gt (F := ℝ)
    have : (1:ℝ) / 10 ^ 9 ≤ 1 := by rw [div_le_one (by positivity)]; norm_num
    linarith
  have hne : feq (Geonum.cos a).mag (zero : ℝ) = false := by
    rw [r_eq, lit_real.1, hcm]; simpa using hc
  have hn := negate_spec hcinv
  simp only [val_id] at hn
  have hw := add_whole (F := ℝ) (a := (Geonum.sin a).angle) (z := (Geonum.cos a).angle.negate) hsinv trivial
    (by rw [val_id, hn.2.2, hcr])
  simp only [val_id] at hw
  refine ⟨⟨fmul (Geonum.sin a).mag (fdiv one (Geonum.cos a).mag), (Geonum.sin a).angle.geometricAdd (Geonum.cos a).angle.negate⟩, ?_, ?_, ?_, ?_⟩
  · show (Geonum.cos a).inv.map _ = _
    unfold Geonum.inv; simp [hne, Geonum.mul, Angle.add, Angle.addVV]
  · show (Geonum.sin a).mag * ((one : ℝ) / (Geonum.cos a).mag) = _
    rw [hsm, hcm, lit_real.2.1, Real.tan_eq_sin_div_cos, abs_div]; ring
  · show ((Geonum.sin a).angle.geometricAdd (Geonum.cos a).angle.negate).blade % 2 = 1
    rw [hw.1, hn.1]; rcases hsb with h | h <;> rcases hcb with g | g <;> rw [h, g]
  · show ((Geonum.sin a).angle.geometricAdd (Geonum.cos a).angle.negate).rem = 0
    rw [hw.2.2, hsr]

/-- (E) `tan` has period π: a half turn more gives the same magnitude -/
theorem tan_period_real {a : Angle ℝ} (ha : a.Inv) (hc : Real.cos (T a) ≠ 0) :
    ∃ t t', Geonum.tan a = some t ∧ Geonum.tan a.negate = some t' ∧ t'.mag = t.mag := by
  have hn := negate_spec ha
  have hninv : a.negate.Inv := inv_of_spec ha hn.2
  have hT : T a.negate = T a + Real.pi := negate_total_real ha
  have hc' : Real.cos (T a.negate) ≠ 0 := by rw [hT, Real.cos_add_pi]; simpa using hc
  obtain ⟨t, ht, hm, _, _⟩ := tan_real ha hc
  obtain ⟨t', ht', hm', _, _⟩ := tan_real hninv hc'
  exact ⟨t, t', ht, ht', by rw [hm', hm, hT, Real.tan_add_pi]⟩

/-- (E) `adj` and `opp` scale cosine and sine by the magnitude: `|adj| = |g||cos T|`, `|opp| = |g||sin T|`, so
    `adj² + opp² = |g|²`; for a non-negative magnitude they stay on the cosine's / sine's lattice point (blade 0/2, resp. 1/3),
    i.e. their signed values are the Cartesian components `|g|cos T`, `|g|sin T` -/
theorem adj_opp_real {g : Geonum ℝ} (hg : g.angle.Inv) (h0 : 0 ≤ g.mag) :
    g.adj.mag = g.mag * |Real.cos (T g.angle)| ∧ g.opp.mag = g.mag * |Real.sin (T g.angle)| ∧
    g.adj.mag ^ 2 + g.opp.mag ^ 2 = g.mag ^ 2 ∧
    g.adj.angle.blade = (Geonum.cos g.angle).angle.blade ∧ g.opp.angle.blade = (Geonum.sin g.angle).angle.blade := by
  obtain ⟨hcm, hsm, hpy⟩ := cos_sin_values_real g.angle
  obtain ⟨hcb, hcr, hsb, hsr, _⟩ := cos_sin_lattice (F := ℝ) hg
  simp only [val_id] at hcr hsr
  have zinv : ∀ x : Angle ℝ, x.rem = 0 → x.Inv := by
    intro x hv
    refine ⟨trivial, by rw [val_id, hv], ?_⟩
    rw [val_id, hv, zero_add]
    have h1 := val_e10_small (F := ℝ); have h2 := val_qp_gt (F := ℝ)
    have : (1:ℝ) / 10 ^ 9 ≤ 1 := by rw [div_le_one (by positivity)]; norm_num
    linarith
  have sc := C05.scale_spec (F := ℝ) (g := Geonum.cos g.angle) (f := g.mag) trivial trivial (zinv _ hcr) trivial
  have ss := C05.scale_spec (F := ℝ) (g := Geonum.sin g.angle) (f := g.mag) trivial trivial (zinv _ hsr) trivial
  simp only [val_id] at sc ss
  have ha : g.adj.mag = g.mag * |Real.cos (T g.angle)| := by
    show ((Geonum.cos g.angle).scale g.mag).mag = _
    rw [sc.1, hcm, abs_of_nonneg h0]; show |Real.cos (T g.angle)| * g.mag = _; ring
  have ho : g.opp.mag = g.mag * |Real.sin (T g.angle)| := by
    show ((Geonum.sin g.angle).scale g.mag).mag = _
    rw [ss.1, hsm, abs_of_nonneg h0]; show |Real.sin (T g.angle)| * g.mag = _; ring
  refine ⟨ha, ho, ?_, sc.2.1 h0, ss.2.1 h0⟩
  rw [ha, ho, mul_pow, mul_pow, sq_abs, sq_abs]
  have := Real.sin_sq_add_cos_sq (T g.angle)
  nlinarith [this]

end E

/-! (all clauses of C15 now have a theorem in exact arithmetic; float values are explored by `oracle.C15.*`) -/



example {F : Type} [FloatSpec F] : (⟨zero, 7⟩ : Angle F).Inv := inv_zero 7


/-! ### R — on the arithmetic that really rounds (`R64`: round-to-nearest on the binary64 grid, correctly rounded libm) -/
section R

/-- (R) `adj`/`opp` magnitudes for every binary64 number in the domain -/
theorem adj_opp_mag_rounded {g : Geonum R64} (hg : g.angle.Inv) (hm : g.MagDom) :
    abs (g.adj.mag.v - g.mag.v * abs (Real.cos (Angle.Tpi g.angle))) ≤ g.mag.v * (6 / 10 ^ 15 + 1 / 2 ^ 53) + 1 / 10 ^ 30 ∧
    abs (g.opp.mag.v - g.mag.v * abs (Real.sin (Angle.Tpi g.angle))) ≤ g.mag.v * (6 / 10 ^ 15 + 1 / 2 ^ 53) + 1 / 10 ^ 30 :=
  adj_opp_mag_float (F := R64) hg hm

end R

end GeonumModel.C15
