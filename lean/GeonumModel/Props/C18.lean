/-
  C18 — Domain helpers equal their documented closed forms.

  The model of each helper is transcribed from the code; each theorem states the documented formula in terms of core
  operations.  They are G-tier (any arithmetic) and mostly definitional by design: here "the implementation is what its
  documentation says" is carried by the correspondence (every helper is an op of the tie); the theorems pin down which
  closed form that is.
-/
import GeonumModel.Lemmas.Structural

set_option linter.unusedSectionVars false
set_option linter.unusedVariables false

namespace GeonumModel.C18
open GeonumModel FloatLike

variable {F : Type} [FloatLike F]

/-- affine: translate is addition; shear rotates; area is the sum of the two triangle wedge areas on the edges from `p1` -/
theorem affine_forms (p1 p2 p3 p4 d : Geonum F) (a : Angle F) :
    Affine.translate p1 d = p1.add d ∧ Affine.shear p1 a = p1.rotate a ∧
    Affine.areaQuadrilateral p1 p2 p3 p4 =
      fadd (fdiv ((p2.add p1.negate).wedge (p3.add p1.negate)).mag two)
           (fdiv ((p3.add p1.negate).wedge (p4.add p1.negate)).mag two) := ⟨rfl, rfl, rfl⟩

/-- projection: view is a rotation by the encoded path; compose is the product -/
theorem projection_forms (g o : Geonum F) (path : Angle F) :
    Projection.view g path = g.rotate path ∧ Projection.compose g o = g.mul o := ⟨rfl, rfl⟩

/-- optics: refraction, optical transfer, ABCD, magnification and aberration formulas -/
theorem optics_forms (g n focal wl a b c d : Geonum F) (terms : List (Geonum F)) :
    Optics.refract g n = ⟨g.mag, Angle.new (FloatLike.asin (fdiv (FloatLike.sin g.angle.gradeAngle) n.mag)) (pi : F)⟩ ∧
    Optics.otf g focal wl = ⟨fdiv g.mag (fmul wl.mag focal.mag), g.angle.geometricAdd (Angle.new one two)⟩ ∧
    Optics.abcdTransform g a b c d =
      ⟨fadd (fmul a.mag g.mag) (fmul b.mag g.angle.gradeAngle),
       Angle.new (fadd (fmul c.mag g.mag) (fmul d.mag g.angle.gradeAngle)) pi⟩ ∧
    Optics.magnify g n = ⟨fmul g.mag (fdiv one (fmul n.mag n.mag)),
       Angle.new (fdiv (fneg (FloatLike.sin g.angle.gradeAngle)) n.mag) pi⟩ ∧
    Optics.aberrate g terms = ⟨g.mag, terms.foldl Optics.aberrateStep g.angle⟩ ∧
    (∀ (ph : Angle F) (t : Geonum F), Optics.aberrateStep ph t =
      ph.geometricAdd (Angle.new (fmul t.mag (FloatLike.cos (fmul (FloatLike.sin t.angle.gradeAngle) three))) pi)) :=
  ⟨rfl, rfl, rfl, rfl, rfl, fun _ _ => rfl⟩

/-- electromagnetics: the Poynting vector is the wedge divided by μ0; inverse-power field; wire field and potential;
    spherical wave; the electric field is the inverse-square field at angle π with Coulomb's constant -/
theorem em_forms (e b q r pw k cur perm t wn sp : Geonum F) (ang : Angle F) :
    EM.poyntingVector e b = ⟨fdiv (e.wedge b).mag EM.vacuumPermeability, (e.wedge b).angle⟩ ∧
    (EM.inverseField q r pw ang k).mag = fdiv (fmul k.mag q.mag) (FloatLike.powf r.mag pw.mag) ∧
    (fge (FloatLike.cos q.angle.gradeAngle) zero = true → (EM.inverseField q r pw ang k).angle = ang) ∧
    (fge (FloatLike.cos q.angle.gradeAngle) zero = false →
        (EM.inverseField q r pw ang k).angle = ang.geometricAdd (Angle.new one one)) ∧
    EM.electricField q r = EM.inverseField q r (Geonum.scalar two) (Angle.new one one) EM.coulombK ∧
    EM.electricPotential q r = (q.mul EM.coulombK).divVV r ∧
    EM.wireVectorPotential r cur perm =
      ⟨fdiv (fmul (fmul perm.mag cur.mag) (FloatLike.ln r.mag)) (fmul two pi), Angle.new one two⟩ ∧
    EM.wireMagneticField r cur perm =
      ⟨fdiv (fmul perm.mag cur.mag) (fmul (fmul two pi) r.mag), Angle.new zero one⟩ ∧
    (EM.sphericalWavePotential r t wn sp).mag =
      fabs (fdiv (FloatLike.cos (fsub (fmul wn.mag r.mag) (fmul (fmul wn.mag sp.mag) t.mag))) r.mag) := by
  refine ⟨rfl, rfl, ?_, ?_, rfl, rfl, rfl, rfl, rfl⟩ <;> intro h <;>
    simp [EM.inverseField, Geonum.newWithAngle, h, Angle.add, Angle.addVV]

/-- waves: propagate / disperse rotate by the angle of `x − v·t` / `k·x − ω·t`; frequency and wavenumber are
    `|a − b|` per interval at `Angle::new(1, 2)` (π/2) -/
theorem waves_forms (g t x v k w o iv : Geonum F) :
    Waves.propagate g t x v = ⟨g.mag, g.angle.geometricAdd (x.sub (v.mul t)).angle⟩ ∧
    Waves.disperse x t k w = ⟨one, ((k.mul x).sub (w.mul t)).angle⟩ ∧
    Waves.frequency g o iv = ⟨fdiv (g.sub o).mag iv.mag, Angle.new one two⟩ ∧
    Waves.wavenumber g o iv = Waves.frequency g o iv := ⟨rfl, rfl, rfl, rfl⟩

/-- machine learning: forward pass `|x||w| + |b|` at the summed angle; activations scale the magnitude by relu / sigmoid /
    tanh of `cos t`; regression and perceptron formulas -/
theorem ml_forms (g w b inp : Geonum F) (lr err cov var : F) :
    ML.forwardPass g w b = ⟨fadd (fmul g.mag w.mag) b.mag, g.angle.geometricAdd w.angle⟩ ∧
    ML.activate g .relu = ⟨if flt zero (FloatLike.cos g.angle.gradeAngle) then g.mag else zero, g.angle⟩ ∧
    ML.activate g .sigmoid = ⟨fdiv g.mag (fadd one (FloatLike.exp (fneg (FloatLike.cos g.angle.gradeAngle)))), g.angle⟩ ∧
    ML.activate g .tanh = ⟨fmul g.mag (FloatLike.tanh (FloatLike.cos g.angle.gradeAngle)), g.angle⟩ ∧
    ML.activate g .identity = g ∧
    ML.regressionFrom cov var = ⟨sqrt (fdiv (fmul cov cov) var), Angle.new (FloatLike.atan2 cov var) pi⟩ ∧
    (ML.perceptronUpdate g lr err inp).mag = fadd g.mag (fmul (fmul lr err) inp.mag) :=
  ⟨rfl, rfl, rfl, rfl, rfl, rfl, rfl⟩

/-- the physical constants are the documented expressions -/
theorem constants :
    (EM.speedOfLight : F) = FloatLike.ofNat 300000000 ∧
    (EM.vacuumPermeability : F) = fmul (fmul four pi) (FloatLike.ofSci 1 true 7) ∧
    (EM.vacuumPermittivity : F) = fdiv one (fmul (fmul EM.vacuumPermeability EM.speedOfLight) EM.speedOfLight) ∧
    (EM.vacuumImpedance : F) = fmul EM.vacuumPermeability EM.speedOfLight := ⟨rfl, rfl, rfl, rfl⟩

example (g : Geonum F) : ML.activate g .identity = g := rfl

end GeonumModel.C18
