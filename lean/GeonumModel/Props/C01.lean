/-
  C01 — Angles stay canonical and core operations stay total.

  The reachable-state invariant `Angle.Inv` (finite remainder in `[0, π/2 − 1e-10]`, hence in the documented `[0, π/2)`)
  is established by every constructor and preserved by every operation, for rounded arithmetic (S-tier); so it holds for
  every intermediate value of every operation sequence, of any length.  Magnitudes stay finite and non-negative.
  Panics are characterised exactly (G-tier).
-/
import GeonumModel.Lemmas.AngleNewTotal
import GeonumModel.Lemmas.GeonumMag
import GeonumModel.Lemmas.AddAngleInv
import GeonumModel.Spec.RealWitness
import GeonumModel.Spec.RoundWitness
import GeonumModel.Props.C09
import GeonumModel.Props.C10
import GeonumModel.Props.C11
import GeonumModel.Props.C12
import GeonumModel.Props.C13
import GeonumModel.Props.C15

set_option linter.unusedSectionVars false
set_option linter.unusedVariables false

namespace GeonumModel.C01
open GeonumModel FloatLike FloatSpec Angle Geonum

section G
variable {F : Type} [FloatLike F]

/-- (G) the three documented panics, and only under the documented condition: inverse / division, normalisation, circle
    inversion are `none` exactly when the tested magnitude compares equal to zero -/
theorem panics_exactly (g o : Geonum F) (r : F) :
    (g.inv = none ↔ feq g.mag zero = true) ∧ (o.div g = none ↔ feq g.mag zero = true) ∧
    (o.divVV g = none ↔ feq g.mag zero = true) ∧ (g.normalize = none ↔ feq g.mag zero = true) ∧
    (g.invertCircle o r = none ↔ feq (g.sub o).mag zero = true) := by
  refine ⟨?_, ?_, ?_, ?_, ?_⟩
  · unfold Geonum.inv; by_cases h : feq g.mag zero = true <;> simp [h]
  · unfold Geonum.div Geonum.inv; by_cases h : feq g.mag zero = true <;> simp [h]
  · unfold Geonum.divVV Geonum.inv; by_cases h : feq g.mag zero = true <;> simp [h]
  · unfold Geonum.normalize; by_cases h : feq g.mag zero = true <;> simp [h]
  · unfold Geonum.invertCircle; by_cases h : feq (g.sub o).mag zero = true <;> simp [h]
end G

section S
variable {F : Type} [FloatSpec F]

/-- (S) the invariant implies the documented range: finite remainder in `[0, π/2)` -/
theorem inv_canonical {a : Angle F} (h : a.Inv) : Fin a.rem ∧ 0 ≤ val a.rem ∧ val a.rem < val (qp : F) := h.canon

/-- (S) **constructors establish the invariant.**  `Angle::new` for every finite `p`, `d` with `|p| ≤ 1e200`, `|d| ≥ 1e-200`
    and `|p·π/d| ≤ 2^42` (the property's `|2p/d| ≤ 2^40` implies `|p·π/d| < 2^41`); relies on fix f40c5b0 (clamp of the
    negative path).  PARTIAL w.r.t. the property's "all finite p, d": beyond `1e200` / below `1e-200` the intermediate
    product `p·π` can overflow or lose all precision (e.g. `Angle::new(1e308, 1e308)` has a NaN remainder). -/
theorem new_inv_partial {p d : F} (hp : Fin p) (hd : Fin d) (hpb : |val p| ≤ 10 ^ 200)
    (hdl : 1 / 10 ^ 200 ≤ |val d|) (hq : |val p * piV F / val d| ≤ 2 ^ 42) : (Angle.new p d).Inv :=
  Angle.new_inv hp hd hpb hdl hq

/-- (S) `new_with_blade` on top of it -/
theorem newWithBlade_inv_partial {p d : F} (k : ℕ) (hk : k < 2 ^ 53) (hp : Fin p) (hd : Fin d) (hpb : |val p| ≤ 10 ^ 200)
    (hdl : 1 / 10 ^ 200 ≤ |val d|) (hq : |val p * piV F / val d| ≤ 2 ^ 42) : (Angle.newWithBlade k p d).Inv := by
  unfold Angle.newWithBlade
  simp only [Angle.add, addVV]
  rw [new_nat k hk]
  exact geometricAdd_inv (Angle.new_inv hp hd hpb hdl hq) (inv_zero k)

/-- (S) Cartesian constructor: `atan2` returns a value in `[−π_f, π_f]`, divided by `π_f` it is in `[−1, 1]`, so the
    general path applies with `|p·π/d| ≤ 4` -/
theorem newFromCartesian_inv {x y : F} (hx : Fin x) (hy : Fin y) : (Angle.newFromCartesian x y).Inv := by
  obtain ⟨hfa, hab, _⟩ := atan2_spec hy hx
  have hp3 := piV_gt3 (F := F); have hp4 := piV_lt4 (F := F)
  have hquot : |val (FloatLike.atan2 y x) / piV F| ≤ 1 := by
    rw [abs_div, abs_of_pos (by linarith : (0:ℝ) < piV F), div_le_one (by linarith)]; exact hab
  obtain ⟨hfd, hvd⟩ := fdiv_spec hfa (fin_pi (F := F)) (by rw [val_pi]; linarith)
    (by rw [val_pi]; apply inRange_of_abs_le_1000; linarith)
  rw [val_pi] at hvd
  have hb : |val (fdiv (FloatLike.atan2 y x) (FloatLike.pi : F))| ≤ 1 := by
    rw [hvd, abs_le]
    rw [abs_le] at hquot
    have r1 : rnd (F := F) 1 = 1 := by have := rnd_nat (F := F) (n := 1) (by norm_num); simpa using this
    have rm1 : rnd (F := F) (-1) = -1 := by
      have := rep_neg (F := F) (rep_nat (F := F) (n := 1) (by norm_num)); simpa using rnd_rep this
    exact ⟨by rw [← rm1]; exact rnd_mono hquot.1, by rw [← r1]; exact rnd_mono hquot.2⟩
  unfold Angle.newFromCartesian
  apply Angle.new_inv hfd fin_one
  · calc |val (fdiv (FloatLike.atan2 y x) (FloatLike.pi : F))| ≤ 1 := hb
      _ ≤ 10 ^ 200 := one_le_pow₀ (by norm_num)
  · rw [val_one, abs_one]; rw [div_le_one (by positivity)]; exact one_le_pow₀ (by norm_num)
  · rw [val_one, div_one, abs_mul, abs_of_pos (by linarith : (0:ℝ) < piV F)]
    have : |val (fdiv (FloatLike.atan2 y x) (FloatLike.pi : F))| * piV F ≤ 1 * 4 :=
      mul_le_mul hb (le_of_lt hp4) (by linarith) (by norm_num)
    have : (1:ℝ) * 4 ≤ 2 ^ 42 := by norm_num
    linarith

/-- (S) **angle operations preserve the invariant**: `+ * rotate`, `- /`, `dual undual negate conjugate base_angle` -/
theorem angle_ops_inv {a b : Angle F} (ha : a.Inv) (hb : b.Inv) :
    (a.geometricAdd b).Inv ∧ (a.geometricSub b).Inv ∧ a.dual.Inv ∧ a.undual.Inv ∧ a.negate.Inv ∧ a.conjugate.Inv ∧
    a.baseAngle.Inv ∧ (a.rotate b).Inv :=
  ⟨geometricAdd_inv ha hb, geometricSub_inv ha hb, inv_of_spec ha (dual_spec ha).2, inv_of_spec ha (dual_spec ha).2,
   inv_of_spec ha (negate_spec ha).2, inv_of_spec ha (negate_spec ha).2, ha, geometricAdd_inv ha hb⟩

/-- the angle-level operation alphabet for histories -/
inductive Op (F : Type) | add (x : Angle F) | sub (x : Angle F) | rsub (x : Angle F) | dual | negate | conjugate | base

def step : Angle F → Op F → Angle F
  | a, .add x => a.geometricAdd x | a, .sub x => a.geometricSub x | a, .rsub x => x.geometricSub a
  | a, .dual => a.dual | a, .negate => a.negate | a, .conjugate => a.conjugate | a, .base => a.baseAngle

def Op.ArgInv : Op F → Prop | .add x => x.Inv | .sub x => x.Inv | .rsub x => x.Inv | _ => True

theorem step_inv {a : Angle F} (ha : a.Inv) (o : Op F) (ho : o.ArgInv) : (step a o).Inv := by
  cases o with
  | add x => exact geometricAdd_inv ha ho
  | sub x => exact geometricSub_inv ha ho
  | rsub x => exact geometricSub_inv ho ha
  | dual => exact inv_of_spec ha (dual_spec ha).2
  | negate => exact inv_of_spec ha (negate_spec ha).2
  | conjugate => exact inv_of_spec ha (negate_spec ha).2
  | base => exact ha

/-- (S) **history form**: every value of every operation sequence of any length, started from a canonical angle with
    canonical operands, is canonical -/
theorem run_inv (ops : List (Op F)) (a : Angle F) (ha : a.Inv) (hw : ∀ o ∈ ops, o.ArgInv) :
    (ops.foldl step a).Inv := by
  induction ops generalizing a with
  | nil => exact ha
  | cons o os ih =>
    exact ih (step a o) (step_inv ha o (hw o List.mem_cons_self)) (fun o' ho' => hw o' (List.mem_cons_of_mem _ ho'))

/-! #### `usize` / `i64` headroom.  The model counts blades in `Nat`, the code in `usize` (overflow panics in the dev
    profile) and casts to `i64` in `geometric_sub`.  These bounds show the difference cannot matter on the property's domain:
    one operation raises the blade count by at most the operand's count plus four, so histories of any practical length
    starting inside `2^40` stay far below `2^63`. -/

theorem wrap4_le (d : Int) : (wrap4 d : Int) ≤ max d 3 := by
  unfold wrap4; split <;> omega

/-- (S) growth of the blade count in one angle operation -/
theorem blade_growth {a b : Angle F} (ha : a.Inv) (hb : b.Inv) :
    (a.geometricAdd b).blade ≤ a.blade + b.blade + 1 ∧ (a.geometricSub b).blade ≤ max a.blade 3 + 1 ∧
    a.dual.blade = a.blade + 2 ∧ a.negate.blade = a.blade + 2 ∧ a.conjugate.blade = a.blade + 2 ∧
    a.baseAngle.blade ≤ a.blade := by
  refine ⟨?_, ?_, (dual_spec ha).1, (negate_spec ha).1, (conjugate_spec ha).1, ?_⟩
  · rcases (geometricAdd_spec ha hb).2.1 with h | h <;> omega
  · obtain ⟨_, s, c, hs, hc, hbl, _⟩ := geometricSub_spec ha hb
    have hw := wrap4_le ((a.blade : ℤ) - (b.blade : ℤ) + s)
    rcases hs with rfl | rfl <;> rcases hc with rfl | rfl <;> omega
  · show a.blade % 4 ≤ a.blade; exact Nat.mod_le _ _

/-- the blade count an operation's operand brings in -/
def Op.argBlade : Op F → Nat | .add x => x.blade | .sub x => x.blade | .rsub x => x.blade | _ => 0

theorem step_blade_le {a : Angle F} (ha : a.Inv) (o : Op F) (ho : o.ArgInv) :
    (step a o).blade ≤ a.blade + o.argBlade + 4 := by
  cases o with
  | add x => have := (blade_growth ha ho).1; simp only [step, Op.argBlade]; omega
  | sub x => have := (blade_growth ha ho).2.1; simp only [step, Op.argBlade]; omega
  | rsub x => have := (blade_growth ho ha).2.1; simp only [step, Op.argBlade]; omega
  | dual => have := (blade_growth ha ha).2.2.1; simp only [step, Op.argBlade]; omega
  | negate => have := (blade_growth ha ha).2.2.2.1; simp only [step, Op.argBlade]; omega
  | conjugate => have := (blade_growth ha ha).2.2.2.2.1; simp only [step, Op.argBlade]; omega
  | base => have := (blade_growth ha ha).2.2.2.2.2; simp only [step, Op.argBlade]; omega

/-- (S) **no `usize` overflow along any history**: after any operation sequence the blade count is at most the start
    count plus, per operation, the operand's count plus four -/
theorem run_blade_le (ops : List (Op F)) (a : Angle F) (ha : a.Inv) (hw : ∀ o ∈ ops, o.ArgInv) :
    (ops.foldl step a).blade ≤ a.blade + (ops.map (fun o => o.argBlade + 4)).sum := by
  induction ops generalizing a with
  | nil => simp
  | cons o os ih =>
    have h1 := step_blade_le ha o (hw o List.mem_cons_self)
    have h2 := ih (step a o) (step_inv ha o (hw o List.mem_cons_self)) (fun o' ho' => hw o' (List.mem_cons_of_mem _ ho'))
    simp only [List.foldl_cons, List.map_cons, List.sum_cons]
    omega

/-- (S) in numbers: a history of up to `2^20` operations whose start and operands have at most `2^40` blades ends below
    `2^62`, so neither the `usize` additions nor the `as i64` casts of the code can overflow or wrap anywhere along it -/
theorem run_no_overflow (ops : List (Op F)) (a : Angle F) (ha : a.Inv) (hw : ∀ o ∈ ops, o.ArgInv)
    (hlen : ops.length ≤ 2 ^ 20) (ha40 : a.blade ≤ 2 ^ 40) (hops : ∀ o ∈ ops, o.argBlade ≤ 2 ^ 40) :
    (ops.foldl step a).blade < 2 ^ 62 := by
  have h := run_blade_le ops a ha hw
  have hsum : (ops.map (fun o => o.argBlade + 4)).sum ≤ ops.length * (2 ^ 40 + 4) := by
    have : ∀ x ∈ ops.map (fun o => o.argBlade + 4), x ≤ 2 ^ 40 + 4 := by
      intro x hx
      obtain ⟨o, ho, rfl⟩ := List.mem_map.mp hx
      have := hops o ho; omega
    have := List.sum_le_card_nsmul _ _ this
    simpa using this
  have : ops.length * (2 ^ 40 + 4) ≤ 2 ^ 20 * (2 ^ 40 + 4) := Nat.mul_le_mul_right _ hlen
  omega

/-- (S) Geonum operations return canonical angles: product, rotation, negation, duals, blade steps, wedge-style sums -/
theorem geonum_angle_ops_inv {a b : Geonum F} (ha : a.angle.Inv) (hb : b.angle.Inv) :
    (a.mul b).angle.Inv ∧ (a.rotate b.angle).angle.Inv ∧ a.negate.angle.Inv ∧ a.dual.angle.Inv ∧ a.undual.angle.Inv ∧
    a.baseAngle.angle.Inv ∧ (Geonum.angleMul a.angle b).angle.Inv := by
  exact ⟨geometricAdd_inv ha hb, geometricAdd_inv ha hb, inv_of_spec ha (negate_spec ha).2,
    inv_of_spec ha (dual_spec ha).2, inv_of_spec ha (dual_spec ha).2, ha, geometricAdd_inv ha hb⟩

/-- (S) product magnitudes: finite and non-negative for in-domain operands -/
theorem mul_mag_ok {a b : Geonum F} (ha : a.MagDom) (hb : b.MagDom) :
    Fin (a.mul b).mag ∧ 0 ≤ val (a.mul b).mag := by
  have := mul_dom ha.1 hb.1 ha.2.1 hb.2.1 ha.2.2 hb.2.2
  exact ⟨this.1, this.2.1⟩

/-- (S) sum magnitudes: finite and non-negative (never NaN) in every branch; relies on fix 05011a7 -/
theorem add_mag_ok' {a b : Geonum F} (ha : a.MagDom) (hb : b.MagDom) (hai : a.angle.Inv) (hbi : b.angle.Inv) :
    Fin (a.add b).mag ∧ 0 ≤ val (a.add b).mag :=
  Geonum.add_mag_ok' ha hb hai hbi

/-- (S) `Angle::new(x, PI)` — "radians in, angle out" — is canonical for every finite `|x| ≤ 2^41`: used by the general branch of
    `+`, by `Angle / f64`, by `pow`, and by the optics / machine-learning helpers -/
theorem new_radians_inv {x : F} (hx : Fin x) (hb : |val x| ≤ 2 ^ 41) : (Angle.new x (FloatLike.pi : F)).Inv :=
  Geonum.new_radians_inv hx hb

/-- (S) **the sum of two geometric numbers has a canonical angle in every branch** (blade sums up to `2^39`): same-angle and
    opposite branches return an operand's angle or `new_with_blade(ba+bb, 0, 1)`; the general branch re-encodes
    `atan2(…) − (ba+bb)·π/2` through `Angle::new(·, PI)` and adds the blade sum -/
theorem add_angle_inv {a b : Geonum F} (ha : a.angle.Inv) (hb : b.angle.Inv) (hma : a.MagDom) (hmb : b.MagDom)
    (hcb : a.angle.blade + b.angle.blade ≤ 2 ^ 39) : (a.add b).angle.Inv :=
  Geonum.add_angle_inv ha hb hma hmb hcb

/-- (S) the operations derived from `+`: difference, geometric product, rejection — canonical angles, as long as the intermediate
    magnitudes stay inside the domain (the property quantifies "for as long as they stay inside these bounds") -/
theorem derived_sums_canonical {a b : Geonum F} (ha : a.angle.Inv) (hb : b.angle.Inv) (hma : a.MagDom) (hmb : b.MagDom)
    (hbm : flt (fabs b.mag) e10 = false) (hcb : a.angle.blade + b.angle.blade + 6 ≤ 2 ^ 38)
    (hdm : (a.dot b).MagDom) (hwm : (a.wedge b).MagDom) (hpm : (a.project b).MagDom) :
    (a.sub b).angle.Inv ∧ (a.geo b).angle.Inv ∧ (a.reject b).angle.Inv := by
  have hn := negate_spec hb
  have hninv : b.negate.angle.Inv := inv_of_spec hb hn.2
  have hsub : (a.sub b).angle.Inv :=
    add_angle_inv ha hninv hma (show b.negate.MagDom from hmb) (by
      show a.angle.blade + b.angle.negate.blade ≤ 2 ^ 39
      rw [hn.1]; omega)
  -- geo = dot + wedge
  obtain ⟨hdl, _, hdinv⟩ := C09.dot_lattice a b
  obtain ⟨hwinv, _, hwb⟩ := C10.wedge_angle ha hb
  have hgeo : (a.geo b).angle.Inv :=
    add_angle_inv hdinv hwinv hdm hwm (by rcases hdl with h | h <;> rw [h] <;> omega)
  -- reject = a − project
  obtain ⟨hpinv, hpbl, _⟩ := C11.project_angle (a := a) hbm hb
  have hpn := negate_spec hpinv
  have hpninv : (a.project b).negate.angle.Inv := inv_of_spec hpinv hpn.2
  have hrej : (a.reject b).angle.Inv :=
    add_angle_inv ha hpninv hma (show (a.project b).negate.MagDom from hpm) (by
      show a.angle.blade + (a.project b).angle.negate.blade ≤ 2 ^ 39
      rw [hpn.1]; rcases hpbl with h | h <;> rw [h] <;> omega)
  exact ⟨hsub, hgeo, hrej⟩

/-- (S) the scalar constructor's angle is canonical, whatever the bits of its argument (NaN included: the test just fails) -/
theorem scalar_angle_inv (f : F) : (Geonum.scalar f).angle.Inv := by
  unfold Geonum.scalar
  simp only
  split
  · exact Angle.Equiv.inv (Angle.Equiv.symm new_zero_one) (inv_zero 0)
  · exact Angle.Equiv.inv (Angle.Equiv.symm new_one_one) (inv_zero 2)

/-- (S) the remaining Geonum operations return canonical angles whenever they return: inverse, `normalize`, quotient (all four
    spellings are this function), `scale`, reflection, `meet`, blade steps — for every magnitude, finite or not -/
theorem more_ops_canonical {a b : Geonum F} (f : F) (ha : a.angle.Inv) (hb : b.angle.Inv) :
    (∀ r, a.inv = some r → r.angle.Inv) ∧ (∀ r, a.normalize = some r → r.angle.Inv) ∧
    (∀ r, a.div b = some r → r.angle.Inv) ∧ (∀ r, a.divVV b = some r → r.angle.Inv) ∧
    (a.scale f).angle.Inv ∧ (a.reflect b).angle.Inv ∧ (a.meet b).angle.Inv := by
  have hneg : ∀ {x : Angle F}, x.Inv → x.negate.Inv := fun hx => inv_of_spec hx (negate_spec hx).2
  have hdual : ∀ {x : Angle F}, x.Inv → x.dual.Inv := fun hx => inv_of_spec hx (dual_spec hx).2
  have hinv : ∀ {g : Geonum F}, g.angle.Inv → ∀ r, g.inv = some r → r.angle.Inv := by
    intro g hg r hr
    unfold Geonum.inv at hr
    split at hr
    · cases hr
    · cases hr; exact hneg hg
  have hdiv : ∀ r, a.divVV b = some r → r.angle.Inv := by
    intro r hr
    unfold Geonum.divVV at hr
    cases hi : b.inv with
    | none => rw [hi] at hr; cases hr
    | some i =>
      rw [hi] at hr; simp only [Option.map_some, Option.some.injEq] at hr
      rw [← hr]; exact geometricAdd_inv ha (hinv hb i hi)
  refine ⟨hinv ha, ?_, hdiv, hdiv, geometricAdd_inv ha (scalar_angle_inv f), ?_, ?_⟩
  · intro r hr
    unfold Geonum.normalize at hr
    split at hr
    · cases hr
    · cases hr; exact ha
  · have h4inv : (Angle.new (four : F) one).Inv := Angle.Equiv.inv (Angle.Equiv.symm new_four_one) (inv_zero 8)
    exact geometricAdd_inv (geometricAdd_inv hb hb) (geometricSub_inv h4inv (baseAngle_inv ha))
  · have hw := (C10.wedge_angle (a := a.dual) (b := b.dual) (hdual ha) (hdual hb)).1
    exact hdual hw

/-- (S) `Angle / f64`, `pow` and `scale_rotate` return canonical angles -/
theorem divF_pow_canonical {g : Geonum F} {k n f : F} {r : Angle F} (hg : g.angle.Inv) (hr : r.Inv)
    (hq : Fin (fdiv (fadd (fmul (FloatLike.ofNat g.angle.blade) (fdiv pi two)) g.angle.rem) k))
    (hqb : |val (fdiv (fadd (fmul (FloatLike.ofNat g.angle.blade) (fdiv pi two)) g.angle.rem) k)| ≤ 2 ^ 41)
    (hn : Fin n) (hnb : |val n| ≤ 2 ^ 39) :
    (g.angle.divF k).Inv ∧ (g.angle.divFR k).Inv ∧ (g.pow n).angle.Inv ∧ (g.scaleRotate f r).angle.Inv := by
  have hdiv : (g.angle.divF k).Inv := new_radians_inv hq hqb
  have hp3 := piV_gt3 (F := F); have hp4 := piV_lt4 (F := F)
  have hnew : (Angle.new n (one : F)).Inv := by
    apply Angle.new_inv hn fin_one
    · calc |val n| ≤ 2 ^ 39 := hnb
        _ ≤ 10 ^ 200 := by
          calc (2:ℝ) ^ 39 ≤ 10 ^ 39 := by gcongr; norm_num
            _ ≤ 10 ^ 200 := pow_le_pow_right₀ (by norm_num) (by norm_num)
    · rw [val_one, abs_one, div_le_one (by positivity)]; exact one_le_pow₀ (by norm_num)
    · rw [val_one, div_one, abs_mul, abs_of_pos (by linarith : (0:ℝ) < piV F)]
      calc |val n| * piV F ≤ 2 ^ 39 * 4 := mul_le_mul hnb (le_of_lt hp4) (by linarith) (by positivity)
        _ ≤ 2 ^ 42 := by norm_num
  refine ⟨hdiv, hdiv, geometricAdd_inv hg hnew, ?_⟩
  unfold Geonum.scaleRotate Geonum.newWithAngle
  split
  · exact geometricAdd_inv (inv_of_spec hg (negate_spec hg).2) hr
  · exact geometricAdd_inv hg hr

/-- (S) **every binary / unary core measurement returns a canonical angle**: dot, wedge, projection (target not tiny), reflection,
    cosine and sine gateways — collected from the per-property theorems (C09–C15) -/
theorem measurements_canonical {a b : Geonum F} (ha : a.angle.Inv) (hb : b.angle.Inv)
    (hbm : flt (fabs b.mag) e10 = false) :
    (a.dot b).angle.Inv ∧ (a.wedge b).angle.Inv ∧ (a.project b).angle.Inv ∧ (a.reflect b).angle.Inv ∧
    (Geonum.cos a.angle).angle.Inv ∧ (Geonum.sin a.angle).angle.Inv := by
  have hl := C15.cos_sin_lattice ha
  have zinv : ∀ x : Angle F, Fin x.rem → val x.rem = 0 → x.Inv := by
    intro x hf hv
    refine ⟨hf, by rw [hv], ?_⟩
    rw [hv, zero_add]
    have h1 := val_e10_small (F := F); have h2 := val_qp_gt (F := F)
    have : (1:ℝ) / 10 ^ 9 ≤ 1 := by rw [div_le_one (by positivity)]; norm_num
    linarith
  refine ⟨(C09.dot_lattice a b).2.2, (C10.wedge_angle ha hb).1, (C11.project_angle hbm hb).1, (C12.reflect_blades ha hb).1, ?_, ?_⟩
  · -- cos: angle is new(0,1) or that plus π
    have st := C15.cos_sin_structure a.angle
    obtain ⟨_, hf0, _, hv0⟩ := new_zero_one (F := F)
    obtain ⟨_, hf1, _, hv1⟩ := new_one_one (F := F)
    simp only at hv0 hv1; rw [val_zero] at hv0 hv1
    have hinv0 : (Angle.new (zero : F) one).Inv := zinv _ hf0 hv0
    by_cases h : flt (FloatLike.cos a.angle.gradeAngle) (zero : F) = true
    · rw [st.2.2.2.1 h]; exact inv_of_spec hinv0 (add_whole hinv0 hf1 hv1).2
    · rw [st.2.2.1 (by simpa using h)]; exact hinv0
  · have st := C15.cos_sin_structure a.angle
    obtain ⟨_, hf1, _, hv1⟩ := new_one_one (F := F)
    simp only at hv1; rw [val_zero] at hv1
    by_cases h : flt (FloatLike.sin a.angle.gradeAngle) (zero : F) = true
    · rw [st.2.2.2.2.2 h, new_one_two]; exact inv_of_spec (inv_zero 1) (add_whole (inv_zero (F := F) 1) hf1 hv1).2
    · rw [st.2.2.2.2.1 (by simpa using h), new_one_two]; exact inv_zero 1

/-- (S) **measurement magnitudes are finite-non-negative**: dot, wedge, projection, distance (in-domain operands) -/
theorem measurement_mags_ok {a b : Geonum F} (ha : a.angle.Inv) (hb : b.angle.Inv) (hma : a.MagDom) (hmb : b.MagDom)
    (hbm : flt (fabs b.mag) e10 = false) :
    0 ≤ val (a.dot b).mag ∧ 0 ≤ val (a.wedge b).mag ∧ 0 ≤ val (a.project b).mag := by
  have hg := gradeAngle_fin (geometricSub_inv hb ha)
  have hr : InRange (F := F) (val a.mag * val b.mag) := inRange_of_le (by
    rw [abs_of_nonneg (mul_nonneg hma.2.1 hmb.2.1)]
    have : val a.mag * val b.mag ≤ 10 ^ 100 * 10 ^ 100 := mul_le_mul hma.2.2 hmb.2.2 hmb.2.1 (by positivity)
    norm_num at this ⊢; linarith)
  exact ⟨(C09.dot_bounds hma.1 hmb.1 hma.2.1 hmb.2.1 hg hr).1, (C10.wedge_mag_bounds hma.1 hmb.1 hma.2.1 hmb.2.1 hg hr).1,
    (C11.project_mag_bounds hma.1 hma.2.1 hbm hg).1⟩

end S

/-! non-vacuity: concrete arguments meeting the constructor hypotheses (exact arithmetic) -/
example : (Angle.new (3 : ℝ) (4 : ℝ)).Inv := by
  apply Angle.new_inv (F := ℝ) trivial trivial
  · show |(3:ℝ)| ≤ 10 ^ 200
    rw [abs_of_pos (by norm_num)]
    calc (3:ℝ) ≤ 10 ^ 1 := by norm_num
      _ ≤ 10 ^ 200 := pow_le_pow_right₀ (by norm_num) (by norm_num)
  · show (1:ℝ) / 10 ^ 200 ≤ |(4:ℝ)|
    rw [abs_of_pos (by norm_num)]
    calc (1:ℝ) / 10 ^ 200 ≤ 1 := by rw [div_le_one (by positivity)]; exact one_le_pow₀ (by norm_num)
      _ ≤ 4 := by norm_num
  · show |(3:ℝ) * Real.pi / 4| ≤ 2 ^ 42
    have := Real.pi_gt_three; have := Real.pi_lt_four
    rw [abs_of_pos (by positivity)]
    have : (3:ℝ) * Real.pi / 4 ≤ 3 := by nlinarith
    linarith

/-! ### R — the same theorems on an arithmetic that really rounds

  `R64` (Spec/RoundWitness.lean) is round-to-nearest on the binary64 grid with correctly rounded libm.  It satisfies the
  `FloatSpec` contract, so every S-tier theorem applies to it with the `Fin` / `InRange` premises discharged outright.
  The statements below are the headline C01 theorems in that form: they quantify over *all* pairs of finite binary64
  values in the stated ranges and over all histories, in rounded arithmetic, with no hypothesis left about the arithmetic. -/
section R

/-- (R) every `Angle::new` result is canonical in round-to-nearest binary64 arithmetic -/
theorem new_inv_rounded (p d : R64) (hpb : |p.v| ≤ 10 ^ 200) (hdl : 1 / 10 ^ 200 ≤ |d.v|)
    (hq : |p.v * R64.piR / d.v| ≤ 2 ^ 42) : (Angle.new p d).Inv :=
  new_inv_partial (F := R64) trivial trivial hpb hdl hq

/-- (R) every value of every history of angle operations is canonical, and its blade count stays below `2^62` -/
theorem run_rounded (ops : List (Op R64)) (a : Angle R64) (ha : a.Inv) (hw : ∀ o ∈ ops, o.ArgInv)
    (hlen : ops.length ≤ 2 ^ 20) (ha40 : a.blade ≤ 2 ^ 40) (hops : ∀ o ∈ ops, o.argBlade ≤ 2 ^ 40) :
    (ops.foldl step a).Inv ∧ (ops.foldl step a).blade < 2 ^ 62 :=
  ⟨run_inv ops a ha hw, run_no_overflow ops a ha hw hlen ha40 hops⟩

/-- (R) sums never have a NaN / negative magnitude: in `R64` the magnitude of `a + b` is a non-negative number for all
    in-domain operands with canonical angles -/
theorem add_mag_rounded {a b : Geonum R64} (ha : a.MagDom) (hb : b.MagDom) (hai : a.angle.Inv) (hbi : b.angle.Inv) :
    0 ≤ (a.add b).mag.v := (add_mag_ok' ha hb hai hbi).2

/-- non-vacuity in rounded arithmetic: `Angle::new(1.0, 3.0)` -/
example : (Angle.new (R64.ofReal 1) (R64.ofReal 3) : Angle R64).Inv := by
  have r1 : (R64.ofReal 1).v = 1 := R53.rnd_rep R64.rep_one
  have r3 : (R64.ofReal 3).v = 3 := R53.rnd_rep (by simpa using R53.rep_nat (n := 3) (by norm_num))
  apply new_inv_rounded
  · rw [r1, abs_one]; exact one_le_pow₀ (by norm_num)
  · rw [r3, abs_of_pos (by norm_num)]
    calc (1:ℝ) / 10 ^ 200 ≤ 1 := by rw [div_le_one (by positivity)]; exact one_le_pow₀ (by norm_num)
      _ ≤ 3 := by norm_num
  · rw [r1, r3]
    have := R64.piR_le; have := Real.pi_lt_four; have := R64.piR_pos
    rw [abs_of_pos (by positivity)]
    have : (1:ℝ) * R64.piR / 3 ≤ 2 := by linarith
    have : (2:ℝ) ≤ 2 ^ 42 := by norm_num
    linarith

end R

end GeonumModel.C01
