/-
  C01 — Angles stay canonical and core operations stay total.

  The reachable-state invariant `Angle.Inv` (finite remainder in `[0, π/2 − 1e-10]`, hence in the documented `[0, π/2)`)
  is established by every constructor and preserved by every operation, for rounded arithmetic (S-tier); so it holds for
  every intermediate value of every operation sequence, of any length.  Magnitudes stay finite and non-negative.
  Panics are characterised exactly (G-tier).
-/
import GeonumModel.Lemmas.AngleNewTotal
import GeonumModel.Lemmas.GeonumMag
import GeonumModel.Spec.RealWitness
import GeonumModel.Props.C09
import GeonumModel.Props.C10
import GeonumModel.Props.C11
import GeonumModel.Props.C12
import GeonumModel.Props.C13
import GeonumModel.Props.C15

set_option linter.unusedSectionVars false
set_option linter.unusedVariables false

namespace GeonumModel.C01
open GeonumModel FloatLike FloatSpec Angle Geonum

section G
variable {F : Type} [FloatLike F]

/-- (G) the three documented panics, and only under the documented condition: inverse / division, normalisation, circle
    inversion are `none` exactly when the tested magnitude compares equal to zero -/
theorem panics_exactly (g o : Geonum F) (r : F) :
    (g.inv = none ↔ feq g.mag zero = true) ∧ (o.div g = none ↔ feq g.mag zero = true) ∧
    (o.divVV g = none ↔ feq g.mag zero = true) ∧ (g.normalize = none ↔ feq g.mag zero = true) ∧
    (g.invertCircle o r = none ↔ feq (g.sub o).mag zero = true) := by
  refine ⟨?_, ?_, ?_, ?_, ?_⟩
  · unfold Geonum.inv; by_cases h : feq g.mag zero = true <;> simp [h]
  · unfold Geonum.div Geonum.inv; by_cases h : feq g.mag zero = true <;> simp [h]
  · unfold Geonum.divVV Geonum.inv; by_cases h : feq g.mag zero = true <;> simp [h]
  · unfold Geonum.normalize; by_cases h : feq g.mag zero = true <;> simp [h]
  · unfold Geonum.invertCircle; by_cases h : feq (g.sub o).mag zero = true <;> simp [h]
end G

section S
variable {F : Type} [FloatSpec F]

/-- (S) the invariant implies the documented range: finite remainder in `[0, π/2)` -/
theorem inv_canonical {a : Angle F} (h : a.Inv) : Fin a.rem ∧ 0 ≤ val a.rem ∧ val a.rem < val (qp : F) := h.canon

/-- (S) **constructors establish the invariant.**  `Angle::new` for every finite `p`, `d` with `|p| ≤ 1e200`, `|d| ≥ 1e-200`
    and `|p·π/d| ≤ 2^42` (the property's `|2p/d| ≤ 2^40` implies `|p·π/d| < 2^41`); relies on fix f40c5b0 (clamp of the
    negative path).  PARTIAL w.r.t. the property's "all finite p, d": beyond `1e200` / below `1e-200` the intermediate
    product `p·π` can overflow or lose all precision (e.g. `Angle::new(1e308, 1e308)` has a NaN remainder). -/
theorem new_inv_partial {p d : F} (hp : Fin p) (hd : Fin d) (hpb : |val p| ≤ 10 ^ 200)
    (hdl : 1 / 10 ^ 200 ≤ |val d|) (hq : |val p * piV F / val d| ≤ 2 ^ 42) : (Angle.new p d).Inv :=
  Angle.new_inv hp hd hpb hdl hq

/-- (S) `new_with_blade` on top of it -/
theorem newWithBlade_inv_partial {p d : F} (k : ℕ) (hk : k < 2 ^ 53) (hp : Fin p) (hd : Fin d) (hpb : |val p| ≤ 10 ^ 200)
    (hdl : 1 / 10 ^ 200 ≤ |val d|) (hq : |val p * piV F / val d| ≤ 2 ^ 42) : (Angle.newWithBlade k p d).Inv := by
  unfold Angle.newWithBlade
  simp only [Angle.add, addVV]
  rw [new_nat k hk]
  exact geometricAdd_inv (Angle.new_inv hp hd hpb hdl hq) (inv_zero k)

/-- (S) Cartesian constructor: `atan2` returns a value in `[−π_f, π_f]`, divided by `π_f` it is in `[−1, 1]`, so the
    general path applies with `|p·π/d| ≤ 4` -/
theorem newFromCartesian_inv {x y : F} (hx : Fin x) (hy : Fin y) : (Angle.newFromCartesian x y).Inv := by
  obtain ⟨hfa, hab, _⟩ := atan2_spec hy hx
  have hp3 := piV_gt3 (F := F); have hp4 := piV_lt4 (F := F)
  have hquot : |val (FloatLike.atan2 y x) / piV F| ≤ 1 := by
    rw [abs_div, abs_of_pos (by linarith : (0:ℝ) < piV F), div_le_one (by linarith)]; exact hab
  obtain ⟨hfd, hvd⟩ := fdiv_spec hfa (fin_pi (F := F)) (by rw [val_pi]; linarith)
    (by rw [val_pi]; apply inRange_of_abs_le_1000; linarith)
  rw [val_pi] at hvd
  have hb : |val (fdiv (FloatLike.atan2 y x) (FloatLike.pi : F))| ≤ 1 := by
    rw [hvd, abs_le]
    rw [abs_le] at hquot
    have r1 : rnd (F := F) 1 = 1 := by have := rnd_nat (F := F) (n := 1) (by norm_num); simpa using this
    have rm1 : rnd (F := F) (-1) = -1 := by
      have := rep_neg (F := F) (rep_nat (F := F) (n := 1) (by norm_num)); simpa using rnd_rep this
    exact ⟨by rw [← rm1]; exact rnd_mono hquot.1, by rw [← r1]; exact rnd_mono hquot.2⟩
  unfold Angle.newFromCartesian
  apply Angle.new_inv hfd fin_one
  · calc |val (fdiv (FloatLike.atan2 y x) (FloatLike.pi : F))| ≤ 1 := hb
      _ ≤ 10 ^ 200 := one_le_pow₀ (by norm_num)
  · rw [val_one, abs_one]; rw [div_le_one (by positivity)]; exact one_le_pow₀ (by norm_num)
  · rw [val_one, div_one, abs_mul, abs_of_pos (by linarith : (0:ℝ) < piV F)]
    have : |val (fdiv (FloatLike.atan2 y x) (FloatLike.pi : F))| * piV F ≤ 1 * 4 :=
      mul_le_mul hb (le_of_lt hp4) (by linarith) (by norm_num)
    have : (1:ℝ) * 4 ≤ 2 ^ 42 := by norm_num
    linarith

/-- (S) **angle operations preserve the invariant**: `+ * rotate`, `- /`, `dual undual negate conjugate base_angle` -/
theorem angle_ops_inv {a b : Angle F} (ha : a.Inv) (hb : b.Inv) :
    (a.geometricAdd b).Inv ∧ (a.geometricSub b).Inv ∧ a.dual.Inv ∧ a.undual.Inv ∧ a.negate.Inv ∧ a.conjugate.Inv ∧
    a.baseAngle.Inv ∧ (a.rotate b).Inv :=
  ⟨geometricAdd_inv ha hb, geometricSub_inv ha hb, inv_of_spec ha (dual_spec ha).2, inv_of_spec ha (dual_spec ha).2,
   inv_of_spec ha (negate_spec ha).2, inv_of_spec ha (negate_spec ha).2, ha, geometricAdd_inv ha hb⟩

/-- the angle-level operation alphabet for histories -/
inductive Op (F : Type) | add (x : Angle F) | sub (x : Angle F) | rsub (x : Angle F) | dual | negate | conjugate | base

def step : Angle F → Op F → Angle F
  | a, .add x => a.geometricAdd x | a, .sub x => a.geometricSub x | a, .rsub x => x.geometricSub a
  | a, .dual => a.dual | a, .negate => a.negate | a, .conjugate => a.conjugate | a, .base => a.baseAngle

def Op.ArgInv : Op F → Prop | .add x => x.Inv | .sub x => x.Inv | .rsub x => x.Inv | _ => True

theorem step_inv {a : Angle F} (ha : a.Inv) (o : Op F) (ho : o.ArgInv) : (step a o).Inv := by
  cases o with
  | add x => exact geometricAdd_inv ha ho
  | sub x => exact geometricSub_inv ha ho
  | rsub x => exact geometricSub_inv ho ha
  | dual => exact inv_of_spec ha (dual_spec ha).2
  | negate => exact inv_of_spec ha (negate_spec ha).2
  | conjugate => exact inv_of_spec ha (negate_spec ha).2
  | base => exact ha

/-- (S) **history form**: every value of every operation sequence of any length, started from a canonical angle with
    canonical operands, is canonical -/
theorem run_inv (ops : List (Op F)) (a : Angle F) (ha : a.Inv) (hw : ∀ o ∈ ops, o.ArgInv) :
    (ops.foldl step a).Inv := by
  induction ops generalizing a with
  | nil => exact ha
  | cons o os ih =>
    exact ih (step a o) (step_inv ha o (hw o List.mem_cons_self)) (fun o' ho' => hw o' (List.mem_cons_of_mem _ ho'))

/-- (S) Geonum operations return canonical angles: product, rotation, negation, duals, blade steps, wedge-style sums -/
theorem geonum_angle_ops_inv {a b : Geonum F} (ha : a.angle.Inv) (hb : b.angle.Inv) :
    (a.mul b).angle.Inv ∧ (a.rotate b.angle).angle.Inv ∧ a.negate.angle.Inv ∧ a.dual.angle.Inv ∧ a.undual.angle.Inv ∧
    a.baseAngle.angle.Inv ∧ (Geonum.angleMul a.angle b).angle.Inv := by
  exact ⟨geometricAdd_inv ha hb, geometricAdd_inv ha hb, inv_of_spec ha (negate_spec ha).2,
    inv_of_spec ha (dual_spec ha).2, inv_of_spec ha (dual_spec ha).2, ha, geometricAdd_inv ha hb⟩

/-- (S) product magnitudes: finite and non-negative for in-domain operands -/
theorem mul_mag_ok {a b : Geonum F} (ha : a.MagDom) (hb : b.MagDom) :
    Fin (a.mul b).mag ∧ 0 ≤ val (a.mul b).mag := by
  have := mul_dom ha.1 hb.1 ha.2.1 hb.2.1 ha.2.2 hb.2.2
  exact ⟨this.1, this.2.1⟩

/-- (S) sum magnitudes: finite and non-negative (never NaN) in every branch; relies on fix 05011a7 -/
theorem add_mag_ok' {a b : Geonum F} (ha : a.MagDom) (hb : b.MagDom) (hai : a.angle.Inv) (hbi : b.angle.Inv) :
    Fin (a.add b).mag ∧ 0 ≤ val (a.add b).mag :=
  add_mag_ok ha hb (gradeAngle_sub_fin hai hbi)

/-- (S) **every binary / unary core measurement returns a canonical angle**: dot, wedge, projection (target not tiny), reflection,
    cosine and sine gateways — collected from the per-property theorems (C09–C15) -/
theorem measurements_canonical {a b : Geonum F} (ha : a.angle.Inv) (hb : b.angle.Inv)
    (hbm : flt (fabs b.mag) e10 = false) :
    (a.dot b).angle.Inv ∧ (a.wedge b).angle.Inv ∧ (a.project b).angle.Inv ∧ (a.reflect b).angle.Inv ∧
    (Geonum.cos a.angle).angle.Inv ∧ (Geonum.sin a.angle).angle.Inv := by
  have hl := C15.cos_sin_lattice ha
  have zinv : ∀ x : Angle F, Fin x.rem → val x.rem = 0 → x.Inv := by
    intro x hf hv
    refine ⟨hf, by rw [hv], ?_⟩
    rw [hv, zero_add]
    have h1 := val_e10_small (F := F); have h2 := val_qp_gt (F := F)
    have : (1:ℝ) / 10 ^ 9 ≤ 1 := by rw [div_le_one (by positivity)]; norm_num
    linarith
  refine ⟨(C09.dot_lattice a b).2.2, (C10.wedge_angle ha hb).1, (C11.project_angle hbm hb).1, (C12.reflect_blades ha hb).1, ?_, ?_⟩
  · -- cos: angle is new(0,1) or that plus π
    have st := C15.cos_sin_structure a.angle
    obtain ⟨_, hf0, _, hv0⟩ := new_zero_one (F := F)
    obtain ⟨_, hf1, _, hv1⟩ := new_one_one (F := F)
    simp only at hv0 hv1; rw [val_zero] at hv0 hv1
    have hinv0 : (Angle.new (zero : F) one).Inv := zinv _ hf0 hv0
    by_cases h : flt (FloatLike.cos a.angle.gradeAngle) (zero : F) = true
    · rw [st.2.2.2.1 h]; exact inv_of_spec hinv0 (add_whole hinv0 hf1 hv1).2
    · rw [st.2.2.1 (by simpa using h)]; exact hinv0
  · have st := C15.cos_sin_structure a.angle
    obtain ⟨_, hf1, _, hv1⟩ := new_one_one (F := F)
    simp only at hv1; rw [val_zero] at hv1
    by_cases h : flt (FloatLike.sin a.angle.gradeAngle) (zero : F) = true
    · rw [st.2.2.2.2.2 h, new_one_two]; exact inv_of_spec (inv_zero 1) (add_whole (inv_zero (F := F) 1) hf1 hv1).2
    · rw [st.2.2.2.2.1 (by simpa using h), new_one_two]; exact inv_zero 1

/-- (S) **measurement magnitudes are finite-non-negative**: dot, wedge, projection, distance (in-domain operands) -/
theorem measurement_mags_ok {a b : Geonum F} (ha : a.angle.Inv) (hb : b.angle.Inv) (hma : a.MagDom) (hmb : b.MagDom)
    (hbm : flt (fabs b.mag) e10 = false) :
    0 ≤ val (a.dot b).mag ∧ 0 ≤ val (a.wedge b).mag ∧ 0 ≤ val (a.project b).mag := by
  have hg := gradeAngle_fin (geometricSub_inv hb ha)
  have hr : InRange (F := F) (val a.mag * val b.mag) := inRange_of_le (by
    rw [abs_of_nonneg (mul_nonneg hma.2.1 hmb.2.1)]
    have : val a.mag * val b.mag ≤ 10 ^ 100 * 10 ^ 100 := mul_le_mul hma.2.2 hmb.2.2 hmb.2.1 (by positivity)
    norm_num at this ⊢; linarith)
  exact ⟨(C09.dot_bounds hma.1 hmb.1 hma.2.1 hmb.2.1 hg hr).1, (C10.wedge_mag_bounds hma.1 hmb.1 hma.2.1 hmb.2.1 hg hr).1,
    (C11.project_mag_bounds hma.1 hma.2.1 hbm hg).1⟩

end S

/-! non-vacuity: concrete arguments meeting the constructor hypotheses (exact arithmetic) -/
example : (Angle.new (3 : ℝ) (4 : ℝ)).Inv := by
  apply Angle.new_inv (F := ℝ) trivial trivial
  · show |(3:ℝ)| ≤ 10 ^ 200
    rw [abs_of_pos (by norm_num)]
    calc (3:ℝ) ≤ 10 ^ 1 := by norm_num
      _ ≤ 10 ^ 200 := pow_le_pow_right₀ (by norm_num) (by norm_num)
  · show (1:ℝ) / 10 ^ 200 ≤ |(4:ℝ)|
    rw [abs_of_pos (by norm_num)]
    calc (1:ℝ) / 10 ^ 200 ≤ 1 := by rw [div_le_one (by positivity)]; exact one_le_pow₀ (by norm_num)
      _ ≤ 4 := by norm_num
  · show |(3:ℝ) * Real.pi / 4| ≤ 2 ^ 42
    have := Real.pi_gt_three; have := Real.pi_lt_four
    rw [abs_of_pos (by positivity)]
    have : (3:ℝ) * Real.pi / 4 ≤ 3 := by nlinarith
    linarith

end GeonumModel.C01
