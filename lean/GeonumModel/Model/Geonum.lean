/-
  GeonumModel.Model.Geonum — hand transcription of /repo/src/geonum_mod.rs (non-test code).
  Panicking functions return `Option` (`none` = panic).
-/
import GeonumModel.Model.Angle

namespace GeonumModel
open FloatLike

/-- `struct Geonum { mag: f64, angle: Angle }` (geonum_mod.rs:15) -/
structure Geonum (F : Type) where
  mag : F
  angle : Angle F

namespace Geonum
variable {F : Type} [FloatLike F]

/-- `Geonum::new(mag, pi_radians, divisor)` (geonum_mod.rs:32) -/
def new (mag p d : F) : Geonum F := ⟨mag, Angle.new p d⟩
/-- `Geonum::new_with_angle` (geonum_mod.rs:47) -/
def newWithAngle (mag : F) (angle : Angle F) : Geonum F := ⟨mag, angle⟩
/-- `Geonum::new_from_cartesian` (geonum_mod.rs:59) -/
def newFromCartesian (x y : F) : Geonum F :=
  let sumOfSquares := fadd (fmul x x) (fmul y y)
  -- the squares overflow / lose their digits at extreme scales: rescale by the larger component exactly when the sum is not normal
  let scale := fmax (fabs x) (fabs y)
  let mag :=
    if isNormal sumOfSquares || feq scale zero || !(isFinite scale) then sqrt sumOfSquares
    else
      let u := fdiv x scale
      let v := fdiv y scale
      fmul scale (sqrt (fadd (fmul u u) (fmul v v)))
  ⟨mag, Angle.newFromCartesian x y⟩
/-- `Geonum::new_with_blade` (geonum_mod.rs:80) -/
def newWithBlade (mag : F) (blade : Nat) (p d : F) : Geonum F := ⟨mag, Angle.newWithBlade blade p d⟩
/-- `Geonum::create_dimension` (geonum_mod.rs:95) -/
def createDimension (mag : F) (k : Nat) : Geonum F := ⟨mag, Angle.new (ofNat k : F) two⟩
/-- `Geonum::scalar` (geonum_mod.rs:109) -/
def scalar (v : F) : Geonum F :=
  ⟨fabs v, if fge v zero then Angle.new zero one else Angle.new one one⟩

/-- `increment_blade` (geonum_mod.rs:125) -/
def incrementBlade (g : Geonum F) : Geonum F := ⟨g.mag, g.angle.add (Angle.new one two)⟩
/-- `decrement_blade` (geonum_mod.rs:138) -/
def decrementBlade (g : Geonum F) : Geonum F := ⟨g.mag, g.angle.add (Angle.new (fneg one) two)⟩
/-- `dual` (geonum_mod.rs:153) -/
def dual (g : Geonum F) : Geonum F := newWithAngle g.mag g.angle.dual
/-- `undual` (geonum_mod.rs:161) -/
def undual (g : Geonum F) : Geonum F := newWithAngle g.mag g.angle.undual
/-- `copy_blade` (geonum_mod.rs:173) -/
def copyBlade (g other : Geonum F) : Geonum F :=
  let diff : Int := (other.angle.blade : Int) - (g.angle.blade : Int)
  ⟨g.mag, g.angle.add (Angle.new (ofInt diff : F) two)⟩
/-- `differentiate` (geonum_mod.rs:192) -/
def differentiate (g : Geonum F) : Geonum F := ⟨g.mag, g.angle.add (Angle.new one two)⟩
/-- `integrate` (geonum_mod.rs:208) -/
def integrate (g : Geonum F) : Geonum F := ⟨g.mag, g.angle.add (Angle.new three two)⟩

/-- `impl Mul for Geonum` (geonum_mod.rs:855) -/
def mul (a b : Geonum F) : Geonum F := ⟨fmul a.mag b.mag, a.angle.add b.angle⟩
def mulRR (a b : Geonum F) : Geonum F := a.mul b
def mulRV (a b : Geonum F) : Geonum F := a.mul b
def mulVR (a b : Geonum F) : Geonum F := a.mul b

/-- `inv` (geonum_mod.rs:228); `none` = panic -/
def inv (g : Geonum F) : Option (Geonum F) :=
  if feq g.mag zero then none else some ⟨fdiv one g.mag, g.angle.negate⟩
/-- inherent `div(&self, &other)` (geonum_mod.rs:250): `*self * other.inv()` -/
def div (a b : Geonum F) : Option (Geonum F) := b.inv.map fun i => a.mul i
/-- `impl Div for Geonum` (geonum_mod.rs:947): `self.mul(other.inv())` -/
def divVV (a b : Geonum F) : Option (Geonum F) := b.inv.map fun i => a.mul i
def divRR (a b : Geonum F) : Option (Geonum F) := a.divVV b
def divRV (a b : Geonum F) : Option (Geonum F) := a.divVV b
def divVR (a b : Geonum F) : Option (Geonum F) := a.divVV b
/-- `normalize` (geonum_mod.rs:262) -/
def normalize (g : Geonum F) : Option (Geonum F) :=
  if feq g.mag zero then none else some ⟨one, g.angle⟩

/-- `signed_at` (geonum_mod.rs:665) -/
def signedAt (value : F) (base : Angle F) : Geonum F :=
  newWithAngle (fabs value) (if flt value zero then base.add (Angle.new one one) else base)

/-- `dot` (geonum_mod.rs:281) -/
def dot (a b : Geonum F) : Geonum F :=
  let angleDiff := b.angle.sub a.angle
  let cosC := FloatLike.cos angleDiff.gradeAngle
  let value := fmul (fmul a.mag b.mag) cosC
  signedAt value (Angle.new zero one)

/-- `project_to_dimension` (geonum_mod.rs:297) -/
def projectToDimension (g : Geonum F) (k : Nat) : F :=
  fmul g.mag (g.angle.project (Angle.newWithBlade k zero one))

/-- `wedge` (geonum_mod.rs:310) -/
def wedge (a b : Geonum F) : Geonum F :=
  let angleDiff := b.angle.sub a.angle
  let sinV := FloatLike.sin angleDiff.gradeAngle
  let mag := fmul (fmul a.mag b.mag) (fabs sinV)
  let angle := (a.angle.add b.angle).add (Angle.new one two)
  ⟨mag, if flt sinV zero then angle.add (Angle.new one one) else angle⟩

/-- `rotate` (geonum_mod.rs:348) -/
def rotate (g : Geonum F) (r : Angle F) : Geonum F := ⟨g.mag, g.angle.rotate r⟩
/-- `negate` (geonum_mod.rs:374) -/
def negate (g : Geonum F) : Geonum F := ⟨g.mag, g.angle.negate⟩

/-- `impl Add for Geonum` (geonum_mod.rs:713) -/
def add (a b : Geonum F) : Geonum F :=
  if a.angle.beq b.angle then ⟨fadd a.mag b.mag, a.angle⟩
  else
    let piRot : Angle F := Angle.new one one
    if (a.angle.add piRot).beq b.angle || (b.angle.add piRot).beq a.angle then
      let diff := fsub a.mag b.mag
      if flt (fabs diff) e10 then
        ⟨zero, Angle.newWithBlade (a.angle.blade + b.angle.blade) zero one⟩
      else if fgt diff zero then ⟨diff, a.angle⟩
      else ⟨fneg diff, b.angle⟩
    else
      let angle1 := a.angle.gradeAngle
      let angle2 := b.angle.gradeAngle
      let oppSum := fadd (fmul a.mag (FloatLike.sin angle1)) (fmul b.mag (FloatLike.sin angle2))
      let adjSum := fadd (fmul a.mag (FloatLike.cos angle1)) (fmul b.mag (FloatLike.cos angle2))
      let resultAngle := FloatLike.atan2 oppSum adjSum
      let angleDiff := fsub angle2 angle1
      let radicand :=
        fadd (fadd (fmul a.mag a.mag) (fmul b.mag b.mag))
             (fmul (fmul (fmul two a.mag) b.mag) (FloatLike.cos angleDiff))
      let resultMag := sqrt (fmax radicand zero)
      let combined := a.angle.blade + b.angle.blade
      let bladeShift := fdiv (fmul (ofNat combined) pi) two
      let adjusted := fsub resultAngle bladeShift
      newWithBlade resultMag combined adjusted pi
def addRR (a b : Geonum F) : Geonum F := a.add b
def addRV (a b : Geonum F) : Geonum F := a.add b
def addVR (a b : Geonum F) : Geonum F := a.add b

/-- `impl Sub for Geonum` (geonum_mod.rs:816) -/
def sub (a b : Geonum F) : Geonum F := a.add b.negate
def subRR (a b : Geonum F) : Geonum F := a.sub b
def subRV (a b : Geonum F) : Geonum F := a.sub b
def subVR (a b : Geonum F) : Geonum F := a.sub b

/-- `geo` (geonum_mod.rs:334) -/
def geo (a b : Geonum F) : Geonum F := (a.dot b).add (a.wedge b)

/-- `reflect` (geonum_mod.rs:388) -/
def reflect (g axis : Geonum F) : Geonum F :=
  let complement := (Angle.new four one : Angle F).sub g.angle.baseAngle
  newWithAngle g.mag ((axis.angle.add axis.angle).add complement)

/-- `project` (geonum_mod.rs:411) -/
def project (g onto : Geonum F) : Geonum F :=
  if flt (fabs onto.mag) e10 then
    ⟨zero, Angle.newWithBlade g.angle.blade zero one⟩
  else
    let factor := g.angle.project onto.angle
    let mag := fmul g.mag (fabs factor)
    newWithAngle mag (if fge factor zero then onto.angle else onto.angle.add (Angle.new one one))

/-- `reject` (geonum_mod.rs:439) -/
def reject (g fromG : Geonum F) : Geonum F := g.sub (g.project fromG)

/-- `is_orthogonal` (geonum_mod.rs:468) -/
def isOrthogonal (a b : Geonum F) : Bool := flt (fabs (a.dot b).mag) e10

/-- `mag_diff` (geonum_mod.rs:498) -/
def magDiff (a b : Geonum F) : F := fabs (fsub a.mag b.mag)

/-- `pow` (geonum_mod.rs:510) -/
def pow (g : Geonum F) (n : F) : Geonum F :=
  ⟨FloatLike.powf g.mag n, g.angle.mulVV (Angle.new n one)⟩

/-- `meet` (geonum_mod.rs:527) -/
def meet (a b : Geonum F) : Geonum F := (a.dual.wedge b.dual).dual

/-- `scale` (geonum_mod.rs:546) -/
def scale (g : Geonum F) (factor : F) : Geonum F := g.mul (scalar factor)

/-- `invert_circle` (geonum_mod.rs:564); `none` = panic -/
def invertCircle (g center : Geonum F) (radius : F) : Option (Geonum F) :=
  let offset := g.sub center
  if feq offset.mag zero then none
  else
    let inverted := newWithAngle (fdiv (fmul radius radius) offset.mag) offset.angle
    some (center.add inverted)

/-- `Geonum::base_angle` (geonum_mod.rs:601) -/
def baseAngle (g : Geonum F) : Geonum F := ⟨g.mag, g.angle.baseAngle⟩

/-- `scale_rotate` (geonum_mod.rs:629) -/
def scaleRotate (g : Geonum F) (factor : F) (rotation : Angle F) : Geonum F :=
  if flt factor zero then
    newWithAngle (fmul g.mag (fabs factor)) (g.angle.negate.add rotation)
  else
    newWithAngle (fmul g.mag factor) (g.angle.add rotation)

/-- `distance_to` (geonum_mod.rs:643) -/
def distanceTo (a b : Geonum F) : Geonum F :=
  let between := b.angle.sub a.angle
  let d2 := fsub (fadd (fmul a.mag a.mag) (fmul b.mag b.mag))
                 (fmul (fmul (fmul two a.mag) b.mag) (FloatLike.cos between.gradeAngle))
  scalar (sqrt (fmax d2 zero))

/-- `Geonum::cos` (geonum_mod.rs:676) -/
def cos (a : Angle F) : Geonum F := signedAt (FloatLike.cos a.gradeAngle) (Angle.new zero one)
/-- `Geonum::sin` (geonum_mod.rs:683) -/
def sin (a : Angle F) : Geonum F := signedAt (FloatLike.sin a.gradeAngle) (Angle.new one two)
/-- `Geonum::tan` (geonum_mod.rs:689): `s.div(&c)`; `none` = panic when the cosine magnitude is 0 -/
def tan (a : Angle F) : Option (Geonum F) := (sin a).divVR (cos a)
/-- `adj` (geonum_mod.rs:655) -/
def adj (g : Geonum F) : Geonum F := (cos g.angle).scale g.mag
/-- `opp` (geonum_mod.rs:660) -/
def opp (g : Geonum F) : Geonum F := (sin g.angle).scale g.mag

/-- `project_to_angle` (geonum_mod.rs:697) -/
def projectToAngle (g : Geonum F) (onto : Angle F) : Geonum F :=
  let cosC := FloatLike.cos (onto.sub g.angle).gradeAngle
  if fge cosC zero then newWithAngle (fmul g.mag cosC) (Angle.new zero one)
  else newWithAngle (fmul g.mag (fneg cosC)) (Angle.new one one)

/-- `impl Mul<Geonum> for Angle` (geonum_mod.rs:899) -/
def angleMul (a : Angle F) (g : Geonum F) : Geonum F := ⟨g.mag, a.add g.angle⟩
/-- `impl Mul<&Geonum> for Angle` (geonum_mod.rs:912) -/
def angleMulR (a : Angle F) (g : Geonum F) : Geonum F := ⟨g.mag, a.add g.angle⟩
/-- `impl Add<Geonum> for Angle` (geonum_mod.rs:924) -/
def angleAdd (a : Angle F) (g : Geonum F) : Geonum F := ⟨g.mag, a.add g.angle⟩
/-- `impl Add<&Geonum> for Angle` (geonum_mod.rs:936) -/
def angleAddR (a : Angle F) (g : Geonum F) : Geonum F := ⟨g.mag, a.add g.angle⟩

/-- derived `PartialEq` (geonum_mod.rs:14): `mag == mag && angle == angle` -/
def beq (a b : Geonum F) : Bool := feq a.mag b.mag && a.angle.beq b.angle

/-- `impl Ord for Geonum` (geonum_mod.rs:992); `none` = panic inside `Angle::cmp` -/
def cmp (a b : Geonum F) : Option Ordering :=
  match a.angle.cmp b.angle with
  | none => none
  | some .eq => some ((Angle.fcmp a.mag b.mag).getD .eq)
  | some o => some o

/-- `impl PartialOrd for Geonum` (geonum_mod.rs:986) -/
def partialCmp (a b : Geonum F) : Option (Option Ordering) := (a.cmp b).map some

end Geonum
end GeonumModel

namespace GeonumModel
namespace Geonum
variable {F : Type} [FloatLike F]

/-- the relation `Vec<Geonum>::sort()` sorts by: `a.cmp(b) != Greater` -/
def le (a b : Geonum F) : Bool := a.cmp b != some .gt

/-- `Vec<Geonum>::sort()` (std, stable merge sort) on the model `cmp`; `none` = a comparison panicked -/
def sort (l : List (Geonum F)) : Option (List (Geonum F)) :=
  if l.all (fun a => (a.angle.cmp a.angle).isSome) then some (l.mergeSort le) else none

end Geonum
end GeonumModel
