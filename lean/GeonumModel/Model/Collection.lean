/-
  GeonumModel.Model.Collection — hand transcription of /repo/src/geocollection.rs (non-test code).
  `Vec<Geonum>` is `List (Geonum F)`.
-/
import GeonumModel.Model.Geonum

namespace GeonumModel
open FloatLike

/-- `struct GeoCollection { objects: Vec<Geonum> }` (geocollection.rs:15) -/
structure GeoCollection (F : Type) where
  objects : List (Geonum F)

namespace GeoCollection
variable {F : Type} [FloatLike F]

def new : GeoCollection F := ⟨[]⟩
def default : GeoCollection F := new
def len (c : GeoCollection F) : Nat := c.objects.length
def isEmpty (c : GeoCollection F) : Bool := c.objects.isEmpty
/-- `iter`, both `IntoIterator`s, both `AsRef`s: the member sequence itself -/
def iter (c : GeoCollection F) : List (Geonum F) := c.objects
def intoIter (c : GeoCollection F) : List (Geonum F) := c.objects
def intoIterRef (c : GeoCollection F) : List (Geonum F) := c.objects
def asRefVec (c : GeoCollection F) : List (Geonum F) := c.objects
def asRefSlice (c : GeoCollection F) : List (Geonum F) := c.objects
/-- `From<Vec<Geonum>>` -/
def fromVec (v : List (Geonum F)) : GeoCollection F := ⟨v⟩
/-- `FromIterator<Geonum>` -/
def fromIter (v : List (Geonum F)) : GeoCollection F := ⟨v⟩
/-- `Index<usize>`; `none` = out-of-bounds panic -/
def index (c : GeoCollection F) (i : Nat) : Option (Geonum F) := c.objects[i]?

/-- `truncate` (geocollection.rs:104) -/
def truncate (c : GeoCollection F) (threshold : F) : GeoCollection F :=
  fromVec (c.objects.filter fun g => fgt g.mag threshold)

/-- the closure of `select_cone` (geocollection.rs:122-134) -/
def inCone (direction : Geonum F) (halfAngle : F) (g : Geonum F) : Bool :=
  let magnitude := fmul g.mag direction.mag
  if feq magnitude zero then false
  else
    let dot := g.dot direction
    let signedCos := fmul (fdiv dot.mag magnitude) (dot.angle.project (Angle.new zero one))
    let between := FloatLike.acos (FloatLike.clamp signedCos (fneg one) one)
    fle between halfAngle

/-- `select_cone` (geocollection.rs:117) -/
def selectCone (c : GeoCollection F) (direction : Geonum F) (halfAngle : F) : GeoCollection F :=
  fromVec (c.objects.filter (inCone direction halfAngle))

/-- `total_magnitude` (geocollection.rs:143): `Iterator::sum::<f64>` folds `+` from `-0.0` -/
def totalMagnitude (c : GeoCollection F) : F :=
  (c.objects.map (·.mag)).foldl fadd (fneg zero)

/-- one step of `Iterator::max_by` with `partial_cmp().unwrap()`: keeps the later element unless the
    accumulator is strictly greater; `none` = `unwrap` panic on an unordered pair -/
def maxStep (acc : Option (Geonum F)) (g : Geonum F) : Option (Geonum F) :=
  match acc with
  | none => none
  | some a =>
    match Angle.fcmp a.mag g.mag with
    | none => none
    | some .gt => some a
    | some _ => some g

/-- `dominant` (geocollection.rs:152): outer `none` = panic, inner `none` = empty collection -/
def dominant (c : GeoCollection F) : Option (Option (Geonum F)) :=
  match c.objects with
  | [] => some none
  | g :: rest => (rest.foldl maxStep (some g)).map some

/-- `scale_all` (geocollection.rs:159) -/
def scaleAll (c : GeoCollection F) (factor : F) : GeoCollection F :=
  fromVec (c.objects.map fun g => g.scale factor)

/-- `rotate_all` (geocollection.rs:170) -/
def rotateAll (c : GeoCollection F) (rotation : Angle F) : GeoCollection F :=
  fromVec (c.objects.map fun g => g.rotate rotation)

end GeoCollection
end GeonumModel
