/-
  GeonumModel.Model.Angle — hand transcription of /repo/src/angle.rs (non-test code).

  Same branches in the same order as the source; every Rust early `return` is an `if … then … else`,
  every `let mut` a shadowing `let`.  `usize` is `Nat`, `i64` is `Int` (the casts are exact on the
  property domain, blades ≤ 2^40).  One Lean def per impl block, so every operator spelling is its own
  op in the correspondence and "all spellings agree" is a theorem, not an assumption.
-/
import GeonumModel.Arith

namespace GeonumModel
open FloatLike

/-- `struct Angle { rem: f64, blade: usize }` (angle.rs:10) -/
structure Angle (F : Type) where
  rem : F
  blade : Nat

namespace Angle
variable {F : Type} [FloatLike F]

/-- `fn normalize_boundaries(&self)` (angle.rs:212) -/
def normalizeBoundaries (a : Angle F) : Angle F :=
  if flt (fabs (fsub a.rem qp)) e10 then
    ⟨zero, a.blade + 1⟩
  else if fge a.rem qp then
    let additional := toUsize (fdiv a.rem qp)
    let finalRem := fmod a.rem qp
    if flt (fabs (fsub finalRem qp)) e10 then
      ⟨zero, a.blade + additional + 1⟩
    else
      ⟨finalRem, a.blade + additional⟩
  else a

/-- the exact quarter-turn fast path of `Angle::new` (angle.rs:45-58) -/
def newFast (p : F) : Angle F :=
  let nq :=
    if flt p zero then
      let full := fmul (ceil (fdiv (fadd (fneg p) three) four)) four
      toUsize (fadd p full)
    else toUsize p
  ⟨zero, nq⟩

/-- `total_angle` of the general path: scale by π first; when that product is not a normal number (it overflowed, or
    is zero / subnormal) divide first instead -/
def newRawTotal (p d : F) : F :=
  let scaled := fmul p pi
  if isNormal scaled then fdiv scaled d else fmul (fdiv p d) pi

/-- `normalized_total` of the general path -/
def newTotal (p d : F) : F :=
  let total := newRawTotal p d
  if flt total zero then
    let full := ceil (fdiv (fabs total) (fmul four qp))
    fmax (fadd total (fmul (fmul full four) qp)) zero
  else total

/-- the general path of `Angle::new` (angle.rs:60-81) -/
def newGeneral (p d : F) : Angle F :=
  let nt := newTotal p d
  let rem := fmod nt qp
  let blade := toUsize (FloatLike.round (fdiv (fsub nt rem) qp))
  normalizeBoundaries ⟨rem, blade⟩

/-- `pub fn new(pi_radians, divisor)` (angle.rs:41) -/
def new (p d : F) : Angle F :=
  if feq d two && feq (fract p) zero then newFast p else newGeneral p d

/-- `fn geometric_add(&self, other)` (angle.rs:246) -/
def geometricAdd (a b : Angle F) : Angle F :=
  let totalBlade := a.blade + b.blade
  let totalRem := fadd a.rem b.rem
  if feq totalRem zero then ⟨zero, totalBlade⟩
  else if flt (fabs (fsub totalRem qp)) e15 then ⟨zero, totalBlade + 1⟩
  else normalizeBoundaries ⟨totalRem, totalBlade⟩

/-- the source's "round a negative blade difference up by whole turns" (angle.rs:288-293, 312-317):
    `if d < 0 { (d + ((-d + 3) / 4) * 4) as usize } else { d as usize }`; Rust `/` on `i64` truncates,
    and `-d + 3 > 0` here, so it is Lean's `Int` `/` on a non-negative numerator. -/
def wrap4 (d : Int) : Nat :=
  if d < 0 then (d + ((-d + 3) / 4) * 4).toNat else d.toNat

/-- `fn geometric_sub(&self, other)` (angle.rs:280) -/
def geometricSub (a b : Angle F) : Angle F :=
  let bladeDiff : Int := (a.blade : Int) - (b.blade : Int)
  let remDiff := fsub a.rem b.rem
  if flt (fabs remDiff) e15 then ⟨zero, wrap4 bladeDiff⟩
  else
    let ib : Int := if flt remDiff zero then bladeDiff - 1 else bladeDiff
    let ir : F := if flt remDiff zero then fadd remDiff qp else remDiff
    normalizeBoundaries ⟨ir, wrap4 ib⟩

/-! ### operator impl blocks (angle.rs:433-580) — one def per block -/
def addVV (a b : Angle F) : Angle F := a.geometricAdd b
def addVR (a b : Angle F) : Angle F := a.geometricAdd b
def addRV (a b : Angle F) : Angle F := a.geometricAdd b
def addRR (a b : Angle F) : Angle F := a.geometricAdd b
def subVV (a b : Angle F) : Angle F := a.geometricSub b
def subVR (a b : Angle F) : Angle F := a.geometricSub b
def subRV (a b : Angle F) : Angle F := a.geometricSub b
def subRR (a b : Angle F) : Angle F := a.geometricSub b
def mulVV (a b : Angle F) : Angle F := a.geometricAdd b
def mulVR (a b : Angle F) : Angle F := a.geometricAdd b
def mulRV (a b : Angle F) : Angle F := a.geometricAdd b
def mulRR (a b : Angle F) : Angle F := a.geometricAdd b
def divVV (a b : Angle F) : Angle F := a.geometricSub b
def divVR (a b : Angle F) : Angle F := a.geometricSub b
def divRV (a b : Angle F) : Angle F := a.geometricSub b
def divRR (a b : Angle F) : Angle F := a.geometricSub b

/-- canonical names used by the rest of the model (`self + other`, `self - other`) -/
@[reducible] def add (a b : Angle F) : Angle F := addVV a b
@[reducible] def sub (a b : Angle F) : Angle F := subVV a b

/-- `pub fn new_with_blade(added_blade, pi_radians, divisor)` (angle.rs:92) -/
def newWithBlade (k : Nat) (p d : F) : Angle F :=
  let base := Angle.new p d
  let inc := Angle.new (ofNat k : F) two
  base.add inc

/-- `pub fn new_from_cartesian(x, y)` (angle.rs:107) -/
def newFromCartesian (x y : F) : Angle F :=
  let rad := atan2 y x
  Angle.new (fdiv rad pi) one

/-- `pub fn rotate(self, delta)` (angle.rs:125) -/
def rotate (a delta : Angle F) : Angle F := a.add delta

/-- `pub fn grade(&self)` (angle.rs:160) -/
def grade (a : Angle F) : Nat := a.blade % 4

def isScalar (a : Angle F) : Bool := a.grade == 0
def isVector (a : Angle F) : Bool := a.grade == 1
def isBivector (a : Angle F) : Bool := a.grade == 2
def isTrivector (a : Angle F) : Bool := a.grade == 3

/-- `pub fn base_angle(&self)` (angle.rs:204) -/
def baseAngle (a : Angle F) : Angle F := ⟨a.rem, a.grade⟩

/-- `usize::abs_diff` -/
def absDiff (m n : Nat) : Nat := if m ≤ n then n - m else m - n

/-- `pub fn is_opposite(&self, other)` (angle.rs:336) -/
def isOpposite (a b : Angle F) : Bool :=
  let bladeDiff := absDiff a.blade b.blade
  let remsMatch := flt (fabs (fsub a.rem b.rem)) e15
  bladeDiff == 2 && remsMatch

/-- `pub fn dual(&self)` (angle.rs:352) -/
def dual (a : Angle F) : Angle F := a.add (newWithBlade 2 zero one)
/-- `pub fn undual(&self)` (angle.rs:361) -/
def undual (a : Angle F) : Angle F := a.dual
/-- `pub fn conjugate(&self)` (angle.rs:368) -/
def conjugate (a : Angle F) : Angle F := a.add (Angle.new one one)
/-- `pub fn negate(&self)` (angle.rs:400) -/
def negate (a : Angle F) : Angle F := a.add (Angle.new one one)

/-- `pub fn grade_angle(&self)` (angle.rs:391): `self.grade() as f64 * PI / 2.0 + self.rem` -/
def gradeAngle (a : Angle F) : F :=
  fadd (fdiv (fmul (ofNat a.grade) pi) two) a.rem

/-- `pub fn project(&self, onto)` (angle.rs:406) -/
def project (a onto : Angle F) : F :=
  FloatLike.cos (onto.sub a).gradeAngle

/-- `impl PartialEq for Angle` (angle.rs:413) -/
def beq (a b : Angle F) : Bool :=
  if a.blade != b.blade then false
  else if flt (fabs (fsub a.rem b.rem)) e15 then true
  else feq a.rem b.rem

/-- `impl Div<f64> for Angle` (angle.rs:531) -/
def divF (a : Angle F) (divisor : F) : Angle F :=
  let total := fadd (fmul (ofNat a.blade) (fdiv pi two)) a.rem
  Angle.new (fdiv total divisor) pi
/-- `impl Div<f64> for &Angle` (angle.rs:542) -/
def divFR (a : Angle F) (divisor : F) : Angle F :=
  let total := fadd (fmul (ofNat a.blade) (fdiv pi two)) a.rem
  Angle.new (fdiv total divisor) pi

/-- `f64::partial_cmp` -/
def fcmp (x y : F) : Option Ordering :=
  if flt x y then some .lt else if feq x y then some .eq else if flt y x then some .gt else none

/-- `impl Ord for Angle` (angle.rs:588); `none` is the `unwrap` panic on an unordered remainder -/
def cmp (a b : Angle F) : Option Ordering :=
  match compare a.blade b.blade with
  | .eq => fcmp a.rem b.rem
  | o => some o

/-- `impl PartialOrd for Angle` (angle.rs:582): `Some(self.cmp(other))`; outer `none` = panic -/
def partialCmp (a b : Angle F) : Option (Option Ordering) :=
  (a.cmp b).map some

end Angle
end GeonumModel
