/-
  GeonumModel.Model.Traits — hand transcription of /repo/src/traits/*.rs (non-test code):
  affine, projection, optics, electromagnetics, waves, machine_learning.
-/
import GeonumModel.Model.Geonum

namespace GeonumModel
open FloatLike

namespace Affine
variable {F : Type} [FloatLike F]
/-- `translate` (affine.rs:11) -/
def translate (g d : Geonum F) : Geonum F := g.add d
/-- `shear` (affine.rs:15) -/
def shear (g : Geonum F) (a : Angle F) : Geonum F := ⟨g.mag, g.angle.add a⟩
/-- `area_quadrilateral` (affine.rs:22) -/
def areaQuadrilateral (p1 p2 p3 p4 : Geonum F) : F :=
  let edge1 := p2.add p1.negate
  let edge2 := p3.add p1.negate
  let t1 := fdiv (edge1.wedge edge2).mag two
  let edge3 := p3.add p1.negate
  let edge4 := p4.add p1.negate
  let t2 := fdiv (edge3.wedge edge4).mag two
  fadd t1 t2
end Affine

namespace Projection
variable {F : Type} [FloatLike F]
/-- `view` (projection.rs:16); the function argument is represented by the angle it returns -/
def view (g : Geonum F) (path : Angle F) : Geonum F := Geonum.newWithAngle g.mag (g.angle.add path)
/-- `compose` (projection.rs:22) -/
def compose (g o : Geonum F) : Geonum F := Geonum.newWithAngle (fmul g.mag o.mag) (g.angle.add o.angle)
end Projection

namespace Optics
variable {F : Type} [FloatLike F]
/-- `refract` (optics.rs:35) -/
def refract (g n : Geonum F) : Geonum F :=
  let r := FloatLike.asin (fdiv (FloatLike.sin g.angle.gradeAngle) n.mag)
  Geonum.newWithAngle g.mag (Angle.new r pi)
/-- one loop iteration of `aberrate` (optics.rs:52-56) -/
def aberrateStep (phase : Angle F) (term : Geonum F) : Angle F :=
  let eff := fmul term.mag (FloatLike.cos (fmul (FloatLike.sin term.angle.gradeAngle) three))
  phase.add (Angle.new eff pi)
/-- `aberrate` (optics.rs:46) -/
def aberrate (g : Geonum F) (terms : List (Geonum F)) : Geonum F :=
  Geonum.newWithAngle g.mag (terms.foldl aberrateStep g.angle)
/-- `otf` (optics.rs:61) -/
def otf (g focal wavelength : Geonum F) : Geonum F :=
  let frequency := fdiv g.mag (fmul wavelength.mag focal.mag)
  Geonum.newWithAngle frequency (g.angle.add (Angle.new one two))
/-- `abcd_transform` (optics.rs:70) -/
def abcdTransform (g a b c d : Geonum F) : Geonum F :=
  let h := g.mag
  let th := g.angle.gradeAngle
  let newH := fadd (fmul a.mag h) (fmul b.mag th)
  let newTh := fadd (fmul c.mag h) (fmul d.mag th)
  Geonum.newWithAngle newH (Angle.new newTh pi)
/-- `magnify` (optics.rs:95) -/
def magnify (g m : Geonum F) : Geonum F :=
  let mm := m.mag
  let intensity := fdiv one (fmul mm mm)
  let r := fdiv (fneg (FloatLike.sin g.angle.gradeAngle)) mm
  Geonum.newWithAngle (fmul g.mag intensity) (Angle.new r pi)
end Optics

namespace EM
variable {F : Type} [FloatLike F]
/-- `SPEED_OF_LIGHT = 3.0e8` -/
def speedOfLight : F := ofNat 300000000
/-- `VACUUM_PERMEABILITY = 4.0 * PI * 1e-7` -/
def vacuumPermeability : F := fmul (fmul four pi) (FloatLike.ofSci 1 true 7)
/-- `VACUUM_PERMITTIVITY = 1.0 / (μ0 * c * c)` -/
def vacuumPermittivity : F :=
  fdiv one (fmul (fmul (vacuumPermeability : F) speedOfLight) speedOfLight)
/-- `VACUUM_IMPEDANCE = μ0 * c` -/
def vacuumImpedance : F := fmul (vacuumPermeability : F) speedOfLight
/-- `inverse_field` (electromagnetics.rs:65) -/
def inverseField (charge distance power : Geonum F) (angle : Angle F) (constant : Geonum F) : Geonum F :=
  let magnitude := fdiv (fmul constant.mag charge.mag) (FloatLike.powf distance.mag power.mag)
  let direction :=
    if fge (FloatLike.cos charge.angle.gradeAngle) zero then angle else angle.add (Angle.new one one)
  Geonum.newWithAngle magnitude direction
/-- Coulomb constant as built in the source: `Geonum::scalar(1.0 / (4.0 * PI * ε0))` -/
def coulombK : Geonum F := Geonum.scalar (fdiv one (fmul (fmul four pi) vacuumPermittivity))
/-- `electric_potential` (electromagnetics.rs:84): `charge * k / distance`; `none` = panic -/
def electricPotential (charge distance : Geonum F) : Option (Geonum F) :=
  (charge.mul coulombK).divVV distance
/-- `electric_field` (electromagnetics.rs:90) -/
def electricField (charge distance : Geonum F) : Geonum F :=
  inverseField charge distance (Geonum.scalar two) (Angle.new one one) coulombK
/-- `poynting_vector` (electromagnetics.rs:97) -/
def poyntingVector (e b : Geonum F) : Geonum F :=
  let p := e.wedge b
  Geonum.newWithAngle (fdiv p.mag vacuumPermeability) p.angle
/-- `wire_vector_potential` (electromagnetics.rs:103) -/
def wireVectorPotential (r current permeability : Geonum F) : Geonum F :=
  let magnitude := fdiv (fmul (fmul permeability.mag current.mag) (FloatLike.ln r.mag)) (fmul two pi)
  Geonum.newWithAngle magnitude (Angle.new one two)
/-- `wire_magnetic_field` (electromagnetics.rs:110) -/
def wireMagneticField (r current permeability : Geonum F) : Geonum F :=
  let magnitude := fdiv (fmul permeability.mag current.mag) (fmul (fmul two pi) r.mag)
  Geonum.newWithAngle magnitude (Angle.new zero one)
/-- `spherical_wave_potential` (electromagnetics.rs:117) -/
def sphericalWavePotential (r t wavenumber speed : Geonum F) : Geonum F :=
  let omega := fmul wavenumber.mag speed.mag
  let potential := fdiv (FloatLike.cos (fsub (fmul wavenumber.mag r.mag) (fmul omega t.mag))) r.mag
  Geonum.newWithAngle (fabs potential)
    (if fge potential zero then Angle.new zero one else Angle.new one one)
end EM

namespace Waves
variable {F : Type} [FloatLike F]
/-- `propagate` (waves.rs:31) -/
def propagate (g time position velocity : Geonum F) : Geonum F :=
  let phase := position.sub (velocity.mul time)
  Geonum.newWithAngle g.mag (g.angle.add phase.angle)
/-- `disperse` (waves.rs:40) -/
def disperse (position time wavenumber frequency : Geonum F) : Geonum F :=
  let phase := (wavenumber.mul position).sub (frequency.mul time)
  Geonum.newWithAngle one phase.angle
/-- `frequency` (waves.rs:50) -/
def frequency (g other interval : Geonum F) : Geonum F :=
  Geonum.newWithAngle (fdiv (g.sub other).mag interval.mag) (Angle.new one two)
/-- `wavenumber` (waves.rs:59) -/
def wavenumber (g other interval : Geonum F) : Geonum F :=
  Geonum.newWithAngle (fdiv (g.sub other).mag interval.mag) (Angle.new one two)
end Waves

namespace ML
variable {F : Type} [FloatLike F]
inductive Activation | relu | sigmoid | tanh | identity
  deriving DecidableEq, Repr
/-- `regression_from` (machine_learning.rs:59) -/
def regressionFrom (cov var : F) : Geonum F :=
  ⟨sqrt (fdiv (fmul cov cov) var), Angle.new (FloatLike.atan2 cov var) pi⟩
/-- `perceptron_update` (machine_learning.rs:66) -/
def perceptronUpdate (g : Geonum F) (lr err : F) (input : Geonum F) : Geonum F :=
  let signX : F := if input.angle.grade > 2 then fneg one else one
  let upd := Angle.new (fdiv (fmul (fmul (fneg lr) err) signX) pi) one
  ⟨fadd g.mag (fmul (fmul lr err) input.mag), g.angle.add upd⟩
/-- `forward_pass` (machine_learning.rs:77) -/
def forwardPass (g weight bias : Geonum F) : Geonum F :=
  ⟨fadd (fmul g.mag weight.mag) bias.mag, g.angle.add weight.angle⟩
/-- `activate` (machine_learning.rs:84) -/
def activate (g : Geonum F) : Activation → Geonum F
  | .relu => ⟨if fgt (FloatLike.cos g.angle.gradeAngle) zero then g.mag else zero, g.angle⟩
  | .sigmoid => ⟨fdiv g.mag (fadd one (FloatLike.exp (fneg (FloatLike.cos g.angle.gradeAngle)))), g.angle⟩
  | .tanh => ⟨fmul g.mag (FloatLike.tanh (FloatLike.cos g.angle.gradeAngle)), g.angle⟩
  | .identity => g
end ML

end GeonumModel
