/-
  GeonumModel.Arith — the operations the Rust code performs on `f64`, as a class with no laws.

  The whole model is written once over `{F} [FloatLike F]`.  Three interpretations:
    * `Exec/Native.lean`   : `instance : FloatLike Float`   (binary64; used by the correspondence driver)
    * `Spec/FloatSpec.lean`: `class FloatSpec F extends FloatLike F` (IEEE-754 contract as hypotheses)
    * `Spec/RealWitness.lean`: `instance : FloatSpec ℝ`      (exact arithmetic; consistency witness + meaning)
  Core Lean only (no Mathlib) so the driver links as a `lean_exe`.
-/
namespace GeonumModel

class FloatLike (F : Type) where
  fadd : F → F → F
  fsub : F → F → F
  fmul : F → F → F
  fdiv : F → F → F
  fneg : F → F
  fabs : F → F
  /-- `a < b` (false on NaN) -/
  flt : F → F → Bool
  /-- `a <= b` (false on NaN) -/
  fle : F → F → Bool
  /-- `a == b` (IEEE: `-0 == +0`, NaN ≠ NaN) -/
  feq : F → F → Bool
  /-- Rust `%` on `f64` (C `fmod`) -/
  fmod : F → F → F
  floor : F → F
  ceil : F → F
  /-- Rust `f64::round` (half away from zero) -/
  round : F → F
  /-- Rust `f64::fract` (`x - x.trunc()`) -/
  fract : F → F
  /-- Rust `f64::is_normal` (neither zero, subnormal, infinite nor NaN) -/
  isNormal : F → Bool
  /-- Rust `f64::is_finite` (neither infinite nor NaN) -/
  isFinite : F → Bool
  sqrt : F → F
  /-- Rust `f64::max` as compiled in the dev profile on this target
      (`if a < b {b} else if a is NaN {b} else {a}`) -/
  fmax : F → F → F
  /-- Rust `x as usize` (saturating, NaN ↦ 0) -/
  toUsize : F → Nat
  /-- Rust `n as f64` for `usize` -/
  ofNat : Nat → F
  /-- Rust `i as f64` for `i64` -/
  ofInt : Int → F
  /-- decimal literal `m · 10^(∓e)` -/
  ofSci : Nat → Bool → Nat → F
  /-- `std::f64::consts::PI` -/
  pi : F
  cos : F → F
  sin : F → F
  /-- `y.atan2(x)` is `atan2 y x` -/
  atan2 : F → F → F
  acos : F → F
  asin : F → F
  exp : F → F
  tanh : F → F
  ln : F → F
  powf : F → F → F

export FloatLike (fadd fsub fmul fdiv fneg fabs flt fle feq fmod sqrt fmax toUsize)

namespace FloatLike
variable {F : Type} [FloatLike F]

/-- `a > b` -/
@[reducible] def fgt (a b : F) : Bool := flt b a
/-- `a >= b` -/
@[reducible] def fge (a b : F) : Bool := fle b a

/-- literal `0.0` -/
def zero : F := ofNat 0
/-- literal `1.0` -/
def one : F := ofNat 1
/-- literal `2.0` -/
def two : F := ofNat 2
/-- literal `3.0` -/
def three : F := ofNat 3
/-- literal `4.0` -/
def four : F := ofNat 4
/-- literal `1e-10` (`EPSILON`) -/
def e10 : F := ofSci 1 true 10
/-- literal `1e-15` -/
def e15 : F := ofSci 1 true 15
/-- `PI / 2.0` (the source's `quarter_pi`) -/
def qp : F := fdiv pi two

/-- Rust `f64::clamp(self, lo, hi)` (std source: two sequential comparisons; NaN passes through) -/
def clamp (x lo hi : F) : F :=
  let x1 := if flt x lo then lo else x
  if flt hi x1 then hi else x1

end FloatLike
export FloatLike (fgt fge zero one two three four e10 e15 qp)

end GeonumModel
