/-
  GeonumModel.Spec.RoundWitness — a *rounding* arithmetic satisfies every field of `FloatSpec`.

  `Spec/RealWitness.lean` shows the contract is consistent (exact reals satisfy it).  That alone would leave open
  that the contract is only satisfiable when nothing is ever rounded — in which case the S-tier theorems would
  say nothing about a machine.  Here the carrier is the set of finite binary64 values (`m·2^e`, `|m| < 2^53`,
  `e ≥ -1074`; exponent unbounded above, so there is no overflow and `Fin`, `InRange` are trivially true) and
  every arithmetic operation is *the exact result rounded to nearest* (`R53.rnd`, ties away from zero): `+ - * /`,
  `sqrt`, decimal literals, and the libm entry points (correctly rounded real functions; `atan2`, `acos`, `asin`
  additionally clamped to the float `PI` resp. `PI/2`, which is what glibc returns at the ends of their ranges).
  `fmod`, `floor`, `ceil`, `round`, `fract`, `abs`, negation, `max` are exact, and proved representable.
  `PI` is the binary64 constant 884279719003555·2^-48.

  So all of: monotone rounding, the 2^-53 relative / 2^-1075 absolute error bound, Sterbenz' lemma, exactness of
  `fmod`, exact scaling by powers of two, and the libm sanity bounds hold *simultaneously* in an arithmetic that
  really rounds.  What this still does not prove: that the hardware/glibc implement this arithmetic (trusted,
  monitored by the `arith.*` probe lines), overflow to ±∞ and NaN propagation (outside the `Fin`/`InRange`
  premises of every field), and the tie rule (no field depends on it).
-/
import GeonumModel.Spec.FloatSpec
import GeonumModel.Spec.Round53
import Mathlib.Analysis.SpecialFunctions.Pow.Real
import Mathlib.Analysis.SpecialFunctions.Trigonometric.DerivHyp
import Mathlib.Analysis.Complex.ExponentialBounds
import Mathlib.Analysis.Real.Pi.Bounds

namespace GeonumModel
open Classical

/-- a finite binary64 value (exponent unbounded above) -/
structure R64 where
  v : ℝ
  rep : R53.Rep v

namespace R64
noncomputable section

@[ext] theorem ext' {a b : R64} (h : a.v = b.v) : a = b := by
  cases a; cases b; simp only at h; subst h; rfl

/-- the exact result rounded to nearest -/
def ofReal (x : ℝ) : R64 := ⟨R53.rnd x, R53.rep_rnd x⟩

/-- the binary64 constant `PI` -/
def piR : ℝ := 884279719003555 / 2 ^ 48

theorem rep_piR : R53.Rep piR :=
  ⟨884279719003555, -48, by norm_num, by norm_num, by unfold piR; rw [zpow_neg]; norm_num [div_eq_mul_inv]⟩

theorem piR_le : piR ≤ Real.pi := by
  have := Real.pi_gt_d20; unfold piR; norm_num at *; linarith

theorem piR_ge : Real.pi - 2 / 10 ^ 16 ≤ piR := by
  have := Real.pi_lt_d20; unfold piR; norm_num at *; linarith

theorem piR_pos : 0 < piR := by unfold piR; positivity

theorem rep_half_piR : R53.Rep (piR / 2) :=
  ⟨884279719003555, -49, by norm_num, by norm_num, by unfold piR; rw [zpow_neg]; norm_num [div_eq_mul_inv]⟩

/-- `x - trunc x` -/
def fractR (x : ℝ) : ℝ := if 0 ≤ x then x - (⌊x⌋ : ℝ) else -(-x - (⌊-x⌋ : ℝ))

theorem rep_fractR {x : ℝ} (h : R53.Rep x) : R53.Rep (fractR x) := by
  unfold fractR; split
  · exact R53.rep_fract_nonneg h ‹_›
  · exact R53.rep_neg (R53.rep_fract_nonneg (R53.rep_neg h) (by linarith))

theorem fractR_eq_zero_iff (x : ℝ) : fractR x = 0 ↔ ∃ n : ℤ, x = n := by
  unfold fractR; split
  · constructor
    · intro h; exact ⟨⌊x⌋, by linarith⟩
    · rintro ⟨n, rfl⟩; simp
  · constructor
    · intro h; exact ⟨-⌊-x⌋, by push_cast; linarith⟩
    · rintro ⟨n, rfl⟩
      have : (-(n:ℝ)) = ((-n : ℤ) : ℝ) := by push_cast; rfl
      rw [this, Int.floor_intCast]; simp

/-- Rust `f64::round`: half away from zero -/
def roundR (x : ℝ) : ℝ := if 0 ≤ x then (round x : ℝ) else -(round (-x) : ℝ)

theorem rep_roundR {x : ℝ} (h : R53.Rep x) : R53.Rep (roundR x) := by
  unfold roundR; split
  · exact R53.rep_round h
  · exact R53.rep_neg (R53.rep_round (R53.rep_neg h))

theorem rep_abs {x : ℝ} (h : R53.Rep x) : R53.Rep |x| := by
  rcases abs_choice x with e | e <;> rw [e]
  · exact h
  · exact R53.rep_neg h

theorem rep_max {x y : ℝ} (hx : R53.Rep x) (hy : R53.Rep y) : R53.Rep (max x y) := by
  rcases max_choice x y with e | e <;> rw [e] <;> assumption

/-- clamp to `[-c, c]` -/
def clampR (c x : ℝ) : ℝ := max (-c) (min c x)

theorem clampR_abs {c x : ℝ} (hc : 0 ≤ c) : |clampR c x| ≤ c := by
  unfold clampR; rw [abs_le]
  exact ⟨le_max_left _ _, max_le (by linarith) (min_le_left _ _)⟩

theorem clampR_dist {c x p : ℝ} (hc : 0 ≤ c) (hcp : c ≤ p) (hx : |x| ≤ p) : |clampR c x - x| ≤ p - c := by
  unfold clampR
  rw [abs_le] at hx ⊢
  rcases le_total c x with h | h
  · rw [min_eq_left h, max_eq_right (by linarith)]; constructor <;> linarith
  · rw [min_eq_right h]
    rcases le_total (-c) x with h' | h'
    · rw [max_eq_right h']; constructor <;> linarith
    · rw [max_eq_left h']; constructor <;> linarith

/-- rounding keeps a value inside a representable symmetric bound -/
theorem rnd_abs_le {c x : ℝ} (hc : R53.Rep c) (h : |x| ≤ c) : |R53.rnd x| ≤ c := by
  rw [abs_le] at h ⊢
  constructor
  · have := R53.rnd_mono h.1
    rwa [R53.rnd_neg, R53.rnd_rep hc] at this
  · have := R53.rnd_mono h.2
    rwa [R53.rnd_rep hc] at this

theorem rep_one : R53.Rep 1 := by simpa using R53.rep_nat (n := 1) (by norm_num)

/-- error of rounding a value of size at most 4 -/
theorem rnd_err_small {x : ℝ} (h : |x| ≤ 4) : |R53.rnd x - x| ≤ 5 / 10 ^ 16 := by
  have h1 := R53.rnd_err x
  have h2 : |x| / 2 ^ 53 ≤ 4 / 2 ^ 53 := by
    apply div_le_div_of_nonneg_right h; positivity
  have h3 : (1:ℝ) / 2 ^ 1075 ≤ 1 / 2 ^ 60 := by
    apply one_div_le_one_div_of_le (by positivity)
    exact pow_le_pow_right₀ (by norm_num) (by norm_num)
  have h4 : (4:ℝ) / 2 ^ 53 + 1 / 2 ^ 60 ≤ 5 / 10 ^ 16 := by norm_num
  linarith

instance instFloatLikeR64 : FloatLike R64 where
  fadd := fun a b => ofReal (a.v + b.v)
  fsub := fun a b => ofReal (a.v - b.v)
  fmul := fun a b => ofReal (a.v * b.v)
  fdiv := fun a b => ofReal (a.v / b.v)
  fneg := fun a => ⟨-a.v, R53.rep_neg a.rep⟩
  fabs := fun a => ⟨|a.v|, rep_abs a.rep⟩
  flt := fun a b => decide (a.v < b.v)
  fle := fun a b => decide (a.v ≤ b.v)
  feq := fun a b => decide (a.v = b.v)
  fmod := fun a b =>
    if h : 0 ≤ a.v ∧ 0 < b.v then ⟨a.v - (⌊a.v / b.v⌋ : ℝ) * b.v, R53.rep_fmod a.rep b.rep h.1 h.2⟩
    else ofReal (a.v - (⌊a.v / b.v⌋ : ℝ) * b.v)
  floor := fun a => ⟨(⌊a.v⌋ : ℝ), R53.rep_floor a.rep⟩
  ceil := fun a => ⟨(⌈a.v⌉ : ℝ), R53.rep_ceil a.rep⟩
  round := fun a => ⟨roundR a.v, rep_roundR a.rep⟩
  fract := fun a => ⟨fractR a.v, rep_fractR a.rep⟩
  isNormal := fun a => decide ((1:ℝ) / 2 ^ 1022 ≤ |a.v|)
  isFinite := fun _ => true
  sqrt := fun a => ofReal (Real.sqrt a.v)
  fmax := fun a b => ⟨max a.v b.v, rep_max a.rep b.rep⟩
  toUsize := fun a => ⌊a.v⌋₊
  ofNat := fun n => ofReal (n : ℝ)
  ofInt := fun i => ofReal (i : ℝ)
  ofSci := fun m s e => ofReal (if s then (m : ℝ) / 10 ^ e else (m : ℝ) * 10 ^ e)
  pi := ⟨piR, rep_piR⟩
  cos := fun a => ofReal (Real.cos a.v)
  sin := fun a => ofReal (Real.sin a.v)
  atan2 := fun y x => ofReal (clampR piR (Complex.arg ⟨x.v, y.v⟩))
  acos := fun a => ofReal (clampR piR (Real.arccos a.v))
  asin := fun a => ofReal (clampR (piR / 2) (Real.arcsin a.v))
  exp := fun a => ofReal (Real.exp a.v)
  tanh := fun a => ofReal (Real.tanh a.v)
  ln := fun a => ofReal (Real.log a.v)
  powf := fun a b => ofReal (a.v ^ b.v)

theorem exp_700_le : Real.exp 700 ≤ 2 ^ (1050:ℤ) := by
  have h1 : Real.exp 1 ≤ 2.72 := le_of_lt (lt_trans Real.exp_one_lt_d9 (by norm_num))
  have h2 : Real.exp 700 = (Real.exp 1 ^ (2:ℕ)) ^ (350:ℕ) := by
    rw [← pow_mul, ← Real.exp_nat_mul]; norm_num
  have h3 : Real.exp 1 ^ (2:ℕ) ≤ 2 ^ (3:ℕ) := by
    have : Real.exp 1 ^ (2:ℕ) ≤ (2.72:ℝ) ^ (2:ℕ) := pow_le_pow_left₀ (le_of_lt (Real.exp_pos 1)) h1 _
    have : (2.72:ℝ) ^ (2:ℕ) ≤ 2 ^ (3:ℕ) := by norm_num
    linarith
  have h4 : (2:ℝ) ^ (1050:ℤ) = ((2:ℝ) ^ (3:ℕ)) ^ (350:ℕ) := by
    rw [← pow_mul]
    have : (1050:ℤ) = ((3 * 350 : ℕ) : ℤ) := by norm_num
    rw [this, zpow_natCast]
  rw [h2, h4]
  exact pow_le_pow_left₀ (by positivity) h3 _

instance instFloatSpecR64 : FloatSpec R64 where
  Fin := fun _ => True
  val := fun a => a.v
  rnd := R53.rnd
  Rep := R53.Rep
  InRange := fun _ => True
  piV := piR
  errTrig := 1 / 10 ^ 15
  rnd_mono := R53.rnd_mono
  rnd_rep := R53.rnd_rep
  rnd_neg := R53.rnd_neg
  rep_rnd := fun {x} _ => R53.rep_rnd x
  rnd_err := R53.rnd_err
  rep_val := fun {a} _ => a.rep
  rep_neg := R53.rep_neg
  rep_nat := R53.rep_nat
  rep_scale := fun k h1 h2 h3 => R53.rep_scale k h1 h2 h3
  inRange_of_le := fun _ => trivial
  inRange_val := fun _ => trivial
  inRange_mono := fun _ _ => trivial
  fadd_spec := fun _ _ _ => ⟨trivial, rfl⟩
  fsub_spec := fun _ _ _ => ⟨trivial, rfl⟩
  fmul_spec := fun _ _ _ => ⟨trivial, rfl⟩
  fdiv_spec := fun _ _ _ _ => ⟨trivial, rfl⟩
  sqrt_spec := fun _ _ => ⟨trivial, rfl⟩
  sterbenz := fun {a b} _ _ h1 h2 => ⟨trivial, by
    show R53.rnd (a.v - b.v) = a.v - b.v
    exact R53.rnd_rep (R53.rep_sub_sterbenz a.rep b.rep h1 h2)⟩
  fadd_comm := fun {a b} _ _ => by
    show ofReal (a.v + b.v) = ofReal (b.v + a.v); rw [add_comm]
  fmul_comm := fun {a b} _ _ => by
    show ofReal (a.v * b.v) = ofReal (b.v * a.v); rw [mul_comm]
  fneg_spec := fun _ => ⟨trivial, rfl⟩
  fabs_spec := fun _ => ⟨trivial, rfl⟩
  fmod_spec := fun {a b} _ _ h1 h2 => ⟨trivial, by
    show (FloatLike.fmod a b).v = _
    simp only [FloatLike.fmod, dif_pos (And.intro h1 h2)]⟩
  ceil_spec := fun _ => ⟨trivial, rfl⟩
  floor_spec := fun _ => ⟨trivial, rfl⟩
  round_spec := fun {a} _ h => ⟨trivial, by
    show roundR a.v = _
    unfold roundR; rw [if_pos h]⟩
  fract_spec := fun {a} _ => ⟨trivial, fractR_eq_zero_iff a.v⟩
  fmax_spec := fun _ _ => ⟨trivial, rfl⟩
  isNormal_spec := fun {a} _ => by show decide ((1:ℝ) / 2 ^ 1022 ≤ |a.v|) = true ↔ _; simp
  isFinite_spec := fun _ => rfl
  flt_spec := fun {a b} _ _ => by show decide (a.v < b.v) = true ↔ _; simp
  fle_spec := fun {a b} _ _ => by show decide (a.v ≤ b.v) = true ↔ _; simp
  feq_spec := fun {a b} _ _ => by show decide (a.v = b.v) = true ↔ _; simp
  toUsize_spec := fun _ _ _ => rfl
  ofNat_spec := fun {n} h => ⟨trivial, R53.rnd_rep (R53.rep_nat h)⟩
  ofInt_spec := fun {i} h => ⟨trivial, R53.rnd_rep (R53.rep_int h)⟩
  ofSci_spec := fun _ _ => ⟨trivial, by simp [FloatLike.ofSci, ofReal]⟩
  pi_spec := ⟨trivial, rfl⟩
  piV_le := piR_le
  piV_ge := piR_ge
  errTrig_nonneg := by positivity
  errTrig_le := le_refl _
  cos_spec := fun {a} _ => ⟨trivial, rnd_abs_le rep_one (Real.abs_cos_le_one a.v), by
    show |R53.rnd (Real.cos a.v) - Real.cos a.v| ≤ 1 / 10 ^ 15
    have := rnd_err_small (x := Real.cos a.v) (le_trans (Real.abs_cos_le_one _) (by norm_num))
    have : (5:ℝ) / 10 ^ 16 ≤ 1 / 10 ^ 15 := by norm_num
    linarith⟩
  sin_spec := fun {a} _ => ⟨trivial, rnd_abs_le rep_one (Real.abs_sin_le_one a.v), by
    show |R53.rnd (Real.sin a.v) - Real.sin a.v| ≤ 1 / 10 ^ 15
    have := rnd_err_small (x := Real.sin a.v) (le_trans (Real.abs_sin_le_one _) (by norm_num))
    have : (5:ℝ) / 10 ^ 16 ≤ 1 / 10 ^ 15 := by norm_num
    linarith⟩
  cos_zero := fun {a} _ h => by
    show R53.rnd (Real.cos a.v) = 1
    rw [show a.v = 0 from h, Real.cos_zero]; exact R53.rnd_rep rep_one
  sin_zero := fun {a} _ h => by
    show R53.rnd (Real.sin a.v) = 0
    rw [show a.v = 0 from h, Real.sin_zero]; exact R53.rnd_zero
  atan2_spec := fun {y x} _ _ => ⟨trivial, rnd_abs_le rep_piR (clampR_abs (le_of_lt piR_pos)), fun _ => by
    show |R53.rnd (clampR piR (Complex.arg ⟨x.v, y.v⟩)) - Complex.arg ⟨x.v, y.v⟩| ≤ 1 / 10 ^ 15
    have hc : |clampR piR (Complex.arg ⟨x.v, y.v⟩)| ≤ 4 :=
      le_trans (clampR_abs (le_of_lt piR_pos)) (by have := piR_le; have := Real.pi_lt_four; linarith)
    have h1 := rnd_err_small hc
    have h2 := clampR_dist (x := Complex.arg ⟨x.v, y.v⟩) (le_of_lt piR_pos) piR_le (Complex.abs_arg_le_pi _)
    have h3 := piR_ge
    have : |R53.rnd (clampR piR (Complex.arg ⟨x.v, y.v⟩)) - Complex.arg ⟨x.v, y.v⟩|
        ≤ |R53.rnd (clampR piR (Complex.arg ⟨x.v, y.v⟩)) - clampR piR (Complex.arg ⟨x.v, y.v⟩)|
          + |clampR piR (Complex.arg ⟨x.v, y.v⟩) - Complex.arg ⟨x.v, y.v⟩| := by
      have := abs_add_le (R53.rnd (clampR piR (Complex.arg ⟨x.v, y.v⟩)) - clampR piR (Complex.arg ⟨x.v, y.v⟩))
        (clampR piR (Complex.arg ⟨x.v, y.v⟩) - Complex.arg ⟨x.v, y.v⟩)
      simpa using this
    have : (5:ℝ) / 10 ^ 16 + 2 / 10 ^ 16 ≤ 1 / 10 ^ 15 := by norm_num
    linarith⟩
  atan2_neg_axis := fun {y x} _ _ hy hx => by
    show piR - 1 / 10 ^ 15 ≤ |R53.rnd (clampR piR (Complex.arg ⟨x.v, y.v⟩))|
    have : (⟨x.v, y.v⟩ : ℂ) = ((x.v : ℝ) : ℂ) := by apply Complex.ext <;> simp [show y.v = 0 from hy]
    rw [this, Complex.arg_ofReal_of_neg (show x.v < 0 from hx)]
    have hc : clampR piR Real.pi = piR := by
      unfold clampR
      rw [min_eq_left piR_le, max_eq_right (by have := piR_pos; linarith)]
    rw [hc, R53.rnd_rep rep_piR, abs_of_pos piR_pos]
    have : (0:ℝ) ≤ 1 / 10 ^ 15 := by positivity
    linarith
  acos_spec := fun {a} _ _ => ⟨trivial, by
      show 0 ≤ R53.rnd (clampR piR (Real.arccos a.v))
      apply R53.rnd_nonneg
      unfold clampR
      exact le_max_of_le_right (le_min (le_of_lt piR_pos) (Real.arccos_nonneg _)), by
      have := rnd_abs_le rep_piR (clampR_abs (x := Real.arccos a.v) (le_of_lt piR_pos))
      exact (abs_le.mp this).2⟩
  asin_spec := fun {a} _ _ => ⟨trivial,
    rnd_abs_le rep_half_piR (clampR_abs (by have := piR_pos; linarith))⟩
  exp_spec := fun {a} _ h700 => by
    have hrnd1 : R53.rnd 1 = 1 := R53.rnd_rep rep_one
    have hlow : (2:ℝ) ^ (-1050:ℤ) ≤ Real.exp a.v := by
      have h' : |a.v| ≤ 700 := h700
      have : Real.exp (-700) ≤ Real.exp a.v := Real.exp_le_exp.mpr (abs_le.mp h').1
      have h2 : (2:ℝ) ^ (-1050:ℤ) ≤ Real.exp (-700) := by
        rw [Real.exp_neg, zpow_neg]
        exact inv_anti₀ (Real.exp_pos _) exp_700_le
      linarith
    have hrep : R53.Rep ((2:ℝ) ^ (-1050:ℤ)) := ⟨1, -1050, by norm_num, by norm_num, by simp⟩
    refine ⟨trivial, ?_, ?_, ?_, ?_⟩
    · show 0 < R53.rnd (Real.exp a.v)
      have := R53.rnd_mono hlow
      rw [R53.rnd_rep hrep] at this
      exact lt_of_lt_of_le (R53.two_zpow_pos _) this
    · intro h
      show 1 ≤ R53.rnd (Real.exp a.v)
      have := R53.rnd_mono (Real.one_le_exp (show 0 ≤ a.v from h)); rwa [hrnd1] at this
    · intro h
      show R53.rnd (Real.exp a.v) ≤ 1
      have := R53.rnd_mono (Real.exp_le_one_iff.mpr (show a.v ≤ 0 from h)); rwa [hrnd1] at this
    · intro h
      have h' : |a.v| ≤ 1 := h
      rw [abs_le] at h'
      have e1 : Real.exp 1 < 3 := lt_trans Real.exp_one_lt_d9 (by norm_num)
      have up : Real.exp a.v ≤ 3 := le_trans (Real.exp_le_exp.mpr h'.2) (le_of_lt e1)
      have lo : (11:ℝ) / 32 ≤ Real.exp a.v := by
        have : Real.exp (-1) ≤ Real.exp a.v := Real.exp_le_exp.mpr h'.1
        have h3 : (11:ℝ) / 32 ≤ Real.exp (-1) := by
          rw [Real.exp_neg]
          have : (Real.exp 1)⁻¹ ≥ (3:ℝ)⁻¹ := inv_anti₀ (Real.exp_pos 1) (le_of_lt e1)
          have h4 : (2.72:ℝ)⁻¹ ≤ (Real.exp 1)⁻¹ :=
            inv_anti₀ (Real.exp_pos 1) (le_of_lt (lt_trans Real.exp_one_lt_d9 (by norm_num)))
          have : (11:ℝ) / 32 ≤ (2.72:ℝ)⁻¹ := by norm_num
          linarith
        linarith
      have r3 : R53.Rep 3 := by simpa using R53.rep_nat (n := 3) (by norm_num)
      have r11 : R53.Rep ((11:ℝ) / 32) :=
        ⟨11, -5, by norm_num, by norm_num, by rw [zpow_neg]; norm_num [div_eq_mul_inv]⟩
      constructor
      · show (1:ℝ) / 3 ≤ R53.rnd (Real.exp a.v)
        have := R53.rnd_mono lo; rw [R53.rnd_rep r11] at this
        have : (1:ℝ) / 3 ≤ 11 / 32 := by norm_num
        linarith
      · show R53.rnd (Real.exp a.v) ≤ 3
        have := R53.rnd_mono up; rwa [R53.rnd_rep r3] at this
  tanh_spec := fun {a} _ => ⟨trivial, rnd_abs_le rep_one (by
    rw [abs_le]; exact ⟨le_of_lt (Real.neg_one_lt_tanh a.v), le_of_lt (Real.tanh_lt_one a.v)⟩)⟩

/-- the rounding arithmetic really rounds: `1 + 2^-60` is not representable and `fadd` returns `1` -/
example : (FloatLike.fadd (ofReal 1) (ofReal ((2:ℝ) ^ (-60:ℤ))) : R64).v = 1 := by
  have r1 : R53.rnd 1 = 1 := R53.rnd_rep rep_one
  have hrep : R53.Rep ((2:ℝ) ^ (-60:ℤ)) := ⟨1, -60, by norm_num, by norm_num, by simp⟩
  show R53.rnd (R53.rnd 1 + R53.rnd ((2:ℝ) ^ (-60:ℤ))) = 1
  rw [r1, R53.rnd_rep hrep]
  -- 1 ≤ 1 + 2^-60 ≤ 1 + 2^-53 and both ends round to 1
  have hx : (1:ℝ) ≤ 1 + 2 ^ (-60:ℤ) := by have := R53.two_zpow_pos (-60); linarith
  have lo := R53.rnd_mono hx
  rw [r1] at lo
  have he := R53.rnd_err (1 + (2:ℝ) ^ (-60:ℤ))
  -- the result is representable, ≥ 1, and within 2^-52 of 1: the only such value below 1 + 2^-52 is 1
  obtain ⟨m, e, hm, he', hme⟩ := R53.rep_rnd (1 + (2:ℝ) ^ (-60:ℤ))
  by_contra hne
  have hgt : 1 < R53.rnd (1 + (2:ℝ) ^ (-60:ℤ)) := lt_of_le_of_ne lo (Ne.symm hne)
  -- spacing above 1 is 2^-52: a representable number > 1 is ≥ 1 + 2^-52
  have hsp : (1:ℝ) + 2 ^ (-52:ℤ) ≤ R53.rnd (1 + (2:ℝ) ^ (-60:ℤ)) := by
    have hpos : 0 < R53.rnd (1 + (2:ℝ) ^ (-60:ℤ)) := by linarith
    have hue := R53.uexp_le_of_rep hpos hm he' hme
    have hb : R53.binade (R53.rnd (1 + (2:ℝ) ^ (-60:ℤ))) ≥ 0 := by
      unfold R53.binade
      have : (0:ℤ) ≤ Int.log 2 (R53.rnd (1 + (2:ℝ) ^ (-60:ℤ))) := by
        rw [← Int.zpow_le_iff_le_log (by norm_num) hpos, zpow_zero]; exact le_of_lt hgt
      exact le_max_of_le_left this
    obtain ⟨k, hk⟩ := R53.int_mul_zpow m (e := e) (u := -52) (by unfold R53.uexp at hue; omega)
    rw [hme, hk] at hgt ⊢
    have h52 : (2:ℝ) ^ (-52:ℤ) * 2 ^ (52:ℤ) = 1 := by
      rw [← zpow_add₀ (by norm_num : (2:ℝ) ≠ 0)]; norm_num
    have hk1 : ((2 ^ 52 : ℤ) : ℝ) < k := by
      have e52 : ((2 ^ 52 : ℤ) : ℝ) = (2:ℝ) ^ (52:ℤ) := by norm_num
      rw [e52]
      by_contra hc; rw [not_lt] at hc
      have := mul_le_mul_of_nonneg_right hc (le_of_lt (R53.two_zpow_pos (-52)))
      rw [mul_comm ((2:ℝ) ^ (52:ℤ)), h52] at this; linarith
    have hk2 : (2 ^ 52 : ℤ) + 1 ≤ k := by exact_mod_cast hk1
    have hk3 : ((2 ^ 52 : ℤ) : ℝ) + 1 ≤ k := by exact_mod_cast hk2
    have e52 : ((2 ^ 52 : ℤ) : ℝ) = (2:ℝ) ^ (52:ℤ) := by norm_num
    rw [e52] at hk3
    have := mul_le_mul_of_nonneg_right hk3 (le_of_lt (R53.two_zpow_pos (-52)))
    rw [add_mul, mul_comm ((2:ℝ) ^ (52:ℤ)), h52, one_mul] at this
    exact this
  have habs : |R53.rnd (1 + (2:ℝ) ^ (-60:ℤ)) - (1 + 2 ^ (-60:ℤ))| ≤ |1 + (2:ℝ) ^ (-60:ℤ)| / 2 ^ 53 + 1 / 2 ^ 1075 := he
  have hp60 := R53.two_zpow_pos (-60)
  rw [abs_of_pos (by linarith : (0:ℝ) < 1 + 2 ^ (-60:ℤ))] at habs
  have h60 : (2:ℝ) ^ (-60:ℤ) = 1 / 2 ^ 60 := by rw [zpow_neg, one_div]; norm_num
  have h52' : (2:ℝ) ^ (-52:ℤ) = 1 / 2 ^ 52 := by rw [zpow_neg, one_div]; norm_num
  have h3 : (1:ℝ) / 2 ^ 1075 ≤ 1 / 2 ^ 60 := by
    apply one_div_le_one_div_of_le (by positivity)
    exact pow_le_pow_right₀ (by norm_num) (by norm_num)
  rw [h60] at habs
  rw [h52', h60] at hsp
  have := (abs_le.mp habs).2
  have hn : (1:ℝ) + 1 / 2 ^ 52 - (1 + 1 / 2 ^ 60) > (1 + 1 / 2 ^ 60) / 2 ^ 53 + 1 / 2 ^ 60 := by norm_num
  linarith

end
end R64
end GeonumModel
