/-
  GeonumModel.Spec.RealWitness — exact real arithmetic satisfies every field of `FloatSpec`.

  This is (1) the consistency witness of the contract (so S-tier theorems are not vacuous) and
  (2) interpretation E: theorems specialised to `ℝ` say what the algorithm computes when rounding is
  switched off while every threshold, branch and cast of the code is still present.
-/
import GeonumModel.Spec.FloatSpec
import Mathlib.Analysis.SpecialFunctions.Pow.Real
import Mathlib.Analysis.SpecialFunctions.Trigonometric.DerivHyp
import Mathlib.Analysis.Complex.ExponentialBounds

namespace GeonumModel
open Classical

noncomputable instance instFloatLikeReal : FloatLike ℝ where
  fadd := (· + ·)
  fsub := (· - ·)
  fmul := (· * ·)
  fdiv := (· / ·)
  fneg := fun x => -x
  fabs := fun x => |x|
  flt := fun a b => decide (a < b)
  fle := fun a b => decide (a ≤ b)
  feq := fun a b => decide (a = b)
  fmod := fun a b => a - (⌊a / b⌋ : ℝ) * b
  floor := fun x => (⌊x⌋ : ℝ)
  ceil := fun x => (⌈x⌉ : ℝ)
  round := fun x => ((_root_.round x : ℤ) : ℝ)
  fract := fun x => Int.fract x
  isNormal := fun x => decide ((1:ℝ) / 2 ^ 1022 ≤ |x|)
  isFinite := fun _ => true
  sqrt := Real.sqrt
  fmax := max
  toUsize := fun x => ⌊x⌋₊
  ofNat := fun n => (n : ℝ)
  ofInt := fun i => (i : ℝ)
  ofSci := fun m s e => if s then (m : ℝ) / 10 ^ e else (m : ℝ) * 10 ^ e
  pi := Real.pi
  cos := Real.cos
  sin := Real.sin
  atan2 := fun y x => Complex.arg ⟨x, y⟩
  acos := Real.arccos
  asin := Real.arcsin
  exp := Real.exp
  tanh := Real.tanh
  ln := Real.log
  powf := fun x y => x ^ y

noncomputable instance instFloatSpecReal : FloatSpec ℝ where
  Fin := fun _ => True
  val := id
  rnd := id
  Rep := fun _ => True
  InRange := fun _ => True
  piV := Real.pi
  errTrig := 0
  rnd_mono := fun h => h
  rnd_rep := fun _ => rfl
  rnd_neg := fun _ => rfl
  rep_rnd := fun _ => trivial
  rnd_err := fun x => by simp; positivity
  rep_val := fun _ => trivial
  rep_neg := fun _ => trivial
  rep_nat := fun _ => trivial
  rep_scale := fun _ _ _ _ => trivial
  inRange_of_le := fun _ => trivial
  inRange_val := fun _ => trivial
  inRange_mono := fun _ _ => trivial
  fadd_spec := fun _ _ _ => ⟨trivial, rfl⟩
  fsub_spec := fun _ _ _ => ⟨trivial, rfl⟩
  fmul_spec := fun _ _ _ => ⟨trivial, rfl⟩
  fdiv_spec := fun _ _ _ _ => ⟨trivial, rfl⟩
  sqrt_spec := fun _ _ => ⟨trivial, rfl⟩
  sterbenz := fun _ _ _ _ => ⟨trivial, rfl⟩
  fadd_comm := fun {a b} _ _ => add_comm a b
  fmul_comm := fun {a b} _ _ => mul_comm a b
  fneg_spec := fun _ => ⟨trivial, rfl⟩
  fabs_spec := fun _ => ⟨trivial, rfl⟩
  fmod_spec := fun _ _ _ _ => ⟨trivial, rfl⟩
  ceil_spec := fun _ => ⟨trivial, rfl⟩
  floor_spec := fun _ => ⟨trivial, rfl⟩
  round_spec := fun _ _ => ⟨trivial, rfl⟩
  fract_spec := fun {a} _ => ⟨trivial, by
    show Int.fract a = 0 ↔ ∃ n : ℤ, a = n
    rw [Int.fract_eq_iff]
    constructor
    · rintro ⟨_, _, z, hz⟩; exact ⟨z, by linarith⟩
    · rintro ⟨n, hn⟩; exact ⟨le_refl _, by norm_num, n, by rw [hn]; ring⟩⟩
  fmax_spec := fun _ _ => ⟨trivial, rfl⟩
  isNormal_spec := fun {a} _ => by show decide ((1:ℝ) / 2 ^ 1022 ≤ |a|) = true ↔ _; simp
  isFinite_spec := fun _ => rfl
  flt_spec := fun {a b} _ _ => by show decide (a < b) = true ↔ _; simp
  fle_spec := fun {a b} _ _ => by show decide (a ≤ b) = true ↔ _; simp
  feq_spec := fun {a b} _ _ => by show decide (a = b) = true ↔ _; simp
  toUsize_spec := fun _ _ _ => rfl
  ofNat_spec := fun _ => ⟨trivial, rfl⟩
  ofInt_spec := fun _ => ⟨trivial, rfl⟩
  ofSci_spec := fun _ _ => ⟨trivial, by simp [FloatLike.ofSci]⟩
  pi_spec := ⟨trivial, rfl⟩
  piV_le := le_refl _
  piV_ge := by have : (0:ℝ) ≤ 2 / 10 ^ 16 := by positivity
               linarith
  errTrig_nonneg := le_refl _
  errTrig_le := by positivity
  cos_spec := fun {a} _ => ⟨trivial, Real.abs_cos_le_one a, by simp [FloatLike.cos]⟩
  sin_spec := fun {a} _ => ⟨trivial, Real.abs_sin_le_one a, by simp [FloatLike.sin]⟩
  cos_zero := fun {a} _ h => by show Real.cos a = 1; rw [show a = 0 from h]; exact Real.cos_zero
  sin_zero := fun {a} _ h => by show Real.sin a = 0; rw [show a = 0 from h]; exact Real.sin_zero
  atan2_spec := fun {y x} _ _ => ⟨trivial, Complex.abs_arg_le_pi _, fun _ => by simp [FloatLike.atan2]⟩
  atan2_neg_axis := fun {y x} _ _ hy hx => by
    show Real.pi - 0 ≤ |Complex.arg ⟨x, y⟩|
    have : (⟨x, y⟩ : ℂ) = ((x : ℝ) : ℂ) := by apply Complex.ext <;> simp [show y = 0 from hy]
    rw [this, Complex.arg_ofReal_of_neg (show x < 0 from hx), abs_of_pos Real.pi_pos]; linarith
  acos_spec := fun {a} _ _ => ⟨trivial, Real.arccos_nonneg a, Real.arccos_le_pi a⟩
  asin_spec := fun {a} _ _ => ⟨trivial, by
    show |Real.arcsin a| ≤ Real.pi / 2
    rw [abs_le]; exact ⟨Real.neg_pi_div_two_le_arcsin a, Real.arcsin_le_pi_div_two a⟩⟩
  exp_spec := fun {a} _ _ => ⟨trivial, Real.exp_pos a, fun h => Real.one_le_exp h,
    fun h => by show Real.exp a ≤ 1; exact Real.exp_le_one_iff.mpr h,
    fun h => by
      have h' : |a| ≤ 1 := h
      rw [abs_le] at h'
      have e1 : Real.exp 1 < 3 := lt_trans Real.exp_one_lt_d9 (by norm_num)
      have up : Real.exp a ≤ Real.exp 1 := Real.exp_le_exp.mpr h'.2
      have lo : Real.exp (-1) ≤ Real.exp a := Real.exp_le_exp.mpr h'.1
      have : (1:ℝ) / 3 ≤ Real.exp (-1) := by
        rw [Real.exp_neg, one_div]
        exact inv_anti₀ (Real.exp_pos 1) (le_of_lt e1)
      exact ⟨by show (1:ℝ) / 3 ≤ Real.exp a; linarith, by show Real.exp a ≤ 3; linarith⟩⟩
  tanh_spec := fun {a} _ => ⟨trivial, by
    show |Real.tanh a| ≤ 1
    rw [abs_le]; exact ⟨le_of_lt (Real.neg_one_lt_tanh a), le_of_lt (Real.tanh_lt_one a)⟩⟩

end GeonumModel
