/-
  GeonumModel.Spec.FloatSpec — interpretation S: the IEEE-754 / libm contract, as *hypotheses*.

  `class FloatSpec F extends FloatLike F` adds a finiteness predicate, a value map into ℝ, an abstract
  rounding function and one law per operation.  Every field is a textbook fact about binary64 with
  round-to-nearest-even (or a documented glibc property) AND is true of exact real arithmetic; the
  latter is proved in `Spec/RealWitness.lean`, so the contract is consistent and no theorem that
  assumes it is vacuous.  Nothing here is an axiom: theorems take `[FloatSpec F]` as a parameter.
  The conformance of the machine's `f64` to these fields is *monitored* by the correspondence run
  (DESIGN §3.3), not proved.
-/
import Mathlib.Analysis.SpecialFunctions.Trigonometric.Basic
import Mathlib.Analysis.SpecialFunctions.Complex.Arg
import Mathlib.Analysis.SpecialFunctions.Trigonometric.Inverse
import Mathlib.Algebra.Order.Round
import GeonumModel.Arith

namespace GeonumModel
open FloatLike

class FloatSpec (F : Type) extends FloatLike F where
  /-- finite (neither NaN nor ±∞) -/
  Fin : F → Prop
  /-- real value of a finite element (`±0 ↦ 0`) -/
  val : F → ℝ
  /-- rounding to the format (round-to-nearest-even for binary64; `id` for exact arithmetic) -/
  rnd : ℝ → ℝ
  /-- exactly representable as a finite element -/
  Rep : ℝ → Prop
  /-- the exact result is within the finite range of the format -/
  InRange : ℝ → Prop
  /-- the value of the constant `PI` -/
  piV : ℝ
  /-- bound on the absolute error of `cos`, `sin`, `atan2` (glibc: < 1 ulp; 0 for exact arithmetic) -/
  errTrig : ℝ
  -- ---------------------------------------------------------------- rounding
  rnd_mono : ∀ {x y : ℝ}, x ≤ y → rnd x ≤ rnd y
  rnd_rep : ∀ {x : ℝ}, Rep x → rnd x = x
  /-- round-to-nearest-even is symmetric about zero -/
  rnd_neg : ∀ (x : ℝ), rnd (-x) = -rnd x
  rep_rnd : ∀ {x : ℝ}, InRange x → Rep (rnd x)
  /-- relative error 2⁻⁵³ plus the subnormal absolute error 2⁻¹⁰⁷⁵ -/
  rnd_err : ∀ (x : ℝ), |rnd x - x| ≤ |x| / 2 ^ 53 + 1 / 2 ^ 1075
  rep_val : ∀ {a : F}, Fin a → Rep (val a)
  rep_neg : ∀ {x : ℝ}, Rep x → Rep (-x)
  rep_nat : ∀ {n : ℕ}, n < 2 ^ 53 → Rep (n : ℝ)
  /-- scaling by a power of two is exact away from the subnormal range and overflow -/
  rep_scale : ∀ {x : ℝ} (k : ℤ), Rep x → (1 : ℝ) / 2 ^ 1000 ≤ |x * 2 ^ k| → |x * 2 ^ k| ≤ 2 ^ 1000 →
    Rep (x * 2 ^ k)
  inRange_of_le : ∀ {x : ℝ}, |x| ≤ 10 ^ 250 → InRange x
  inRange_val : ∀ {a : F}, Fin a → InRange (val a)
  inRange_mono : ∀ {x y : ℝ}, |x| ≤ |y| → InRange y → InRange x
  -- ---------------------------------------------------------------- + − × ÷ √
  fadd_spec : ∀ {a b : F}, Fin a → Fin b → InRange (val a + val b) →
    Fin (fadd a b) ∧ val (fadd a b) = rnd (val a + val b)
  fsub_spec : ∀ {a b : F}, Fin a → Fin b → InRange (val a - val b) →
    Fin (fsub a b) ∧ val (fsub a b) = rnd (val a - val b)
  fmul_spec : ∀ {a b : F}, Fin a → Fin b → InRange (val a * val b) →
    Fin (fmul a b) ∧ val (fmul a b) = rnd (val a * val b)
  fdiv_spec : ∀ {a b : F}, Fin a → Fin b → val b ≠ 0 → InRange (val a / val b) →
    Fin (fdiv a b) ∧ val (fdiv a b) = rnd (val a / val b)
  sqrt_spec : ∀ {a : F}, Fin a → 0 ≤ val a → Fin (sqrt a) ∧ val (sqrt a) = rnd (Real.sqrt (val a))
  /-- Sterbenz: the difference of two nearby finite numbers is exact -/
  sterbenz : ∀ {a b : F}, Fin a → Fin b → val b / 2 ≤ val a → val a ≤ 2 * val b →
    Fin (fsub a b) ∧ val (fsub a b) = val a - val b
  /-- bitwise commutativity on finite operands -/
  fadd_comm : ∀ {a b : F}, Fin a → Fin b → fadd a b = fadd b a
  fmul_comm : ∀ {a b : F}, Fin a → Fin b → fmul a b = fmul b a
  -- ---------------------------------------------------------------- exact operations
  fneg_spec : ∀ {a : F}, Fin a → Fin (fneg a) ∧ val (fneg a) = -val a
  fabs_spec : ∀ {a : F}, Fin a → Fin (fabs a) ∧ val (fabs a) = |val a|
  /-- `fmod` is exact; stated for a non-negative dividend and a positive divisor (all the model needs) -/
  fmod_spec : ∀ {a b : F}, Fin a → Fin b → 0 ≤ val a → 0 < val b →
    Fin (fmod a b) ∧ val (fmod a b) = val a - (⌊val a / val b⌋ : ℝ) * val b
  ceil_spec : ∀ {a : F}, Fin a → Fin (FloatLike.ceil a) ∧ val (FloatLike.ceil a) = (⌈val a⌉ : ℝ)
  floor_spec : ∀ {a : F}, Fin a → Fin (FloatLike.floor a) ∧ val (FloatLike.floor a) = (⌊val a⌋ : ℝ)
  /-- `f64::round` (half away from zero) agrees with `round` (half up) on non-negative arguments -/
  round_spec : ∀ {a : F}, Fin a → 0 ≤ val a →
    Fin (FloatLike.round a) ∧ val (FloatLike.round a) = ((_root_.round (val a) : ℤ) : ℝ)
  fract_spec : ∀ {a : F}, Fin a →
    Fin (FloatLike.fract a) ∧ (val (FloatLike.fract a) = 0 ↔ ∃ n : ℤ, val a = n)
  fmax_spec : ∀ {a b : F}, Fin a → Fin b → Fin (fmax a b) ∧ val (fmax a b) = max (val a) (val b)
  /-- `f64::is_normal` on a finite value: its magnitude is at least the smallest normal number `2^-1022` -/
  isNormal_spec : ∀ {a : F}, Fin a → (FloatLike.isNormal a = true ↔ (1:ℝ) / 2 ^ 1022 ≤ |val a|)
  /-- `f64::is_finite` is true of every finite value -/
  isFinite_spec : ∀ {a : F}, Fin a → FloatLike.isFinite a = true
  -- ---------------------------------------------------------------- comparisons
  flt_spec : ∀ {a b : F}, Fin a → Fin b → (flt a b = true ↔ val a < val b)
  fle_spec : ∀ {a b : F}, Fin a → Fin b → (fle a b = true ↔ val a ≤ val b)
  feq_spec : ∀ {a b : F}, Fin a → Fin b → (feq a b = true ↔ val a = val b)
  -- ---------------------------------------------------------------- casts and literals
  toUsize_spec : ∀ {a : F}, Fin a → 0 ≤ val a → val a < 2 ^ 64 → toUsize a = ⌊val a⌋₊
  ofNat_spec : ∀ {n : ℕ}, n < 2 ^ 53 → Fin (FloatLike.ofNat n : F) ∧ val (FloatLike.ofNat n : F) = n
  ofInt_spec : ∀ {i : ℤ}, |i| < 2 ^ 53 → Fin (FloatLike.ofInt i : F) ∧ val (FloatLike.ofInt i : F) = i
  /-- negative-exponent decimal literals are the rounded quotient -/
  ofSci_spec : ∀ {m e : ℕ}, m < 2 ^ 53 → e ≤ 300 →
    Fin (FloatLike.ofSci m true e : F) ∧ val (FloatLike.ofSci m true e : F) = rnd ((m : ℝ) / 10 ^ e)
  pi_spec : Fin (FloatLike.pi : F) ∧ val (FloatLike.pi : F) = piV
  piV_le : piV ≤ Real.pi
  piV_ge : Real.pi - 2 / 10 ^ 16 ≤ piV
  -- ---------------------------------------------------------------- libm sanity (no monotonicity assumed)
  errTrig_nonneg : 0 ≤ errTrig
  errTrig_le : errTrig ≤ 1 / 10 ^ 15
  cos_spec : ∀ {a : F}, Fin a → Fin (FloatLike.cos a) ∧ |val (FloatLike.cos a)| ≤ 1 ∧
    |val (FloatLike.cos a) - Real.cos (val a)| ≤ errTrig
  sin_spec : ∀ {a : F}, Fin a → Fin (FloatLike.sin a) ∧ |val (FloatLike.sin a)| ≤ 1 ∧
    |val (FloatLike.sin a) - Real.sin (val a)| ≤ errTrig
  cos_zero : ∀ {a : F}, Fin a → val a = 0 → val (FloatLike.cos a) = 1
  sin_zero : ∀ {a : F}, Fin a → val a = 0 → val (FloatLike.sin a) = 0
  atan2_spec : ∀ {y x : F}, Fin y → Fin x →
    Fin (FloatLike.atan2 y x) ∧ |val (FloatLike.atan2 y x)| ≤ piV ∧
    (¬(val y = 0 ∧ val x < 0) →
      |val (FloatLike.atan2 y x) - Complex.arg ⟨val x, val y⟩| ≤ errTrig)
  /-- on the negative real axis (`y = ±0`, `x < 0`) the result is `±π` up to the libm error: the sign of the zero decides the sign,
      which is why `atan2_spec` gives no accuracy there -/
  atan2_neg_axis : ∀ {y x : F}, Fin y → Fin x → val y = 0 → val x < 0 → piV - errTrig ≤ |val (FloatLike.atan2 y x)|
  acos_spec : ∀ {a : F}, Fin a → |val a| ≤ 1 →
    Fin (FloatLike.acos a) ∧ 0 ≤ val (FloatLike.acos a) ∧ val (FloatLike.acos a) ≤ piV
  asin_spec : ∀ {a : F}, Fin a → |val a| ≤ 1 →
    Fin (FloatLike.asin a) ∧ |val (FloatLike.asin a)| ≤ piV / 2
  exp_spec : ∀ {a : F}, Fin a → |val a| ≤ 700 → Fin (FloatLike.exp a) ∧ 0 < val (FloatLike.exp a) ∧
    (0 ≤ val a → 1 ≤ val (FloatLike.exp a)) ∧ (val a ≤ 0 → val (FloatLike.exp a) ≤ 1) ∧
    (|val a| ≤ 1 → 1 / 3 ≤ val (FloatLike.exp a) ∧ val (FloatLike.exp a) ≤ 3)
  tanh_spec : ∀ {a : F}, Fin a → Fin (FloatLike.tanh a) ∧ |val (FloatLike.tanh a)| ≤ 1

export FloatSpec (Fin val rnd Rep InRange piV)

end GeonumModel
