/-
  GeonumModel.Spec.Round53 — a concrete rounding function on ℝ: round-to-nearest onto the binary64 grid
  (53-bit significands, gradual underflow with least spacing 2^-1074, exponent unbounded above), and the
  facts about it that the `FloatSpec` contract asks of `rnd` / `Rep`.

  Ties are broken away from zero (no field of the contract depends on the tie rule; the hardware breaks them
  to even).  Everything here is pure real analysis; `Spec/RoundWitness.lean` turns it into an instance.
-/
import Mathlib.Data.Int.Log
import Mathlib.Algebra.Order.Round
import Mathlib.Algebra.Order.Floor.Ring
import Mathlib.Tactic.Linarith
import Mathlib.Tactic.Positivity
import Mathlib.Tactic.Ring
import Mathlib.Tactic.NormNum
import Mathlib.Tactic.FieldSimp
import Mathlib.Algebra.Order.Archimedean.Real.Basic

namespace GeonumModel.R53
noncomputable section

/-- binade index of a positive real, clamped at the bottom of the normal range -/
def binade (x : ℝ) : ℤ := max (Int.log 2 x) (-1022)

/-- exponent of the grid spacing around `x` -/
def uexp (x : ℝ) : ℤ := binade x - 52

/-- nearest grid point of a non-negative real (ties up) -/
def rpos (x : ℝ) : ℝ := (round (x / 2 ^ uexp x) : ℝ) * 2 ^ uexp x

/-- round to nearest, ties away from zero -/
def rnd (x : ℝ) : ℝ := if 0 ≤ x then rpos x else -rpos (-x)

/-- finite binary64 values with the exponent unbounded above: `m · 2^e`, `|m| < 2^53`, `e ≥ -1074` -/
def Rep (x : ℝ) : Prop := ∃ m e : ℤ, |m| < 2 ^ 53 ∧ -1074 ≤ e ∧ x = m * (2:ℝ) ^ e

theorem two_zpow_pos (e : ℤ) : (0:ℝ) < 2 ^ e := zpow_pos (by norm_num) e

theorem zpow_mono2 {a b : ℤ} (h : a ≤ b) : (2:ℝ) ^ a ≤ 2 ^ b :=
  zpow_le_zpow_right₀ (by norm_num) h

theorem binade_ge (x : ℝ) : -1022 ≤ binade x := le_max_right _ _

theorem lt_binade_succ (x : ℝ) : x < 2 ^ (binade x + 1) := by
  have h := Int.lt_zpow_succ_log_self (R := ℝ) (b := 2) (by norm_num) x
  have h2 : ((2:ℕ):ℝ) ^ (Int.log 2 x + 1) ≤ (2:ℝ) ^ (binade x + 1) := by
    rw [Nat.cast_ofNat]
    exact zpow_mono2 (by unfold binade; have := le_max_left (Int.log 2 x) (-1022); omega)
  linarith

theorem binade_le_or {x : ℝ} (hx : 0 < x) : (2:ℝ) ^ binade x ≤ x ∨ binade x = -1022 := by
  by_cases h : -1022 ≤ Int.log 2 x
  · left
    have : binade x = Int.log 2 x := by unfold binade; exact max_eq_left h
    rw [this]
    have := Int.zpow_log_le_self (R := ℝ) (b := 2) (by norm_num) hx
    rwa [Nat.cast_ofNat] at this
  · right
    unfold binade; exact max_eq_right (by omega)

theorem binade_mono {x y : ℝ} (hx : 0 < x) (h : x ≤ y) : binade x ≤ binade y := by
  unfold binade
  exact max_le_max (Int.log_mono_right hx h) (le_refl _)

theorem round_mono {a b : ℝ} (h : a ≤ b) : round a ≤ round b := by
  rw [round_eq, round_eq]; exact Int.floor_mono (by linarith)

/-- the scaled argument lies in `[0, 2^53)` -/
theorem scaled_lt {x : ℝ} : x / 2 ^ uexp x < 2 ^ (53:ℤ) := by
  rw [div_lt_iff₀ (two_zpow_pos _), ← zpow_add₀ (by norm_num : (2:ℝ) ≠ 0)]
  have : (53:ℤ) + uexp x = binade x + 1 := by unfold uexp; ring
  rw [this]; exact lt_binade_succ x

theorem rpos_nonneg {x : ℝ} (hx : 0 ≤ x) : 0 ≤ rpos x := by
  unfold rpos
  have : (0:ℤ) ≤ round (x / 2 ^ uexp x) := by
    have := round_mono (a := 0) (b := x / 2 ^ uexp x) (div_nonneg hx (le_of_lt (two_zpow_pos _)))
    simpa using this
  have h2 : (0:ℝ) ≤ (round (x / 2 ^ uexp x) : ℝ) := by exact_mod_cast this
  exact mul_nonneg h2 (le_of_lt (two_zpow_pos _))

theorem round_scaled_le (x : ℝ) : round (x / 2 ^ uexp x) ≤ 2 ^ 53 := by
  have := round_mono (le_of_lt (scaled_lt (x := x)))
  have h2 : round ((2:ℝ) ^ (53:ℤ)) = 2 ^ 53 := by
    have : ((2:ℝ) ^ (53:ℤ)) = ((2 ^ 53 : ℤ) : ℝ) := by norm_num
    rw [this, round_intCast]
  rwa [h2] at this

theorem rpos_le_top (x : ℝ) : rpos x ≤ 2 ^ (binade x + 1) := by
  unfold rpos
  have h1 : (round (x / 2 ^ uexp x) : ℝ) ≤ 2 ^ (53:ℤ) := by
    have := round_scaled_le x
    have h : ((round (x / 2 ^ uexp x) : ℤ) : ℝ) ≤ ((2 ^ 53 : ℤ) : ℝ) := by exact_mod_cast this
    have e : ((2 ^ 53 : ℤ) : ℝ) = (2:ℝ) ^ (53:ℤ) := by norm_num
    rwa [e] at h
  calc (round (x / 2 ^ uexp x) : ℝ) * 2 ^ uexp x ≤ 2 ^ (53:ℤ) * 2 ^ uexp x :=
        mul_le_mul_of_nonneg_right h1 (le_of_lt (two_zpow_pos _))
    _ = 2 ^ (binade x + 1) := by
        rw [← zpow_add₀ (by norm_num : (2:ℝ) ≠ 0)]; congr 1; unfold uexp; ring

theorem rpos_ge_bot {x : ℝ} (h : (2:ℝ) ^ binade x ≤ x) : (2:ℝ) ^ binade x ≤ rpos x := by
  unfold rpos
  have hs : (2:ℝ) ^ (52:ℤ) ≤ x / 2 ^ uexp x := by
    rw [le_div_iff₀ (two_zpow_pos _), ← zpow_add₀ (by norm_num : (2:ℝ) ≠ 0)]
    have : (52:ℤ) + uexp x = binade x := by unfold uexp; ring
    rwa [this]
  have := round_mono hs
  have h2 : round ((2:ℝ) ^ (52:ℤ)) = 2 ^ 52 := by
    have : ((2:ℝ) ^ (52:ℤ)) = ((2 ^ 52 : ℤ) : ℝ) := by norm_num
    rw [this, round_intCast]
  rw [h2] at this
  have h1 : (2:ℝ) ^ (52:ℤ) ≤ (round (x / 2 ^ uexp x) : ℝ) := by
    have h : ((2 ^ 52 : ℤ) : ℝ) ≤ ((round (x / 2 ^ uexp x) : ℤ) : ℝ) := by exact_mod_cast this
    have e : ((2 ^ 52 : ℤ) : ℝ) = (2:ℝ) ^ (52:ℤ) := by norm_num
    rwa [e] at h
  calc (2:ℝ) ^ binade x = 2 ^ (52:ℤ) * 2 ^ uexp x := by
        rw [← zpow_add₀ (by norm_num : (2:ℝ) ≠ 0)]; congr 1; unfold uexp; ring
    _ ≤ _ := mul_le_mul_of_nonneg_right h1 (le_of_lt (two_zpow_pos _))

theorem rpos_zero : rpos 0 = 0 := by unfold rpos; simp

theorem rpos_mono {x y : ℝ} (hx : 0 ≤ x) (h : x ≤ y) : rpos x ≤ rpos y := by
  rcases eq_or_lt_of_le hx with h0 | hpos
  · rw [← h0, rpos_zero]; exact rpos_nonneg (le_trans hx h)
  have hb := binade_mono hpos h
  rcases eq_or_lt_of_le hb with he | hlt
  · unfold rpos
    have hu : uexp x = uexp y := by unfold uexp; rw [he]
    rw [hu]
    have : round (x / 2 ^ uexp y) ≤ round (y / 2 ^ uexp y) :=
      round_mono (div_le_div_of_nonneg_right h (le_of_lt (two_zpow_pos _)))
    have h' : (round (x / 2 ^ uexp y) : ℝ) ≤ (round (y / 2 ^ uexp y) : ℝ) := by exact_mod_cast this
    exact mul_le_mul_of_nonneg_right h' (le_of_lt (two_zpow_pos _))
  · have hy : (2:ℝ) ^ binade y ≤ y := by
      rcases binade_le_or (lt_of_lt_of_le hpos h) with h1 | h1
      · exact h1
      · have := binade_ge x; omega
    calc rpos x ≤ 2 ^ (binade x + 1) := rpos_le_top x
      _ ≤ 2 ^ binade y := zpow_mono2 (by omega)
      _ ≤ rpos y := rpos_ge_bot hy

theorem rnd_zero : rnd 0 = 0 := by unfold rnd; simp [rpos_zero]

theorem rnd_neg (x : ℝ) : rnd (-x) = -rnd x := by
  unfold rnd
  rcases lt_trichotomy x 0 with h | h | h
  · have h1 : 0 ≤ -x := by linarith
    have h2 : ¬ 0 ≤ x := by linarith
    simp [h1, h2]
  · subst h; simp [rpos_zero]
  · have h1 : ¬ 0 ≤ -x := by linarith
    have h2 : 0 ≤ x := le_of_lt h
    simp [h1, h2]

theorem rnd_of_nonneg {x : ℝ} (h : 0 ≤ x) : rnd x = rpos x := by unfold rnd; simp [h]

theorem rnd_nonneg {x : ℝ} (h : 0 ≤ x) : 0 ≤ rnd x := by rw [rnd_of_nonneg h]; exact rpos_nonneg h

theorem rnd_mono {x y : ℝ} (h : x ≤ y) : rnd x ≤ rnd y := by
  by_cases hx : 0 ≤ x
  · rw [rnd_of_nonneg hx, rnd_of_nonneg (le_trans hx h)]; exact rpos_mono hx h
  · have hx' : 0 ≤ -x := by linarith
    by_cases hy : 0 ≤ y
    · have : rnd x = -rnd (-x) := by rw [rnd_neg]; ring
      rw [this]
      have := rnd_nonneg hx'; have := rnd_nonneg hy; linarith
    · have hy' : 0 ≤ -y := by linarith
      have e1 : rnd x = -rnd (-x) := by rw [rnd_neg]; ring
      have e2 : rnd y = -rnd (-y) := by rw [rnd_neg]; ring
      rw [e1, e2, rnd_of_nonneg hx', rnd_of_nonneg hy']
      have := rpos_mono hy' (by linarith : -y ≤ -x)
      linarith

/-- half the spacing bounds the error -/
theorem rpos_err (x : ℝ) : |rpos x - x| ≤ 2 ^ uexp x / 2 := by
  unfold rpos
  have h := abs_sub_round (x / 2 ^ uexp x)
  have hp := two_zpow_pos (uexp x)
  have : (round (x / 2 ^ uexp x) : ℝ) * 2 ^ uexp x - x
      = -((x / 2 ^ uexp x - round (x / 2 ^ uexp x)) * 2 ^ uexp x) := by
    field_simp; ring
  rw [this, abs_neg, abs_mul, abs_of_pos hp]
  calc _ ≤ 1 / 2 * 2 ^ uexp x := mul_le_mul_of_nonneg_right h (le_of_lt hp)
    _ = _ := by ring

theorem half_spacing_le {x : ℝ} (hx : 0 < x) : (2:ℝ) ^ uexp x / 2 ≤ x / 2 ^ 53 + 1 / 2 ^ 1075 := by
  have e53 : ((2:ℝ) ^ 53) = (2:ℝ) ^ (53:ℤ) := by norm_num
  have e1075 : (1:ℝ) / 2 ^ 1075 = (2:ℝ) ^ (-1075:ℤ) := by
    rw [zpow_neg, one_div]; congr 1
  rcases binade_le_or hx with h | h
  · have : (2:ℝ) ^ uexp x / 2 ≤ x / 2 ^ 53 := by
      rw [e53, div_le_div_iff₀ (by norm_num) (two_zpow_pos _)]
      have : (2:ℝ) ^ uexp x * 2 ^ (53:ℤ) = 2 ^ binade x * 2 := by
        rw [← zpow_add₀ (by norm_num : (2:ℝ) ≠ 0)]
        have : uexp x + 53 = binade x + 1 := by unfold uexp; ring
        rw [this, zpow_add₀ (by norm_num : (2:ℝ) ≠ 0)]; norm_num
      rw [this]; linarith
    have : (0:ℝ) ≤ 1 / 2 ^ 1075 := by positivity
    linarith
  · have : (2:ℝ) ^ uexp x / 2 = 1 / 2 ^ 1075 := by
      rw [e1075]; unfold uexp; rw [h]
      rw [div_eq_iff (by norm_num : (2:ℝ) ≠ 0)]
      have : (2:ℝ) ^ (-1075:ℤ) * 2 = 2 ^ (-1075:ℤ) * 2 ^ (1:ℤ) := by norm_num
      rw [this, ← zpow_add₀ (by norm_num : (2:ℝ) ≠ 0)]; norm_num
    have : (0:ℝ) ≤ x / 2 ^ 53 := by positivity
    linarith

theorem rnd_err (x : ℝ) : |rnd x - x| ≤ |x| / 2 ^ 53 + 1 / 2 ^ 1075 := by
  rcases lt_trichotomy x 0 with h | h | h
  · have e : rnd x - x = -(rnd (-x) - -x) := by rw [rnd_neg]; ring
    rw [e, abs_neg, rnd_of_nonneg (by linarith), abs_of_neg h]
    exact le_trans (rpos_err _) (half_spacing_le (by linarith))
  · subst h; rw [rnd_zero]; simp
  · rw [rnd_of_nonneg (le_of_lt h), abs_of_pos h]
    exact le_trans (rpos_err _) (half_spacing_le h)

/-! ### representable numbers -/

theorem rep_zero : Rep 0 := ⟨0, 0, by norm_num, by norm_num, by simp⟩

theorem rep_neg {x : ℝ} (h : Rep x) : Rep (-x) := by
  obtain ⟨m, e, hm, he, rfl⟩ := h
  exact ⟨-m, e, by rwa [abs_neg], he, by push_cast; ring⟩

/-- an integer multiple of `2^e` (`e ≥ -1074`) below `2^53 · 2^e` in size is representable -/
theorem rep_of_multiple_lt {y : ℝ} (k e : ℤ) (he : -1074 ≤ e) (hy : y = k * (2:ℝ) ^ e)
    (hlt : |y| < 2 ^ (53:ℤ) * 2 ^ e) : Rep y := by
  refine ⟨k, e, ?_, he, hy⟩
  rw [hy, abs_mul, abs_of_pos (two_zpow_pos e)] at hlt
  have h1 : |(k:ℝ)| < 2 ^ (53:ℤ) := lt_of_mul_lt_mul_right hlt (le_of_lt (two_zpow_pos e))
  have e53 : (2:ℝ) ^ (53:ℤ) = ((2 ^ 53 : ℤ) : ℝ) := by norm_num
  rw [e53, ← Int.cast_abs] at h1
  exact_mod_cast h1

/-- re-express a multiple of `2^e` on a finer grid -/
theorem int_mul_zpow (m : ℤ) {e u : ℤ} (h : u ≤ e) : ∃ k : ℤ, (m:ℝ) * 2 ^ e = k * 2 ^ u := by
  refine ⟨m * 2 ^ (e - u).toNat, ?_⟩
  have h1 : (2:ℝ) ^ e = 2 ^ (e - u) * 2 ^ u := by
    rw [← zpow_add₀ (by norm_num : (2:ℝ) ≠ 0)]; congr 1; ring
  have h2 : (2:ℝ) ^ (e - u) = ((2 ^ (e - u).toNat : ℤ) : ℝ) := by
    have : e - u = ((e - u).toNat : ℤ) := (Int.toNat_of_nonneg (by omega)).symm
    conv_lhs => rw [this]
    rw [zpow_natCast]; push_cast; rfl
  rw [h1, h2]; push_cast; ring

theorem rep_lt_top {x : ℝ} {m e : ℤ} (hm : |m| < 2 ^ 53) (hx : x = m * (2:ℝ) ^ e) :
    |x| < 2 ^ (53:ℤ) * 2 ^ e := by
  rw [hx, abs_mul, abs_of_pos (two_zpow_pos e)]
  have : |(m:ℝ)| < 2 ^ (53:ℤ) := by
    have e53 : (2:ℝ) ^ (53:ℤ) = ((2 ^ 53 : ℤ) : ℝ) := by norm_num
    rw [e53, ← Int.cast_abs]; exact_mod_cast hm
  exact mul_lt_mul_of_pos_right this (two_zpow_pos e)

/-- a positive representable number is a multiple of its own grid spacing -/
theorem uexp_le_of_rep {x : ℝ} (hx : 0 < x) {m e : ℤ} (hm : |m| < 2 ^ 53) (he : -1074 ≤ e)
    (hxe : x = m * (2:ℝ) ^ e) : uexp x ≤ e := by
  have hlt := rep_lt_top hm hxe
  rw [abs_of_pos hx, ← zpow_add₀ (by norm_num : (2:ℝ) ≠ 0)] at hlt
  have hlog : Int.log 2 x < 53 + e := by
    rw [← Int.lt_zpow_iff_log_lt (by norm_num) hx]; rwa [Nat.cast_ofNat]
  unfold uexp binade
  rcases max_cases (Int.log 2 x) (-1022) with ⟨h1, _⟩ | ⟨h1, _⟩ <;> rw [h1] <;> omega

theorem rpos_fix {x : ℝ} (k : ℤ) (h : x = k * (2:ℝ) ^ uexp x) : rpos x = x := by
  unfold rpos
  have : x / 2 ^ uexp x = k := by
    rw [div_eq_iff (ne_of_gt (two_zpow_pos _))]; exact h
  rw [this, round_intCast]; exact h.symm

theorem rnd_rep {x : ℝ} (h : Rep x) : rnd x = x := by
  have pos : ∀ {y : ℝ}, 0 < y → Rep y → rnd y = y := by
    intro y hy hr
    obtain ⟨m, e, hm, he, hye⟩ := hr
    rw [rnd_of_nonneg (le_of_lt hy)]
    obtain ⟨k, hk⟩ := int_mul_zpow m (uexp_le_of_rep hy hm he hye)
    exact rpos_fix k (by rw [← hk]; exact hye)
  rcases lt_trichotomy x 0 with hx | hx | hx
  · have := pos (by linarith : 0 < -x) (rep_neg h)
    rw [rnd_neg] at this; linarith
  · subst hx; exact rnd_zero
  · exact pos hx h

theorem uexp_ge (x : ℝ) : -1074 ≤ uexp x := by unfold uexp; have := binade_ge x; omega

theorem rep_rpos (x : ℝ) (hx : 0 ≤ x) : Rep (rpos x) := by
  have hn := round_scaled_le x
  have h0 : (0:ℤ) ≤ round (x / 2 ^ uexp x) := by
    have := round_mono (a := 0) (b := x / 2 ^ uexp x) (div_nonneg hx (le_of_lt (two_zpow_pos _)))
    simpa using this
  rcases eq_or_lt_of_le hn with he | hl
  · refine ⟨2 ^ 52, uexp x + 1, by norm_num, by have := uexp_ge x; omega, ?_⟩
    unfold rpos; rw [he, zpow_add₀ (by norm_num : (2:ℝ) ≠ 0)]; push_cast; ring
  · exact ⟨round (x / 2 ^ uexp x), uexp x, by rw [abs_of_nonneg h0]; exact hl, uexp_ge x, rfl⟩

theorem rep_rnd (x : ℝ) : Rep (rnd x) := by
  unfold rnd
  split
  · exact rep_rpos x ‹_›
  · exact rep_neg (rep_rpos (-x) (by linarith))

theorem rep_nat {n : ℕ} (h : n < 2 ^ 53) : Rep (n : ℝ) :=
  ⟨n, 0, by rw [abs_of_nonneg (by positivity)]; exact_mod_cast h, by norm_num, by simp⟩

theorem rep_int {i : ℤ} (h : |i| < 2 ^ 53) : Rep (i : ℝ) := ⟨i, 0, h, by norm_num, by simp⟩

theorem rep_scale {x : ℝ} (k : ℤ) (h : Rep x) (hlo : (1 : ℝ) / 2 ^ 1000 ≤ |x * 2 ^ k|)
    (_hhi : |x * 2 ^ k| ≤ 2 ^ 1000) : Rep (x * 2 ^ k) := by
  obtain ⟨m, e, hm, he, rfl⟩ := h
  have hx : (m:ℝ) * 2 ^ e * 2 ^ k = m * 2 ^ (e + k) := by
    rw [mul_assoc, ← zpow_add₀ (by norm_num : (2:ℝ) ≠ 0)]
  refine ⟨m, e + k, hm, ?_, hx⟩
  by_contra hc
  have hlt := rep_lt_top hm hx
  rw [← zpow_add₀ (by norm_num : (2:ℝ) ≠ 0)] at hlt
  have h1 : (2:ℝ) ^ (53 + (e + k)) ≤ 2 ^ (-1001:ℤ) := zpow_mono2 (by omega)
  have h2 : (2:ℝ) ^ (-1001:ℤ) < 1 / 2 ^ 1000 := by
    have e : (1:ℝ) / 2 ^ 1000 = (2:ℝ) ^ (-1000:ℤ) := by rw [zpow_neg, one_div]; congr 1
    rw [e]; exact zpow_lt_zpow_right₀ (by norm_num) (by norm_num)
  linarith

/-- Sterbenz: the difference of two representable numbers within a factor two of each other is representable -/
theorem rep_sub_sterbenz {a b : ℝ} (ha : Rep a) (hb : Rep b) (h1 : b / 2 ≤ a) (h2 : a ≤ 2 * b) :
    Rep (a - b) := by
  have hb0 : 0 ≤ b := by linarith
  have ha0 : 0 ≤ a := by linarith
  obtain ⟨ma, ea, hma, hea, hae⟩ := ha
  obtain ⟨mb, eb, hmb, heb, hbe⟩ := hb
  rcases le_total ea eb with h | h
  · obtain ⟨k, hk⟩ := int_mul_zpow mb h
    refine rep_of_multiple_lt (ma - k) ea hea (by rw [hae, hbe, hk]; push_cast; ring) ?_
    have : |a - b| ≤ |a| := by rw [abs_of_nonneg ha0, abs_le]; constructor <;> linarith
    exact lt_of_le_of_lt this (rep_lt_top hma hae)
  · obtain ⟨k, hk⟩ := int_mul_zpow ma h
    refine rep_of_multiple_lt (k - mb) eb heb (by rw [hae, hbe, hk]; push_cast; ring) ?_
    have : |a - b| ≤ |b| := by rw [abs_of_nonneg hb0, abs_le]; constructor <;> linarith
    exact lt_of_le_of_lt this (rep_lt_top hmb hbe)

/-- `a - q·b` with `0 ≤ a - q·b < b`, `q ≥ 0` an integer, is representable when `a`, `b` are -/
theorem rep_rem {a b : ℝ} (q : ℤ) (ha : Rep a) (hb : Rep b) (ha0 : 0 ≤ a) (hb0 : 0 < b) (hq0 : 0 ≤ q)
    (hr0 : 0 ≤ a - (q : ℝ) * b) (hrb : a - (q : ℝ) * b < b) : Rep (a - (q : ℝ) * b) := by
  have hq0' : (0:ℝ) ≤ (q : ℝ) := by exact_mod_cast hq0
  have hra : a - (q : ℝ) * b ≤ a := by nlinarith
  obtain ⟨ma, ea, hma, hea, hae⟩ := ha
  obtain ⟨mb, eb, hmb, heb, hbe⟩ := hb
  rcases le_total ea eb with h | h
  · obtain ⟨k, hk⟩ := int_mul_zpow mb h
    refine rep_of_multiple_lt (ma - q * k) ea hea ?_ ?_
    · rw [hbe, hk, hae]; push_cast; ring
    · rw [abs_of_nonneg hr0]
      have := rep_lt_top hma hae
      rw [abs_of_nonneg ha0] at this; linarith
  · obtain ⟨k, hk⟩ := int_mul_zpow ma h
    refine rep_of_multiple_lt (k - q * mb) eb heb ?_ ?_
    · rw [hae, hk, hbe]; push_cast; ring
    · rw [abs_of_nonneg hr0]
      have := rep_lt_top hmb hbe
      rw [abs_of_pos hb0] at this; linarith

/-- the IEEE remainder of representable numbers is representable -/
theorem rep_fmod {a b : ℝ} (ha : Rep a) (hb : Rep b) (ha0 : 0 ≤ a) (hb0 : 0 < b) :
    Rep (a - (⌊a / b⌋ : ℝ) * b) := by
  refine rep_rem ⌊a / b⌋ ha hb ha0 hb0 (Int.floor_nonneg.mpr (div_nonneg ha0 (le_of_lt hb0))) ?_ ?_
  · have := Int.floor_le (a / b)
    have : (⌊a / b⌋ : ℝ) * b ≤ a := by rwa [le_div_iff₀ hb0] at this
    linarith
  · have := Int.lt_floor_add_one (a / b)
    rw [div_lt_iff₀ hb0] at this; linarith

/-- any monotone integer-valued function fixing the integers maps representable numbers to representable ones -/
theorem rep_int_fn (f : ℝ → ℤ) (hint : ∀ n : ℤ, f n = n) (hmono : ∀ {x y : ℝ}, x ≤ y → f x ≤ f y)
    {x : ℝ} (h : Rep x) : Rep (f x : ℝ) := by
  obtain ⟨m, e, hm, he, hxe⟩ := h
  rcases le_or_gt 0 e with h0 | h0
  · obtain ⟨k, hk⟩ := int_mul_zpow m h0
    have : x = (k:ℝ) := by rw [hxe, hk]; simp
    rw [this, hint]; rw [← this]; exact ⟨m, e, hm, he, hxe⟩
  · have hlt := rep_lt_top hm hxe
    have : (2:ℝ) ^ (53:ℤ) * 2 ^ e ≤ 2 ^ (52:ℤ) := by
      rw [← zpow_add₀ (by norm_num : (2:ℝ) ≠ 0)]; exact zpow_mono2 (by omega)
    have hx := lt_of_lt_of_le hlt this
    rw [abs_lt] at hx
    have e52 : (2:ℝ) ^ (52:ℤ) = ((2 ^ 52 : ℤ) : ℝ) := by norm_num
    have hu : f x ≤ 2 ^ 52 := by
      have := hmono (le_of_lt hx.2); rwa [e52, hint] at this
    have hl : -(2 ^ 52) ≤ f x := by
      have := hmono (le_of_lt hx.1)
      rw [e52, ← Int.cast_neg, hint] at this; exact this
    exact rep_int (by rw [abs_lt]; constructor <;> omega)

theorem rep_floor {x : ℝ} (h : Rep x) : Rep (⌊x⌋ : ℝ) :=
  rep_int_fn (fun y => ⌊y⌋) (fun n => Int.floor_intCast n) (fun h => Int.floor_mono h) h

theorem rep_ceil {x : ℝ} (h : Rep x) : Rep (⌈x⌉ : ℝ) :=
  rep_int_fn (fun y => ⌈y⌉) (fun n => Int.ceil_intCast n) (fun h => Int.ceil_mono h) h

theorem rep_round {x : ℝ} (h : Rep x) : Rep (round x : ℝ) :=
  rep_int_fn (fun y => round y) (fun n => round_intCast n) (fun h => round_mono h) h

/-- `x - trunc x` for non-negative `x` -/
theorem rep_fract_nonneg {x : ℝ} (h : Rep x) (hx : 0 ≤ x) : Rep (x - (⌊x⌋ : ℝ)) := by
  obtain ⟨m, e, hm, he, hxe⟩ := h
  have hf0 : 0 ≤ x - (⌊x⌋ : ℝ) := by have := Int.floor_le x; linarith
  have hfx : x - (⌊x⌋ : ℝ) ≤ x := by
    have : (0:ℤ) ≤ ⌊x⌋ := Int.floor_nonneg.mpr hx
    have : (0:ℝ) ≤ (⌊x⌋ : ℝ) := by exact_mod_cast this
    linarith
  rcases le_or_gt 0 e with h0 | h0
  · obtain ⟨k, hk⟩ := int_mul_zpow m h0
    have : x = (k:ℝ) := by rw [hxe, hk]; simp
    rw [this, Int.floor_intCast, sub_self]; exact rep_zero
  · obtain ⟨k, hk⟩ := int_mul_zpow ⌊x⌋ (le_of_lt h0)
    refine rep_of_multiple_lt (m - k) e he ?_ ?_
    · have : (⌊x⌋ : ℝ) = k * 2 ^ e := by rw [← hk]; simp
      rw [this]; conv_lhs => rw [hxe]
      push_cast; ring
    · rw [abs_of_nonneg hf0]
      have := rep_lt_top hm hxe
      rw [abs_of_nonneg hx] at this; linarith

end
end GeonumModel.R53
