/-
  GeonumModel.Lemmas.FloatSumBlade — S/B-tier for C14's general regime: the blade count of a sum in ROUNDED arithmetic lies between the
  combined blade count `cb` and `cb + 4`, and a full turn above `cb` is reached only with a remainder below an explicit bound that
  grows with `cb` (the quantitative form of known finding `C14-large-blade-turn`).
-/
import GeonumModel.Lemmas.FloatSumDir

set_option linter.unusedSectionVars false
set_option linter.unusedVariables false

namespace GeonumModel
open FloatLike FloatSpec
variable {F : Type} [FloatSpec F]

/-- a blade count whose total `k·q + r` is at most `4q + η` with `η < q` is at most 4, and equals 4 only with `r ≤ η` -/
theorem blade_le_of_total {k : ℕ} {q r η : ℝ} (hq : 0 < q) (hr : 0 ≤ r) (h : (k : ℝ) * q + r ≤ 4 * q + η) (hη : η < q) :
    k ≤ 4 ∧ (k = 4 → r ≤ η) := by
  constructor
  · by_contra hc
    push Not at hc
    have h5 : (5:ℝ) ≤ (k : ℝ) := by exact_mod_cast hc
    have : 5 * q ≤ (k : ℝ) * q := mul_le_mul_of_nonneg_right h5 (le_of_lt hq)
    linarith
  · intro hk; subst hk; push_cast at h; linarith

namespace Geonum
open Angle

/-- **blade history of the sum in the general branch, rounded arithmetic** (`cb` = combined blade count of the operands):
    `cb ≤ blade(a+b) ≤ cb + 4`, and `blade(a+b) = cb + 4` only with remainder at most `1e-10 + (48·cb + 200)·2⁻⁵³` -/
theorem add_general_blade_float {a b : Geonum F} (ha : a.angle.Inv) (hb : b.angle.Inv) (hma : a.MagDom) (hmb : b.MagDom)
    (hcb : a.angle.blade + b.angle.blade ≤ 2 ^ 39) (h1 : sameAngle a b = false) (h2 : oppositeAngle a b = false) :
    a.angle.blade + b.angle.blade ≤ (a.add b).angle.blade ∧
    (a.add b).angle.blade ≤ a.angle.blade + b.angle.blade + 4 ∧
    ((a.add b).angle.blade = a.angle.blade + b.angle.blade + 4 →
      val (a.add b).angle.rem ≤ val (e10 : F) + (48 * ((a.angle.blade + b.angle.blade : ℕ) : ℝ) + 200) * (1 / 2 ^ 53) + 1 / 10 ^ 298) := by
  have hk53 : a.angle.blade + b.angle.blade < 2 ^ 53 := lt_of_le_of_lt hcb (by norm_num)
  obtain ⟨hfat, hat1, hfA, hAerr, hAabs⟩ := general_adjusted ha hb hma hmb hcb
  set c : ℝ := ((a.angle.blade + b.angle.blade : ℕ) : ℝ) with hc
  have hc0 : 0 ≤ c := Nat.cast_nonneg _
  have hcle : c ≤ 2 ^ 39 := by rw [hc]; exact_mod_cast hcb
  set A := fsub (FloatLike.atan2 (oppSum a b) (adjSum a b)) (fdiv (fmul (FloatLike.ofNat (a.angle.blade + b.angle.blade)) pi) two)
    with hA
  set t := val (FloatLike.atan2 (oppSum a b) (adjSum a b)) with ht
  have hA41 : |val A| ≤ 2 ^ 41 := by
    have : 2 * c + 6 ≤ 2 ^ 41 := by
      have : (2:ℝ) * 2 ^ 39 + 6 ≤ 2 ^ 41 := by norm_num
      linarith
    linarith
  have hres : (a.add b).angle = (Angle.new A (FloatLike.pi : F)).geometricAdd ⟨zero, a.angle.blade + b.angle.blade⟩ := by
    rw [add_general a b h1 h2]
    show Angle.newWithBlade _ _ (FloatLike.pi : F) = _
    unfold Angle.newWithBlade
    simp only [Angle.add, addVV]
    rw [new_nat _ hk53]
  have hninv : (Angle.new A (FloatLike.pi : F)).Inv := by
    rcases le_or_gt 0 (val A) with h | h
    · exact (new_radians_total hfA h (by rw [abs_of_nonneg h] at hA41; exact hA41)).1
    · exact (new_radians_total_neg hfA h (by rw [abs_of_neg h] at hA41; linarith)).1
  obtain ⟨hbl, hfr, hvr⟩ := add_whole hninv (fin_zero (F := F)) (val_zero (F := F))
    (z := (⟨zero, a.angle.blade + b.angle.blade⟩ : Angle F))
  rw [hres, hbl, hvr]
  simp only
  -- constants
  obtain ⟨ε, hε⟩ : ∃ ε : ℝ, ε = 1 / 2 ^ 53 := ⟨_, rfl⟩
  have hε0 : 0 < ε := by rw [hε]; positivity
  obtain ⟨τ, hτ⟩ : ∃ τ : ℝ, τ = 1 / 2 ^ 1075 := ⟨_, rfl⟩
  have hτ0 : 0 < τ := by rw [hτ]; positivity
  have hτ300 : τ ≤ 1 / 10 ^ 300 := by rw [hτ]; exact tiny_1075_300
  rw [← hε, ← hτ] at hAerr
  have h1070 : (1:ℝ) / 2 ^ 1070 = 32 * τ := by
    rw [hτ, show (1075:ℕ) = 1070 + 5 by norm_num, pow_add]; field_simp; norm_num
  have h298 : 35 * (1 / 10 ^ 300 : ℝ) ≤ 1 / 10 ^ 298 := by
    rw [show (300:ℕ) = 298 + 2 by norm_num, pow_add, mul_one_div, div_le_div_iff₀ (by positivity) (by positivity)]
    rw [show (10:ℝ) ^ 2 = 100 by norm_num]
    have hx : (0:ℝ) < 10 ^ 298 := by positivity
    generalize (10:ℝ) ^ 298 = x at hx ⊢
    linarith
  have h298' : (1:ℝ) / 10 ^ 298 ≤ 1 / 100 := one_div_le_one_div_of_le (by norm_num) (by
    calc (100:ℝ) = 10 ^ 2 := by norm_num
      _ ≤ 10 ^ 298 := pow_le_pow_right₀ (by norm_num) (by norm_num))
  rw [← hε]
  rw [abs_le] at hAerr hAabs
  have hAabs' : |val A| ≤ 2 * c + 6 := abs_le.mpr hAabs
  have hqp := val_qp (F := F)
  have hp3 := piV_gt3 (F := F)
  have hq0 : 0 < val (qp : F) := by rw [hqp]; linarith
  have hq1 : 1 < val (qp : F) := by rw [hqp]; linarith
  have he := val_e10_small (F := F)
  have he0 := val_e10_pos (F := F)
  have hcε : c * ε ≤ 1 / 10000 := by
    have h' : c * ε ≤ 2 ^ 39 * ε := mul_le_mul_of_nonneg_right hcle (le_of_lt hε0)
    have : (2:ℝ) ^ 39 * ε ≤ 1 / 10000 := by rw [hε]; norm_num
    linarith
  have hε15 : ε ≤ 1 / 10 ^ 15 := by rw [hε]; norm_num
  have hcε0 : 0 ≤ c * ε := mul_nonneg hc0 (le_of_lt hε0)
  have hTq : Tq (Angle.new A (FloatLike.pi : F)) =
      ((Angle.new A (FloatLike.pi : F)).blade : ℝ) * val (qp : F) + val (Angle.new A (FloatLike.pi : F)).rem := by
    unfold Tq; ring
  have hr0 := hninv.2.1
  set k := (Angle.new A (FloatLike.pi : F)).blade with hkdef
  set r := val (Angle.new A (FloatLike.pi : F)).rem with hrdef
  have hgoal : ∀ η : ℝ, (k : ℝ) * val (qp : F) + r ≤ 4 * val (qp : F) + η →
      η ≤ val (e10 : F) + (48 * c + 200) * ε + 1 / 10 ^ 298 →
      a.angle.blade + b.angle.blade ≤ k + (a.angle.blade + b.angle.blade) ∧
      k + (a.angle.blade + b.angle.blade) ≤ a.angle.blade + b.angle.blade + 4 ∧
      (k + (a.angle.blade + b.angle.blade) = a.angle.blade + b.angle.blade + 4 →
        r ≤ val (e10 : F) + (48 * c + 200) * ε + 1 / 10 ^ 298) := by
    intro η h hη
    have hη1 : η < val (qp : F) := by
      have : (48 * c + 200) * ε = 48 * (c * ε) + 200 * ε := by ring
      linarith
    obtain ⟨hk4, hk4r⟩ := blade_le_of_total hq0 hr0 h hη1
    refine ⟨by omega, by omega, fun hk => ?_⟩
    have := hk4r (by omega)
    linarith
  rcases le_or_gt 0 (val A) with hpos | hneg
  · obtain ⟨_, htq⟩ := new_radians_total hfA hpos (by rw [abs_of_nonneg hpos] at hA41; exact hA41)
    have e8 : val A * (8 / 2 ^ 53) = val A * (8 * ε) := by rw [hε]; ring
    rw [e8, h1070, hTq, abs_lt] at htq
    have h8 : val A * (8 * ε) ≤ (2 * c + 6) * (8 * ε) := mul_le_mul_of_nonneg_right hAabs.2 (by linarith)
    have ht2 : t ≤ 2 * val (qp : F) := by rw [hqp]; linarith [(abs_le.mp hat1).2]
    have hcq : 0 ≤ c * val (qp : F) := mul_nonneg hc0 (le_of_lt hq0)
    apply hgoal (val (e10 : F) + (23 * c + 53) * ε + 35 * τ - 2 * val (qp : F))
    · have e1 : (2 * c + 6) * (8 * ε) + (7 * c + 5) * ε = (23 * c + 53) * ε := by ring
      linarith [htq.2, hAerr.2]
    · have e1 : (48 * c + 200) * ε = (23 * c + 53) * ε + (25 * (c * ε) + 147 * ε) := by ring
      linarith
  · obtain ⟨_, n, htq, hup⟩ := new_radians_total_neg hfA hneg (by rw [abs_of_neg hneg] at hA41; linarith)
    have e14 : (14 * |val A| + 46) * (1 / 2 ^ 53) = (14 * |val A| + 46) * ε := by rw [hε]
    have e10' : |val A| * (10 * (1 / 2 ^ 53)) = 10 * |val A| * ε := by rw [hε]; ring
    rw [e14, hTq, abs_lt] at htq
    rw [e10'] at hup
    have h24 : (14 * |val A| + 46) * ε + 10 * |val A| * ε ≤ (48 * c + 190) * ε := by
      have e : (14 * |val A| + 46) * ε + 10 * |val A| * ε = (24 * |val A| + 46) * ε := by ring
      rw [e]
      exact mul_le_mul_of_nonneg_right (by linarith) (le_of_lt hε0)
    apply hgoal (val (e10 : F) + (48 * c + 190) * ε + 2 * (1 / 10 ^ 300))
    · linarith [htq.2]
    · have e1 : (48 * c + 200) * ε = (48 * c + 190) * ε + 10 * ε := by ring
      have : (0:ℝ) ≤ 1 / 10 ^ 300 := by positivity
      linarith

end Geonum
end GeonumModel
