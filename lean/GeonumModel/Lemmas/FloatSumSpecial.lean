/-
  GeonumModel.Lemmas.FloatSumSpecial — S/B-tier for C06 in the two special branches of `+` (identical angles; a half turn apart):
  the Cartesian components of the result are the component-wise sums of the operands' in ROUNDED arithmetic.
-/
import GeonumModel.Lemmas.FloatSumCart
import GeonumModel.Lemmas.FloatMetric
import GeonumModel.Props.C16

set_option linter.unusedSectionVars false
set_option linter.unusedVariables false

namespace GeonumModel
open FloatLike FloatSpec
variable {F : Type} [FloatSpec F]

/-- same direction: `M ≈ A + B`, `c' ≈ c` -/
theorem same_real {M A B c c' ε τ d : ℝ} (hA : 0 ≤ A) (hB : 0 ≤ B) (hε : 0 ≤ ε) (hM : |M - (A + B)| ≤ (A + B) * ε + τ)
    (hc : |c| ≤ 1) (hcc : |c' - c| ≤ d) :
    |M * c - (A * c + B * c')| ≤ (A + B) * (ε + d) + τ := by
  have e : M * c - (A * c + B * c') = (M - (A + B)) * c - B * (c' - c) := by ring
  have h1 : |(M - (A + B)) * c| ≤ (A + B) * ε + τ := by
    rw [abs_mul]
    calc |M - (A + B)| * |c| ≤ |M - (A + B)| * 1 := mul_le_mul_of_nonneg_left hc (abs_nonneg _)
      _ = |M - (A + B)| := mul_one _
      _ ≤ _ := hM
  have h2 : |B * (c' - c)| ≤ B * d := by
    rw [abs_mul, abs_of_nonneg hB]; exact mul_le_mul_of_nonneg_left hcc hB
  have hd : 0 ≤ d := le_trans (abs_nonneg _) hcc
  have hAd : 0 ≤ A * d := mul_nonneg hA hd
  rw [e]
  calc |(M - (A + B)) * c - B * (c' - c)| ≤ |(M - (A + B)) * c| + |B * (c' - c)| := abs_sub _ _
    _ ≤ (A + B) * ε + τ + B * d := by linarith
    _ ≤ (A + B) * (ε + d) + τ := by nlinarith

/-- opposite directions: `M ≈ A − B`, `c' ≈ −c` -/
theorem opp_real {M A B c c' ε τ d : ℝ} (hA : 0 ≤ A) (hB : 0 ≤ B) (hε : 0 ≤ ε) (hM : |M - (A - B)| ≤ |A - B| * ε + τ)
    (hc : |c| ≤ 1) (hcc : |c' + c| ≤ d) :
    |M * c - (A * c + B * c')| ≤ (A + B) * (ε + d) + τ := by
  have e : M * c - (A * c + B * c') = (M - (A - B)) * c - B * (c' + c) := by ring
  have hAB : |A - B| ≤ A + B := by rw [abs_le]; constructor <;> linarith
  have h1 : |(M - (A - B)) * c| ≤ (A + B) * ε + τ := by
    rw [abs_mul]
    calc |M - (A - B)| * |c| ≤ |M - (A - B)| * 1 := mul_le_mul_of_nonneg_left hc (abs_nonneg _)
      _ = |M - (A - B)| := mul_one _
      _ ≤ |A - B| * ε + τ := hM
      _ ≤ (A + B) * ε + τ := by have := mul_le_mul_of_nonneg_right hAB hε; linarith
  have h2 : |B * (c' + c)| ≤ B * d := by
    rw [abs_mul, abs_of_nonneg hB]; exact mul_le_mul_of_nonneg_left hcc hB
  have hd : 0 ≤ d := le_trans (abs_nonneg _) hcc
  have hAd : 0 ≤ A * d := mul_nonneg hA hd
  rw [e]
  calc |(M - (A - B)) * c - B * (c' + c)| ≤ |(M - (A - B)) * c| + |B * (c' + c)| := abs_sub _ _
    _ ≤ (A + B) * ε + τ + B * d := by linarith
    _ ≤ (A + B) * (ε + d) + τ := by nlinarith

namespace Geonum
open Angle

/-- **identical angles, rounded arithmetic**: the result keeps the receiver's angle and its Cartesian components are the component-wise
    sums within `(|a|+|b|)·(2⁻⁵³ + 1e-15) + 2⁻¹⁰⁷⁵` (one rounding of the magnitude sum; the equality test's own tolerance on the remainders) -/
theorem sum_cartesian_same_float {a b : Geonum F} (ha : a.angle.Inv) (hb : b.angle.Inv) (hma : a.MagDom) (hmb : b.MagDom)
    (h : sameAngle a b = true) :
    |val (a.add b).mag * Real.cos (Tpi (a.add b).angle) - (val a.mag * Real.cos (Tpi a.angle) + val b.mag * Real.cos (Tpi b.angle))|
      ≤ (val a.mag + val b.mag) * (1 / 2 ^ 53 + val (e15 : F)) + 1 / 2 ^ 1075 ∧
    |val (a.add b).mag * Real.sin (Tpi (a.add b).angle) - (val a.mag * Real.sin (Tpi a.angle) + val b.mag * Real.sin (Tpi b.angle))|
      ≤ (val a.mag + val b.mag) * (1 / 2 ^ 53 + val (e15 : F)) + 1 / 2 ^ 1075 := by
  rw [add_same a b h]
  simp only
  obtain ⟨hbl, hrem⟩ := C16.beq_rems ha hb h
  obtain ⟨hfa, ha0, ha1⟩ := hma; obtain ⟨hfb, hb0, hb1⟩ := hmb
  have hin : InRange (F := F) (val a.mag + val b.mag) := inRange_of_le (by
    rw [abs_of_nonneg (by linarith)]
    have : (10:ℝ) ^ 100 + 10 ^ 100 ≤ 10 ^ 250 := by norm_num
    linarith)
  obtain ⟨_, hv⟩ := fadd_spec hfa hfb hin
  have hM : |val (fadd a.mag b.mag) - (val a.mag + val b.mag)| ≤ (val a.mag + val b.mag) * (1 / 2 ^ 53) + 1 / 2 ^ 1075 := by
    rw [hv]; have := rnd_err (F := F) (val a.mag + val b.mag)
    rwa [abs_of_nonneg (by linarith : 0 ≤ val a.mag + val b.mag), div_eq_mul_one_div] at this
  have hT : Tpi b.angle = Tpi a.angle + (val b.angle.rem - val a.angle.rem) := by
    unfold Tpi; rw [hbl]; ring
  have hd : |val b.angle.rem - val a.angle.rem| ≤ val (e15 : F) := by rw [abs_sub_comm]; exact le_of_lt hrem
  have hc := Real.abs_cos_sub_cos_le (Tpi b.angle) (Tpi a.angle)
  have hs := Real.abs_sin_sub_sin_le (Tpi b.angle) (Tpi a.angle)
  have hTd : |Tpi b.angle - Tpi a.angle| ≤ val (e15 : F) := by rw [hT]; simpa using hd
  exact ⟨same_real ha0 hb0 (by positivity) hM (Real.abs_cos_le_one _) (le_trans hc hTd),
         same_real ha0 hb0 (by positivity) hM (Real.abs_sin_le_one _) (le_trans hs hTd)⟩

/-- the two operands of the opposite branch point a half turn apart, up to the equality test's tolerance -/
theorem opposite_directions {a b : Geonum F} (ha : a.angle.Inv) (hb : b.angle.Inv) (h2 : oppositeAngle a b = true) :
    ∃ (d : ℝ) (k : ℤ), |d| ≤ val (e15 : F) ∧ Tpi b.angle = Tpi a.angle + (2 * (k : ℝ) + 1) * Real.pi + d := by
  unfold oppositeAngle at h2
  rw [Bool.or_eq_true] at h2
  have na := negate_spec ha; have nb := negate_spec hb
  have nai : a.angle.negate.Inv := inv_of_spec ha na.2
  have nbi : b.angle.negate.Inv := inv_of_spec hb nb.2
  rcases h2 with h | h
  · obtain ⟨hbl, hrem⟩ := C16.beq_rems (a := a.angle.negate) (b := b.angle) nai hb h
    rw [na.1] at hbl; rw [na.2.2] at hrem
    refine ⟨val b.angle.rem - val a.angle.rem, 0, by rw [abs_sub_comm]; exact le_of_lt hrem, ?_⟩
    unfold Tpi; rw [← hbl]; push_cast; ring
  · obtain ⟨hbl, hrem⟩ := C16.beq_rems (a := b.angle.negate) (b := a.angle) nbi ha h
    rw [nb.1] at hbl; rw [nb.2.2] at hrem
    refine ⟨val b.angle.rem - val a.angle.rem, -1, le_of_lt hrem, ?_⟩
    unfold Tpi; rw [← hbl]; push_cast; ring

theorem cos_sin_opposite {s t d : ℝ} {k : ℤ} (h : t = s + (2 * (k : ℝ) + 1) * Real.pi + d) :
    |Real.cos t + Real.cos s| ≤ |d| ∧ |Real.sin t + Real.sin s| ≤ |d| := by
  have e : t = (s + d + Real.pi) + (k : ℝ) * (2 * Real.pi) := by rw [h]; ring
  have hc : Real.cos t = -Real.cos (s + d) := by
    rw [e, Real.cos_add_int_mul_two_pi, Real.cos_add_pi]
  have hs : Real.sin t = -Real.sin (s + d) := by
    rw [e, Real.sin_add_int_mul_two_pi, Real.sin_add_pi]
  rw [hc, hs]
  have h1 := Real.abs_cos_sub_cos_le (s + d) s
  have h2 := Real.abs_sin_sub_sin_le (s + d) s
  have e1 : -Real.cos (s + d) + Real.cos s = -(Real.cos (s + d) - Real.cos s) := by ring
  have e2 : -Real.sin (s + d) + Real.sin s = -(Real.sin (s + d) - Real.sin s) := by ring
  rw [e1, e2, abs_neg, abs_neg]
  have : s + d - s = d := by ring
  rw [this] at h1 h2
  exact ⟨h1, h2⟩

/-- **a half turn apart, rounded arithmetic**: in all three sub-cases (cancellation below `1e-10`, first operand larger, second operand
    larger) the Cartesian components of the result are the component-wise sums within `(|a|+|b|)·(2⁻⁵³ + 1e-15) + 2·1e-10`
    (the cancellation threshold is the dominant term: a difference below it is replaced by zero) -/
theorem sum_cartesian_opposite_float {a b : Geonum F} (ha : a.angle.Inv) (hb : b.angle.Inv) (hma : a.MagDom) (hmb : b.MagDom)
    (h1 : sameAngle a b = false) (h2 : oppositeAngle a b = true) :
    |val (a.add b).mag * Real.cos (Tpi (a.add b).angle) - (val a.mag * Real.cos (Tpi a.angle) + val b.mag * Real.cos (Tpi b.angle))|
      ≤ (val a.mag + val b.mag) * (1 / 2 ^ 53 + val (e15 : F)) + 2 * val (e10 : F) ∧
    |val (a.add b).mag * Real.sin (Tpi (a.add b).angle) - (val a.mag * Real.sin (Tpi a.angle) + val b.mag * Real.sin (Tpi b.angle))|
      ≤ (val a.mag + val b.mag) * (1 / 2 ^ 53 + val (e15 : F)) + 2 * val (e10 : F) := by
  obtain ⟨d, k, hd, hT⟩ := opposite_directions ha hb h2
  obtain ⟨hcc, hss⟩ := cos_sin_opposite hT
  have hcc' := le_trans hcc hd; have hss' := le_trans hss hd
  obtain ⟨hfa, ha0, ha1⟩ := hma; obtain ⟨hfb, hb0, hb1⟩ := hmb
  have hin : InRange (F := F) (val a.mag - val b.mag) := inRange_of_le (by
    have : |val a.mag - val b.mag| ≤ 10 ^ 100 := by rw [abs_le]; constructor <;> linarith
    have h250 : (10:ℝ) ^ 100 ≤ 10 ^ 250 := pow_le_pow_right₀ (by norm_num) (by norm_num)
    linarith)
  obtain ⟨hfs, hvs⟩ := fsub_spec hfa hfb hin
  have he10 := val_e10_pos (F := F)
  have he10s := val_e10_small (F := F)
  have hτ : (1:ℝ) / 2 ^ 1075 ≤ val (e10 : F) := by
    have := (val_e10_bounds (F := F)).1
    have h1 : (1:ℝ) / 2 ^ 1075 ≤ 1 / 2 ^ 40 := one_div_le_one_div_of_le (by positivity) (pow_le_pow_right₀ (by norm_num) (by norm_num))
    have h2 : (1:ℝ) / 2 ^ 40 ≤ 9 / 10 ^ 11 := by norm_num
    linarith
  have hM : |val (fsub a.mag b.mag) - (val a.mag - val b.mag)| ≤ |val a.mag - val b.mag| * (1 / 2 ^ 53) + 1 / 2 ^ 1075 := by
    rw [hvs]; have := rnd_err (F := F) (val a.mag - val b.mag); rwa [div_eq_mul_one_div] at this
  have hε0 : (0:ℝ) ≤ 1 / 2 ^ 53 := by positivity
  by_cases h3 : flt (fabs (fsub a.mag b.mag)) e10 = true
  · -- cancellation: the result is zero
    rw [add_opposite_cancel a b h1 h2 h3]
    simp only
    rw [val_zero, zero_mul, zero_mul, zero_sub, zero_sub, abs_neg, abs_neg]
    obtain ⟨hfabs, hvabs⟩ := fabs_spec hfs
    have hlt := (flt_spec hfabs (e10_spec (F := F)).1).mp h3
    rw [hvabs] at hlt
    -- |A − B| ≤ 2·1e-10
    have hAB : |val a.mag - val b.mag| ≤ 2 * val (e10 : F) - 1 / 2 ^ 1075 := by
      have h' : |val a.mag - val b.mag| ≤ |val (fsub a.mag b.mag)| + |val (fsub a.mag b.mag) - (val a.mag - val b.mag)| := by
        have := abs_sub_abs_le_abs_sub (val a.mag - val b.mag) (val (fsub a.mag b.mag))
        rw [abs_sub_comm (val a.mag - val b.mag) (val (fsub a.mag b.mag))] at this; linarith
      have h53 : (1:ℝ) / 2 ^ 53 ≤ 1 / 4 := by norm_num
      have hx : |val a.mag - val b.mag| * (1 / 2 ^ 53) ≤ |val a.mag - val b.mag| * (1 / 4) :=
        mul_le_mul_of_nonneg_left h53 (abs_nonneg _)
      have hτ4 : (1:ℝ) / 2 ^ 1075 ≤ val (e10 : F) / 8 := by
        have := (val_e10_bounds (F := F)).1
        have h1 : (1:ℝ) / 2 ^ 1075 ≤ 1 / 2 ^ 40 := one_div_le_one_div_of_le (by positivity) (pow_le_pow_right₀ (by norm_num) (by norm_num))
        have h2 : (1:ℝ) / 2 ^ 40 ≤ 9 / 10 ^ 11 / 8 := by norm_num
        linarith
      linarith
    have key : ∀ c c' : ℝ, |c| ≤ 1 → |c' + c| ≤ val (e15 : F) →
        |val a.mag * c + val b.mag * c'| ≤ (val a.mag + val b.mag) * (1 / 2 ^ 53 + val (e15 : F)) + 2 * val (e10 : F) := by
      intro c c' hc hcc
      have e : val a.mag * c + val b.mag * c' = (val a.mag - val b.mag) * c + val b.mag * (c' + c) := by ring
      have t1 : |(val a.mag - val b.mag) * c| ≤ |val a.mag - val b.mag| := by
        rw [abs_mul]
        calc |val a.mag - val b.mag| * |c| ≤ |val a.mag - val b.mag| * 1 := mul_le_mul_of_nonneg_left hc (abs_nonneg _)
          _ = _ := mul_one _
      have t2 : |val b.mag * (c' + c)| ≤ val b.mag * val (e15 : F) := by
        rw [abs_mul, abs_of_nonneg hb0]; exact mul_le_mul_of_nonneg_left hcc hb0
      have he15 := val_e15_pos (F := F)
      have t3 : 0 ≤ val a.mag * val (e15 : F) := mul_nonneg ha0 (le_of_lt he15)
      have t4 : 0 ≤ (val a.mag + val b.mag) * (1 / 2 ^ 53) := mul_nonneg (by linarith) hε0
      have hτ0 : (0:ℝ) ≤ 1 / 2 ^ 1075 := by positivity
      rw [e]
      calc |(val a.mag - val b.mag) * c + val b.mag * (c' + c)| ≤ |(val a.mag - val b.mag) * c| + |val b.mag * (c' + c)| := abs_add_le _ _
        _ ≤ (2 * val (e10 : F) - 1 / 2 ^ 1075) + val b.mag * val (e15 : F) := by linarith
        _ ≤ _ := by nlinarith
    exact ⟨key _ _ (Real.abs_cos_le_one _) hcc', key _ _ (Real.abs_sin_le_one _) hss'⟩
  · rw [Bool.not_eq_true] at h3
    by_cases h4 : flt zero (fsub a.mag b.mag) = true
    · -- the first operand is larger: `[A − B, a.angle]`
      rw [add_opposite_first a b h1 h2 h3 h4]
      simp only
      have r1 := opp_real ha0 hb0 hε0 hM (Real.abs_cos_le_one (Tpi a.angle)) hcc'
      have r2 := opp_real ha0 hb0 hε0 hM (Real.abs_sin_le_one (Tpi a.angle)) hss'
      constructor <;> linarith
    · -- the second operand is larger: `[−(A − B), b.angle]`
      rw [Bool.not_eq_true] at h4
      rw [add_opposite_second a b h1 h2 h3 h4]
      simp only
      obtain ⟨_, hvn⟩ := fneg_spec hfs
      have hM' : |val (fneg (fsub a.mag b.mag)) - (val b.mag - val a.mag)| ≤ |val b.mag - val a.mag| * (1 / 2 ^ 53) + 1 / 2 ^ 1075 := by
        rw [hvn, abs_sub_comm (val b.mag) (val a.mag)]
        have e : -val (fsub a.mag b.mag) - (val b.mag - val a.mag) = -(val (fsub a.mag b.mag) - (val a.mag - val b.mag)) := by ring
        rw [e, abs_neg]; exact hM
      have hcc2 : |Real.cos (Tpi a.angle) + Real.cos (Tpi b.angle)| ≤ val (e15 : F) := by rw [add_comm]; exact hcc'
      have hss2 : |Real.sin (Tpi a.angle) + Real.sin (Tpi b.angle)| ≤ val (e15 : F) := by rw [add_comm]; exact hss'
      have r1 := opp_real hb0 ha0 hε0 hM' (Real.abs_cos_le_one (Tpi b.angle)) hcc2
      have r2 := opp_real hb0 ha0 hε0 hM' (Real.abs_sin_le_one (Tpi b.angle)) hss2
      have e1 : val b.mag * Real.cos (Tpi b.angle) + val a.mag * Real.cos (Tpi a.angle)
          = val a.mag * Real.cos (Tpi a.angle) + val b.mag * Real.cos (Tpi b.angle) := by ring
      have e2 : val b.mag * Real.sin (Tpi b.angle) + val a.mag * Real.sin (Tpi a.angle)
          = val a.mag * Real.sin (Tpi a.angle) + val b.mag * Real.sin (Tpi b.angle) := by ring
      rw [e1] at r1; rw [e2] at r2
      have e3 : val b.mag + val a.mag = val a.mag + val b.mag := by ring
      rw [e3] at r1 r2
      constructor <;> linarith

/-- **addition is the Cartesian sum in rounded arithmetic, in every branch** -/
theorem sum_cartesian_every_branch_float {a b : Geonum F} (ha : a.angle.Inv) (hb : b.angle.Inv) (hma : a.MagDom) (hmb : b.MagDom)
    (hcb : a.angle.blade + b.angle.blade ≤ 2 ^ 39) :
    |val (a.add b).mag * Real.cos (Tpi (a.add b).angle)
        - (val a.mag * Real.cos (Tpi a.angle) + val b.mag * Real.cos (Tpi b.angle))|
      ≤ (val a.mag + val b.mag) * (2 / 10 ^ 7 + 11 / 10 * (val (e10 : F)
          + (40 * ((a.angle.blade + b.angle.blade : ℕ) : ℝ) + 170) * (1 / 2 ^ 53))) + 1 / 10 ^ 28 + 2 * val (e10 : F) ∧
    |val (a.add b).mag * Real.sin (Tpi (a.add b).angle)
        - (val a.mag * Real.sin (Tpi a.angle) + val b.mag * Real.sin (Tpi b.angle))|
      ≤ (val a.mag + val b.mag) * (2 / 10 ^ 7 + 11 / 10 * (val (e10 : F)
          + (40 * ((a.angle.blade + b.angle.blade : ℕ) : ℝ) + 170) * (1 / 2 ^ 53))) + 1 / 10 ^ 28 + 2 * val (e10 : F) := by
  have he10 := val_e10_pos (F := F)
  have he15 := (val_e15_bounds (F := F)).2
  have hS : 0 ≤ val a.mag + val b.mag := add_nonneg hma.2.1 hmb.2.1
  have hc0 : (0:ℝ) ≤ ((a.angle.blade + b.angle.blade : ℕ) : ℝ) := Nat.cast_nonneg _
  -- the special-branch relative term is below the general one
  have hrel : (1:ℝ) / 2 ^ 53 + val (e15 : F) ≤ 2 / 10 ^ 7 + 11 / 10 * (val (e10 : F)
      + (40 * ((a.angle.blade + b.angle.blade : ℕ) : ℝ) + 170) * (1 / 2 ^ 53)) := by
    have h1 : (1:ℝ) / 2 ^ 53 + 11 / 10 ^ 16 ≤ 2 / 10 ^ 7 := by norm_num
    have h2 : (0:ℝ) ≤ (40 * ((a.angle.blade + b.angle.blade : ℕ) : ℝ) + 170) * (1 / 2 ^ 53) := by positivity
    linarith
  have hmul := mul_le_mul_of_nonneg_left hrel hS
  have hτ : (1:ℝ) / 2 ^ 1075 ≤ 1 / 10 ^ 28 :=
    one_div_le_one_div_of_le (by positivity) (by
      calc (10:ℝ) ^ 28 ≤ 16 ^ 28 := by gcongr; norm_num
        _ = 2 ^ 112 := by rw [show (16:ℝ) = 2 ^ 4 by norm_num, ← pow_mul]
        _ ≤ 2 ^ 1075 := pow_le_pow_right₀ (by norm_num) (by norm_num))
  have h28 : (0:ℝ) ≤ 1 / 10 ^ 28 := by positivity
  by_cases h1 : sameAngle a b = true
  · obtain ⟨r1, r2⟩ := sum_cartesian_same_float ha hb hma hmb h1
    constructor <;> linarith
  · rw [Bool.not_eq_true] at h1
    by_cases h2 : oppositeAngle a b = true
    · obtain ⟨r1, r2⟩ := sum_cartesian_opposite_float ha hb hma hmb h1 h2
      constructor <;> linarith
    · rw [Bool.not_eq_true] at h2
      obtain ⟨r1, r2⟩ := sum_cartesian_float ha hb hma hmb hcb h1 h2
      constructor <;> linarith

/-- **subtraction is the Cartesian difference in rounded arithmetic, in every branch**: the Cartesian components of `a − p` plus those of
    `p` are those of `a`, within the every-branch bound at blade count `ba + bp + 2` (the half turn of `negate` is exact) -/
theorem sub_cartesian_every_branch_float {a p : Geonum F} (ha : a.angle.Inv) (hp : p.angle.Inv) (hma : a.MagDom) (hmp : p.MagDom)
    (hcb : a.angle.blade + p.angle.blade + 2 ≤ 2 ^ 39) :
    |val (a.sub p).mag * Real.cos (Tpi (a.sub p).angle) + val p.mag * Real.cos (Tpi p.angle) - val a.mag * Real.cos (Tpi a.angle)|
      ≤ (val a.mag + val p.mag) * (2 / 10 ^ 7 + 11 / 10 * (val (e10 : F)
          + (40 * ((a.angle.blade + p.angle.blade + 2 : ℕ) : ℝ) + 170) * (1 / 2 ^ 53))) + 1 / 10 ^ 28 + 2 * val (e10 : F) ∧
    |val (a.sub p).mag * Real.sin (Tpi (a.sub p).angle) + val p.mag * Real.sin (Tpi p.angle) - val a.mag * Real.sin (Tpi a.angle)|
      ≤ (val a.mag + val p.mag) * (2 / 10 ^ 7 + 11 / 10 * (val (e10 : F)
          + (40 * ((a.angle.blade + p.angle.blade + 2 : ℕ) : ℝ) + 170) * (1 / 2 ^ 53))) + 1 / 10 ^ 28 + 2 * val (e10 : F) := by
  obtain ⟨hT, hninv⟩ := Tpi_negate hp
  obtain ⟨hnb, _, _⟩ := negate_spec hp
  have hbl : a.angle.blade + p.negate.angle.blade = a.angle.blade + p.angle.blade + 2 := by
    show a.angle.blade + p.angle.negate.blade = _; rw [hnb]; ring
  obtain ⟨q1, q2⟩ := sum_cartesian_every_branch_float (a := a) (b := p.negate) ha (show p.negate.angle.Inv from hninv) hma
    (show p.negate.MagDom from hmp) (by rw [hbl]; exact hcb)
  have hT' : Tpi p.negate.angle = Tpi p.angle + Real.pi := hT
  have hm : val p.negate.mag = val p.mag := rfl
  rw [hT', Real.cos_add_pi, hm, hbl] at q1
  rw [hT', Real.sin_add_pi, hm, hbl] at q2
  have hsub : a.sub p = a.add p.negate := rfl
  rw [hsub]
  constructor
  · have e : val (a.add p.negate).mag * Real.cos (Tpi (a.add p.negate).angle) + val p.mag * Real.cos (Tpi p.angle) - val a.mag * Real.cos (Tpi a.angle)
        = val (a.add p.negate).mag * Real.cos (Tpi (a.add p.negate).angle) - (val a.mag * Real.cos (Tpi a.angle) + val p.mag * -Real.cos (Tpi p.angle)) := by ring
    rw [e]; exact q1
  · have e : val (a.add p.negate).mag * Real.sin (Tpi (a.add p.negate).angle) + val p.mag * Real.sin (Tpi p.angle) - val a.mag * Real.sin (Tpi a.angle)
        = val (a.add p.negate).mag * Real.sin (Tpi (a.add p.negate).angle) - (val a.mag * Real.sin (Tpi a.angle) + val p.mag * -Real.sin (Tpi p.angle)) := by ring
    rw [e]; exact q2

end Geonum
end GeonumModel
