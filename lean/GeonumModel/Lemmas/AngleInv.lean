/-
  GeonumModel.Lemmas.AngleInv — the reachable-state invariant of `Angle` and the step lemmas for
  `normalize_boundaries`, `geometric_add`, `geometric_sub` in rounded arithmetic (S-tier).
-/
import GeonumModel.Lemmas.SpecBasic

set_option linter.unusedSectionVars false
set_option linter.unusedVariables false

namespace GeonumModel
open FloatLike FloatSpec

variable {F : Type} [FloatSpec F]

/-! ### generic facts about rounded differences and threshold tests -/

theorem abs_rnd_ge {x t : ℝ} (ht : Rep (F := F) t) (h : t ≤ |x|) : t ≤ |rnd (F := F) x| := by
  rcases le_total 0 x with hx | hx
  · rw [abs_of_nonneg hx] at h
    have := rnd_mono (F := F) h
    rw [rnd_rep ht] at this
    exact le_trans this (le_abs_self _)
  · rw [abs_of_nonpos hx] at h
    have h' : x ≤ -t := by linarith
    have := rnd_mono (F := F) h'
    rw [rnd_rep (rep_neg ht)] at this
    have h2 : t ≤ -rnd (F := F) x := by linarith
    exact le_trans h2 (neg_le_abs _)

/-- rounding never moves a value past a representable bound -/
theorem abs_rnd_le {x t : ℝ} (ht : Rep (F := F) t) (h : |x| ≤ t) : |rnd (F := F) x| ≤ t := by
  rw [abs_le] at h ⊢
  have h1 := rnd_mono (F := F) h.2
  have h2 := rnd_mono (F := F) h.1
  rw [rnd_rep ht] at h1
  rw [rnd_rep (rep_neg ht)] at h2
  exact ⟨h2, h1⟩

theorem rep_abs_val {m : F} (hm : Fin m) : Rep (F := F) |val m| := by
  rcases le_total 0 (val m) with h | h
  · rw [abs_of_nonneg h]; exact rep_val hm
  · rw [abs_of_nonpos h]; exact rep_neg (rep_val hm)

/-- a product with a factor of absolute value at most 1 is finite and no larger than the other factor -/
theorem fmul_le_one {m c : F} (hm : Fin m) (hc : Fin c) (hc1 : |val c| ≤ 1) :
    Fin (fmul m c) ∧ |val (fmul m c)| ≤ |val m| := by
  have hle : |val m * val c| ≤ |val m| := by
    rw [abs_mul]
    calc |val m| * |val c| ≤ |val m| * 1 := mul_le_mul_of_nonneg_left hc1 (abs_nonneg _)
      _ = |val m| := mul_one _
  obtain ⟨hf, hv⟩ := fmul_spec hm hc (inRange_mono hle (inRange_val hm))
  exact ⟨hf, by rw [hv]; exact abs_rnd_le (rep_abs_val hm) hle⟩

/-- a threshold test `(r - c).abs() < t` that succeeds certifies the exact inequality -/
theorem near_of_test {r c t : F} (hr : Fin r) (hc : Fin c) (ht : Fin t)
    (hrange : InRange (F := F) (val r - val c))
    (h : flt (fabs (fsub r c)) t = true) : |val r - val c| < val t := by
  obtain ⟨hf, hv⟩ := fsub_spec hr hc hrange
  obtain ⟨hfa, hva⟩ := fabs_spec hf
  rw [flt_spec hfa ht, hva, hv] at h
  by_contra hcon
  push Not at hcon
  have := abs_rnd_ge (F := F) (rep_val ht) hcon
  linarith

/-- a threshold test around a positive centre with a small radius succeeds whenever the exact inequality holds
    (the subtraction is exact by Sterbenz) -/
theorem test_of_near {r c t : F} (hr : Fin r) (hc : Fin c) (ht : Fin t)
    (hc0 : 0 < val c) (htc : val t ≤ val c / 2)
    (h : |val r - val c| < val t) : flt (fabs (fsub r c)) t = true := by
  rw [abs_lt] at h
  obtain ⟨hf, hv⟩ := sterbenz hr hc (by linarith) (by linarith)
  obtain ⟨hfa, hva⟩ := fabs_spec hf
  rw [flt_spec hfa ht, hva, hv, abs_lt]
  exact h

theorem val_e15_bounds : (9 : ℝ) / 10 ^ 16 ≤ val (e15 : F) ∧ val (e15 : F) ≤ 11 / 10 ^ 16 := by
  rw [e15_spec.2]
  have h := rnd_close (F := F) (1 / 10 ^ 15)
  rw [abs_le] at h
  have hx : |(1:ℝ) / 10 ^ 15| = 1 / 10 ^ 15 := abs_of_pos (by positivity)
  rw [hx] at h
  have h53 : (1:ℝ) / 10 ^ 15 / 2 ^ 53 ≤ 1 / 10 ^ 17 := by
    rw [div_div]; apply one_div_le_one_div_of_le (by positivity)
    have : (100:ℝ) ≤ 2 ^ 53 := by norm_num
    calc (10:ℝ) ^ 17 = 10 ^ 15 * 100 := by norm_num
      _ ≤ 10 ^ 15 * 2 ^ 53 := by gcongr
  constructor <;> norm_num at * <;> linarith
theorem val_e15_pos : 0 < val (e15 : F) := by
  have := (val_e15_bounds (F := F)).1
  have : (0:ℝ) < 9 / 10 ^ 16 := by positivity
  linarith
theorem val_e15_lt_e10 : val (e15 : F) < val (e10 : F) := by
  have h1 := (val_e15_bounds (F := F)).2
  have h2 := (val_e10_bounds (F := F)).1
  have : (11:ℝ) / 10 ^ 16 < 9 / 10 ^ 11 := by norm_num
  linarith
theorem val_e10_small : val (e10 : F) ≤ 1 / 10 ^ 9 := by
  have h := (val_e10_bounds (F := F)).2
  have : (11:ℝ) / 10 ^ 11 ≤ 1 / 10 ^ 9 := by norm_num
  linarith

/-! ### the invariant -/
namespace Angle

/-- reachable-state invariant: finite remainder in `[0, π/2 − 1e-10]` (never inside the snap band) -/
def Inv (a : Angle F) : Prop :=
  Fin a.rem ∧ 0 ≤ val a.rem ∧ val a.rem + val (e10 : F) ≤ val (qp : F)

/-- the documented range `[0, π/2)` -/
def Canon (a : Angle F) : Prop := Fin a.rem ∧ 0 ≤ val a.rem ∧ val a.rem < val (qp : F)

theorem Inv.canon {a : Angle F} (h : a.Inv) : a.Canon :=
  ⟨h.1, h.2.1, by have := val_e10_pos (F := F); linarith [h.2.2]⟩

theorem inv_zero (b : Nat) : (⟨zero, b⟩ : Angle F).Inv := by
  refine ⟨fin_zero, by rw [val_zero], ?_⟩
  rw [val_zero]
  have h1 := val_e10_small (F := F); have h2 := val_qp_gt (F := F)
  have : (1:ℝ) / 10 ^ 9 ≤ 1 := by rw [div_le_one (by positivity)]; norm_num
  simp only [zero_add]; linarith

theorem inRange_sub_qp {r : F} (hr : Fin r) (h0 : 0 ≤ val r) (h1 : val r ≤ 4) :
    InRange (F := F) (val r - val (qp : F)) := by
  apply inRange_of_abs_le_1000
  have h2 := val_qp_gt (F := F); have h3 := val_qp_lt (F := F)
  rw [abs_le]; constructor <;> linarith

/-- `normalize_boundaries` on a finite remainder in `[0, 2·qp − 1e-10]`: the result satisfies the invariant,
    at most one blade is added, and the three possible outcomes are exactly these -/
theorem normalizeBoundaries_spec (r : F) (b : Nat) (hr : Fin r) (h0 : 0 ≤ val r)
    (h1 : val r + val (e10 : F) ≤ 2 * val (qp : F)) :
    (normalizeBoundaries ⟨r, b⟩).Inv ∧
    ( (normalizeBoundaries ⟨r, b⟩ = ⟨r, b⟩ ∧ val r + val (e10 : F) ≤ val (qp : F)) ∨
      (normalizeBoundaries ⟨r, b⟩ = ⟨zero, b + 1⟩ ∧ |val r - val (qp : F)| < val (e10 : F)) ∨
      ((normalizeBoundaries ⟨r, b⟩).blade = b + 1 ∧
        val (normalizeBoundaries ⟨r, b⟩).rem = val r - val (qp : F) ∧ val (qp : F) + val (e10 : F) ≤ val r) ) := by
  have hq := val_qp_gt (F := F); have hq' := val_qp_lt (F := F)
  have he := val_e10_pos (F := F); have he' := val_e10_small (F := F)
  have hsmall : (1:ℝ) / 10 ^ 9 ≤ 1 / 2 := by rw [div_le_iff₀ (by positivity)]; norm_num
  have hr4 : val r ≤ 4 := by linarith
  have hrange := inRange_sub_qp hr h0 hr4
  unfold normalizeBoundaries
  simp only
  by_cases hsnap : flt (fabs (fsub r qp)) e10 = true
  · rw [if_pos hsnap]
    exact ⟨inv_zero _, Or.inr (Or.inl ⟨rfl, near_of_test hr fin_qp fin_e10 hrange hsnap⟩)⟩
  · rw [if_neg hsnap]
    have hfar : val (e10 : F) ≤ |val r - val (qp : F)| := by
      by_contra hc; push Not at hc
      exact hsnap (test_of_near hr fin_qp fin_e10 (by linarith) (by linarith) hc)
    by_cases hge : fge r (qp : F) = true
    · rw [if_pos hge]
      have hge' : val (qp : F) ≤ val r := (fle_spec fin_qp hr).mp hge
      have hlow : val (qp : F) + val (e10 : F) ≤ val r := by
        rw [abs_of_nonneg (by linarith)] at hfar; linarith
      -- the quotient r/qp lies in [1, 2)
      have hqpos : (0:ℝ) < val (qp : F) := by linarith
      have hquot1 : 1 ≤ val r / val (qp : F) := by rw [le_div_iff₀ hqpos]; linarith
      have hquot2 : val r / val (qp : F) < 2 := by rw [div_lt_iff₀ hqpos]; linarith
      have hfloor : ⌊val r / val (qp : F)⌋ = 1 := by
        rw [Int.floor_eq_iff]; constructor <;> push_cast <;> linarith
      obtain ⟨hfm, hvm⟩ := fmod_spec hr fin_qp h0 hqpos
      rw [hfloor] at hvm
      have hvm' : val (fmod r (qp : F)) = val r - val (qp : F) := by rw [hvm]; push_cast; ring
      -- second snap test is false: finalRem ≤ qp − e10
      have hfr0 : 0 ≤ val (fmod r (qp : F)) := by rw [hvm']; linarith
      have hfr1 : val (fmod r (qp : F)) + val (e10 : F) ≤ val (qp : F) := by rw [hvm']; linarith
      have hsnap2 : ¬ flt (fabs (fsub (fmod r (qp : F)) qp)) e10 = true := by
        intro hs
        have := near_of_test hfm fin_qp fin_e10 (inRange_sub_qp hfm hfr0 (by linarith)) hs
        rw [abs_lt] at this; linarith
      rw [if_neg hsnap2]
      -- additional blades = 1
      have hdivr : InRange (F := F) (val r / val (qp : F)) := by
        apply inRange_of_abs_le_1000; rw [abs_of_nonneg (by linarith)]; linarith
      obtain ⟨hfd, hvd⟩ := fdiv_spec hr fin_qp (by linarith) hdivr
      have hd1 : (1:ℝ) ≤ val (fdiv r (qp : F)) := by
        rw [hvd]
        have := rnd_mono (F := F) hquot1
        have r1 : rnd (F := F) 1 = 1 := by
          have := rep_nat (F := F) (n := 1) (by norm_num); simpa using rnd_rep this
        linarith
      have hd2 : val (fdiv r (qp : F)) < 2 := by
        rw [hvd]
        have hc := rnd_close (F := F) (val r / val (qp : F))
        rw [abs_le] at hc
        have habs : |val r / val (qp : F)| = val r / val (qp : F) := abs_of_nonneg (by linarith)
        rw [habs] at hc
        -- r/qp ≤ 2 − e10/qp ≤ 2 − e10/2
        have hub : val r / val (qp : F) ≤ 2 - val (e10 : F) / 2 := by
          rw [div_le_iff₀ hqpos]
          nlinarith
        have h53 : val r / val (qp : F) / 2 ^ 53 ≤ 2 / 2 ^ 53 := by
          apply div_le_div_of_nonneg_right (le_of_lt hquot2) (by positivity)
        have e10lb := (val_e10_bounds (F := F)).1
        have hnum : (2:ℝ) / 2 ^ 53 + 1 / 10 ^ 30 < (9 / 10 ^ 11) / 2 := by norm_num
        linarith
      have hus : toUsize (fdiv r (qp : F)) = 1 := by
        rw [toUsize_spec hfd (by linarith) (by linarith)]
        rw [Nat.floor_eq_iff (by linarith)]
        constructor <;> push_cast <;> linarith
      rw [hus]
      refine ⟨⟨hfm, hfr0, hfr1⟩, Or.inr (Or.inr ⟨rfl, hvm', hlow⟩)⟩
    · rw [if_neg hge]
      have hlt : val r < val (qp : F) := by
        by_contra hc; push Not at hc
        exact hge ((fle_spec fin_qp hr).mpr hc)
      have hup : val r + val (e10 : F) ≤ val (qp : F) := by
        rw [abs_of_nonpos (by linarith)] at hfar; linarith
      exact ⟨⟨hr, h0, hup⟩, Or.inl ⟨rfl, hup⟩⟩

end Angle
end GeonumModel
