/-
  GeonumModel.Lemmas.FloatProject — B-tier for projections: `magnitude × (libm cosine of a float angle difference)` in
  rounded arithmetic against `|g|·cos` of the true difference of totals.
-/
import GeonumModel.Lemmas.FloatTrig
import GeonumModel.Lemmas.AngleStep

set_option linter.unusedSectionVars false
set_option linter.unusedVariables false

namespace GeonumModel
open FloatLike FloatSpec
variable {F : Type} [FloatSpec F]

/-- one rounded product of a non-negative magnitude with a factor of size at most one that is `ε`-close to `C` -/
theorem mul_unit_float {m c : F} {C ε : ℝ} (hm : Fin m) (hm0 : 0 ≤ val m) (hc : Fin c) (hc1 : |val c| ≤ 1)
    (hclose : |val c - C| ≤ ε) :
    Fin (fmul m c) ∧ |val (fmul m c) - val m * C| ≤ val m * (ε + 1 / 2 ^ 53) + 1 / 10 ^ 30 := by
  have hprod : |val m * val c| ≤ val m := by
    rw [abs_mul, abs_of_nonneg hm0]
    calc val m * |val c| ≤ val m * 1 := mul_le_mul_of_nonneg_left hc1 hm0
      _ = val m := mul_one _
  obtain ⟨hf, hv⟩ := fmul_spec hm hc (inRange_mono (by rw [abs_of_nonneg hm0]; exact hprod) (inRange_val hm))
  refine ⟨hf, ?_⟩
  rw [hv]
  have h1 := rnd_close (F := F) (val m * val c)
  have h2 : |val m * val c| / 2 ^ 53 ≤ val m / 2 ^ 53 := div_le_div_of_nonneg_right hprod (by positivity)
  have e : rnd (F := F) (val m * val c) - val m * C
      = (rnd (F := F) (val m * val c) - val m * val c) + val m * (val c - C) := by ring
  rw [e]
  have h3 : |val m * (val c - C)| ≤ val m * ε := by
    rw [abs_mul, abs_of_nonneg hm0]; exact mul_le_mul_of_nonneg_left hclose hm0
  have := abs_add_le (rnd (F := F) (val m * val c) - val m * val c) (val m * (val c - C))
  have : val m * (ε + 1 / 2 ^ 53) = val m * ε + val m / 2 ^ 53 := by ring
  linarith

namespace Angle

/-- `Angle::project`: the libm cosine of the float difference is the cosine of the true difference of totals -/
theorem project_float {a onto : Angle F} (ha : a.Inv) (ho : onto.Inv) :
    Fin (a.project onto) ∧ |val (a.project onto)| ≤ 1 ∧
    |val (a.project onto) - Real.cos (Tpi onto - Tpi a)| ≤ val (e10 : F) + 8 / 10 ^ 15 := by
  have hd := geometricSub_inv ho ha
  obtain ⟨hfg, _, _, _⟩ := gradeAngle_spec hd
  obtain ⟨hfc, hc1, _⟩ := cos_spec hfg
  exact ⟨hfc, hc1, (cos_sub_float ha ho).1⟩

end Angle

namespace Geonum

/-- **`project_to_dimension(k)` in rounded arithmetic** is `|g|·cos(k·π/2 − T g)` (true π) to within
    `|g|·(1e-10 + 1e-14)` plus `1e-30` absolute, for every dimension index below `2^53` — no loss of accuracy with the
    size of `k`, because the difference is taken in exact blade arithmetic before any float is formed -/
theorem projectToDimension_float {g : Geonum F} (hg : g.angle.Inv) (hm : Fin g.mag) (hm0 : 0 ≤ val g.mag)
    (k : ℕ) (hk : k < 2 ^ 53) :
    |val (g.projectToDimension k) - val g.mag * Real.cos ((k : ℝ) * (Real.pi / 2) - Angle.Tpi g.angle)|
      ≤ val g.mag * (val (e10 : F) + 1 / 10 ^ 14) + 1 / 10 ^ 30 := by
  unfold projectToDimension
  rw [Angle.newWithBlade_zero k hk]
  have hax : (⟨zero, k⟩ : Angle F).Inv := Angle.inv_zero k
  obtain ⟨hfp, hp1, hclose⟩ := Angle.project_float hg hax
  have hT : Angle.Tpi (⟨zero, k⟩ : Angle F) = (k : ℝ) * (Real.pi / 2) := by
    unfold Angle.Tpi; simp [val_zero]
  rw [hT] at hclose
  obtain ⟨_, h⟩ := mul_unit_float hm hm0 hfp hp1 hclose
  have hnum : (8:ℝ) / 10 ^ 15 + 1 / 2 ^ 53 ≤ 1 / 10 ^ 14 := by norm_num
  have : val g.mag * (val (e10 : F) + 8 / 10 ^ 15 + 1 / 2 ^ 53) ≤ val g.mag * (val (e10 : F) + 1 / 10 ^ 14) :=
    mul_le_mul_of_nonneg_left (by linarith) hm0
  linarith

/-- **the length of the projection of `a` onto `b` in rounded arithmetic** (`|b| ≥ 1e-10` branch) is
    `|a|·|cos(T b − T a)|` to within `|a|·(1e-10 + 1e-14)` plus `1e-30` -/
theorem project_mag_float {a b : Geonum F} (ha : a.angle.Inv) (hb : b.angle.Inv) (hm : Fin a.mag) (hm0 : 0 ≤ val a.mag)
    (hbm : flt (fabs b.mag) e10 = false) :
    |val (a.project b).mag - val a.mag * abs (Real.cos (Angle.Tpi b.angle - Angle.Tpi a.angle))|
      ≤ val a.mag * (val (e10 : F) + 1 / 10 ^ 14) + 1 / 10 ^ 30 := by
  have hmag : (a.project b).mag = fmul a.mag (fabs (a.angle.project b.angle)) := by
    unfold project; rw [if_neg (by rw [hbm]; simp)]; rfl
  obtain ⟨hfp, hp1, hclose⟩ := Angle.project_float ha hb
  obtain ⟨hfa, hva⟩ := fabs_spec hfp
  have hc1 : |val (fabs (a.angle.project b.angle))| ≤ 1 := by rw [hva, abs_abs]; exact hp1
  have hcl : |val (fabs (a.angle.project b.angle)) - abs (Real.cos (Angle.Tpi b.angle - Angle.Tpi a.angle))|
      ≤ val (e10 : F) + 8 / 10 ^ 15 := by
    rw [hva]; exact le_trans (abs_abs_sub_abs_le_abs_sub _ _) hclose
  obtain ⟨_, h⟩ := mul_unit_float hm hm0 hfa hc1 hcl
  rw [hmag]
  have hnum : (8:ℝ) / 10 ^ 15 + 1 / 2 ^ 53 ≤ 1 / 10 ^ 14 := by norm_num
  have : val a.mag * (val (e10 : F) + 8 / 10 ^ 15 + 1 / 2 ^ 53) ≤ val a.mag * (val (e10 : F) + 1 / 10 ^ 14) :=
    mul_le_mul_of_nonneg_left (by linarith) hm0
  linarith

end Geonum
end GeonumModel
