/-
  GeonumModel.Lemmas.ExactAdd — interpretation E: `impl Add for Geonum` refines addition of Cartesian points.
-/
import GeonumModel.Lemmas.Exact
import GeonumModel.Lemmas.GeonumAdd

set_option linter.unusedSectionVars false
set_option linter.unusedVariables false

namespace GeonumModel.Exact
open GeonumModel FloatLike FloatSpec Angle Geonum

/-- the point at distance `r` in direction `θ` -/
noncomputable def polar (r θ : ℝ) : ℂ := ⟨r * Real.cos θ, r * Real.sin θ⟩

/-- the Cartesian point of a geometric number -/
noncomputable def cart (g : Geonum ℝ) : ℂ := polar g.mag (T g.angle)

theorem polar_add_same (r s θ : ℝ) : polar r θ + polar s θ = polar (r + s) θ := by
  apply Complex.ext <;> simp [polar] <;> ring

theorem polar_add_pi (r θ : ℝ) : polar r (θ + Real.pi) = -polar r θ := by
  apply Complex.ext <;> simp [polar, Real.cos_add_pi, Real.sin_add_pi]

theorem polar_add_turns (r θ : ℝ) (m : ℤ) : polar r (θ + (m : ℝ) * (2 * Real.pi)) = polar r θ := by
  apply Complex.ext
  · simp only [polar]; rw [Real.cos_add_int_mul_two_pi]
  · simp only [polar]; rw [Real.sin_add_int_mul_two_pi]

theorem polar_zero (θ : ℝ) : polar 0 θ = 0 := by apply Complex.ext <;> simp [polar]

theorem polar_neg (r θ : ℝ) : polar (-r) θ = -polar r θ := by apply Complex.ext <;> simp [polar]

theorem normSq_polar_sub (r s t : ℝ) :
    Complex.normSq (polar r s - polar r t) = r ^ 2 * (2 - 2 * Real.cos (s - t)) := by
  rw [Complex.normSq_apply]
  simp only [polar, Complex.sub_re, Complex.sub_im]
  rw [Real.cos_sub]
  have h1 := Real.sin_sq_add_cos_sq s
  have h2 := Real.sin_sq_add_cos_sq t
  nlinarith [h1, h2]

/-- moving a point of radius `r` along its circle by an angle `s − t` moves it by at most `|r|·|s − t|` -/
theorem norm_polar_sub_le (r s t : ℝ) : ‖polar r s - polar r t‖ ≤ |r| * |s - t| := by
  have hsq : ‖polar r s - polar r t‖ ^ 2 ≤ (|r| * |s - t|) ^ 2 := by
    rw [Complex.sq_norm, normSq_polar_sub, mul_pow, sq_abs, sq_abs]
    have hc := Real.one_sub_sq_div_two_le_cos (x := s - t)
    have : 2 - 2 * Real.cos (s - t) ≤ (s - t) ^ 2 := by linarith
    exact mul_le_mul_of_nonneg_left this (sq_nonneg r)
  exact abs_le_of_sq_le_sq' hsq (by positivity) |>.2

theorem norm_polar (r θ : ℝ) : ‖polar r θ‖ = |r| := by
  have : ‖polar r θ‖ ^ 2 = |r| ^ 2 := by
    rw [Complex.sq_norm, Complex.normSq_apply, sq_abs]
    simp only [polar]
    have := Real.sin_sq_add_cos_sq θ
    nlinarith
  exact (sq_eq_sq₀ (norm_nonneg _) (abs_nonneg r)).mp this

/-- polar form of a complex number -/
theorem polar_norm_arg (z : ℂ) : polar ‖z‖ (Complex.arg z) = z := by
  apply Complex.ext
  · simp only [polar]; exact Complex.norm_mul_cos_arg z
  · simp only [polar]; exact Complex.norm_mul_sin_arg z

/-- equal angles (the library's `==`) have totals within `1e-15` -/
theorem T_of_beq {a b : Angle ℝ} (h : a.beq b = true) : |T a - T b| < 1 / 10 ^ 15 := by
  have hbl : a.blade = b.blade := by
    unfold Angle.beq at h; by_contra hne; simp [hne] at h
  unfold Angle.beq at h
  simp only [hbl, bne_self_eq_false, Bool.false_eq_true, if_false] at h
  unfold T; rw [hbl]
  have e : (b.blade : ℝ) * (Real.pi / 2) + a.rem - ((b.blade : ℝ) * (Real.pi / 2) + b.rem) = a.rem - b.rem := by ring
  rw [e]
  by_cases ht : flt (fabs (fsub a.rem b.rem)) (e15 : ℝ) = true
  · rw [r_lt, r_abs, r_sub, e15_real] at ht; simpa using ht
  · simp only [ht, Bool.false_eq_true, if_false] at h
    rw [r_eq] at h
    have : a.rem = b.rem := by simpa using h
    rw [this, sub_self, abs_zero]; positivity

/-- the same point written with cosines/sines of grade angles instead of totals -/
theorem cart_re_im (g : Geonum ℝ) :
    (cart g).re = g.mag * Real.cos g.angle.gradeAngle ∧ (cart g).im = g.mag * Real.sin g.angle.gradeAngle := by
  simp only [cart, polar]; rw [cos_gradeAngle, sin_gradeAngle]; exact ⟨rfl, rfl⟩

/-- law of cosines for the sum of two Cartesian points -/
theorem normSq_cart_add (a b : Geonum ℝ) :
    Complex.normSq (cart a + cart b) =
      a.mag * a.mag + b.mag * b.mag + 2 * a.mag * b.mag * Real.cos (b.angle.gradeAngle - a.angle.gradeAngle) := by
  rw [Complex.normSq_apply, Complex.add_re, Complex.add_im, (cart_re_im a).1, (cart_re_im a).2, (cart_re_im b).1,
    (cart_re_im b).2, Real.cos_sub]
  have h1 := Real.sin_sq_add_cos_sq a.angle.gradeAngle
  have h2 := Real.sin_sq_add_cos_sq b.angle.gradeAngle
  nlinarith [h1, h2]

/-- **refinement of `+` to Cartesian addition, exact arithmetic**: whatever branch the code takes, the Cartesian point of the
    sum is the sum of the Cartesian points to within `1e-10·(1 + |a| + |b|)`.  (Blade sums up to `2^40`.) -/
theorem add_refines {a b : Geonum ℝ} (ha : a.angle.Inv) (hb : b.angle.Inv) (h0a : 0 ≤ a.mag) (h0b : 0 ≤ b.mag)
    (hcb : a.angle.blade + b.angle.blade ≤ 2 ^ 40) :
    ‖cart (a.add b) - (cart a + cart b)‖ ≤ 1 / 10 ^ 10 * (1 + a.mag + b.mag) := by
  have hpi := Real.pi_pos
  have htol : (1:ℝ) / 10 ^ 15 ≤ 1 / 10 ^ 10 := by
    apply one_div_le_one_div_of_le (by positivity); norm_num
  by_cases h1 : sameAngle a b = true
  · -- identical angles (within the equality tolerance)
    rw [add_same a b h1]
    have hT := T_of_beq (a := a.angle) (b := b.angle) h1
    have e : cart (⟨fadd a.mag b.mag, a.angle⟩ : Geonum ℝ) - (cart a + cart b)
        = polar b.mag (T a.angle) - polar b.mag (T b.angle) := by
      simp only [cart, r_add]; rw [← polar_add_same]; ring
    rw [e]
    calc ‖polar b.mag (T a.angle) - polar b.mag (T b.angle)‖ ≤ |b.mag| * |T a.angle - T b.angle| := norm_polar_sub_le _ _ _
      _ ≤ b.mag * (1 / 10 ^ 10) := by
          rw [abs_of_nonneg h0b]; exact mul_le_mul_of_nonneg_left (le_trans (le_of_lt hT) htol) h0b
      _ ≤ 1 / 10 ^ 10 * (1 + a.mag + b.mag) := by nlinarith
  · have h1' : sameAngle a b = false := by simpa using h1
    by_cases h2 : oppositeAngle a b = true
    · -- a half turn apart
      have hTopp : ∃ ε : ℝ, |ε| < 1 / 10 ^ 15 ∧ ∃ σ : ℝ, (σ = 1 ∨ σ = -1) ∧ T b.angle = T a.angle + σ * Real.pi + ε := by
        unfold oppositeAngle at h2
        rw [Bool.or_eq_true] at h2
        rcases h2 with h | h
        · have hT := T_of_beq h
          have hn : T (a.angle.add (Angle.new one one)) = T a.angle + Real.pi := negate_total_real ha
          refine ⟨T b.angle - T (a.angle.add (Angle.new one one)), by rw [abs_sub_comm]; exact hT, 1, Or.inl rfl, ?_⟩
          rw [hn]; ring
        · have hT := T_of_beq h
          have hn : T (b.angle.add (Angle.new one one)) = T b.angle + Real.pi := negate_total_real hb
          refine ⟨T (b.angle.add (Angle.new one one)) - T a.angle, hT, -1, Or.inr rfl, ?_⟩
          rw [hn]; ring
      obtain ⟨ε, hε, σ, hσ, hTb⟩ := hTopp
      -- cart b = −polar b.mag (T a + ε)
      have hcb' : cart b = -polar b.mag (T a.angle + ε) := by
        simp only [cart]; rw [hTb]
        rcases hσ with rfl | rfl
        · rw [show T a.angle + 1 * Real.pi + ε = (T a.angle + ε) + Real.pi by ring, polar_add_pi]
        · rw [show T a.angle + -1 * Real.pi + ε = (T a.angle + ε + Real.pi) + ((-1 : ℤ) : ℝ) * (2 * Real.pi) by push_cast; ring,
            polar_add_turns, polar_add_pi]
      have hshift : ‖polar b.mag (T a.angle + ε) - polar b.mag (T a.angle)‖ ≤ b.mag * (1 / 10 ^ 10) := by
        calc ‖polar b.mag (T a.angle + ε) - polar b.mag (T a.angle)‖ ≤ |b.mag| * |T a.angle + ε - T a.angle| := norm_polar_sub_le _ _ _
          _ = b.mag * |ε| := by rw [abs_of_nonneg h0b]; ring_nf
          _ ≤ b.mag * (1 / 10 ^ 10) := mul_le_mul_of_nonneg_left (le_trans (le_of_lt hε) htol) h0b
      -- the three sub-branches all return a point on a's ray (or 0)
      have key : ∀ (res : Geonum ℝ) (r : ℝ), cart res = polar r (T a.angle) → |r - (a.mag - b.mag)| ≤ 1 / 10 ^ 10 →
          ‖cart res - (cart a + cart b)‖ ≤ 1 / 10 ^ 10 * (1 + a.mag + b.mag) := by
        intro res r hres hr
        have e : cart res - (cart a + cart b) =
            polar (r - (a.mag - b.mag)) (T a.angle) + (polar b.mag (T a.angle + ε) - polar b.mag (T a.angle)) := by
          rw [hres, hcb']; simp only [cart]
          have := polar_add_same (r - (a.mag - b.mag)) (a.mag - b.mag) (T a.angle)
          have h2 := polar_add_same (a.mag - b.mag) b.mag (T a.angle)
          rw [show r - (a.mag - b.mag) + (a.mag - b.mag) = r by ring] at this
          rw [show a.mag - b.mag + b.mag = a.mag by ring] at h2
          rw [← this, ← h2]; ring
        rw [e]
        calc ‖polar (r - (a.mag - b.mag)) (T a.angle) + (polar b.mag (T a.angle + ε) - polar b.mag (T a.angle))‖
            ≤ ‖polar (r - (a.mag - b.mag)) (T a.angle)‖ + ‖polar b.mag (T a.angle + ε) - polar b.mag (T a.angle)‖ := norm_add_le _ _
          _ ≤ 1 / 10 ^ 10 + b.mag * (1 / 10 ^ 10) := by rw [norm_polar]; exact add_le_add hr hshift
          _ ≤ 1 / 10 ^ 10 * (1 + a.mag + b.mag) := by nlinarith
      by_cases h3 : flt (fabs (fsub a.mag b.mag)) (e10 : ℝ) = true
      · rw [add_opposite_cancel a b h1' h2 h3]
        have hd : |a.mag - b.mag| < 1 / 10 ^ 10 := by
          rw [r_lt, r_abs, r_sub, e10_real] at h3; simpa using h3
        apply key _ 0
        · simp only [cart]; rw [lit_real.1, polar_zero, polar_zero]
        · rw [zero_sub, abs_neg]; exact le_of_lt hd
      · have h3' : flt (fabs (fsub a.mag b.mag)) (e10 : ℝ) = false := by simpa using h3
        by_cases h4 : flt (zero : ℝ) (fsub a.mag b.mag) = true
        · rw [add_opposite_first a b h1' h2 h3' h4]
          apply key _ (a.mag - b.mag) rfl
          rw [sub_self, abs_zero]; positivity
        · have h4' : flt (zero : ℝ) (fsub a.mag b.mag) = false := by simpa using h4
          rw [add_opposite_second a b h1' h2 h3' h4']
          -- −(a−b) on b's ray = (a−b) on a's ray shifted by ε
          have hres : cart (⟨fneg (fsub a.mag b.mag), b.angle⟩ : Geonum ℝ) = polar (a.mag - b.mag) (T a.angle + ε) := by
            have : cart (⟨fneg (fsub a.mag b.mag), b.angle⟩ : Geonum ℝ) = polar (-(a.mag - b.mag)) (T b.angle) := rfl
            rw [this, hTb, polar_neg]
            rcases hσ with rfl | rfl
            · rw [show T a.angle + 1 * Real.pi + ε = (T a.angle + ε) + Real.pi by ring, polar_add_pi, neg_neg]
            · rw [show T a.angle + -1 * Real.pi + ε = (T a.angle + ε + Real.pi) + ((-1 : ℤ) : ℝ) * (2 * Real.pi) by push_cast; ring,
                polar_add_turns, polar_add_pi, neg_neg]
          have hle : a.mag ≤ b.mag := by
            rw [lit_real.1, r_lt, r_sub] at h4'
            have : ¬ (0 < a.mag - b.mag) := by simpa using h4'
            linarith [not_lt.mp this]
          have e : cart (⟨fneg (fsub a.mag b.mag), b.angle⟩ : Geonum ℝ) - (cart a + cart b) =
              polar a.mag (T a.angle + ε) - polar a.mag (T a.angle) := by
            rw [hres, hcb']; simp only [cart]
            have := polar_add_same (a.mag - b.mag) b.mag (T a.angle + ε)
            rw [show a.mag - b.mag + b.mag = a.mag by ring] at this
            rw [← this]; ring
          rw [e]
          calc ‖polar a.mag (T a.angle + ε) - polar a.mag (T a.angle)‖ ≤ |a.mag| * |T a.angle + ε - T a.angle| := norm_polar_sub_le _ _ _
            _ = a.mag * |ε| := by rw [abs_of_nonneg h0a]; ring_nf
            _ ≤ a.mag * (1 / 10 ^ 10) := mul_le_mul_of_nonneg_left (le_trans (le_of_lt hε) htol) h0a
            _ ≤ 1 / 10 ^ 10 * (1 + a.mag + b.mag) := by nlinarith
    · -- general branch: law of cosines + atan2, re-encoded on top of the blade sum
      have h2' : oppositeAngle a b = false := by simpa using h2
      rw [add_general a b h1' h2']
      set z : ℂ := cart a + cart b with hz
      set cb : ℕ := a.angle.blade + b.angle.blade with hcbdef
      -- magnitude = ‖z‖
      have hrad : radicand a b = Complex.normSq z := by
        rw [hz, normSq_cart_add]
        simp only [radicand, r_add, r_mul, r_sub, lit_real.2.2.1]
        rfl
      have hmag : sqrt (fmax (radicand a b) (zero : ℝ)) = ‖z‖ := by
        rw [hrad, r_max, lit_real.1, max_eq_left (Complex.normSq_nonneg z)]
        show Real.sqrt (Complex.normSq z) = ‖z‖
        rw [← Complex.sq_norm, Real.sqrt_sq (norm_nonneg z)]
      -- direction = arg z
      have hdir : FloatLike.atan2 (oppSum a b) (adjSum a b) = Complex.arg z := by
        show Complex.arg ⟨adjSum a b, oppSum a b⟩ = Complex.arg z
        congr 1
        apply Complex.ext
        · show adjSum a b = z.re
          rw [hz, Complex.add_re, (cart_re_im a).1, (cart_re_im b).1]; rfl
        · show oppSum a b = z.im
          rw [hz, Complex.add_im, (cart_re_im a).2, (cart_re_im b).2]; rfl
      rw [hmag, hdir]
      set adjusted : ℝ := Complex.arg z - (cb : ℝ) * Real.pi / 2 with hadj
      have hadj' : fsub (Complex.arg z) (fdiv (fmul (FloatLike.ofNat cb : ℝ) pi) two) = adjusted := by
        simp only [r_sub, r_div, r_mul, pi_real, lit_real.2.2.1, hadj]; rfl
      rw [hadj']
      have harg : |Complex.arg z| ≤ Real.pi := Complex.abs_arg_le_pi z
      have hcbr : (cb : ℝ) ≤ 2 ^ 40 := by exact_mod_cast hcb
      have hq : adjusted * Real.pi / Real.pi = adjusted := by field_simp
      have hb42 : |adjusted * Real.pi / Real.pi| ≤ 2 ^ 42 := by
        rw [hq, hadj]
        have h4 := Real.pi_lt_four
        have : |Complex.arg z - (cb : ℝ) * Real.pi / 2| ≤ |Complex.arg z| + |(cb : ℝ) * Real.pi / 2| := abs_sub _ _
        have h3 : |(cb : ℝ) * Real.pi / 2| ≤ 2 ^ 40 * 2 := by
          rw [abs_of_nonneg (by positivity)]; nlinarith
        have : (4:ℝ) + 2 ^ 40 * 2 ≤ 2 ^ 42 := by norm_num
        linarith
      obtain ⟨hninv, δ, m, hδ, hTn⟩ := new_total_real (p := adjusted) (d := Real.pi) hb42
      rw [hq] at hTn
      have hk53 : cb < 2 ^ 53 := lt_of_le_of_lt hcb (by norm_num)
      have hTres : T (Geonum.newWithBlade ‖z‖ cb adjusted pi).angle = Complex.arg z + δ + (m : ℝ) * (2 * Real.pi) := by
        show T (Angle.newWithBlade cb adjusted (FloatLike.pi : ℝ)) = _
        unfold Angle.newWithBlade
        simp only [Angle.add, addVV]
        rw [new_nat cb hk53, pi_real,
          add_whole_total_real hninv (show (⟨zero, cb⟩ : Angle ℝ).rem = 0 from lit_real.1), hTn, hadj]
        unfold T; simp only; rw [lit_real.1]; ring
      have hres : cart (Geonum.newWithBlade ‖z‖ cb adjusted pi) = polar ‖z‖ (Complex.arg z + δ) := by
        show polar ‖z‖ (T (Geonum.newWithBlade ‖z‖ cb adjusted pi).angle) = _
        rw [hTres, polar_add_turns]
      rw [hres]
      have hzp : z = polar ‖z‖ (Complex.arg z) := (polar_norm_arg z).symm
      have hzn : ‖z‖ ≤ a.mag + b.mag := by
        calc ‖z‖ ≤ ‖cart a‖ + ‖cart b‖ := norm_add_le _ _
          _ = a.mag + b.mag := by simp only [cart, norm_polar, abs_of_nonneg h0a, abs_of_nonneg h0b]
      calc ‖polar ‖z‖ (Complex.arg z + δ) - z‖ = ‖polar ‖z‖ (Complex.arg z + δ) - polar ‖z‖ (Complex.arg z)‖ := by rw [← hzp]
        _ ≤ |‖z‖| * |Complex.arg z + δ - Complex.arg z| := norm_polar_sub_le _ _ _
        _ = ‖z‖ * |δ| := by rw [abs_of_nonneg (norm_nonneg z)]; ring_nf
        _ ≤ (a.mag + b.mag) * (1 / 10 ^ 10) := mul_le_mul hzn (le_of_lt hδ) (abs_nonneg _) (by linarith)
        _ ≤ 1 / 10 ^ 10 * (1 + a.mag + b.mag) := by nlinarith

end GeonumModel.Exact

namespace GeonumModel.Exact
open GeonumModel FloatLike FloatSpec Angle Geonum

/-- a general-path `Angle::new` whose normalised total is below one turn has at most four blades, and exactly four only with
    remainder 0 (exact arithmetic) -/
theorem new_blade_le_four_real {p d : ℝ} (hfast : (feq d (two : ℝ) && feq (FloatLike.fract p) (zero : ℝ)) = false)
    (hlt : Angle.newTotal p d < 2 * Real.pi) (h0 : 0 ≤ Angle.newTotal p d) :
    (Angle.new p d).blade ≤ 4 ∧ ((Angle.new p d).blade = 4 → (Angle.new p d).rem = 0) := by
  have hpi := Real.pi_pos
  have hbig : val (F := ℝ) (Angle.newTotal p d) ≤ 2 ^ 48 := by
    show Angle.newTotal p d ≤ 2 ^ 48
    have := Real.pi_lt_four
    have : (2:ℝ) * 4 ≤ 2 ^ 48 := by norm_num
    linarith
  have hcore := (newCore_spec (F := ℝ) (Angle.newTotal p d) trivial h0 hbig).2
  have hnew : Angle.new p d = normalizeBoundaries ⟨fmod (Angle.newTotal p d) qp,
      toUsize (FloatLike.round (fdiv (fsub (Angle.newTotal p d) (fmod (Angle.newTotal p d) qp)) qp))⟩ := by
    unfold Angle.new newGeneral; simp [hfast]
  rw [← hnew, qp_real] at hcore
  simp only [val_id] at hcore
  have hq4 : Angle.newTotal p d / (Real.pi / 2) < 4 := by
    rw [div_lt_iff₀ (by positivity)]; linarith
  have hfl : ⌊Angle.newTotal p d / (Real.pi / 2)⌋₊ ≤ 3 := by
    have : ⌊Angle.newTotal p d / (Real.pi / 2)⌋₊ < 4 := by
      rw [Nat.floor_lt (div_nonneg h0 (by positivity))]; exact_mod_cast hq4
    omega
  rcases hcore with ⟨hb, _⟩ | ⟨hb, hr, _⟩
  · exact ⟨by omega, fun h4 => by omega⟩
  · exact ⟨by omega, fun _ => hr⟩

/-- **blade policy of the general branch, exact arithmetic**: the sum's blade count is at least the sum of the operands' blade
    counts and at most one full turn above it, exactly one full turn only with remainder 0 -/
theorem general_blade_real {a b : Geonum ℝ} (ha : a.angle.Inv) (hb : b.angle.Inv)
    (h1 : sameAngle a b = false) (h2 : oppositeAngle a b = false) (hcb : a.angle.blade + b.angle.blade ≤ 2 ^ 40) :
    a.angle.blade + b.angle.blade ≤ (a.add b).angle.blade ∧ (a.add b).angle.blade ≤ a.angle.blade + b.angle.blade + 4 ∧
    ((a.add b).angle.blade = a.angle.blade + b.angle.blade + 4 → (a.add b).angle.rem = 0) := by
  have hpi := Real.pi_pos
  rw [add_general a b h1 h2]
  set cb : ℕ := a.angle.blade + b.angle.blade with hcbdef
  set ra : ℝ := FloatLike.atan2 (oppSum a b) (adjSum a b) with hra
  have harg : |ra| ≤ Real.pi := by
    show |Complex.arg ⟨adjSum a b, oppSum a b⟩| ≤ Real.pi
    exact Complex.abs_arg_le_pi _
  set adjusted : ℝ := ra - (cb : ℝ) * Real.pi / 2 with hadj
  have hadj' : fsub ra (fdiv (fmul (FloatLike.ofNat cb : ℝ) pi) two) = adjusted := by
    simp only [r_sub, r_div, r_mul, pi_real, lit_real.2.2.1, hadj]; rfl
  rw [hadj']
  have hk53 : cb < 2 ^ 53 := lt_of_le_of_lt hcb (by norm_num)
  have hcbr : (cb : ℝ) ≤ 2 ^ 40 := by exact_mod_cast hcb
  have hq : adjusted * Real.pi / Real.pi = adjusted := by field_simp
  have hb42 : |adjusted * Real.pi / Real.pi| ≤ 2 ^ 42 := by
    rw [hq, hadj]
    have h4 := Real.pi_lt_four
    have : |ra - (cb : ℝ) * Real.pi / 2| ≤ |ra| + |(cb : ℝ) * Real.pi / 2| := abs_sub _ _
    have h3 : |(cb : ℝ) * Real.pi / 2| ≤ 2 ^ 40 * 2 := by
      rw [abs_of_nonneg (by positivity)]; nlinarith
    have : (4:ℝ) + 2 ^ 40 * 2 ≤ 2 ^ 42 := by norm_num
    linarith
  obtain ⟨hninv, _⟩ := new_total_real (p := adjusted) (d := Real.pi) hb42
  -- not the fast path: the divisor is π, not 2
  have hfast : (feq (Real.pi : ℝ) (two : ℝ) && feq (FloatLike.fract adjusted) (zero : ℝ)) = false := by
    have : feq (Real.pi : ℝ) (two : ℝ) = false := by
      rw [lit_real.2.2.1, r_eq]
      have := Real.pi_gt_three
      simp; linarith
    simp [this]
  obtain ⟨n, hnt, hnt0, _, hneg, hpos⟩ := newTotal_real adjusted Real.pi
  rw [hq] at hneg hpos hnt
  have hlt : Angle.newTotal adjusted Real.pi < 2 * Real.pi := by
    by_cases hs : adjusted < 0
    · exact hneg hs
    · push Not at hs
      rw [hnt, hpos hs]; simp
      have : adjusted ≤ Real.pi := by
        rw [hadj]; rw [abs_le] at harg
        have : (0:ℝ) ≤ (cb : ℝ) * Real.pi / 2 := by positivity
        linarith
      linarith
  obtain ⟨hle4, h4⟩ := new_blade_le_four_real hfast hlt hnt0
  -- adding cb whole quarter turns
  have hw := add_whole (F := ℝ) (a := Angle.new adjusted Real.pi) (z := (⟨zero, cb⟩ : Angle ℝ)) hninv trivial (val_zero (F := ℝ))
  simp only [val_id] at hw
  have hang : (Geonum.newWithBlade (sqrt (fmax (radicand a b) (zero : ℝ))) cb adjusted (FloatLike.pi : ℝ)).angle
      = (Angle.new adjusted Real.pi).geometricAdd ⟨zero, cb⟩ := by
    show Angle.newWithBlade cb adjusted (FloatLike.pi : ℝ) = _
    unfold Angle.newWithBlade
    simp only [Angle.add, addVV]
    rw [new_nat cb hk53, pi_real]
  rw [hang, hw.1]
  refine ⟨by omega, by omega, fun h => ?_⟩
  rw [hw.2.2]
  exact h4 (by omega)

end GeonumModel.Exact
