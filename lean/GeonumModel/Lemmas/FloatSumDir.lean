/-
  GeonumModel.Lemmas.FloatSumDir — B-tier for the DIRECTION of a sum in the general branch of `impl Add for Geonum`:
  in rounded arithmetic the result's float total is `atan2(Σ opp, Σ adj)` (the libm value on the rounded component sums)
  modulo whole turns, to within the `1e-10` snap plus about forty ulps per unit of combined blade count — through the
  rounded blade shift `(cb·π)/2`, the subtraction, the constructor's `·π/π`, its negative path, the exact `fmod`, the snap
  and the final whole-blade addition.
-/
import GeonumModel.Lemmas.FloatNewNeg
import GeonumModel.Lemmas.GeonumAdd
import GeonumModel.Lemmas.GeonumMag
import GeonumModel.Lemmas.GradeAngle

set_option linter.unusedSectionVars false
set_option linter.unusedVariables false

namespace GeonumModel
open FloatLike FloatSpec
variable {F : Type} [FloatSpec F]
namespace Geonum
open Angle

/-- real arithmetic of the rounded blade shift and the rounded subtraction -/
theorem adjusted_real {c P X Y Z t A ε τ : ℝ} (hc : 0 ≤ c) (hP3 : 3 ≤ P) (hP4 : P ≤ 4) (hX : X = c * P)
    (hε0 : 0 < ε) (hε1 : ε ≤ 1 / 100) (hcε1 : c * ε ≤ 1 / 100) (hτ0 : 0 < τ) (hτ1 : τ ≤ 1 / 100)
    (hY : |Y - X| ≤ X * ε + τ) (hZ : |Z - Y / 2| ≤ Y / 2 * ε + τ) (ht : |t| ≤ P)
    (hA : |A - (t - Z)| ≤ |t - Z| * ε + τ) :
    |A - (t - X / 2)| ≤ (7 * c + 5) * ε + 3 * τ ∧ |A| ≤ 2 * c + 6 := by
  have hX0 : 0 ≤ X := by rw [hX]; exact mul_nonneg hc (by linarith)
  have hX4 : X ≤ 4 * c := by
    rw [hX]; have := mul_le_mul_of_nonneg_left hP4 hc; linarith
  have hcε0 : 0 ≤ c * ε := mul_nonneg hc (le_of_lt hε0)
  have hXε0 : 0 ≤ X * ε := mul_nonneg hX0 (le_of_lt hε0)
  have hXε : X * ε ≤ 4 * (c * ε) := by
    have := mul_le_mul_of_nonneg_right hX4 (le_of_lt hε0); linarith
  have hXεε : X * ε * ε ≤ X * ε * (1 / 100) := mul_le_mul_of_nonneg_left hε1 hXε0
  have hτε : τ * ε ≤ τ * (1 / 100) := mul_le_mul_of_nonneg_left hε1 (le_of_lt hτ0)
  rw [abs_le] at hY hZ ht
  have hYhi : Y / 2 ≤ (X + X * ε + τ) / 2 := by linarith [hY.2]
  have hYε : Y / 2 * ε ≤ (X + X * ε + τ) / 2 * ε := mul_le_mul_of_nonneg_right hYhi (le_of_lt hε0)
  have eYε : (X + X * ε + τ) / 2 * ε = X * ε / 2 + X * ε * ε / 2 + τ * ε / 2 := by ring
  rw [eYε] at hYε
  -- |Z − X/2| ≤ 5cε + 2τ
  have hZXhi : Z - X / 2 ≤ 5 * (c * ε) + 2 * τ := by linarith [hZ.2, hY.2]
  have hZXlo : -(5 * (c * ε) + 2 * τ) ≤ Z - X / 2 := by linarith [hZ.1, hY.1]
  have hZhi : Z ≤ 2 * c + 1 := by linarith
  have hZlo : -1 ≤ Z := by linarith
  have htZ : |t - Z| ≤ 2 * c + 5 := by rw [abs_le]; constructor <;> linarith [ht.1, ht.2]
  have htZε : |t - Z| * ε ≤ (2 * c + 5) * ε := mul_le_mul_of_nonneg_right htZ (le_of_lt hε0)
  have e25 : (2 * c + 5) * ε = 2 * (c * ε) + 5 * ε := by ring
  have e75 : (7 * c + 5) * ε = 7 * (c * ε) + 5 * ε := by ring
  rw [e25] at htZε
  rw [abs_le] at hA htZ
  constructor
  · rw [abs_le, e75]
    constructor <;> linarith [hA.1, hA.2]
  · rw [abs_le]
    constructor <;> linarith [hA.1, hA.2, htZ.1, htZ.2]

/-- the adjusted angle `atan2(…) − (cb·π)/2` of the general branch: finite, at most `2^41`, and within `(7·cb + 5)` ulps-of-one
    of the exact `atan2 value − cb·(π_f/2)` -/
theorem general_adjusted {a b : Geonum F} (ha : a.angle.Inv) (hb : b.angle.Inv) (hma : a.MagDom) (hmb : b.MagDom)
    (hcb : a.angle.blade + b.angle.blade ≤ 2 ^ 39) :
    Fin (FloatLike.atan2 (oppSum a b) (adjSum a b)) ∧ |val (FloatLike.atan2 (oppSum a b) (adjSum a b))| ≤ piV F ∧
    Fin (fsub (FloatLike.atan2 (oppSum a b) (adjSum a b)) (fdiv (fmul (FloatLike.ofNat (a.angle.blade + b.angle.blade)) pi) two)) ∧
    |val (fsub (FloatLike.atan2 (oppSum a b) (adjSum a b)) (fdiv (fmul (FloatLike.ofNat (a.angle.blade + b.angle.blade)) pi) two))
        - (val (FloatLike.atan2 (oppSum a b) (adjSum a b)) - ((a.angle.blade + b.angle.blade : ℕ) : ℝ) * val (qp : F))|
      ≤ (7 * ((a.angle.blade + b.angle.blade : ℕ) : ℝ) + 5) * (1 / 2 ^ 53) + 3 * (1 / 2 ^ 1075) ∧
    |val (fsub (FloatLike.atan2 (oppSum a b) (adjSum a b)) (fdiv (fmul (FloatLike.ofNat (a.angle.blade + b.angle.blade)) pi) two))|
      ≤ 2 * ((a.angle.blade + b.angle.blade : ℕ) : ℝ) + 6 := by
  have hk53 : a.angle.blade + b.angle.blade < 2 ^ 53 := lt_of_le_of_lt hcb (by norm_num)
  have hga := gradeAngle_fin ha; have hgb := gradeAngle_fin hb
  have prodfin : ∀ {m c : F}, Fin m → Fin c → |val c| ≤ 1 → Fin (fmul m c) ∧ |val (fmul m c)| ≤ |val m| :=
    fun hm hc hc1 => fmul_le_one hm hc hc1
  have sumfin : ∀ {x y : F}, Fin x → Fin y → |val x| ≤ 10 ^ 100 → |val y| ≤ 10 ^ 100 → Fin (fadd x y) := by
    intro x y hx hy hx1 hy1
    exact (fadd_spec hx hy (inRange_of_le (by
      have := abs_add_le (val x) (val y)
      norm_num at hx1 hy1 ⊢; linarith))).1
  have habs : ∀ g : Geonum F, g.MagDom → |val g.mag| ≤ 10 ^ 100 := fun g hg => by rw [abs_of_nonneg hg.2.1]; exact hg.2.2
  obtain ⟨hfsa, hsa1, _⟩ := sin_spec hga
  obtain ⟨hfsb, hsb1, _⟩ := sin_spec hgb
  obtain ⟨hfca, hca1, _⟩ := cos_spec hga
  obtain ⟨hfcb, hcb1, _⟩ := cos_spec hgb
  have p1 := prodfin hma.1 hfsa hsa1; have p2 := prodfin hmb.1 hfsb hsb1
  have p3 := prodfin hma.1 hfca hca1; have p4 := prodfin hmb.1 hfcb hcb1
  have hopp : Fin (oppSum a b) := sumfin p1.1 p2.1 (le_trans p1.2 (habs a hma)) (le_trans p2.2 (habs b hmb))
  have hadj : Fin (adjSum a b) := sumfin p3.1 p4.1 (le_trans p3.2 (habs a hma)) (le_trans p4.2 (habs b hmb))
  obtain ⟨hfat, hat1, _⟩ := atan2_spec hopp hadj
  have hp3 := piV_gt3 (F := F); have hp4 := piV_lt4 (F := F)
  have hcbr : ((a.angle.blade + b.angle.blade : ℕ) : ℝ) ≤ 2 ^ 39 := by exact_mod_cast hcb
  have hcb0 : (0:ℝ) ≤ ((a.angle.blade + b.angle.blade : ℕ) : ℝ) := Nat.cast_nonneg _
  set c : ℝ := ((a.angle.blade + b.angle.blade : ℕ) : ℝ) with hc
  have hfn := fin_nat (F := F) hk53
  have hvn := val_nat (F := F) hk53
  have hx0 : 0 ≤ c * piV F := by positivity
  have hx1 : c * piV F ≤ 2 ^ 41 := by
    calc c * piV F ≤ 2 ^ 39 * 4 := mul_le_mul hcbr (le_of_lt hp4) (by linarith) (by positivity)
      _ = 2 ^ 41 := by norm_num
  obtain ⟨hf1, hv1⟩ := fmul_spec hfn (fin_pi (F := F)) (by
    rw [hvn, val_pi]; apply inRange_of_abs_le_2p60; rw [abs_of_nonneg hx0]
    have : (2:ℝ) ^ 41 ≤ 2 ^ 60 := by norm_num
    linarith)
  rw [hvn, val_pi] at hv1
  have hn1 := rnd_near (F := F) hx0 (by have : (2:ℝ) ^ 41 ≤ 2 ^ 53 := by norm_num
                                        linarith)
  rw [← hv1, abs_le] at hn1
  have hy0 : 0 ≤ val (fmul (FloatLike.ofNat (a.angle.blade + b.angle.blade) : F) pi) := by rw [hv1]; exact rnd_nonneg hx0
  obtain ⟨hf2, hv2⟩ := fdiv_spec hf1 (fin_two (F := F)) (by rw [val_two]; norm_num) (by
    rw [val_two]; apply inRange_of_abs_le_2p60; rw [abs_of_nonneg (by linarith)]
    have : ((2:ℝ) ^ 41 + 2) / 2 ≤ 2 ^ 60 := by norm_num
    linarith [hn1.2])
  rw [val_two] at hv2
  have hh0 : 0 ≤ val (fmul (FloatLike.ofNat (a.angle.blade + b.angle.blade) : F) pi) / 2 := by linarith
  have hh1 : val (fmul (FloatLike.ofNat (a.angle.blade + b.angle.blade) : F) pi) / 2 ≤ 2 ^ 40 + 1 := by linarith [hn1.2]
  have hn2 := rnd_near (F := F) hh0 (by have : (2:ℝ) ^ 40 + 1 ≤ 2 ^ 53 := by norm_num
                                        linarith)
  rw [← hv2, abs_le] at hn2
  have hs1 : val (fdiv (fmul (FloatLike.ofNat (a.angle.blade + b.angle.blade) : F) pi) two) ≤ 2 ^ 40 + 3 := by linarith [hn2.2]
  have hs0 : 0 ≤ val (fdiv (fmul (FloatLike.ofNat (a.angle.blade + b.angle.blade) : F) pi) two) := by rw [hv2]; exact rnd_nonneg hh0
  have hat1' := hat1
  rw [abs_le] at hat1
  obtain ⟨hf3, hv3⟩ := fsub_spec hfat hf2 (by
    apply inRange_of_abs_le_2p60; rw [abs_le]
    have : (2:ℝ) ^ 40 + 3 + 4 ≤ 2 ^ 60 := by norm_num
    constructor <;> linarith [hat1.1, hat1.2])
  -- error analysis
  have eY := rnd_err (F := F) (c * piV F)
  rw [← hv1, abs_of_nonneg hx0] at eY
  have eZ := rnd_err (F := F) (val (fmul (FloatLike.ofNat (a.angle.blade + b.angle.blade) : F) pi) / 2)
  rw [← hv2, abs_of_nonneg hh0] at eZ
  have eA := rnd_err (F := F) (val (FloatLike.atan2 (oppSum a b) (adjSum a b)) -
      val (fdiv (fmul (FloatLike.ofNat (a.angle.blade + b.angle.blade) : F) pi) two))
  rw [← hv3] at eA
  have e53 : ∀ z : ℝ, z / 2 ^ 53 = z * (1 / 2 ^ 53) := fun z => by ring
  rw [e53] at eY eZ eA
  have hτ100 : (1:ℝ) / 2 ^ 1075 ≤ 1 / 100 := le_trans tiny_1075_300 (one_div_le_one_div_of_le (by norm_num) (by
    calc (100:ℝ) = 10 ^ 2 := by norm_num
      _ ≤ 10 ^ 300 := pow_le_pow_right₀ (by norm_num) (by norm_num)))
  have hcε14 : c * (1 / 2 ^ 53) ≤ 1 / 100 := by
    have : c * (1 / 2 ^ 53) ≤ 2 ^ 39 * (1 / 2 ^ 53) := mul_le_mul_of_nonneg_right hcbr (by positivity)
    have : (2:ℝ) ^ 39 * (1 / 2 ^ 53) ≤ 1 / 100 := by norm_num
    linarith
  have key := adjusted_real (c := c) (P := piV F) (X := c * piV F) hcb0 (le_of_lt hp3) (le_of_lt hp4) rfl
    (by positivity) (by norm_num) hcε14 (by positivity) hτ100 eY eZ hat1' eA
  have hqp : c * val (qp : F) = c * piV F / 2 := by rw [val_qp]; ring
  rw [hqp]
  exact ⟨hfat, hat1', hf3, key.1, key.2⟩

/-- **direction of the sum in the general branch, rounded arithmetic**: the float total of the result is the libm `atan2` of the
    rounded component sums plus a whole number of turns, to within `1e-10 + (40·cb + 140)·2⁻⁵³` (`cb` = combined blade count) -/
theorem add_general_direction_float {a b : Geonum F} (ha : a.angle.Inv) (hb : b.angle.Inv) (hma : a.MagDom) (hmb : b.MagDom)
    (hcb : a.angle.blade + b.angle.blade ≤ 2 ^ 39) (h1 : sameAngle a b = false) (h2 : oppositeAngle a b = false) :
    ∃ n : ℕ, |Tq (a.add b).angle - (val (FloatLike.atan2 (oppSum a b) (adjSum a b)) + (n : ℝ) * (4 * val (qp : F)))|
      < val (e10 : F) + (40 * ((a.angle.blade + b.angle.blade : ℕ) : ℝ) + 140) * (1 / 2 ^ 53) + 1 / 10 ^ 298 := by
  have hk53 : a.angle.blade + b.angle.blade < 2 ^ 53 := lt_of_le_of_lt hcb (by norm_num)
  obtain ⟨hfat, hat1, hfA, hAerr, hAabs⟩ := general_adjusted ha hb hma hmb hcb
  set c : ℝ := ((a.angle.blade + b.angle.blade : ℕ) : ℝ) with hc
  have hc0 : 0 ≤ c := Nat.cast_nonneg _
  have hcle : c ≤ 2 ^ 39 := by rw [hc]; exact_mod_cast hcb
  set A := fsub (FloatLike.atan2 (oppSum a b) (adjSum a b)) (fdiv (fmul (FloatLike.ofNat (a.angle.blade + b.angle.blade)) pi) two)
    with hA
  set t := val (FloatLike.atan2 (oppSum a b) (adjSum a b)) with ht
  have hA41 : |val A| ≤ 2 ^ 41 := by
    have : 2 * c + 6 ≤ 2 ^ 41 := by
      have : (2:ℝ) * 2 ^ 39 + 6 ≤ 2 ^ 41 := by norm_num
      linarith
    linarith
  -- the result angle: new(A, π) plus cb whole blades
  have hres : (a.add b).angle = (Angle.new A (FloatLike.pi : F)).geometricAdd ⟨zero, a.angle.blade + b.angle.blade⟩ := by
    rw [add_general a b h1 h2]
    show Angle.newWithBlade _ _ (FloatLike.pi : F) = _
    unfold Angle.newWithBlade
    simp only [Angle.add, addVV]
    rw [new_nat _ hk53]
  have hninv : (Angle.new A (FloatLike.pi : F)).Inv := by
    rcases le_or_gt 0 (val A) with h | h
    · exact (new_radians_total hfA h (by rw [abs_of_nonneg h] at hA41; exact hA41)).1
    · exact (new_radians_total_neg hfA h (by rw [abs_of_neg h] at hA41; linarith)).1
  obtain ⟨hbl, hfr, hvr⟩ := add_whole hninv (fin_zero (F := F)) (val_zero (F := F))
    (z := (⟨zero, a.angle.blade + b.angle.blade⟩ : Angle F))
  have hTq : Tq (a.add b).angle = Tq (Angle.new A (FloatLike.pi : F)) + c * val (qp : F) := by
    rw [hres]; unfold Tq; rw [hbl, hvr, hc]; push_cast; ring
  -- constants
  obtain ⟨ε, hε⟩ : ∃ ε : ℝ, ε = 1 / 2 ^ 53 := ⟨_, rfl⟩
  have hε0 : 0 < ε := by rw [hε]; positivity
  obtain ⟨τ, hτ⟩ : ∃ τ : ℝ, τ = 1 / 2 ^ 1075 := ⟨_, rfl⟩
  have hτ0 : 0 < τ := by rw [hτ]; positivity
  have hτ300 : τ ≤ 1 / 10 ^ 300 := by rw [hτ]; exact tiny_1075_300
  rw [← hε, ← hτ] at hAerr
  have h1070 : (1:ℝ) / 2 ^ 1070 = 32 * τ := by
    rw [hτ, show (1075:ℕ) = 1070 + 5 by norm_num, pow_add]; field_simp; norm_num
  have h299 : 35 * τ + 1 / 10 ^ 300 ≤ 1 / 10 ^ 298 := by
    have : (36:ℝ) * (1 / 10 ^ 300) ≤ 1 / 10 ^ 298 := by
      rw [show (300:ℕ) = 298 + 2 by norm_num, pow_add, mul_one_div, div_le_div_iff₀ (by positivity) (by positivity)]
      rw [show (10:ℝ) ^ 2 = 100 by norm_num]
      have hx : (0:ℝ) < 10 ^ 298 := by positivity
      generalize (10:ℝ) ^ 298 = x at hx ⊢
      linarith
    linarith
  rw [← hε]
  rw [abs_le] at hAerr hAabs
  have hAabs' : |val A| ≤ 2 * c + 6 := abs_le.mpr hAabs
  rcases le_or_gt 0 (val A) with hpos | hneg
  · -- non-negative adjusted angle: no turn is added
    obtain ⟨_, htq⟩ := new_radians_total hfA hpos (by rw [abs_of_nonneg hpos] at hA41; exact hA41)
    refine ⟨0, ?_⟩
    have e8 : val A * (8 / 2 ^ 53) = val A * (8 * ε) := by rw [hε]; ring
    rw [e8, h1070] at htq
    have h8 : val A * (8 * ε) ≤ (2 * c + 6) * (8 * ε) := mul_le_mul_of_nonneg_right hAabs.2 (by linarith)
    rw [hTq]
    simp only [Nat.cast_zero, zero_mul, add_zero]
    rw [abs_lt] at htq ⊢
    have hcε : 0 ≤ c * ε := mul_nonneg hc0 (le_of_lt hε0)
    constructor <;> nlinarith [htq.1, htq.2, hAerr.1, hAerr.2]
  · obtain ⟨_, n, htq, _⟩ := new_radians_total_neg hfA hneg (by rw [abs_of_neg hneg] at hA41; linarith)
    refine ⟨n, ?_⟩
    have e14 : (14 * |val A| + 46) * (1 / 2 ^ 53) = (14 * |val A| + 46) * ε := by rw [hε]
    rw [e14] at htq
    have h14 : (14 * |val A| + 46) * ε ≤ (14 * (2 * c + 6) + 46) * ε :=
      mul_le_mul_of_nonneg_right (by linarith) (le_of_lt hε0)
    rw [hTq]
    rw [abs_lt] at htq ⊢
    have hcε : 0 ≤ c * ε := mul_nonneg hc0 (le_of_lt hε0)
    constructor <;> nlinarith [htq.1, htq.2, hAerr.1, hAerr.2]

end Geonum
end GeonumModel
