/-
  GeonumModel.Lemmas.FloatNew — B-tier for `Angle::new(p, d)` with `p/d ≥ 0` (both paths): the float total of the result is
  `p·π_f/d` to within the snap plus four ulps, hence the blade count is `⌊2p/d⌋` whenever `p·π_f/d` is not within that margin
  of a quarter-turn boundary.
-/
import GeonumModel.Lemmas.FloatDivF

set_option linter.unusedSectionVars false
set_option linter.unusedVariables false

namespace GeonumModel
open FloatLike FloatSpec
variable {F : Type} [FloatSpec F]
namespace Angle

/-- general path, non-negative numerator, positive divisor -/
theorem newGeneral_total_float {p d : F} (hp : Fin p) (hd : Fin d) (hpb : |val p| ≤ 10 ^ 200)
    (hdl : 1 / 10 ^ 200 ≤ |val d|) (hq : |val p * piV F / val d| ≤ 2 ^ 42) (hp0 : 0 ≤ val p) (hd0 : 0 < val d) :
    (newGeneral p d).Inv ∧
    |Tq (newGeneral p d) - val p * piV F / val d| < val (e10 : F) + val p * piV F / val d * (8 / 2 ^ 53) + 1 / 2 ^ 1070 := by
  have hp3 := piV_gt3 (F := F)
  have hX0 : 0 ≤ val p * piV F / val d := div_nonneg (mul_nonneg hp0 (by linarith)) (le_of_lt hd0)
  have hacc := rawTotal_accuracy hp hd hpb hdl hq
  rw [abs_of_nonneg hX0] at hacc
  have hraw0 := newRawTotal_nonneg hp hd hpb hdl hq hp0 hd0
  obtain ⟨hfraw, _⟩ := newRawTotal_spec hp hd hpb hdl hq
  have hnt : newTotal p d = newRawTotal p d := by
    unfold newTotal
    simp only
    have : flt (newRawTotal p d) (zero : F) = false := by
      rw [Bool.eq_false_iff]; intro h
      have := (flt_spec hfraw fin_zero).mp h
      rw [val_zero] at this; linarith
    rw [this]; simp
  obtain ⟨hf, h0, h1⟩ := newTotal_spec hp hd hpb hdl hq
  have hcore := newCore_spec (newTotal p d) hf h0 h1
  dsimp only at hcore
  have hr : newGeneral p d = normalizeBoundaries ⟨fmod (newTotal p d) qp,
      toUsize (FloatLike.round (fdiv (fsub (newTotal p d) (fmod (newTotal p d) qp)) qp))⟩ := rfl
  rw [← hr] at hcore
  refine ⟨hcore.1, ?_⟩
  have he := val_e10_pos (F := F)
  rw [hnt] at hcore
  rw [abs_le] at hacc
  unfold Tq
  rcases hcore.2 with ⟨_, hdec⟩ | ⟨_, hrem, hsnap⟩
  · rw [hdec, abs_lt]; constructor <;> linarith [hacc.1, hacc.2]
  · rw [hrem, add_zero]
    rw [abs_lt] at hsnap ⊢
    constructor <;> linarith [hacc.1, hacc.2, hsnap.1, hsnap.2]

/-- **`Angle::new(p, d)`, `p ≥ 0`, `d > 0`, either path**: canonical, and its float total `blade·(π_f/2) + rem` is `p·π_f/d` to
    within the `1e-10` snap plus `8·2⁻⁵³` relative (`+ 2⁻¹⁰⁷⁰`) -/
theorem new_total_float {p d : F} (hp : Fin p) (hd : Fin d) (hpb : |val p| ≤ 10 ^ 200)
    (hdl : 1 / 10 ^ 200 ≤ |val d|) (hq : |val p * piV F / val d| ≤ 2 ^ 42) (hp0 : 0 ≤ val p) (hd0 : 0 < val d) :
    (Angle.new p d).Inv ∧
    |Tq (Angle.new p d) - val p * piV F / val d| < val (e10 : F) + val p * piV F / val d * (8 / 2 ^ 53) + 1 / 2 ^ 1070 := by
  have hp3 := piV_gt3 (F := F)
  have hX0 : 0 ≤ val p * piV F / val d := div_nonneg (mul_nonneg hp0 (by linarith)) (le_of_lt hd0)
  by_cases hfast : (feq d two && feq (FloatLike.fract p) zero) = true
  · -- exact quarter turns: `d = 2`, `p` a non-negative integer
    rw [Bool.and_eq_true] at hfast
    have hd2 : val d = 2 := by
      have := (feq_spec hd fin_two).mp hfast.1; rwa [val_two] at this
    have hnl : flt p (zero : F) = false := by
      rw [Bool.eq_false_iff]; intro h
      have := (flt_spec hp fin_zero).mp h; rw [val_zero] at this; linarith
    obtain ⟨hff, hfz⟩ := fract_spec hp
    obtain ⟨n, hn⟩ := hfz.mp (by
      have := (feq_spec hff fin_zero).mp hfast.2; rwa [val_zero] at this)
    have hn0 : (0:ℤ) ≤ n := by
      have : (0:ℝ) ≤ (n:ℝ) := by rw [← hn]; exact hp0
      exact_mod_cast this
    have hplt : val p < 2 ^ 64 := by
      have : val p * piV F / val d ≤ 2 ^ 42 := by rw [abs_of_nonneg hX0] at hq; exact hq
      rw [hd2] at this
      have h2 : val p * 3 / 2 ≤ val p * piV F / 2 := by
        apply div_le_div_of_nonneg_right _ (by norm_num)
        exact mul_le_mul_of_nonneg_left (by linarith) hp0
      have : (2:ℝ) ^ 42 * 2 / 3 < 2 ^ 64 := by norm_num
      linarith
    have hus : toUsize p = n.toNat := by
      rw [toUsize_spec hp hp0 hplt, hn, ← Int.floor_toNat, Int.floor_intCast]
    have hres : Angle.new p d = ⟨zero, n.toNat⟩ := by
      unfold Angle.new newFast
      simp [hfast.1, hfast.2, hnl, hus]
    rw [hres]
    refine ⟨inv_zero _, ?_⟩
    have hcast : ((n.toNat : ℕ) : ℝ) = val p := by
      rw [hn]
      have : ((n.toNat : ℕ) : ℤ) = n := Int.toNat_of_nonneg hn0
      exact_mod_cast this
    have hTq : Tq (⟨zero, n.toNat⟩ : Angle F) = val p * piV F / val d := by
      unfold Tq; simp only
      rw [hcast, val_zero, val_qp, hd2]; ring
    rw [hTq, sub_self, abs_zero]
    have he := val_e10_pos (F := F)
    have : 0 ≤ val p * piV F / val d * (8 / 2 ^ 53) := mul_nonneg hX0 (by positivity)
    have : (0:ℝ) < 1 / 2 ^ 1070 := by positivity
    linarith
  · have hgen : Angle.new p d = newGeneral p d := by
      unfold Angle.new; rw [if_neg hfast]
    rw [hgen]
    exact newGeneral_total_float hp hd hpb hdl hq hp0 hd0

/-- **the blade count is `n` whenever `p·π_f/d` lies in the `n`-th quarter turn, clear of both ends by the margin**
    `1e-10 + (p·π_f/d)·8·2⁻⁵³ + 2⁻¹⁰⁷⁰` — i.e. `blade = ⌊2p/d⌋` except within the stated tolerance of a boundary, where the
    neighbouring count with the matching remainder is returned (`new_total_float` still bounds the total there) -/
theorem new_blade_float {p d : F} (hp : Fin p) (hd : Fin d) (hpb : |val p| ≤ 10 ^ 200)
    (hdl : 1 / 10 ^ 200 ≤ |val d|) (hq : |val p * piV F / val d| ≤ 2 ^ 42) (hp0 : 0 ≤ val p) (hd0 : 0 < val d) (n : ℕ)
    (hlo : (n : ℝ) * val (qp : F) + (val (e10 : F) + val p * piV F / val d * (8 / 2 ^ 53) + 1 / 2 ^ 1070) ≤ val p * piV F / val d)
    (hhi : val p * piV F / val d + (val (e10 : F) + val p * piV F / val d * (8 / 2 ^ 53) + 1 / 2 ^ 1070) ≤ ((n : ℝ) + 1) * val (qp : F)) :
    (Angle.new p d).blade = n := by
  obtain ⟨hinv, htq⟩ := new_total_float hp hd hpb hdl hq hp0 hd0
  obtain ⟨_, hr0, hr1⟩ := hinv
  have hqp := val_qp_gt (F := F)
  have hqpos : (0:ℝ) < val (qp : F) := by linarith
  have he := val_e10_pos (F := F)
  rw [abs_lt] at htq
  unfold Tq at htq
  set b := (Angle.new p d).blade with hb
  -- b·qp ≤ Tq < (n+1)·qp  and  n·qp < Tq < (b+1)·qp
  have h1 : (b : ℝ) * val (qp : F) < ((n : ℝ) + 1) * val (qp : F) := by linarith [htq.2]
  have h2 : (n : ℝ) * val (qp : F) < ((b : ℝ) + 1) * val (qp : F) := by
    have : (b : ℝ) * val (qp : F) + val (Angle.new p d).rem < ((b : ℝ) + 1) * val (qp : F) := by
      rw [add_mul, one_mul]; linarith
    linarith [htq.1]
  have h1' : (b : ℝ) < (n : ℝ) + 1 := lt_of_mul_lt_mul_right h1 (le_of_lt hqpos)
  have h2' : (n : ℝ) < (b : ℝ) + 1 := lt_of_mul_lt_mul_right h2 (le_of_lt hqpos)
  have h1n : b < n + 1 := by exact_mod_cast h1'
  have h2n : n < b + 1 := by exact_mod_cast h2'
  omega

end Angle
end GeonumModel
