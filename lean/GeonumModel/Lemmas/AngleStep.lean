/-
  GeonumModel.Lemmas.AngleStep — adding a whole number of quarter turns: the blade-step operators (S-tier).
-/
import GeonumModel.Lemmas.AngleNew

set_option linter.unusedSectionVars false
set_option linter.unusedVariables false

namespace GeonumModel
open FloatLike FloatSpec
variable {F : Type} [FloatSpec F]
namespace Angle

/-- adding an angle whose remainder has value 0 adds exactly its blade count and leaves the remainder's value untouched -/
theorem add_whole {a z : Angle F} (ha : a.Inv) (hzf : Fin z.rem) (hz0 : val z.rem = 0) :
    (a.geometricAdd z).blade = a.blade + z.blade ∧ Fin (a.geometricAdd z).rem ∧
      val (a.geometricAdd z).rem = val a.rem := by
  obtain ⟨har, ha0, ha1⟩ := ha
  have he := val_e10_pos (F := F)
  obtain ⟨hfs, hvs⟩ := fadd_spec har hzf (by rw [hz0, add_zero]; exact inRange_val har)
  rw [hz0, add_zero, rnd_val har] at hvs
  unfold geometricAdd
  simp only
  by_cases hz : feq (fadd a.rem z.rem) (zero : F) = true
  · rw [if_pos hz]
    have := (feq_spec hfs fin_zero).mp hz
    rw [val_zero, hvs] at this
    exact ⟨rfl, fin_zero, by rw [val_zero, this]⟩
  · rw [if_neg hz]
    have hq := val_qp_gt (F := F)
    have h15 : ¬ flt (fabs (fsub (fadd a.rem z.rem) qp)) (e15 : F) = true := by
      intro h
      have := near_of_test hfs fin_qp fin_e15
        (inRange_sub_qp hfs (by rw [hvs]; exact ha0) (by rw [hvs]; linarith [val_qp_lt (F := F)])) h
      rw [hvs, abs_lt] at this
      have := val_e15_lt_e10 (F := F)
      linarith
    rw [if_neg h15]
    obtain ⟨hinv, hcase⟩ := normalizeBoundaries_spec (fadd a.rem z.rem) (a.blade + z.blade) hfs
      (by rw [hvs]; exact ha0) (by rw [hvs]; linarith)
    rcases hcase with ⟨h, _⟩ | ⟨h, hnear⟩ | ⟨_, _, hbig⟩
    · rw [h]; exact ⟨rfl, hfs, hvs⟩
    · exfalso; rw [hvs, abs_lt] at hnear; linarith
    · exfalso; rw [hvs] at hbig; linarith

/-- same, from the left: a whole number of quarter turns plus an invariant-satisfying angle -/
theorem whole_add {a z : Angle F} (ha : a.Inv) (hzf : Fin z.rem) (hz0 : val z.rem = 0) :
    (z.geometricAdd a).blade = z.blade + a.blade ∧ Fin (z.geometricAdd a).rem ∧
      val (z.geometricAdd a).rem = val a.rem := by
  have hc : z.geometricAdd a = a.geometricAdd z := by
    unfold geometricAdd
    simp only [fadd_comm hzf ha.1, Nat.add_comm z.blade a.blade]
  rw [hc, Nat.add_comm z.blade a.blade]
  exact add_whole ha hzf hz0

theorem add_whole_inv {a z : Angle F} (ha : a.Inv) (hzf : Fin z.rem) (hz0 : val z.rem = 0) :
    (a.geometricAdd z).Inv := by
  obtain ⟨_, hf, hv⟩ := add_whole ha hzf hz0
  exact ⟨hf, by rw [hv]; exact ha.2.1, by rw [hv]; exact ha.2.2⟩

/-- `Angle::new_with_blade(k, 0.0, 1.0)` is literally `Angle { rem: 0.0, blade: k }` -/
theorem newWithBlade_zero (k : ℕ) (hk : k < 2 ^ 53) :
    Angle.newWithBlade k (zero : F) one = ⟨zero, k⟩ := by
  obtain ⟨hb, hf, _, hv⟩ := new_zero_one (F := F)
  simp only at hb hv
  rw [val_zero] at hv
  unfold newWithBlade
  simp only [add, addVV]
  rw [new_nat k hk]
  obtain ⟨hfs, hvs⟩ := fadd_spec hf (fin_zero (F := F)) (by
    rw [hv, val_zero, add_zero]; exact inRange_small (by rw [abs_zero]; positivity))
  rw [hv, val_zero, add_zero, rnd_zero] at hvs
  have hz : feq (fadd (Angle.new (zero : F) one).rem zero) (zero : F) = true := by
    rw [feq_spec hfs fin_zero, hvs, val_zero]
  unfold geometricAdd
  simp only [hz, if_true, hb, Nat.zero_add]

/-- `dual` adds exactly two blades and leaves the remainder's value untouched -/
theorem dual_spec {a : Angle F} (ha : a.Inv) :
    a.dual.blade = a.blade + 2 ∧ Fin a.dual.rem ∧ val a.dual.rem = val a.rem := by
  unfold dual; simp only [add, addVV]
  rw [newWithBlade_zero 2 (by norm_num)]
  exact add_whole ha fin_zero val_zero

theorem undual_spec {a : Angle F} (ha : a.Inv) :
    a.undual.blade = a.blade + 2 ∧ Fin a.undual.rem ∧ val a.undual.rem = val a.rem := dual_spec ha

/-- `negate` adds exactly two blades and leaves the remainder's value untouched -/
theorem negate_spec {a : Angle F} (ha : a.Inv) :
    a.negate.blade = a.blade + 2 ∧ Fin a.negate.rem ∧ val a.negate.rem = val a.rem := by
  obtain ⟨hb, hf, _, hv⟩ := new_one_one (F := F)
  simp only at hb hv
  rw [val_zero] at hv
  unfold negate; simp only [add, addVV]
  have := add_whole ha hf hv
  rwa [hb] at this

theorem conjugate_spec {a : Angle F} (ha : a.Inv) :
    a.conjugate.blade = a.blade + 2 ∧ Fin a.conjugate.rem ∧ val a.conjugate.rem = val a.rem :=
  negate_spec ha

/-- adding the literal `k` quarter turns (`Angle::new(k as f64, 2.0)`) -/
theorem add_quarters {a : Angle F} (ha : a.Inv) (k : ℕ) (hk : k < 2 ^ 53) :
    (a.geometricAdd (Angle.new (FloatLike.ofNat k : F) two)).blade = a.blade + k ∧
    Fin (a.geometricAdd (Angle.new (FloatLike.ofNat k : F) two)).rem ∧
    val (a.geometricAdd (Angle.new (FloatLike.ofNat k : F) two)).rem = val a.rem := by
  rw [new_nat k hk]
  exact add_whole ha fin_zero val_zero

theorem inv_of_spec {a r : Angle F} (ha : a.Inv) (h : Fin r.rem ∧ val r.rem = val a.rem) : r.Inv :=
  ⟨h.1, by rw [h.2]; exact ha.2.1, by rw [h.2]; exact ha.2.2⟩

theorem baseAngle_inv {a : Angle F} (ha : a.Inv) : a.baseAngle.Inv := ha

end Angle
end GeonumModel

namespace GeonumModel
open FloatLike FloatSpec
variable {F : Type} [FloatSpec F]
namespace Angle

theorem rep_int {z : ℤ} (h : |z| < 2 ^ 53) : Rep (F := F) (z : ℝ) := by
  rcases le_total 0 z with hz | hz
  · have : (z.toNat : ℤ) = z := Int.toNat_of_nonneg hz
    have hlt : z.toNat < 2 ^ 53 := by
      have : (z.toNat : ℤ) < 2 ^ 53 := by rw [this]; rwa [abs_of_nonneg hz] at h
      exact_mod_cast this
    have := rep_nat (F := F) hlt
    have e : ((z.toNat : ℕ) : ℝ) = (z : ℝ) := by exact_mod_cast congrArg (Int.cast (R := ℝ)) ‹(z.toNat : ℤ) = z›
    rwa [e] at this
  · have hn : 0 ≤ -z := by omega
    have : ((-z).toNat : ℤ) = -z := Int.toNat_of_nonneg hn
    have hlt : (-z).toNat < 2 ^ 53 := by
      have : ((-z).toNat : ℤ) < 2 ^ 53 := by rw [this]; rw [abs_of_nonpos hz] at h; exact h
      exact_mod_cast this
    have h1 := rep_neg (F := F) (rep_nat (F := F) hlt)
    have e : -(((-z).toNat : ℕ) : ℝ) = (z : ℝ) := by
      have : (((-z).toNat : ℤ) : ℝ) = ((-z : ℤ) : ℝ) := by rw [‹((-z).toNat : ℤ) = -z›]
      push_cast at this ⊢; linarith
    rwa [e] at h1

/-- `Angle::new(i as f64, 2.0)` for a NEGATIVE integer `i`: the fast path lands on blade `i + 4·⌈(−i+3)/4⌉ ∈ {3,4,5,6}`,
    congruent to `i` modulo 4, remainder literally `0.0` -/
theorem new_negInt_two (i : ℤ) (hneg : i < 0) (hbig : |i| < 2 ^ 50) :
    ∃ k : ℕ, Angle.new (FloatLike.ofInt i : F) two = ⟨zero, k⟩ ∧ (k : ℤ) = i + 4 * ((-i + 3 + 3) / 4) ∧
      3 ≤ k ∧ k ≤ 6 ∧ (k : ℤ) % 4 = i % 4 := by
  have h53 : |i| < 2 ^ 53 := lt_trans hbig (by norm_num)
  obtain ⟨hfi, hvi⟩ := ofInt_spec (F := F) (i := i) h53
  obtain ⟨hff, hfz⟩ := fract_spec hfi
  have hfr : feq (FloatLike.fract (FloatLike.ofInt i : F)) zero = true := by
    rw [feq_spec hff fin_zero, val_zero, hfz]; exact ⟨i, hvi⟩
  have hl : flt (FloatLike.ofInt i : F) zero = true := by
    rw [flt_spec hfi fin_zero, hvi, val_zero]; exact_mod_cast hneg
  have hir : (i : ℝ) < 0 := by exact_mod_cast hneg
  have hile : (i : ℝ) ≤ -1 := by exact_mod_cast (by omega : i ≤ -1)
  have hiabs : |(i : ℝ)| < 2 ^ 50 := by exact_mod_cast hbig
  rw [abs_of_neg hir] at hiabs
  -- −p + 3
  obtain ⟨hfn, hvn⟩ := fneg_spec hfi
  rw [hvi] at hvn
  have hr3 : Rep (F := F) (((-i + 3 : ℤ)) : ℝ) := rep_int (by
    rw [abs_of_nonneg (by omega)]; have : -i < 2 ^ 50 := by rw [abs_of_neg hneg] at hbig; exact hbig
    omega)
  obtain ⟨hfa, hva⟩ := fadd_spec hfn (fin_three (F := F)) (by
    rw [hvn, val_three]; apply inRange_of_abs_le_2p60
    rw [abs_of_nonneg (by linarith)]
    have : (2:ℝ) ^ 50 + 3 ≤ 2 ^ 60 := by norm_num
    linarith)
  rw [hvn, val_three] at hva
  have e3 : -(i : ℝ) + 3 = ((-i + 3 : ℤ) : ℝ) := by push_cast; ring
  rw [e3, rnd_rep hr3] at hva
  -- /4 : exact (a quarter-integer)
  have hq4 : Rep (F := F) (((-i + 3 : ℤ) : ℝ) / 4) := by
    have h := rep_scale (F := F) (x := ((-i + 3 : ℤ) : ℝ)) (-2) hr3
    have e : ((-i + 3 : ℤ) : ℝ) * (2:ℝ) ^ (-2 : ℤ) = ((-i + 3 : ℤ) : ℝ) / 4 := by
      rw [zpow_neg]; norm_num; ring
    rw [e] at h
    have hpos : (4:ℝ) ≤ ((-i + 3 : ℤ) : ℝ) := by push_cast; linarith
    have habs : |((-i + 3 : ℤ) : ℝ) / 4| = ((-i + 3 : ℤ) : ℝ) / 4 := abs_of_nonneg (by linarith)
    apply h
    · rw [habs]; have := inv_two_pow_1000_small; generalize (1:ℝ) / 2 ^ 1000 = t at *; linarith
    · rw [habs]
      have : ((-i + 3 : ℤ) : ℝ) / 4 ≤ 2 ^ 50 := by push_cast; linarith
      have : (2:ℝ) ^ 50 ≤ 2 ^ 1000 := pow_le_pow_right₀ (by norm_num) (by norm_num)
      generalize (2:ℝ) ^ 1000 = t at *; linarith
  obtain ⟨hfd, hvd⟩ := fdiv_spec hfa (fin_four (F := F)) (by rw [val_four]; norm_num) (by
    rw [hva, val_four]; apply inRange_of_abs_le_2p60
    rw [abs_of_nonneg (by push_cast; linarith)]
    have : (2:ℝ) ^ 50 + 3 ≤ 2 ^ 60 := by norm_num
    push_cast; linarith)
  rw [hva, val_four, rnd_rep hq4] at hvd
  -- ceil
  obtain ⟨hfc, hvc⟩ := ceil_spec hfd
  rw [hvd] at hvc
  set j : ℤ := ⌈((-i + 3 : ℤ) : ℝ) / 4⌉ with hj
  have hjeq : j = (-i + 3 + 3) / 4 := by
    rw [hj]
    have : ((-i + 3 : ℤ) : ℝ) / 4 = (((-i + 3 : ℤ)) : ℚ) / ((4 : ℤ) : ℚ) := by push_cast; ring
    rw [Int.ceil_eq_iff]
    have hd : ((-i + 3 + 3) / 4 : ℤ) * 4 ≤ -i + 3 + 3 ∧ -i + 3 + 3 < ((-i + 3 + 3) / 4 + 1) * 4 := by omega
    constructor
    · have : (((-i + 3 + 3) / 4 : ℤ) : ℝ) * 4 < ((-i + 3 : ℤ) : ℝ) + 4 := by
        have := hd.1; have h2 : (((-i + 3 + 3) / 4 : ℤ) : ℝ) * 4 ≤ ((-i + 3 + 3 : ℤ) : ℝ) := by exact_mod_cast this
        push_cast at h2 ⊢; linarith
      push_cast at this ⊢; linarith
    · have : ((-i + 3 : ℤ) : ℝ) ≤ (((-i + 3 + 3) / 4 : ℤ) : ℝ) * 4 := by
        have h3 : -i + 3 ≤ ((-i + 3 + 3) / 4) * 4 := by omega
        exact_mod_cast h3
      push_cast at this ⊢; linarith
  have hj0 : 1 ≤ j := by rw [hjeq]; omega
  have hjb : j ≤ 2 ^ 49 := by rw [hjeq]; rw [abs_of_neg hneg] at hbig; omega
  -- ×4
  have hr4j : Rep (F := F) ((j : ℝ) * 4) := by
    have := rep_int (F := F) (z := j * 4) (by rw [abs_of_nonneg (by omega)]; omega)
    push_cast at this; exact this
  obtain ⟨hfm, hvm⟩ := fmul_spec hfc (fin_four (F := F)) (by
    rw [hvc, val_four]; apply inRange_of_abs_le_2p60
    have : (j : ℝ) ≤ 2 ^ 49 := by exact_mod_cast hjb
    have : (0:ℝ) ≤ j := by exact_mod_cast (by omega : (0:ℤ) ≤ j)
    rw [abs_of_nonneg (by positivity)]
    have : (2:ℝ) ^ 49 * 4 ≤ 2 ^ 60 := by norm_num
    nlinarith)
  rw [hvc, val_four, rnd_rep hr4j] at hvm
  -- p + full
  have hsumz : 0 ≤ i + j * 4 := by rw [hjeq]; omega
  have hrs : Rep (F := F) (((i + j * 4 : ℤ)) : ℝ) := rep_int (by
    rw [abs_of_nonneg hsumz]; rw [hjeq]; rw [abs_of_neg hneg] at hbig; omega)
  obtain ⟨hfs, hvs⟩ := fadd_spec hfi hfm (by
    rw [hvi, hvm]; apply inRange_of_abs_le_2p60
    have h1 : ((i + j * 4 : ℤ) : ℝ) = (i : ℝ) + (j : ℝ) * 4 := by push_cast; ring
    rw [← h1, abs_of_nonneg (by exact_mod_cast hsumz)]
    have : i + j * 4 ≤ 6 := by rw [hjeq]; omega
    have : ((i + j * 4 : ℤ) : ℝ) ≤ 6 := by exact_mod_cast this
    have : (6:ℝ) ≤ 2 ^ 60 := by norm_num
    linarith)
  rw [hvi, hvm] at hvs
  have e5 : (i : ℝ) + (j : ℝ) * 4 = ((i + j * 4 : ℤ) : ℝ) := by push_cast; ring
  rw [e5, rnd_rep hrs] at hvs
  have hle6 : i + j * 4 ≤ 6 := by rw [hjeq]; omega
  have hge3 : 3 ≤ i + j * 4 := by rw [hjeq]; omega
  have hus : toUsize (fadd (FloatLike.ofInt i : F) (fmul (FloatLike.ceil (fdiv (fadd (fneg (FloatLike.ofInt i : F)) three) four)) four))
      = (i + j * 4).toNat := by
    rw [toUsize_spec hfs (by rw [hvs]; exact_mod_cast hsumz) (by
      rw [hvs]; have : ((i + j * 4 : ℤ) : ℝ) ≤ 6 := by exact_mod_cast hle6
      have : (6:ℝ) < 2 ^ 64 := by norm_num
      linarith), hvs, ← Int.floor_toNat, Int.floor_intCast]
  refine ⟨(i + j * 4).toNat, ?_, ?_, ?_, ?_, ?_⟩
  · unfold Angle.new newFast
    simp [feq_two_two, hfr, hl, hus]
  · rw [Int.toNat_of_nonneg hsumz, hjeq]; ring
  · have : (3:ℤ) ≤ ((i + j * 4).toNat : ℤ) := by rw [Int.toNat_of_nonneg hsumz]; exact hge3
    exact_mod_cast this
  · have : ((i + j * 4).toNat : ℤ) ≤ 6 := by rw [Int.toNat_of_nonneg hsumz]; exact hle6
    exact_mod_cast this
  · rw [Int.toNat_of_nonneg hsumz]; omega

/-- `Angle::new(i as f64, 2.0)` for a non-negative integer -/
theorem new_nonnegInt_two (i : ℤ) (h0 : 0 ≤ i) (hbig : |i| < 2 ^ 50) :
    Angle.new (FloatLike.ofInt i : F) two = ⟨zero, i.toNat⟩ := by
  have h53 : |i| < 2 ^ 53 := lt_trans hbig (by norm_num)
  obtain ⟨hfi, hvi⟩ := ofInt_spec (F := F) (i := i) h53
  obtain ⟨hff, hfz⟩ := fract_spec hfi
  have hfr : feq (FloatLike.fract (FloatLike.ofInt i : F)) zero = true := by
    rw [feq_spec hff fin_zero, val_zero, hfz]; exact ⟨i, hvi⟩
  have hnl : flt (FloatLike.ofInt i : F) zero = false := by
    rw [Bool.eq_false_iff]; intro h
    rw [flt_spec hfi fin_zero, hvi, val_zero] at h
    have : (0:ℝ) ≤ i := by exact_mod_cast h0
    linarith
  have hus : toUsize (FloatLike.ofInt i : F) = i.toNat := by
    rw [toUsize_spec hfi (by rw [hvi]; exact_mod_cast h0) (by
      rw [hvi]; have : (i:ℝ) < 2 ^ 50 := by rw [abs_of_nonneg h0] at hbig; exact_mod_cast hbig
      have : (2:ℝ) ^ 50 < 2 ^ 64 := by norm_num
      linarith), hvi, ← Int.floor_toNat, Int.floor_intCast]
  unfold Angle.new newFast
  simp [feq_two_two, hfr, hnl, hus]

end Angle
end GeonumModel
