/-
  GeonumModel.Lemmas.AngleStep — adding a whole number of quarter turns: the blade-step operators (S-tier).
-/
import GeonumModel.Lemmas.AngleNew

set_option linter.unusedSectionVars false
set_option linter.unusedVariables false

namespace GeonumModel
open FloatLike FloatSpec
variable {F : Type} [FloatSpec F]
namespace Angle

/-- adding an angle whose remainder has value 0 adds exactly its blade count and leaves the remainder's value untouched -/
theorem add_whole {a z : Angle F} (ha : a.Inv) (hzf : Fin z.rem) (hz0 : val z.rem = 0) :
    (a.geometricAdd z).blade = a.blade + z.blade ∧ Fin (a.geometricAdd z).rem ∧
      val (a.geometricAdd z).rem = val a.rem := by
  obtain ⟨har, ha0, ha1⟩ := ha
  have he := val_e10_pos (F := F)
  obtain ⟨hfs, hvs⟩ := fadd_spec har hzf (by rw [hz0, add_zero]; exact inRange_val har)
  rw [hz0, add_zero, rnd_val har] at hvs
  unfold geometricAdd
  simp only
  by_cases hz : feq (fadd a.rem z.rem) (zero : F) = true
  · rw [if_pos hz]
    have := (feq_spec hfs fin_zero).mp hz
    rw [val_zero, hvs] at this
    exact ⟨rfl, fin_zero, by rw [val_zero, this]⟩
  · rw [if_neg hz]
    have hq := val_qp_gt (F := F)
    have h15 : ¬ flt (fabs (fsub (fadd a.rem z.rem) qp)) (e15 : F) = true := by
      intro h
      have := near_of_test hfs fin_qp fin_e15
        (inRange_sub_qp hfs (by rw [hvs]; exact ha0) (by rw [hvs]; linarith [val_qp_lt (F := F)])) h
      rw [hvs, abs_lt] at this
      have := val_e15_lt_e10 (F := F)
      linarith
    rw [if_neg h15]
    obtain ⟨hinv, hcase⟩ := normalizeBoundaries_spec (fadd a.rem z.rem) (a.blade + z.blade) hfs
      (by rw [hvs]; exact ha0) (by rw [hvs]; linarith)
    rcases hcase with ⟨h, _⟩ | ⟨h, hnear⟩ | ⟨_, _, hbig⟩
    · rw [h]; exact ⟨rfl, hfs, hvs⟩
    · exfalso; rw [hvs, abs_lt] at hnear; linarith
    · exfalso; rw [hvs] at hbig; linarith

/-- same, from the left: a whole number of quarter turns plus an invariant-satisfying angle -/
theorem whole_add {a z : Angle F} (ha : a.Inv) (hzf : Fin z.rem) (hz0 : val z.rem = 0) :
    (z.geometricAdd a).blade = z.blade + a.blade ∧ Fin (z.geometricAdd a).rem ∧
      val (z.geometricAdd a).rem = val a.rem := by
  have hc : z.geometricAdd a = a.geometricAdd z := by
    unfold geometricAdd
    simp only [fadd_comm hzf ha.1, Nat.add_comm z.blade a.blade]
  rw [hc, Nat.add_comm z.blade a.blade]
  exact add_whole ha hzf hz0

theorem add_whole_inv {a z : Angle F} (ha : a.Inv) (hzf : Fin z.rem) (hz0 : val z.rem = 0) :
    (a.geometricAdd z).Inv := by
  obtain ⟨_, hf, hv⟩ := add_whole ha hzf hz0
  exact ⟨hf, by rw [hv]; exact ha.2.1, by rw [hv]; exact ha.2.2⟩

/-- `Angle::new_with_blade(k, 0.0, 1.0)` is literally `Angle { rem: 0.0, blade: k }` -/
theorem newWithBlade_zero (k : ℕ) (hk : k < 2 ^ 53) :
    Angle.newWithBlade k (zero : F) one = ⟨zero, k⟩ := by
  obtain ⟨hb, hf, _, hv⟩ := new_zero_one (F := F)
  simp only at hb hv
  rw [val_zero] at hv
  unfold newWithBlade
  simp only [add, addVV]
  rw [new_nat k hk]
  obtain ⟨hfs, hvs⟩ := fadd_spec hf (fin_zero (F := F)) (by
    rw [hv, val_zero, add_zero]; exact inRange_small (by rw [abs_zero]; positivity))
  rw [hv, val_zero, add_zero, rnd_zero] at hvs
  have hz : feq (fadd (Angle.new (zero : F) one).rem zero) (zero : F) = true := by
    rw [feq_spec hfs fin_zero, hvs, val_zero]
  unfold geometricAdd
  simp only [hz, if_true, hb, Nat.zero_add]

/-- `dual` adds exactly two blades and leaves the remainder's value untouched -/
theorem dual_spec {a : Angle F} (ha : a.Inv) :
    a.dual.blade = a.blade + 2 ∧ Fin a.dual.rem ∧ val a.dual.rem = val a.rem := by
  unfold dual; simp only [add, addVV]
  rw [newWithBlade_zero 2 (by norm_num)]
  exact add_whole ha fin_zero val_zero

theorem undual_spec {a : Angle F} (ha : a.Inv) :
    a.undual.blade = a.blade + 2 ∧ Fin a.undual.rem ∧ val a.undual.rem = val a.rem := dual_spec ha

/-- `negate` adds exactly two blades and leaves the remainder's value untouched -/
theorem negate_spec {a : Angle F} (ha : a.Inv) :
    a.negate.blade = a.blade + 2 ∧ Fin a.negate.rem ∧ val a.negate.rem = val a.rem := by
  obtain ⟨hb, hf, _, hv⟩ := new_one_one (F := F)
  simp only at hb hv
  rw [val_zero] at hv
  unfold negate; simp only [add, addVV]
  have := add_whole ha hf hv
  rwa [hb] at this

theorem conjugate_spec {a : Angle F} (ha : a.Inv) :
    a.conjugate.blade = a.blade + 2 ∧ Fin a.conjugate.rem ∧ val a.conjugate.rem = val a.rem :=
  negate_spec ha

/-- adding the literal `k` quarter turns (`Angle::new(k as f64, 2.0)`) -/
theorem add_quarters {a : Angle F} (ha : a.Inv) (k : ℕ) (hk : k < 2 ^ 53) :
    (a.geometricAdd (Angle.new (FloatLike.ofNat k : F) two)).blade = a.blade + k ∧
    Fin (a.geometricAdd (Angle.new (FloatLike.ofNat k : F) two)).rem ∧
    val (a.geometricAdd (Angle.new (FloatLike.ofNat k : F) two)).rem = val a.rem := by
  rw [new_nat k hk]
  exact add_whole ha fin_zero val_zero

theorem inv_of_spec {a r : Angle F} (ha : a.Inv) (h : Fin r.rem ∧ val r.rem = val a.rem) : r.Inv :=
  ⟨h.1, by rw [h.2]; exact ha.2.1, by rw [h.2]; exact ha.2.2⟩

theorem baseAngle_inv {a : Angle F} (ha : a.Inv) : a.baseAngle.Inv := ha

end Angle
end GeonumModel
