/-
  GeonumModel.Lemmas.FloatDivF — B-tier for `Angle / f64` with a positive divisor: the total (in units of the float
  quarter turn) is divided, to within the boundary snap plus a few ulps, through all seven roundings of the computation
  (`blade·qp`, `+ rem`, `/ k`, `· π`, `/ π`, exact `fmod`, snap).
-/
import GeonumModel.Lemmas.AngleNewTotal
import GeonumModel.Lemmas.RawTotal
import GeonumModel.Lemmas.GeonumMag

set_option linter.unusedSectionVars false
set_option linter.unusedVariables false

namespace GeonumModel
open FloatLike FloatSpec
variable {F : Type} [FloatSpec F]
namespace Angle

/-- total angle in units of the float constant: `blade · (π_f/2) + rem` -/
noncomputable def Tq (a : Angle F) : ℝ := (a.blade : ℝ) * val (qp : F) + val a.rem

/-- the raw total of the constructor is non-negative for a non-negative numerator and a positive divisor -/
theorem newRawTotal_nonneg {p d : F} (hp : Fin p) (hd : Fin d) (hpb : |val p| ≤ 10 ^ 200)
    (hdl : 1 / 10 ^ 200 ≤ |val d|) (hq : |val p * piV F / val d| ≤ 2 ^ 42) (hp0 : 0 ≤ val p) (hd0 : 0 < val d) :
    0 ≤ val (newRawTotal p d) := by
  have hpi3 := piV_gt3 (F := F); have hpi4 := piV_lt4 (F := F)
  obtain ⟨hf1, hv1, hx1d⟩ := scaled_spec hp hd hpb hdl hq
  have hx1 : 0 ≤ val (fmul p (FloatLike.pi : F)) := by
    rw [hv1]; exact rnd_nonneg (mul_nonneg hp0 (by linarith))
  unfold newRawTotal
  simp only
  by_cases hnorm : FloatLike.isNormal (fmul p (FloatLike.pi : F)) = true
  · rw [if_pos hnorm]
    obtain ⟨_, hv2⟩ := fdiv_spec hf1 hd (ne_of_gt hd0) (by
      apply inRange_of_abs_le_2p60
      have : (2:ℝ) ^ 42 + 2 ≤ 2 ^ 60 := by norm_num
      linarith)
    rw [hv2]; exact rnd_nonneg (div_nonneg hx1 (le_of_lt hd0))
  · rw [if_neg hnorm]
    have hpd : |val p / val d| ≤ 2 ^ 42 := by
      have e : val p * piV F / val d = (val p / val d) * piV F := by ring
      rw [e, abs_mul, abs_of_pos (by linarith : (0:ℝ) < piV F)] at hq
      nlinarith [abs_nonneg (val p / val d)]
    obtain ⟨hf3, hv3⟩ := fdiv_spec hp hd (ne_of_gt hd0) (by
      apply inRange_of_abs_le_2p60
      have : (2:ℝ) ^ 42 ≤ 2 ^ 60 := by norm_num
      linarith)
    have hy0 : 0 ≤ val (fdiv p d) := by rw [hv3]; exact rnd_nonneg (div_nonneg hp0 (le_of_lt hd0))
    have hy1 : val (fdiv p d) ≤ 2 ^ 43 := by
      rw [hv3]
      -- a cruder bound is enough
      have := rnd_close (F := F) (val p / val d)
      rw [abs_le] at this hpd
      have h53 : |val p / val d| / 2 ^ 53 ≤ 1 := by
        rw [div_le_one (by positivity)]
        calc |val p / val d| ≤ 2 ^ 42 := by rw [abs_le]; exact hpd
          _ ≤ 2 ^ 53 := by norm_num
      have : (1:ℝ) / 10 ^ 30 ≤ 1 := by rw [div_le_one (by positivity)]; norm_num
      have : (2:ℝ) ^ 42 + 1 + 1 ≤ 2 ^ 43 := by norm_num
      linarith
    obtain ⟨_, hv4⟩ := fmul_spec hf3 (fin_pi (F := F)) (by
      rw [val_pi]; apply inRange_of_abs_le_2p60
      rw [abs_mul, abs_of_nonneg hy0, abs_of_pos (by linarith : (0:ℝ) < piV F)]
      calc val (fdiv p d) * piV F ≤ 2 ^ 43 * 4 := mul_le_mul hy1 (le_of_lt hpi4) (by linarith) (by positivity)
        _ ≤ 2 ^ 60 := by norm_num)
    rw [hv4, val_pi]; exact rnd_nonneg (mul_nonneg hy0 (by linarith))

theorem feq_pi_two : (feq (FloatLike.pi : F) two) = false := by
  rw [Bool.eq_false_iff]; intro h
  have := (feq_spec (fin_pi (F := F)) fin_two).mp h
  rw [val_pi, val_two] at this
  have := piV_gt3 (F := F); linarith

/-- `Angle::new(x, PI)` for a finite `0 ≤ x ≤ 2^41`: the result's float total is the constructor's raw total up to the snap -/
theorem new_radians_total {x : F} (hx : Fin x) (hx0 : 0 ≤ val x) (hb : val x ≤ 2 ^ 41) :
    (Angle.new x (FloatLike.pi : F)).Inv ∧
    |Tq (Angle.new x (FloatLike.pi : F)) - val x| < val (e10 : F) + val x * (8 / 2 ^ 53) + 1 / 2 ^ 1070 := by
  have hp3 := piV_gt3 (F := F); have hp4 := piV_lt4 (F := F)
  have hpb : |val x| ≤ 10 ^ 200 := by
    rw [abs_of_nonneg hx0]
    calc val x ≤ 2 ^ 41 := hb
      _ ≤ 10 ^ 41 := by gcongr; norm_num
      _ ≤ 10 ^ 200 := pow_le_pow_right₀ (by norm_num) (by norm_num)
  have hdl : (1:ℝ) / 10 ^ 200 ≤ |val (FloatLike.pi : F)| := by
    rw [val_pi, abs_of_pos (by linarith)]
    calc (1:ℝ) / 10 ^ 200 ≤ 1 := by rw [div_le_one (by positivity)]; exact one_le_pow₀ (by norm_num)
      _ ≤ piV F := by linarith
  have hxx : val x * piV F / val (FloatLike.pi : F) = val x := by
    rw [val_pi, mul_div_assoc, div_self (by linarith : piV F ≠ 0), mul_one]
  have hq : |val x * piV F / val (FloatLike.pi : F)| ≤ 2 ^ 42 := by
    rw [hxx, abs_of_nonneg hx0]
    calc val x ≤ 2 ^ 41 := hb
      _ ≤ 2 ^ 42 := by norm_num
  have hacc := rawTotal_accuracy hx (fin_pi (F := F)) hpb hdl hq
  rw [hxx, abs_of_nonneg hx0] at hacc
  have hraw0 := newRawTotal_nonneg hx (fin_pi (F := F)) hpb hdl hq hx0 (by rw [val_pi]; linarith)
  obtain ⟨hfraw, _⟩ := newRawTotal_spec hx (fin_pi (F := F)) hpb hdl hq
  have hnt : newTotal x (FloatLike.pi : F) = newRawTotal x (FloatLike.pi : F) := by
    unfold newTotal
    simp only
    have : flt (newRawTotal x (FloatLike.pi : F)) (zero : F) = false := by
      rw [Bool.eq_false_iff]; intro h
      have := (flt_spec hfraw fin_zero).mp h
      rw [val_zero] at this; linarith
    rw [this]; simp
  obtain ⟨hf, h0, h1⟩ := newTotal_spec hx (fin_pi (F := F)) hpb hdl hq
  have hcore := newCore_spec (newTotal x (FloatLike.pi : F)) hf h0 h1
  dsimp only at hcore
  have hr : Angle.new x (FloatLike.pi : F) = normalizeBoundaries ⟨fmod (newTotal x (FloatLike.pi : F)) qp,
      toUsize (FloatLike.round (fdiv (fsub (newTotal x (FloatLike.pi : F)) (fmod (newTotal x (FloatLike.pi : F)) qp)) qp))⟩ := by
    unfold Angle.new newGeneral
    simp [feq_pi_two]
  rw [← hr] at hcore
  refine ⟨hcore.1, ?_⟩
  have he := val_e10_pos (F := F)
  rw [hnt] at hcore
  rw [abs_le] at hacc
  unfold Tq
  rcases hcore.2 with ⟨_, hdec⟩ | ⟨_, hrem, hsnap⟩
  · rw [hdec, abs_lt]; constructor <;> linarith [hacc.1, hacc.2]
  · rw [hrem, add_zero]
    rw [abs_lt] at hsnap ⊢
    constructor <;> linarith [hacc.1, hacc.2, hsnap.1, hsnap.2]

/-! real-arithmetic steps of the error analysis, isolated so that each is a small linear-arithmetic problem -/

/-- two consecutive roundings (`blade·qp`, then `+ rem`) lose at most `3ε` relative and `3τ` absolute -/
theorem two_roundings {bq r m1 tot ε τ : ℝ} (hbq : 0 ≤ bq) (hr : 0 ≤ r) (hε0 : 0 < ε) (hε1 : ε ≤ 1) (hτ0 : 0 < τ)
    (h1 : |m1 - bq| ≤ bq * ε + τ) (h2 : |tot - (m1 + r)| ≤ (m1 + r) * ε + τ) :
    |tot - (bq + r)| ≤ (bq + r) * (3 * ε) + 3 * τ := by
  rw [abs_le] at h1 h2 ⊢
  have hm : m1 + r ≤ (bq + r) + ((bq + r) * ε + τ) := by nlinarith [h1.2]
  have hx : (m1 + r) * ε ≤ ((bq + r) + ((bq + r) * ε + τ)) * ε := mul_le_mul_of_nonneg_right hm (le_of_lt hε0)
  have hTε : 0 ≤ (bq + r) * ε := mul_nonneg (by linarith) (le_of_lt hε0)
  have h3 : (bq + r) * ε * ε ≤ (bq + r) * ε := mul_le_of_le_one_right hTε hε1
  have h4 : τ * ε ≤ τ := mul_le_of_le_one_right (le_of_lt hτ0) hε1
  have hbε : bq * ε ≤ (bq + r) * ε := mul_le_mul_of_nonneg_right (by linarith) (le_of_lt hε0)
  have hm' : (bq + r) - ((bq + r) * ε + τ) ≤ m1 + r := by nlinarith [h1.1]
  constructor <;> nlinarith [h1.1, h1.2, h2.1, h2.2]

/-- one more rounding after a division: `x = rnd(y)`, `y` within `3ε`/`3u` of `s` -/
theorem third_rounding {s y x ε τ u : ℝ} (hs : 0 ≤ s) (hy0 : 0 ≤ y) (hε0 : 0 < ε) (hε1 : 3 * ε ≤ 1) (hτ0 : 0 < τ) (hu0 : 0 ≤ u)
    (h1 : |y - s| ≤ s * (3 * ε) + 3 * u) (h2 : |x - y| ≤ y * ε + τ) :
    |x - s| ≤ s * (5 * ε) + (6 * u + τ) := by
  rw [abs_le] at h1 h2 ⊢
  have hy : y ≤ s + (s * (3 * ε) + 3 * u) := by linarith [h1.2]
  have hx : y * ε ≤ (s + (s * (3 * ε) + 3 * u)) * ε := mul_le_mul_of_nonneg_right hy (le_of_lt hε0)
  have hsε : 0 ≤ s * ε := mul_nonneg hs (le_of_lt hε0)
  have h3 : s * ε * (3 * ε) ≤ s * ε := mul_le_of_le_one_right hsε hε1
  have h4 : 3 * u * ε ≤ 3 * u := mul_le_of_le_one_right (by linarith) (by linarith)
  constructor <;> nlinarith [h1.1, h1.2, h2.1, h2.2]

/-- the constructor's share: `T` within `e + x·8ε + w` of `x`, `x` within `5ε`/`v` of `s` -/
theorem final_assembly {s x T e ε v w : ℝ} (hs : 0 ≤ s) (hε0 : 0 < ε) (hε1 : 40 * ε ≤ 1) (hv0 : 0 ≤ v)
    (h1 : |x - s| ≤ s * (5 * ε) + v) (h2 : |T - x| < e + x * (8 * ε) + w) :
    |T - s| < e + s * (16 * ε) + (2 * v + w) := by
  rw [abs_le] at h1; rw [abs_lt] at h2 ⊢
  have hx : x ≤ s + (s * (5 * ε) + v) := by linarith [h1.2]
  have h8 : x * (8 * ε) ≤ (s + (s * (5 * ε) + v)) * (8 * ε) := mul_le_mul_of_nonneg_right hx (by linarith)
  have hsε : 0 ≤ s * ε := mul_nonneg hs (le_of_lt hε0)
  have h3 : s * ε * (40 * ε) ≤ s * ε := mul_le_of_le_one_right hsε hε1
  have h4 : v * (8 * ε) ≤ v := mul_le_of_le_one_right hv0 (by linarith)
  constructor <;> nlinarith [h1.1, h1.2, h2.1, h2.2]

/-- the float total `blade·qp + rem` as `Angle / f64` computes it -/
theorem divF_total {a : Angle F} (ha : a.Inv) (hbl : a.blade ≤ 2 ^ 42) :
    Fin (fadd (fmul (FloatLike.ofNat a.blade : F) qp) a.rem) ∧
    0 ≤ val (fadd (fmul (FloatLike.ofNat a.blade : F) qp) a.rem) ∧
    |val (fadd (fmul (FloatLike.ofNat a.blade : F) qp) a.rem) - Tq a| ≤ Tq a * (3 * (1 / 2 ^ 53)) + 3 * (1 / 2 ^ 1075) := by
  obtain ⟨har, ha0, ha1⟩ := ha
  have hq := val_qp_gt (F := F); have hq' := val_qp_lt (F := F)
  have he := val_e10_pos (F := F)
  have hb53 : a.blade < 2 ^ 53 := lt_of_le_of_lt hbl (by norm_num)
  have hbr : (a.blade : ℝ) ≤ 2 ^ 42 := by exact_mod_cast hbl
  have hbq0 : 0 ≤ (a.blade : ℝ) * val (qp : F) := mul_nonneg (Nat.cast_nonneg _) (by linarith)
  have hbq1 : (a.blade : ℝ) * val (qp : F) ≤ 2 ^ 43 := by
    calc (a.blade : ℝ) * val (qp : F) ≤ 2 ^ 42 * 2 := mul_le_mul hbr (le_of_lt hq') (by linarith) (by positivity)
      _ = 2 ^ 43 := by norm_num
  obtain ⟨hf1, hv1⟩ := fmul_spec (fin_nat (F := F) hb53) (fin_qp (F := F)) (by
    rw [val_nat hb53]; apply inRange_of_abs_le_2p60
    rw [abs_of_nonneg hbq0]; linarith [show (2:ℝ) ^ 43 ≤ 2 ^ 60 by norm_num])
  rw [val_nat hb53] at hv1
  have hm1e := rnd_err (F := F) ((a.blade : ℝ) * val (qp : F))
  rw [← hv1, abs_of_nonneg hbq0] at hm1e
  have hm10 : 0 ≤ val (fmul (FloatLike.ofNat a.blade : F) qp) := by rw [hv1]; exact rnd_nonneg hbq0
  have hm1ub : val (fmul (FloatLike.ofNat a.blade : F) qp) ≤ 2 ^ 45 := by
    rw [hv1]
    have := GeonumModel.rnd_ub (F := F) hbq0
    have : (2:ℝ) * 2 ^ 43 + 1 ≤ 2 ^ 45 := by norm_num
    linarith
  obtain ⟨hf2, hv2⟩ := fadd_spec hf1 har (by
    apply inRange_of_abs_le_2p60
    rw [abs_of_nonneg (by linarith)]
    linarith [show (2:ℝ) ^ 45 + 2 ≤ 2 ^ 60 by norm_num])
  have htote := rnd_err (F := F) (val (fmul (FloatLike.ofNat a.blade : F) qp) + val a.rem)
  rw [← hv2, abs_of_nonneg (show 0 ≤ val (fmul (FloatLike.ofNat a.blade : F) qp) + val a.rem by linarith)] at htote
  refine ⟨hf2, by rw [hv2]; exact rnd_nonneg (by linarith), ?_⟩
  unfold Tq
  have e1 : ∀ z : ℝ, z / 2 ^ 53 = z * (1 / 2 ^ 53) := fun z => by ring
  rw [e1] at hm1e htote
  exact two_roundings hbq0 ha0 (by positivity) (by norm_num) (by positivity) hm1e htote

/-- the quotient `total / k` as `Angle / f64` computes it -/
theorem divF_quot {a : Angle F} {k : F} (ha : a.Inv) (hbl : a.blade ≤ 2 ^ 42) (hk : Fin k)
    (hk0 : 1 / 10 ^ 100 ≤ val k) (hs : Tq a / val k ≤ 2 ^ 40) :
    Fin (fdiv (fadd (fmul (FloatLike.ofNat a.blade : F) qp) a.rem) k) ∧
    0 ≤ val (fdiv (fadd (fmul (FloatLike.ofNat a.blade : F) qp) a.rem) k) ∧
    val (fdiv (fadd (fmul (FloatLike.ofNat a.blade : F) qp) a.rem) k) ≤ 2 ^ 41 ∧
    |val (fdiv (fadd (fmul (FloatLike.ofNat a.blade : F) qp) a.rem) k) - Tq a / val k|
      ≤ Tq a / val k * (5 * (1 / 2 ^ 53)) + 7 * (1 / 10 ^ 200) := by
  obtain ⟨hf2, htot0, htt⟩ := divF_total ha hbl
  have ht0 : 0 ≤ Tq a := by
    unfold Tq; have := val_qp_gt (F := F)
    exact add_nonneg (mul_nonneg (Nat.cast_nonneg _) (by linarith)) ha.2.1
  have hkpos : 0 < val k := lt_of_lt_of_le (by positivity) hk0
  have hs0 : 0 ≤ Tq a / val k := div_nonneg ht0 (le_of_lt hkpos)
  have hτ300 := tiny_1075_300
  obtain ⟨τ, hτ⟩ : ∃ τ : ℝ, τ = 1 / 2 ^ 1075 := ⟨_, rfl⟩
  rw [← hτ] at htt hτ300
  have hτ0 : 0 < τ := by rw [hτ]; positivity
  have hτk : τ / val k ≤ 1 / 10 ^ 200 := by
    rw [div_le_iff₀ hkpos]
    calc τ ≤ 1 / 10 ^ 300 := hτ300
      _ = 1 / 10 ^ 200 * (1 / 10 ^ 100) := by rw [show (300:ℕ) = 200 + 100 by norm_num, pow_add]; field_simp
      _ ≤ 1 / 10 ^ 200 * val k := mul_le_mul_of_nonneg_left hk0 (by positivity)
  have hτk0 : 0 ≤ τ / val k := div_nonneg (le_of_lt hτ0) (le_of_lt hkpos)
  set tot := val (fadd (fmul (FloatLike.ofNat a.blade : F) qp) a.rem) with htot
  have htk : |tot / val k - Tq a / val k| ≤ Tq a / val k * (3 * (1 / 2 ^ 53)) + 3 * (τ / val k) := by
    have e : tot / val k - Tq a / val k = (tot - Tq a) / val k := by ring
    rw [e, abs_div, abs_of_pos hkpos]
    calc |tot - Tq a| / val k ≤ (Tq a * (3 * (1 / 2 ^ 53)) + 3 * τ) / val k :=
          div_le_div_of_nonneg_right htt (le_of_lt hkpos)
      _ = _ := by ring
  have htk0 : 0 ≤ tot / val k := div_nonneg htot0 (le_of_lt hkpos)
  have h200 : (1:ℝ) / 10 ^ 200 ≤ 1 / 10 := one_div_le_one_div_of_le (by norm_num) (by
    calc (10:ℝ) = 10 ^ 1 := by norm_num
      _ ≤ 10 ^ 200 := pow_le_pow_right₀ (by norm_num) (by norm_num))
  have htkub : tot / val k ≤ 2 ^ 40 + 1 := by
    rw [abs_le] at htk
    have : Tq a / val k * (3 * (1 / 2 ^ 53)) ≤ 2 ^ 40 * (3 * (1 / 2 ^ 53)) :=
      mul_le_mul_of_nonneg_right hs (by positivity)
    have : (2:ℝ) ^ 40 * (3 * (1 / 2 ^ 53)) ≤ 1 / 2 := by norm_num
    linarith [htk.2]
  obtain ⟨hf3, hv3⟩ := fdiv_spec hf2 hk (ne_of_gt hkpos) (by
    apply inRange_of_abs_le_2p60
    rw [abs_of_nonneg htk0]; linarith [show (2:ℝ) ^ 40 + 1 ≤ 2 ^ 60 by norm_num])
  have hxe := rnd_err (F := F) (tot / val k)
  rw [← hv3, abs_of_nonneg htk0, ← hτ] at hxe
  have e1 : ∀ z : ℝ, z / 2 ^ 53 = z * (1 / 2 ^ 53) := fun z => by ring
  rw [e1] at hxe
  have h3 := third_rounding hs0 htk0 (by positivity) (by norm_num) hτ0 hτk0 htk hxe
  have hx0 : 0 ≤ val (fdiv (fadd (fmul (FloatLike.ofNat a.blade : F) qp) a.rem) k) := by rw [hv3]; exact rnd_nonneg htk0
  have hτ200 : τ ≤ 1 / 10 ^ 200 := le_trans hτ300
    (one_div_le_one_div_of_le (by positivity) (pow_le_pow_right₀ (by norm_num) (by norm_num)))
  have hfin : |val (fdiv (fadd (fmul (FloatLike.ofNat a.blade : F) qp) a.rem) k) - Tq a / val k|
      ≤ Tq a / val k * (5 * (1 / 2 ^ 53)) + 7 * (1 / 10 ^ 200) := by linarith
  refine ⟨hf3, hx0, ?_, hfin⟩
  rw [abs_le] at hfin
  have : Tq a / val k * (5 * (1 / 2 ^ 53)) ≤ 2 ^ 40 * (5 * (1 / 2 ^ 53)) :=
    mul_le_mul_of_nonneg_right hs (by positivity)
  have : (2:ℝ) ^ 40 * (5 * (1 / 2 ^ 53)) ≤ 1 / 2 := by norm_num
  have : (2:ℝ) ^ 40 + 1 / 2 + 7 * (1 / 10) ≤ 2 ^ 41 := by norm_num
  linarith [hfin.2]

/-- **`Angle / f64` in rounded arithmetic, positive divisor**: the float total of `a / k` is `Tq a / k` to within the
    `1e-10` snap plus `16·2⁻⁵³` relative — no whole turns appear or disappear -/
theorem divF_float {a : Angle F} {k : F} (ha : a.Inv) (hbl : a.blade ≤ 2 ^ 42) (hk : Fin k)
    (hk0 : 1 / 10 ^ 100 ≤ val k) (hs : Tq a / val k ≤ 2 ^ 40) :
    (a.divF k).Inv ∧ a.divFR k = a.divF k ∧
    |Tq (a.divF k) - Tq a / val k| < val (e10 : F) + (Tq a / val k) * (16 * (1 / 2 ^ 53)) + 1 / 10 ^ 150 := by
  obtain ⟨hf3, hx0, hxub, hxs⟩ := divF_quot ha hbl hk hk0 hs
  have hkpos : 0 < val k := lt_of_lt_of_le (by positivity) hk0
  have hs0 : 0 ≤ Tq a / val k := by
    have : 0 ≤ Tq a := by
      unfold Tq; have := val_qp_gt (F := F)
      exact add_nonneg (mul_nonneg (Nat.cast_nonneg _) (by linarith)) ha.2.1
    exact div_nonneg this (le_of_lt hkpos)
  have hdef : a.divF k = Angle.new (fdiv (fadd (fmul (FloatLike.ofNat a.blade : F) qp) a.rem) k) (FloatLike.pi : F) := rfl
  obtain ⟨hinv, htq⟩ := new_radians_total hf3 hx0 hxub
  rw [← hdef] at hinv htq
  refine ⟨hinv, rfl, ?_⟩
  have e8 : ∀ z : ℝ, z * (8 / 2 ^ 53) = z * (8 * (1 / 2 ^ 53)) := fun z => by ring
  rw [e8] at htq
  have h := final_assembly hs0 (by positivity) (by norm_num) (by positivity) hxs htq
  have h1070 : (1:ℝ) / 2 ^ 1070 ≤ 1 / 10 ^ 160 := by
    apply one_div_le_one_div_of_le (by positivity)
    calc (10:ℝ) ^ 160 ≤ (2 ^ 4) ^ 160 := by gcongr; norm_num
      _ = 2 ^ 640 := by rw [← pow_mul]
      _ ≤ 2 ^ 1070 := pow_le_pow_right₀ (by norm_num) (by norm_num)
  have h200 : 14 * ((1:ℝ) / 10 ^ 200) ≤ 1 / 10 ^ 160 := by
    rw [show (200:ℕ) = 160 + 40 by norm_num, pow_add, mul_one_div, div_le_div_iff₀ (by positivity) (by positivity)]
    have : (14:ℝ) ≤ 10 ^ 40 := by
      calc (14:ℝ) ≤ 10 ^ 2 := by norm_num
        _ ≤ 10 ^ 40 := pow_le_pow_right₀ (by norm_num) (by norm_num)
    nlinarith [show (0:ℝ) < 10 ^ 160 by positivity]
  have h150 : 2 * ((1:ℝ) / 10 ^ 160) ≤ 1 / 10 ^ 150 := by
    rw [show (160:ℕ) = 150 + 10 by norm_num, pow_add, mul_one_div, div_le_div_iff₀ (by positivity) (by positivity)]
    nlinarith [show (0:ℝ) < 10 ^ 150 by positivity, show (2:ℝ) ≤ 10 ^ 10 by norm_num]
  linarith

end Angle
end GeonumModel
