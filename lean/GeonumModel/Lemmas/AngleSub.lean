/-
  GeonumModel.Lemmas.AngleSub — `geometric_sub` on invariant-satisfying angles (S-tier).
-/
import GeonumModel.Lemmas.AngleAdd

set_option linter.unusedSectionVars false
set_option linter.unusedVariables false

namespace GeonumModel
open FloatLike FloatSpec

variable {F : Type} [FloatSpec F]

namespace Angle

theorem slack2_lt : (2:ℝ) / 2 ^ 53 + 1 / 10 ^ 30 + (2 / 2 ^ 53 + 1 / 10 ^ 30) < 1 / 10 ^ 15 := by norm_num

/-- everything the later theorems need to know about one angle subtraction.
    `s` is the borrow (`-1` iff the remainder difference is negative), `c` the carry of the final normalisation. -/
theorem geometricSub_spec {a b : Angle F} (ha : a.Inv) (hb : b.Inv) :
    (a.geometricSub b).Inv ∧
    ∃ (s : ℤ) (c : ℕ), (s = 0 ∨ s = -1) ∧ (c = 0 ∨ c = 1) ∧
      (a.geometricSub b).blade = wrap4 ((a.blade : ℤ) - (b.blade : ℤ) + s) + c ∧
      |val (a.geometricSub b).rem + ((c : ℝ) + (s : ℝ)) * val (qp : F) - (val a.rem - val b.rem)|
          < val (e10 : F) + 1 / 10 ^ 15 ∧
      (c = 1 → val (a.geometricSub b).rem = 0) ∧
      (s = -1 → val a.rem < val b.rem) := by
  obtain ⟨har, ha0, ha1⟩ := ha
  obtain ⟨hbr, hb0, hb1⟩ := hb
  have hq := val_qp_gt (F := F); have hq' := val_qp_lt (F := F)
  have he := val_e10_pos (F := F); have he' := val_e10_small (F := F)
  have e10lb := (val_e10_bounds (F := F)).1
  have he15 := val_e15_pos (F := F); have he15' := (val_e15_bounds (F := F)).2
  have hnum : (1:ℝ) / 10 ^ 15 < 9 / 10 ^ 11 := by norm_num
  have hnum2 : (11:ℝ) / 10 ^ 16 < 9 / 10 ^ 11 := by norm_num
  have hdabs : |val a.rem - val b.rem| ≤ 2 := by rw [abs_le]; constructor <;> linarith
  obtain ⟨hfd, hvd⟩ := fsub_spec har hbr (inRange_of_abs_le_1000 (by linarith))
  -- the rounded difference
  have hc := rnd_close (F := F) (val a.rem - val b.rem)
  rw [← hvd] at hc
  have h53 : |val a.rem - val b.rem| / 2 ^ 53 ≤ 2 / 2 ^ 53 :=
    div_le_div_of_nonneg_right hdabs (by positivity)
  have hderr : |val (fsub a.rem b.rem) - (val a.rem - val b.rem)| ≤ 2 / 2 ^ 53 + 1 / 10 ^ 30 := by linarith
  rw [abs_le] at hderr
  have hs2 := slack2_lt
  -- bounds on the rounded difference by monotonicity
  have hdlo : -val b.rem ≤ val (fsub a.rem b.rem) := by
    rw [hvd]
    have := rnd_mono (F := F) (show -val b.rem ≤ val a.rem - val b.rem by linarith)
    rwa [rnd_rep (rep_neg (rep_val hbr))] at this
  have hdhi : val (fsub a.rem b.rem) ≤ val a.rem := by
    rw [hvd]
    have := rnd_mono (F := F) (show val a.rem - val b.rem ≤ val a.rem by linarith)
    rwa [rnd_val har] at this
  unfold geometricSub
  simp only
  by_cases h15 : flt (fabs (fsub a.rem b.rem)) e15 = true
  · -- equal-remainder shortcut
    rw [if_pos h15]
    obtain ⟨hfa, hva⟩ := fabs_spec hfd
    have h15' : |val (fsub a.rem b.rem)| < val (e15 : F) := by
      have := (flt_spec hfa fin_e15).mp h15; rwa [hva] at this
    rw [abs_lt] at h15'
    refine ⟨inv_zero _, 0, 0, Or.inl rfl, Or.inl rfl, by simp, ?_, by simp, by simp⟩
    simp only [val_zero, Nat.cast_zero, Int.cast_zero, add_zero, zero_mul]
    rw [abs_lt]; constructor <;> linarith
  · rw [if_neg h15]
    by_cases hneg : flt (fsub a.rem b.rem) zero = true
    · -- borrow
      simp only [hneg, if_true]
      have hneg' : val (fsub a.rem b.rem) < 0 := by
        have := (flt_spec hfd fin_zero).mp hneg; rwa [val_zero] at this
      have hlt : val a.rem < val b.rem := by
        by_contra hcon; push Not at hcon
        have := rnd_nonneg (F := F) (show 0 ≤ val a.rem - val b.rem by linarith)
        rw [← hvd] at this; linarith
      have hsum0 : 0 ≤ val (fsub a.rem b.rem) + val (qp : F) := by linarith
      have hsum2 : val (fsub a.rem b.rem) + val (qp : F) ≤ val (qp : F) := by linarith
      obtain ⟨hfi, hvi⟩ := fadd_spec hfd fin_qp
        (inRange_of_abs_le_1000 (by rw [abs_of_nonneg hsum0]; linarith))
      have hi0 : 0 ≤ val (fadd (fsub a.rem b.rem) qp) := by rw [hvi]; exact rnd_nonneg hsum0
      have hi1 : val (fadd (fsub a.rem b.rem) qp) ≤ val (qp : F) := by
        rw [hvi]; have := rnd_mono (F := F) hsum2; rwa [rnd_val fin_qp] at this
      have hci := rnd_close (F := F) (val (fsub a.rem b.rem) + val (qp : F))
      rw [← hvi, abs_of_nonneg hsum0] at hci
      have h53' : (val (fsub a.rem b.rem) + val (qp : F)) / 2 ^ 53 ≤ 2 / 2 ^ 53 :=
        div_le_div_of_nonneg_right (by linarith) (by positivity)
      rw [abs_le] at hci
      obtain ⟨hinv, hcase⟩ := normalizeBoundaries_spec (fadd (fsub a.rem b.rem) qp)
        (wrap4 ((a.blade : ℤ) - (b.blade : ℤ) - 1)) hfi hi0 (by linarith)
      refine ⟨hinv, -1, ?_⟩
      rcases hcase with ⟨h, _⟩ | ⟨h, hnear⟩ | ⟨hbl, hrem, hbig⟩
      · refine ⟨0, Or.inr rfl, Or.inl rfl, by rw [h]; rfl, ?_, by simp, fun _ => hlt⟩
        rw [h]; simp only [Nat.cast_zero, Int.cast_neg, Int.cast_one, zero_add]
        rw [abs_lt]; constructor <;> linarith
      · refine ⟨1, Or.inr rfl, Or.inr rfl, by rw [h]; rfl, ?_, fun _ => by rw [h]; exact val_zero,
          fun _ => hlt⟩
        rw [h]; simp only [val_zero, Nat.cast_one, Int.cast_neg, Int.cast_one]
        rw [abs_lt] at hnear
        rw [abs_lt]; constructor <;> linarith
      · exfalso; linarith
    · -- no borrow
      simp only [hneg, Bool.false_eq_true, if_false]
      have hnn : 0 ≤ val (fsub a.rem b.rem) := by
        by_contra hcon; push Not at hcon
        exact hneg ((flt_spec hfd fin_zero).mpr (by rwa [val_zero]))
      obtain ⟨hinv, hcase⟩ := normalizeBoundaries_spec (fsub a.rem b.rem)
        (wrap4 ((a.blade : ℤ) - (b.blade : ℤ))) hfd hnn (by linarith)
      refine ⟨hinv, 0, ?_⟩
      rcases hcase with ⟨h, _⟩ | ⟨h, hnear⟩ | ⟨hbl, hrem, hbig⟩
      · refine ⟨0, Or.inl rfl, Or.inl rfl, by rw [h]; simp, ?_, by simp, by simp⟩
        rw [h]; simp only [Nat.cast_zero, Int.cast_zero, add_zero, zero_mul]
        rw [abs_lt]; constructor <;> linarith
      · exfalso; rw [abs_lt] at hnear; linarith
      · exfalso; linarith

theorem geometricSub_inv {a b : Angle F} (ha : a.Inv) (hb : b.Inv) : (a.geometricSub b).Inv :=
  (geometricSub_spec ha hb).1

end Angle
end GeonumModel
