/-
  GeonumModel.Lemmas.GeonumMag — finiteness and non-negativity of the magnitudes produced by `Add for Geonum`
  and `distance_to` (S-tier), for operands inside the property domain (magnitudes ≤ 1e100).
-/
import GeonumModel.Lemmas.GeonumAdd

set_option linter.unusedSectionVars false
set_option linter.unusedVariables false

namespace GeonumModel
open FloatLike FloatSpec
variable {F : Type} [FloatSpec F]

/-- crude but sufficient: rounding at most doubles a magnitude (plus one) -/
theorem rnd_abs_le (x : ℝ) : |rnd (F := F) x| ≤ 2 * |x| + 1 := by
  have h := rnd_close (F := F) x
  have h1 : |x| / 2 ^ 53 ≤ |x| := by
    apply div_le_self (abs_nonneg x); norm_num
  have h2 : (1:ℝ) / 10 ^ 30 ≤ 1 := by rw [div_le_one (by positivity)]; norm_num
  have := abs_sub_abs_le_abs_sub (rnd (F := F) x) x
  linarith

theorem rnd_ub {x : ℝ} (h : 0 ≤ x) : rnd (F := F) x ≤ 2 * x + 1 := by
  have := rnd_abs_le (F := F) x
  rw [abs_of_nonneg h] at this
  exact le_trans (le_abs_self _) this

/-- a product of two in-domain magnitudes is finite, non-negative and at most `1e201` -/
theorem mul_dom {x y : F} (hx : Fin x) (hy : Fin y) (hx0 : 0 ≤ val x) (hy0 : 0 ≤ val y)
    (hx1 : val x ≤ 10 ^ 100) (hy1 : val y ≤ 10 ^ 100) :
    Fin (fmul x y) ∧ 0 ≤ val (fmul x y) ∧ val (fmul x y) ≤ 10 ^ 201 := by
  have hp0 : 0 ≤ val x * val y := mul_nonneg hx0 hy0
  have hp1 : val x * val y ≤ 10 ^ 100 * 10 ^ 100 := mul_le_mul hx1 hy1 hy0 (by positivity)
  norm_num at hp1
  obtain ⟨hf, hv⟩ := fmul_spec hx hy (inRange_of_le (by
    rw [abs_of_nonneg hp0]; norm_num; linarith))
  refine ⟨hf, by rw [hv]; exact rnd_nonneg hp0, ?_⟩
  rw [hv]
  have := rnd_ub (F := F) hp0
  norm_num
  linarith

namespace Geonum

/-- magnitudes of the property domain: finite, `0 ≤ m ≤ 1e100` -/
def MagDom (g : Geonum F) : Prop := Fin g.mag ∧ 0 ≤ val g.mag ∧ val g.mag ≤ 10 ^ 100

/-- the radicand of the general branch of `+` is finite for in-domain magnitudes and a finite cosine argument -/
theorem radicand_fin {a b : Geonum F} (ha : a.MagDom) (hb : b.MagDom)
    (hg : Fin (fsub b.angle.gradeAngle a.angle.gradeAngle)) : Fin (radicand a b) := by
  obtain ⟨haf, ha0, ha1⟩ := ha
  obtain ⟨hbf, hb0, hb1⟩ := hb
  obtain ⟨haa, haa0, haa1⟩ := mul_dom haf haf ha0 ha0 ha1 ha1
  obtain ⟨hbb, hbb0, hbb1⟩ := mul_dom hbf hbf hb0 hb0 hb1 hb1
  norm_num at ha1 hb1 haa1 hbb1
  -- a² + b²
  obtain ⟨hs, hvs⟩ := fadd_spec haa hbb (inRange_of_le (by
    rw [abs_of_nonneg (by linarith)]; norm_num; linarith))
  have hs0 : 0 ≤ val (fadd (fmul a.mag a.mag) (fmul b.mag b.mag)) := by rw [hvs]; exact rnd_nonneg (by linarith)
  have hs1 : val (fadd (fmul a.mag a.mag) (fmul b.mag b.mag)) ≤ 5 * 10 ^ 201 := by
    rw [hvs]
    have := rnd_ub (F := F) (x := val (fmul a.mag a.mag) + val (fmul b.mag b.mag)) (by linarith)
    norm_num; linarith
  norm_num at hs1
  -- 2a
  obtain ⟨h2a, hv2a⟩ := fmul_spec (fin_two (F := F)) haf (inRange_of_le (by
    rw [val_two, abs_of_nonneg (by linarith)]; norm_num; linarith))
  have h2a0 : 0 ≤ val (fmul two a.mag) := by rw [hv2a, val_two]; exact rnd_nonneg (by linarith)
  have h2a1 : val (fmul two a.mag) ≤ 5 * 10 ^ 100 := by
    rw [hv2a, val_two]
    have := rnd_ub (F := F) (x := 2 * val a.mag) (by linarith)
    norm_num; linarith
  -- (2a)·b
  have hp0 : 0 ≤ val (fmul two a.mag) * val b.mag := mul_nonneg h2a0 hb0
  have hp1 : val (fmul two a.mag) * val b.mag ≤ 5 * 10 ^ 100 * 10 ^ 100 :=
    mul_le_mul h2a1 (by norm_num; exact hb1) hb0 (by positivity)
  norm_num at hp1
  obtain ⟨h2ab, hv2ab⟩ := fmul_spec h2a hbf (inRange_of_le (by
    rw [abs_of_nonneg hp0]; norm_num; linarith))
  have h2ab0 : 0 ≤ val (fmul (fmul two a.mag) b.mag) := by rw [hv2ab]; exact rnd_nonneg hp0
  have h2ab1 : val (fmul (fmul two a.mag) b.mag) ≤ 2 * 10 ^ 201 := by
    rw [hv2ab]
    have := rnd_abs_le (F := F) (val (fmul two a.mag) * val b.mag)
    rw [abs_of_nonneg hp0] at this
    have h2 := le_abs_self (rnd (F := F) (val (fmul two a.mag) * val b.mag))
    norm_num; linarith
  norm_num at h2ab1
  -- times the cosine
  obtain ⟨hfc, hc1, _⟩ := cos_spec hg
  have hpc : |val (fmul (fmul two a.mag) b.mag) * val (FloatLike.cos (fsub b.angle.gradeAngle a.angle.gradeAngle))|
      ≤ val (fmul (fmul two a.mag) b.mag) := by
    rw [abs_mul, abs_of_nonneg h2ab0]
    calc val (fmul (fmul two a.mag) b.mag) * |val (FloatLike.cos (fsub b.angle.gradeAngle a.angle.gradeAngle))|
        ≤ val (fmul (fmul two a.mag) b.mag) * 1 := mul_le_mul_of_nonneg_left hc1 h2ab0
      _ = val (fmul (fmul two a.mag) b.mag) := mul_one _
  obtain ⟨hft, hvt⟩ := fmul_spec h2ab hfc (inRange_of_le (le_trans hpc (by norm_num; linarith)))
  have ht1 : |val (fmul (fmul (fmul two a.mag) b.mag) (FloatLike.cos (fsub b.angle.gradeAngle a.angle.gradeAngle)))|
      ≤ 5 * 10 ^ 201 := by
    rw [hvt]
    have := rnd_abs_le (F := F) (val (fmul (fmul two a.mag) b.mag) * val (FloatLike.cos (fsub b.angle.gradeAngle a.angle.gradeAngle)))
    norm_num; linarith
  norm_num at ht1
  -- final sum
  have hfin := fadd_spec hs hft (inRange_of_le (by
    have h3 := abs_add_le (val (fadd (fmul a.mag a.mag) (fmul b.mag b.mag)))
      (val (fmul (fmul (fmul two a.mag) b.mag) (FloatLike.cos (fsub b.angle.gradeAngle a.angle.gradeAngle))))
    rw [abs_of_nonneg hs0] at h3
    norm_num; linarith))
  exact hfin.1

/-- every branch of `+` returns a finite, non-negative (hence non-NaN) magnitude for in-domain operands -/
theorem add_mag_ok {a b : Geonum F} (ha : a.MagDom) (hb : b.MagDom)
    (hg : Fin (fsub b.angle.gradeAngle a.angle.gradeAngle)) :
    Fin (a.add b).mag ∧ 0 ≤ val (a.add b).mag := by
  obtain ⟨haf, ha0, ha1⟩ := ha
  obtain ⟨hbf, hb0, hb1⟩ := hb
  norm_num at ha1 hb1
  by_cases h1 : sameAngle a b = true
  · rw [add_same a b h1]
    obtain ⟨hf, hv⟩ := fadd_spec haf hbf (inRange_of_le (by
      rw [abs_of_nonneg (by linarith)]; norm_num; linarith))
    exact ⟨hf, by rw [hv]; exact rnd_nonneg (by linarith)⟩
  · have h1' : sameAngle a b = false := by simpa using h1
    have hdr : InRange (F := F) (val a.mag - val b.mag) := inRange_of_le (by
      rw [abs_le]; norm_num; constructor <;> linarith)
    obtain ⟨hfd, hvd⟩ := fsub_spec haf hbf hdr
    by_cases h2 : oppositeAngle a b = true
    · by_cases h3 : flt (fabs (fsub a.mag b.mag)) e10 = true
      · rw [add_opposite_cancel a b h1' h2 h3]; exact ⟨fin_zero, by rw [val_zero]⟩
      · have h3' : flt (fabs (fsub a.mag b.mag)) e10 = false := by simpa using h3
        by_cases h4 : flt zero (fsub a.mag b.mag) = true
        · rw [add_opposite_first a b h1' h2 h3' h4]
          have := (flt_spec fin_zero hfd).mp h4
          rw [val_zero] at this
          exact ⟨hfd, le_of_lt this⟩
        · have h4' : flt zero (fsub a.mag b.mag) = false := by simpa using h4
          rw [add_opposite_second a b h1' h2 h3' h4']
          obtain ⟨hfn, hvn⟩ := fneg_spec hfd
          refine ⟨hfn, ?_⟩
          rw [hvn]
          have : ¬ (0 < val (fsub a.mag b.mag)) := by
            intro hc; exact h4 ((flt_spec fin_zero hfd).mpr (by rwa [val_zero]))
          linarith [not_lt.mp this]
    · have h2' : oppositeAngle a b = false := by simpa using h2
      rw [add_general_mag a b h1' h2']
      have hr := radicand_fin ⟨haf, ha0, by norm_num; exact ha1⟩ ⟨hbf, hb0, by norm_num; exact hb1⟩ hg
      obtain ⟨hfm, hvm⟩ := fmax_spec hr (fin_zero (F := F))
      have hm0 : 0 ≤ val (fmax (radicand a b) zero) := by rw [hvm, val_zero]; exact le_max_right _ _
      obtain ⟨hfs, hvs⟩ := sqrt_spec hfm hm0
      exact ⟨hfs, by rw [hvs]; exact rnd_nonneg (Real.sqrt_nonneg _)⟩

end Geonum
end GeonumModel
