/-
  GeonumModel.Lemmas.AngleNewTotal — the normalised total of `Angle::new`'s general path is finite, non-negative and
  bounded for in-domain arguments; hence every `Angle::new` result satisfies the invariant (S-tier).
-/
import GeonumModel.Lemmas.AngleNew
import GeonumModel.Lemmas.GradeAngle

set_option linter.unusedSectionVars false
set_option linter.unusedVariables false

namespace GeonumModel
open FloatLike FloatSpec
variable {F : Type} [FloatSpec F]
namespace Angle

theorem tiny_1075_300 : (1 : ℝ) / 2 ^ 1075 ≤ 1 / 10 ^ 300 := by
  apply one_div_le_one_div_of_le (by positivity)
  calc (10:ℝ) ^ 300 = (10 ^ 3) ^ 100 := by rw [← pow_mul]
    _ ≤ (2 ^ 10) ^ 100 := by gcongr; norm_num
    _ = 2 ^ 1000 := by rw [← pow_mul]
    _ ≤ 2 ^ 1075 := pow_le_pow_right₀ (by norm_num) (by norm_num)

/-- for `0 ≤ x ≤ 2^53` rounding moves a value by at most 2 -/
theorem rnd_near {x : ℝ} (h0 : 0 ≤ x) (h1 : x ≤ 2 ^ 53) : |rnd (F := F) x - x| ≤ 2 := by
  have h := rnd_close (F := F) x
  rw [abs_of_nonneg h0] at h
  have : x / 2 ^ 53 ≤ 1 := by rw [div_le_one (by positivity)]; exact h1
  have : (1:ℝ) / 10 ^ 30 ≤ 1 := by rw [div_le_one (by positivity)]; norm_num
  linarith

/-- the scaled product `p·π` of the constructor: finite, correctly rounded, and its quotient by `d` stays below `2^42 + 2` -/
theorem scaled_spec {p d : F} (hp : Fin p) (hd : Fin d) (hpb : |val p| ≤ 10 ^ 200)
    (hdl : 1 / 10 ^ 200 ≤ |val d|) (hq : |val p * piV F / val d| ≤ 2 ^ 42) :
    Fin (fmul p (FloatLike.pi : F)) ∧ val (fmul p (FloatLike.pi : F)) = rnd (F := F) (val p * piV F) ∧
    |val (fmul p (FloatLike.pi : F)) / val d| ≤ 2 ^ 42 + 2 := by
  have hpi3 := piV_gt3 (F := F); have hpi4 := piV_lt4 (F := F)
  have hdpos : 0 < |val d| := lt_of_lt_of_le (by positivity) hdl
  have hd0 : val d ≠ 0 := abs_pos.mp hdpos
  -- x1 = rnd(p·π)
  have hppi : |val p * piV F| ≤ 4 * 10 ^ 200 := by
    rw [abs_mul, abs_of_pos (by linarith : (0:ℝ) < piV F)]
    calc |val p| * piV F ≤ 10 ^ 200 * 4 := mul_le_mul hpb (le_of_lt hpi4) (by linarith) (by positivity)
      _ = 4 * 10 ^ 200 := by ring
  obtain ⟨hf1, hv1⟩ := fmul_spec hp (fin_pi (F := F)) (by
    rw [val_pi]; apply inRange_of_le; norm_num at hppi ⊢; linarith)
  rw [val_pi] at hv1
  have he1 := rnd_err (F := F) (val p * piV F)
  rw [← hv1] at he1
  obtain ⟨x1, hx1⟩ : ∃ x, x = val (fmul p (FloatLike.pi : F)) := ⟨_, rfl⟩
  rw [← hx1] at he1 hv1
  -- |x1/d − pπ/d| ≤ |pπ/d|/2^53 + tiny/|d|
  have hquot : |x1 / val d - val p * piV F / val d| ≤ |val p * piV F / val d| / 2 ^ 53 + 1 := by
    have e : x1 / val d - val p * piV F / val d = (x1 - val p * piV F) / val d := by ring
    rw [e, abs_div]
    have h1 : |x1 - val p * piV F| / |val d| ≤ (|val p * piV F| / 2 ^ 53 + 1 / 2 ^ 1075) / |val d| :=
      div_le_div_of_nonneg_right he1 (le_of_lt hdpos)
    have h2 : (|val p * piV F| / 2 ^ 53 + 1 / 2 ^ 1075) / |val d| =
        |val p * piV F / val d| / 2 ^ 53 + 1 / 2 ^ 1075 / |val d| := by rw [abs_div]; ring
    have h3 : (1:ℝ) / 2 ^ 1075 / |val d| ≤ 1 := by
      rw [div_le_one hdpos]
      have t1 := tiny_1075_300
      have t2 : (1:ℝ) / 10 ^ 300 ≤ 1 / 10 ^ 200 :=
        one_div_le_one_div_of_le (by positivity) (pow_le_pow_right₀ (by norm_num) (by norm_num))
      linarith
    linarith
  have hq53 : |val p * piV F / val d| / 2 ^ 53 ≤ 1 := by
    rw [div_le_one (by positivity)]
    calc |val p * piV F / val d| ≤ 2 ^ 42 := hq
      _ ≤ 2 ^ 53 := by norm_num
  have hx1d : |x1 / val d| ≤ 2 ^ 42 + 2 := by
    have := abs_sub_abs_le_abs_sub (x1 / val d) (val p * piV F / val d)
    linarith
  exact ⟨hf1, by rw [← hx1]; exact hv1, by rw [← hx1]; exact hx1d⟩

/-- the raw total `p·π/d` as the constructor computes it (either order of operations): finite and at most `2^43` in
    magnitude, for finite arguments with `|p| ≤ 1e200`, `|d| ≥ 1e-200` and `|p·π/d| ≤ 2^42` -/
theorem newRawTotal_spec {p d : F} (hp : Fin p) (hd : Fin d) (hpb : |val p| ≤ 10 ^ 200)
    (hdl : 1 / 10 ^ 200 ≤ |val d|) (hq : |val p * piV F / val d| ≤ 2 ^ 42) :
    Fin (newRawTotal p d) ∧ |val (newRawTotal p d)| ≤ 2 ^ 43 := by
  have hpi3 := piV_gt3 (F := F); have hpi4 := piV_lt4 (F := F)
  have hdpos : 0 < |val d| := lt_of_lt_of_le (by positivity) hdl
  have hd0 : val d ≠ 0 := abs_pos.mp hdpos
  -- x1 = rnd(p·π)
  have hppi : |val p * piV F| ≤ 4 * 10 ^ 200 := by
    rw [abs_mul, abs_of_pos (by linarith : (0:ℝ) < piV F)]
    calc |val p| * piV F ≤ 10 ^ 200 * 4 := mul_le_mul hpb (le_of_lt hpi4) (by linarith) (by positivity)
      _ = 4 * 10 ^ 200 := by ring
  obtain ⟨hf1, hv1⟩ := fmul_spec hp (fin_pi (F := F)) (by
    rw [val_pi]; apply inRange_of_le; norm_num at hppi ⊢; linarith)
  rw [val_pi] at hv1
  have he1 := rnd_err (F := F) (val p * piV F)
  rw [← hv1] at he1
  obtain ⟨x1, hx1⟩ : ∃ x, x = val (fmul p (FloatLike.pi : F)) := ⟨_, rfl⟩
  rw [← hx1] at he1 hv1
  -- |x1/d − pπ/d| ≤ |pπ/d|/2^53 + tiny/|d|
  have hquot : |x1 / val d - val p * piV F / val d| ≤ |val p * piV F / val d| / 2 ^ 53 + 1 := by
    have e : x1 / val d - val p * piV F / val d = (x1 - val p * piV F) / val d := by ring
    rw [e, abs_div]
    have h1 : |x1 - val p * piV F| / |val d| ≤ (|val p * piV F| / 2 ^ 53 + 1 / 2 ^ 1075) / |val d| :=
      div_le_div_of_nonneg_right he1 (le_of_lt hdpos)
    have h2 : (|val p * piV F| / 2 ^ 53 + 1 / 2 ^ 1075) / |val d| =
        |val p * piV F / val d| / 2 ^ 53 + 1 / 2 ^ 1075 / |val d| := by rw [abs_div]; ring
    have h3 : (1:ℝ) / 2 ^ 1075 / |val d| ≤ 1 := by
      rw [div_le_one hdpos]
      have t1 := tiny_1075_300
      have t2 : (1:ℝ) / 10 ^ 300 ≤ 1 / 10 ^ 200 :=
        one_div_le_one_div_of_le (by positivity) (pow_le_pow_right₀ (by norm_num) (by norm_num))
      linarith
    linarith
  have hq53 : |val p * piV F / val d| / 2 ^ 53 ≤ 1 := by
    rw [div_le_one (by positivity)]
    calc |val p * piV F / val d| ≤ 2 ^ 42 := hq
      _ ≤ 2 ^ 53 := by norm_num
  have hx1d : |x1 / val d| ≤ 2 ^ 42 + 2 := by
    have := abs_sub_abs_le_abs_sub (x1 / val d) (val p * piV F / val d)
    linarith
  unfold newRawTotal
  simp only
  by_cases hnorm : FloatLike.isNormal (fmul p (FloatLike.pi : F)) = true
  · rw [if_pos hnorm]
    obtain ⟨hf2, hv2⟩ := fdiv_spec hf1 hd hd0 (by
      rw [← hx1]; apply inRange_of_abs_le_2p60
      have : (2:ℝ) ^ 42 + 2 ≤ 2 ^ 60 := by norm_num
      linarith)
    rw [← hx1] at hv2
    obtain ⟨x2, hx2⟩ : ∃ x, x = val (fdiv (fmul p (FloatLike.pi : F)) d) := ⟨_, rfl⟩
    rw [← hx2] at hv2
    have hx2b : |x2| ≤ 2 ^ 43 := by
      rw [hv2]
      have hc := rnd_close (F := F) (x1 / val d)
      have h53 : |x1 / val d| / 2 ^ 53 ≤ 1 := by
        rw [div_le_one (by positivity)]
        have : (2:ℝ) ^ 42 + 2 ≤ 2 ^ 53 := by norm_num
        linarith
      have := abs_sub_abs_le_abs_sub (rnd (F := F) (x1 / val d)) (x1 / val d)
      have : (1:ℝ) / 10 ^ 30 ≤ 1 := by rw [div_le_one (by positivity)]; norm_num
      have : (2:ℝ) ^ 42 + 2 + 1 + 1 ≤ 2 ^ 43 := by norm_num
      linarith
    exact ⟨hf2, by rw [← hx2]; exact hx2b⟩
  · -- the product is finite but below the normal range: `|p·π| < 2^-1021`, so `p/d` is tiny and is scaled last
    have hnn : ¬ ((1:ℝ) / 2 ^ 1022 ≤ |val (fmul p (FloatLike.pi : F))|) := fun h => hnorm ((isNormal_spec hf1).mpr h)
    rw [if_neg hnorm]
    rw [← hx1] at hnn
    push Not at hnn
    have htiny : (1:ℝ) / 2 ^ 1075 ≤ 1 / 2 ^ 1022 := one_div_le_one_div_of_le (by positivity) (pow_le_pow_right₀ (by norm_num) (by norm_num))
    have h1022 : 4 * ((1:ℝ) / 2 ^ 1022) ≤ 1 / 10 ^ 300 := by
      have e : 4 * ((1:ℝ) / 2 ^ 1022) = 1 / 2 ^ 1020 := by
        rw [show (1022:ℕ) = 2 + 1020 by norm_num, pow_add]; field_simp; norm_num
      rw [e]
      apply one_div_le_one_div_of_le (by positivity)
      calc (10:ℝ) ^ 300 = (10 ^ 3) ^ 100 := by rw [← pow_mul]
        _ ≤ (2 ^ 10) ^ 100 := by gcongr; norm_num
        _ = 2 ^ 1000 := by rw [← pow_mul]
        _ ≤ 2 ^ 1020 := pow_le_pow_right₀ (by norm_num) (by norm_num)
    generalize (1:ℝ) / 2 ^ 1022 = u at hnn htiny h1022
    generalize (1:ℝ) / 2 ^ 1075 = t at he1 htiny
    have hpp : |val p * piV F| ≤ 4 * u := by
      have h1 := abs_sub_abs_le_abs_sub (val p * piV F) x1
      rw [abs_sub_comm] at h1
      have h2 : |val p * piV F| / 2 ^ 53 ≤ |val p * piV F| / 2 := by
        apply div_le_div_of_nonneg_left (abs_nonneg _) (by norm_num) (by norm_num)
      linarith
    have hpabs : |val p| ≤ 1 / 10 ^ 300 := by
      rw [abs_mul, abs_of_pos (by linarith : (0:ℝ) < piV F)] at hpp
      nlinarith [abs_nonneg (val p)]
    have hpd : |val p / val d| ≤ 1 := by
      rw [abs_div, div_le_one hdpos]
      have : (1:ℝ) / 10 ^ 300 ≤ 1 / 10 ^ 200 :=
        one_div_le_one_div_of_le (by positivity) (pow_le_pow_right₀ (by norm_num) (by norm_num))
      generalize (1:ℝ) / 10 ^ 300 = a at this hpabs
      generalize (1:ℝ) / 10 ^ 200 = b at this hdl
      linarith
    obtain ⟨hf3, hv3⟩ := fdiv_spec hp hd hd0 (by
      apply inRange_of_abs_le_1000; linarith)
    have hc3 := rnd_close (F := F) (val p / val d)
    rw [← hv3] at hc3
    have hy3 : |val (fdiv p d)| ≤ 3 := by
      have h := abs_sub_abs_le_abs_sub (val (fdiv p d)) (val p / val d)
      have h53 : |val p / val d| / 2 ^ 53 ≤ 1 := by
        rw [div_le_one (by positivity)]; linarith [show (1:ℝ) ≤ 2 ^ 53 by norm_num]
      have : (1:ℝ) / 10 ^ 30 ≤ 1 := by rw [div_le_one (by positivity)]; norm_num
      linarith
    have hprod : |val (fdiv p d) * piV F| ≤ 12 := by
      rw [abs_mul, abs_of_pos (by linarith : (0:ℝ) < piV F)]
      nlinarith [abs_nonneg (val (fdiv p d))]
    obtain ⟨hf4, hv4⟩ := fmul_spec hf3 (fin_pi (F := F)) (by
      rw [val_pi]; apply inRange_of_abs_le_1000; linarith)
    rw [val_pi] at hv4
    refine ⟨hf4, ?_⟩
    have hc4 := rnd_close (F := F) (val (fdiv p d) * piV F)
    rw [← hv4] at hc4
    have h := abs_sub_abs_le_abs_sub (val (fmul (fdiv p d) (FloatLike.pi : F))) (val (fdiv p d) * piV F)
    have h53 : |val (fdiv p d) * piV F| / 2 ^ 53 ≤ 1 := by
      rw [div_le_one (by positivity)]; linarith [show (12:ℝ) ≤ 2 ^ 53 by norm_num]
    have : (1:ℝ) / 10 ^ 30 ≤ 1 := by rw [div_le_one (by positivity)]; norm_num
    have : (12:ℝ) + 1 + 1 ≤ 2 ^ 43 := by norm_num
    linarith

/-- the normalised total: finite, non-negative, at most `2^48`, for finite arguments with
    `|p| ≤ 1e200`, `|d| ≥ 1e-200` and `|p·π/d| ≤ 2^42` (the property's `|2p/d| ≤ 2^40` gives `2^41·π/4`) -/
theorem newTotal_spec {p d : F} (hp : Fin p) (hd : Fin d) (hpb : |val p| ≤ 10 ^ 200)
    (hdl : 1 / 10 ^ 200 ≤ |val d|) (hq : |val p * piV F / val d| ≤ 2 ^ 42) :
    Fin (newTotal p d) ∧ 0 ≤ val (newTotal p d) ∧ val (newTotal p d) ≤ 2 ^ 48 := by
  have hpi3 := piV_gt3 (F := F); have hpi4 := piV_lt4 (F := F)
  obtain ⟨hf2, hx2b⟩ := newRawTotal_spec hp hd hpb hdl hq
  obtain ⟨x2, hx2⟩ : ∃ x, x = val (newRawTotal p d) := ⟨_, rfl⟩
  rw [← hx2] at hx2b
  rw [abs_le] at hx2b
  unfold newTotal
  simp only
  by_cases hneg : flt (newRawTotal p d) (zero : F) = true
  · rw [if_pos hneg]
    have hx2neg : x2 < 0 := by
      have := (flt_spec hf2 fin_zero).mp hneg; rwa [val_zero, ← hx2] at this
    -- |total|
    obtain ⟨hfa, hva⟩ := fabs_spec hf2
    rw [← hx2, abs_of_neg hx2neg] at hva
    -- 4·qp = 2π exactly
    have hrep2pi : Rep (F := F) (2 * piV F) := by
      have := rep_mul_piV_pow2 (F := F) 1 (by norm_num); simpa using this
    obtain ⟨hf4, hv4⟩ := fmul_spec (fin_four (F := F)) (fin_qp (F := F)) (by
      rw [val_four, val_qp]; apply inRange_of_abs_le_1000; rw [abs_of_pos (by linarith)]; linarith)
    rw [val_four, val_qp, show (4:ℝ) * (piV F / 2) = 2 * piV F by ring, rnd_rep hrep2pi] at hv4
    -- quotient |total| / 2π
    have htp : (0:ℝ) < 2 * piV F := by linarith
    have hqt0 : 0 ≤ -x2 / (2 * piV F) := div_nonneg (by linarith) (le_of_lt htp)
    have hqt1 : -x2 / (2 * piV F) ≤ 2 ^ 41 := by
      rw [div_le_iff₀ htp]
      have : (2:ℝ) ^ 43 ≤ 2 ^ 41 * 6 := by norm_num
      nlinarith [hx2b.1]
    obtain ⟨hf5, hv5⟩ := fdiv_spec hfa hf4 (by rw [hv4]; linarith) (by
      rw [hva, hv4]; apply inRange_of_abs_le_2p60; rw [abs_of_nonneg hqt0]
      have : (2:ℝ) ^ 41 ≤ 2 ^ 60 := by norm_num
      linarith)
    rw [hva, hv4] at hv5
    have hn5 := rnd_near (F := F) hqt0 (by have : (2:ℝ) ^ 41 ≤ 2 ^ 53 := by norm_num
                                           linarith)
    rw [← hv5, abs_le] at hn5
    obtain ⟨y5, hy5⟩ : ∃ y, y = val (fdiv (fabs (newRawTotal p d)) (fmul four (qp : F))) := ⟨_, rfl⟩
    rw [← hy5] at hv5 hn5
    have hy50 : 0 ≤ y5 := by rw [hv5]; exact rnd_nonneg hqt0
    have hy51 : y5 ≤ 2 ^ 41 + 2 := by linarith [hn5.2]
    -- ceil
    obtain ⟨hf6, hv6⟩ := ceil_spec hf5
    rw [← hy5] at hv6
    have hn0 : (0:ℤ) ≤ ⌈y5⌉ := Int.ceil_nonneg hy50
    have hn1 : ((⌈y5⌉ : ℤ) : ℝ) ≤ 2 ^ 41 + 3 := by
      have := Int.ceil_lt_add_one y5; linarith
    obtain ⟨n, hn⟩ : ∃ n : ℕ, (n : ℤ) = ⌈y5⌉ := ⟨⌈y5⌉.toNat, Int.toNat_of_nonneg hn0⟩
    have hnr : (n : ℝ) = ((⌈y5⌉ : ℤ) : ℝ) := by exact_mod_cast congrArg (Int.cast (R := ℝ)) hn
    rw [← hnr] at hv6 hn1
    have hn53 : 4 * n < 2 ^ 53 := by
      have : (n : ℝ) < 2 ^ 42 := by
        have : (2:ℝ) ^ 41 + 3 < 2 ^ 42 := by norm_num
        linarith
      have : n < 2 ^ 42 := by exact_mod_cast this
      omega
    -- full·4 = 4n exactly
    obtain ⟨hf7, hv7⟩ := fmul_spec hf6 (fin_four (F := F)) (by
      rw [hv6, val_four]; apply inRange_of_abs_le_2p60
      rw [abs_of_nonneg (by positivity)]
      have : ((2:ℝ) ^ 41 + 3) * 4 ≤ 2 ^ 60 := by norm_num
      nlinarith)
    rw [hv6, val_four] at hv7
    have hrep4n : Rep (F := F) ((n : ℝ) * 4) := by
      have := rep_nat (F := F) (n := 4 * n) hn53
      rwa [show ((4 * n : ℕ) : ℝ) = (n : ℝ) * 4 by push_cast; ring] at this
    rw [rnd_rep hrep4n] at hv7
    -- ·qp
    have hqp := val_qp_gt (F := F); have hqp' := val_qp_lt (F := F)
    have hz0 : 0 ≤ (n : ℝ) * 4 * val (qp : F) := by positivity
    have hz1 : (n : ℝ) * 4 * val (qp : F) ≤ 2 ^ 45 := by
      have : (n : ℝ) * 4 * val (qp : F) ≤ (2 ^ 41 + 3) * 4 * 2 := by
        apply mul_le_mul (by nlinarith) (le_of_lt hqp') (by linarith) (by positivity)
      have : ((2:ℝ) ^ 41 + 3) * 4 * 2 ≤ 2 ^ 45 := by norm_num
      linarith
    obtain ⟨hf8, hv8⟩ := fmul_spec hf7 (fin_qp (F := F)) (by
      rw [hv7]; apply inRange_of_abs_le_2p60; rw [abs_of_nonneg hz0]
      have : (2:ℝ) ^ 45 ≤ 2 ^ 60 := by norm_num
      linarith)
    rw [hv7] at hv8
    have hn8 := rnd_near (F := F) hz0 (by have : (2:ℝ) ^ 45 ≤ 2 ^ 53 := by norm_num
                                          linarith)
    rw [← hv8, abs_le] at hn8
    obtain ⟨y8, hy8⟩ : ∃ y, y = val (fmul (fmul (FloatLike.ceil (fdiv (fabs (newRawTotal p d))
      (fmul four (qp : F)))) four) (qp : F)) := ⟨_, rfl⟩
    rw [← hy8] at hv8 hn8
    have hy80 : 0 ≤ y8 := by rw [hv8]; exact rnd_nonneg hz0
    have hy81 : y8 ≤ 2 ^ 45 + 2 := by linarith [hn8.2]
    -- total + that
    obtain ⟨hf9, hv9⟩ := fadd_spec hf2 hf8 (by
      rw [← hx2, ← hy8]; apply inRange_of_abs_le_2p60
      rw [abs_le]
      have : (2:ℝ) ^ 45 + 2 ≤ 2 ^ 60 := by norm_num
      have : (2:ℝ) ^ 43 ≤ 2 ^ 60 := by norm_num
      constructor <;> linarith [hx2b.1])
    rw [← hx2, ← hy8] at hv9
    -- clamp at zero
    obtain ⟨hf10, hv10⟩ := fmax_spec hf9 (fin_zero (F := F))
    rw [val_zero] at hv10
    refine ⟨hf10, by rw [hv10]; exact le_max_right _ _, ?_⟩
    rw [hv10, hv9]
    apply max_le _ (by positivity)
    by_cases hs : 0 ≤ x2 + y8
    · have h53' : x2 + y8 ≤ 2 ^ 53 := by
        have : (2:ℝ) ^ 45 + 2 ≤ 2 ^ 53 := by norm_num
        linarith
      have hnr := rnd_near (F := F) hs h53'
      rw [abs_le] at hnr
      have : (2:ℝ) ^ 45 + 2 + 2 ≤ 2 ^ 48 := by norm_num
      linarith [hnr.2]
    · push Not at hs
      have := rnd_nonpos (F := F) (le_of_lt hs)
      have : (0:ℝ) ≤ 2 ^ 48 := by positivity
      linarith
  · rw [if_neg hneg]
    have hx2nn : 0 ≤ x2 := by
      by_contra hc; push Not at hc
      exact hneg ((flt_spec hf2 fin_zero).mpr (by rwa [val_zero, ← hx2]))
    rw [← hx2]
    refine ⟨hf2, hx2nn, ?_⟩
    have : (2:ℝ) ^ 43 ≤ 2 ^ 48 := by norm_num
    linarith [hx2b.2]

/-- **every `Angle::new` result satisfies the invariant** (in particular its remainder is finite and in `[0, π/2)`) -/
theorem new_inv {p d : F} (hp : Fin p) (hd : Fin d) (hpb : |val p| ≤ 10 ^ 200)
    (hdl : 1 / 10 ^ 200 ≤ |val d|) (hq : |val p * piV F / val d| ≤ 2 ^ 42) :
    (Angle.new p d).Inv := by
  unfold Angle.new
  split
  · exact inv_zero _
  · obtain ⟨hf, h0, h1⟩ := newTotal_spec hp hd hpb hdl hq
    exact (newCore_spec (newTotal p d) hf h0 h1).1

end Angle
end GeonumModel
