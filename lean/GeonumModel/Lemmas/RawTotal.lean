/-
  GeonumModel.Lemmas.RawTotal — B-tier accuracy of `Angle::new`'s raw total `p·π/d` (both orders of operations); stated as a
  property theorem in `Props/C02.lean` (`C02.raw_total_accuracy`), kept here so that other lemma files can build on it.
-/
import GeonumModel.Lemmas.AngleNewTotal

set_option linter.unusedSectionVars false
set_option linter.unusedVariables false

namespace GeonumModel
open FloatLike FloatSpec
variable {F : Type} [FloatSpec F]
namespace Angle

theorem rawTotal_accuracy {p d : F} (hp : Fin p) (hd : Fin d) (hpb : |val p| ≤ 10 ^ 200)
    (hdl : 1 / 10 ^ 200 ≤ |val d|) (hq : |val p * piV F / val d| ≤ 2 ^ 42) :
    |val (newRawTotal p d) - val p * piV F / val d| ≤ |val p * piV F / val d| * (8 / 2 ^ 53) + 1 / 2 ^ 1070 := by
  have hpi3 := piV_gt3 (F := F); have hpi4 := piV_lt4 (F := F)
  have hdpos : 0 < |val d| := lt_of_lt_of_le (by positivity) hdl
  have hd0 : val d ≠ 0 := abs_pos.mp hdpos
  obtain ⟨hf1, hv1, hx1d⟩ := scaled_spec hp hd hpb hdl hq
  have he1 := rnd_err (F := F) (val p * piV F)
  rw [← hv1] at he1
  -- the tiny constants and their relations; their values are then forgotten
  have htN : (1:ℝ) / 2 ^ 1075 * 2 ^ 53 = 1 / 2 ^ 1022 := by
    rw [show (1075:ℕ) = 1022 + 53 by norm_num, pow_add]; field_simp
  have ht32 : (1:ℝ) / 2 ^ 1075 * 32 = 1 / 2 ^ 1070 := by
    rw [show (1075:ℕ) = 1070 + 5 by norm_num, pow_add]; field_simp; norm_num
  have ht0 : (0:ℝ) < 1 / 2 ^ 1075 := by positivity
  have h53 : (0:ℝ) < 2 ^ 53 := by positivity
  obtain ⟨x1, hx1⟩ : ∃ x, x = val (fmul p (FloatLike.pi : F)) := ⟨_, rfl⟩
  obtain ⟨A, hA⟩ : ∃ A, A = |val p * piV F| := ⟨_, rfl⟩
  obtain ⟨D, hD⟩ : ∃ D, D = |val d| := ⟨_, rfl⟩
  have hA0 : 0 ≤ A := by rw [hA]; exact abs_nonneg _
  have hQ : |val p * piV F / val d| = A / D := by rw [abs_div, hA, hD]
  have hQ0 : 0 ≤ A / D := by rw [← hQ]; exact abs_nonneg _
  rw [← hx1, ← hA] at he1
  rw [← hx1] at hx1d
  unfold newRawTotal
  simp only
  by_cases hnorm : FloatLike.isNormal (fmul p (FloatLike.pi : F)) = true
  · rw [if_pos hnorm]
    have hN := (isNormal_spec hf1).mp hnorm
    rw [← hx1] at hN
    obtain ⟨hf2, hv2⟩ := fdiv_spec hf1 hd hd0 (by
      rw [← hx1]; apply inRange_of_abs_le_2p60
      have : (2:ℝ) ^ 42 + 2 ≤ 2 ^ 60 := by norm_num
      linarith)
    rw [← hx1] at hv2
    have he2 := rnd_err (F := F) (x1 / val d)
    rw [← hv2] at he2
    rw [hQ]
    generalize (1:ℝ) / 2 ^ 1022 = N at htN hN
    generalize (1:ℝ) / 2 ^ 1070 = T at ht32 ⊢
    generalize (1:ℝ) / 2 ^ 1075 = t at htN ht32 ht0 he1 he2
    -- the smallest normal number bounds the product from below, so the absolute rounding term is a relative one
    have hx1A : |x1| ≤ 2 * A + t := by
      have h := abs_sub_abs_le_abs_sub x1 (val p * piV F)
      rw [← hA] at h
      have : A / 2 ^ 53 ≤ A := div_le_self hA0 (by norm_num)
      linarith
    have htA : t ≤ 4 * A / 2 ^ 53 := by
      rw [le_div_iff₀ h53]
      have : (2:ℝ) ^ 53 = 9007199254740992 := by norm_num
      rw [this] at htN ⊢
      linarith
    have hs0 : |x1 - val p * piV F| ≤ 5 * A / 2 ^ 53 := by
      have : A / 2 ^ 53 + 4 * A / 2 ^ 53 = 5 * A / 2 ^ 53 := by ring
      linarith
    have hs1 : |x1 / val d - val p * piV F / val d| ≤ 5 * (A / D) / 2 ^ 53 := by
      have e : x1 / val d - val p * piV F / val d = (x1 - val p * piV F) / val d := by ring
      rw [e, abs_div, ← hD]
      calc |x1 - val p * piV F| / D ≤ (5 * A / 2 ^ 53) / D := div_le_div_of_nonneg_right hs0 (by rw [hD]; exact le_of_lt hdpos)
        _ = 5 * (A / D) / 2 ^ 53 := by ring
    have hx1q : |x1 / val d| ≤ 2 * (A / D) := by
      have h := abs_sub_abs_le_abs_sub (x1 / val d) (val p * piV F / val d)
      rw [hQ] at h
      have : 5 * (A / D) / 2 ^ 53 ≤ A / D := by
        rw [div_le_iff₀ h53]; nlinarith [show (5:ℝ) ≤ 2 ^ 53 by norm_num]
      linarith
    have hx1q' : |x1 / val d| / 2 ^ 53 ≤ 2 * (A / D) / 2 ^ 53 := div_le_div_of_nonneg_right hx1q (le_of_lt h53)
    have hfin := abs_sub_le (val (fdiv (fmul p (FloatLike.pi : F)) d)) (x1 / val d) (val p * piV F / val d)
    have hT : t ≤ T := by rw [← ht32]; linarith
    have e8 : A / D * (8 / 2 ^ 53) = 8 * (A / D) / 2 ^ 53 := by ring
    have e7 : 2 * (A / D) / 2 ^ 53 + 5 * (A / D) / 2 ^ 53 ≤ 8 * (A / D) / 2 ^ 53 := by
      have : 2 * (A / D) / 2 ^ 53 + 5 * (A / D) / 2 ^ 53 = 7 * (A / D) / 2 ^ 53 := by ring
      rw [this]; apply div_le_div_of_nonneg_right _ (le_of_lt h53); linarith
    rw [e8]
    linarith
  · rw [if_neg hnorm]
    -- tiny product: divide first, scale last; two roundings, each with an absolute term of at most `t`
    have hpabs : |val p| ≤ 1 / 10 ^ 300 := by
      have hnn : ¬ ((1:ℝ) / 2 ^ 1022 ≤ |x1|) := fun h => hnorm ((isNormal_spec hf1).mpr (by rw [← hx1]; exact h))
      push Not at hnn
      have h1022 : 4 * ((1:ℝ) / 2 ^ 1022) ≤ 1 / 10 ^ 300 := by
        have e : 4 * ((1:ℝ) / 2 ^ 1022) = 1 / 2 ^ 1020 := by
          rw [show (1022:ℕ) = 2 + 1020 by norm_num, pow_add]; field_simp; norm_num
        rw [e]
        apply one_div_le_one_div_of_le (by positivity)
        calc (10:ℝ) ^ 300 = (10 ^ 3) ^ 100 := by rw [← pow_mul]
          _ ≤ (2 ^ 10) ^ 100 := by gcongr; norm_num
          _ = 2 ^ 1000 := by rw [← pow_mul]
          _ ≤ 2 ^ 1020 := pow_le_pow_right₀ (by norm_num) (by norm_num)
      have htiny : (1:ℝ) / 2 ^ 1075 ≤ 1 / 2 ^ 1022 :=
        one_div_le_one_div_of_le (by positivity) (pow_le_pow_right₀ (by norm_num) (by norm_num))
      generalize (1:ℝ) / 2 ^ 1022 = u at hnn htiny h1022
      generalize (1:ℝ) / 2 ^ 1075 = t at he1 htiny
      have hpp : A ≤ 4 * u := by
        have h1 := abs_sub_abs_le_abs_sub (val p * piV F) x1
        rw [abs_sub_comm, ← hA] at h1
        have h2 : A / 2 ^ 53 ≤ A / 2 := by
          apply div_le_div_of_nonneg_left hA0 (by norm_num) (by norm_num)
        linarith
      rw [hA, abs_mul, abs_of_pos (by linarith : (0:ℝ) < piV F)] at hpp
      nlinarith [abs_nonneg (val p)]
    have hpd : |val p / val d| ≤ 1 := by
      rw [abs_div, div_le_one hdpos]
      have : (1:ℝ) / 10 ^ 300 ≤ 1 / 10 ^ 200 :=
        one_div_le_one_div_of_le (by positivity) (pow_le_pow_right₀ (by norm_num) (by norm_num))
      generalize (1:ℝ) / 10 ^ 300 = a at this hpabs
      generalize (1:ℝ) / 10 ^ 200 = b at this hdl
      linarith
    obtain ⟨hf3, hv3⟩ := fdiv_spec hp hd hd0 (by apply inRange_of_abs_le_1000; linarith)
    have he3 := rnd_err (F := F) (val p / val d)
    rw [← hv3] at he3
    obtain ⟨y, hy⟩ : ∃ y, y = val (fdiv p d) := ⟨_, rfl⟩
    rw [← hy] at he3 hv3
    have hy3 : |y| ≤ 3 := by
      have h := abs_sub_abs_le_abs_sub y (val p / val d)
      have h53' : |val p / val d| / 2 ^ 53 ≤ 1 := by
        rw [div_le_one (by positivity)]; linarith [show (1:ℝ) ≤ 2 ^ 53 by norm_num]
      have : (1:ℝ) / 2 ^ 1075 ≤ 1 := by rw [div_le_one (by positivity)]; exact one_le_pow₀ (by norm_num)
      linarith
    obtain ⟨hf4, hv4⟩ := fmul_spec hf3 (fin_pi (F := F)) (by
      rw [val_pi, ← hy]; apply inRange_of_abs_le_1000
      rw [abs_mul, abs_of_pos (by linarith : (0:ℝ) < piV F)]
      nlinarith [abs_nonneg y])
    rw [val_pi, ← hy] at hv4
    have he4 := rnd_err (F := F) (y * piV F)
    rw [← hv4] at he4
    -- q = (p/d)·π
    have hqe : val p * piV F / val d = val p / val d * piV F := by ring
    have hQe : A / D = |val p / val d| * piV F := by
      rw [← hQ, hqe, abs_mul, abs_of_pos (by linarith : (0:ℝ) < piV F)]
    rw [hQ, hqe]
    generalize (1:ℝ) / 2 ^ 1070 = T at ht32 ⊢
    generalize (1:ℝ) / 2 ^ 1075 = t at ht32 ht0 he3 he4 htN
    obtain ⟨r, hr⟩ : ∃ r, r = |val p / val d| := ⟨_, rfl⟩
    rw [← hr] at he3 hQe
    have hr0 : 0 ≤ r := by rw [hr]; exact abs_nonneg _
    -- |yπ − (p/d)π| ≤ π(r/2^53 + t)
    have h1 : |y * piV F - val p / val d * piV F| ≤ piV F * (r / 2 ^ 53 + t) := by
      rw [← sub_mul, abs_mul, abs_of_pos (by linarith : (0:ℝ) < piV F), mul_comm]
      exact mul_le_mul_of_nonneg_left he3 (by linarith)
    -- |yπ| ≤ π(r + r/2^53 + t)
    have h2 : |y * piV F| ≤ piV F * (r + r / 2 ^ 53 + t) := by
      rw [abs_mul, abs_of_pos (by linarith : (0:ℝ) < piV F), mul_comm]
      apply mul_le_mul_of_nonneg_left _ (by linarith)
      have h := abs_sub_abs_le_abs_sub y (val p / val d)
      rw [← hr] at h; linarith
    have h2' : |y * piV F| / 2 ^ 53 ≤ piV F * (r + r / 2 ^ 53 + t) / 2 ^ 53 := div_le_div_of_nonneg_right h2 (le_of_lt h53)
    have hfin := abs_sub_le (val (fmul (fdiv p d) (FloatLike.pi : F))) (y * piV F) (val p / val d * piV F)
    have hrr : r / 2 ^ 53 ≤ r := div_le_self hr0 (by norm_num)
    have e8 : A / D * (8 / 2 ^ 53) = 8 * (piV F * r) / 2 ^ 53 := by rw [hQe]; ring
    rw [e8]
    -- collect: π(r + r/2^53 + t)/2^53 + t + π(r/2^53 + t) ≤ 8πr/2^53 + 32t
    have hπr : 0 ≤ piV F * r := mul_nonneg (by linarith) hr0
    have c1 : piV F * (r + r / 2 ^ 53 + t) / 2 ^ 53 ≤ 2 * (piV F * r) / 2 ^ 53 + 4 * t := by
      have e : piV F * (r + r / 2 ^ 53 + t) / 2 ^ 53 = (piV F * r) / 2 ^ 53 + (piV F * r) / 2 ^ 53 / 2 ^ 53 + piV F * t / 2 ^ 53 := by ring
      rw [e]
      have a1 : (piV F * r) / 2 ^ 53 / 2 ^ 53 ≤ (piV F * r) / 2 ^ 53 := div_le_self (div_nonneg hπr (le_of_lt h53)) (by norm_num)
      have a2 : piV F * t / 2 ^ 53 ≤ 4 * t := by
        rw [div_le_iff₀ h53]; nlinarith [show (1:ℝ) ≤ 2 ^ 53 by norm_num]
      have a3 : 2 * (piV F * r) / 2 ^ 53 = (piV F * r) / 2 ^ 53 + (piV F * r) / 2 ^ 53 := by ring
      linarith
    have c2 : piV F * (r / 2 ^ 53 + t) ≤ (piV F * r) / 2 ^ 53 + 4 * t := by
      have e : piV F * (r / 2 ^ 53 + t) = (piV F * r) / 2 ^ 53 + piV F * t := by ring
      have : piV F * t ≤ 4 * t := mul_le_mul_of_nonneg_right (le_of_lt hpi4) (le_of_lt ht0)
      rw [e]; linarith
    have c3 : 2 * (piV F * r) / 2 ^ 53 + (piV F * r) / 2 ^ 53 ≤ 8 * (piV F * r) / 2 ^ 53 := by
      have : 2 * (piV F * r) / 2 ^ 53 + (piV F * r) / 2 ^ 53 = 3 * (piV F * r) / 2 ^ 53 := by ring
      rw [this]
      have h38 : 3 * (piV F * r) ≤ 8 * (piV F * r) := by linarith
      exact div_le_div_of_nonneg_right h38 (le_of_lt h53)
    have hT : 9 * t ≤ T := by rw [← ht32]; linarith
    linarith


end Angle
end GeonumModel
