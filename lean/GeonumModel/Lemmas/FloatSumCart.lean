/-
  GeonumModel.Lemmas.FloatSumCart — B-tier closure of C06: the Cartesian point of a general-branch sum in ROUNDED arithmetic against
  the component-wise sum of the operands' true Cartesian points (true π), assembled from: the two rounded component sums
  (`component_sums_float`), the magnitude against the true norm (`sum_mag_true`), the libm `atan2` against the exact argument incl. the
  negative real axis (`atan2_dir`), the direction of the result (`add_general_direction_float`) and the phase bookkeeping between the
  float quarter turn and π/2 (`phase_real`).
-/
import GeonumModel.Lemmas.FloatSumDir
import GeonumModel.Lemmas.FloatProject
import GeonumModel.Lemmas.SumMagFloat

set_option linter.unusedSectionVars false
set_option linter.unusedVariables false

namespace GeonumModel
open FloatLike FloatSpec
variable {F : Type} [FloatSpec F]
namespace Angle

/-- the float grade angle is the true total reduced by whole turns, to within `5e-15` -/
theorem gradeAngle_true {x : Angle F} (hx : x.Inv) :
    |val x.gradeAngle - (Tpi x - ((x.blade / 4 : ℕ) : ℝ) * (2 * Real.pi))| ≤ 5 / 10 ^ 15 := by
  obtain ⟨_, hga, _, _⟩ := gradeAngle_spec hx
  have hq := qp_close (F := F)
  have hg3 : (x.grade : ℝ) ≤ 3 := by
    have : x.grade ≤ 3 := by unfold grade; omega
    exact_mod_cast this
  have hg0 : (0:ℝ) ≤ x.grade := Nat.cast_nonneg _
  have hred : Tpi x - ((x.blade / 4 : ℕ) : ℝ) * (2 * Real.pi) = (x.grade : ℝ) * (Real.pi / 2) + val x.rem := by
    unfold Tpi grade
    have h : x.blade = 4 * (x.blade / 4) + x.blade % 4 := (Nat.div_add_mod x.blade 4).symm
    have hr : (x.blade : ℝ) = 4 * ((x.blade / 4 : ℕ) : ℝ) + ((x.blade % 4 : ℕ) : ℝ) := by exact_mod_cast h
    rw [hr]; ring
  rw [hred]
  have e : val x.gradeAngle - ((x.grade : ℝ) * (Real.pi / 2) + val x.rem)
      = (val x.gradeAngle - ((x.grade : ℝ) * val (qp : F) + val x.rem)) + (x.grade : ℝ) * (val (qp : F) - Real.pi / 2) := by ring
  rw [e]
  have h2 : |(x.grade : ℝ) * (val (qp : F) - Real.pi / 2)| ≤ 3 * (1 / 10 ^ 16) := by
    rw [abs_mul, abs_of_nonneg hg0]
    exact mul_le_mul hg3 hq (abs_nonneg _) (by norm_num)
  have := abs_add_le (val x.gradeAngle - ((x.grade : ℝ) * val (qp : F) + val x.rem)) ((x.grade : ℝ) * (val (qp : F) - Real.pi / 2))
  have : (4:ℝ) / 10 ^ 15 + 3 * (1 / 10 ^ 16) ≤ 5 / 10 ^ 15 := by norm_num
  linarith

end Angle

namespace Geonum
open Angle

/-- one rounded addition of two products that are close to `P` and `Q` -/
theorem add_close {p q : F} {P Q ep eq M : ℝ} (hp : Fin p) (hq : Fin q) (hpP : |val p - P| ≤ ep) (hqQ : |val q - Q| ≤ eq)
    (hM : |val p| + |val q| ≤ M) (hM1 : M ≤ 10 ^ 101) :
    Fin (fadd p q) ∧ |val (fadd p q) - (P + Q)| ≤ ep + eq + M / 2 ^ 53 + 1 / 10 ^ 30 := by
  have hsum : |val p + val q| ≤ M := le_trans (abs_add_le _ _) hM
  obtain ⟨hf, hv⟩ := fadd_spec hp hq (inRange_of_le (by
    calc |val p + val q| ≤ M := hsum
      _ ≤ 10 ^ 101 := hM1
      _ ≤ 10 ^ 250 := pow_le_pow_right₀ (by norm_num) (by norm_num)))
  refine ⟨hf, ?_⟩
  rw [hv]
  have h1 := rnd_close (F := F) (val p + val q)
  have h2 : |val p + val q| / 2 ^ 53 ≤ M / 2 ^ 53 := div_le_div_of_nonneg_right hsum (by positivity)
  have e : rnd (F := F) (val p + val q) - (P + Q) = (rnd (F := F) (val p + val q) - (val p + val q)) + (val p - P) + (val q - Q) := by ring
  rw [e]
  have := abs_add_three (rnd (F := F) (val p + val q) - (val p + val q)) (val p - P) (val q - Q)
  linarith

/-- **the two rounded component sums of the general branch** are the true Cartesian component sums to within
    `(|a|+|b|)·8e-15 + 1e-29` each -/
theorem component_sums_float {a b : Geonum F} (ha : a.angle.Inv) (hb : b.angle.Inv) (hma : a.MagDom) (hmb : b.MagDom) :
    Fin (adjSum a b) ∧ Fin (oppSum a b) ∧
    |val (adjSum a b) - (val a.mag * Real.cos (Tpi a.angle) + val b.mag * Real.cos (Tpi b.angle))|
      ≤ (val a.mag + val b.mag) * (8 / 10 ^ 15) + 1 / 10 ^ 29 ∧
    |val (oppSum a b) - (val a.mag * Real.sin (Tpi a.angle) + val b.mag * Real.sin (Tpi b.angle))|
      ≤ (val a.mag + val b.mag) * (8 / 10 ^ 15) + 1 / 10 ^ 29 := by
  obtain ⟨haf, hA0, hA1⟩ := hma
  obtain ⟨hbf, hB0, hB1⟩ := hmb
  have hga := gradeAngle_fin ha; have hgb := gradeAngle_fin hb
  obtain ⟨hfca, hca1, hcae⟩ := cos_spec hga
  obtain ⟨hfcb, hcb1, hcbe⟩ := cos_spec hgb
  obtain ⟨hfsa, hsa1, hsae⟩ := sin_spec hga
  obtain ⟨hfsb, hsb1, hsbe⟩ := sin_spec hgb
  obtain ⟨hta_c, hta_s⟩ := trig_gradeAngle_true ha
  obtain ⟨htb_c, htb_s⟩ := trig_gradeAngle_true hb
  have het := errTrig_le (F := F)
  have close : ∀ {u v w : ℝ}, |u - v| ≤ errTrig F → |v - w| ≤ 5 / 10 ^ 15 → |u - w| ≤ 6 / 10 ^ 15 := by
    intro u v w h1 h2
    have e : u - w = (u - v) + (v - w) := by ring
    rw [e]
    have := abs_add_le (u - v) (v - w)
    have : (1:ℝ) / 10 ^ 15 + 5 / 10 ^ 15 = 6 / 10 ^ 15 := by norm_num
    linarith
  obtain ⟨hf1, h1⟩ := mul_unit_float haf hA0 hfca hca1 (close hcae hta_c)
  obtain ⟨hf2, h2⟩ := mul_unit_float hbf hB0 hfcb hcb1 (close hcbe htb_c)
  obtain ⟨hf3, h3⟩ := mul_unit_float haf hA0 hfsa hsa1 (close hsae hta_s)
  obtain ⟨hf4, h4⟩ := mul_unit_float hbf hB0 hfsb hsb1 (close hsbe htb_s)
  have pb : ∀ {m c : F}, Fin m → Fin c → 0 ≤ val m → |val c| ≤ 1 → |val (fmul m c)| ≤ val m := by
    intro m c hm hc hm0 hc1
    have := (fmul_le_one hm hc hc1).2
    rwa [abs_of_nonneg hm0] at this
  have hAB : val a.mag + val b.mag ≤ 10 ^ 101 := by
    have : (10:ℝ) ^ 100 + 10 ^ 100 ≤ 10 ^ 101 := by norm_num
    linarith
  have hnum : ∀ x : ℝ, 0 ≤ x → x * (6 / 10 ^ 15 + 1 / 2 ^ 53) + 1 / 10 ^ 30 ≤ x * (7 / 10 ^ 15) + 1 / 10 ^ 30 := by
    intro x hx
    have : (6:ℝ) / 10 ^ 15 + 1 / 2 ^ 53 ≤ 7 / 10 ^ 15 := by norm_num
    have := mul_le_mul_of_nonneg_left this hx
    linarith
  have fin_adj := add_close hf1 hf2 (le_trans h1 (hnum _ hA0)) (le_trans h2 (hnum _ hB0))
    (add_le_add (pb haf hfca hA0 hca1) (pb hbf hfcb hB0 hcb1)) hAB
  have fin_opp := add_close hf3 hf4 (le_trans h3 (hnum _ hA0)) (le_trans h4 (hnum _ hB0))
    (add_le_add (pb haf hfsa hA0 hsa1) (pb hbf hfsb hB0 hsb1)) hAB
  have hfinal : ∀ x y : ℝ, 0 ≤ x → 0 ≤ y →
      x * (7 / 10 ^ 15) + 1 / 10 ^ 30 + (y * (7 / 10 ^ 15) + 1 / 10 ^ 30) + (x + y) / 2 ^ 53 + 1 / 10 ^ 30
        ≤ (x + y) * (8 / 10 ^ 15) + 1 / 10 ^ 29 := by
    intro x y hx hy
    have h53 : (x + y) / 2 ^ 53 ≤ (x + y) * (1 / 10 ^ 15) := by
      rw [div_eq_mul_one_div]; exact mul_le_mul_of_nonneg_left (by norm_num) (by linarith)
    have : 3 * ((1:ℝ) / 10 ^ 30) ≤ 1 / 10 ^ 29 := by norm_num
    nlinarith
  exact ⟨fin_adj.1, fin_opp.1, le_trans fin_adj.2 (hfinal _ _ hA0 hB0), le_trans fin_opp.2 (hfinal _ _ hA0 hB0)⟩

/-- the libm cosine of the float difference of the two float grade angles is the cosine of the true difference of totals
    to within `1.3e-14` -/
theorem cos_gradeDiff_float {a b : Angle F} (ha : a.Inv) (hb : b.Inv) :
    |val (FloatLike.cos (fsub b.gradeAngle a.gradeAngle)) - Real.cos (Tpi b - Tpi a)| ≤ 13 / 10 ^ 15 := by
  obtain ⟨hfa, _, ha0, ha1⟩ := gradeAngle_spec ha
  obtain ⟨hfb, _, hb0, hb1⟩ := gradeAngle_spec hb
  have hq := val_qp_lt (F := F)
  have hdb : |val b.gradeAngle - val a.gradeAngle| ≤ 8 := by rw [abs_le]; constructor <;> linarith
  obtain ⟨hfd, hvd⟩ := fsub_spec hfb hfa (by apply inRange_of_abs_le_1000; linarith)
  obtain ⟨_, _, hce⟩ := cos_spec hfd
  have het := errTrig_le (F := F)
  have hr := rnd_close (F := F) (val b.gradeAngle - val a.gradeAngle)
  rw [← hvd] at hr
  have hr' : |val (fsub b.gradeAngle a.gradeAngle) - (val b.gradeAngle - val a.gradeAngle)| ≤ 1 / 10 ^ 15 := by
    have : |val b.gradeAngle - val a.gradeAngle| / 2 ^ 53 ≤ 8 / 2 ^ 53 := div_le_div_of_nonneg_right hdb (by positivity)
    have : (8:ℝ) / 2 ^ 53 + 1 / 10 ^ 30 ≤ 1 / 10 ^ 15 := by norm_num
    linarith
  have h2 := Real.abs_cos_sub_cos_le (val (fsub b.gradeAngle a.gradeAngle)) (val b.gradeAngle - val a.gradeAngle)
  have hta := gradeAngle_true ha
  have htb := gradeAngle_true hb
  -- cos(vgb − vga) = cos(θb − θa + e), |e| ≤ 1e-14
  set ea := val a.gradeAngle - (Tpi a - ((a.blade / 4 : ℕ) : ℝ) * (2 * Real.pi)) with hea
  set eb := val b.gradeAngle - (Tpi b - ((b.blade / 4 : ℕ) : ℝ) * (2 * Real.pi)) with heb
  have hk : val b.gradeAngle - val a.gradeAngle
      = (Tpi b - Tpi a + (eb - ea)) + ((a.blade / 4 : ℕ) : ℝ) * (2 * Real.pi) - ((b.blade / 4 : ℕ) : ℝ) * (2 * Real.pi) := by
    rw [hea, heb]; ring
  have hc3 : Real.cos (val b.gradeAngle - val a.gradeAngle) = Real.cos (Tpi b - Tpi a + (eb - ea)) := by
    rw [hk, Real.cos_sub_nat_mul_two_pi, Real.cos_add_nat_mul_two_pi]
  have h4 := Real.abs_cos_sub_cos_le (Tpi b - Tpi a + (eb - ea)) (Tpi b - Tpi a)
  have he : |eb - ea| ≤ 10 / 10 ^ 15 := by
    have := abs_sub eb ea
    have : (5:ℝ) / 10 ^ 15 + 5 / 10 ^ 15 = 10 / 10 ^ 15 := by norm_num
    linarith
  have h4' : |Real.cos (Tpi b - Tpi a + (eb - ea)) - Real.cos (Tpi b - Tpi a)| ≤ 10 / 10 ^ 15 := by
    have : Tpi b - Tpi a + (eb - ea) - (Tpi b - Tpi a) = eb - ea := by ring
    rw [this] at h4; linarith
  rw [hc3] at h2
  have e : val (FloatLike.cos (fsub b.gradeAngle a.gradeAngle)) - Real.cos (Tpi b - Tpi a)
      = (val (FloatLike.cos (fsub b.gradeAngle a.gradeAngle)) - Real.cos (val (fsub b.gradeAngle a.gradeAngle)))
        + (Real.cos (val (fsub b.gradeAngle a.gradeAngle)) - Real.cos (Tpi b - Tpi a + (eb - ea)))
        + (Real.cos (Tpi b - Tpi a + (eb - ea)) - Real.cos (Tpi b - Tpi a)) := by ring
  rw [e]
  have := abs_add_three (val (FloatLike.cos (fsub b.gradeAngle a.gradeAngle)) - Real.cos (val (fsub b.gradeAngle a.gradeAngle)))
    (Real.cos (val (fsub b.gradeAngle a.gradeAngle)) - Real.cos (Tpi b - Tpi a + (eb - ea)))
    (Real.cos (Tpi b - Tpi a + (eb - ea)) - Real.cos (Tpi b - Tpi a))
  have : (1:ℝ) / 10 ^ 15 + 1 / 10 ^ 15 + 10 / 10 ^ 15 ≤ 13 / 10 ^ 15 := by norm_num
  linarith

/-- law of cosines for the true Cartesian sum -/
theorem true_norm_sq (A B s t : ℝ) :
    (A * Real.cos s + B * Real.cos t) ^ 2 + (A * Real.sin s + B * Real.sin t) ^ 2 = A * A + B * B + 2 * A * B * Real.cos (t - s) := by
  rw [Real.cos_sub]
  have hs := Real.sin_sq_add_cos_sq s; have ht := Real.sin_sq_add_cos_sq t
  nlinarith [hs, ht]

/-- **the magnitude of a general-branch sum in rounded arithmetic against the TRUE norm of the Cartesian sum**:
    within `(|a|+|b|)·1.5e-7 + 1e-90` (the `√ε`-of-scale bound; the `1e-14` uncertainty of the cosine contributes `8.1e-8` of it) -/
theorem sum_mag_true {a b : Geonum F} (ha : a.angle.Inv) (hb : b.angle.Inv) (hma : a.MagDom) (hmb : b.MagDom)
    (h1 : sameAngle a b = false) (h2 : oppositeAngle a b = false) :
    |val (a.add b).mag - Real.sqrt (val a.mag * val a.mag + val b.mag * val b.mag
        + 2 * val a.mag * val b.mag * Real.cos (Tpi b.angle - Tpi a.angle))|
      ≤ (val a.mag + val b.mag) * (15 / 10 ^ 8) + 1 / 10 ^ 90 := by
  have hg := gradeAngle_sub_fin ha hb
  have hm := Geonum.sum_mag_float hma hmb hg h1 h2
  have hc := cos_gradeDiff_float ha hb
  obtain ⟨_, hcabs, _⟩ := cos_spec hg
  obtain ⟨_, hA0, _⟩ := hma
  obtain ⟨_, hB0, _⟩ := hmb
  set A := val a.mag; set B := val b.mag
  set c := val (FloatLike.cos (fsub b.angle.gradeAngle a.angle.gradeAngle)) with hcdef
  set C := Real.cos (Tpi b.angle - Tpi a.angle) with hCdef
  have hX0 : 0 ≤ A * A + B * B + 2 * A * B * c := by
    rw [abs_le] at hcabs
    nlinarith [mul_nonneg hA0 hB0, sq_nonneg (A - B)]
  have hY0 : 0 ≤ A * A + B * B + 2 * A * B * C := by
    have := Real.neg_one_le_cos (Tpi b.angle - Tpi a.angle)
    nlinarith [mul_nonneg hA0 hB0, sq_nonneg (A - B)]
  have hs := sqrt_sub_sqrt_le hX0 hY0
  have hdiff : |A * A + B * B + 2 * A * B * c - (A * A + B * B + 2 * A * B * C)| ≤ 2 * A * B * (13 / 10 ^ 15) := by
    have : A * A + B * B + 2 * A * B * c - (A * A + B * B + 2 * A * B * C) = 2 * A * B * (c - C) := by ring
    rw [this, abs_mul, abs_of_nonneg (by positivity)]
    exact mul_le_mul_of_nonneg_left hc (by positivity)
  have hsq : Real.sqrt |A * A + B * B + 2 * A * B * c - (A * A + B * B + 2 * A * B * C)| ≤ (A + B) * (81 / 10 ^ 9) := by
    apply Real.sqrt_le_iff.mpr
    refine ⟨by positivity, le_trans hdiff ?_⟩
    have : 2 * A * B ≤ (A + B) ^ 2 / 2 := by nlinarith [sq_nonneg (A - B)]
    have h13 : (13:ℝ) / 10 ^ 15 / 2 ≤ (81 / 10 ^ 9) ^ 2 := by norm_num
    calc 2 * A * B * (13 / 10 ^ 15) ≤ (A + B) ^ 2 / 2 * (13 / 10 ^ 15) := mul_le_mul_of_nonneg_right this (by positivity)
      _ = (A + B) ^ 2 * (13 / 10 ^ 15 / 2) := by ring
      _ ≤ (A + B) ^ 2 * (81 / 10 ^ 9) ^ 2 := mul_le_mul_of_nonneg_left h13 (by positivity)
      _ = ((A + B) * (81 / 10 ^ 9)) ^ 2 := by ring
  have e : val (a.add b).mag - Real.sqrt (A * A + B * B + 2 * A * B * C)
      = (val (a.add b).mag - Real.sqrt (A * A + B * B + 2 * A * B * c))
        + (Real.sqrt (A * A + B * B + 2 * A * B * c) - Real.sqrt (A * A + B * B + 2 * A * B * C)) := by ring
  rw [e]
  have := abs_add_le (val (a.add b).mag - Real.sqrt (A * A + B * B + 2 * A * B * c))
    (Real.sqrt (A * A + B * B + 2 * A * B * c) - Real.sqrt (A * A + B * B + 2 * A * B * C))
  have hnum : (1:ℝ) / 2 ^ 24 + 1 / 2 ^ 50 + 81 / 10 ^ 9 ≤ 15 / 10 ^ 8 := by norm_num
  have hAB : 0 ≤ A + B := by linarith
  have := mul_le_mul_of_nonneg_left hnum hAB
  nlinarith

/-- cosine and sine of the libm `atan2` value against those of the exact argument of the same point: within `2e-15`, in every case
    incl. the negative real axis (where the sign of a zero decides `±π`) -/
theorem atan2_dir {y x : F} (hy : Fin y) (hx : Fin x) :
    |Real.cos (val (FloatLike.atan2 y x)) - Real.cos (Complex.arg ⟨val x, val y⟩)| ≤ 2 / 10 ^ 15 ∧
    |Real.sin (val (FloatLike.atan2 y x)) - Real.sin (Complex.arg ⟨val x, val y⟩)| ≤ 2 / 10 ^ 15 := by
  obtain ⟨_, hab, hacc⟩ := atan2_spec hy hx
  have het := errTrig_le (F := F); have het0 := errTrig_nonneg (F := F)
  by_cases hc : val y = 0 ∧ val x < 0
  · -- negative real axis: the argument is π, the libm value is ±(π_f − e)
    have harg : Complex.arg ⟨val x, val y⟩ = Real.pi := by
      have : (⟨val x, val y⟩ : ℂ) = ((val x : ℝ) : ℂ) := by
        apply Complex.ext <;> simp [hc.1]
      rw [this]; exact Complex.arg_ofReal_of_neg hc.2
    rw [harg, Real.cos_pi, Real.sin_pi]
    have hlow := atan2_neg_axis hy hx hc.1 hc.2
    have hp1 := piV_le (F := F); have hp2 := piV_ge (F := F)
    obtain ⟨t, ht⟩ : ∃ t : ℝ, t = val (FloatLike.atan2 y x) := ⟨_, rfl⟩
    rw [← ht] at hlow hab ⊢
    obtain ⟨u, hu⟩ : ∃ u : ℝ, u = abs t := ⟨_, rfl⟩
    rw [← hu] at hlow hab
    have hcos : Real.cos t = Real.cos u := by rw [hu]; exact (Real.cos_abs t).symm
    have hsin : abs (Real.sin t) = abs (Real.sin u) := by
      rw [hu]
      rcases abs_choice t with h | h <;> rw [h]
      rw [Real.sin_neg, abs_neg]
    have hd : abs (u - Real.pi) ≤ 2 / 10 ^ 15 := by
      rw [abs_le]; constructor <;> linarith
    have h1 := Real.abs_cos_sub_cos_le u Real.pi
    have h2 := Real.abs_sin_sub_sin_le u Real.pi
    rw [Real.cos_pi] at h1; rw [Real.sin_pi, sub_zero] at h2
    constructor
    · rw [hcos]; linarith
    · rw [sub_zero, hsin]; linarith
  · have h := hacc hc
    have h1 := Real.abs_cos_sub_cos_le (val (FloatLike.atan2 y x)) (Complex.arg ⟨val x, val y⟩)
    have h2 := Real.abs_sin_sub_sin_le (val (FloatLike.atan2 y x)) (Complex.arg ⟨val x, val y⟩)
    have : (1:ℝ) / 10 ^ 15 ≤ 2 / 10 ^ 15 := by norm_num
    constructor <;> linarith

/-- a point of the plane in polar form through its exact argument -/
theorem polar_of_arg (x y : ℝ) :
    x = ‖(⟨x, y⟩ : ℂ)‖ * Real.cos (Complex.arg ⟨x, y⟩) ∧ y = ‖(⟨x, y⟩ : ℂ)‖ * Real.sin (Complex.arg ⟨x, y⟩) := by
  by_cases h0 : (⟨x, y⟩ : ℂ) = 0
  · have hx : x = 0 := by have := congrArg Complex.re h0; simpa using this
    have hy : y = 0 := by have := congrArg Complex.im h0; simpa using this
    subst hx; subst hy; simp
  · have hn : ‖(⟨x, y⟩ : ℂ)‖ ≠ 0 := norm_ne_zero_iff.mpr h0
    constructor
    · rw [Complex.cos_arg h0]; field_simp
    · rw [Complex.sin_arg]; field_simp

/-- the general branch returns a canonical angle -/
theorem add_general_inv {a b : Geonum F} (ha : a.angle.Inv) (hb : b.angle.Inv) (hma : a.MagDom) (hmb : b.MagDom)
    (hcb : a.angle.blade + b.angle.blade ≤ 2 ^ 39) (h1 : sameAngle a b = false) (h2 : oppositeAngle a b = false) :
    (a.add b).angle.Inv := by
  have hk53 : a.angle.blade + b.angle.blade < 2 ^ 53 := lt_of_le_of_lt hcb (by norm_num)
  obtain ⟨_, _, hfA, _, hAabs⟩ := general_adjusted ha hb hma hmb hcb
  rw [add_general a b h1 h2]
  show (Angle.newWithBlade _ _ (FloatLike.pi : F)).Inv
  unfold Angle.newWithBlade
  simp only [Angle.add, addVV]
  rw [new_nat _ hk53]
  refine geometricAdd_inv ?_ (inv_zero _)
  have h41 : |val (fsub (FloatLike.atan2 (oppSum a b) (adjSum a b))
      (fdiv (fmul (FloatLike.ofNat (a.angle.blade + b.angle.blade)) pi) two))| ≤ 2 ^ 41 := by
    have hc : ((a.angle.blade + b.angle.blade : ℕ) : ℝ) ≤ 2 ^ 39 := by exact_mod_cast hcb
    have : (2:ℝ) * 2 ^ 39 + 6 ≤ 2 ^ 41 := by norm_num
    linarith
  rcases le_or_gt 0 (val (fsub (FloatLike.atan2 (oppSum a b) (adjSum a b))
      (fdiv (fmul (FloatLike.ofNat (a.angle.blade + b.angle.blade)) pi) two))) with h | h
  · exact (new_radians_total hfA h (by rw [abs_of_nonneg h] at h41; exact h41)).1
  · exact (new_radians_total_neg hfA h (by rw [abs_of_neg h] at h41; linarith)).1

/-- pure real arithmetic: from "float total = t + n·4q + δ" to "true total = t + φ + n·2π" -/
theorem phase_real {br n : ℕ} {q r t D T : ℝ} (hq1 : 3 / 2 < q) (hqc : |q - Real.pi / 2| ≤ 1 / 10 ^ 16)
    (hr0 : 0 ≤ r) (hr1 : r ≤ q) (ht : |t| ≤ 4) (hD : D ≤ 1 / 10)
    (hdir : |((br : ℝ) * q + r) - (t + (n : ℝ) * (4 * q))| ≤ D) (hT : T = (br : ℝ) * (Real.pi / 2) + r) :
    |T - t - (n : ℝ) * (2 * Real.pi)| ≤ D + 1 / 10 ^ 15 := by
  rw [abs_le] at hdir ht
  have hpi4 := Real.pi_lt_four
  have hq2 : q ≤ 21 / 10 := by rw [abs_le] at hqc; linarith [hqc.2]
  have hk : |(br : ℝ) - 4 * (n : ℝ)| ≤ 5 := by
    have h : ((br : ℝ) - 4 * (n : ℝ)) * q = ((br : ℝ) * q + r) - (t + (n : ℝ) * (4 * q)) + t - r := by ring
    have hub : |((br : ℝ) - 4 * (n : ℝ)) * q| ≤ 7 := by
      rw [h, abs_le]; constructor <;> linarith [hdir.1, hdir.2, ht.1, ht.2]
    rw [abs_mul, abs_of_pos (by linarith : (0:ℝ) < q)] at hub
    by_contra hcon; push Not at hcon
    have : (5:ℝ) * (3 / 2) < |(br : ℝ) - 4 * (n : ℝ)| * q := by
      calc (5:ℝ) * (3 / 2) < |(br : ℝ) - 4 * (n : ℝ)| * (3 / 2) := by linarith
        _ ≤ |(br : ℝ) - 4 * (n : ℝ)| * q := mul_le_mul_of_nonneg_left (le_of_lt hq1) (abs_nonneg _)
    linarith
  have e : T - t - (n : ℝ) * (2 * Real.pi)
      = (((br : ℝ) * q + r) - (t + (n : ℝ) * (4 * q))) + ((br : ℝ) - 4 * (n : ℝ)) * (Real.pi / 2 - q) := by
    rw [hT]; ring
  rw [e]
  have h2 : |((br : ℝ) - 4 * (n : ℝ)) * (Real.pi / 2 - q)| ≤ 5 * (1 / 10 ^ 16) := by
    rw [abs_mul]; exact mul_le_mul hk (by rw [abs_sub_comm]; exact hqc) (abs_nonneg _) (by norm_num)
  have h3 : |((br : ℝ) * q + r) - (t + (n : ℝ) * (4 * q))| ≤ D := abs_le.mpr hdir
  have := abs_add_le (((br : ℝ) * q + r) - (t + (n : ℝ) * (4 * q))) (((br : ℝ) - 4 * (n : ℝ)) * (Real.pi / 2 - q))
  have : (5:ℝ) * (1 / 10 ^ 16) ≤ 1 / 10 ^ 15 := by norm_num
  linarith

/-- pure real arithmetic of one Cartesian component: `m·u` (result) against `w` (true component sum), through the polar form
    `w' = N'·v` of the rounded component sums -/
theorem component_assemble {m N' u v w w' S κ μ E : ℝ} (hu : |u| ≤ 1) (huv : |u - v| ≤ E) (hw' : w' = N' * v) (hww : |w' - w| ≤ κ)
    (hN'0 : 0 ≤ N') (hN'le : N' ≤ S + 2 * κ) (hmN' : |m - N'| ≤ μ + 2 * κ) (hE0 : 0 ≤ E) :
    |m * u - w| ≤ (μ + 2 * κ) + (S + 2 * κ) * E + κ := by
  have e : m * u - w = (m - N') * u + N' * (u - v) + (w' - w) := by rw [hw']; ring
  rw [e]
  have t1 : |(m - N') * u| ≤ μ + 2 * κ := by
    rw [abs_mul]
    calc |m - N'| * |u| ≤ |m - N'| * 1 := mul_le_mul_of_nonneg_left hu (abs_nonneg _)
      _ ≤ μ + 2 * κ := by rw [mul_one]; exact hmN'
  have t2 : |N' * (u - v)| ≤ (S + 2 * κ) * E := by
    rw [abs_mul, abs_of_nonneg hN'0]
    exact mul_le_mul hN'le huv (abs_nonneg _) (by linarith [abs_nonneg (u - v)])
  have := abs_add_three ((m - N') * u) (N' * (u - v)) (w' - w)
  linarith

/-- pure real arithmetic: the assembled bound is below the stated one -/
theorem bound_real {S e c : ℝ} (hS : 0 ≤ S) (he0 : 0 ≤ e) (he1 : e ≤ 1 / 10 ^ 9) (hc0 : 0 ≤ c) (hc1 : c ≤ 2 ^ 39) :
    let κ := S * (8 / 10 ^ 15) + 1 / 10 ^ 29
    let μ := S * (15 / 10 ^ 8) + 1 / 10 ^ 90
    let E := e + (40 * c + 170) * (1 / 2 ^ 53)
    (μ + 2 * κ) + (S + 2 * κ) * E + κ ≤ S * (2 / 10 ^ 7 + 11 / 10 * E) + 1 / 10 ^ 28 := by
  intro κ μ E
  have hE0 : 0 ≤ E := by positivity
  have hE1 : E ≤ 1 / 10 := by
    have : (40 * c + 170) * (1 / 2 ^ 53) ≤ (40 * 2 ^ 39 + 170) * (1 / 2 ^ 53) :=
      mul_le_mul_of_nonneg_right (by linarith) (by positivity)
    have : ((40:ℝ) * 2 ^ 39 + 170) * (1 / 2 ^ 53) ≤ 1 / 100 := by norm_num
    have : (1:ℝ) / 10 ^ 9 ≤ 1 / 100 := by norm_num
    show e + (40 * c + 170) * (1 / 2 ^ 53) ≤ 1 / 10
    linarith
  have h90 : (1:ℝ) / 10 ^ 90 ≤ 1 / 10 ^ 29 := one_div_le_one_div_of_le (by positivity) (pow_le_pow_right₀ (by norm_num) (by norm_num))
  have hκE : 2 * κ * E ≤ 2 * κ * (1 / 10) := mul_le_mul_of_nonneg_left hE1 (by positivity)
  have hSE : 0 ≤ S * E := mul_nonneg hS hE0
  show (S * (15 / 10 ^ 8) + 1 / 10 ^ 90 + 2 * κ) + (S + 2 * κ) * E + κ ≤ S * (2 / 10 ^ 7 + 11 / 10 * E) + 1 / 10 ^ 28
  have hκdef : κ = S * (8 / 10 ^ 15) + 1 / 10 ^ 29 := rfl
  have h28 : 5 * ((1:ℝ) / 10 ^ 29) ≤ 1 / 10 ^ 28 := by norm_num
  nlinarith

/-- **C06 in rounded arithmetic, general branch: the Cartesian components of `a + b` (true π) are the component-wise sums of the
    operands' Cartesian components** to within `(|a|+|b|)·(2e-7 + 1.1·(1e-10 + (40·cb + 170)·2⁻⁵³)) + 1e-28`: the first term is the
    `√ε`-of-scale magnitude bound, the second the direction error (snap + blade re-encoding) times the length -/
theorem sum_cartesian_float {a b : Geonum F} (ha : a.angle.Inv) (hb : b.angle.Inv) (hma : a.MagDom) (hmb : b.MagDom)
    (hcb : a.angle.blade + b.angle.blade ≤ 2 ^ 39) (h1 : sameAngle a b = false) (h2 : oppositeAngle a b = false) :
    |val (a.add b).mag * Real.cos (Tpi (a.add b).angle)
        - (val a.mag * Real.cos (Tpi a.angle) + val b.mag * Real.cos (Tpi b.angle))|
      ≤ (val a.mag + val b.mag) * (2 / 10 ^ 7 + 11 / 10 * (val (e10 : F)
          + (40 * ((a.angle.blade + b.angle.blade : ℕ) : ℝ) + 170) * (1 / 2 ^ 53))) + 1 / 10 ^ 28 ∧
    |val (a.add b).mag * Real.sin (Tpi (a.add b).angle)
        - (val a.mag * Real.sin (Tpi a.angle) + val b.mag * Real.sin (Tpi b.angle))|
      ≤ (val a.mag + val b.mag) * (2 / 10 ^ 7 + 11 / 10 * (val (e10 : F)
          + (40 * ((a.angle.blade + b.angle.blade : ℕ) : ℝ) + 170) * (1 / 2 ^ 53))) + 1 / 10 ^ 28 := by
  obtain ⟨hfadj, hfopp, hX, hY⟩ := component_sums_float ha hb hma hmb
  obtain ⟨n, hdir⟩ := add_general_direction_float ha hb hma hmb hcb h1 h2
  have hmag := sum_mag_true ha hb hma hmb h1 h2
  obtain ⟨hct, hst⟩ := atan2_dir hfopp hfadj
  obtain ⟨hrf, hr0, hr1⟩ := add_general_inv ha hb hma hmb hcb h1 h2
  obtain ⟨_, hA0, hA1⟩ := hma
  obtain ⟨_, hB0, hB1⟩ := hmb
  have he := val_e10_pos (F := F); have he' := val_e10_small (F := F)
  have hc0 : (0:ℝ) ≤ ((a.angle.blade + b.angle.blade : ℕ) : ℝ) := Nat.cast_nonneg _
  have hcle : ((a.angle.blade + b.angle.blade : ℕ) : ℝ) ≤ 2 ^ 39 := by exact_mod_cast hcb
  have hatb : |val (FloatLike.atan2 (oppSum a b) (adjSum a b))| ≤ 4 :=
    le_trans (atan2_spec hfopp hfadj).2.1 (le_of_lt (piV_lt4 (F := F)))
  -- generalize everything to reals
  generalize ht : val (FloatLike.atan2 (oppSum a b) (adjSum a b)) = t at *
  generalize hX' : val (adjSum a b) = X' at *
  generalize hY' : val (oppSum a b) = Y' at *
  generalize hm : val (a.add b).mag = m at *
  generalize hA : val a.mag = A at *
  generalize hB : val b.mag = B at *
  generalize hc : ((a.angle.blade + b.angle.blade : ℕ) : ℝ) = c at *
  generalize hedef : val (e10 : F) = e at *
  -- the phase
  have hD1 : e + (40 * c + 140) * (1 / 2 ^ 53) + 1 / 10 ^ 298 ≤ 1 / 10 := by
    have : (40 * c + 140) * (1 / 2 ^ 53) ≤ (40 * 2 ^ 39 + 140) * (1 / 2 ^ 53) :=
      mul_le_mul_of_nonneg_right (by linarith) (by positivity)
    have : ((40:ℝ) * 2 ^ 39 + 140) * (1 / 2 ^ 53) ≤ 1 / 100 := by norm_num
    have : (1:ℝ) / 10 ^ 298 ≤ 1 / 100 := one_div_le_one_div_of_le (by norm_num) (by
      calc (100:ℝ) = 10 ^ 2 := by norm_num
        _ ≤ 10 ^ 298 := pow_le_pow_right₀ (by norm_num) (by norm_num))
    linarith
  have hqr : val (a.add b).angle.rem ≤ val (qp : F) := by linarith
  have hphase := phase_real (br := (a.add b).angle.blade) (n := n) (q := val (qp : F)) (r := val (a.add b).angle.rem) (t := t)
    (D := e + (40 * c + 140) * (1 / 2 ^ 53) + 1 / 10 ^ 298) (T := Tpi (a.add b).angle)
    (val_qp_gt (F := F)) (qp_close (F := F)) hr0 hqr hatb hD1 (le_of_lt hdir) rfl
  obtain ⟨φ, hφ⟩ : ∃ φ : ℝ, φ = Tpi (a.add b).angle - t - (n : ℝ) * (2 * Real.pi) := ⟨_, rfl⟩
  rw [← hφ] at hphase
  have hTr : Tpi (a.add b).angle = t + φ + (n : ℝ) * (2 * Real.pi) := by rw [hφ]; ring
  have hcosr : Real.cos (Tpi (a.add b).angle) = Real.cos (t + φ) := by rw [hTr]; exact Real.cos_add_nat_mul_two_pi _ _
  have hsinr : Real.sin (Tpi (a.add b).angle) = Real.sin (t + φ) := by rw [hTr]; exact Real.sin_add_nat_mul_two_pi _ _
  -- polar form of the rounded component sums
  obtain ⟨hXp, hYp⟩ := polar_of_arg X' Y'
  obtain ⟨N', hN'⟩ : ∃ x : ℝ, x = ‖(⟨X', Y'⟩ : ℂ)‖ := ⟨_, rfl⟩
  obtain ⟨α, hα⟩ : ∃ x : ℝ, x = Complex.arg ⟨X', Y'⟩ := ⟨_, rfl⟩
  rw [← hN', ← hα] at hXp hYp
  rw [← hα] at hct hst
  have hN'0 : 0 ≤ N' := by rw [hN']; exact norm_nonneg _
  -- the true norm
  obtain ⟨X, hXd⟩ : ∃ x : ℝ, x = A * Real.cos (Tpi a.angle) + B * Real.cos (Tpi b.angle) := ⟨_, rfl⟩
  obtain ⟨Y, hYd⟩ : ∃ x : ℝ, x = A * Real.sin (Tpi a.angle) + B * Real.sin (Tpi b.angle) := ⟨_, rfl⟩
  rw [← hXd] at hX ⊢; rw [← hYd] at hY ⊢
  obtain ⟨N, hN⟩ : ∃ x : ℝ, x = Real.sqrt (A * A + B * B + 2 * A * B * Real.cos (Tpi b.angle - Tpi a.angle)) := ⟨_, rfl⟩
  rw [← hN] at hmag
  have hNz : N = ‖(⟨X, Y⟩ : ℂ)‖ := by
    rw [hN, hXd, hYd, ← true_norm_sq A B (Tpi a.angle) (Tpi b.angle), Complex.norm_def, Complex.normSq_mk]
    congr 1; ring
  obtain ⟨κ, hκ⟩ : ∃ x : ℝ, x = (A + B) * (8 / 10 ^ 15) + 1 / 10 ^ 29 := ⟨_, rfl⟩
  obtain ⟨μ, hμ⟩ : ∃ x : ℝ, x = (A + B) * (15 / 10 ^ 8) + 1 / 10 ^ 90 := ⟨_, rfl⟩
  rw [← hκ] at hX hY; rw [← hμ] at hmag
  have hAB0 : 0 ≤ A + B := by linarith
  have hκ0 : 0 ≤ κ := by rw [hκ]; positivity
  have hzz : |N' - N| ≤ 2 * κ := by
    rw [hNz, hN']
    have h := abs_norm_sub_norm_le (⟨X', Y'⟩ : ℂ) ⟨X, Y⟩
    have h2 := Complex.norm_le_abs_re_add_abs_im ((⟨X', Y'⟩ : ℂ) - ⟨X, Y⟩)
    simp only [Complex.sub_re, Complex.sub_im] at h2
    linarith only [h, h2, hX, hY]
  have hNle : N ≤ A + B := by
    rw [hN]
    apply Real.sqrt_le_iff.mpr
    refine ⟨hAB0, ?_⟩
    have hcle1 := Real.cos_le_one (Tpi b.angle - Tpi a.angle)
    have h2ab : 2 * A * B * Real.cos (Tpi b.angle - Tpi a.angle) ≤ 2 * A * B * 1 :=
      mul_le_mul_of_nonneg_left hcle1 (by positivity)
    have e2 : (A + B) ^ 2 = A * A + B * B + 2 * A * B * 1 := by ring
    rw [e2]; linarith only [h2ab]
  have hN'le : N' ≤ (A + B) + 2 * κ := by rw [abs_le] at hzz; linarith only [hzz.1, hzz.2, hNle]
  have hmN' : |m - N'| ≤ μ + 2 * κ := by
    have e1 : m - N' = (m - N) - (N' - N) := by ring
    rw [e1]; have h9 := abs_sub (m - N) (N' - N); linarith only [h9, hmag, hzz]
  -- the trig distance
  obtain ⟨E, hE⟩ : ∃ x : ℝ, x = e + (40 * c + 170) * (1 / 2 ^ 53) := ⟨_, rfl⟩
  have hE0 : 0 ≤ E := by rw [hE]; positivity
  have hφE : |φ| + 2 / 10 ^ 15 ≤ E := by
    have h298 : (1:ℝ) / 10 ^ 298 ≤ 1 / 10 ^ 20 := one_div_le_one_div_of_le (by positivity) (pow_le_pow_right₀ (by norm_num) (by norm_num))
    have hnum : (1:ℝ) / 10 ^ 20 + 1 / 10 ^ 15 + 2 / 10 ^ 15 ≤ 30 * (1 / 2 ^ 53) := by norm_num
    rw [hE]; nlinarith only [hphase, h298, hnum, hc0]
  have htrig : |Real.cos (t + φ) - Real.cos α| ≤ E ∧ |Real.sin (t + φ) - Real.sin α| ≤ E := by
    have h1' := Real.abs_cos_sub_cos_le (t + φ) t
    have h2' := Real.abs_sin_sub_sin_le (t + φ) t
    have : t + φ - t = φ := by ring
    rw [this] at h1' h2'
    constructor
    · have e1 : Real.cos (t + φ) - Real.cos α = (Real.cos (t + φ) - Real.cos t) + (Real.cos t - Real.cos α) := by ring
      rw [e1]; have h9 := abs_add_le (Real.cos (t + φ) - Real.cos t) (Real.cos t - Real.cos α); linarith only [h9, h1', hct, hφE]
    · have e1 : Real.sin (t + φ) - Real.sin α = (Real.sin (t + φ) - Real.sin t) + (Real.sin t - Real.sin α) := by ring
      rw [e1]; have h9 := abs_add_le (Real.sin (t + φ) - Real.sin t) (Real.sin t - Real.sin α); linarith only [h9, h2', hst, hφE]
  have hbound := bound_real (S := A + B) (e := e) (c := c) hAB0 (le_of_lt he) he' hc0 hcle
  simp only at hbound
  rw [← hκ, ← hμ, ← hE] at hbound
  rw [← hE]
  constructor
  · rw [hcosr]
    exact le_trans (component_assemble (Real.abs_cos_le_one _) htrig.1 hXp hX hN'0 hN'le hmN' hE0) hbound
  · rw [hsinr]
    exact le_trans (component_assemble (Real.abs_sin_le_one _) htrig.2 hYp hY hN'0 hN'le hmN' hE0) hbound

/-- true Euclidean distance of two polar points -/
noncomputable def euclid (A B s t : ℝ) : ℝ := Real.sqrt (A * A + B * B - 2 * A * B * Real.cos (t - s))

/-- the true total of a negated angle is a half turn on -/
theorem Tpi_negate {x : Angle F} (hx : x.Inv) : Tpi x.negate = Tpi x + Real.pi ∧ x.negate.Inv := by
  obtain ⟨hb, hf, hv⟩ := negate_spec hx
  refine ⟨?_, inv_of_spec hx ⟨hf, hv⟩⟩
  unfold Tpi; rw [hb, hv]; push_cast; ring

/-- **`|a − b|` in rounded arithmetic is the true Euclidean distance** (general branch of the underlying sum) to within
    `(|a|+|b|)·1.5e-7`: with `distance_true`, "the distance equals `|a − b|`" holds up to the two bounds -/
theorem sub_mag_true {a b : Geonum F} (ha : a.angle.Inv) (hb : b.angle.Inv) (hma : a.MagDom) (hmb : b.MagDom)
    (h1 : sameAngle a b.negate = false) (h2 : oppositeAngle a b.negate = false) :
    |val (a.sub b).mag - euclid (val a.mag) (val b.mag) (Tpi a.angle) (Tpi b.angle)|
      ≤ (val a.mag + val b.mag) * (15 / 10 ^ 8) + 1 / 10 ^ 90 := by
  obtain ⟨hT, hninv⟩ := Tpi_negate hb
  have hmn : b.negate.MagDom := hmb
  have h := sum_mag_true ha (show b.negate.angle.Inv from hninv) hma hmn h1 h2
  have hT' : Tpi b.negate.angle = Tpi b.angle + Real.pi := hT
  have hmagn : val b.negate.mag = val b.mag := rfl
  rw [hT', hmagn] at h
  have hcos : Real.cos (Tpi b.angle + Real.pi - Tpi a.angle) = -Real.cos (Tpi b.angle - Tpi a.angle) := by
    have : Tpi b.angle + Real.pi - Tpi a.angle = (Tpi b.angle - Tpi a.angle) + Real.pi := by ring
    rw [this, Real.cos_add_pi]
  rw [hcos] at h
  unfold euclid
  have e : val a.mag * val a.mag + val b.mag * val b.mag + 2 * val a.mag * val b.mag * -Real.cos (Tpi b.angle - Tpi a.angle)
      = val a.mag * val a.mag + val b.mag * val b.mag - 2 * val a.mag * val b.mag * Real.cos (Tpi b.angle - Tpi a.angle) := by ring
  rw [e] at h
  exact h

end Geonum
end GeonumModel
