/-
  GeonumModel.Lemmas.Structural — G-tier helper lemmas: true for every arithmetic `F` (no assumption
  on the float operations at all).  Core Lean only.
-/
import GeonumModel.Model.Collection
import GeonumModel.Model.Traits

set_option linter.unusedSectionVars false

namespace GeonumModel
open FloatLike
variable {F : Type} [FloatLike F]

namespace Angle

/-- add `4n` quarter turns to the blade count -/
def shift4 (a : Angle F) (n : Nat) : Angle F := ⟨a.rem, a.blade + 4 * n⟩
/-- add `k` quarter turns to the blade count -/
def shift (a : Angle F) (k : Nat) : Angle F := ⟨a.rem, a.blade + k⟩

@[simp] theorem shift4_rem (a : Angle F) (n : Nat) : (a.shift4 n).rem = a.rem := rfl
@[simp] theorem shift4_blade (a : Angle F) (n : Nat) : (a.shift4 n).blade = a.blade + 4 * n := rfl
@[simp] theorem shift_rem (a : Angle F) (n : Nat) : (a.shift n).rem = a.rem := rfl
@[simp] theorem shift_blade (a : Angle F) (n : Nat) : (a.shift n).blade = a.blade + n := rfl

/-- what `normalize_boundaries` does to the remainder and how many blades it adds depend on the remainder only -/
def normRem (r : F) : F := (normalizeBoundaries (⟨r, 0⟩ : Angle F)).rem
def normCarry (r : F) : Nat := (normalizeBoundaries (⟨r, 0⟩ : Angle F)).blade

theorem normalizeBoundaries_eq (r : F) (b : Nat) :
    normalizeBoundaries (⟨r, b⟩ : Angle F) = ⟨normRem r, b + normCarry r⟩ := by
  unfold normRem normCarry normalizeBoundaries
  simp only
  split
  · simp
  · split
    · split <;> simp [Nat.add_assoc]
    · simp

theorem wrap4_nonneg (d : Int) (h : 0 ≤ d) : (wrap4 d : Int) = d := by
  unfold wrap4; rw [if_neg (by omega)]; omega

theorem wrap4_neg_lt (d : Int) (h : d < 0) : wrap4 d < 4 := by
  unfold wrap4; rw [if_pos h]; omega

theorem wrap4_mod (d : Int) : ((wrap4 d : Nat) : Int) % 4 = d % 4 := by
  unfold wrap4
  split
  · have : 0 ≤ d + (-d + 3) / 4 * 4 := by omega
    rw [Int.toNat_of_nonneg this]; omega
  · rw [Int.toNat_of_nonneg (by omega)]

theorem wrap4_ge (d : Int) : d ≤ (wrap4 d : Int) := by
  unfold wrap4
  split
  · have : 0 ≤ d + (-d + 3) / 4 * 4 := by omega
    rw [Int.toNat_of_nonneg this]; omega
  · rw [Int.toNat_of_nonneg (by omega)]; omega

theorem wrap4_shift_mod (d : Int) (k : Int) : (wrap4 (d + 4 * k)) % 4 = (wrap4 d) % 4 := by
  have h1 := wrap4_mod (d + 4 * k)
  have h2 := wrap4_mod d
  omega

/-- the remainder of a difference never depends on the blade counts -/
theorem geometricSub_rem_blade_indep (a b : Angle F) (ba bb : Nat) :
    ((⟨a.rem, ba⟩ : Angle F).geometricSub ⟨b.rem, bb⟩).rem = (a.geometricSub b).rem := by
  unfold geometricSub
  simp only
  split
  · rfl
  · simp [normalizeBoundaries_eq]

end Angle
end GeonumModel
