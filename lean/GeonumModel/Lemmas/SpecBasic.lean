/-
  GeonumModel.Lemmas.SpecBasic — S-tier helper lemmas: constants, thresholds and the
  `normalize_boundaries` step, for any arithmetic satisfying `FloatSpec`.
-/
import GeonumModel.Spec.FloatSpec
import GeonumModel.Lemmas.Structural
import Mathlib.Analysis.Real.Pi.Bounds
import Mathlib.Tactic

set_option linter.unusedSectionVars false
set_option linter.unusedVariables false

namespace GeonumModel
open FloatLike FloatSpec

variable {F : Type} [FloatSpec F]

/-! ### literals -/
theorem fin_nat {n : ℕ} (h : n < 2 ^ 53) : Fin (FloatLike.ofNat n : F) := (ofNat_spec h).1
theorem val_nat {n : ℕ} (h : n < 2 ^ 53) : val (FloatLike.ofNat n : F) = n := (ofNat_spec h).2

theorem fin_zero : Fin (zero : F) := fin_nat (by norm_num)
theorem val_zero : val (zero : F) = 0 := by
  have := val_nat (F := F) (n := 0) (by norm_num); simpa [zero] using this
theorem fin_one : Fin (one : F) := fin_nat (by norm_num)
theorem val_one : val (one : F) = 1 := by
  have := val_nat (F := F) (n := 1) (by norm_num); simpa [one] using this
theorem fin_two : Fin (two : F) := fin_nat (by norm_num)
theorem val_two : val (two : F) = 2 := by
  have := val_nat (F := F) (n := 2) (by norm_num); simpa [two] using this
theorem fin_three : Fin (three : F) := fin_nat (by norm_num)
theorem val_three : val (three : F) = 3 := by
  have := val_nat (F := F) (n := 3) (by norm_num); simpa [three] using this
theorem fin_four : Fin (four : F) := fin_nat (by norm_num)
theorem val_four : val (four : F) = 4 := by
  have := val_nat (F := F) (n := 4) (by norm_num); simpa [four] using this

theorem rep_zero : Rep (F := F) 0 := by
  have := rep_nat (F := F) (n := 0) (by norm_num); simpa using this

theorem rnd_zero : rnd (F := F) 0 = 0 := rnd_rep rep_zero

theorem rnd_nonneg {x : ℝ} (h : 0 ≤ x) : 0 ≤ rnd (F := F) x := by
  have := rnd_mono (F := F) h; rwa [rnd_zero] at this

theorem rnd_nonpos {x : ℝ} (h : x ≤ 0) : rnd (F := F) x ≤ 0 := by
  have := rnd_mono (F := F) h; rwa [rnd_zero] at this

theorem rnd_val {a : F} (h : Fin a) : rnd (F := F) (val a) = val a := rnd_rep (rep_val h)

/-! ### π and the quarter turn -/
theorem fin_pi : Fin (FloatLike.pi : F) := pi_spec.1
theorem val_pi : val (FloatLike.pi : F) = piV F := pi_spec.2

theorem piV_gt : (3.1415 : ℝ) < piV F := by
  have h1 := piV_ge (F := F)
  have h2 := Real.pi_gt_d6
  norm_num at h1 h2 ⊢
  linarith
theorem piV_lt : piV F < (3.1416 : ℝ) := by
  have h1 := piV_le (F := F)
  have h2 := Real.pi_lt_d4
  norm_num at h2 ⊢
  linarith
theorem piV_pos : 0 < piV F := by have := piV_gt (F := F); norm_num at this; linarith
theorem piV_gt3 : (3 : ℝ) < piV F := by have := piV_gt (F := F); norm_num at this; linarith
theorem piV_lt4 : piV F < (4 : ℝ) := by have := piV_lt (F := F); norm_num at this; linarith

theorem rep_piV : Rep (F := F) (piV F) := by
  have := rep_val (F := F) fin_pi; rwa [val_pi] at this

theorem two_pow_1000_big : (4 : ℝ) ≤ 2 ^ 1000 := by
  calc (4:ℝ) = 2 ^ 2 := by norm_num
    _ ≤ 2 ^ 1000 := pow_le_pow_right₀ (by norm_num) (by norm_num)

theorem inv_two_pow_1000_small : (1 : ℝ) / 2 ^ 1000 ≤ 1 := by
  rw [div_le_one (by positivity)]
  exact one_le_pow₀ (by norm_num)

theorem rep_half_piV : Rep (F := F) (piV F / 2) := by
  have h := rep_scale (F := F) (x := piV F) (-1) rep_piV
  have e : piV F * (2:ℝ) ^ (-1 : ℤ) = piV F / 2 := by
    rw [zpow_neg, zpow_one]; ring
  rw [e] at h
  have hp := piV_gt3 (F := F); have hl := piV_lt4 (F := F)
  have habs : |piV F / 2| = piV F / 2 := abs_of_pos (by linarith)
  apply h
  · rw [habs]; have := inv_two_pow_1000_small; generalize (1:ℝ) / 2 ^ 1000 = t at *; linarith
  · rw [habs]; have := two_pow_1000_big; generalize (2:ℝ) ^ 1000 = t at *; linarith

theorem inRange_small {x : ℝ} (h : |x| ≤ 10 ^ 250) : InRange (F := F) x := inRange_of_le h

theorem ten_pow_250_big : (1000 : ℝ) ≤ 10 ^ 250 := by
  calc (1000:ℝ) = 10 ^ 3 := by norm_num
    _ ≤ 10 ^ 250 := pow_le_pow_right₀ (by norm_num) (by norm_num)

theorem inRange_of_abs_le_1000 {x : ℝ} (h : |x| ≤ 1000) : InRange (F := F) x :=
  inRange_of_le (le_trans h ten_pow_250_big)

theorem inRange_of_abs_le_2p60 {x : ℝ} (h : |x| ≤ 2 ^ 60) : InRange (F := F) x := by
  apply inRange_of_le
  calc |x| ≤ 2 ^ 60 := h
    _ ≤ 10 ^ 60 := by gcongr; norm_num
    _ ≤ 10 ^ 250 := pow_le_pow_right₀ (by norm_num) (by norm_num)

theorem qp_spec : Fin (qp : F) ∧ val (qp : F) = piV F / 2 := by
  have hp := piV_gt3 (F := F); have hl := piV_lt4 (F := F)
  have h := fdiv_spec (F := F) fin_pi fin_two (by rw [val_two]; norm_num)
    (by rw [val_pi, val_two]; apply inRange_of_abs_le_1000; rw [abs_of_pos (by linarith)]; linarith)
  rw [val_pi, val_two, rnd_rep rep_half_piV] at h
  exact h
theorem fin_qp : Fin (qp : F) := qp_spec.1
theorem val_qp : val (qp : F) = piV F / 2 := qp_spec.2
theorem val_qp_gt : (3 : ℝ) / 2 < val (qp : F) := by rw [val_qp]; have := piV_gt3 (F := F); linarith
theorem val_qp_lt : val (qp : F) < (2 : ℝ) := by rw [val_qp]; have := piV_lt4 (F := F); linarith

/-! ### the thresholds `1e-10` and `1e-15` -/
theorem tiny_1075 : (1 : ℝ) / 2 ^ 1075 ≤ 1 / 10 ^ 30 := by
  apply one_div_le_one_div_of_le (by positivity)
  calc (10:ℝ) ^ 30 ≤ 16 ^ 30 := by gcongr; norm_num
    _ = 2 ^ 120 := by norm_num
    _ ≤ 2 ^ 1075 := pow_le_pow_right₀ (by norm_num) (by norm_num)

theorem rnd_close (x : ℝ) : |rnd (F := F) x - x| ≤ |x| / 2 ^ 53 + 1 / 10 ^ 30 :=
  le_trans (rnd_err x) (by have := tiny_1075; linarith)

theorem e10_spec : Fin (e10 : F) ∧ val (e10 : F) = rnd (F := F) (1 / 10 ^ 10) := by
  have := ofSci_spec (F := F) (m := 1) (e := 10) (by norm_num) (by norm_num)
  simpa [e10] using this
theorem e15_spec : Fin (e15 : F) ∧ val (e15 : F) = rnd (F := F) (1 / 10 ^ 15) := by
  have := ofSci_spec (F := F) (m := 1) (e := 15) (by norm_num) (by norm_num)
  simpa [e15] using this
theorem fin_e10 : Fin (e10 : F) := e10_spec.1
theorem fin_e15 : Fin (e15 : F) := e15_spec.1

theorem val_e10_bounds : (9 : ℝ) / 10 ^ 11 ≤ val (e10 : F) ∧ val (e10 : F) ≤ 11 / 10 ^ 11 := by
  rw [e10_spec.2]
  have h := rnd_close (F := F) (1 / 10 ^ 10)
  rw [abs_le] at h
  have hx : |(1:ℝ) / 10 ^ 10| = 1 / 10 ^ 10 := abs_of_pos (by positivity)
  rw [hx] at h
  have h53 : (1:ℝ) / 10 ^ 10 / 2 ^ 53 ≤ 1 / 10 ^ 12 := by
    rw [div_div]; apply one_div_le_one_div_of_le (by positivity)
    have : (100:ℝ) ≤ 2 ^ 53 := by norm_num
    calc (10:ℝ) ^ 12 = 10 ^ 10 * 100 := by norm_num
      _ ≤ 10 ^ 10 * 2 ^ 53 := by gcongr
  constructor <;> norm_num at * <;> linarith
theorem val_e10_pos : 0 < val (e10 : F) := by
  have := (val_e10_bounds (F := F)).1
  have : (0:ℝ) < 9 / 10 ^ 11 := by positivity
  linarith
