/-
  GeonumModel.Lemmas.AngleNew — `Angle::new` (fast path, general path, constant table) in rounded arithmetic (S-tier).
-/
import GeonumModel.Lemmas.AngleSub

set_option linter.unusedSectionVars false
set_option linter.unusedVariables false

namespace GeonumModel
open FloatLike FloatSpec

variable {F : Type} [FloatSpec F]

namespace Angle

/-- value equivalence of angles: same blade, finite remainders with the same real value
    (on binary64: identical bits except possibly the sign of a zero remainder) -/
def Equiv (a b : Angle F) : Prop :=
  a.blade = b.blade ∧ Fin a.rem ∧ Fin b.rem ∧ val a.rem = val b.rem

scoped infix:50 " ≈ₐ " => Angle.Equiv

theorem Equiv.refl' {a : Angle F} (h : Fin a.rem) : a ≈ₐ a := ⟨rfl, h, h, rfl⟩
theorem Equiv.symm {a b : Angle F} (h : a ≈ₐ b) : b ≈ₐ a := ⟨h.1.symm, h.2.2.1, h.2.1, h.2.2.2.symm⟩
theorem Equiv.trans {a b c : Angle F} (h : a ≈ₐ b) (g : b ≈ₐ c) : a ≈ₐ c :=
  ⟨h.1.trans g.1, h.2.1, g.2.2.1, h.2.2.2.trans g.2.2.2⟩
theorem Equiv.inv {a b : Angle F} (h : a ≈ₐ b) (ha : a.Inv) : b.Inv :=
  ⟨h.2.2.1, by rw [← h.2.2.2]; exact ha.2.1, by rw [← h.2.2.2]; exact ha.2.2⟩

/-! ### the exact quarter-turn fast path -/

theorem feq_two_two : feq (two : F) two = true := (feq_spec fin_two fin_two).mpr rfl

/-- `Angle::new(k as f64, 2.0)` is literally `Angle { rem: 0.0, blade: k }` -/
theorem new_nat (k : ℕ) (hk : k < 2 ^ 53) : Angle.new (FloatLike.ofNat k : F) two = ⟨zero, k⟩ := by
  have hf := fin_nat (F := F) hk
  have hv := val_nat (F := F) hk
  obtain ⟨hff, hfz⟩ := fract_spec hf
  have hfr : feq (FloatLike.fract (FloatLike.ofNat k : F)) zero = true := by
    rw [feq_spec hff fin_zero, val_zero, hfz]; exact ⟨k, by rw [hv]; simp⟩
  have hnl : flt (FloatLike.ofNat k : F) zero = false := by
    rw [Bool.eq_false_iff]; intro h
    rw [flt_spec hf fin_zero, hv, val_zero] at h
    have : (0:ℝ) ≤ k := Nat.cast_nonneg k
    linarith
  have hus : toUsize (FloatLike.ofNat k : F) = k := by
    rw [toUsize_spec hf (by rw [hv]; exact Nat.cast_nonneg k)
      (by rw [hv]; have : (k:ℝ) < 2 ^ 53 := by exact_mod_cast hk
          have : (2:ℝ) ^ 53 ≤ 2 ^ 64 := pow_le_pow_right₀ (by norm_num) (by norm_num)
          linarith), hv]
    exact Nat.floor_natCast k
  unfold Angle.new newFast
  simp [feq_two_two, hfr, hnl, hus]

theorem new_zero_two : Angle.new (zero : F) two = ⟨zero, 0⟩ := new_nat 0 (by norm_num)
theorem new_one_two : Angle.new (one : F) two = ⟨zero, 1⟩ := new_nat 1 (by norm_num)
theorem new_two_two : Angle.new (two : F) two = ⟨zero, 2⟩ := new_nat 2 (by norm_num)
theorem new_three_two : Angle.new (three : F) two = ⟨zero, 3⟩ := new_nat 3 (by norm_num)

theorem rnd_nat {n : ℕ} (h : n < 2 ^ 53) : rnd (F := F) (n : ℝ) = n := rnd_rep (rep_nat h)

/-- `Angle::new(-1.0, 2.0)` is literally `Angle { rem: 0.0, blade: 3 }` (used by `decrement_blade`) -/
theorem new_negone_two : Angle.new (fneg one : F) two = ⟨zero, 3⟩ := by
  obtain ⟨hfn, hvn⟩ := fneg_spec (fin_one (F := F))
  rw [val_one] at hvn
  obtain ⟨hff, hfz⟩ := fract_spec hfn
  have hfr : feq (FloatLike.fract (fneg one : F)) zero = true := by
    rw [feq_spec hff fin_zero, val_zero, hfz]; exact ⟨-1, by rw [hvn]; simp⟩
  have hl : flt (fneg one : F) zero = true := by
    rw [flt_spec hfn fin_zero, hvn, val_zero]; norm_num
  -- -p + 3 = 4
  obtain ⟨hfnn, hvnn⟩ := fneg_spec hfn
  rw [hvn] at hvnn
  have r4 : rnd (F := F) 4 = 4 := by have := rnd_nat (F := F) (n := 4) (by norm_num); simpa using this
  have r1 : rnd (F := F) 1 = 1 := by have := rnd_nat (F := F) (n := 1) (by norm_num); simpa using this
  have r3 : rnd (F := F) 3 = 3 := by have := rnd_nat (F := F) (n := 3) (by norm_num); simpa using this
  obtain ⟨hfa, hva⟩ := fadd_spec hfnn (fin_three (F := F))
    (by apply inRange_of_abs_le_1000; rw [hvnn, val_three]; norm_num)
  rw [hvnn, val_three] at hva
  have hva' : val (fadd (fneg (fneg one)) (three : F)) = 4 := by rw [hva]; norm_num; exact r4
  obtain ⟨hfd, hvd⟩ := fdiv_spec hfa (fin_four (F := F)) (by rw [val_four]; norm_num)
    (by apply inRange_of_abs_le_1000; rw [hva', val_four]; norm_num)
  rw [hva', val_four] at hvd
  have hvd' : val (fdiv (fadd (fneg (fneg one)) three) (four : F)) = 1 := by rw [hvd]; norm_num; exact r1
  obtain ⟨hfc, hvc⟩ := ceil_spec hfd
  rw [hvd'] at hvc
  have hvc' : val (FloatLike.ceil (fdiv (fadd (fneg (fneg one)) three) (four : F))) = 1 := by
    rw [hvc]; simp
  obtain ⟨hfm, hvm⟩ := fmul_spec hfc (fin_four (F := F))
    (by apply inRange_of_abs_le_1000; rw [hvc', val_four]; norm_num)
  rw [hvc', val_four] at hvm
  have hvm' : val (fmul (FloatLike.ceil (fdiv (fadd (fneg (fneg one)) three) (four : F))) four) = 4 := by
    rw [hvm]; norm_num; exact r4
  obtain ⟨hfs, hvs⟩ := fadd_spec hfn hfm
    (by apply inRange_of_abs_le_1000; rw [hvn, hvm']; norm_num)
  rw [hvn, hvm'] at hvs
  have hvs' : val (fadd (fneg one) (fmul (FloatLike.ceil (fdiv (fadd (fneg (fneg one)) three) (four : F))) four)) = 3 := by
    rw [hvs]; norm_num; exact r3
  have hus : toUsize (fadd (fneg one) (fmul (FloatLike.ceil (fdiv (fadd (fneg (fneg one)) three) (four : F))) four)) = 3 := by
    rw [toUsize_spec hfs (by rw [hvs']; norm_num) (by rw [hvs']; norm_num), hvs']
    norm_num
  unfold Angle.new newFast
  simp [feq_two_two, hfr, hl, hus]

/-! ### the general path, from a finite non-negative normalised total -/

theorem round_of_close {z : ℝ} {k : ℕ} (h : |z - k| < 1 / 2) : round z = (k : ℤ) := by
  rw [round_eq, Int.floor_eq_iff]
  rw [abs_lt] at h
  constructor <;> push_cast <;> linarith

/-- the body of the general path after `normalized_total` has been computed: for a finite total
    `0 ≤ nt ≤ 2^45`, the result satisfies the invariant, and blade and remainder decompose `nt` exactly
    unless the remainder was within `1e-10` of a quarter turn (then it is snapped to the next blade) -/
theorem newCore_spec (nt : F) (hf : Fin nt) (h0 : 0 ≤ val nt) (hbig : val nt ≤ 2 ^ 48) :
    let rem := fmod nt (qp : F)
    let blade := toUsize (FloatLike.round (fdiv (fsub nt rem) (qp : F)))
    let res := normalizeBoundaries ⟨rem, blade⟩
    res.Inv ∧
    ( (res.blade = ⌊val nt / val (qp : F)⌋₊ ∧ (res.blade : ℝ) * val (qp : F) + val res.rem = val nt) ∨
      (res.blade = ⌊val nt / val (qp : F)⌋₊ + 1 ∧ val res.rem = 0 ∧
        |(res.blade : ℝ) * val (qp : F) - val nt| < val (e10 : F)) ) := by
  intro rem blade res
  have hq := val_qp_gt (F := F); have hq' := val_qp_lt (F := F)
  have hqpos : (0:ℝ) < val (qp : F) := by linarith
  have he := val_e10_pos (F := F); have he' := val_e10_small (F := F)
  obtain ⟨hfr, hvr⟩ := fmod_spec hf fin_qp h0 hqpos
  -- k = ⌊nt/qp⌋ as a natural number
  have hquot0 : 0 ≤ val nt / val (qp : F) := div_nonneg h0 (le_of_lt hqpos)
  set k : ℕ := ⌊val nt / val (qp : F)⌋₊ with hk
  have hkf : (⌊val nt / val (qp : F)⌋ : ℤ) = (k : ℤ) := by
    rw [hk]; exact (Int.natCast_floor_eq_floor hquot0).symm
  have hk1 : (k : ℝ) ≤ val nt / val (qp : F) := Nat.floor_le hquot0
  have hk2 : val nt / val (qp : F) < k + 1 := Nat.lt_floor_add_one _
  have hk1' : (k : ℝ) * val (qp : F) ≤ val nt := by rwa [le_div_iff₀ hqpos] at hk1
  have hk2' : val nt < ((k : ℝ) + 1) * val (qp : F) := by rwa [div_lt_iff₀ hqpos] at hk2
  have hvr' : val rem = val nt - (k : ℝ) * val (qp : F) := by
    show val (fmod nt (qp : F)) = _
    rw [hvr, hkf]; push_cast; ring
  have hr0 : 0 ≤ val rem := by rw [hvr']; linarith
  have hrq : val rem < val (qp : F) := by rw [hvr']; nlinarith
  have hkbig : (k : ℝ) ≤ 2 ^ 48 := by
    have : (k : ℝ) * 1 ≤ (k : ℝ) * val (qp : F) := by
      apply mul_le_mul_of_nonneg_left (by linarith) (Nat.cast_nonneg k)
    linarith
  -- nt − rem = k·qp, rounded
  have hdiff : val nt - val rem = (k : ℝ) * val (qp : F) := by rw [hvr']; ring
  have hkq0 : 0 ≤ (k : ℝ) * val (qp : F) := by positivity
  obtain ⟨hfs, hvs⟩ := fsub_spec hf hfr (by
    apply inRange_of_abs_le_2p60; rw [hdiff, abs_of_nonneg hkq0]
    have : (2:ℝ) ^ 45 ≤ 2 ^ 60 := by norm_num
    linarith)
  rw [hdiff] at hvs
  have hc1 := rnd_close (F := F) ((k : ℝ) * val (qp : F))
  rw [← hvs, abs_of_nonneg hkq0] at hc1
  set y := val (fsub nt rem) with hy
  have hy0 : 0 ≤ y := by rw [hvs]; exact rnd_nonneg hkq0
  -- y / qp, rounded
  have hyq : |y / val (qp : F) - k| ≤ (k : ℝ) / 2 ^ 53 + 1 / 10 ^ 30 := by
    have e : y / val (qp : F) - k = (y - (k : ℝ) * val (qp : F)) / val (qp : F) := by field_simp
    rw [e, abs_div, abs_of_pos hqpos, div_le_iff₀ hqpos]
    have h1 : (k : ℝ) * val (qp : F) / 2 ^ 53 + 1 / 10 ^ 30 ≤ ((k : ℝ) / 2 ^ 53 + 1 / 10 ^ 30) * val (qp : F) := by
      have : (1:ℝ) / 10 ^ 30 ≤ 1 / 10 ^ 30 * val (qp : F) := by
        have : (0:ℝ) < 1 / 10 ^ 30 := by positivity
        nlinarith
      calc (k : ℝ) * val (qp : F) / 2 ^ 53 + 1 / 10 ^ 30
          = (k : ℝ) / 2 ^ 53 * val (qp : F) + 1 / 10 ^ 30 := by ring
        _ ≤ (k : ℝ) / 2 ^ 53 * val (qp : F) + 1 / 10 ^ 30 * val (qp : F) := by linarith
        _ = ((k : ℝ) / 2 ^ 53 + 1 / 10 ^ 30) * val (qp : F) := by ring
    linarith
  have hk53 : (k : ℝ) / 2 ^ 53 ≤ 1 / 2 ^ 5 := by
    rw [div_le_div_iff₀ (by positivity) (by positivity)]
    calc (k : ℝ) * 2 ^ 5 ≤ 2 ^ 48 * 2 ^ 5 := by gcongr
      _ = 1 * 2 ^ 53 := by norm_num
  rw [abs_le] at hyq
  have hyq0 : 0 ≤ y / val (qp : F) := div_nonneg hy0 (le_of_lt hqpos)
  have hyqub : y / val (qp : F) ≤ 2 ^ 48 + 1 := by
    have h1 : (1:ℝ) / 2 ^ 8 + 1 / 10 ^ 30 ≤ 1 := by norm_num
    have h2 := hyq.2
    linarith
  obtain ⟨hfd, hvd⟩ := fdiv_spec hfs fin_qp (by linarith) (by
    apply inRange_of_abs_le_2p60; rw [abs_of_nonneg hyq0]
    have : (2:ℝ) ^ 45 + 1 ≤ 2 ^ 60 := by norm_num
    linarith)
  have hc2 := rnd_close (F := F) (y / val (qp : F))
  rw [← hvd, abs_of_nonneg hyq0] at hc2
  set z := val (fdiv (fsub nt rem) (qp : F)) with hz
  have hz0 : 0 ≤ z := by rw [hvd]; exact rnd_nonneg hyq0
  have hzk : |z - k| < 1 / 2 := by
    rw [abs_le] at hc2
    have h53' : y / val (qp : F) / 2 ^ 53 ≤ (2 ^ 48 + 1) / 2 ^ 53 :=
      div_le_div_of_nonneg_right hyqub (by positivity)
    have hnum : (2 ^ 48 + 1 : ℝ) / 2 ^ 53 + 1 / 10 ^ 30 + (1 / 2 ^ 5 + 1 / 10 ^ 30) < 1 / 2 := by norm_num
    rw [abs_lt]; constructor <;> linarith
  obtain ⟨hfro, hvro⟩ := round_spec hfd hz0
  rw [round_of_close hzk] at hvro
  have hblade : blade = k := by
    show toUsize (FloatLike.round (fdiv (fsub nt rem) (qp : F))) = k
    rw [toUsize_spec hfro (by rw [hvro]; simp) (by
      rw [hvro]; push_cast
      have : (2:ℝ) ^ 45 < 2 ^ 64 := by norm_num
      linarith), hvro]
    push_cast; exact Nat.floor_natCast k
  -- normalisation of ⟨rem, k⟩ with rem ∈ [0, qp)
  obtain ⟨hinv, hcase⟩ := normalizeBoundaries_spec rem blade hfr hr0 (by linarith)
  refine ⟨hinv, ?_⟩
  have hres : res = normalizeBoundaries ⟨rem, blade⟩ := rfl
  rcases hcase with ⟨h, _⟩ | ⟨h, hnear⟩ | ⟨_, _, hbig'⟩
  · left
    have e : res = ⟨rem, blade⟩ := hres.trans h
    rw [e]; simp only
    exact ⟨hblade, by rw [hblade, hvr']; ring⟩
  · right
    have e : res = ⟨zero, blade + 1⟩ := hres.trans h
    rw [e]; simp only
    refine ⟨by rw [hblade], val_zero, ?_⟩
    rw [hblade]; push_cast
    rw [abs_lt] at hnear ⊢
    rw [hvr'] at hnear
    constructor <;> nlinarith
  · exfalso; linarith

end Angle
end GeonumModel

namespace GeonumModel
open FloatLike FloatSpec
variable {F : Type} [FloatSpec F]
namespace Angle

theorem feq_one_two : feq (one : F) two = false := by
  rw [Bool.eq_false_iff]; intro h
  rw [feq_spec fin_one fin_two, val_one, val_two] at h; norm_num at h

theorem rep_mul_piV_pow2 (j : ℕ) (hj : j ≤ 8) : Rep (F := F) ((2:ℝ) ^ j * piV F) := by
  have h := rep_scale (F := F) (x := piV F) (j : ℤ) rep_piV
  rw [zpow_natCast] at h
  have hp := piV_gt3 (F := F); have hl := piV_lt4 (F := F)
  have h1 : (1:ℝ) ≤ 2 ^ j := one_le_pow₀ (by norm_num)
  have h2 : (2:ℝ) ^ j ≤ 2 ^ 8 := pow_le_pow_right₀ (by norm_num) hj
  have hpos : 0 < piV F * 2 ^ j := by positivity
  rw [mul_comm]
  apply h
  · rw [abs_of_pos hpos]
    have := inv_two_pow_1000_small
    have : (3:ℝ) ≤ piV F * 2 ^ j := by nlinarith
    generalize (1:ℝ) / 2 ^ 1000 = t at *; linarith
  · rw [abs_of_pos hpos]
    have hb : piV F * 2 ^ j ≤ 4 * 2 ^ 8 := by nlinarith
    have : (4:ℝ) * 2 ^ 8 ≤ 2 ^ 1000 := by
      calc (4:ℝ) * 2 ^ 8 = 2 ^ 10 := by norm_num
        _ ≤ 2 ^ 1000 := pow_le_pow_right₀ (by norm_num) (by norm_num)
    generalize (2:ℝ) ^ 1000 = t at *; linarith

/-- the general path on an argument whose total `m·π` is exactly representable (`m` a power of two or zero),
    with divisor 1: blade `2m`, remainder of value 0 -/
theorem new_pi_multiple (m : ℕ) (hm : m = 0 ∨ ∃ j ≤ 8, m = 2 ^ j) :
    Angle.new (FloatLike.ofNat m : F) one ≈ₐ ⟨zero, 2 * m⟩ := by
  have hm53 : m < 2 ^ 53 := by
    rcases hm with rfl | ⟨j, hj, rfl⟩
    · norm_num
    · exact Nat.pow_lt_pow_right (by norm_num) (by omega)
  have hf := fin_nat (F := F) hm53
  have hv := val_nat (F := F) hm53
  have hp := piV_gt3 (F := F); have hl := piV_lt4 (F := F)
  have hm256 : (m : ℝ) ≤ 256 := by
    rcases hm with rfl | ⟨j, hj, rfl⟩
    · norm_num
    · push_cast
      calc (2:ℝ) ^ j ≤ 2 ^ 8 := pow_le_pow_right₀ (by norm_num) hj
        _ = 256 := by norm_num
  have hrep : Rep (F := F) ((m : ℝ) * piV F) := by
    rcases hm with rfl | ⟨j, hj, rfl⟩
    · simpa using rep_zero (F := F)
    · push_cast; exact rep_mul_piV_pow2 j hj
  have hmp0 : 0 ≤ (m : ℝ) * piV F := by positivity
  have hmp1 : (m : ℝ) * piV F ≤ 1024 := by nlinarith
  obtain ⟨hfm, hvm⟩ := fmul_spec hf (fin_pi (F := F)) (by
    rw [hv, val_pi]; apply inRange_of_abs_le_2p60; rw [abs_of_nonneg hmp0]
    have : (1024:ℝ) ≤ 2 ^ 60 := by norm_num
    linarith)
  rw [hv, val_pi, rnd_rep hrep] at hvm
  obtain ⟨hfd, hvd⟩ := fdiv_spec hfm (fin_one (F := F)) (by rw [val_one]; norm_num) (by
    rw [hvm, val_one, div_one]; apply inRange_of_abs_le_2p60; rw [abs_of_nonneg hmp0]
    have : (1024:ℝ) ≤ 2 ^ 60 := by norm_num
    linarith)
  rw [hvm, val_one, div_one, rnd_rep hrep] at hvd
  -- the raw total is `m·π` whichever order of operations the normal-range test selects
  obtain ⟨hfr, hvr⟩ : Fin (newRawTotal (FloatLike.ofNat m : F) one) ∧
      val (newRawTotal (FloatLike.ofNat m : F) one) = (m : ℝ) * piV F := by
    unfold newRawTotal
    simp only
    by_cases hnorm : FloatLike.isNormal (fmul (FloatLike.ofNat m : F) pi) = true
    · rw [if_pos hnorm]; exact ⟨hfd, hvd⟩
    · rw [if_neg hnorm]
      obtain ⟨hf1, hv1⟩ := fdiv_spec hf (fin_one (F := F)) (by rw [val_one]; norm_num) (by
        rw [hv, val_one, div_one]; apply inRange_of_abs_le_2p60; rw [abs_of_nonneg (by positivity)]
        have : (256:ℝ) ≤ 2 ^ 60 := by norm_num
        linarith)
      rw [hv, val_one, div_one, rnd_rep (rep_nat hm53)] at hv1
      obtain ⟨hf2, hv2⟩ := fmul_spec hf1 (fin_pi (F := F)) (by
        rw [hv1, val_pi]; apply inRange_of_abs_le_2p60; rw [abs_of_nonneg hmp0]
        have : (1024:ℝ) ≤ 2 ^ 60 := by norm_num
        linarith)
      rw [hv1, val_pi, rnd_rep hrep] at hv2
      exact ⟨hf2, hv2⟩
  have hnl : flt (newRawTotal (FloatLike.ofNat m : F) one) zero = false := by
    rw [Bool.eq_false_iff]; intro h
    rw [flt_spec hfr fin_zero, hvr, val_zero] at h; linarith
  have hnt : newTotal (FloatLike.ofNat m : F) one = newRawTotal (FloatLike.ofNat m : F) one := by
    unfold newTotal; simp [hnl]
  have hcore := newCore_spec (newTotal (FloatLike.ofNat m : F) one) (by rw [hnt]; exact hfr)
    (by rw [hnt, hvr]; exact hmp0)
    (by rw [hnt, hvr]
        have : (1024:ℝ) ≤ 2 ^ 48 := by norm_num
        linarith)
  have hq := val_qp (F := F)
  have hquot : val (newTotal (FloatLike.ofNat m : F) one) / val (qp : F) = ((2 * m : ℕ) : ℝ) := by
    rw [hnt, hvr, hq]; push_cast; field_simp
  have hfl : ⌊val (newTotal (FloatLike.ofNat m : F) one) / val (qp : F)⌋₊ = 2 * m := by
    rw [hquot]; exact Nat.floor_natCast _
  have hnew : Angle.new (FloatLike.ofNat m : F) one =
      normalizeBoundaries ⟨fmod (newTotal (FloatLike.ofNat m : F) one) qp,
        toUsize (FloatLike.round (fdiv (fsub (newTotal (FloatLike.ofNat m : F) one)
          (fmod (newTotal (FloatLike.ofNat m : F) one) qp)) qp))⟩ := by
    unfold Angle.new newGeneral
    simp [feq_one_two]
  obtain ⟨hinv, hcase⟩ := hcore
  rw [← hnew] at hinv hcase
  rw [hfl] at hcase
  have he := val_e10_small (F := F); have hqg := val_qp_gt (F := F)
  rcases hcase with ⟨hb, hT⟩ | ⟨hb, _, hT⟩
  · refine ⟨hb, hinv.1, fin_zero, ?_⟩
    rw [val_zero]
    rw [hb, hnt, hvr, hq] at hT
    push_cast at hT
    linarith
  · exfalso
    rw [hb, hnt, hvr, hq] at hT
    push_cast at hT
    rw [abs_lt] at hT
    have : (1:ℝ) / 10 ^ 9 ≤ 1 := by rw [div_le_one (by positivity)]; norm_num
    rw [hq] at hqg
    nlinarith [hT.1, hT.2]

theorem new_zero_one : Angle.new (zero : F) one ≈ₐ ⟨zero, 0⟩ := by
  have := new_pi_multiple (F := F) 0 (Or.inl rfl); simpa [zero] using this
theorem new_one_one : Angle.new (one : F) one ≈ₐ ⟨zero, 2⟩ := by
  have := new_pi_multiple (F := F) 1 (Or.inr ⟨0, by norm_num, by norm_num⟩); simpa [one] using this
theorem new_four_one : Angle.new (four : F) one ≈ₐ ⟨zero, 8⟩ := by
  have := new_pi_multiple (F := F) 4 (Or.inr ⟨2, by norm_num, by norm_num⟩); simpa [four] using this

end Angle
end GeonumModel
