/-
  GeonumModel.Lemmas.FloatNewNeg — the negative path of `Angle::new` in rounded arithmetic: the normalised total is the raw
  total plus a whole number of turns, to within a few ulps of that shift.
-/
import GeonumModel.Lemmas.FloatNew

set_option linter.unusedSectionVars false
set_option linter.unusedVariables false

namespace GeonumModel
open FloatLike FloatSpec
variable {F : Type} [FloatSpec F]
namespace Angle

/-- the normalised total on the negative path, as a formula: with `n = ⌈rnd(−raw / 2π_f)⌉` whole turns,
    `nt = max (rnd (raw + rnd (4n · π_f/2))) 0` -/
theorem newTotal_neg_formula {p d : F} (hp : Fin p) (hd : Fin d) (hpb : |val p| ≤ 10 ^ 200)
    (hdl : 1 / 10 ^ 200 ≤ |val d|) (hq : |val p * piV F / val d| ≤ 2 ^ 42) (hnegv : val (newRawTotal p d) < 0) :
    ∃ n : ℕ, (n : ℝ) ≤ 2 ^ 41 + 3 ∧
      rnd (F := F) (-val (newRawTotal p d) / (2 * piV F)) ≤ (n : ℝ) ∧
      (n : ℝ) < rnd (F := F) (-val (newRawTotal p d) / (2 * piV F)) + 1 ∧
      val (newTotal p d) = max (rnd (F := F) (val (newRawTotal p d) + rnd (F := F) ((n : ℝ) * 4 * val (qp : F)))) 0 := by
  have hpi3 := piV_gt3 (F := F); have hpi4 := piV_lt4 (F := F)
  obtain ⟨hf2, hx2b⟩ := newRawTotal_spec hp hd hpb hdl hq
  obtain ⟨x2, hx2⟩ : ∃ x, x = val (newRawTotal p d) := ⟨_, rfl⟩
  rw [← hx2] at hx2b
  rw [abs_le] at hx2b
  have hx2neg : x2 < 0 := by rw [hx2]; exact hnegv
  have hneg : flt (newRawTotal p d) (zero : F) = true := (flt_spec hf2 fin_zero).mpr (by rw [val_zero, ← hx2]; exact hx2neg)
  unfold newTotal
  simp only
  rw [if_pos hneg]
  · skip
    -- |total|
    obtain ⟨hfa, hva⟩ := fabs_spec hf2
    rw [← hx2, abs_of_neg hx2neg] at hva
    -- 4·qp = 2π exactly
    have hrep2pi : Rep (F := F) (2 * piV F) := by
      have := rep_mul_piV_pow2 (F := F) 1 (by norm_num); simpa using this
    obtain ⟨hf4, hv4⟩ := fmul_spec (fin_four (F := F)) (fin_qp (F := F)) (by
      rw [val_four, val_qp]; apply inRange_of_abs_le_1000; rw [abs_of_pos (by linarith)]; linarith)
    rw [val_four, val_qp, show (4:ℝ) * (piV F / 2) = 2 * piV F by ring, rnd_rep hrep2pi] at hv4
    -- quotient |total| / 2π
    have htp : (0:ℝ) < 2 * piV F := by linarith
    have hqt0 : 0 ≤ -x2 / (2 * piV F) := div_nonneg (by linarith) (le_of_lt htp)
    have hqt1 : -x2 / (2 * piV F) ≤ 2 ^ 41 := by
      rw [div_le_iff₀ htp]
      have : (2:ℝ) ^ 43 ≤ 2 ^ 41 * 6 := by norm_num
      nlinarith [hx2b.1]
    obtain ⟨hf5, hv5⟩ := fdiv_spec hfa hf4 (by rw [hv4]; linarith) (by
      rw [hva, hv4]; apply inRange_of_abs_le_2p60; rw [abs_of_nonneg hqt0]
      have : (2:ℝ) ^ 41 ≤ 2 ^ 60 := by norm_num
      linarith)
    rw [hva, hv4] at hv5
    have hn5 := rnd_near (F := F) hqt0 (by have : (2:ℝ) ^ 41 ≤ 2 ^ 53 := by norm_num
                                           linarith)
    rw [← hv5, abs_le] at hn5
    obtain ⟨y5, hy5⟩ : ∃ y, y = val (fdiv (fabs (newRawTotal p d)) (fmul four (qp : F))) := ⟨_, rfl⟩
    rw [← hy5] at hv5 hn5
    have hy50 : 0 ≤ y5 := by rw [hv5]; exact rnd_nonneg hqt0
    have hy51 : y5 ≤ 2 ^ 41 + 2 := by linarith [hn5.2]
    -- ceil
    obtain ⟨hf6, hv6⟩ := ceil_spec hf5
    rw [← hy5] at hv6
    have hn0 : (0:ℤ) ≤ ⌈y5⌉ := Int.ceil_nonneg hy50
    have hn1 : ((⌈y5⌉ : ℤ) : ℝ) ≤ 2 ^ 41 + 3 := by
      have := Int.ceil_lt_add_one y5; linarith
    obtain ⟨n, hn⟩ : ∃ n : ℕ, (n : ℤ) = ⌈y5⌉ := ⟨⌈y5⌉.toNat, Int.toNat_of_nonneg hn0⟩
    have hnr : (n : ℝ) = ((⌈y5⌉ : ℤ) : ℝ) := by exact_mod_cast congrArg (Int.cast (R := ℝ)) hn
    rw [← hnr] at hv6 hn1
    have hn53 : 4 * n < 2 ^ 53 := by
      have : (n : ℝ) < 2 ^ 42 := by
        have : (2:ℝ) ^ 41 + 3 < 2 ^ 42 := by norm_num
        linarith
      have : n < 2 ^ 42 := by exact_mod_cast this
      omega
    -- full·4 = 4n exactly
    obtain ⟨hf7, hv7⟩ := fmul_spec hf6 (fin_four (F := F)) (by
      rw [hv6, val_four]; apply inRange_of_abs_le_2p60
      rw [abs_of_nonneg (by positivity)]
      have : ((2:ℝ) ^ 41 + 3) * 4 ≤ 2 ^ 60 := by norm_num
      nlinarith)
    rw [hv6, val_four] at hv7
    have hrep4n : Rep (F := F) ((n : ℝ) * 4) := by
      have := rep_nat (F := F) (n := 4 * n) hn53
      rwa [show ((4 * n : ℕ) : ℝ) = (n : ℝ) * 4 by push_cast; ring] at this
    rw [rnd_rep hrep4n] at hv7
    -- ·qp
    have hqp := val_qp_gt (F := F); have hqp' := val_qp_lt (F := F)
    have hz0 : 0 ≤ (n : ℝ) * 4 * val (qp : F) := by positivity
    have hz1 : (n : ℝ) * 4 * val (qp : F) ≤ 2 ^ 45 := by
      have : (n : ℝ) * 4 * val (qp : F) ≤ (2 ^ 41 + 3) * 4 * 2 := by
        apply mul_le_mul (by nlinarith) (le_of_lt hqp') (by linarith) (by positivity)
      have : ((2:ℝ) ^ 41 + 3) * 4 * 2 ≤ 2 ^ 45 := by norm_num
      linarith
    obtain ⟨hf8, hv8⟩ := fmul_spec hf7 (fin_qp (F := F)) (by
      rw [hv7]; apply inRange_of_abs_le_2p60; rw [abs_of_nonneg hz0]
      have : (2:ℝ) ^ 45 ≤ 2 ^ 60 := by norm_num
      linarith)
    rw [hv7] at hv8
    have hn8 := rnd_near (F := F) hz0 (by have : (2:ℝ) ^ 45 ≤ 2 ^ 53 := by norm_num
                                          linarith)
    rw [← hv8, abs_le] at hn8
    obtain ⟨y8, hy8⟩ : ∃ y, y = val (fmul (fmul (FloatLike.ceil (fdiv (fabs (newRawTotal p d))
      (fmul four (qp : F)))) four) (qp : F)) := ⟨_, rfl⟩
    rw [← hy8] at hv8 hn8
    have hy80 : 0 ≤ y8 := by rw [hv8]; exact rnd_nonneg hz0
    have hy81 : y8 ≤ 2 ^ 45 + 2 := by linarith [hn8.2]
    -- total + that
    obtain ⟨hf9, hv9⟩ := fadd_spec hf2 hf8 (by
      rw [← hx2, ← hy8]; apply inRange_of_abs_le_2p60
      rw [abs_le]
      have : (2:ℝ) ^ 45 + 2 ≤ 2 ^ 60 := by norm_num
      have : (2:ℝ) ^ 43 ≤ 2 ^ 60 := by norm_num
      constructor <;> linarith [hx2b.1])
    rw [← hx2, ← hy8] at hv9
    -- clamp at zero
    obtain ⟨hf10, hv10⟩ := fmax_spec hf9 (fin_zero (F := F))
    rw [val_zero] at hv10
    refine ⟨n, hn1, ?_, ?_, ?_⟩
    · rw [← hx2, ← hv5, hnr]; exact Int.le_ceil y5
    · rw [← hx2, ← hv5, hnr]; exact Int.ceil_lt_add_one y5
    · rw [hv10, hv9, hv8, hx2]

/-- pure real arithmetic of the negative path: `a = −raw > 0`, `P = 4·qp`, `W = n·P` the exact shift, `S` its rounding,
    `r` the rounded sum, clamped at zero -/
theorem neg_path_real {a P ε τ W S z r : ℝ} (ha : 0 < a) (hP0 : 0 < P) (hP : P ≤ 8) (hε0 : 0 < ε) (hε1 : ε ≤ 1 / 10)
    (hτ0 : 0 < τ) (hτ1 : τ ≤ 1 / 100)
    (hWlo : a - (a * ε + P * τ) ≤ W) (hWhi : W ≤ a + a * ε + P * τ + P) (hW0 : 0 ≤ W)
    (hS : |S - W| ≤ W * ε + τ) (hz : z = -a + S) (hr : |r - z| ≤ |z| * ε + τ) (hsign : 0 ≤ z → 0 ≤ r) :
    |max r 0 - (-a + W)| ≤ (5 * a + 40) * ε + 10 * τ := by
  have haε : a * ε ≤ a * (1 / 10) := mul_le_mul_of_nonneg_left hε1 (le_of_lt ha)
  have haε0 : 0 ≤ a * ε := mul_nonneg (le_of_lt ha) (le_of_lt hε0)
  have hPτ : P * τ ≤ 8 * (1 / 100) := mul_le_mul hP hτ1 (le_of_lt hτ0) (by norm_num)
  have hPτ8 : P * τ ≤ 8 * τ := mul_le_mul_of_nonneg_right hP (le_of_lt hτ0)
  have hPτ0 : 0 ≤ P * τ := mul_nonneg (le_of_lt hP0) (le_of_lt hτ0)
  have hWle : W ≤ 2 * a + 9 := by linarith
  have hWε : W * ε ≤ (2 * a + 9) * ε := mul_le_mul_of_nonneg_right hWle (le_of_lt hε0)
  have h29 : (2 * a + 9) * ε ≤ (2 * a + 9) * (1 / 10) := mul_le_mul_of_nonneg_left hε1 (by linarith)
  rw [abs_le] at hS
  have hzhi : z ≤ 3 * a + 20 := by rw [hz]; linarith [hS.2]
  have hzlo : -(3 * a + 20) ≤ z := by rw [hz]; linarith [hS.1]
  have hzabs : |z| ≤ 3 * a + 20 := abs_le.mpr ⟨hzlo, hzhi⟩
  have hzε : |z| * ε ≤ (3 * a + 20) * ε := mul_le_mul_of_nonneg_right hzabs (le_of_lt hε0)
  rw [abs_le] at hr
  have e1 : (5 * a + 40) * ε = (3 * a + 20) * ε + (2 * a + 9) * ε + 11 * ε := by ring
  have hε11 : 0 ≤ 11 * ε := by linarith
  by_cases hr0 : 0 ≤ r
  · rw [max_eq_left hr0, abs_le, hz] at *
    constructor <;> linarith [hr.1, hr.2, hS.1, hS.2]
  · push Not at hr0
    rw [max_eq_right (le_of_lt hr0)]
    have hzneg : z < 0 := by
      by_contra hc; push Not at hc; linarith [hsign hc]
    rw [hz] at hzneg
    rw [abs_le]
    constructor <;> linarith [hS.1, hS.2]

/-- `72·2⁻¹⁰⁷⁵ ≤ 10⁻³⁰⁰` -/
theorem tiny72 : 72 * ((1:ℝ) / 2 ^ 1075) ≤ 1 / 10 ^ 300 := by
  have e : (72:ℝ) * (1 / 2 ^ 1075) = 72 / 2 ^ 7 * (1 / 2 ^ 1068) := by
    rw [show (1075:ℕ) = 7 + 1068 by norm_num, pow_add]; field_simp
  rw [e]
  have h1068 : (1:ℝ) / 2 ^ 1068 ≤ 1 / 10 ^ 300 := by
    apply one_div_le_one_div_of_le (by positivity)
    calc (10:ℝ) ^ 300 = (10 ^ 3) ^ 100 := by rw [← pow_mul]
      _ ≤ (2 ^ 10) ^ 100 := by gcongr; norm_num
      _ = 2 ^ 1000 := by rw [← pow_mul]
      _ ≤ 2 ^ 1068 := pow_le_pow_right₀ (by norm_num) (by norm_num)
  have h7 : (72:ℝ) / 2 ^ 7 ≤ 1 := by norm_num
  have h0 : (0:ℝ) ≤ 1 / 2 ^ 1068 := by positivity
  calc (72:ℝ) / 2 ^ 7 * (1 / 2 ^ 1068) ≤ 1 * (1 / 2 ^ 1068) := mul_le_mul_of_nonneg_right h7 h0
    _ = 1 / 2 ^ 1068 := one_mul _
    _ ≤ 1 / 10 ^ 300 := h1068

/-- upper bound on the shifted argument of the negative path: `x + n·P` exceeds one turn by at most `|x|·10ε + 72τ` -/
theorem neg_upper_real {x a P ε τ W : ℝ} (ha : 0 ≤ a) (hP : P ≤ 8) (hε0 : 0 < ε) (hε1 : ε ≤ 1 / 8)
    (hτ0 : 0 < τ) (hale : a ≤ |x| + |x| * (8 * ε) + 32 * τ) (hWhi : W ≤ a + a * ε + P * τ + P)
    (hxa : x ≤ -a + |x| * (8 * ε) + 32 * τ) :
    x + W ≤ P + |x| * (10 * ε) + 72 * τ := by
  have hx0 : 0 ≤ |x| := abs_nonneg x
  have hxε : 0 ≤ |x| * ε := mul_nonneg hx0 (le_of_lt hε0)
  have hε1' : ε ≤ 1 := by linarith
  have hPτ : P * τ ≤ 8 * τ := mul_le_mul_of_nonneg_right hP (le_of_lt hτ0)
  have hτε : τ * ε ≤ τ := by
    calc τ * ε ≤ τ * 1 := mul_le_mul_of_nonneg_left hε1' (le_of_lt hτ0)
      _ = τ := mul_one _
  have h1 : a * ε ≤ (|x| + |x| * (8 * ε) + 32 * τ) * ε := mul_le_mul_of_nonneg_right hale (le_of_lt hε0)
  have hεε : |x| * ε * ε ≤ |x| * ε * (1 / 8) := mul_le_mul_of_nonneg_left hε1 hxε
  have e : (|x| + |x| * (8 * ε) + 32 * τ) * ε = |x| * ε + 8 * (|x| * ε * ε) + 32 * (τ * ε) := by ring
  rw [e] at h1
  have e2 : |x| * (10 * ε) = 10 * (|x| * ε) := by ring
  have e3 : |x| * (8 * ε) = 8 * (|x| * ε) := by ring
  rw [e2]; rw [e3] at hxa
  linarith only [h1, hεε, hτε, hPτ, hxa, hWhi]

/-- **`Angle::new(x, PI)` for a negative argument in rounded arithmetic**: the float total of the result is `x` plus a whole
    number `n` of turns (`4·(π_f/2)` each), to within the `1e-10` snap plus `(14·|x| + 46)·2⁻⁵³` -/
theorem new_radians_total_neg {x : F} (hx : Fin x) (hx0 : val x < 0) (hb : -(2 ^ 41) ≤ val x) :
    (Angle.new x (FloatLike.pi : F)).Inv ∧
    ∃ n : ℕ, |Tq (Angle.new x (FloatLike.pi : F)) - (val x + (n : ℝ) * (4 * val (qp : F)))|
      < val (e10 : F) + (14 * |val x| + 46) * (1 / 2 ^ 53) + 1 / 10 ^ 300 ∧
      val x + (n : ℝ) * (4 * val (qp : F)) ≤ 4 * val (qp : F) + |val x| * (10 * (1 / 2 ^ 53)) + 1 / 10 ^ 300 := by
  have hp3 := piV_gt3 (F := F); have hp4 := piV_lt4 (F := F)
  have hax : |val x| ≤ 2 ^ 41 := by rw [abs_of_neg hx0]; linarith
  have hpb : |val x| ≤ 10 ^ 200 := by
    calc |val x| ≤ 2 ^ 41 := hax
      _ ≤ 10 ^ 41 := by gcongr; norm_num
      _ ≤ 10 ^ 200 := pow_le_pow_right₀ (by norm_num) (by norm_num)
  have hdl : (1:ℝ) / 10 ^ 200 ≤ |val (FloatLike.pi : F)| := by
    rw [val_pi, abs_of_pos (by linarith)]
    calc (1:ℝ) / 10 ^ 200 ≤ 1 := by rw [div_le_one (by positivity)]; exact one_le_pow₀ (by norm_num)
      _ ≤ piV F := by linarith
  have hxx : val x * piV F / val (FloatLike.pi : F) = val x := by
    rw [val_pi, mul_div_assoc, div_self (by linarith : piV F ≠ 0), mul_one]
  have hq : |val x * piV F / val (FloatLike.pi : F)| ≤ 2 ^ 42 := by
    rw [hxx]; linarith [show (2:ℝ) ^ 41 ≤ 2 ^ 42 by norm_num]
  have hinv : (Angle.new x (FloatLike.pi : F)).Inv := Angle.new_inv hx (fin_pi (F := F)) hpb hdl hq
  refine ⟨hinv, ?_⟩
  have hacc := rawTotal_accuracy hx (fin_pi (F := F)) hpb hdl hq
  rw [hxx] at hacc
  obtain ⟨hfraw, hrawb⟩ := newRawTotal_spec hx (fin_pi (F := F)) hpb hdl hq
  obtain ⟨hf, h0, h1⟩ := newTotal_spec hx (fin_pi (F := F)) hpb hdl hq
  have hcore := newCore_spec (newTotal x (FloatLike.pi : F)) hf h0 h1
  dsimp only at hcore
  have hr : Angle.new x (FloatLike.pi : F) = normalizeBoundaries ⟨fmod (newTotal x (FloatLike.pi : F)) qp,
      toUsize (FloatLike.round (fdiv (fsub (newTotal x (FloatLike.pi : F)) (fmod (newTotal x (FloatLike.pi : F)) qp)) qp))⟩ := by
    unfold Angle.new newGeneral
    simp [feq_pi_two]
  rw [← hr] at hcore
  have he := val_e10_pos (F := F)
  -- the result's total is the normalised total up to the snap
  have hsnap : |Tq (Angle.new x (FloatLike.pi : F)) - val (newTotal x (FloatLike.pi : F))| < val (e10 : F) := by
    unfold Tq
    rcases hcore.2 with ⟨_, hdec⟩ | ⟨_, hrem, hsn⟩
    · rw [hdec, sub_self, abs_zero]; exact he
    · rw [hrem, add_zero]; exact hsn
  -- tiny constants
  obtain ⟨ε, hε⟩ : ∃ ε : ℝ, ε = 1 / 2 ^ 53 := ⟨_, rfl⟩
  have hε0 : 0 < ε := by rw [hε]; positivity
  have hε1 : ε ≤ 1 / 10 ^ 15 := by rw [hε]; norm_num
  have e8 : ∀ z : ℝ, z * (8 / 2 ^ 53) = z * (8 * ε) := fun z => by rw [hε]; ring
  rw [e8] at hacc
  obtain ⟨τ, hτ⟩ : ∃ τ : ℝ, τ = 1 / 2 ^ 1075 := ⟨_, rfl⟩
  have hτ0 : 0 < τ := by rw [hτ]; positivity
  have hτ300 : τ ≤ 1 / 10 ^ 300 := by rw [hτ]; exact tiny_1075_300
  have h32 : (1:ℝ) / 2 ^ 1070 = 32 * τ := by
    rw [hτ, show (1075:ℕ) = 1070 + 5 by norm_num, pow_add]; field_simp; norm_num
  rw [h32] at hacc
  have h42τ : 42 * τ ≤ 1 / 10 ^ 300 := by
    rw [hτ]
    have : (42:ℝ) * (1 / 2 ^ 1075) = 42 / 2 ^ 6 * (1 / 2 ^ 1069) := by
      rw [show (1075:ℕ) = 6 + 1069 by norm_num, pow_add]; field_simp
    rw [this]
    have h1069 : (1:ℝ) / 2 ^ 1069 ≤ 1 / 10 ^ 300 := by
      apply one_div_le_one_div_of_le (by positivity)
      calc (10:ℝ) ^ 300 = (10 ^ 3) ^ 100 := by rw [← pow_mul]
        _ ≤ (2 ^ 10) ^ 100 := by gcongr; norm_num
        _ = 2 ^ 1000 := by rw [← pow_mul]
        _ ≤ 2 ^ 1069 := pow_le_pow_right₀ (by norm_num) (by norm_num)
    have : (42:ℝ) / 2 ^ 6 ≤ 1 := by norm_num
    have h0 : (0:ℝ) ≤ 1 / 2 ^ 1069 := by positivity
    nlinarith
  have hτ100 : τ ≤ 1 / 100 := le_trans hτ300 (one_div_le_one_div_of_le (by norm_num) (by
    calc (100:ℝ) = 10 ^ 2 := by norm_num
      _ ≤ 10 ^ 300 := pow_le_pow_right₀ (by norm_num) (by norm_num)))
  have hxabs : |val x| = -val x := abs_of_neg hx0
  set raw := val (newRawTotal x (FloatLike.pi : F)) with hraw
  rw [abs_le] at hacc
  rw [abs_lt] at hsnap
  by_cases hrn : raw < 0
  · -- the negative path proper
    obtain ⟨n, hn1, hyn, hny, hnt⟩ := newTotal_neg_formula hx (fin_pi (F := F)) hpb hdl hq hrn
    rw [← hraw] at hyn hny hnt
    refine ⟨n, ?_⟩
    have hqp := val_qp (F := F)
    set P := 4 * val (qp : F) with hP
    have hPpi : P = 2 * piV F := by rw [hP, hqp]; ring
    have hP0 : 0 < P := by rw [hPpi]; linarith
    have hP8 : P ≤ 8 := by rw [hPpi]; linarith
    set a := -raw with ha
    have ha0 : 0 < a := by rw [ha]; linarith
    have hq0 : 0 ≤ a / P := div_nonneg (le_of_lt ha0) (le_of_lt hP0)
    have hy := rnd_err (F := F) (a / P)
    rw [abs_of_nonneg hq0, ← hτ, abs_le] at hy
    have e53 : ∀ z : ℝ, z / 2 ^ 53 = z * ε := fun z => by rw [hε]; ring
    rw [e53] at hy
    have hyarg : -raw / (2 * piV F) = a / P := by rw [ha, hPpi]
    rw [hyarg] at hyn hny
    have hqP : a / P * P = a := div_mul_cancel₀ a (ne_of_gt hP0)
    set W := (n : ℝ) * P with hW
    have hWlo : a - (a * ε + P * τ) ≤ W := by
      have h : a / P - (a / P * ε + τ) ≤ (n : ℝ) := by linarith [hy.1]
      have := mul_le_mul_of_nonneg_right h (le_of_lt hP0)
      have e : (a / P - (a / P * ε + τ)) * P = a / P * P - (a / P * P * ε + P * τ) := by ring
      rw [e, hqP] at this; exact this
    have hWhi : W ≤ a + a * ε + P * τ + P := by
      have h : (n : ℝ) ≤ a / P + (a / P * ε + τ) + 1 := by linarith [hy.2]
      have := mul_le_mul_of_nonneg_right h (le_of_lt hP0)
      have e : (a / P + (a / P * ε + τ) + 1) * P = a / P * P + a / P * P * ε + P * τ + P := by ring
      rw [e, hqP] at this; exact this
    have hW0 : 0 ≤ W := mul_nonneg (Nat.cast_nonneg _) (le_of_lt hP0)
    have hWeq : (n : ℝ) * 4 * val (qp : F) = W := by rw [hW, hP]; ring
    rw [hWeq] at hnt
    have hS := rnd_err (F := F) W
    rw [abs_of_nonneg hW0, ← hτ, e53] at hS
    have hr2 := rnd_err (F := F) (raw + rnd (F := F) W)
    rw [← hτ, e53] at hr2
    have hkey := neg_path_real (a := a) (P := P) (ε := ε) (τ := τ) (W := W) (S := rnd (F := F) W)
      (z := raw + rnd (F := F) W) (r := rnd (F := F) (raw + rnd (F := F) W)) ha0 hP0 hP8 hε0
      (by linarith [show (1:ℝ) / 10 ^ 15 ≤ 1 / 10 by norm_num])
      hτ0 hτ100
      hWlo hWhi hW0 hS (by rw [ha]; ring) hr2 (fun h => rnd_nonneg h)
    rw [← hnt] at hkey
    have hraw_eq : -a + W = raw + W := by rw [ha]; ring
    rw [hraw_eq, abs_le] at hkey
    -- a ≤ |x|(1 + 8ε) + 32τ
    have hale : a ≤ |val x| + |val x| * (8 * ε) + 32 * τ := by rw [ha]; linarith [hacc.1, hxabs]
    have hx8 : |val x| * (8 * ε) ≤ |val x| * (1 / 100) :=
      mul_le_mul_of_nonneg_left (by linarith [show (8:ℝ) * (1 / 10 ^ 15) ≤ 1 / 100 by norm_num]) (abs_nonneg _)
    have h5a : (5 * a + 40) * ε ≤ (6 * |val x| + 46) * ε := by
      apply mul_le_mul_of_nonneg_right _ (le_of_lt hε0)
      have : 32 * τ ≤ 1 := by linarith
      linarith
    have e14 : (14 * |val x| + 46) * (1 / 2 ^ 53) = |val x| * (8 * ε) + (6 * |val x| + 46) * ε := by rw [hε]; ring
    have hgoal : val x + (n : ℝ) * (4 * val (qp : F)) = val x + W := by rw [hW, hP]
    rw [hgoal]
    refine ⟨by rw [e14, abs_lt]; constructor <;> linarith [hkey.1, hkey.2, hsnap.1, hsnap.2, hacc.1, hacc.2], ?_⟩
    have hup := neg_upper_real (x := val x) (a := a) (P := P) (ε := ε) (τ := τ) (W := W) (le_of_lt ha0) hP8 hε0
      (by linarith only [hε1, show (1:ℝ) / 10 ^ 15 ≤ 1 / 8 by norm_num]) hτ0 hale hWhi (by linarith only [hacc.1, ha])
    have e10' : |val x| * (10 * (1 / 2 ^ 53)) = |val x| * (10 * ε) := by rw [hε]
    rw [e10']
    have h72 := tiny72
    rw [← hτ] at h72
    linarith only [hup, h72]
  · -- the raw total rounded to zero (|x| below the subnormal range): no turn is added
    push Not at hrn
    refine ⟨0, ?_, by
      simp only [Nat.cast_zero, zero_mul, add_zero]
      have : 0 ≤ |val x| * (10 * (1 / 2 ^ 53)) := mul_nonneg (abs_nonneg _) (by positivity)
      have h300 : (0:ℝ) ≤ 1 / 10 ^ 300 := by positivity
      have hq := val_qp (F := F)
      linarith only [this, h300, hq, hp3, hx0]⟩
    have hnt : newTotal x (FloatLike.pi : F) = newRawTotal x (FloatLike.pi : F) := by
      unfold newTotal
      simp only
      have : flt (newRawTotal x (FloatLike.pi : F)) (zero : F) = false := by
        rw [Bool.eq_false_iff]; intro h
        have := (flt_spec hfraw fin_zero).mp h
        rw [val_zero] at this; linarith
      rw [this]; simp
    rw [hnt, ← hraw] at hsnap
    have e14 : (14 * |val x| + 46) * (1 / 2 ^ 53) = |val x| * (8 * ε) + (6 * |val x| + 46) * ε := by rw [hε]; ring
    have h6 : 0 ≤ (6 * |val x| + 46) * ε := mul_nonneg (by positivity) (le_of_lt hε0)
    simp only [Nat.cast_zero, zero_mul, add_zero]
    rw [e14, abs_lt]
    constructor <;> linarith [hsnap.1, hsnap.2, hacc.1, hacc.2]

/-- **`Angle::new(p, d)` with `p/d < 0` (general path) in rounded arithmetic**: canonical, and its float total is `X = p·π_f/d` plus a
    whole number `n` of turns, to within the `1e-10` snap plus `(14·|X| + 46)·2⁻⁵³` — the same direction as `X` modulo `2π_f`, as a
    forward rotation (the total is non-negative by canonicity).  The exact fast path (`d = 2`, integral `p`) is `new_negInt_two`. -/
theorem new_total_neg_float {p d : F} (hp : Fin p) (hd : Fin d) (hpb : |val p| ≤ 10 ^ 200)
    (hdl : 1 / 10 ^ 200 ≤ |val d|) (hq : |val p * piV F / val d| ≤ 2 ^ 42) (hX0' : val p * piV F / val d < 0)
    (hfast : (feq d two && feq (FloatLike.fract p) zero) = false) :
    (Angle.new p d).Inv ∧
    ∃ n : ℕ, |Tq (Angle.new p d) - (val p * piV F / val d + (n : ℝ) * (4 * val (qp : F)))|
      < val (e10 : F) + (14 * |val p * piV F / val d| + 46) * (1 / 2 ^ 53) + 1 / 10 ^ 300 ∧
      val p * piV F / val d + (n : ℝ) * (4 * val (qp : F))
        ≤ 4 * val (qp : F) + |val p * piV F / val d| * (10 * (1 / 2 ^ 53)) + 1 / 10 ^ 300 := by
  generalize hXdef : val p * piV F / val d = X at hq hX0' ⊢
  have hX0 : X < 0 := hX0'
  have hp3 := piV_gt3 (F := F); have hp4 := piV_lt4 (F := F)
  have hinv : (Angle.new p d).Inv := Angle.new_inv hp hd hpb hdl (by rw [hXdef]; exact hq)
  refine ⟨hinv, ?_⟩
  have hacc := rawTotal_accuracy hp hd hpb hdl (by rw [hXdef]; exact hq)
  rw [hXdef] at hacc
  obtain ⟨hfraw, hrawb⟩ := newRawTotal_spec hp hd hpb hdl (by rw [hXdef]; exact hq)
  obtain ⟨hf, h0, h1⟩ := newTotal_spec hp hd hpb hdl (by rw [hXdef]; exact hq)
  have hcore := newCore_spec (newTotal p d) hf h0 h1
  dsimp only at hcore
  have hr : Angle.new p d = normalizeBoundaries ⟨fmod (newTotal p d) qp,
      toUsize (FloatLike.round (fdiv (fsub (newTotal p d) (fmod (newTotal p d) qp)) qp))⟩ := by
    unfold Angle.new newGeneral
    simp [hfast]
  rw [← hr] at hcore
  have he := val_e10_pos (F := F)
  -- the result's total is the normalised total up to the snap
  have hsnap : |Tq (Angle.new p d) - val (newTotal p d)| < val (e10 : F) := by
    unfold Tq
    rcases hcore.2 with ⟨_, hdec⟩ | ⟨_, hrem, hsn⟩
    · rw [hdec, sub_self, abs_zero]; exact he
    · rw [hrem, add_zero]; exact hsn
  -- tiny constants
  obtain ⟨ε, hε⟩ : ∃ ε : ℝ, ε = 1 / 2 ^ 53 := ⟨_, rfl⟩
  have hε0 : 0 < ε := by rw [hε]; positivity
  have hε1 : ε ≤ 1 / 10 ^ 15 := by rw [hε]; norm_num
  have e8 : ∀ z : ℝ, z * (8 / 2 ^ 53) = z * (8 * ε) := fun z => by rw [hε]; ring
  rw [e8] at hacc
  obtain ⟨τ, hτ⟩ : ∃ τ : ℝ, τ = 1 / 2 ^ 1075 := ⟨_, rfl⟩
  have hτ0 : 0 < τ := by rw [hτ]; positivity
  have hτ300 : τ ≤ 1 / 10 ^ 300 := by rw [hτ]; exact tiny_1075_300
  have h32 : (1:ℝ) / 2 ^ 1070 = 32 * τ := by
    rw [hτ, show (1075:ℕ) = 1070 + 5 by norm_num, pow_add]; field_simp; norm_num
  rw [h32] at hacc
  have h42τ : 42 * τ ≤ 1 / 10 ^ 300 := by
    rw [hτ]
    have : (42:ℝ) * (1 / 2 ^ 1075) = 42 / 2 ^ 6 * (1 / 2 ^ 1069) := by
      rw [show (1075:ℕ) = 6 + 1069 by norm_num, pow_add]; field_simp
    rw [this]
    have h1069 : (1:ℝ) / 2 ^ 1069 ≤ 1 / 10 ^ 300 := by
      apply one_div_le_one_div_of_le (by positivity)
      calc (10:ℝ) ^ 300 = (10 ^ 3) ^ 100 := by rw [← pow_mul]
        _ ≤ (2 ^ 10) ^ 100 := by gcongr; norm_num
        _ = 2 ^ 1000 := by rw [← pow_mul]
        _ ≤ 2 ^ 1069 := pow_le_pow_right₀ (by norm_num) (by norm_num)
    have : (42:ℝ) / 2 ^ 6 ≤ 1 := by norm_num
    have h0 : (0:ℝ) ≤ 1 / 2 ^ 1069 := by positivity
    nlinarith
  have hτ100 : τ ≤ 1 / 100 := le_trans hτ300 (one_div_le_one_div_of_le (by norm_num) (by
    calc (100:ℝ) = 10 ^ 2 := by norm_num
      _ ≤ 10 ^ 300 := pow_le_pow_right₀ (by norm_num) (by norm_num)))
  have hxabs : |X| = -X := abs_of_neg hX0
  set raw := val (newRawTotal p d) with hraw
  rw [abs_le] at hacc
  rw [abs_lt] at hsnap
  by_cases hrn : raw < 0
  · -- the negative path proper
    obtain ⟨n, hn1, hyn, hny, hnt⟩ := newTotal_neg_formula hp hd hpb hdl (by rw [hXdef]; exact hq) hrn
    rw [← hraw] at hyn hny hnt
    refine ⟨n, ?_⟩
    have hqp := val_qp (F := F)
    set P := 4 * val (qp : F) with hP
    have hPpi : P = 2 * piV F := by rw [hP, hqp]; ring
    have hP0 : 0 < P := by rw [hPpi]; linarith
    have hP8 : P ≤ 8 := by rw [hPpi]; linarith
    set a := -raw with ha
    have ha0 : 0 < a := by rw [ha]; linarith
    have hq0 : 0 ≤ a / P := div_nonneg (le_of_lt ha0) (le_of_lt hP0)
    have hy := rnd_err (F := F) (a / P)
    rw [abs_of_nonneg hq0, ← hτ, abs_le] at hy
    have e53 : ∀ z : ℝ, z / 2 ^ 53 = z * ε := fun z => by rw [hε]; ring
    rw [e53] at hy
    have hyarg : -raw / (2 * piV F) = a / P := by rw [ha, hPpi]
    rw [hyarg] at hyn hny
    have hqP : a / P * P = a := div_mul_cancel₀ a (ne_of_gt hP0)
    set W := (n : ℝ) * P with hW
    have hWlo : a - (a * ε + P * τ) ≤ W := by
      have h : a / P - (a / P * ε + τ) ≤ (n : ℝ) := by linarith [hy.1]
      have := mul_le_mul_of_nonneg_right h (le_of_lt hP0)
      have e : (a / P - (a / P * ε + τ)) * P = a / P * P - (a / P * P * ε + P * τ) := by ring
      rw [e, hqP] at this; exact this
    have hWhi : W ≤ a + a * ε + P * τ + P := by
      have h : (n : ℝ) ≤ a / P + (a / P * ε + τ) + 1 := by linarith [hy.2]
      have := mul_le_mul_of_nonneg_right h (le_of_lt hP0)
      have e : (a / P + (a / P * ε + τ) + 1) * P = a / P * P + a / P * P * ε + P * τ + P := by ring
      rw [e, hqP] at this; exact this
    have hW0 : 0 ≤ W := mul_nonneg (Nat.cast_nonneg _) (le_of_lt hP0)
    have hWeq : (n : ℝ) * 4 * val (qp : F) = W := by rw [hW, hP]; ring
    rw [hWeq] at hnt
    have hS := rnd_err (F := F) W
    rw [abs_of_nonneg hW0, ← hτ, e53] at hS
    have hr2 := rnd_err (F := F) (raw + rnd (F := F) W)
    rw [← hτ, e53] at hr2
    have hkey := neg_path_real (a := a) (P := P) (ε := ε) (τ := τ) (W := W) (S := rnd (F := F) W)
      (z := raw + rnd (F := F) W) (r := rnd (F := F) (raw + rnd (F := F) W)) ha0 hP0 hP8 hε0
      (by linarith [show (1:ℝ) / 10 ^ 15 ≤ 1 / 10 by norm_num])
      hτ0 hτ100
      hWlo hWhi hW0 hS (by rw [ha]; ring) hr2 (fun h => rnd_nonneg h)
    rw [← hnt] at hkey
    have hraw_eq : -a + W = raw + W := by rw [ha]; ring
    rw [hraw_eq, abs_le] at hkey
    -- a ≤ |x|(1 + 8ε) + 32τ
    have hale : a ≤ |X| + |X| * (8 * ε) + 32 * τ := by rw [ha]; linarith [hacc.1, hxabs]
    have hx8 : |X| * (8 * ε) ≤ |X| * (1 / 100) :=
      mul_le_mul_of_nonneg_left (by linarith [show (8:ℝ) * (1 / 10 ^ 15) ≤ 1 / 100 by norm_num]) (abs_nonneg _)
    have h5a : (5 * a + 40) * ε ≤ (6 * |X| + 46) * ε := by
      apply mul_le_mul_of_nonneg_right _ (le_of_lt hε0)
      have : 32 * τ ≤ 1 := by linarith
      linarith
    have e14 : (14 * |X| + 46) * (1 / 2 ^ 53) = |X| * (8 * ε) + (6 * |X| + 46) * ε := by rw [hε]; ring
    have hgoal : X + (n : ℝ) * (4 * val (qp : F)) = X + W := by rw [hW, hP]
    rw [hgoal]
    refine ⟨by rw [e14, abs_lt]; constructor <;> linarith [hkey.1, hkey.2, hsnap.1, hsnap.2, hacc.1, hacc.2], ?_⟩
    have hup := neg_upper_real (x := X) (a := a) (P := P) (ε := ε) (τ := τ) (W := W) (le_of_lt ha0) hP8 hε0
      (by linarith only [hε1, show (1:ℝ) / 10 ^ 15 ≤ 1 / 8 by norm_num]) hτ0 hale hWhi (by linarith only [hacc.1, ha])
    have e10' : |X| * (10 * (1 / 2 ^ 53)) = |X| * (10 * ε) := by rw [hε]
    rw [e10']
    have h72 := tiny72
    rw [← hτ] at h72
    linarith only [hup, h72]
  · -- the raw total rounded to zero (|x| below the subnormal range): no turn is added
    push Not at hrn
    refine ⟨0, ?_, by
      simp only [Nat.cast_zero, zero_mul, add_zero]
      have : 0 ≤ |X| * (10 * (1 / 2 ^ 53)) := mul_nonneg (abs_nonneg _) (by positivity)
      have h300 : (0:ℝ) ≤ 1 / 10 ^ 300 := by positivity
      have hq := val_qp (F := F)
      linarith only [this, h300, hq, hp3, hX0]⟩
    have hnt : newTotal p d = newRawTotal p d := by
      unfold newTotal
      simp only
      have : flt (newRawTotal p d) (zero : F) = false := by
        rw [Bool.eq_false_iff]; intro h
        have := (flt_spec hfraw fin_zero).mp h
        rw [val_zero] at this; linarith
      rw [this]; simp
    rw [hnt, ← hraw] at hsnap
    have e14 : (14 * |X| + 46) * (1 / 2 ^ 53) = |X| * (8 * ε) + (6 * |X| + 46) * ε := by rw [hε]; ring
    have h6 : 0 ≤ (6 * |X| + 46) * ε := mul_nonneg (by positivity) (le_of_lt hε0)
    simp only [Nat.cast_zero, zero_mul, add_zero]
    rw [e14, abs_lt]
    constructor <;> linarith [hsnap.1, hsnap.2, hacc.1, hacc.2]

end Angle
end GeonumModel
