/-
  Rounding-error propagation for the magnitude of the general branch of `Geonum +` (law of cosines under a square root).
  Pure real-number lemmas first, then the value chain of the model's radicand under `FloatSpec`.
-/
import GeonumModel.Lemmas.GeonumMag

set_option linter.unusedVariables false

namespace GeonumModel
open FloatLike FloatSpec

theorem sqrt_sub_sqrt_le {x y : ℝ} (hx : 0 ≤ x) (hy : 0 ≤ y) : |Real.sqrt x - Real.sqrt y| ≤ Real.sqrt |x - y| := by
  apply Real.abs_le_sqrt
  have h1 := Real.sq_sqrt hx
  have h2 := Real.sq_sqrt hy
  have s1 := Real.sqrt_nonneg x
  have s2 := Real.sqrt_nonneg y
  rcases le_total y x with h | h
  · rw [abs_of_nonneg (by linarith)]
    have : Real.sqrt y ≤ Real.sqrt x := Real.sqrt_le_sqrt h
    nlinarith
  · rw [abs_of_nonpos (by linarith)]
    have : Real.sqrt x ≤ Real.sqrt y := Real.sqrt_le_sqrt h
    nlinarith

theorem sqrt_add_le' {u v : ℝ} (hu : 0 ≤ u) (hv : 0 ≤ v) : Real.sqrt (u + v) ≤ Real.sqrt u + Real.sqrt v := by
  rw [Real.sqrt_le_left (by positivity)]
  have h1 := Real.sq_sqrt hu
  have h2 := Real.sq_sqrt hv
  nlinarith [Real.sqrt_nonneg u, Real.sqrt_nonneg v, mul_nonneg (Real.sqrt_nonneg u) (Real.sqrt_nonneg v)]

/-- step 1: `ŝ ≈ a² + b²` -/
theorem radicand_step1 {A B aa bb s t e : ℝ} (he0 : 0 ≤ e) (he1 : e ≤ 1 / 4) (ht0 : 0 ≤ t)
    (h1 : |aa - A * A| ≤ A * A * e + t) (h2 : |bb - B * B| ≤ B * B * e + t)
    (h3 : |s - (aa + bb)| ≤ |aa + bb| * e + t) :
    |s - (A * A + B * B)| ≤ 3 * (A * A + B * B) * e + 5 * t := by
  have hAA : 0 ≤ A * A := mul_self_nonneg A
  have hBB : 0 ≤ B * B := mul_self_nonneg B
  have habb : |aa + bb| ≤ 2 * (A * A + B * B) + 2 * t := by
    have e1 : aa + bb = (aa - A * A) + (bb - B * B) + (A * A + B * B) := by ring
    rw [e1]
    have := abs_add_three (aa - A * A) (bb - B * B) (A * A + B * B)
    rw [abs_of_nonneg (by linarith : (0:ℝ) ≤ A * A + B * B)] at this
    have p1 : A * A * e ≤ A * A * (1 / 4) := mul_le_mul_of_nonneg_left he1 hAA
    have p2 : B * B * e ≤ B * B * (1 / 4) := mul_le_mul_of_nonneg_left he1 hBB
    linarith
  have e1 : s - (A * A + B * B) = (s - (aa + bb)) + (aa - A * A) + (bb - B * B) := by ring
  rw [e1]
  have := abs_add_three (s - (aa + bb)) (aa - A * A) (bb - B * B)
  have h3' : |aa + bb| * e ≤ (2 * (A * A + B * B) + 2 * t) * e := mul_le_mul_of_nonneg_right habb he0
  have q1 : (2 * (A * A + B * B) + 2 * t) * e = 2 * (A * A + B * B) * e + 2 * (t * e) := by ring
  have q2 : t * e ≤ t := mul_le_of_le_one_right ht0 (by linarith)
  linarith

/-- step 2: `p̂ ≈ 2abc` -/
theorem radicand_step2 {A B c ta tab pr t e : ℝ} (hA : 0 ≤ A) (hB : 0 ≤ B) (hc : |c| ≤ 1) (he0 : 0 ≤ e) (he1 : e ≤ 1 / 4)
    (ht0 : 0 ≤ t) (h4 : |ta - 2 * A| ≤ 2 * A * e + t) (h5 : |tab - ta * B| ≤ |ta * B| * e + t)
    (h6 : |pr - tab * c| ≤ |tab * c| * e + t) :
    |pr - 2 * A * B * c| ≤ 9 * (A * B) * e + 4 * (t * B) + 3 * t := by
  have hAB : 0 ≤ A * B := mul_nonneg hA hB
  have htB : 0 ≤ t * B := mul_nonneg ht0 hB
  have te : t * e ≤ t := mul_le_of_le_one_right ht0 (by linarith)
  have tBe : t * B * e ≤ t * B := mul_le_of_le_one_right htB (by linarith)
  have Ae : A * e ≤ A * (1 / 4) := mul_le_mul_of_nonneg_left he1 hA
  have ABe0 : 0 ≤ A * B * e := mul_nonneg hAB he0
  have ABee : A * B * e * e ≤ A * B * e * (1 / 4) := mul_le_mul_of_nonneg_left he1 ABe0
  have hta : |ta| ≤ 3 * A + t := by
    have e1 : ta = (ta - 2 * A) + 2 * A := by ring
    rw [e1]
    have := abs_add_le (ta - 2 * A) (2 * A)
    rw [abs_of_nonneg (by linarith : (0:ℝ) ≤ 2 * A)] at this
    linarith
  have htaB : |ta * B| ≤ (3 * A + t) * B := by
    rw [abs_mul, abs_of_nonneg hB]; exact mul_le_mul_of_nonneg_right hta hB
  have d_tab : |tab - 2 * A * B| ≤ 5 * (A * B) * e + 2 * (t * B) + t := by
    have e1 : tab - 2 * A * B = (tab - ta * B) + (ta - 2 * A) * B := by ring
    rw [e1]
    have h := abs_add_le (tab - ta * B) ((ta - 2 * A) * B)
    have h' : |(ta - 2 * A) * B| ≤ (2 * A * e + t) * B := by
      rw [abs_mul, abs_of_nonneg hB]; exact mul_le_mul_of_nonneg_right h4 hB
    have h5' : |ta * B| * e ≤ (3 * A + t) * B * e := mul_le_mul_of_nonneg_right htaB he0
    have q1 : (3 * A + t) * B * e = 3 * (A * B * e) + t * B * e := by ring
    have q2 : (2 * A * e + t) * B = 2 * (A * B * e) + t * B := by ring
    have q3 : 5 * (A * B) * e = 5 * (A * B * e) := by ring
    linarith
  have htab : |tab| ≤ 4 * (A * B) + 2 * (t * B) + t := by
    have e1 : tab = (tab - 2 * A * B) + 2 * A * B := by ring
    rw [e1]
    have h := abs_add_le (tab - 2 * A * B) (2 * A * B)
    rw [abs_of_nonneg (by linarith : (0:ℝ) ≤ 2 * A * B)] at h
    have q : 5 * (A * B) * e ≤ 5 * (A * B) * (1 / 4) := mul_le_mul_of_nonneg_left he1 (by linarith)
    linarith
  have htabc : |tab * c| ≤ |tab| := by
    rw [abs_mul]; exact mul_le_of_le_one_right (abs_nonneg _) hc
  have e1 : pr - 2 * A * B * c = (pr - tab * c) + (tab - 2 * A * B) * c := by ring
  rw [e1]
  have h := abs_add_le (pr - tab * c) ((tab - 2 * A * B) * c)
  have h' : |(tab - 2 * A * B) * c| ≤ |tab - 2 * A * B| := by
    rw [abs_mul]; exact mul_le_of_le_one_right (abs_nonneg _) hc
  have h6' : |tab * c| * e ≤ (4 * (A * B) + 2 * (t * B) + t) * e :=
    mul_le_mul_of_nonneg_right (le_trans htabc htab) he0
  have q1 : (4 * (A * B) + 2 * (t * B) + t) * e = 4 * (A * B * e) + 2 * (t * B * e) + t * e := by ring
  have q3 : 5 * (A * B) * e = 5 * (A * B * e) := by ring
  have q4 : 9 * (A * B) * e = 9 * (A * B * e) := by ring
  linarith

/-- step 3: the rounded radicand against the exact one -/
theorem radicand_step3 {A B c s pr R t e : ℝ} (hA : 0 ≤ A) (hB : 0 ≤ B) (hc : |c| ≤ 1) (he0 : 0 ≤ e) (he1 : e ≤ 1 / 4)
    (ht0 : 0 ≤ t) (ds : |s - (A * A + B * B)| ≤ 3 * (A * A + B * B) * e + 5 * t)
    (dp : |pr - 2 * A * B * c| ≤ 9 * (A * B) * e + 4 * (t * B) + 3 * t)
    (h7 : |R - (s + pr)| ≤ |s + pr| * e + t) :
    |R - (A * A + B * B + 2 * A * B * c)| ≤ 10 * ((A + B) ^ 2 * e) + 10 * (t * B) + 20 * t := by
  have hAA : 0 ≤ A * A := mul_self_nonneg A
  have hBB : 0 ≤ B * B := mul_self_nonneg B
  have hAB : 0 ≤ A * B := mul_nonneg hA hB
  have htB : 0 ≤ t * B := mul_nonneg ht0 hB
  have hS : (A + B) ^ 2 = A * A + B * B + 2 * (A * B) := by ring
  have h2abc : |2 * A * B * c| ≤ 2 * (A * B) := by
    rw [abs_mul, abs_of_nonneg (by linarith : (0:ℝ) ≤ 2 * A * B)]
    calc 2 * A * B * |c| ≤ 2 * A * B * 1 := mul_le_mul_of_nonneg_left hc (by linarith)
      _ = 2 * (A * B) := by ring
  have hE : |A * A + B * B + 2 * A * B * c| ≤ (A + B) ^ 2 := by
    rw [abs_le] at h2abc
    rw [abs_le, hS]
    constructor <;> linarith [h2abc.1, h2abc.2]
  have hspr : |s + pr| ≤ (A + B) ^ 2 + (3 * (A * A + B * B) * e + 5 * t) + (9 * (A * B) * e + 4 * (t * B) + 3 * t) := by
    have e1 : s + pr = (s - (A * A + B * B)) + (pr - 2 * A * B * c) + (A * A + B * B + 2 * A * B * c) := by ring
    rw [e1]
    have h := abs_add_three (s - (A * A + B * B)) (pr - 2 * A * B * c) (A * A + B * B + 2 * A * B * c)
    linarith
  have e1 : R - (A * A + B * B + 2 * A * B * c) = (R - (s + pr)) + (s - (A * A + B * B)) + (pr - 2 * A * B * c) := by ring
  rw [e1]
  have h := abs_add_three (R - (s + pr)) (s - (A * A + B * B)) (pr - 2 * A * B * c)
  have h7' : |s + pr| * e ≤ ((A + B) ^ 2 + (3 * (A * A + B * B) * e + 5 * t) + (9 * (A * B) * e + 4 * (t * B) + 3 * t)) * e :=
    mul_le_mul_of_nonneg_right hspr he0
  have q1 : ((A + B) ^ 2 + (3 * (A * A + B * B) * e + 5 * t) + (9 * (A * B) * e + 4 * (t * B) + 3 * t)) * e
      = (A + B) ^ 2 * e + 3 * ((A * A + B * B) * e * e) + 9 * (A * B * e * e) + 8 * (t * e) + 4 * (t * B * e) := by ring
  have te : t * e ≤ t := mul_le_of_le_one_right ht0 (by linarith)
  have tBe : t * B * e ≤ t * B := mul_le_of_le_one_right htB (by linarith)
  have s0 : 0 ≤ (A * A + B * B) * e := mul_nonneg (by linarith) he0
  have see : (A * A + B * B) * e * e ≤ (A * A + B * B) * e * (1 / 4) := mul_le_mul_of_nonneg_left he1 s0
  have p0 : 0 ≤ A * B * e := mul_nonneg hAB he0
  have pee : A * B * e * e ≤ A * B * e * (1 / 4) := mul_le_mul_of_nonneg_left he1 p0
  have q2 : (A + B) ^ 2 * e = (A * A + B * B) * e + 2 * (A * B * e) := by rw [hS]; ring
  have q3 : 3 * (A * A + B * B) * e = 3 * ((A * A + B * B) * e) := by ring
  have q4 : 9 * (A * B) * e = 9 * (A * B * e) := by ring
  linarith

theorem mag_from_radicand {E R m P e t τ : ℝ} (hP : 0 ≤ P) (hE0 : 0 ≤ E) (hEP : E ≤ P ^ 2) (he0 : 0 ≤ e) (hτ : 0 ≤ τ)
    (hR : |R - E| ≤ P ^ 2 / 2 ^ 48 + τ) (hm : |m - Real.sqrt (max R 0)| ≤ Real.sqrt (max R 0) * e + t) :
    |m - Real.sqrt E| ≤ (P / 2 ^ 24 + Real.sqrt τ) + (P + P / 2 ^ 24 + Real.sqrt τ) * e + t := by
  have hx0 : 0 ≤ max R 0 := le_max_right _ _
  have hxE : |max R 0 - E| ≤ |R - E| := by
    rcases le_total 0 R with h | h
    · rw [max_eq_left h]
    · rw [max_eq_right h, zero_sub, abs_neg, abs_of_nonneg hE0, abs_of_nonpos (by linarith)]; linarith
  have h1 : |Real.sqrt (max R 0) - Real.sqrt E| ≤ P / 2 ^ 24 + Real.sqrt τ := by
    refine le_trans (sqrt_sub_sqrt_le hx0 hE0) ?_
    refine le_trans (Real.sqrt_le_sqrt (le_trans hxE hR)) ?_
    refine le_trans (sqrt_add_le' (by positivity) hτ) ?_
    have : P ^ 2 / 2 ^ 48 = (P / 2 ^ 24) ^ 2 := by rw [div_pow, ← pow_mul]
    rw [this, Real.sqrt_sq (by positivity)]
  have hsE : Real.sqrt E ≤ P := by
    rw [Real.sqrt_le_left hP]; exact hEP
  have hsx : Real.sqrt (max R 0) ≤ P + P / 2 ^ 24 + Real.sqrt τ := by
    have := abs_sub_abs_le_abs_sub (Real.sqrt (max R 0)) (Real.sqrt E)
    rw [abs_of_nonneg (Real.sqrt_nonneg _), abs_of_nonneg (Real.sqrt_nonneg _)] at this
    linarith
  have h2 : Real.sqrt (max R 0) * e ≤ (P + P / 2 ^ 24 + Real.sqrt τ) * e := mul_le_mul_of_nonneg_right hsx he0
  have := abs_sub_le m (Real.sqrt (max R 0)) (Real.sqrt E)
  linarith

namespace Geonum
variable {F : Type} [FloatSpec F]

/-- the shared part of the two law-of-cosines radicands (`+` and `distance_to`): `ŝ = rnd(rnd a² + rnd b²)` and
    `p̂ = rnd(rnd(rnd(2a)·b)·cos x)` for any finite cosine argument `x`; every intermediate finite, with the size bounds the final
    addition or subtraction needs -/
theorem radicand_parts {a b : Geonum F} (ha : a.MagDom) (hb : b.MagDom) {x : F} (hx : Fin x) :
    let c := val (FloatLike.cos x)
    let aa := val (fmul a.mag a.mag); let bb := val (fmul b.mag b.mag)
    let s := val (fadd (fmul a.mag a.mag) (fmul b.mag b.mag))
    let ta := val (fmul two a.mag); let tab := val (fmul (fmul two a.mag) b.mag)
    let pr := val (fmul (fmul (fmul two a.mag) b.mag) (FloatLike.cos x))
    Fin (fadd (fmul a.mag a.mag) (fmul b.mag b.mag)) ∧ Fin (fmul (fmul (fmul two a.mag) b.mag) (FloatLike.cos x)) ∧
    0 ≤ s ∧ s ≤ 10 ^ 202 ∧ |pr| ≤ 10 ^ 202 ∧ |c| ≤ 1 ∧
    aa = rnd (F := F) (val a.mag * val a.mag) ∧ bb = rnd (F := F) (val b.mag * val b.mag) ∧ s = rnd (F := F) (aa + bb) ∧
    ta = rnd (F := F) (2 * val a.mag) ∧ tab = rnd (F := F) (ta * val b.mag) ∧ pr = rnd (F := F) (tab * c) := by
  intro c aa bb s ta tab pr
  obtain ⟨haf, ha0, ha1⟩ := ha
  obtain ⟨hbf, hb0, hb1⟩ := hb
  have hvaa : val (fmul a.mag a.mag) = rnd (F := F) (val a.mag * val a.mag) :=
    (fmul_spec haf haf (inRange_of_le (by
      rw [abs_of_nonneg (mul_nonneg ha0 ha0)]
      have : val a.mag * val a.mag ≤ 10 ^ 100 * 10 ^ 100 := mul_le_mul ha1 ha1 ha0 (by positivity)
      norm_num at this ⊢; linarith))).2
  have hvbb : val (fmul b.mag b.mag) = rnd (F := F) (val b.mag * val b.mag) :=
    (fmul_spec hbf hbf (inRange_of_le (by
      rw [abs_of_nonneg (mul_nonneg hb0 hb0)]
      have : val b.mag * val b.mag ≤ 10 ^ 100 * 10 ^ 100 := mul_le_mul hb1 hb1 hb0 (by positivity)
      norm_num at this ⊢; linarith))).2
  obtain ⟨haa, haa0, haa1⟩ := mul_dom haf haf ha0 ha0 ha1 ha1
  obtain ⟨hbb, hbb0, hbb1⟩ := mul_dom hbf hbf hb0 hb0 hb1 hb1
  norm_num at ha1 hb1 haa1 hbb1
  -- a² + b²
  obtain ⟨hs, hvs⟩ := fadd_spec haa hbb (inRange_of_le (by
    rw [abs_of_nonneg (by linarith)]; norm_num; linarith))
  have hs0 : 0 ≤ val (fadd (fmul a.mag a.mag) (fmul b.mag b.mag)) := by rw [hvs]; exact rnd_nonneg (by linarith)
  have hs1 : val (fadd (fmul a.mag a.mag) (fmul b.mag b.mag)) ≤ 5 * 10 ^ 201 := by
    rw [hvs]
    have := rnd_ub (F := F) (x := val (fmul a.mag a.mag) + val (fmul b.mag b.mag)) (by linarith)
    norm_num; linarith
  norm_num at hs1
  -- 2a
  obtain ⟨h2a, hv2a⟩ := fmul_spec (fin_two (F := F)) haf (inRange_of_le (by
    rw [val_two, abs_of_nonneg (by linarith)]; norm_num; linarith))
  have h2a0 : 0 ≤ val (fmul two a.mag) := by rw [hv2a, val_two]; exact rnd_nonneg (by linarith)
  have h2a1 : val (fmul two a.mag) ≤ 5 * 10 ^ 100 := by
    rw [hv2a, val_two]
    have := rnd_ub (F := F) (x := 2 * val a.mag) (by linarith)
    norm_num; linarith
  -- (2a)·b
  have hp0 : 0 ≤ val (fmul two a.mag) * val b.mag := mul_nonneg h2a0 hb0
  have hp1 : val (fmul two a.mag) * val b.mag ≤ 5 * 10 ^ 100 * 10 ^ 100 :=
    mul_le_mul h2a1 (by norm_num; exact hb1) hb0 (by positivity)
  norm_num at hp1
  obtain ⟨h2ab, hv2ab⟩ := fmul_spec h2a hbf (inRange_of_le (by
    rw [abs_of_nonneg hp0]; norm_num; linarith))
  have h2ab0 : 0 ≤ val (fmul (fmul two a.mag) b.mag) := by rw [hv2ab]; exact rnd_nonneg hp0
  have h2ab1 : val (fmul (fmul two a.mag) b.mag) ≤ 2 * 10 ^ 201 := by
    rw [hv2ab]
    have := rnd_abs_le (F := F) (val (fmul two a.mag) * val b.mag)
    rw [abs_of_nonneg hp0] at this
    have h2 := le_abs_self (rnd (F := F) (val (fmul two a.mag) * val b.mag))
    norm_num; linarith
  norm_num at h2ab1
  -- times the cosine
  obtain ⟨hfc, hc1, _⟩ := cos_spec hx
  have hpc : |val (fmul (fmul two a.mag) b.mag) * val (FloatLike.cos x)|
      ≤ val (fmul (fmul two a.mag) b.mag) := by
    rw [abs_mul, abs_of_nonneg h2ab0]
    calc val (fmul (fmul two a.mag) b.mag) * |val (FloatLike.cos x)|
        ≤ val (fmul (fmul two a.mag) b.mag) * 1 := mul_le_mul_of_nonneg_left hc1 h2ab0
      _ = val (fmul (fmul two a.mag) b.mag) := mul_one _
  obtain ⟨hft, hvt⟩ := fmul_spec h2ab hfc (inRange_of_le (le_trans hpc (by norm_num; linarith)))
  have ht1 : |val (fmul (fmul (fmul two a.mag) b.mag) (FloatLike.cos x))|
      ≤ 5 * 10 ^ 201 := by
    rw [hvt]
    have := rnd_abs_le (F := F) (val (fmul (fmul two a.mag) b.mag) * val (FloatLike.cos x))
    norm_num; linarith
  norm_num at ht1
  rw [val_two] at hv2a
  exact ⟨hs, hft, hs0, by norm_num; linarith, by norm_num; linarith, hc1, hvaa, hvbb, hvs, hv2a, hv2ab, hvt⟩

/-- the value chain of the radicand `a² + b² + ((2a)b)·cos δ` of the general branch of `+`: every intermediate is finite and is the
    rounding of the exact operation on the previous intermediates -/
theorem radicand_vals {a b : Geonum F} (ha : a.MagDom) (hb : b.MagDom)
    (hg : Fin (fsub b.angle.gradeAngle a.angle.gradeAngle)) :
    let c := val (FloatLike.cos (fsub b.angle.gradeAngle a.angle.gradeAngle))
    let aa := val (fmul a.mag a.mag); let bb := val (fmul b.mag b.mag)
    let s := val (fadd (fmul a.mag a.mag) (fmul b.mag b.mag))
    let ta := val (fmul two a.mag); let tab := val (fmul (fmul two a.mag) b.mag)
    let pr := val (fmul (fmul (fmul two a.mag) b.mag) (FloatLike.cos (fsub b.angle.gradeAngle a.angle.gradeAngle)))
    Fin (radicand a b) ∧ |c| ≤ 1 ∧
    aa = rnd (F := F) (val a.mag * val a.mag) ∧ bb = rnd (F := F) (val b.mag * val b.mag) ∧ s = rnd (F := F) (aa + bb) ∧
    ta = rnd (F := F) (2 * val a.mag) ∧ tab = rnd (F := F) (ta * val b.mag) ∧ pr = rnd (F := F) (tab * c) ∧
    val (radicand a b) = rnd (F := F) (s + pr) := by
  intro c aa bb s ta tab pr
  obtain ⟨haf, ha0, ha1⟩ := ha
  obtain ⟨hbf, hb0, hb1⟩ := hb
  have hvaa : val (fmul a.mag a.mag) = rnd (F := F) (val a.mag * val a.mag) :=
    (fmul_spec haf haf (inRange_of_le (by
      rw [abs_of_nonneg (mul_nonneg ha0 ha0)]
      have : val a.mag * val a.mag ≤ 10 ^ 100 * 10 ^ 100 := mul_le_mul ha1 ha1 ha0 (by positivity)
      norm_num at this ⊢; linarith))).2
  have hvbb : val (fmul b.mag b.mag) = rnd (F := F) (val b.mag * val b.mag) :=
    (fmul_spec hbf hbf (inRange_of_le (by
      rw [abs_of_nonneg (mul_nonneg hb0 hb0)]
      have : val b.mag * val b.mag ≤ 10 ^ 100 * 10 ^ 100 := mul_le_mul hb1 hb1 hb0 (by positivity)
      norm_num at this ⊢; linarith))).2
  obtain ⟨haa, haa0, haa1⟩ := mul_dom haf haf ha0 ha0 ha1 ha1
  obtain ⟨hbb, hbb0, hbb1⟩ := mul_dom hbf hbf hb0 hb0 hb1 hb1
  norm_num at ha1 hb1 haa1 hbb1
  -- a² + b²
  obtain ⟨hs, hvs⟩ := fadd_spec haa hbb (inRange_of_le (by
    rw [abs_of_nonneg (by linarith)]; norm_num; linarith))
  have hs0 : 0 ≤ val (fadd (fmul a.mag a.mag) (fmul b.mag b.mag)) := by rw [hvs]; exact rnd_nonneg (by linarith)
  have hs1 : val (fadd (fmul a.mag a.mag) (fmul b.mag b.mag)) ≤ 5 * 10 ^ 201 := by
    rw [hvs]
    have := rnd_ub (F := F) (x := val (fmul a.mag a.mag) + val (fmul b.mag b.mag)) (by linarith)
    norm_num; linarith
  norm_num at hs1
  -- 2a
  obtain ⟨h2a, hv2a⟩ := fmul_spec (fin_two (F := F)) haf (inRange_of_le (by
    rw [val_two, abs_of_nonneg (by linarith)]; norm_num; linarith))
  have h2a0 : 0 ≤ val (fmul two a.mag) := by rw [hv2a, val_two]; exact rnd_nonneg (by linarith)
  have h2a1 : val (fmul two a.mag) ≤ 5 * 10 ^ 100 := by
    rw [hv2a, val_two]
    have := rnd_ub (F := F) (x := 2 * val a.mag) (by linarith)
    norm_num; linarith
  -- (2a)·b
  have hp0 : 0 ≤ val (fmul two a.mag) * val b.mag := mul_nonneg h2a0 hb0
  have hp1 : val (fmul two a.mag) * val b.mag ≤ 5 * 10 ^ 100 * 10 ^ 100 :=
    mul_le_mul h2a1 (by norm_num; exact hb1) hb0 (by positivity)
  norm_num at hp1
  obtain ⟨h2ab, hv2ab⟩ := fmul_spec h2a hbf (inRange_of_le (by
    rw [abs_of_nonneg hp0]; norm_num; linarith))
  have h2ab0 : 0 ≤ val (fmul (fmul two a.mag) b.mag) := by rw [hv2ab]; exact rnd_nonneg hp0
  have h2ab1 : val (fmul (fmul two a.mag) b.mag) ≤ 2 * 10 ^ 201 := by
    rw [hv2ab]
    have := rnd_abs_le (F := F) (val (fmul two a.mag) * val b.mag)
    rw [abs_of_nonneg hp0] at this
    have h2 := le_abs_self (rnd (F := F) (val (fmul two a.mag) * val b.mag))
    norm_num; linarith
  norm_num at h2ab1
  -- times the cosine
  obtain ⟨hfc, hc1, _⟩ := cos_spec hg
  have hpc : |val (fmul (fmul two a.mag) b.mag) * val (FloatLike.cos (fsub b.angle.gradeAngle a.angle.gradeAngle))|
      ≤ val (fmul (fmul two a.mag) b.mag) := by
    rw [abs_mul, abs_of_nonneg h2ab0]
    calc val (fmul (fmul two a.mag) b.mag) * |val (FloatLike.cos (fsub b.angle.gradeAngle a.angle.gradeAngle))|
        ≤ val (fmul (fmul two a.mag) b.mag) * 1 := mul_le_mul_of_nonneg_left hc1 h2ab0
      _ = val (fmul (fmul two a.mag) b.mag) := mul_one _
  obtain ⟨hft, hvt⟩ := fmul_spec h2ab hfc (inRange_of_le (le_trans hpc (by norm_num; linarith)))
  have ht1 : |val (fmul (fmul (fmul two a.mag) b.mag) (FloatLike.cos (fsub b.angle.gradeAngle a.angle.gradeAngle)))|
      ≤ 5 * 10 ^ 201 := by
    rw [hvt]
    have := rnd_abs_le (F := F) (val (fmul (fmul two a.mag) b.mag) * val (FloatLike.cos (fsub b.angle.gradeAngle a.angle.gradeAngle)))
    norm_num; linarith
  norm_num at ht1
  -- final sum
  have hfin := fadd_spec hs hft (inRange_of_le (by
    have h3 := abs_add_le (val (fadd (fmul a.mag a.mag) (fmul b.mag b.mag)))
      (val (fmul (fmul (fmul two a.mag) b.mag) (FloatLike.cos (fsub b.angle.gradeAngle a.angle.gradeAngle))))
    rw [abs_of_nonneg hs0] at h3
    norm_num; linarith))
  rw [val_two] at hv2a
  exact ⟨hfin.1, hc1, hvaa, hvbb, hvs, hv2a, hv2ab, hvt, hfin.2⟩

end Geonum
end GeonumModel
