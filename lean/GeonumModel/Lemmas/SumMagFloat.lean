/-
  Rounding-error propagation for the magnitude of the general branch of `Geonum +` (law of cosines under a square root).
  Pure real-number lemmas first, then the value chain of the model's radicand under `FloatSpec`.
-/
import GeonumModel.Lemmas.GeonumMag

set_option linter.unusedVariables false

namespace GeonumModel
open FloatLike FloatSpec

theorem sqrt_sub_sqrt_le {x y : ℝ} (hx : 0 ≤ x) (hy : 0 ≤ y) : |Real.sqrt x - Real.sqrt y| ≤ Real.sqrt |x - y| := by
  apply Real.abs_le_sqrt
  have h1 := Real.sq_sqrt hx
  have h2 := Real.sq_sqrt hy
  have s1 := Real.sqrt_nonneg x
  have s2 := Real.sqrt_nonneg y
  rcases le_total y x with h | h
  · rw [abs_of_nonneg (by linarith)]
    have : Real.sqrt y ≤ Real.sqrt x := Real.sqrt_le_sqrt h
    nlinarith
  · rw [abs_of_nonpos (by linarith)]
    have : Real.sqrt x ≤ Real.sqrt y := Real.sqrt_le_sqrt h
    nlinarith

theorem sqrt_add_le' {u v : ℝ} (hu : 0 ≤ u) (hv : 0 ≤ v) : Real.sqrt (u + v) ≤ Real.sqrt u + Real.sqrt v := by
  rw [Real.sqrt_le_left (by positivity)]
  have h1 := Real.sq_sqrt hu
  have h2 := Real.sq_sqrt hv
  nlinarith [Real.sqrt_nonneg u, Real.sqrt_nonneg v, mul_nonneg (Real.sqrt_nonneg u) (Real.sqrt_nonneg v)]

/-- step 1: `ŝ ≈ a² + b²` -/
theorem radicand_step1 {A B aa bb s t e : ℝ} (he0 : 0 ≤ e) (he1 : e ≤ 1 / 4) (ht0 : 0 ≤ t)
    (h1 : |aa - A * A| ≤ A * A * e + t) (h2 : |bb - B * B| ≤ B * B * e + t)
    (h3 : |s - (aa + bb)| ≤ |aa + bb| * e + t) :
    |s - (A * A + B * B)| ≤ 3 * (A * A + B * B) * e + 5 * t := by
  have hAA : 0 ≤ A * A := mul_self_nonneg A
  have hBB : 0 ≤ B * B := mul_self_nonneg B
  have habb : |aa + bb| ≤ 2 * (A * A + B * B) + 2 * t := by
    have e1 : aa + bb = (aa - A * A) + (bb - B * B) + (A * A + B * B) := by ring
    rw [e1]
    have := abs_add_three (aa - A * A) (bb - B * B) (A * A + B * B)
    rw [abs_of_nonneg (by linarith : (0:ℝ) ≤ A * A + B * B)] at this
    have p1 : A * A * e ≤ A * A * (1 / 4) := mul_le_mul_of_nonneg_left he1 hAA
    have p2 : B * B * e ≤ B * B * (1 / 4) := mul_le_mul_of_nonneg_left he1 hBB
    linarith
  have e1 : s - (A * A + B * B) = (s - (aa + bb)) + (aa - A * A) + (bb - B * B) := by ring
  rw [e1]
  have := abs_add_three (s - (aa + bb)) (aa - A * A) (bb - B * B)
  have h3' : |aa + bb| * e ≤ (2 * (A * A + B * B) + 2 * t) * e := mul_le_mul_of_nonneg_right habb he0
  have q1 : (2 * (A * A + B * B) + 2 * t) * e = 2 * (A * A + B * B) * e + 2 * (t * e) := by ring
  have q2 : t * e ≤ t := mul_le_of_le_one_right ht0 (by linarith)
  linarith

/-- step 2: `p̂ ≈ 2abc` -/
theorem radicand_step2 {A B c ta tab pr t e : ℝ} (hA : 0 ≤ A) (hB : 0 ≤ B) (hc : |c| ≤ 1) (he0 : 0 ≤ e) (he1 : e ≤ 1 / 4)
    (ht0 : 0 ≤ t) (h4 : |ta - 2 * A| ≤ 2 * A * e + t) (h5 : |tab - ta * B| ≤ |ta * B| * e + t)
    (h6 : |pr - tab * c| ≤ |tab * c| * e + t) :
    |pr - 2 * A * B * c| ≤ 9 * (A * B) * e + 4 * (t * B) + 3 * t := by
  have hAB : 0 ≤ A * B := mul_nonneg hA hB
  have htB : 0 ≤ t * B := mul_nonneg ht0 hB
  have te : t * e ≤ t := mul_le_of_le_one_right ht0 (by linarith)
  have tBe : t * B * e ≤ t * B := mul_le_of_le_one_right htB (by linarith)
  have Ae : A * e ≤ A * (1 / 4) := mul_le_mul_of_nonneg_left he1 hA
  have ABe0 : 0 ≤ A * B * e := mul_nonneg hAB he0
  have ABee : A * B * e * e ≤ A * B * e * (1 / 4) := mul_le_mul_of_nonneg_left he1 ABe0
  have hta : |ta| ≤ 3 * A + t := by
    have e1 : ta = (ta - 2 * A) + 2 * A := by ring
    rw [e1]
    have := abs_add_le (ta - 2 * A) (2 * A)
    rw [abs_of_nonneg (by linarith : (0:ℝ) ≤ 2 * A)] at this
    linarith
  have htaB : |ta * B| ≤ (3 * A + t) * B := by
    rw [abs_mul, abs_of_nonneg hB]; exact mul_le_mul_of_nonneg_right hta hB
  have d_tab : |tab - 2 * A * B| ≤ 5 * (A * B) * e + 2 * (t * B) + t := by
    have e1 : tab - 2 * A * B = (tab - ta * B) + (ta - 2 * A) * B := by ring
    rw [e1]
    have h := abs_add_le (tab - ta * B) ((ta - 2 * A) * B)
    have h' : |(ta - 2 * A) * B| ≤ (2 * A * e + t) * B := by
      rw [abs_mul, abs_of_nonneg hB]; exact mul_le_mul_of_nonneg_right h4 hB
    have h5' : |ta * B| * e ≤ (3 * A + t) * B * e := mul_le_mul_of_nonneg_right htaB he0
    have q1 : (3 * A + t) * B * e = 3 * (A * B * e) + t * B * e := by ring
    have q2 : (2 * A * e + t) * B = 2 * (A * B * e) + t * B := by ring
    have q3 : 5 * (A * B) * e = 5 * (A * B * e) := by ring
    linarith
  have htab : |tab| ≤ 4 * (A * B) + 2 * (t * B) + t := by
    have e1 : tab = (tab - 2 * A * B) + 2 * A * B := by ring
    rw [e1]
    have h := abs_add_le (tab - 2 * A * B) (2 * A * B)
    rw [abs_of_nonneg (by linarith : (0:ℝ) ≤ 2 * A * B)] at h
    have q : 5 * (A * B) * e ≤ 5 * (A * B) * (1 / 4) := mul_le_mul_of_nonneg_left he1 (by linarith)
    linarith
  have htabc : |tab * c| ≤ |tab| := by
    rw [abs_mul]; exact mul_le_of_le_one_right (abs_nonneg _) hc
  have e1 : pr - 2 * A * B * c = (pr - tab * c) + (tab - 2 * A * B) * c := by ring
  rw [e1]
  have h := abs_add_le (pr - tab * c) ((tab - 2 * A * B) * c)
  have h' : |(tab - 2 * A * B) * c| ≤ |tab - 2 * A * B| := by
    rw [abs_mul]; exact mul_le_of_le_one_right (abs_nonneg _) hc
  have h6' : |tab * c| * e ≤ (4 * (A * B) + 2 * (t * B) + t) * e :=
    mul_le_mul_of_nonneg_right (le_trans htabc htab) he0
  have q1 : (4 * (A * B) + 2 * (t * B) + t) * e = 4 * (A * B * e) + 2 * (t * B * e) + t * e := by ring
  have q3 : 5 * (A * B) * e = 5 * (A * B * e) := by ring
  have q4 : 9 * (A * B) * e = 9 * (A * B * e) := by ring
  linarith

/-- step 3: the rounded radicand against the exact one -/
theorem radicand_step3 {A B c s pr R t e : ℝ} (hA : 0 ≤ A) (hB : 0 ≤ B) (hc : |c| ≤ 1) (he0 : 0 ≤ e) (he1 : e ≤ 1 / 4)
    (ht0 : 0 ≤ t) (ds : |s - (A * A + B * B)| ≤ 3 * (A * A + B * B) * e + 5 * t)
    (dp : |pr - 2 * A * B * c| ≤ 9 * (A * B) * e + 4 * (t * B) + 3 * t)
    (h7 : |R - (s + pr)| ≤ |s + pr| * e + t) :
    |R - (A * A + B * B + 2 * A * B * c)| ≤ 10 * ((A + B) ^ 2 * e) + 10 * (t * B) + 20 * t := by
  have hAA : 0 ≤ A * A := mul_self_nonneg A
  have hBB : 0 ≤ B * B := mul_self_nonneg B
  have hAB : 0 ≤ A * B := mul_nonneg hA hB
  have htB : 0 ≤ t * B := mul_nonneg ht0 hB
  have hS : (A + B) ^ 2 = A * A + B * B + 2 * (A * B) := by ring
  have h2abc : |2 * A * B * c| ≤ 2 * (A * B) := by
    rw [abs_mul, abs_of_nonneg (by linarith : (0:ℝ) ≤ 2 * A * B)]
    calc 2 * A * B * |c| ≤ 2 * A * B * 1 := mul_le_mul_of_nonneg_left hc (by linarith)
      _ = 2 * (A * B) := by ring
  have hE : |A * A + B * B + 2 * A * B * c| ≤ (A + B) ^ 2 := by
    rw [abs_le] at h2abc
    rw [abs_le, hS]
    constructor <;> linarith [h2abc.1, h2abc.2]
  have hspr : |s + pr| ≤ (A + B) ^ 2 + (3 * (A * A + B * B) * e + 5 * t) + (9 * (A * B) * e + 4 * (t * B) + 3 * t) := by
    have e1 : s + pr = (s - (A * A + B * B)) + (pr - 2 * A * B * c) + (A * A + B * B + 2 * A * B * c) := by ring
    rw [e1]
    have h := abs_add_three (s - (A * A + B * B)) (pr - 2 * A * B * c) (A * A + B * B + 2 * A * B * c)
    linarith
  have e1 : R - (A * A + B * B + 2 * A * B * c) = (R - (s + pr)) + (s - (A * A + B * B)) + (pr - 2 * A * B * c) := by ring
  rw [e1]
  have h := abs_add_three (R - (s + pr)) (s - (A * A + B * B)) (pr - 2 * A * B * c)
  have h7' : |s + pr| * e ≤ ((A + B) ^ 2 + (3 * (A * A + B * B) * e + 5 * t) + (9 * (A * B) * e + 4 * (t * B) + 3 * t)) * e :=
    mul_le_mul_of_nonneg_right hspr he0
  have q1 : ((A + B) ^ 2 + (3 * (A * A + B * B) * e + 5 * t) + (9 * (A * B) * e + 4 * (t * B) + 3 * t)) * e
      = (A + B) ^ 2 * e + 3 * ((A * A + B * B) * e * e) + 9 * (A * B * e * e) + 8 * (t * e) + 4 * (t * B * e) := by ring
  have te : t * e ≤ t := mul_le_of_le_one_right ht0 (by linarith)
  have tBe : t * B * e ≤ t * B := mul_le_of_le_one_right htB (by linarith)
  have s0 : 0 ≤ (A * A + B * B) * e := mul_nonneg (by linarith) he0
  have see : (A * A + B * B) * e * e ≤ (A * A + B * B) * e * (1 / 4) := mul_le_mul_of_nonneg_left he1 s0
  have p0 : 0 ≤ A * B * e := mul_nonneg hAB he0
  have pee : A * B * e * e ≤ A * B * e * (1 / 4) := mul_le_mul_of_nonneg_left he1 p0
  have q2 : (A + B) ^ 2 * e = (A * A + B * B) * e + 2 * (A * B * e) := by rw [hS]; ring
  have q3 : 3 * (A * A + B * B) * e = 3 * ((A * A + B * B) * e) := by ring
  have q4 : 9 * (A * B) * e = 9 * (A * B * e) := by ring
  linarith

theorem mag_from_radicand {E R m P e t τ : ℝ} (hP : 0 ≤ P) (hE0 : 0 ≤ E) (hEP : E ≤ P ^ 2) (he0 : 0 ≤ e) (hτ : 0 ≤ τ)
    (hR : |R - E| ≤ P ^ 2 / 2 ^ 48 + τ) (hm : |m - Real.sqrt (max R 0)| ≤ Real.sqrt (max R 0) * e + t) :
    |m - Real.sqrt E| ≤ (P / 2 ^ 24 + Real.sqrt τ) + (P + P / 2 ^ 24 + Real.sqrt τ) * e + t := by
  have hx0 : 0 ≤ max R 0 := le_max_right _ _
  have hxE : |max R 0 - E| ≤ |R - E| := by
    rcases le_total 0 R with h | h
    · rw [max_eq_left h]
    · rw [max_eq_right h, zero_sub, abs_neg, abs_of_nonneg hE0, abs_of_nonpos (by linarith)]; linarith
  have h1 : |Real.sqrt (max R 0) - Real.sqrt E| ≤ P / 2 ^ 24 + Real.sqrt τ := by
    refine le_trans (sqrt_sub_sqrt_le hx0 hE0) ?_
    refine le_trans (Real.sqrt_le_sqrt (le_trans hxE hR)) ?_
    refine le_trans (sqrt_add_le' (by positivity) hτ) ?_
    have : P ^ 2 / 2 ^ 48 = (P / 2 ^ 24) ^ 2 := by rw [div_pow, ← pow_mul]
    rw [this, Real.sqrt_sq (by positivity)]
  have hsE : Real.sqrt E ≤ P := by
    rw [Real.sqrt_le_left hP]; exact hEP
  have hsx : Real.sqrt (max R 0) ≤ P + P / 2 ^ 24 + Real.sqrt τ := by
    have := abs_sub_abs_le_abs_sub (Real.sqrt (max R 0)) (Real.sqrt E)
    rw [abs_of_nonneg (Real.sqrt_nonneg _), abs_of_nonneg (Real.sqrt_nonneg _)] at this
    linarith
  have h2 : Real.sqrt (max R 0) * e ≤ (P + P / 2 ^ 24 + Real.sqrt τ) * e := mul_le_mul_of_nonneg_right hsx he0
  have := abs_sub_le m (Real.sqrt (max R 0)) (Real.sqrt E)
  linarith

namespace Geonum
variable {F : Type} [FloatSpec F]

/-- the shared part of the two law-of-cosines radicands (`+` and `distance_to`): `ŝ = rnd(rnd a² + rnd b²)` and
    `p̂ = rnd(rnd(rnd(2a)·b)·cos x)` for any finite cosine argument `x`; every intermediate finite, with the size bounds the final
    addition or subtraction needs -/
theorem radicand_parts {a b : Geonum F} (ha : a.MagDom) (hb : b.MagDom) {x : F} (hx : Fin x) :
    let c := val (FloatLike.cos x)
    let aa := val (fmul a.mag a.mag); let bb := val (fmul b.mag b.mag)
    let s := val (fadd (fmul a.mag a.mag) (fmul b.mag b.mag))
    let ta := val (fmul two a.mag); let tab := val (fmul (fmul two a.mag) b.mag)
    let pr := val (fmul (fmul (fmul two a.mag) b.mag) (FloatLike.cos x))
    Fin (fadd (fmul a.mag a.mag) (fmul b.mag b.mag)) ∧ Fin (fmul (fmul (fmul two a.mag) b.mag) (FloatLike.cos x)) ∧
    0 ≤ s ∧ s ≤ 10 ^ 202 ∧ |pr| ≤ 10 ^ 202 ∧ |c| ≤ 1 ∧
    aa = rnd (F := F) (val a.mag * val a.mag) ∧ bb = rnd (F := F) (val b.mag * val b.mag) ∧ s = rnd (F := F) (aa + bb) ∧
    ta = rnd (F := F) (2 * val a.mag) ∧ tab = rnd (F := F) (ta * val b.mag) ∧ pr = rnd (F := F) (tab * c) := by
  intro c aa bb s ta tab pr
  obtain ⟨haf, ha0, ha1⟩ := ha
  obtain ⟨hbf, hb0, hb1⟩ := hb
  have hvaa : val (fmul a.mag a.mag) = rnd (F := F) (val a.mag * val a.mag) :=
    (fmul_spec haf haf (inRange_of_le (by
      rw [abs_of_nonneg (mul_nonneg ha0 ha0)]
      have : val a.mag * val a.mag ≤ 10 ^ 100 * 10 ^ 100 := mul_le_mul ha1 ha1 ha0 (by positivity)
      norm_num at this ⊢; linarith))).2
  have hvbb : val (fmul b.mag b.mag) = rnd (F := F) (val b.mag * val b.mag) :=
    (fmul_spec hbf hbf (inRange_of_le (by
      rw [abs_of_nonneg (mul_nonneg hb0 hb0)]
      have : val b.mag * val b.mag ≤ 10 ^ 100 * 10 ^ 100 := mul_le_mul hb1 hb1 hb0 (by positivity)
      norm_num at this ⊢; linarith))).2
  obtain ⟨haa, haa0, haa1⟩ := mul_dom haf haf ha0 ha0 ha1 ha1
  obtain ⟨hbb, hbb0, hbb1⟩ := mul_dom hbf hbf hb0 hb0 hb1 hb1
  norm_num at ha1 hb1 haa1 hbb1
  -- a² + b²
  obtain ⟨hs, hvs⟩ := fadd_spec haa hbb (inRange_of_le (by
    rw [abs_of_nonneg (by linarith)]; norm_num; linarith))
  have hs0 : 0 ≤ val (fadd (fmul a.mag a.mag) (fmul b.mag b.mag)) := by rw [hvs]; exact rnd_nonneg (by linarith)
  have hs1 : val (fadd (fmul a.mag a.mag) (fmul b.mag b.mag)) ≤ 5 * 10 ^ 201 := by
    rw [hvs]
    have := rnd_ub (F := F) (x := val (fmul a.mag a.mag) + val (fmul b.mag b.mag)) (by linarith)
    norm_num; linarith
  norm_num at hs1
  -- 2a
  obtain ⟨h2a, hv2a⟩ := fmul_spec (fin_two (F := F)) haf (inRange_of_le (by
    rw [val_two, abs_of_nonneg (by linarith)]; norm_num; linarith))
  have h2a0 : 0 ≤ val (fmul two a.mag) := by rw [hv2a, val_two]; exact rnd_nonneg (by linarith)
  have h2a1 : val (fmul two a.mag) ≤ 5 * 10 ^ 100 := by
    rw [hv2a, val_two]
    have := rnd_ub (F := F) (x := 2 * val a.mag) (by linarith)
    norm_num; linarith
  -- (2a)·b
  have hp0 : 0 ≤ val (fmul two a.mag) * val b.mag := mul_nonneg h2a0 hb0
  have hp1 : val (fmul two a.mag) * val b.mag ≤ 5 * 10 ^ 100 * 10 ^ 100 :=
    mul_le_mul h2a1 (by norm_num; exact hb1) hb0 (by positivity)
  norm_num at hp1
  obtain ⟨h2ab, hv2ab⟩ := fmul_spec h2a hbf (inRange_of_le (by
    rw [abs_of_nonneg hp0]; norm_num; linarith))
  have h2ab0 : 0 ≤ val (fmul (fmul two a.mag) b.mag) := by rw [hv2ab]; exact rnd_nonneg hp0
  have h2ab1 : val (fmul (fmul two a.mag) b.mag) ≤ 2 * 10 ^ 201 := by
    rw [hv2ab]
    have := rnd_abs_le (F := F) (val (fmul two a.mag) * val b.mag)
    rw [abs_of_nonneg hp0] at this
    have h2 := le_abs_self (rnd (F := F) (val (fmul two a.mag) * val b.mag))
    norm_num; linarith
  norm_num at h2ab1
  -- times the cosine
  obtain ⟨hfc, hc1, _⟩ := cos_spec hx
  have hpc : |val (fmul (fmul two a.mag) b.mag) * val (FloatLike.cos x)|
      ≤ val (fmul (fmul two a.mag) b.mag) := by
    rw [abs_mul, abs_of_nonneg h2ab0]
    calc val (fmul (fmul two a.mag) b.mag) * |val (FloatLike.cos x)|
        ≤ val (fmul (fmul two a.mag) b.mag) * 1 := mul_le_mul_of_nonneg_left hc1 h2ab0
      _ = val (fmul (fmul two a.mag) b.mag) := mul_one _
  obtain ⟨hft, hvt⟩ := fmul_spec h2ab hfc (inRange_of_le (le_trans hpc (by norm_num; linarith)))
  have ht1 : |val (fmul (fmul (fmul two a.mag) b.mag) (FloatLike.cos x))|
      ≤ 5 * 10 ^ 201 := by
    rw [hvt]
    have := rnd_abs_le (F := F) (val (fmul (fmul two a.mag) b.mag) * val (FloatLike.cos x))
    norm_num; linarith
  norm_num at ht1
  rw [val_two] at hv2a
  exact ⟨hs, hft, hs0, by norm_num; linarith, by norm_num; linarith, hc1, hvaa, hvbb, hvs, hv2a, hv2ab, hvt⟩

/-- the value chain of the radicand `a² + b² + ((2a)b)·cos δ` of the general branch of `+`: every intermediate is finite and is the
    rounding of the exact operation on the previous intermediates -/
theorem radicand_vals {a b : Geonum F} (ha : a.MagDom) (hb : b.MagDom)
    (hg : Fin (fsub b.angle.gradeAngle a.angle.gradeAngle)) :
    let c := val (FloatLike.cos (fsub b.angle.gradeAngle a.angle.gradeAngle))
    let aa := val (fmul a.mag a.mag); let bb := val (fmul b.mag b.mag)
    let s := val (fadd (fmul a.mag a.mag) (fmul b.mag b.mag))
    let ta := val (fmul two a.mag); let tab := val (fmul (fmul two a.mag) b.mag)
    let pr := val (fmul (fmul (fmul two a.mag) b.mag) (FloatLike.cos (fsub b.angle.gradeAngle a.angle.gradeAngle)))
    Fin (radicand a b) ∧ |c| ≤ 1 ∧
    aa = rnd (F := F) (val a.mag * val a.mag) ∧ bb = rnd (F := F) (val b.mag * val b.mag) ∧ s = rnd (F := F) (aa + bb) ∧
    ta = rnd (F := F) (2 * val a.mag) ∧ tab = rnd (F := F) (ta * val b.mag) ∧ pr = rnd (F := F) (tab * c) ∧
    val (radicand a b) = rnd (F := F) (s + pr) := by
  intro c aa bb s ta tab pr
  obtain ⟨haf, ha0, ha1⟩ := ha
  obtain ⟨hbf, hb0, hb1⟩ := hb
  have hvaa : val (fmul a.mag a.mag) = rnd (F := F) (val a.mag * val a.mag) :=
    (fmul_spec haf haf (inRange_of_le (by
      rw [abs_of_nonneg (mul_nonneg ha0 ha0)]
      have : val a.mag * val a.mag ≤ 10 ^ 100 * 10 ^ 100 := mul_le_mul ha1 ha1 ha0 (by positivity)
      norm_num at this ⊢; linarith))).2
  have hvbb : val (fmul b.mag b.mag) = rnd (F := F) (val b.mag * val b.mag) :=
    (fmul_spec hbf hbf (inRange_of_le (by
      rw [abs_of_nonneg (mul_nonneg hb0 hb0)]
      have : val b.mag * val b.mag ≤ 10 ^ 100 * 10 ^ 100 := mul_le_mul hb1 hb1 hb0 (by positivity)
      norm_num at this ⊢; linarith))).2
  obtain ⟨haa, haa0, haa1⟩ := mul_dom haf haf ha0 ha0 ha1 ha1
  obtain ⟨hbb, hbb0, hbb1⟩ := mul_dom hbf hbf hb0 hb0 hb1 hb1
  norm_num at ha1 hb1 haa1 hbb1
  -- a² + b²
  obtain ⟨hs, hvs⟩ := fadd_spec haa hbb (inRange_of_le (by
    rw [abs_of_nonneg (by linarith)]; norm_num; linarith))
  have hs0 : 0 ≤ val (fadd (fmul a.mag a.mag) (fmul b.mag b.mag)) := by rw [hvs]; exact rnd_nonneg (by linarith)
  have hs1 : val (fadd (fmul a.mag a.mag) (fmul b.mag b.mag)) ≤ 5 * 10 ^ 201 := by
    rw [hvs]
    have := rnd_ub (F := F) (x := val (fmul a.mag a.mag) + val (fmul b.mag b.mag)) (by linarith)
    norm_num; linarith
  norm_num at hs1
  -- 2a
  obtain ⟨h2a, hv2a⟩ := fmul_spec (fin_two (F := F)) haf (inRange_of_le (by
    rw [val_two, abs_of_nonneg (by linarith)]; norm_num; linarith))
  have h2a0 : 0 ≤ val (fmul two a.mag) := by rw [hv2a, val_two]; exact rnd_nonneg (by linarith)
  have h2a1 : val (fmul two a.mag) ≤ 5 * 10 ^ 100 := by
    rw [hv2a, val_two]
    have := rnd_ub (F := F) (x := 2 * val a.mag) (by linarith)
    norm_num; linarith
  -- (2a)·b
  have hp0 : 0 ≤ val (fmul two a.mag) * val b.mag := mul_nonneg h2a0 hb0
  have hp1 : val (fmul two a.mag) * val b.mag ≤ 5 * 10 ^ 100 * 10 ^ 100 :=
    mul_le_mul h2a1 (by norm_num; exact hb1) hb0 (by positivity)
  norm_num at hp1
  obtain ⟨h2ab, hv2ab⟩ := fmul_spec h2a hbf (inRange_of_le (by
    rw [abs_of_nonneg hp0]; norm_num; linarith))
  have h2ab0 : 0 ≤ val (fmul (fmul two a.mag) b.mag) := by rw [hv2ab]; exact rnd_nonneg hp0
  have h2ab1 : val (fmul (fmul two a.mag) b.mag) ≤ 2 * 10 ^ 201 := by
    rw [hv2ab]
    have := rnd_abs_le (F := F) (val (fmul two a.mag) * val b.mag)
    rw [abs_of_nonneg hp0] at this
    have h2 := le_abs_self (rnd (F := F) (val (fmul two a.mag) * val b.mag))
    norm_num; linarith
  norm_num at h2ab1
  -- times the cosine
  obtain ⟨hfc, hc1, _⟩ := cos_spec hg
  have hpc : |val (fmul (fmul two a.mag) b.mag) * val (FloatLike.cos (fsub b.angle.gradeAngle a.angle.gradeAngle))|
      ≤ val (fmul (fmul two a.mag) b.mag) := by
    rw [abs_mul, abs_of_nonneg h2ab0]
    calc val (fmul (fmul two a.mag) b.mag) * |val (FloatLike.cos (fsub b.angle.gradeAngle a.angle.gradeAngle))|
        ≤ val (fmul (fmul two a.mag) b.mag) * 1 := mul_le_mul_of_nonneg_left hc1 h2ab0
      _ = val (fmul (fmul two a.mag) b.mag) := mul_one _
  obtain ⟨hft, hvt⟩ := fmul_spec h2ab hfc (inRange_of_le (le_trans hpc (by norm_num; linarith)))
  have ht1 : |val (fmul (fmul (fmul two a.mag) b.mag) (FloatLike.cos (fsub b.angle.gradeAngle a.angle.gradeAngle)))|
      ≤ 5 * 10 ^ 201 := by
    rw [hvt]
    have := rnd_abs_le (F := F) (val (fmul (fmul two a.mag) b.mag) * val (FloatLike.cos (fsub b.angle.gradeAngle a.angle.gradeAngle)))
    norm_num; linarith
  norm_num at ht1
  -- final sum
  have hfin := fadd_spec hs hft (inRange_of_le (by
    have h3 := abs_add_le (val (fadd (fmul a.mag a.mag) (fmul b.mag b.mag)))
      (val (fmul (fmul (fmul two a.mag) b.mag) (FloatLike.cos (fsub b.angle.gradeAngle a.angle.gradeAngle))))
    rw [abs_of_nonneg hs0] at h3
    norm_num; linarith))
  rw [val_two] at hv2a
  exact ⟨hfin.1, hc1, hvaa, hvbb, hvs, hv2a, hv2ab, hvt, hfin.2⟩


/-- the magnitude of a general-branch sum in rounded arithmetic (property theorem `C06.sum_mag_float`) -/
theorem sum_mag_float {a b : Geonum F} (ha : a.MagDom) (hb : b.MagDom)
    (hg : Fin (fsub b.angle.gradeAngle a.angle.gradeAngle))
    (h1 : sameAngle a b = false) (h2 : oppositeAngle a b = false) :
    |val (a.add b).mag - Real.sqrt (val a.mag * val a.mag + val b.mag * val b.mag
        + 2 * val a.mag * val b.mag * val (FloatLike.cos (fsub b.angle.gradeAngle a.angle.gradeAngle)))|
      ≤ (val a.mag + val b.mag) * (1 / 2 ^ 24 + 1 / 2 ^ 50) + 1 / 10 ^ 90 := by
  obtain ⟨hfr, hc, haa, hbb, hs, hta, htab, hpr, hR⟩ := radicand_vals ha hb hg
  obtain ⟨haf, hA0, hA1⟩ := ha
  obtain ⟨hbf, hB0, hB1⟩ := hb
  -- the magnitude is the rounded square root of the clamped radicand
  rw [add_general_mag a b h1 h2]
  obtain ⟨hfm, hvm⟩ := fmax_spec hfr (fin_zero (F := F))
  rw [val_zero] at hvm
  have hm0 : 0 ≤ val (fmax (radicand a b) zero) := by rw [hvm]; exact le_max_right _ _
  obtain ⟨hfs, hvs⟩ := sqrt_spec hfm hm0
  rw [hvm] at hvs
  -- one rounding error per operation
  have e1 := rnd_err (F := F) (val a.mag * val a.mag); rw [← haa] at e1
  have e2 := rnd_err (F := F) (val b.mag * val b.mag); rw [← hbb] at e2
  have e3 := rnd_err (F := F) (val (fmul a.mag a.mag) + val (fmul b.mag b.mag)); rw [← hs] at e3
  have e4 := rnd_err (F := F) (2 * val a.mag); rw [← hta] at e4
  have e5 := rnd_err (F := F) (val (fmul two a.mag) * val b.mag); rw [← htab] at e5
  have e6 := rnd_err (F := F) (val (fmul (fmul two a.mag) b.mag) * val (FloatLike.cos (fsub b.angle.gradeAngle a.angle.gradeAngle)))
  rw [← hpr] at e6
  have e7 := rnd_err (F := F) (val (fadd (fmul a.mag a.mag) (fmul b.mag b.mag)) +
    val (fmul (fmul (fmul two a.mag) b.mag) (FloatLike.cos (fsub b.angle.gradeAngle a.angle.gradeAngle))))
  rw [← hR] at e7
  have e8 := rnd_err (F := F) (Real.sqrt (max (val (radicand a b)) 0)); rw [← hvs] at e8
  rw [abs_of_nonneg (Real.sqrt_nonneg _)] at e8
  -- name the reals
  generalize val (fmul a.mag a.mag) = aa at *
  generalize val (fmul b.mag b.mag) = bb at *
  generalize val (fadd (fmul a.mag a.mag) (fmul b.mag b.mag)) = s at *
  generalize val (fmul two a.mag) = ta at *
  generalize val (fmul (fmul two a.mag) b.mag) = tab at *
  generalize val (fmul (fmul (fmul two a.mag) b.mag) (FloatLike.cos (fsub b.angle.gradeAngle a.angle.gradeAngle))) = pr at *
  generalize val (radicand a b) = R at *
  generalize val (FloatLike.cos (fsub b.angle.gradeAngle a.angle.gradeAngle)) = c at *
  generalize val (sqrt (fmax (radicand a b) zero)) = m at *
  generalize val a.mag = A at *
  generalize val b.mag = B at *
  clear haa hbb hs hta htab hpr hR hvs hvm hm0 hfs hfm hfr hg h1 h2 haf hbf
  -- the constants
  have ht300 : (1 : ℝ) / 2 ^ 1075 ≤ 1 / 10 ^ 300 := by
    apply one_div_le_one_div_of_le (by positivity)
    calc (10:ℝ) ^ 300 = (10 ^ 3) ^ 100 := by rw [← pow_mul]
      _ ≤ (2 ^ 10) ^ 100 := by gcongr; norm_num
      _ = 2 ^ 1000 := by rw [← pow_mul]
      _ ≤ 2 ^ 1075 := pow_le_pow_right₀ (by norm_num) (by norm_num)
  have ht0 : (0:ℝ) ≤ 1 / 2 ^ 1075 := by positivity
  have hAA : |A * A| = A * A := abs_of_nonneg (mul_nonneg hA0 hA0)
  have hBB : |B * B| = B * B := abs_of_nonneg (mul_nonneg hB0 hB0)
  have h2A : |2 * A| = 2 * A := abs_of_nonneg (by linarith)
  rw [hAA] at e1; rw [hBB] at e2; rw [h2A] at e4
  have htB1 : (1:ℝ) / 10 ^ 300 * B ≤ 1 / 10 ^ 200 := by
    calc (1:ℝ) / 10 ^ 300 * B ≤ (1 / 10 ^ 300) * 10 ^ 100 := mul_le_mul_of_nonneg_left hB1 (by positivity)
      _ = 1 / 10 ^ 200 := by rw [show (300:ℕ) = 200 + 100 by norm_num, pow_add]; field_simp
  have htt : (1:ℝ) / 10 ^ 300 ≤ 1 / 10 ^ 200 :=
    one_div_le_one_div_of_le (by positivity) (pow_le_pow_right₀ (by norm_num) (by norm_num))
  have h200 : (30:ℝ) * (1 / 10 ^ 200) ≤ 1 / 10 ^ 190 := by
    rw [show (200:ℕ) = 190 + 10 by norm_num, pow_add]
    have : (0:ℝ) < 10 ^ 190 := by positivity
    rw [mul_one_div, div_le_div_iff₀ (by positivity) this]
    nlinarith [show (30:ℝ) ≤ 10 ^ 10 by norm_num]
  have hsq190 : Real.sqrt (1 / 10 ^ 190) = 1 / 10 ^ 95 := by
    have : (1:ℝ) / 10 ^ 190 = (1 / 10 ^ 95) ^ 2 := by rw [div_pow, one_pow, ← pow_mul]
    rw [this, Real.sqrt_sq (by positivity)]
  have h95 : (3:ℝ) * (1 / 10 ^ 95) ≤ 1 / 10 ^ 90 := by
    rw [show (95:ℕ) = 90 + 5 by norm_num, pow_add]
    have : (0:ℝ) < 10 ^ 90 := by positivity
    rw [mul_one_div, div_le_div_iff₀ (by positivity) this]
    nlinarith [show (3:ℝ) ≤ 10 ^ 5 by norm_num]
  have h300_95 : (1:ℝ) / 10 ^ 300 ≤ 1 / 10 ^ 95 :=
    one_div_le_one_div_of_le (by positivity) (pow_le_pow_right₀ (by norm_num) (by norm_num))
  have hB95 : (0:ℝ) ≤ 1 / 10 ^ 95 := by positivity
  generalize (1:ℝ) / 2 ^ 1075 = t at *
  have htB : t * B ≤ 1 / 10 ^ 200 := le_trans (mul_le_mul_of_nonneg_right ht300 hB0) htB1
  have htw : t ≤ 1 / 10 ^ 200 := le_trans ht300 htt
  have ht95 : t ≤ 1 / 10 ^ 95 := le_trans ht300 h300_95
  clear hA1 hB1 htB1 htt ht300 h300_95
  generalize (1:ℝ) / 10 ^ 300 = w300 at *
  generalize (1:ℝ) / 10 ^ 200 = w at *
  generalize (1:ℝ) / 10 ^ 190 = W at *
  generalize (1:ℝ) / 10 ^ 95 = u at *
  generalize (1:ℝ) / 10 ^ 90 = U at *
  -- ε
  obtain ⟨e, he⟩ : ∃ e : ℝ, e = 1 / 2 ^ 53 := ⟨_, rfl⟩
  have he0 : 0 ≤ e := by rw [he]; positivity
  have he1 : e ≤ 1 / 4 := by rw [he]; norm_num
  have hdiv : ∀ x : ℝ, x / 2 ^ 53 = x * e := by intro x; rw [he]; ring
  simp only [hdiv] at e1 e2 e3 e4 e5 e6 e7 e8
  have ds := radicand_step1 he0 he1 ht0 e1 e2 e3
  have dp := radicand_step2 hA0 hB0 hc he0 he1 ht0 e4 e5 e6
  have dR := radicand_step3 hA0 hB0 hc he0 he1 ht0 ds dp e7
  -- exact radicand: between (A−B)² and (A+B)²
  have hP : 0 ≤ A + B := by linarith
  have hAB : 0 ≤ A * B := mul_nonneg hA0 hB0
  have h2abc : |2 * A * B * c| ≤ 2 * (A * B) := by
    rw [abs_mul, abs_of_nonneg (by linarith : (0:ℝ) ≤ 2 * A * B)]
    calc 2 * A * B * |c| ≤ 2 * A * B * 1 := mul_le_mul_of_nonneg_left hc (by linarith)
      _ = 2 * (A * B) := by ring
  rw [abs_le] at h2abc
  have hE0 : 0 ≤ A * A + B * B + 2 * A * B * c := by nlinarith [sq_nonneg (A - B), h2abc.1]
  have hEP : A * A + B * B + 2 * A * B * c ≤ (A + B) ^ 2 := by nlinarith [h2abc.2]
  have hτ0 : 0 ≤ 10 * (t * B) + 20 * t := by have := mul_nonneg ht0 hB0; linarith
  have hRE : |R - (A * A + B * B + 2 * A * B * c)| ≤ (A + B) ^ 2 / 2 ^ 48 + (10 * (t * B) + 20 * t) := by
    have : 10 * ((A + B) ^ 2 * e) ≤ (A + B) ^ 2 / 2 ^ 48 := by
      rw [he]
      have h0 : 0 ≤ (A + B) ^ 2 := by positivity
      have : 10 * ((A + B) ^ 2 * (1 / 2 ^ 53)) = (A + B) ^ 2 * (10 / 2 ^ 53) := by ring
      rw [this, div_eq_mul_one_div ((A + B) ^ 2) (2 ^ 48)]
      exact mul_le_mul_of_nonneg_left (by norm_num) h0
    linarith
  have hfinal := mag_from_radicand hP hE0 hEP he0 hτ0 hRE e8
  -- collect the constants
  have hτW : 10 * (t * B) + 20 * t ≤ W := by linarith
  have hsτ : Real.sqrt (10 * (t * B) + 20 * t) ≤ u := by rw [← hsq190]; exact Real.sqrt_le_sqrt hτW
  have hsτ0 := Real.sqrt_nonneg (10 * (t * B) + 20 * t)
  have hPe : (A + B + (A + B) / 2 ^ 24 + Real.sqrt (10 * (t * B) + 20 * t)) * e ≤ (A + B) * (1 / 2 ^ 50) + u := by
    have h1 : (A + B + (A + B) / 2 ^ 24 + Real.sqrt (10 * (t * B) + 20 * t)) * e
        = (A + B) * ((1 + 1 / 2 ^ 24) * e) + Real.sqrt (10 * (t * B) + 20 * t) * e := by ring
    have h2 : (1 + 1 / 2 ^ 24) * e ≤ 1 / 2 ^ 50 := by rw [he]; norm_num
    have h3 : Real.sqrt (10 * (t * B) + 20 * t) * e ≤ u := le_trans (mul_le_of_le_one_right hsτ0 (by linarith)) hsτ
    have h4 := mul_le_mul_of_nonneg_left h2 hP
    linarith
  have e24 : (A + B) * (1 / 2 ^ 24 + 1 / 2 ^ 50) = (A + B) / 2 ^ 24 + (A + B) * (1 / 2 ^ 50) := by ring
  rw [e24]
  linarith

/-- the distance in rounded arithmetic (property theorem `C13.distance_float`) -/
theorem distance_float {a b : Geonum F} (ha : a.MagDom) (hb : b.MagDom) (hx : Fin (b.angle.sub a.angle).gradeAngle) :
    |val (a.distanceTo b).mag - Real.sqrt (val a.mag * val a.mag + val b.mag * val b.mag
        - 2 * val a.mag * val b.mag * val (FloatLike.cos (b.angle.sub a.angle).gradeAngle))|
      ≤ (val a.mag + val b.mag) * (1 / 2 ^ 24 + 1 / 2 ^ 50) + 1 / 10 ^ 90 := by
  obtain ⟨hfs_, hfp_, hs0, hs1, hp1, hc, haa, hbb, hs, hta, htab, hpr⟩ := radicand_parts ha hb hx
  obtain ⟨haf, hA0, hA1⟩ := ha
  obtain ⟨hbf, hB0, hB1⟩ := hb
  -- the squared distance
  obtain ⟨hfd, hvd⟩ := fsub_spec hfs_ hfp_ (inRange_of_le (by
    have h := abs_sub (val (fadd (fmul a.mag a.mag) (fmul b.mag b.mag)))
      (val (fmul (fmul (fmul two a.mag) b.mag) (FloatLike.cos (b.angle.sub a.angle).gradeAngle)))
    rw [abs_of_nonneg hs0] at h
    have : (10:ℝ) ^ 202 + 10 ^ 202 ≤ 10 ^ 250 := by norm_num
    linarith))
  -- the magnitude is the rounded square root of the clamped radicand
  obtain ⟨hfm, hvm⟩ := fmax_spec hfd (fin_zero (F := F))
  rw [val_zero] at hvm
  have hm0 : 0 ≤ val (fmax (fsub (fadd (fmul a.mag a.mag) (fmul b.mag b.mag))
      (fmul (fmul (fmul two a.mag) b.mag) (FloatLike.cos (b.angle.sub a.angle).gradeAngle))) (zero : F)) := by
    rw [hvm]; exact le_max_right _ _
  obtain ⟨hfs, hvs⟩ := sqrt_spec hfm hm0
  rw [hvm] at hvs
  have hsq0 : 0 ≤ val (sqrt (fmax (fsub (fadd (fmul a.mag a.mag) (fmul b.mag b.mag))
      (fmul (fmul (fmul two a.mag) b.mag) (FloatLike.cos (b.angle.sub a.angle).gradeAngle))) (zero : F))) := by
    rw [hvs]; exact rnd_nonneg (Real.sqrt_nonneg _)
  obtain ⟨hfa, hva⟩ := fabs_spec hfs
  have hge : fge (sqrt (fmax (fsub (fadd (fmul a.mag a.mag) (fmul b.mag b.mag))
      (fmul (fmul (fmul two a.mag) b.mag) (FloatLike.cos (b.angle.sub a.angle).gradeAngle))) (zero : F))) (zero : F) = true := by
    rw [fle_spec fin_zero hfs, val_zero]; exact hsq0
  have hmag : val (a.distanceTo b).mag = val (sqrt (fmax (fsub (fadd (fmul a.mag a.mag) (fmul b.mag b.mag))
      (fmul (fmul (fmul two a.mag) b.mag) (FloatLike.cos (b.angle.sub a.angle).gradeAngle))) (zero : F))) := by
    unfold Geonum.distanceTo Geonum.scalar; simp only [hge, if_true]
    show val (fabs _) = _
    rw [hva, abs_of_nonneg hsq0]
  rw [hmag]
  -- one rounding error per operation
  have e1 := rnd_err (F := F) (val a.mag * val a.mag); rw [← haa] at e1
  have e2 := rnd_err (F := F) (val b.mag * val b.mag); rw [← hbb] at e2
  have e3 := rnd_err (F := F) (val (fmul a.mag a.mag) + val (fmul b.mag b.mag)); rw [← hs] at e3
  have e4 := rnd_err (F := F) (2 * val a.mag); rw [← hta] at e4
  have e5 := rnd_err (F := F) (val (fmul two a.mag) * val b.mag); rw [← htab] at e5
  have e6 := rnd_err (F := F) (val (fmul (fmul two a.mag) b.mag) * val (FloatLike.cos (b.angle.sub a.angle).gradeAngle))
  rw [← hpr] at e6
  have e7 := rnd_err (F := F) (val (fadd (fmul a.mag a.mag) (fmul b.mag b.mag)) -
    val (fmul (fmul (fmul two a.mag) b.mag) (FloatLike.cos (b.angle.sub a.angle).gradeAngle)))
  rw [← hvd] at e7
  have e8 := rnd_err (F := F) (Real.sqrt (max (val (fsub (fadd (fmul a.mag a.mag) (fmul b.mag b.mag))
      (fmul (fmul (fmul two a.mag) b.mag) (FloatLike.cos (b.angle.sub a.angle).gradeAngle)))) 0)); rw [← hvs] at e8
  rw [abs_of_nonneg (Real.sqrt_nonneg _)] at e8
  -- name the reals
  generalize val (fmul a.mag a.mag) = aa at *
  generalize val (fmul b.mag b.mag) = bb at *
  generalize val (fadd (fmul a.mag a.mag) (fmul b.mag b.mag)) = s at *
  generalize val (fmul two a.mag) = ta at *
  generalize val (fmul (fmul two a.mag) b.mag) = tab at *
  generalize val (fmul (fmul (fmul two a.mag) b.mag) (FloatLike.cos (b.angle.sub a.angle).gradeAngle)) = pr at *
  generalize val (fsub (fadd (fmul a.mag a.mag) (fmul b.mag b.mag))
      (fmul (fmul (fmul two a.mag) b.mag) (FloatLike.cos (b.angle.sub a.angle).gradeAngle))) = R at *
  generalize val (FloatLike.cos (b.angle.sub a.angle).gradeAngle) = c at *
  generalize val (sqrt (fmax (fsub (fadd (fmul a.mag a.mag) (fmul b.mag b.mag))
      (fmul (fmul (fmul two a.mag) b.mag) (FloatLike.cos (b.angle.sub a.angle).gradeAngle))) (zero : F))) = m at *
  generalize val a.mag = A at *
  generalize val b.mag = B at *
  clear haa hbb hs hta htab hpr hvd hvs hvm hm0 hfs hfm hfd hx haf hbf hfs_ hfp_ hs0 hs1 hp1 hsq0 hfa hva hge hmag
  -- the subtraction is the addition of the negated product: reuse the propagation lemmas with `c ↦ -c`, `p̂ ↦ -p̂`
  have hc' : |(-c)| ≤ 1 := by rwa [abs_neg]
  have e6' : |(-pr) - tab * (-c)| ≤ |tab * (-c)| / 2 ^ 53 + 1 / 2 ^ 1075 := by
    have h1 : (-pr) - tab * (-c) = -(pr - tab * c) := by ring
    have h2 : tab * (-c) = -(tab * c) := by ring
    rw [h1, h2, abs_neg, abs_neg]; exact e6
  have e7' : |R - (s + (-pr))| ≤ |s + (-pr)| / 2 ^ 53 + 1 / 2 ^ 1075 := by
    rw [← sub_eq_add_neg]; exact e7
  have hEq : A * A + B * B - 2 * A * B * c = A * A + B * B + 2 * A * B * (-c) := by ring
  rw [hEq]
  clear e6 e7 hc
  generalize (-c) = c' at *
  generalize (-pr) = pr' at *
  -- the constants
  have ht300 : (1 : ℝ) / 2 ^ 1075 ≤ 1 / 10 ^ 300 := by
    apply one_div_le_one_div_of_le (by positivity)
    calc (10:ℝ) ^ 300 = (10 ^ 3) ^ 100 := by rw [← pow_mul]
      _ ≤ (2 ^ 10) ^ 100 := by gcongr; norm_num
      _ = 2 ^ 1000 := by rw [← pow_mul]
      _ ≤ 2 ^ 1075 := pow_le_pow_right₀ (by norm_num) (by norm_num)
  have ht0 : (0:ℝ) ≤ 1 / 2 ^ 1075 := by positivity
  have hAA : |A * A| = A * A := abs_of_nonneg (mul_nonneg hA0 hA0)
  have hBB : |B * B| = B * B := abs_of_nonneg (mul_nonneg hB0 hB0)
  have h2A : |2 * A| = 2 * A := abs_of_nonneg (by linarith)
  rw [hAA] at e1; rw [hBB] at e2; rw [h2A] at e4
  have htB1 : (1:ℝ) / 10 ^ 300 * B ≤ 1 / 10 ^ 200 := by
    calc (1:ℝ) / 10 ^ 300 * B ≤ (1 / 10 ^ 300) * 10 ^ 100 := mul_le_mul_of_nonneg_left hB1 (by positivity)
      _ = 1 / 10 ^ 200 := by rw [show (300:ℕ) = 200 + 100 by norm_num, pow_add]; field_simp
  have htt : (1:ℝ) / 10 ^ 300 ≤ 1 / 10 ^ 200 :=
    one_div_le_one_div_of_le (by positivity) (pow_le_pow_right₀ (by norm_num) (by norm_num))
  have h200 : (30:ℝ) * (1 / 10 ^ 200) ≤ 1 / 10 ^ 190 := by
    rw [show (200:ℕ) = 190 + 10 by norm_num, pow_add]
    have : (0:ℝ) < 10 ^ 190 := by positivity
    rw [mul_one_div, div_le_div_iff₀ (by positivity) this]
    nlinarith [show (30:ℝ) ≤ 10 ^ 10 by norm_num]
  have hsq190 : Real.sqrt (1 / 10 ^ 190) = 1 / 10 ^ 95 := by
    have : (1:ℝ) / 10 ^ 190 = (1 / 10 ^ 95) ^ 2 := by rw [div_pow, one_pow, ← pow_mul]
    rw [this, Real.sqrt_sq (by positivity)]
  have h95 : (3:ℝ) * (1 / 10 ^ 95) ≤ 1 / 10 ^ 90 := by
    rw [show (95:ℕ) = 90 + 5 by norm_num, pow_add]
    have : (0:ℝ) < 10 ^ 90 := by positivity
    rw [mul_one_div, div_le_div_iff₀ (by positivity) this]
    nlinarith [show (3:ℝ) ≤ 10 ^ 5 by norm_num]
  have h300_95 : (1:ℝ) / 10 ^ 300 ≤ 1 / 10 ^ 95 :=
    one_div_le_one_div_of_le (by positivity) (pow_le_pow_right₀ (by norm_num) (by norm_num))
  have hB95 : (0:ℝ) ≤ 1 / 10 ^ 95 := by positivity
  generalize (1:ℝ) / 2 ^ 1075 = t at *
  have htB : t * B ≤ 1 / 10 ^ 200 := le_trans (mul_le_mul_of_nonneg_right ht300 hB0) htB1
  have htw : t ≤ 1 / 10 ^ 200 := le_trans ht300 htt
  have ht95 : t ≤ 1 / 10 ^ 95 := le_trans ht300 h300_95
  clear hA1 hB1 htB1 htt ht300 h300_95
  generalize (1:ℝ) / 10 ^ 300 = w300 at *
  generalize (1:ℝ) / 10 ^ 200 = w at *
  generalize (1:ℝ) / 10 ^ 190 = W at *
  generalize (1:ℝ) / 10 ^ 95 = u at *
  generalize (1:ℝ) / 10 ^ 90 = U at *
  obtain ⟨e, he⟩ : ∃ e : ℝ, e = 1 / 2 ^ 53 := ⟨_, rfl⟩
  have he0 : 0 ≤ e := by rw [he]; positivity
  have he1 : e ≤ 1 / 4 := by rw [he]; norm_num
  have hdiv : ∀ x : ℝ, x / 2 ^ 53 = x * e := by intro x; rw [he]; ring
  simp only [hdiv] at e1 e2 e3 e4 e5 e6' e7' e8
  have ds := radicand_step1 he0 he1 ht0 e1 e2 e3
  have dp := radicand_step2 hA0 hB0 hc' he0 he1 ht0 e4 e5 e6'
  have dR := radicand_step3 hA0 hB0 hc' he0 he1 ht0 ds dp e7'
  have hP : 0 ≤ A + B := by linarith
  have hAB : 0 ≤ A * B := mul_nonneg hA0 hB0
  have h2abc : |2 * A * B * c'| ≤ 2 * (A * B) := by
    rw [abs_mul, abs_of_nonneg (by linarith : (0:ℝ) ≤ 2 * A * B)]
    calc 2 * A * B * |c'| ≤ 2 * A * B * 1 := mul_le_mul_of_nonneg_left hc' (by linarith)
      _ = 2 * (A * B) := by ring
  rw [abs_le] at h2abc
  have hE0 : 0 ≤ A * A + B * B + 2 * A * B * c' := by nlinarith [sq_nonneg (A - B), h2abc.1]
  have hEP : A * A + B * B + 2 * A * B * c' ≤ (A + B) ^ 2 := by nlinarith [h2abc.2]
  have hτ0 : 0 ≤ 10 * (t * B) + 20 * t := by have := mul_nonneg ht0 hB0; linarith
  have hRE : |R - (A * A + B * B + 2 * A * B * c')| ≤ (A + B) ^ 2 / 2 ^ 48 + (10 * (t * B) + 20 * t) := by
    have : 10 * ((A + B) ^ 2 * e) ≤ (A + B) ^ 2 / 2 ^ 48 := by
      rw [he]
      have h0 : 0 ≤ (A + B) ^ 2 := by positivity
      have : 10 * ((A + B) ^ 2 * (1 / 2 ^ 53)) = (A + B) ^ 2 * (10 / 2 ^ 53) := by ring
      rw [this, div_eq_mul_one_div ((A + B) ^ 2) (2 ^ 48)]
      exact mul_le_mul_of_nonneg_left (by norm_num) h0
    linarith
  have hfinal := mag_from_radicand hP hE0 hEP he0 hτ0 hRE e8
  have hτW : 10 * (t * B) + 20 * t ≤ W := by linarith
  have hsτ : Real.sqrt (10 * (t * B) + 20 * t) ≤ u := by rw [← hsq190]; exact Real.sqrt_le_sqrt hτW
  have hsτ0 := Real.sqrt_nonneg (10 * (t * B) + 20 * t)
  have hPe : (A + B + (A + B) / 2 ^ 24 + Real.sqrt (10 * (t * B) + 20 * t)) * e ≤ (A + B) * (1 / 2 ^ 50) + u := by
    have h1 : (A + B + (A + B) / 2 ^ 24 + Real.sqrt (10 * (t * B) + 20 * t)) * e
        = (A + B) * ((1 + 1 / 2 ^ 24) * e) + Real.sqrt (10 * (t * B) + 20 * t) * e := by ring
    have h2 : (1 + 1 / 2 ^ 24) * e ≤ 1 / 2 ^ 50 := by rw [he]; norm_num
    have h3 : Real.sqrt (10 * (t * B) + 20 * t) * e ≤ u := le_trans (mul_le_of_le_one_right hsτ0 (by linarith)) hsτ
    have h4 := mul_le_mul_of_nonneg_left h2 hP
    linarith
  have e24 : (A + B) * (1 / 2 ^ 24 + 1 / 2 ^ 50) = (A + B) / 2 ^ 24 + (A + B) * (1 / 2 ^ 50) := by ring
  rw [e24]
  linarith

end Geonum
end GeonumModel
