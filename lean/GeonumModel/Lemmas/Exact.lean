/-
  GeonumModel.Lemmas.Exact — interpretation E: the model over exact reals (`F = ℝ`, `rnd = id`, `π_f = π`).
  Every threshold (`1e-10`, `1e-15`), branch and cast of the code is still present; only rounding is switched off.
-/
import GeonumModel.Lemmas.GradeAngle
import GeonumModel.Spec.RealWitness

set_option linter.unusedSectionVars false
set_option linter.unusedVariables false

namespace GeonumModel.Exact
open GeonumModel FloatLike FloatSpec Angle

/-- total angle of an exact-arithmetic angle, in radians -/
noncomputable def T (a : Angle ℝ) : ℝ := (a.blade : ℝ) * (Real.pi / 2) + a.rem

theorem val_id (x : ℝ) : val (F := ℝ) x = x := rfl
theorem qp_real : val (qp : ℝ) = Real.pi / 2 := by rw [val_qp]; rfl
theorem qp_real' : (qp : ℝ) = Real.pi / 2 := qp_real
theorem e10_real : (e10 : ℝ) = 1 / 10 ^ 10 := by
  have := (e10_spec (F := ℝ)).2; exact this
theorem e15_real : (e15 : ℝ) = 1 / 10 ^ 15 := by
  have := (e15_spec (F := ℝ)).2; exact this

/-- in exact arithmetic the grade angle is exactly `(blade mod 4)·π/2 + rem` -/
theorem gradeAngle_real (a : Angle ℝ) : a.gradeAngle = (a.grade : ℝ) * Real.pi / 2 + a.rem := rfl

/-- the grade angle differs from the total by whole turns -/
theorem gradeAngle_eq_T (a : Angle ℝ) : a.gradeAngle = T a - ((a.blade / 4 : ℕ) : ℝ) * (2 * Real.pi) := by
  rw [gradeAngle_real]
  unfold T grade
  have h : a.blade = 4 * (a.blade / 4) + a.blade % 4 := (Nat.div_add_mod a.blade 4).symm
  have hr : (a.blade : ℝ) = 4 * ((a.blade / 4 : ℕ) : ℝ) + ((a.blade % 4 : ℕ) : ℝ) := by exact_mod_cast h
  rw [hr]; push_cast; ring

theorem cos_gradeAngle (a : Angle ℝ) : Real.cos a.gradeAngle = Real.cos (T a) := by
  rw [gradeAngle_eq_T]
  have := Real.cos_sub_nat_mul_two_pi (T a) (a.blade / 4)
  simpa using this

theorem sin_gradeAngle (a : Angle ℝ) : Real.sin a.gradeAngle = Real.sin (T a) := by
  rw [gradeAngle_eq_T]
  have := Real.sin_sub_nat_mul_two_pi (T a) (a.blade / 4)
  simpa using this

/-- **difference of totals in exact arithmetic**: the total of `b − a` is `T b − T a` up to whole turns and a slack `δ` that is
    non-zero only when the code snapped (remainders within 1e-15, or within 1e-10 of a quarter turn) -/
theorem sub_total_real {a b : Angle ℝ} (ha : a.Inv) (hb : b.Inv) :
    ∃ (δ : ℝ) (m : ℤ), |δ| < 1 / 10 ^ 10 + 1 / 10 ^ 15 ∧ T (b.geometricSub a) = T b - T a + δ + (m : ℝ) * (2 * Real.pi) := by
  obtain ⟨_, s, c, hs, hc, hbl, htot, _, _⟩ := geometricSub_spec hb ha
  set D : ℤ := (b.blade : ℤ) - (a.blade : ℤ) + s with hD
  obtain ⟨m, hm⟩ : ∃ m : ℤ, (wrap4 D : ℤ) = D + 4 * m := by
    have := wrap4_mod D; exact ⟨((wrap4 D : ℤ) - D) / 4, by omega⟩
  have hblr : ((b.geometricSub a).blade : ℝ) = (b.blade : ℝ) - (a.blade : ℝ) + (s : ℝ) + 4 * (m : ℝ) + (c : ℝ) := by
    have : ((b.geometricSub a).blade : ℤ) = (b.blade : ℤ) - (a.blade : ℤ) + s + 4 * m + c := by
      rw [hbl]; push_cast; rw [hm]
    exact_mod_cast this
  rw [qp_real, e10_real] at htot
  simp only [val_id] at htot
  refine ⟨(b.geometricSub a).rem + ((c : ℝ) + (s : ℝ)) * (Real.pi / 2) - (b.rem - a.rem), m, htot, ?_⟩
  unfold T; rw [hblr]; ring

theorem cos_sub_gradeAngle {a b : Angle ℝ} (ha : a.Inv) (hb : b.Inv) :
    ∃ δ : ℝ, |δ| < 1 / 10 ^ 10 + 1 / 10 ^ 15 ∧
      Real.cos (b.geometricSub a).gradeAngle = Real.cos (T b - T a + δ) ∧
      Real.sin (b.geometricSub a).gradeAngle = Real.sin (T b - T a + δ) := by
  obtain ⟨δ, m, hδ, hT⟩ := sub_total_real ha hb
  refine ⟨δ, hδ, ?_, ?_⟩
  · rw [cos_gradeAngle, hT]
    have := Real.cos_add_int_mul_two_pi (T b - T a + δ) m
    simpa using this
  · rw [sin_gradeAngle, hT]
    have := Real.sin_add_int_mul_two_pi (T b - T a + δ) m
    simpa using this

/-- cosine and sine are 1-Lipschitz -/
theorem cos_lipschitz (x d : ℝ) : |Real.cos (x + d) - Real.cos x| ≤ |d| := by
  have := Real.abs_cos_sub_cos_le (x + d) x   -- |cos x - cos y| ≤ |x - y|
  simpa using this
theorem sin_lipschitz (x d : ℝ) : |Real.sin (x + d) - Real.sin x| ≤ |d| := by
  have := Real.abs_sin_sub_sin_le (x + d) x
  simpa using this

end GeonumModel.Exact

namespace GeonumModel.Exact
open GeonumModel FloatLike FloatSpec Angle

/-- **sum of totals in exact arithmetic**: `T(a+b) = T a + T b + δ`, `|δ| < 1e-10 + 1e-15`, no whole turns involved -/
theorem add_total_real {a b : Angle ℝ} (ha : a.Inv) (hb : b.Inv) :
    ∃ δ : ℝ, |δ| < 1 / 10 ^ 10 + 1 / 10 ^ 15 ∧ T (a.geometricAdd b) = T a + T b + δ := by
  have h := (geometricAdd_spec ha hb).2.2
  rw [qp_real, e10_real] at h
  simp only [val_id] at h
  refine ⟨(a.geometricAdd b).rem + (((a.geometricAdd b).blade : ℝ) - ((a.blade + b.blade : ℕ) : ℝ)) * (Real.pi / 2)
      - (a.rem + b.rem), h, ?_⟩
  unfold T; push_cast; ring

/-- adding a whole number of quarter turns is exact -/
theorem add_whole_total_real {a z : Angle ℝ} (ha : a.Inv) (hz : z.rem = 0) :
    T (a.geometricAdd z) = T a + T z := by
  obtain ⟨hb, _, hr⟩ := add_whole (F := ℝ) ha trivial hz
  simp only [val_id] at hr
  unfold T; rw [hb, hr, hz]; push_cast; ring

/-- the literal constants -/
theorem T_new_one_one : T (Angle.new (one : ℝ) one) = Real.pi ∧ (Angle.new (one : ℝ) one).rem = 0 := by
  obtain ⟨hb, _, _, hv⟩ := new_one_one (F := ℝ)
  simp only at hb hv
  have hv' : (Angle.new (one : ℝ) one).rem = 0 := by
    have : val (F := ℝ) (zero : ℝ) = 0 := val_zero
    rw [this] at hv; exact hv
  refine ⟨?_, hv'⟩
  unfold T; rw [hb, hv']; push_cast; ring

theorem negate_total_real {a : Angle ℝ} (ha : a.Inv) : T a.negate = T a + Real.pi := by
  unfold Angle.negate; simp only [Angle.add, addVV]
  rw [add_whole_total_real ha T_new_one_one.2, T_new_one_one.1]

end GeonumModel.Exact
