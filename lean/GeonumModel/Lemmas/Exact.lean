/-
  GeonumModel.Lemmas.Exact — interpretation E: the model over exact reals (`F = ℝ`, `rnd = id`, `π_f = π`).
  Every threshold (`1e-10`, `1e-15`), branch and cast of the code is still present; only rounding is switched off.
-/
import GeonumModel.Lemmas.GradeAngle
import GeonumModel.Spec.RealWitness

set_option linter.unusedSectionVars false
set_option linter.unusedVariables false

namespace GeonumModel.Exact
open GeonumModel FloatLike FloatSpec Angle

/-- total angle of an exact-arithmetic angle, in radians -/
noncomputable def T (a : Angle ℝ) : ℝ := (a.blade : ℝ) * (Real.pi / 2) + a.rem

theorem val_id (x : ℝ) : val (F := ℝ) x = x := rfl
theorem qp_real : val (qp : ℝ) = Real.pi / 2 := by rw [val_qp]; rfl
theorem qp_real' : (qp : ℝ) = Real.pi / 2 := qp_real
theorem e10_real : (e10 : ℝ) = 1 / 10 ^ 10 := by
  have := (e10_spec (F := ℝ)).2; exact this
theorem e15_real : (e15 : ℝ) = 1 / 10 ^ 15 := by
  have := (e15_spec (F := ℝ)).2; exact this

/-- in exact arithmetic the grade angle is exactly `(blade mod 4)·π/2 + rem` -/
theorem gradeAngle_real (a : Angle ℝ) : a.gradeAngle = (a.grade : ℝ) * Real.pi / 2 + a.rem := rfl

/-- the grade angle differs from the total by whole turns -/
theorem gradeAngle_eq_T (a : Angle ℝ) : a.gradeAngle = T a - ((a.blade / 4 : ℕ) : ℝ) * (2 * Real.pi) := by
  rw [gradeAngle_real]
  unfold T grade
  have h : a.blade = 4 * (a.blade / 4) + a.blade % 4 := (Nat.div_add_mod a.blade 4).symm
  have hr : (a.blade : ℝ) = 4 * ((a.blade / 4 : ℕ) : ℝ) + ((a.blade % 4 : ℕ) : ℝ) := by exact_mod_cast h
  rw [hr]; push_cast; ring

theorem cos_gradeAngle (a : Angle ℝ) : Real.cos a.gradeAngle = Real.cos (T a) := by
  rw [gradeAngle_eq_T]
  have := Real.cos_sub_nat_mul_two_pi (T a) (a.blade / 4)
  simpa using this

theorem sin_gradeAngle (a : Angle ℝ) : Real.sin a.gradeAngle = Real.sin (T a) := by
  rw [gradeAngle_eq_T]
  have := Real.sin_sub_nat_mul_two_pi (T a) (a.blade / 4)
  simpa using this

/-- **difference of totals in exact arithmetic**: the total of `b − a` is `T b − T a` up to whole turns and a slack `δ` that is
    non-zero only when the code snapped (remainders within 1e-15, or within 1e-10 of a quarter turn) -/
theorem sub_total_real {a b : Angle ℝ} (ha : a.Inv) (hb : b.Inv) :
    ∃ (δ : ℝ) (m : ℤ), |δ| < 1 / 10 ^ 10 + 1 / 10 ^ 15 ∧ T (b.geometricSub a) = T b - T a + δ + (m : ℝ) * (2 * Real.pi) := by
  obtain ⟨_, s, c, hs, hc, hbl, htot, _, _⟩ := geometricSub_spec hb ha
  set D : ℤ := (b.blade : ℤ) - (a.blade : ℤ) + s with hD
  obtain ⟨m, hm⟩ : ∃ m : ℤ, (wrap4 D : ℤ) = D + 4 * m := by
    have := wrap4_mod D; exact ⟨((wrap4 D : ℤ) - D) / 4, by omega⟩
  have hblr : ((b.geometricSub a).blade : ℝ) = (b.blade : ℝ) - (a.blade : ℝ) + (s : ℝ) + 4 * (m : ℝ) + (c : ℝ) := by
    have : ((b.geometricSub a).blade : ℤ) = (b.blade : ℤ) - (a.blade : ℤ) + s + 4 * m + c := by
      rw [hbl]; push_cast; rw [hm]
    exact_mod_cast this
  rw [qp_real, e10_real] at htot
  simp only [val_id] at htot
  refine ⟨(b.geometricSub a).rem + ((c : ℝ) + (s : ℝ)) * (Real.pi / 2) - (b.rem - a.rem), m, htot, ?_⟩
  unfold T; rw [hblr]; ring

theorem cos_sub_gradeAngle {a b : Angle ℝ} (ha : a.Inv) (hb : b.Inv) :
    ∃ δ : ℝ, |δ| < 1 / 10 ^ 10 + 1 / 10 ^ 15 ∧
      Real.cos (b.geometricSub a).gradeAngle = Real.cos (T b - T a + δ) ∧
      Real.sin (b.geometricSub a).gradeAngle = Real.sin (T b - T a + δ) := by
  obtain ⟨δ, m, hδ, hT⟩ := sub_total_real ha hb
  refine ⟨δ, hδ, ?_, ?_⟩
  · rw [cos_gradeAngle, hT]
    have := Real.cos_add_int_mul_two_pi (T b - T a + δ) m
    simpa using this
  · rw [sin_gradeAngle, hT]
    have := Real.sin_add_int_mul_two_pi (T b - T a + δ) m
    simpa using this

/-- cosine and sine are 1-Lipschitz -/
theorem cos_lipschitz (x d : ℝ) : |Real.cos (x + d) - Real.cos x| ≤ |d| := by
  have := Real.abs_cos_sub_cos_le (x + d) x   -- |cos x - cos y| ≤ |x - y|
  simpa using this
theorem sin_lipschitz (x d : ℝ) : |Real.sin (x + d) - Real.sin x| ≤ |d| := by
  have := Real.abs_sin_sub_sin_le (x + d) x
  simpa using this

end GeonumModel.Exact

namespace GeonumModel.Exact
open GeonumModel FloatLike FloatSpec Angle

/-- **sum of totals in exact arithmetic**: `T(a+b) = T a + T b + δ`, `|δ| < 1e-10 + 1e-15`, no whole turns involved -/
theorem add_total_real {a b : Angle ℝ} (ha : a.Inv) (hb : b.Inv) :
    ∃ δ : ℝ, |δ| < 1 / 10 ^ 10 + 1 / 10 ^ 15 ∧ T (a.geometricAdd b) = T a + T b + δ := by
  have h := (geometricAdd_spec ha hb).2.2
  rw [qp_real, e10_real] at h
  simp only [val_id] at h
  refine ⟨(a.geometricAdd b).rem + (((a.geometricAdd b).blade : ℝ) - ((a.blade + b.blade : ℕ) : ℝ)) * (Real.pi / 2)
      - (a.rem + b.rem), h, ?_⟩
  unfold T; push_cast; ring

/-- adding a whole number of quarter turns is exact -/
theorem add_whole_total_real {a z : Angle ℝ} (ha : a.Inv) (hz : z.rem = 0) :
    T (a.geometricAdd z) = T a + T z := by
  obtain ⟨hb, _, hr⟩ := add_whole (F := ℝ) ha trivial hz
  simp only [val_id] at hr
  unfold T; rw [hb, hr, hz]; push_cast; ring

/-- the literal constants -/
theorem T_new_one_one : T (Angle.new (one : ℝ) one) = Real.pi ∧ (Angle.new (one : ℝ) one).rem = 0 := by
  obtain ⟨hb, _, _, hv⟩ := new_one_one (F := ℝ)
  simp only at hb hv
  have hv' : (Angle.new (one : ℝ) one).rem = 0 := by
    have : val (F := ℝ) (zero : ℝ) = 0 := val_zero
    rw [this] at hv; exact hv
  refine ⟨?_, hv'⟩
  unfold T; rw [hb, hv']; push_cast; ring

theorem negate_total_real {a : Angle ℝ} (ha : a.Inv) : T a.negate = T a + Real.pi := by
  unfold Angle.negate; simp only [Angle.add, addVV]
  rw [add_whole_total_real ha T_new_one_one.2, T_new_one_one.1]

end GeonumModel.Exact

namespace GeonumModel.Exact
open GeonumModel FloatLike FloatSpec Angle

theorem lit_real : (zero : ℝ) = 0 ∧ (one : ℝ) = 1 ∧ (two : ℝ) = 2 ∧ (three : ℝ) = 3 ∧ (four : ℝ) = 4 := by
  refine ⟨?_, ?_, ?_, ?_, ?_⟩
  · exact val_zero (F := ℝ)
  · exact val_one (F := ℝ)
  · exact val_two (F := ℝ)
  · exact val_three (F := ℝ)
  · exact val_four (F := ℝ)

theorem pi_real : (FloatLike.pi : ℝ) = Real.pi := rfl

/-! the operations of the exact-arithmetic instance, as rewriting rules -/
theorem r_add (a b : ℝ) : fadd a b = a + b := rfl
theorem r_sub (a b : ℝ) : fsub a b = a - b := rfl
theorem r_mul (a b : ℝ) : fmul a b = a * b := rfl
theorem r_div (a b : ℝ) : fdiv a b = a / b := rfl
theorem r_neg (a : ℝ) : fneg a = -a := rfl
theorem r_abs (a : ℝ) : fabs a = |a| := rfl
theorem r_max (a b : ℝ) : fmax a b = max a b := rfl
theorem r_ceil (a : ℝ) : FloatLike.ceil a = ((⌈a⌉ : ℤ) : ℝ) := rfl
theorem r_usize (a : ℝ) : toUsize a = ⌊a⌋₊ := rfl
theorem r_lt (a b : ℝ) : flt a b = decide (a < b) := rfl
theorem r_le (a b : ℝ) : fle a b = decide (a ≤ b) := rfl
theorem r_eq (a b : ℝ) : feq a b = decide (a = b) := rfl

/-- the normalised total in exact arithmetic: `p·π/d` shifted up by whole turns until non-negative -/
theorem newTotal_real (p d : ℝ) :
    ∃ n : ℕ, Angle.newTotal p d = p * Real.pi / d + (n : ℝ) * (2 * Real.pi) ∧ 0 ≤ Angle.newTotal p d ∧
      Angle.newTotal p d ≤ |p * Real.pi / d| + 2 * Real.pi ∧
      (p * Real.pi / d < 0 → Angle.newTotal p d < 2 * Real.pi) ∧ (0 ≤ p * Real.pi / d → n = 0) := by
  have hpi := Real.pi_pos
  set t : ℝ := p * Real.pi / d with ht
  have hform : Angle.newTotal p d =
      if t < 0 then max (t + ((⌈|t| / (4 * (Real.pi / 2))⌉ : ℤ) : ℝ) * 4 * (Real.pi / 2)) 0 else t := by
    have hraw : Angle.newRawTotal p d = t := by
      unfold Angle.newRawTotal
      simp only [r_mul, r_div, pi_real]
      split
      · rfl
      · rw [ht]; ring
    unfold Angle.newTotal
    simp only [r_add, r_mul, r_div, r_abs, r_max, r_ceil, r_lt, lit_real.1, lit_real.2.2.2.2, qp_real',
      decide_eq_true_eq, hraw]
  rw [hform]
  by_cases h : t < 0
  · rw [if_pos h]
    have h2pi : (4:ℝ) * (Real.pi / 2) = 2 * Real.pi := by ring
    rw [h2pi]
    have hq0 : 0 ≤ |t| / (2 * Real.pi) := by positivity
    have hn0 : (0:ℤ) ≤ ⌈|t| / (2 * Real.pi)⌉ := Int.ceil_nonneg hq0
    obtain ⟨n, hn⟩ : ∃ n : ℕ, (n : ℤ) = ⌈|t| / (2 * Real.pi)⌉ := ⟨_, Int.toNat_of_nonneg hn0⟩
    have hnr : (n : ℝ) = ((⌈|t| / (2 * Real.pi)⌉ : ℤ) : ℝ) := by exact_mod_cast congrArg (Int.cast (R := ℝ)) hn
    rw [← hnr]
    have hc1 : |t| / (2 * Real.pi) ≤ n := by rw [hnr]; exact Int.le_ceil _
    have hc2 : (n : ℝ) < |t| / (2 * Real.pi) + 1 := by rw [hnr]; exact Int.ceil_lt_add_one _
    have habs : |t| = -t := abs_of_neg h
    have hc1' : |t| ≤ (n : ℝ) * (2 * Real.pi) := by rwa [div_le_iff₀ (by positivity)] at hc1
    have hge : 0 ≤ t + (n : ℝ) * 4 * (Real.pi / 2) := by nlinarith
    rw [max_eq_left hge]
    have hlt : (n : ℝ) * (2 * Real.pi) < |t| + 2 * Real.pi := by
      have := mul_lt_mul_of_pos_right hc2 (show (0:ℝ) < 2 * Real.pi by positivity)
      rw [add_mul, div_mul_cancel₀ _ (by positivity : (2 * Real.pi) ≠ 0), one_mul] at this
      exact this
    refine ⟨n, by ring, hge, by nlinarith, fun _ => by nlinarith, fun hc => absurd hc (not_le.mpr h)⟩
  · rw [if_neg h]
    push Not at h
    exact ⟨0, by simp, h, by rw [abs_of_nonneg h]; linarith, fun hc => absurd hc (not_lt.mpr h), fun _ => rfl⟩

/-- **what `Angle::new` denotes, in exact arithmetic**: the total is `p·π/d` up to whole turns and a snap slack below `1e-10`;
    the result is canonical -/
theorem new_total_real {p d : ℝ} (hb : |p * Real.pi / d| ≤ 2 ^ 42) :
    (Angle.new p d).Inv ∧
    ∃ (δ : ℝ) (m : ℤ), |δ| < 1 / 10 ^ 10 ∧ T (Angle.new p d) = p * Real.pi / d + δ + (m : ℝ) * (2 * Real.pi) := by
  have hpi3 := Real.pi_gt_three; have hpi4 := Real.pi_lt_four
  unfold Angle.new
  by_cases hfast : (feq d (two : ℝ) && feq (FloatLike.fract p) (zero : ℝ)) = true
  · rw [if_pos hfast]
    refine ⟨inv_zero _, ?_⟩
    rw [Bool.and_eq_true] at hfast
    have hd2 : d = 2 := by
      have := hfast.1; rw [lit_real.2.2.1, r_eq] at this; simpa using this
    have hint : ∃ k : ℤ, p = k := by
      have := (fract_spec (F := ℝ) (a := p) trivial).2
      simp only [val_id] at this
      apply this.mp
      have h2 := hfast.2; rw [lit_real.1, r_eq] at h2; simpa using h2
    obtain ⟨k, hk⟩ := hint
    unfold Angle.newFast
    simp only
    by_cases hneg : flt p (zero : ℝ) = true
    · rw [if_pos hneg]
      have hp0 : p < 0 := by rw [lit_real.1, r_lt] at hneg; simpa using hneg
      set j : ℤ := ⌈(-p + 3) / 4⌉ with hj
      have hsum : fadd p (fmul (FloatLike.ceil (fdiv (fadd (fneg p) (three : ℝ)) (four : ℝ))) (four : ℝ)) = p + (j : ℝ) * 4 := by
        simp only [r_add, r_mul, r_div, r_neg, r_ceil, lit_real.2.2.2.1, lit_real.2.2.2.2, hj]
      have hjge : (-p + 3) / 4 ≤ j := Int.le_ceil _
      have hnn : 0 ≤ p + (j : ℝ) * 4 := by linarith
      have hval : p + (j : ℝ) * 4 = ((k + 4 * j : ℤ) : ℝ) := by rw [hk]; push_cast; ring
      have hkz : 0 ≤ k + 4 * j := by
        have : (0:ℝ) ≤ ((k + 4 * j : ℤ) : ℝ) := by rw [← hval]; exact hnn
        exact_mod_cast this
      have hbl : toUsize (fadd p (fmul (FloatLike.ceil (fdiv (fadd (fneg p) (three : ℝ)) (four : ℝ))) (four : ℝ))) = (k + 4 * j).toNat := by
        rw [hsum, hval, r_usize, ← Int.floor_toNat, Int.floor_intCast]
      rw [hbl]
      refine ⟨0, j, by norm_num, ?_⟩
      have hcast : (((k + 4 * j).toNat : ℕ) : ℝ) = (k : ℝ) + 4 * (j : ℝ) := by
        have h2 : (((k + 4 * j).toNat : ℤ) : ℝ) = ((k + 4 * j : ℤ) : ℝ) := by rw [Int.toNat_of_nonneg hkz]
        push_cast at h2 ⊢; linarith
      show (((k + 4 * j).toNat : ℕ) : ℝ) * (Real.pi / 2) + (zero : ℝ) = _
      rw [hcast, hd2, hk, lit_real.1]; ring
    · rw [if_neg hneg]
      have hp0 : 0 ≤ p := by
        rw [lit_real.1, r_lt] at hneg
        have : ¬ p < 0 := by simpa using hneg
        exact not_lt.mp this
      have hkz : 0 ≤ k := by
        have : (0:ℝ) ≤ (k : ℝ) := by rw [← hk]; exact hp0
        exact_mod_cast this
      have hbl : toUsize p = k.toNat := by rw [hk, r_usize, ← Int.floor_toNat, Int.floor_intCast]
      rw [hbl]
      refine ⟨0, 0, by norm_num, ?_⟩
      have hcast : ((k.toNat : ℕ) : ℝ) = (k : ℝ) := by
        have h2 : ((k.toNat : ℤ) : ℝ) = (k : ℝ) := by rw [Int.toNat_of_nonneg hkz]
        exact_mod_cast h2
      show ((k.toNat : ℕ) : ℝ) * (Real.pi / 2) + (zero : ℝ) = _
      rw [hcast, hd2, hk, lit_real.1]; push_cast; ring
  · rw [if_neg hfast]
    obtain ⟨n, hnt, hnt0, hntb, _, _⟩ := newTotal_real p d
    have hbig : val (F := ℝ) (Angle.newTotal p d) ≤ 2 ^ 48 := by
      show Angle.newTotal p d ≤ 2 ^ 48
      have : (2:ℝ) ^ 42 + 2 * 4 ≤ 2 ^ 48 := by norm_num
      linarith
    have hcore := newCore_spec (F := ℝ) (Angle.newTotal p d) trivial hnt0 hbig
    simp only at hcore
    obtain ⟨hinv, hcase⟩ := hcore
    have hnew : Angle.newGeneral p d = normalizeBoundaries ⟨fmod (Angle.newTotal p d) qp,
        toUsize (FloatLike.round (fdiv (fsub (Angle.newTotal p d) (fmod (Angle.newTotal p d) qp)) qp))⟩ := rfl
    rw [hnew]
    refine ⟨hinv, ?_⟩
    rw [qp_real, e10_real] at hcase
    simp only [val_id] at hcase
    rcases hcase with ⟨_, hT⟩ | ⟨_, hr0, hT⟩
    · refine ⟨0, (n : ℤ), by norm_num, ?_⟩
      unfold T; rw [hT, hnt]; push_cast; ring
    · refine ⟨_, (n : ℤ), hT, ?_⟩
      unfold T; rw [hr0, hnt]; push_cast; ring

end GeonumModel.Exact

namespace GeonumModel.Exact
open GeonumModel FloatLike FloatSpec Angle

/-- general path with a non-negative total: no whole turns are added — `T(new p d) = p·π/d + δ` -/
theorem new_total_nonneg_real {p d : ℝ} (hb : |p * Real.pi / d| ≤ 2 ^ 42) (h0 : 0 ≤ p * Real.pi / d)
    (hfast : (feq d (two : ℝ) && feq (FloatLike.fract p) (zero : ℝ)) = false) :
    ∃ δ : ℝ, |δ| < 1 / 10 ^ 10 ∧ T (Angle.new p d) = p * Real.pi / d + δ := by
  obtain ⟨n, hnt, hnt0, hntb, _, hn0⟩ := newTotal_real p d
  have hn : n = 0 := hn0 h0
  rw [hn] at hnt
  simp only [Nat.cast_zero, zero_mul, add_zero] at hnt
  have hbig : val (F := ℝ) (Angle.newTotal p d) ≤ 2 ^ 48 := by
    show Angle.newTotal p d ≤ 2 ^ 48
    have := Real.pi_lt_four
    have : (2:ℝ) ^ 42 + 2 * 4 ≤ 2 ^ 48 := by norm_num
    linarith
  have hcore := (newCore_spec (F := ℝ) (Angle.newTotal p d) trivial hnt0 hbig).2
  have hnew : Angle.new p d = normalizeBoundaries ⟨fmod (Angle.newTotal p d) qp,
      toUsize (FloatLike.round (fdiv (fsub (Angle.newTotal p d) (fmod (Angle.newTotal p d) qp)) qp))⟩ := by
    unfold Angle.new newGeneral; simp [hfast]
  rw [← hnew, qp_real, e10_real] at hcore
  simp only [val_id] at hcore
  rcases hcore with ⟨_, hT⟩ | ⟨_, hr0, hT⟩
  · exact ⟨0, by norm_num, by unfold T; rw [hT, hnt]; ring⟩
  · exact ⟨_, hT, by unfold T; rw [hr0, hnt]; ring⟩

end GeonumModel.Exact
